/-
  C16 — model of `cij/io/config/validate.py`: `jsonschema.validate(instance=config, schema=<packaged schema>)`.

  The packaged schema has no "$schema" key, so jsonschema (4.x) picks its newest draft, 2020-12
  (`validators.validator_for(schema)` → `Draft202012Validator`; measured by the harness on every run).
  In that draft a schema object is evaluated by iterating over ALL its keywords (`iter_errors`:
  `for k, v in schema.items(): VALIDATORS.get(k)`), `$ref` is just one more keyword — siblings of `$ref`
  are honoured — and keywords without a validator (`title`, `description`, `definitions`, `$$target`, …)
  are ignored.  The instance is valid iff no keyword yields an error.

  Modelled keywords (the ones the packaged schema uses): type, required, properties, $ref (JSON pointer
  `#/a/b` into the root document), enum (scalar entries), minimum, additionalProperties; boolean schemas.
  `supported` states that a schema stays inside this fragment (and is well-formed enough for
  `check_schema`); the property file proves `supported Generated.configSchema`.

  No Mathlib.  Recursion is on a fuel (one unit per descent into a sub-schema or `$ref` hop), which keeps the
  definition first-order (`List.all`), fast for the kernel, and total.
-/
import CijModel.Config
import Generated.ConfigSchema

namespace Cij.Schema
open Cij Cij.Config

/-! ### instance predicates (jsonschema `_types.py`, draft 4+ type checker) -/

/-- `float.is_integer()` or a Python `int` (and never a `bool`: bools are a separate constructor) -/
def isInteger : J → Bool
  | .num n d i => i || (d != 0 && n % (d : Int) == 0)
  | _ => false

def isNumber : J → Bool
  | .num _ _ _ => true
  | _ => false

/-- `validator.is_type(instance, t)` -/
def typeOk (t : String) (v : J) : Bool :=
  if t = "object" then isObj v
  else if t = "array" then (match v with | .arr _ => true | _ => false)
  else if t = "string" then (match v with | .str _ => true | _ => false)
  else if t = "boolean" then (match v with | .bool _ => true | _ => false)
  else if t = "null" then (match v with | .null => true | _ => false)
  else if t = "number" then isNumber v
  else if t = "integer" then isInteger v
  else false   -- unknown type name: jsonschema raises (SchemaError from check_schema): nothing is accepted

/-- keyword `type` (`_keywords.type`): a name or a list of names -/
def typeKw (a : J) (v : J) : Bool :=
  match a with
  | .str t => typeOk t v
  | .arr ts => ts.any (fun t => match t with | .str t => typeOk t v | _ => false)
  | _ => false

/-- keyword `minimum` (`_keywords.minimum`): ignored unless the instance is a number; fails iff instance < minimum
(exact comparison, as Python compares int/float exactly) -/
def minOk (mn : Int) (md : Nat) : J → Bool
  | .num n d _ => !(n * (md : Int) < mn * (d : Int))
  | _ => true

def minimumKw (a : J) (v : J) : Bool :=
  match a with
  | .num mn md _ => minOk mn md v
  | _ => false

/-- `_utils.equal` on scalars: strings by value, numbers by value (1 == 1.0), bool only equal to bool
(`unbool`), None to None.  Lists/dicts as enum entries are outside the modelled fragment (`supported`). -/
def pyEqAtom : J → J → Bool
  | .null, .null => true
  | .bool a, .bool b => a == b
  | .num n d _, .num n' d' _ => n * (d' : Int) == n' * (d : Int)
  | .str a, .str b => a == b
  | _, _ => false

/-- keyword `enum` -/
def enumKw (a : J) (v : J) : Bool :=
  match a with
  | .arr es => es.any (fun e => pyEqAtom e v)
  | _ => false

/-- keyword `required` (ignored unless the instance is a dict) -/
def requiredKw (a : J) (v : J) : Bool :=
  match a with
  | .arr names => (match v with
      | .obj ikv => names.all (fun n => match n with | .str n => hasKey n ikv | _ => false)
      | _ => true)
  | _ => false

/-- `schema.get("properties", {})` — the names that `additionalProperties` does not look at
(`_utils.find_additional_properties`; `patternProperties` is outside the fragment) -/
def propKeys (whole : KV) : List String :=
  match lookup "properties" whole with
  | some (.obj props) => keys props
  | _ => []

/-- keyword `additionalProperties` with the sub-schema evaluator `f` for its value -/
def extrasOk (f : J → Bool) (names : List String) (ikv : KV) : Bool :=
  ikv.all (fun kv => names.contains kv.1 || f kv.2)

/-! ### `$ref`: JSON pointers into the root document -/

def splitC (c : Char) : List Char → List (List Char)
  | [] => [[]]
  | x :: xs => if x = c then [] :: splitC c xs else
      match splitC c xs with
      | [] => [[x]]
      | t :: ts => (x :: t) :: ts

def getTokens : J → List (List Char) → Option J
  | j, [] => some j
  | .obj kv, t :: ts => (match lookup (String.ofList t) kv with
      | some v => getTokens v ts
      | none => none)
  | _, _ :: _ => none

/-- `"#/definitions/x"` → `root["definitions"]["x"]`; `"#"` → root; anything else (other documents, `~`/`%`
escapes) is outside the fragment: `none` -/
def resolve (root : J) (ref : String) : Option J :=
  match splitC '/' ref.toList with
  | ['#'] :: toks => if toks.all (fun t => t.all (fun c => c != '~' && c != '%')) then getTokens root toks else none
  | _ => none

/-! ### the evaluator -/

/-- keyword `$ref` (`_keywords.ref` → `_validate_reference`): the instance must satisfy the referenced schema -/
def refKw (rec : J → J → Bool) (root : J) (a : J) (x : J) : Bool :=
  match a with
  | .str r => (match resolve root r with | some t => rec t x | none => false)
  | _ => false

/-- keyword `properties`: every listed property that the instance has is checked against its sub-schema
(ignored unless the instance is a dict) -/
def propsKw (rec : J → J → Bool) (a : J) (x : J) : Bool :=
  match a with
  | .obj props => (match x with
      | .obj ikv => props.all (fun q => match lookup q.1 ikv with | some y => rec q.2 y | none => true)
      | _ => true)
  | _ => false

/-- keyword `additionalProperties`: every key of the instance that is not listed in the sibling `properties`
must satisfy the sub-schema `a` (`false`: no such key may exist) -/
def apKw (rec : J → J → Bool) (whole : KV) (a : J) (x : J) : Bool :=
  match x with
  | .obj ikv => extrasOk (rec a) (propKeys whole) ikv
  | _ => true

/-- one keyword `kw: a` of the schema object `whole`, applied to instance `x`.
`rec S y` evaluates a sub-schema `S` on `y` (the recursive call `validator.descend` / `_validate_reference`). -/
def kwOk (rec : J → J → Bool) (root : J) (whole : KV) (kw : String) (a : J) (x : J) : Bool :=
  if kw = "type" then typeKw a x
  else if kw = "required" then requiredKw a x
  else if kw = "enum" then enumKw a x
  else if kw = "minimum" then minimumKw a x
  else if kw = "$ref" then refKw rec root a x
  else if kw = "properties" then propsKw rec a x
  else if kw = "additionalProperties" then apKw rec whole a x
  else true                                      -- keyword without validator: ignored

/-- `iter_errors(instance)` of a validator for schema `S` (inside root document `root`) yields nothing.
The loop `for k, v in schema.items()` is `kws.all`.  Every descent (sub-schema of `properties` /
`additionalProperties`, `$ref` hop) consumes one unit of `fuel`; running out of fuel rejects (a cycle of
references makes jsonschema recurse without end). -/
def valid (root : J) : Nat → J → J → Bool
  | 0, _, _ => false
  | _ + 1, .bool b, _ => b                        -- True / False schema
  | n + 1, .obj kws, x => kws.all (fun e => kwOk (valid root n) root kws e.1 e.2 x)
  | _ + 1, _, _ => false                          -- not a schema

def fuel : Nat := 32

/-- `jsonschema.validate(instance=x, schema=root)` raises nothing -/
def validate (root : J) (x : J) : Bool := valid root fuel root x

/-- `validate_config(config)` (validate.py): the schema is the packaged `cij/data/schema/config.schema.json`,
here its translation `Generated.configSchema` (re-translated on every run) -/
def validateConfig (cfg : J) : Bool := validate Generated.configSchema cfg

/-! ### the modelled fragment -/

def typeNames : List String := ["object", "array", "string", "boolean", "null", "number", "integer"]

def isAtom : J → Bool
  | .arr _ => false
  | .obj _ => false
  | _ => true

/-- keywords that jsonschema's 2020-12 validator (or its `$schema`/`$id` machinery) gives a meaning to and
that are NOT modelled here -/
def unmodelled : List String :=
  ["$schema", "$id", "$anchor", "$dynamicRef", "$dynamicAnchor", "$vocabulary", "allOf", "anyOf", "oneOf", "not",
   "if", "then", "else", "const", "contains", "dependentRequired", "dependentSchemas", "exclusiveMaximum",
   "exclusiveMinimum", "format", "items", "prefixItems", "maxItems", "minItems", "maxLength", "minLength",
   "maxProperties", "minProperties", "maximum", "multipleOf", "pattern", "patternProperties", "propertyNames",
   "unevaluatedItems", "unevaluatedProperties", "uniqueItems", "maxContains", "minContains"]

/-- the schema uses only modelled keywords, with well-formed values (what `check_schema` insists on for
them), every `$ref` resolves, and the nesting stays within the fuel -/
def supportedS (root : J) : Nat → J → Bool
  | 0, _ => false
  | _ + 1, .bool _ => true
  | n + 1, .obj kws => kws.all (fun e =>
      let kw := e.1; let a := e.2
      if kw = "type" then
        (match a with
         | .str t => typeNames.contains t
         | .arr ts => ts.all (fun t => match t with | .str t => typeNames.contains t | _ => false)
         | _ => false)
      else if kw = "required" then
        (match a with | .arr ns => ns.all (fun n => match n with | .str _ => true | _ => false) | _ => false)
      else if kw = "enum" then (match a with | .arr es => es.all isAtom | _ => false)
      else if kw = "minimum" then (match a with | .num _ d _ => d != 0 | _ => false)
      else if kw = "$ref" then (match a with | .str r => (resolve root r).isSome | _ => false)
      else if kw = "properties" then (match a with | .obj props => props.all (fun q => supportedS root n q.2) | _ => false)
      else if kw = "additionalProperties" then supportedS root n a
      else if kw = "definitions" ∨ kw = "$defs" then
        (match a with | .obj defs => defs.all (fun q => supportedS root n q.2) | _ => false)
      else if kw = "title" ∨ kw = "description" then (match a with | .str _ => true | _ => false)
      else !(unmodelled.contains kw))
  | _ + 1, _ => false

/-- half the fuel is left for the `$ref` hops -/
def supported (root : J) : Bool := supportedS root (fuel / 2) root

/-! ### which schemas apply at a path of the instance (used to state field-by-field theorems) -/

/-- sub-schemas that schema `S` applies to the value of key `k` of a dict instance:
`properties[k]` (every "properties" entry) and `additionalProperties` when `k` is not a listed property -/
def childSchemas (S : J) (k : String) : List J :=
  match S with
  | .obj kws => kws.flatMap (fun e =>
      if e.1 = "properties" then
        (match e.2 with
         | .obj props => props.filterMap (fun q => if q.1 = k then some q.2 else none)
         | _ => [])
      else if e.1 = "additionalProperties" then
        (if (propKeys kws).contains k then [] else [e.2])
      else [])
  | _ => []

/-- targets of the `$ref` keyword(s) of `S` -/
def refTargets (root : J) (S : J) : List J :=
  match S with
  | .obj kws => kws.filterMap (fun e =>
      if e.1 = "$ref" then (match e.2 with | .str r => resolve root r | _ => none) else none)
  | _ => []

/-- `(m, T) ∈ applic root n S p`: while `valid root n S x` runs, the value at path `p` of `x` is checked
against `T` by `valid root m T` -/
def applic (root : J) : Nat → J → List String → List (Nat × J)
  | 0, S, _ => [(0, S)]          -- out of fuel: `valid root 0 S _ = false`
  | n + 1, S, p =>
      (match p with
       | [] => [(n + 1, S)]
       | k :: q => (childSchemas S k).flatMap (fun C => applic root n C q))
      ++ (refTargets root S).flatMap (fun T => applic root n T p)

/-- all schemas the packaged validation applies to `cfg[p]` -/
def applicable (root : J) (p : List String) : List (Nat × J) := applic root fuel root p

end Cij.Schema
