/-
  Executable model of `cij/core/phonon_contribution/nonshear.py` (C01, C02) — no Mathlib.

  One definition, polymorphic in the scalar `α`:
    * instantiated at `Float` by the driver (`Ops/C01.lean`) on the very arrays the Python classes get,
    * instantiated at `ℝ` in `CijProofs/Lemmas/NonShearCalculus.lean` where the theorems are stated.

  Arrays are nested `List`s indexed as the numpy axes: `[t][v][q][m]`.  numpy broadcasting is written out
  as explicit `map` / `zipWith`.  A single (T, V) grid point is computed by the `…At` functions on the
  `[q][m]` slices; the grid functions at the end of the file map them over the `t` and `v` axes exactly as
  the broadcast does (`[:, nax]`, `[nax, :]`).

  The unit constants `h` (Ry·cm), `k` (Ry/K), `hdk` (= h/k in cm·K) are parameters: the driver is handed the
  numbers the Python module really uses (`_h`, `_k` through pint, `h_div_k`); the harness separately compares
  them with CODATA values.

  The integer denominators of the prefactors come from `Generated.prefLong` / `Generated.prefOff`, which the
  translator re-extracts from `nonshear.py` on every run.
-/
import Generated.Prefactors

namespace Cij.NonShear

/-- What the model needs from a scalar beyond `+ - * / neg`: numerals, `exp`, and the test `x == 0`
(numpy's `t_array == 0`; true for `-0.0` as well). -/
class Scalar (α : Type) where
  ofNat : Nat → α
  exp : α → α
  isZero : α → Bool

instance : Scalar Float where
  ofNat := Float.ofNat
  exp := Float.exp
  isZero x := x == 0.0

section
variable {α : Type} [Add α] [Sub α] [Mul α] [Div α] [Neg α] [Scalar α]

/-- numeral `n` as a scalar -/
abbrev nat (n : Nat) : α := Scalar.ofNat n

/-- `numpy.sum` over one axis (the model folds from the right; numpy sums pairwise — rounding only). -/
def sumL : List α → α
  | [] => nat 0
  | x :: xs => x + sumL xs

/-- elementwise binary operation on two `[q][m]` arrays of the same shape -/
def zw2 (f : α → α → α) (a b : List (List α)) : List (List α) := List.zipWith (List.zipWith f) a b

/-- elementwise unary operation on a `[q][m]` array -/
def map2 (f : α → α) (a : List (List α)) : List (List α) := a.map (List.map f)

/-- `row[0:n] = 0` -/
def zeroFirst : Nat → List α → List α
  | 0, l => l
  | _ + 1, [] => []
  | n + 1, _ :: xs => nat 0 :: zeroFirst n xs

/-- `clear_gamma_point` on the last two axes: `mat[..., 0, 0:3] = 0` (nonshear.py) -/
def clearGamma : List (List α) → List (List α)
  | [] => []
  | r :: rs => zeroFirst 3 r :: rs

/-- `numpy.average(x, axis=-1)` of one row: sum / count -/
def mean (row : List α) : α := sumL row / nat row.length

/-- `average_over_modes(amount, q_weights)` on one `[q][m]` slice (nonshear.py):
copy, clear the Γ acoustic entries, mean over modes, then `numpy.average(..., weights=w)` = Σ w·x / Σ w. -/
def averageOverModes (amount : List (List α)) (w : List α) : α :=
  sumL (List.zipWith (fun x wq => x * wq) ((clearGamma amount).map mean) w) / sumL w

/-! ### prefactors (nonshear.py) — per volume, `e = (e0, e1)` -/

/-- `1 / A / numpy.prod(self.e, axis=0)` -/
def pfProd (A : Nat) (e0 e1 : α) : α := nat 1 / nat A / (e0 * e1)
/-- `1 / B / self.e[i]` -/
def pfAxis (B : Nat) (e : α) : α := nat 1 / nat B / e

/-- the four prefactors `(p0, (p10, p11), p2)` from a denominator tuple `(A, B0, B1, C)` -/
structure Pref (α : Type) where
  p0 : α
  p10 : α
  p11 : α
  p2 : α

def prefactors (d : Nat × Nat × Nat × Nat) (e0 e1 : α) : Pref α :=
  { p0 := pfProd d.1 e0 e1, p10 := pfAxis d.2.1 e0, p11 := pfAxis d.2.2.1 e1, p2 := pfProd d.2.2.2 e0 e1 }

def prefactorsLong (e0 e1 : α) : Pref α := prefactors Generated.prefLong e0 e1
def prefactorsOff (e0 e1 : α) : Pref α := prefactors Generated.prefOff e0 e1

/-- `self.mode_gamma` (nonshear.py): calculator.mode_gamma = [V∂γ/∂V, γ, γ²] scaled -/
structure ModeGamma (α : Type) where
  g0 : List (List α)     -- prefactors[0] * calculator.mode_gamma[0]
  g10 : List (List α)    -- prefactors[1][0] * calculator.mode_gamma[1]
  g11 : List (List α)    -- prefactors[1][1] * calculator.mode_gamma[1]
  g2 : List (List α)     -- prefactors[2] * calculator.mode_gamma[2]

def modeGamma (p : Pref α) (mg0 mg1 mg2 : List (List α)) : ModeGamma α :=
  { g0 := map2 (fun x => p.p0 * x) mg0, g10 := map2 (fun x => p.p10 * x) mg1,
    g11 := map2 (fun x => p.p11 * x) mg1, g2 := map2 (fun x => p.p2 * x) mg2 }

/-! ### Bose factors (nonshear.py) -/

/-- `Q = h_div_k * (freq / T)` elementwise -/
def Qarr (hdk T : α) (freq : List (List α)) : List (List α) := map2 (fun f => hdk * (f / T)) freq
/-- `Q / (exp Q - 1)` -/
def q1 (q : α) : α := q / (Scalar.exp q - nat 1)
/-- `Q ** 2 * exp(-Q) / (1 - exp(-Q)) ** 2`  (numpy `** 2` is `x * x`); the overflow-safe spelling of
`Q² e^Q / (e^Q − 1)²` — equal to it over ℝ (`q2_eq_classic` in `Lemmas/NonShearCalculus.lean`) -/
def q2 (q : α) : α := q * q * Scalar.exp (-q) / ((nat 1 - Scalar.exp (-q)) * (nat 1 - Scalar.exp (-q)))
def Q1arr (hdk T : α) (freq : List (List α)) : List (List α) := map2 q1 (Qarr hdk T freq)
def Q2arr (hdk T : α) (freq : List (List α)) : List (List α) := map2 q2 (Qarr hdk T freq)

/-! ### longitudinal class, one (T, V) point -/

/-- `zero_point_contribution` (nonshear.py):
`h / 2 / V * avg(+ g2*f - g0*f + g10*f) * 3 * na` -/
def zeroPointLongAt (h : α) (na : Nat) (V : α) (g : ModeGamma α) (freq : List (List α)) (w : List α) : α :=
  h / nat 2 / V
    * averageOverModes (zw2 (· + ·) (zw2 (· - ·) (zw2 (· * ·) g.g2 freq) (zw2 (· * ·) g.g0 freq)) (zw2 (· * ·) g.g10 freq)) w
    * nat 3 * nat na

/-- `thermal_contribution` (nonshear.py):
`k * T / V * avg(- Q2 * g2 + Q1 * (+ g2 - g0 + g10)) * 3 * na`, rows with `T == 0` set to 0 -/
def thermalLongAt (k hdk : α) (na : Nat) (T V : α) (g : ModeGamma α) (freq : List (List α)) (w : List α) : α :=
  if Scalar.isZero T then nat 0 else
  k * T / V
    * averageOverModes
        (zw2 (· + ·) (zw2 (· * ·) (map2 (fun x => -x) (Q2arr hdk T freq)) g.g2)
                     (zw2 (· * ·) (Q1arr hdk T freq) (zw2 (· + ·) (zw2 (· - ·) g.g2 g.g0) g.g10))) w
    * nat 3 * nat na

/-! ### off-diagonal class, one (T, V) point -/

/-- `zero_point_contribution` (nonshear.py): `h / 2 / V * avg(+ g2*f - g0*f) * 3 * na` -/
def zeroPointOffAt (h : α) (na : Nat) (V : α) (g : ModeGamma α) (freq : List (List α)) (w : List α) : α :=
  h / nat 2 / V
    * averageOverModes (zw2 (· - ·) (zw2 (· * ·) g.g2 freq) (zw2 (· * ·) g.g0 freq)) w
    * nat 3 * nat na

/-- `thermal_contribution` (nonshear.py): `k * T / V * avg(- Q2 * g2 + Q1 * (+ g2 - g0)) * 3 * na` -/
def thermalOffAt (k hdk : α) (na : Nat) (T V : α) (g : ModeGamma α) (freq : List (List α)) (w : List α) : α :=
  if Scalar.isZero T then nat 0 else
  k * T / V
    * averageOverModes
        (zw2 (· + ·) (zw2 (· * ·) (map2 (fun x => -x) (Q2arr hdk T freq)) g.g2)
                     (zw2 (· * ·) (Q1arr hdk T freq) (zw2 (· - ·) g.g2 g.g0))) w
    * nat 3 * nat na

/-- `isothermal_to_adiabatic` (nonshear.py):
`T / V / C_V * avg(Q2 * g10) * avg(Q2 * g11) * (3 * k * na) ** 2`, rows with `T == 0` set to 0 -/
def isoToAdiaAt (k hdk : α) (na : Nat) (T V cv : α) (g : ModeGamma α) (freq : List (List α)) (w : List α) : α :=
  if Scalar.isZero T then nat 0 else
  T / V / cv
    * averageOverModes (zw2 (· * ·) (Q2arr hdk T freq) g.g10) w
    * averageOverModes (zw2 (· * ·) (Q2arr hdk T freq) g.g11) w
    * ((nat 3 * k * nat na) * (nat 3 * k * nat na))

/-! ### the data of one volume / one temperature, and the grid functions -/

/-- everything indexed by `[v]` at one volume index: `v_array[v]`, `e[0][v]`, `e[1][v]`,
`static_p_array[v]`, and the `[q][m]` slices of `freq_array`, `calculator.mode_gamma[0..2]` -/
structure VolSlice (α : Type) where
  V : α
  e0 : α
  e1 : α
  pstatic : α
  freq : List (List α)
  mg0 : List (List α)
  mg1 : List (List α)
  mg2 : List (List α)

/-- everything indexed by `[t]` at one temperature index: `t_array[t]` and the rows `pressures[t][:]`,
`heat_capacity[t][:]` of the QHA layer -/
structure TempRow (α : Type) where
  T : α
  P : List α
  cv : List α

/-- unit constants as the Python module holds them, and the number of atoms -/
structure Consts (α : Type) where
  h : α
  k : α
  hdk : α
  na : Nat

/-- assemble the `[v]` axis from the separate arrays (pure re-indexing) -/
def slices : List α → List α → List α → List α → List (List (List α)) → List (List (List α)) →
    List (List (List α)) → List (List (List α)) → List (VolSlice α)
  | V :: vs, a :: e0, b :: e1, p :: ps, f :: fs, x :: m0, y :: m1, z :: m2 =>
      { V := V, e0 := a, e1 := b, pstatic := p, freq := f, mg0 := x, mg1 := y, mg2 := z }
        :: slices vs e0 e1 ps fs m0 m1 m2
  | _, _, _, _, _, _, _, _ => []

def tempRows : List α → List (List α) → List (List α) → List (TempRow α)
  | T :: ts, p :: ps, c :: cs => { T := T, P := p, cv := c } :: tempRows ts ps cs
  | _, _, _ => []

def mgLong (s : VolSlice α) : ModeGamma α := modeGamma (prefactorsLong s.e0 s.e1) s.mg0 s.mg1 s.mg2
def mgOff (s : VolSlice α) : ModeGamma α := modeGamma (prefactorsOff s.e0 s.e1) s.mg0 s.mg1 s.mg2

/-- `zero_point_contribution[v]` -/
def zeroPointLong (c : Consts α) (w : List α) (vs : List (VolSlice α)) : List α :=
  vs.map fun s => zeroPointLongAt c.h c.na s.V (mgLong s) s.freq w
def zeroPointOff (c : Consts α) (w : List α) (vs : List (VolSlice α)) : List α :=
  vs.map fun s => zeroPointOffAt c.h c.na s.V (mgOff s) s.freq w

/-- `thermal_contribution[t][v]` -/
def thermalLong (c : Consts α) (w : List α) (ts : List (TempRow α)) (vs : List (VolSlice α)) : List (List α) :=
  ts.map fun r => vs.map fun s => thermalLongAt c.k c.hdk c.na r.T s.V (mgLong s) s.freq w
def thermalOff (c : Consts α) (w : List α) (ts : List (TempRow α)) (vs : List (VolSlice α)) : List (List α) :=
  ts.map fun r => vs.map fun s => thermalOffAt c.k c.hdk c.na r.T s.V (mgOff s) s.freq w

/-- longitudinal `value_isothermal[t][v] = zero_point[v] + thermal[t][v]` (nonshear.py) -/
def valueIsothermalLongAt (c : Consts α) (w : List α) (T : α) (s : VolSlice α) : α :=
  zeroPointLongAt c.h c.na s.V (mgLong s) s.freq w + thermalLongAt c.k c.hdk c.na T s.V (mgLong s) s.freq w

/-- off-diagonal `value_isothermal[t][v] = zero_point[v] + thermal[t][v] + (P[t][v] - Pstatic[v])` (nonshear.py) -/
def valueIsothermalOffAt (c : Consts α) (w : List α) (T P : α) (s : VolSlice α) : α :=
  zeroPointOffAt c.h c.na s.V (mgOff s) s.freq w + thermalOffAt c.k c.hdk c.na T s.V (mgOff s) s.freq w
    + (P - s.pstatic)

def valueIsothermalLong (c : Consts α) (w : List α) (ts : List (TempRow α)) (vs : List (VolSlice α)) : List (List α) :=
  ts.map fun r => vs.map fun s => valueIsothermalLongAt c w r.T s
def valueIsothermalOff (c : Consts α) (w : List α) (ts : List (TempRow α)) (vs : List (VolSlice α)) : List (List α) :=
  ts.map fun r => List.zipWith (fun s P => valueIsothermalOffAt c w r.T P s) vs r.P

/-- `isothermal_to_adiabatic[t][v]` — the class decides only the prefactors -/
def isoToAdiaLong (c : Consts α) (w : List α) (ts : List (TempRow α)) (vs : List (VolSlice α)) : List (List α) :=
  ts.map fun r => List.zipWith (fun s cv => isoToAdiaAt c.k c.hdk c.na r.T s.V cv (mgLong s) s.freq w) vs r.cv
def isoToAdiaOff (c : Consts α) (w : List α) (ts : List (TempRow α)) (vs : List (VolSlice α)) : List (List α) :=
  ts.map fun r => List.zipWith (fun s cv => isoToAdiaAt c.k c.hdk c.na r.T s.V cv (mgOff s) s.freq w) vs r.cv

/-- `value_adiabatic = value_isothermal + isothermal_to_adiabatic` (nonshear.py) -/
def valueAdiabaticLongAt (c : Consts α) (w : List α) (T cv : α) (s : VolSlice α) : α :=
  valueIsothermalLongAt c w T s + isoToAdiaAt c.k c.hdk c.na T s.V cv (mgLong s) s.freq w
def valueAdiabaticOffAt (c : Consts α) (w : List α) (T P cv : α) (s : VolSlice α) : α :=
  valueIsothermalOffAt c w T P s + isoToAdiaAt c.k c.hdk c.na T s.V cv (mgOff s) s.freq w

def add2 (a b : List (List α)) : List (List α) := zw2 (· + ·) a b

def valueAdiabaticLong (c : Consts α) (w : List α) (ts : List (TempRow α)) (vs : List (VolSlice α)) : List (List α) :=
  add2 (valueIsothermalLong c w ts vs) (isoToAdiaLong c w ts vs)
def valueAdiabaticOff (c : Consts α) (w : List α) (ts : List (TempRow α)) (vs : List (VolSlice α)) : List (List α) :=
  add2 (valueIsothermalOff c w ts vs) (isoToAdiaOff c w ts vs)

end

/-! ### the `calculate` loop of `PhononContributionTaskList` (tasks.py `calculate`) and shear.py `value_adiabatic`

Two result stores.  A non-shear task writes its isothermal value to the first and its adiabatic value to the
second.  A shear task computes its value from the *isothermal* store only (`modulus_results`,
`modulus_results_rotated` are both read from `modulus_isothermal_values`), and
`ShearElasticModulusPhononContribution.value_adiabatic` returns `self.value_isothermal` — the same value is
written to both stores. -/
section TaskLoop
variable {κ β : Type} [DecidableEq κ]

abbrev Store (κ β : Type) := κ → Option β

def Store.set (s : Store κ β) (key : κ) (x : β) : Store κ β := fun k' => if k' = key then some x else s k'

inductive Task (κ β : Type) where
  /-- longitudinal / off-diagonal: both values come from the contribution object itself -/
  | nonShear (key : κ) (iso adia : β)
  /-- shear: `get_target_elastic_modulus` as a function of the isothermal results read so far -/
  | shear (key : κ) (target : Store κ β → β)

/-- shear.py: `value_isothermal = get_target_elastic_modulus()`, `value_adiabatic = value_isothermal` -/
def shearValueIsothermal (target : Store κ β → β) (isoStore : Store κ β) : β := target isoStore
def shearValueAdiabatic (target : Store κ β → β) (isoStore : Store κ β) : β := shearValueIsothermal target isoStore

/-- one iteration of `calculate` on the pair (isothermal store, adiabatic store) -/
def step (st : Store κ β × Store κ β) : Task κ β → Store κ β × Store κ β
  | .nonShear key iso adia => (st.1.set key iso, st.2.set key adia)
  | .shear key target =>
      (st.1.set key (shearValueIsothermal target st.1), st.2.set key (shearValueAdiabatic target st.1))

def calculate (tasks : List (Task κ β)) : Store κ β × Store κ β :=
  tasks.foldl step (fun _ => none, fun _ => none)

end TaskLoop

end Cij.NonShear
