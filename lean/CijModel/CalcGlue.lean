/-
  The GLUE of `cij/core/calculator.py` as evaluators of translated data (no Mathlib).

  `tools/gens/calc_src.py` re-extracts on every run, from the working tree, the concrete pieces of the glue code as DATA
  (`Generated/CalcGlueSpec.lean`, which instantiates the structures below):

    REGEX_CIJ and `CijVolumeBaseInterface.__getattr__`      -> `RegexParts`, `GetattrBranch`;  `matchName`, `resolve`
    `Calculator._calculate_compliances`                     -> `ComplSpec`;  `assembleSpec`, `complDictSpec`
    `Calculator.__init__` and the reads/writes of methods   -> `initOk`, `readsBefore`
    class-level / module-level state, decorators, in-place   -> `MethodFact`, `immutableKind`, …
    operations of every method

  This file says what those data MEAN (the evaluators are run at `Float` by `Ops/C07.lean` on the inputs the Python code
  gets); `CijProofs/Lemmas/CalcGlueSource.lean` proves that the hand-written model of `CijModel/VRH.lean` is the evaluation
  of the generated data, for all inputs.
-/
import CijModel.VRH

namespace Cij.CalcGlue
open Cij Cij.VRH

/-! ### REGEX_CIJ: `^(p₁|p₂…)<sep>?([lo-hi]{min,max}|…)(s₁|s₂…)?$` -/

/-- one alternative of group 2: `[lo-hi]{min,max}` -/
structure DigitAlt where
  lo : Char
  hi : Char
  min : Nat
  max : Nat
  deriving DecidableEq, Repr

structure RegexParts where
  anchoredStart : Bool
  anchoredEnd : Bool
  prefixes : List Char          -- group 1
  sep : Char
  sepOptional : Bool
  alts : List DigitAlt          -- group 2
  suffixes : List Char          -- group 3
  suffixOptional : Bool
  deriving DecidableEq, Repr

/-- a successful match: `group(1)`, `group(2)`, `group(3)` (`None` when the optional suffix is absent) -/
structure Parsed where
  pre : Char
  digits : List Char
  suf : Option Char
  deriving DecidableEq, Repr

/-- `d` is matched by `[lo-hi]{min,max}` (character classes of a `str` pattern are code-point ranges) -/
def inAlt (a : DigitAlt) (d : List Char) : Bool :=
  decide (a.min ≤ d.length) && decide (d.length ≤ a.max) && d.all fun c => decide (a.lo ≤ c) && decide (c ≤ a.hi)

/-- what can follow the prefix: the rest after a separator (tried first, `?` is greedy), the rest itself when the
separator is optional -/
def afterSep (rx : RegexParts) (r : List Char) : List (List Char) :=
  (match r with
   | c :: r' => if c = rx.sep then [r'] else []
   | [] => []) ++ (if rx.sepOptional then [r] else [])

/-- the splits of the remainder into (group 2, group 3) -/
def sufSplits (rx : RegexParts) (r : List Char) : List (List Char × Option Char) :=
  (match r.getLast? with
   | some c => if rx.suffixes.contains c then [(r.dropLast, some c)] else []
   | none => []) ++ (if rx.suffixOptional then [(r, none)] else [])

/-- the whole string against the anchored pattern -/
def matchCore (rx : RegexParts) : List Char → Option Parsed
  | [] => none
  | p :: r =>
    if rx.prefixes.contains p then
      (afterSep rx r).findSome? fun r1 =>
        (sufSplits rx r1).findSome? fun ds =>
          if rx.alts.any (inAlt · ds.1) then some ⟨p, ds.1, ds.2⟩ else none
    else none

/-- `re.<fn>(REGEX_CIJ, name)` for an anchored pattern: with `search` / `match` the final `$` also matches just before
ONE trailing newline; with `fullmatch` it does not.  An unanchored pattern is outside the model (`none`; the source
theorem requires both anchors). -/
def matchName (rx : RegexParts) (fn : String) (name : List Char) : Option Parsed :=
  if rx.anchoredStart && rx.anchoredEnd then
    match matchCore rx name with
    | some p => some p
    | none =>
      if fn != "fullmatch" && name.getLast? == some '\n' then matchCore rx name.dropLast else none
  else none

/-- `res.group(g)`: outer `none` = IndexError (no such group), inner `none` = the group did not take part -/
def groupVal (p : Parsed) : Nat → Option (Option String)
  | 1 => some (some (String.ofList [p.pre]))
  | 2 => some (some (String.ofList p.digits))
  | 3 => some (p.suf.map fun c => String.ofList [c])
  | _ => none

/-! ### `CijVolumeBaseInterface.__getattr__` -/

/-- one `if res.group(1) == <lit>:` branch:
`key = c_(res.group(<keyGroup>)); if key not in self.calculator.<member>: raise AttributeError();`
`if res.group(<testGroup>) == <testLit>: <return self.calculator.<thenStore>[key] | raise AttributeError()>`
`else: return self.calculator.<elseStore>[key]` -/
structure GetattrBranch where
  lit : String
  keyGroup : Nat
  member : String
  testGroup : Nat
  testLit : String
  thenStore : Option String
  elseStore : String
  deriving DecidableEq, Repr

inductive Outcome where
  | served (store : String) (key : Modulus)     -- `return self.calculator.<store>[key]`
  | attributeError
  | otherError                                  -- `c_` raised, or `res.group(n)` with a group that does not exist
  deriving DecidableEq, Repr

/-- `getattr(volume_base, name)` for a name that is not a class attribute / an instance attribute (those never reach
`__getattr__`).  `hasKey member key` is `key in self.calculator.<member>`. -/
def resolve (rx : RegexParts) (fn : String) (branches : List GetattrBranch) (hasKey : String → Modulus → Bool)
    (name : String) : Outcome :=
  match matchName rx fn name.toList with
  | none => .attributeError                            -- `raise AttributeError(name)`
  | some p =>
    -- consecutive `if`s; every path of a branch returns or raises, so the first branch whose literal fits decides
    match branches.find? (fun b => groupVal p 1 == some (some b.lit)) with
    | none => .attributeError
    | some b =>
      match groupVal p b.keyGroup, groupVal p b.testGroup with
      | some (some g), some tv =>
        match Modulus.create [.str g] with
        | none => .otherError
        | some key =>
          if !hasKey b.member key then .attributeError
          else if tv == some b.testLit then
            (match b.thenStore with
             | some s => .served s key
             | none => .attributeError)
          else .served b.elseStore key
      | _, _ => .otherError

/-- the three dictionaries of the calculator the interface reads, and `modulus_keys` -/
structure Stores (β : Type) where
  keys : List Modulus                       -- `calculator.modulus_keys`
  adiabatic : List (Modulus × β)            -- `calculator.modulus_adiabatic`
  isothermal : List (Modulus × β)           -- `calculator.modulus_isothermal`
  compliances : List (Modulus × β)          -- `calculator._compliances`

def Stores.get {β : Type} (s : Stores β) (name : String) : Option (List (Modulus × β)) :=
  if name = "modulus_adiabatic" then some s.adiabatic
  else if name = "modulus_isothermal" then some s.isothermal
  else if name = "_compliances" then some s.compliances
  else none

/-- `key in self.calculator.<member>` (a list for `modulus_keys`, a dict or its `.keys()` otherwise) -/
def Stores.hasKey {β : Type} (s : Stores β) (member : String) (k : Modulus) : Bool :=
  if member = "modulus_keys" then s.keys.any fun k' => decide (k' = k)
  else match s.get member with
    | some d => (find d k).isSome
    | none => false

/-- `getattr(volume_base, name)`: the array served, `none` for AttributeError / any other exception -/
def lookup {β : Type} (rx : RegexParts) (fn : String) (branches : List GetattrBranch) (s : Stores β) (name : String) :
    Option β :=
  match resolve rx fn branches s.hasKey name with
  | .served st key => (s.get st).bind fun d => find d key
  | _ => none

/-! ### `Calculator._calculate_compliances` -/

/-- an index expression `<loop variable> + <offset>`: variable 0 is the first, 1 the second of `for i, j in …` -/
structure Affine where
  var : Nat
  off : Int
  deriving DecidableEq, Repr

def Affine.eval (a : Affine) (i j : Int) : Int := (if a.var = 0 then i else j) + a.off

structure ComplSpec where
  dimsAttr : String
  shape : Nat × Nat
  dictAttr : String
  keysFrom : String
  store : String
  keyAttr : String
  permLen : Nat
  dedup : Bool
  writeRow : Affine
  writeCol : Affine
  invCalls : Nat
  rangeI : Nat
  rangeJ : Nat
  skipOp : String
  skipL : Affine
  skipR : Affine
  labelA : Affine
  labelB : Affine
  readRow : Affine
  readCol : Affine
  deriving DecidableEq, Repr

/-- all ways of removing one element: (element, the others) -/
def picks {β : Type} : List β → List (β × List β)
  | [] => []
  | x :: r => (x, r) :: (picks r).map fun p => (p.1, x :: p.2)

/-- `itertools.permutations(l, r)`: arrangements of `r` DISTINCT POSITIONS (equal values at different positions stay) -/
def permutations {β : Type} (l : List β) : Nat → List (List β)
  | 0 => [[]]
  | r + 1 => (picks l).flatMap fun p => (permutations p.2 r).map (p.1 :: ·)
termination_by structural r => r

/-- the `(i, j)` a key contributes: `for i, j in [set(]itertools.permutations(key.voigt, permLen)[)]` — an element that is
not a pair cannot be unpacked (`none` = ValueError); the `set` only removes duplicates, which write the same value -/
def keyPairs (spec : ComplSpec) (k : Modulus) : Option (List (Int × Int)) :=
  match k.voigt with
  | none => none
  | some v => (permutations [v.1, v.2] spec.permLen).mapM fun t =>
      match t with
      | [a, b] => some (a, b)
      | _ => none

/-- does key `k` write the 0-based cell `[a, b]` of `elastic_moduli[t, v]`? -/
def writesCell (spec : ComplSpec) (k : Modulus) (a b : Int) : Bool :=
  match keyPairs spec k with
  | some ps => ps.any fun p => spec.writeRow.eval p.1 p.2 == a && spec.writeCol.eval p.1 p.2 == b
  | none => false

variable {α : Type} [Add α] [Sub α] [Mul α] [Div α] [Scalar α]

/-- the 0-based cell `[a, b]` of `elastic_moduli[t, v]` after the assembly loop over the dictionary `kv` (listed in
`modulus_keys` order, values of the store named by the spec): zeros, the last key that writes a cell wins -/
def assembleSpec (spec : ComplSpec) (kv : KV α) (a b : Int) : α :=
  kv.foldl (fun acc e => if writesCell spec e.1 a b then e.2 else acc) (nat 0)

/-- the skip test of the labelling loop -/
def cmpOp (op : String) (x y : Int) : Bool :=
  if op = ">" then decide (x > y) else if op = "<" then decide (x < y) else if op = ">=" then decide (x ≥ y)
  else if op = "<=" then decide (x ≤ y) else if op = "==" then decide (x = y) else decide (x ≠ y)

/-- `itertools.product(range(n), range(m))` -/
def product (n m : Nat) : List (Int × Int) :=
  (List.range n).flatMap fun i => (List.range m).map fun j => (Int.ofNat i, Int.ofNat j)

/-- the labelling loop: `S t v p q` is the batched inverse with 1-based indices (as everywhere in `CijModel/VRH.lean`),
so the 0-based read `[r, c]` is `S t v (r+1) (c+1)`.  A label that `c_` rejects raises in Python; here it is dropped,
and the source theorem shows that no label of the generated spec is rejected. -/
def complDictSpec (spec : ComplSpec) (S : Nat → Nat → Int → Int → α) (nt nv : Nat) : Dict α :=
  (product spec.rangeI spec.rangeJ).filterMap fun p =>
    if cmpOp spec.skipOp (spec.skipL.eval p.1 p.2) (spec.skipR.eval p.1 p.2) then none
    else (Modulus.create [.int (spec.labelA.eval p.1 p.2), .int (spec.labelB.eval p.1 p.2)]).map fun k =>
      (k, entryField S nt nv (spec.readRow.eval p.1 p.2 + 1) (spec.readCol.eval p.1 p.2 + 1))

/-- the assembled 6×6 through the generated spec (driver output, compared with the hand-written `assemble6`) -/
def assemble6Spec (spec : ComplSpec) (kv : KV α) : Mat α :=
  idx6.map fun i => idx6.map fun j => assembleSpec spec kv (i - 1) (j - 1)

/-! ### the smaller pieces of wiring -/

structure PressureStaticSpec where
  defaultOrder : Nat
  refNodes : Int
  refGrid : Int
  gridAttr : String
  sign : Int
  target : String
  denomAttr : String
  deriving DecidableEq, Repr

structure InterpolateModesSpec where
  methodPath : List String
  orderPath : List String
  freqAttr : String
  freqIdx : Nat
  gammaAttr : String
  gamma : List (Nat × Int)
  deriving DecidableEq, Repr

structure SymmetrySpec where
  path : List String
  systemKey : String
  skip : List (Option String)
  fillFn : String
  dataAttr : String
  deriving DecidableEq, Repr

/-- is the symmetry filling applied for this value of `symmetry.get("system", None)`? -/
def SymmetrySpec.fills (s : SymmetrySpec) (system : Option String) : Bool := !s.skip.contains system

structure MethodFact where
  cls : String
  name : String
  kind : String                 -- method | property | LazyProperty | other:<decorators>
  reads : List String           -- sibling properties read through `self`, source order
  inplace : List String         -- in-place operations on anything reachable from `self` without a copy
  deriving DecidableEq, Repr

/-- kinds of values that cannot carry state from one object / call to the next -/
def immutableKind (k : String) : Bool := k == "const" || k == "call:logging.getLogger"

/-! ### `Calculator.__init__`: every attribute is there before it is read -/

abbrev MethodRW := String × String × List String × List String      -- name, decorator kind, writes, reads

/-- can `m` run when the attributes `defined` exist?  An attribute it reads must exist already, be one it assigns
itself, be a sibling method / property (whose own reads must then be satisfiable as well), or fall through to
`Calculator.__getattr__`, which needs `self.<delegate>`. -/
def readsOk (ms : List MethodRW) (delegate : String) : Nat → List String → String → Bool
  | 0, _, _ => false
  | fuel + 1, defined, m =>
    match ms.find? (fun e => e.1 == m) with
    | none => false
    | some e =>
      e.2.2.2.all fun r =>
        defined.contains r || e.2.2.1.contains r ||
        (match ms.find? (fun e' => e'.1 == r) with
         | some _ => readsOk ms delegate fuel (defined ++ e.2.2.1) r
         | none => defined.contains delegate)

/-- run the statements of `__init__` in order -/
def initOk (ms : List MethodRW) (delegate : String) : List (String × String × List String) → List String → Bool
  | [], _ => true
  | (kind, name, reads) :: rest, defined =>
    if kind == "call" then
      readsOk ms delegate (ms.length + 1) defined name &&
        initOk ms delegate rest (defined ++ ((ms.find? (fun e => e.1 == name)).map (·.2.2.1)).getD [])
    else
      reads.all (fun r => defined.contains r) && initOk ms delegate rest (defined ++ [name])

/-- everything a call of `m` (transitively, through sibling methods and properties) reads -/
def readsTrans (ms : List MethodRW) : Nat → String → List String
  | 0, _ => []
  | fuel + 1, m =>
    match ms.find? (fun e => e.1 == m) with
    | none => []
    | some e => e.2.2.2 ++ e.2.2.2.flatMap (readsTrans ms fuel)

/-- no statement of `__init__` strictly before the call of `stop` reads attribute `attr` -/
def notReadBefore (ms : List MethodRW) (attr stop : String) : List (String × String × List String) → Bool
  | [] => true
  | (kind, name, reads) :: rest =>
    if kind == "call" && name == stop then true
    else (if kind == "call" then !(readsTrans ms (ms.length + 1) name).contains attr else !reads.contains attr) &&
      notReadBefore ms attr stop rest

/-- the sequence of method calls of `__init__` -/
def callOrder (steps : List (String × String × List String)) : List String :=
  (steps.filter (·.1 == "call")).map (·.2.1)

/-! ### `getattr(obj, name)`: normal lookup first, `__getattr__` only when it fails

`object.__getattribute__` on an instance of a class WITHOUT base classes finds, in this order: a data descriptor of the class
(`property`, `LazyProperty`), an entry of the instance `__dict__`, any other class attribute (methods, constants), the names `object`
and the type machinery provide (`__class__`, `__dict__`, `__doc__`, `__init__`, …); only when all fail is `__getattr__(name)`
called.  The classes of `calculator.py` have no bases, no `__getattribute__` / `__setattr__` / `__slots__`, and never touch
`__dict__` / `setattr` (translated: `classBases`, `classNames`, `dynamicAttrUses`, `foreignAttrStores`). -/

/-- the names normal lookup can find on an instance, from the translated class -/
structure AttrShape where
  classNames : List String      -- bound in the class body (methods, properties, LazyProperties, constants): found on every instance, always
  initAttrs : List String       -- `self.<x> = …`, unconditional top-level statements of `__init__`: in the instance dict from construction on
  laterAttrs : List String      -- `self.<x> = …` anywhere else in the class: in the instance dict from some moment on
  lazyCaches : List String      -- `_<name>`, set by `LazyProperty.__get__` on the first read of `<name>`
  deriving DecidableEq, Repr

def assocList (tab : List (String × List String)) (cls : String) : List String :=
  ((tab.find? fun e => e.1 == cls).map (·.2)).getD []

/-- the shape of class `cls` from the per-class tables of the translator -/
def shapeOf (names inits laters lazies : List (String × List String)) (cls : String) : AttrShape :=
  ⟨assocList names cls, assocList inits cls, assocList laters cls, assocList lazies cls⟩

/-- found by normal lookup on every constructed instance, at any time -/
def AttrShape.always (sh : AttrShape) (name : String) : Bool := sh.classNames.contains name || sh.initAttrs.contains name
/-- found by normal lookup only after some method ran / some LazyProperty was read -/
def AttrShape.sometimes (sh : AttrShape) (name : String) : Bool :=
  !sh.always name && (sh.laterAttrs.contains name || sh.lazyCaches.contains name)
/-- can normal lookup ever find the name among what the class and its methods define? -/
def AttrShape.defined (sh : AttrShape) (name : String) : Bool := sh.always name || sh.sometimes name

/-- the spelling of everything the interpreter itself provides on an object (`dir(object())`, `__dict__`, `__module__`, `__weakref__`, …) -/
def dunderLike (name : String) : Bool := name.toList.take 2 == ['_', '_']

/-- the result of `getattr(obj, name)` -/
inductive Access (ρ : Type) where
  | attribute (name : String)               -- normal lookup succeeds: the defined attribute; `__getattr__` is NOT called
  | fallback (r : ρ)                        -- normal lookup fails: whatever `__getattr__(name)` does
  | stateDependent (name : String) (r : ρ)  -- the attribute once it has been set on the instance, `__getattr__(name)` before
  deriving DecidableEq, Repr

/-- `getattr(obj, name)` for an instance of a class of shape `sh`; `builtin` = the names `object` / the type machinery provide;
`viaGetattr` = the class's `__getattr__` -/
def getattrOf {ρ : Type} (sh : AttrShape) (builtin : String → Bool) (viaGetattr : String → ρ) (name : String) : Access ρ :=
  if sh.always name || builtin name then .attribute name
  else if sh.sometimes name then .stateDependent name (viaGetattr name)
  else .fallback (viaGetattr name)

/-- `getattr(calculator.volume_base, name)` as the outcome of the dispatch -/
def getattrVolumeBase (sh : AttrShape) (builtin : String → Bool) (rx : RegexParts) (fn : String) (branches : List GetattrBranch)
    (hasKey : String → Modulus → Bool) (name : String) : Access Outcome :=
  getattrOf sh builtin (resolve rx fn branches hasKey) name

/-- `getattr(calculator.volume_base, name)` as the array served -/
def getattrVolumeBaseValue {β : Type} (sh : AttrShape) (builtin : String → Bool) (rx : RegexParts) (fn : String)
    (branches : List GetattrBranch) (s : Stores β) (name : String) : Access (Option β) :=
  getattrOf sh builtin (lookup rx fn branches s) name

/-- `getattr(calculator.pressure_base, name)`: `CijPressureBaseInterface.__getattr__` hands EVERY name that reaches it to
`getattr(self.calculator.volume_base, name)` and converts the result with `self.v2p` (an exception of the inner `getattr` propagates):
the outer `.fallback x` reads "`self.v2p(x)`" -/
def getattrPressureBase (shP shV : AttrShape) (builtin : String → Bool) (rx : RegexParts) (fn : String) (branches : List GetattrBranch)
    (hasKey : String → Modulus → Bool) (name : String) : Access (Access Outcome) :=
  getattrOf shP builtin (getattrVolumeBase shV builtin rx fn branches hasKey) name

end Cij.CalcGlue
