/-
  EVERY function of `cij/core/mode_gamma.py` as an interpreter of translated data (no Mathlib).

  `tools/gens/modegamma_src.py` re-extracts on every run, from the working tree, the whole module as DATA
  (`Generated/ModeGammaGlue.lean`, which instantiates the types below):

    `interpolate_mode_spline|lagrange|krogh|ppoly|lsq_poly`, `lstsq_polyfit`  -> `FnSpec` (parameters with defaults, `List Stmt`,
                                                                                 every expression an `Ex` tree)
    `interpolate_modes`                                                         -> `LoopSpec` (prelude, zero arrays with shapes, node
                                                                                 volumes, loop nest, skip test, per-mode series,
                                                                                 dispatch table with assignment targets, returns)
    module level                                                                -> imports, inventory of every def

  This file says what those data MEAN: a small honest semantics of the Python / numpy / scipy constructs involved.  Everything outside it
  evaluates to `Out.stuck` — never to a guess — and Python exceptions are `Out.raise`.  The numerical libraries stay PARAMETERS (`Env`):
  the five interpolation kernels as `Interp.Interpolant` (samples `(s, s', s'')` of the interpolant built on the nodes) and
  `numpy.linalg.lstsq` as a function of the matrix and the 1-d right-hand side.  `numpy.log` / `numpy.exp` are the two functions of the
  `ExpLog` instance, whatever they are — the semantics maps the NAME `numpy.log` to `ExpLog.log` wherever it occurs, and no other name.
  `CijProofs/Lemmas/ModeGammaGlueSource.lean` proves that the hand-written model of `CijModel/Interp.lean` (`interpolateModeF`,
  `interpolateModesF`: with the `ValueError` of `[::0]` and the `IndexError` of a missing `q_points[j]` / `modes[k]`, both of which this
  interpreter raises) is the interpretation of the generated data, for all inputs.
-/
import CijModel.Interp

namespace Cij.ModeGammaGlue
open Cij.Interp

/-! ### syntax -/

/-- the library / builtin functions and classes the semantics knows, by their dotted Python name (`Lib.pyName`); every other dotted
name is `other <name>` and has no meaning -/
inductive Lib where
  | npLog | npExp | npFlip | npCeil | pyInt | pyRange | npArray | npZeros | npVander | npLstsq | npPoly1d | npPolyval | npPolyder
  | spUnivariateSpline | spLagrange | spKrogh | spPchip | spAkima | spHermite
  | other (name : String)
  deriving Repr, DecidableEq

def Lib.pyName : Lib → String
  | .npLog => "numpy.log" | .npExp => "numpy.exp" | .npFlip => "numpy.flip" | .npCeil => "numpy.ceil" | .pyInt => "int"
  | .pyRange => "range" | .npArray => "numpy.array" | .npZeros => "numpy.zeros" | .npVander => "numpy.vander"
  | .npLstsq => "numpy.linalg.lstsq" | .npPoly1d => "numpy.poly1d" | .npPolyval => "numpy.polyval" | .npPolyder => "numpy.polyder"
  | .spUnivariateSpline => "scipy.interpolate.UnivariateSpline" | .spLagrange => "scipy.interpolate.lagrange"
  | .spKrogh => "scipy.interpolate.KroghInterpolator" | .spPchip => "scipy.interpolate.PchipInterpolator"
  | .spAkima => "scipy.interpolate.Akima1DInterpolator" | .spHermite => "scipy.interpolate.CubicHermiteSpline"
  | .other n => n

/-- keyword names of library calls (`Kw.pyName`); every other name is `other <name>` -/
inductive Kw where
  | axis | k | nu | extrapolate | m | der
  | other (name : String)
  deriving Repr, DecidableEq

def Kw.pyName : Kw → String
  | .axis => "axis" | .k => "k" | .nu => "nu" | .extrapolate => "extrapolate" | .m => "m" | .der => "der" | .other n => n

/-- expressions the translator understands; anything else is `other <text>` and has no meaning -/
inductive Ex where
  | var (name : String)                                         -- parameter / local (renamed `l<i>`) / comprehension variable (`c<i>`)
  | glob (name : Lib)                                           -- a global by its dotted name (`scipy.interpolate.PchipInterpolator`)
  | int (k : Nat)
  | str (s : String)
  | bool (b : Bool)
  | pyNone
  | neg (e : Ex)                                                -- `-e`
  | div (a b : Ex)                                              -- `a / b`
  | eq (a b : Ex)                                               -- `a == b`
  | isin (a b : Ex)                                             -- `a in b`
  | and (a b : Ex)                                              -- `a and b`
  | tuple (es : List Ex)
  | strs (ss : List String)                                     -- a list display of string literals
  | comp (elt : Ex) (v : String) (iter : Ex)                    -- `[elt for v in iter]`
  | index (e idx : Ex)                                          -- `e[idx]`
  | sliceStep (e step : Ex)                                     -- `e[::step]`
  | attr (e : Ex) (name : String)                               -- `e.name`
  | call (fn : Lib) (args : List Ex) (kw : List (Kw × Ex))          -- library / builtin function by dotted name
  | user (fn : String) (args : List Ex) (kw : List (String × Ex))   -- a function of this module (keywords = its parameter names)
  | callv (f : String) (args : List Ex) (kw : List (Kw × Ex))       -- call of a local object
  | meth (obj : Ex) (name : String) (args : List Ex) (kw : List (Kw × Ex))   -- method call on a local object
  | other (text : String)
  deriving Repr

/-- statements of the straight-line functions -/
inductive Stmt where
  | assign (target : String) (e : Ex)
  | augAdd (target : String) (e : Ex)                           -- `target += e`
  | unpack (targets : List String) (e : Ex)                     -- `a, b, … = e`
  | ifAssign (branches : List (Ex × String × Ex))               -- `if t₀: x₀ = e₀ elif t₁: x₁ = e₁ …` (no else)
  | ret (e : Ex)
  deriving Repr

structure FnSpec where
  name : String
  params : List (String × Option Ex)                            -- (parameter, default)
  body : List Stmt
  deriving Repr

/-- one index of an assignment target `array[…]` -/
inductive AxisSel where
  | all                                                         -- `:`
  | var (name : String)
  | other (text : String)
  deriving Repr, DecidableEq

/-- `array[sel, …]` -/
structure Target where
  array : String
  index : List AxisSel
  deriving Repr

/-- one branch of the dispatch chain: `if <test>: (<targets>) = <callee>(<args>, <kw>)` -/
structure Dispatch where
  test : Ex
  targets : List Target
  callee : String
  args : List Ex
  kw : List (String × Ex)
  deriving Repr

/-- `interpolate_modes` -/
structure LoopSpec where
  name : String
  params : List (String × Option Ex)
  prelude : List (String × Ex)                                  -- `<name> = <expr>` before the arrays
  zeros : List (String × List Ex)                               -- `<name> = numpy.zeros((<e>, …))`
  volumes : String × Ex                                         -- `<name> = <expr>` (node volumes)
  loops : List (String × Ex)                                    -- `for <v> in <iter>:` nest, outermost first
  skip : Ex                                                     -- `if <skip>: continue`
  series : String × Ex                                          -- `<name> = <expr>` (per-mode data)
  dispatch : List Dispatch
  returns : List String
  deriving Repr

inductive Handled where
  | translated (generatedDef : String)
  | pinned
  deriving Repr, DecidableEq


/-! ### inventory helpers: what an expression names -/

def Lib.otherName : Lib → List String
  | .other n => [n]
  | _ => []

def Kw.otherName : Kw → List String
  | .other n => [n]
  | _ => []

mutual
/-- every library function / class named in an expression -/
def Ex.libs : Ex → List Lib
  | .glob n => [n]
  | .neg e => e.libs
  | .div a b => a.libs ++ b.libs
  | .eq a b => a.libs ++ b.libs
  | .isin a b => a.libs ++ b.libs
  | .and a b => a.libs ++ b.libs
  | .tuple es => libsList es
  | .comp elt _ iter => elt.libs ++ iter.libs
  | .index e i => e.libs ++ i.libs
  | .sliceStep e st => e.libs ++ st.libs
  | .attr e _ => e.libs
  | .call fn args kw => fn :: (libsList args ++ libsKw kw)
  | .user _ args kw => libsList args ++ libsUKw kw
  | .callv _ args kw => libsList args ++ libsKw kw
  | .meth o _ args kw => o.libs ++ (libsList args ++ libsKw kw)
  | _ => []
def libsList : List Ex → List Lib
  | [] => []
  | e :: es => e.libs ++ libsList es
def libsKw : List (Kw × Ex) → List Lib
  | [] => []
  | (_, e) :: es => e.libs ++ libsKw es
def libsUKw : List (String × Ex) → List Lib
  | [] => []
  | (_, e) :: es => e.libs ++ libsUKw es
end

mutual
/-- everything in an expression that is OUTSIDE the grammar: `other` nodes, unknown dotted names, unknown keyword names -/
def Ex.outside : Ex → List String
  | .glob n => n.otherName
  | .neg e => e.outside
  | .div a b => a.outside ++ b.outside
  | .eq a b => a.outside ++ b.outside
  | .isin a b => a.outside ++ b.outside
  | .and a b => a.outside ++ b.outside
  | .tuple es => outsideList es
  | .comp elt _ iter => elt.outside ++ iter.outside
  | .index e i => e.outside ++ i.outside
  | .sliceStep e st => e.outside ++ st.outside
  | .attr e _ => e.outside
  | .call fn args kw => fn.otherName ++ (outsideList args ++ outsideKw kw)
  | .user _ args kw => outsideList args ++ outsideUKw kw
  | .callv _ args kw => outsideList args ++ outsideKw kw
  | .meth o _ args kw => o.outside ++ (outsideList args ++ outsideKw kw)
  | .other t => [t]
  | _ => []
def outsideList : List Ex → List String
  | [] => []
  | e :: es => e.outside ++ outsideList es
def outsideKw : List (Kw × Ex) → List String
  | [] => []
  | (kwd, e) :: es => kwd.otherName ++ e.outside ++ outsideKw es
def outsideUKw : List (String × Ex) → List String
  | [] => []
  | (_, e) :: es => e.outside ++ outsideUKw es
end

def Stmt.exprs : Stmt → List Ex
  | .assign _ e => [e]
  | .augAdd _ e => [e]
  | .unpack _ e => [e]
  | .ifAssign bs => bs.flatMap fun b => [b.1, b.2.2]
  | .ret e => [e]

def AxisSel.outside : AxisSel → List String
  | .other t => [t]
  | _ => []

/-- every expression of `interpolate_modes` -/
def LoopSpec.exprs (L : LoopSpec) : List Ex :=
  L.params.filterMap (·.2) ++ L.prelude.map (·.2) ++ L.zeros.flatMap (·.2) ++ [L.volumes.2] ++ L.loops.map (·.2) ++ [L.skip, L.series.2] ++
    L.dispatch.flatMap fun d => d.test :: (d.args ++ d.kw.map (·.2))

def FnSpec.exprs (f : FnSpec) : List Ex := f.params.filterMap (·.2) ++ f.body.flatMap Stmt.exprs

/-! ### values and outcomes -/

/-- the five library interpolators the module constructs -/
inductive Kern where
  | spline (k : Nat)              -- `UnivariateSpline(x, y, k=k)` (no `w`, `s`, `bbox`, `ext`)
  | lagrange                      -- `scipy.interpolate.lagrange(x, y)` (a `poly1d`)
  | krogh                         -- `KroghInterpolator(x, y)`
  | pchip                         -- `PchipInterpolator(x, y)`
  | akima                         -- `Akima1DInterpolator(x, y)`
  deriving Repr, DecidableEq

inductive Val (α : Type) where
  | arr (l : List α)                                            -- 1-d float ndarray
  | pylist (l : List α)                                         -- Python list of floats
  | scalar (x : α)
  | nat (n : Nat)                                               -- Python int ≥ 0
  | quot (n d : Nat)                                            -- the float `n / d` of two ints, `d ≠ 0`
  | fint (n : Nat)                                              -- a float holding the integer `n` (result of `numpy.ceil`)
  | str (s : String)
  | strs (ss : List String)
  | bool (b : Bool)
  | pyNone
  | shape (dims : List Nat)
  | range (n : Nat)
  | mat (rows : List (List α))                                  -- 2-d float ndarray
  | poly (a : List α)                                           -- `numpy.poly1d`, coefficients highest power first
  | interp (k : Kern) (xs ys : List α) (der : Nat)              -- the `der`-th derivative of the interpolant built by `k` on `(xs, ys)`
  | cls (name : Lib)                                            -- a global object known only by its dotted name
  | opaque                                                      -- a value this semantics never looks into
  | tuple2 (a b : Val α)
  | tuple3 (a b c : Val α)
  | tuple4 (a b c d : Val α)
  | qha (nv nq np : Nat) (volumes : List (α × List (List α)))  -- `QHAInputData`: header fields, per volume (volume, q_points → modes)
  | vols (volumes : List (α × List (List α)))                   -- `qha_input.volumes`
  | vol (v : α) (qpts : List (List α))                          -- one `VolumeData`
  | qpts (q : List (List α))                                    -- `volume.q_points`
  | qpt (modes : List α)                                        -- one `QPointData`

/-- result of interpreting a piece of Python: a value, a Python exception, or NO MEANING in this semantics -/
inductive Out (β : Type) where
  | ok (v : β)
  | raise (e : Err)
  | stuck
  deriving DecidableEq, Repr

def Out.bind {β γ : Type} (x : Out β) (f : β → Out γ) : Out γ :=
  match x with
  | .ok v => f v
  | .raise e => .raise e
  | .stuck => .stuck

def Out.map {β γ : Type} (f : β → γ) (x : Out β) : Out γ := x.bind fun v => .ok (f v)

def Out.ofExcept {β : Type} : Except Err β → Out β
  | .ok v => .ok v
  | .error e => .raise e

def Out.ofOption {β : Type} : Option β → Out β
  | some v => .ok v
  | none => .stuck

/-- results of a loop in order; the first exception (or meaningless step) aborts -/
def Out.collect {β : Type} : List (Out β) → Out (List β)
  | [] => .ok []
  | x :: rest => x.bind fun v => (Out.collect rest).bind fun vs => .ok (v :: vs)

/-- the numerical libraries: parameters -/
structure Env (α : Type) where
  spline : Nat → Interpolant α
  lagrange : Interpolant α
  krogh : Interpolant α
  pchip : Interpolant α
  akima : Interpolant α
  /-- `numpy.linalg.lstsq(A, b)[0]` for a 2-d `A` and a 1-d `b` -/
  lstsq : List (List α) → List α → Except Err (List α)

def Env.kernel {α : Type} (env : Env α) : Kern → Interpolant α
  | .spline k => env.spline k
  | .lagrange => env.lagrange
  | .krogh => env.krogh
  | .pchip => env.pchip
  | .akima => env.akima

abbrev Locals (α : Type) := List (String × Val α)

def lookup {α : Type} (loc : Locals α) (n : String) : Option (Val α) := (loc.find? fun e => e.1 == n).map (·.2)

section Sem
variable {α : Type} [Add α] [Mul α] [Neg α] [Zero α] [One α] [NatCast α] [ExpLog α]

/-! ### the library calls that have a meaning here -/

/-- `int(numpy.ceil(n / d))` for Python ints `n ≥ 0`, `d > 0` -/
def ceilDiv (n d : Nat) : Nat := (n + d - 1) / d

/-- the samples `obj(pts, nu=n)` / `numpy.polyder(obj, n)(pts)` / `obj.derivative(pts, der=n)` of a library interpolator -/
def sample (env : Env α) (k : Kern) (xs ys pts : List α) (n : Nat) : Out (Val α) :=
  match env.kernel k xs ys pts with
  | .error e => .raise e
  | .ok r =>
    match n with
    | 0 => .ok (.arr (r.map (·.1)))
    | 1 => .ok (.arr (r.map (·.2.1)))
    | 2 => .ok (.arr (r.map (·.2.2)))
    | _ => .stuck

/-- `numpy.polyder(p, m)` -/
def polyderVal (p : Val α) (m : Nat) : Out (Val α) :=
  match p with
  | .poly a => .ok (.poly (polyderN m a))
  | .interp .lagrange xs ys d => .ok (.interp .lagrange xs ys (d + m))      -- `scipy.interpolate.lagrange` returns a `poly1d`
  | _ => .stuck

/-- calls by dotted name.  Exactly the argument shapes listed have a meaning; any further positional / keyword argument, any other
function: `stuck`.
* `numpy.log`, `numpy.exp`: the two functions of the `ExpLog` instance, elementwise (no `numpy.log10`, `numpy.log2`, `math.log`);
* `numpy.flip(a)` / `numpy.flip(a, axis=0)` on a 1-d array: reversal;
* `numpy.ceil(n / d)`, `int(·)`, `range(n)`, `numpy.array(<list of floats>)`;
* `numpy.vander(x, n)`: the matrix with rows `[x^(n-1), …, x, 1]` (decreasing powers; `increasing=True` has no meaning here);
* `numpy.linalg.lstsq(A, b)` (2-d `A`, 1-d `b`, default `rcond`): the parameter; a 4-tuple whose first member is the solution;
* `numpy.poly1d(a)`, `numpy.polyval(p, x)`, `numpy.polyder(p)`, `numpy.polyder(p, m)`, `numpy.polyder(p, m=m)`;
* `scipy.interpolate.UnivariateSpline(x, y, k=k)` — two positional arrays and `k`, nothing else (no `w`, `s`, `ext`, `bbox`);
* `scipy.interpolate.lagrange(x, y)`, `KroghInterpolator(x, y)`, `PchipInterpolator(x, y)`, `Akima1DInterpolator(x, y)`: two positional arrays;
* `scipy.interpolate.CubicHermiteSpline(x, y)`: `TypeError` (the required argument `dydx` is missing). -/
def applyFn (env : Env α) (fn : Lib) (vs : List (Val α)) (ks : List (Kw × Val α)) : Out (Val α) :=
  match fn, vs, ks with
  | .npLog, [.arr l], [] => .ok (.arr (l.map ExpLog.log))
  | .npExp, [.arr l], [] => .ok (.arr (l.map ExpLog.exp))
  | .npFlip, [.arr l], [] => .ok (.arr l.reverse)
  | .npFlip, [.arr l], [(.axis, .nat 0)] => .ok (.arr l.reverse)
  | .npCeil, [.quot n d], [] => .ok (.fint (ceilDiv n d))
  | .pyInt, [.fint n], [] => .ok (.nat n)
  | .pyInt, [.nat n], [] => .ok (.nat n)
  | .pyRange, [.nat n], [] => .ok (.range n)
  | .npArray, [.pylist l], [] => .ok (.arr l)
  | .npArray, [.arr l], [] => .ok (.arr l)
  | .npVander, [.arr x, .nat n], [] => .ok (.mat (vander x n))
  | .npLstsq, [.mat A, .arr b], [] =>
    match env.lstsq A b with
    | .ok a => .ok (.tuple4 (.arr a) .opaque .opaque .opaque)
    | .error e => .raise e
  | .npPoly1d, [.arr a], [] => .ok (.poly a)
  | .npPoly1d, [.poly a], [] => .ok (.poly a)
  | .npPolyval, [.poly a, .arr x], [] => .ok (.arr (x.map (polyval a)))
  | .npPolyval, [.arr a, .arr x], [] => .ok (.arr (x.map (polyval a)))
  | .npPolyder, [p], [] => polyderVal p 1
  | .npPolyder, [p, .nat m], [] => polyderVal p m
  | .npPolyder, [p], [(.m, .nat m)] => polyderVal p m
  | .spUnivariateSpline, [.arr x, .arr y], [(.k, .nat k)] => .ok (.interp (.spline k) x y 0)
  | .spLagrange, [.arr x, .arr y], [] => .ok (.interp .lagrange x y 0)
  | .spKrogh, [.arr x, .arr y], [] => .ok (.interp .krogh x y 0)
  | .spPchip, [.arr x, .arr y], [] => .ok (.interp .pchip x y 0)
  | .spAkima, [.arr x, .arr y], [] => .ok (.interp .akima x y 0)
  | .spHermite, [.arr _, .arr _], [] => .raise .typeError
  | _, _, _ => .stuck

/-- a global used as a value: only the classes that can be called -/
def globVal (name : Lib) : Out (Val α) :=
  match name with
  | .spPchip | .spAkima | .spHermite | .spKrogh | .spUnivariateSpline => .ok (.cls name)
  | _ => .stuck

/-- calling a local object.
* a class object: the constructor call by its name;
* a `poly1d`: `p(x)`; `scipy.interpolate.lagrange`'s result and its `polyder`s: `p(x)`;
* `KroghInterpolator`: `obj(x)`;
* `UnivariateSpline`: `obj(x)`, `obj(x, nu=n)` (default `ext=0`: extrapolates);
* `PchipInterpolator` / `Akima1DInterpolator`: only WITH `extrapolate=True` (Akima's default is no extrapolation: no meaning here). -/
def callVal (env : Env α) (f : Val α) (vs : List (Val α)) (ks : List (Kw × Val α)) : Out (Val α) :=
  match f, vs, ks with
  | .cls name, vs, ks => applyFn env name vs ks
  | .poly a, [.arr x], [] => .ok (.arr (x.map (polyval a)))
  | .interp .lagrange xs ys d, [.arr p], [] => sample env .lagrange xs ys p d
  | .interp .krogh xs ys 0, [.arr p], [] => sample env .krogh xs ys p 0
  | .interp (.spline k) xs ys 0, [.arr p], [] => sample env (.spline k) xs ys p 0
  | .interp (.spline k) xs ys 0, [.arr p], [(.nu, .nat n)] => sample env (.spline k) xs ys p n
  | .interp .pchip xs ys 0, [.arr p], [(.extrapolate, .bool true)] => sample env .pchip xs ys p 0
  | .interp .pchip xs ys 0, [.arr p], [(.extrapolate, .bool true), (.nu, .nat n)] => sample env .pchip xs ys p n
  | .interp .akima xs ys 0, [.arr p], [(.extrapolate, .bool true)] => sample env .akima xs ys p 0
  | .interp .akima xs ys 0, [.arr p], [(.extrapolate, .bool true), (.nu, .nat n)] => sample env .akima xs ys p n
  | _, _, _ => .stuck

/-- method calls on a local object: `KroghInterpolator.derivative(x, der=n)` / `.derivative(x, n)` / `.derivative(x)` -/
def callMeth (env : Env α) (obj : Val α) (name : String) (vs : List (Val α)) (ks : List (Kw × Val α)) : Out (Val α) :=
  if name = "derivative" then
    match obj, vs, ks with
    | .interp .krogh xs ys 0, [.arr p], [] => sample env .krogh xs ys p 1
    | .interp .krogh xs ys 0, [.arr p], [(.der, .nat n)] => sample env .krogh xs ys p n
    | .interp .krogh xs ys 0, [.arr p, .nat n], [] => sample env .krogh xs ys p n
    | _, _, _ => .stuck
  else .stuck

/-- `v.name` -/
def attrVal (v : Val α) (name : String) : Out (Val α) :=
  match v with
  | .arr l => if name = "shape" then .ok (.shape [l.length]) else .stuck
  | .qha nv nq np volumes =>
    if name = "nv" then .ok (.nat nv) else if name = "nq" then .ok (.nat nq) else if name = "np" then .ok (.nat np)
    else if name = "volumes" then .ok (.vols volumes) else .stuck
  | .vol x q => if name = "volume" then .ok (.scalar x) else if name = "q_points" then .ok (.qpts q) else .stuck
  | .qpt m => if name = "modes" then .ok (.pylist m) else .stuck
  | _ => .stuck

/-- `v[i]` for a Python int `i ≥ 0` (out of range: `IndexError`) -/
def indexVal (v i : Val α) : Out (Val α) :=
  match v, i with
  | .shape dims, .nat k => match dims[k]? with | some d => .ok (.nat d) | none => .raise (.other "IndexError")
  | .qpts q, .nat k => match q[k]? with | some m => .ok (.qpt m) | none => .raise (.other "IndexError")
  | .pylist l, .nat k => match l[k]? with | some x => .ok (.scalar x) | none => .raise (.other "IndexError")
  | .arr l, .nat k => match l[k]? with | some x => .ok (.scalar x) | none => .raise (.other "IndexError")
  | _, _ => .stuck

/-- `v[::s]` for a Python int `s` (`s = 0`: `ValueError: slice step cannot be zero`) -/
def sliceStepVal (v s : Val α) : Out (Val α) :=
  match v, s with
  | .arr l, .nat k => if k = 0 then .raise .valueError else .ok (.arr (stride k l))
  | _, _ => .stuck

def negVal (v : Val α) : Out (Val α) :=
  match v with
  | .arr l => .ok (.arr (l.map (- ·)))
  | .scalar x => .ok (.scalar (-x))
  | _ => .stuck

/-- `a / b` of two Python ints (`b = 0`: `ZeroDivisionError`) -/
def divVal (a b : Val α) : Out (Val α) :=
  match a, b with
  | .nat n, .nat d => if d = 0 then .raise .zeroDivision else .ok (.quot n d)
  | _, _ => .stuck

def eqVal (a b : Val α) : Out (Val α) :=
  match a, b with
  | .str x, .str y => .ok (.bool (x == y))
  | .nat x, .nat y => .ok (.bool (x == y))
  | _, _ => .stuck

def isinVal (a b : Val α) : Out (Val α) :=
  match a, b with
  | .str x, .strs l => .ok (.bool (l.contains x))
  | .nat k, .range n => .ok (.bool (decide (k < n)))
  | _, _ => .stuck

def tupleVal : List (Val α) → Out (Val α)
  | [a, b] => .ok (.tuple2 a b)
  | [a, b, c] => .ok (.tuple3 a b c)
  | [a, b, c, d] => .ok (.tuple4 a b c d)
  | _ => .stuck

/-- the elements of a comprehension over floats -/
def scalarsOf : List (Val α) → Out (List α)
  | [] => .ok []
  | .scalar x :: rest => (scalarsOf rest).bind fun xs => .ok (x :: xs)
  | _ :: _ => .stuck

/-! ### expressions -/

mutual
/-- `user` = how a call of a function of this module is run (supplied by `runFn`) -/
def Ex.eval (env : Env α) (user : String → List (Val α) → List (String × Val α) → Out (Val α)) (loc : Locals α) :
    Ex → Out (Val α)
  | .var n => Out.ofOption (lookup loc n)
  | .glob n => globVal n
  | .int k => .ok (.nat k)
  | .str s => .ok (.str s)
  | .bool b => .ok (.bool b)
  | .pyNone => .ok .pyNone
  | .neg e => (e.eval env user loc).bind negVal
  | .div a b => (a.eval env user loc).bind fun x => (b.eval env user loc).bind fun y => divVal x y
  | .eq a b => (a.eval env user loc).bind fun x => (b.eval env user loc).bind fun y => eqVal x y
  | .isin a b => (a.eval env user loc).bind fun x => (b.eval env user loc).bind fun y => isinVal x y
  | .and a b =>
    (a.eval env user loc).bind fun x =>
      match x with
      | .bool false => .ok (.bool false)
      | .bool true => (b.eval env user loc).bind fun y => match y with | .bool c => .ok (.bool c) | _ => .stuck
      | _ => .stuck
  | .tuple es => (evalArgs env user loc es).bind tupleVal
  | .strs ss => .ok (.strs ss)
  | .comp elt v iter =>
    (iter.eval env user loc).bind fun it =>
      match it with
      | .vols volumes =>
        (Out.collect (volumes.map fun vl => elt.eval env user ((v, .vol vl.1 vl.2) :: loc))).bind fun vs =>
          (scalarsOf vs).bind fun xs => .ok (.pylist xs)
      | _ => .stuck
  | .index e i => (e.eval env user loc).bind fun x => (i.eval env user loc).bind fun y => indexVal x y
  | .sliceStep e s => (e.eval env user loc).bind fun x => (s.eval env user loc).bind fun y => sliceStepVal x y
  | .attr e n => (e.eval env user loc).bind fun x => attrVal x n
  | .call fn args kw =>
    (evalArgs env user loc args).bind fun vs => (evalKw env user loc kw).bind fun ks => applyFn env fn vs ks
  | .user fn args kw =>
    (evalArgs env user loc args).bind fun vs => (evalUKw env user loc kw).bind fun ks => user fn vs ks
  | .callv f args kw =>
    (Out.ofOption (lookup loc f)).bind fun fv =>
      (evalArgs env user loc args).bind fun vs => (evalKw env user loc kw).bind fun ks => callVal env fv vs ks
  | .meth obj name args kw =>
    (obj.eval env user loc).bind fun o =>
      (evalArgs env user loc args).bind fun vs => (evalKw env user loc kw).bind fun ks => callMeth env o name vs ks
  | .other _ => .stuck

def evalArgs (env : Env α) (user : String → List (Val α) → List (String × Val α) → Out (Val α)) (loc : Locals α) :
    List Ex → Out (List (Val α))
  | [] => .ok []
  | e :: es => (e.eval env user loc).bind fun v => (evalArgs env user loc es).bind fun vs => .ok (v :: vs)

def evalKw (env : Env α) (user : String → List (Val α) → List (String × Val α) → Out (Val α)) (loc : Locals α) :
    List (Kw × Ex) → Out (List (Kw × Val α))
  | [] => .ok []
  | (n, e) :: es => (e.eval env user loc).bind fun v => (evalKw env user loc es).bind fun vs => .ok ((n, v) :: vs)

def evalUKw (env : Env α) (user : String → List (Val α) → List (String × Val α) → Out (Val α)) (loc : Locals α) :
    List (String × Ex) → Out (List (String × Val α))
  | [] => .ok []
  | (n, e) :: es => (e.eval env user loc).bind fun v => (evalUKw env user loc es).bind fun vs => .ok ((n, v) :: vs)
end

/-! ### statements and functions -/

/-- `a, b, … = v` -/
def unpackVal (targets : List String) (v : Val α) : Out (Locals α) :=
  match targets, v with
  | [a, b], .tuple2 x y => .ok [(b, y), (a, x)]
  | [a, b, c], .tuple3 x y z => .ok [(c, z), (b, y), (a, x)]
  | [a, b, c, d], .tuple4 x y z w => .ok [(d, w), (c, z), (b, y), (a, x)]
  | _, _ => .stuck

/-- `x += v` for Python ints -/
def addVal (a b : Val α) : Out (Val α) :=
  match a, b with
  | .nat x, .nat y => .ok (.nat (x + y))
  | _, _ => .stuck

/-- the first branch whose test is `True` (tests evaluated in order, Python's if / elif) -/
def firstBranch (env : Env α) (user : String → List (Val α) → List (String × Val α) → Out (Val α)) (loc : Locals α) :
    List (Ex × String × Ex) → Out (Option (String × Ex))
  | [] => .ok none
  | (t, x, e) :: rest =>
    (t.eval env user loc).bind fun b =>
      match b with
      | .bool true => .ok (some (x, e))
      | .bool false => firstBranch env user loc rest
      | _ => .stuck

/-- a function body; falling off the end (Python: returns `None`) has no meaning here -/
def runBody (env : Env α) (user : String → List (Val α) → List (String × Val α) → Out (Val α)) :
    Locals α → List Stmt → Out (Val α)
  | _, [] => .stuck
  | loc, .assign x e :: rest => (e.eval env user loc).bind fun v => runBody env user ((x, v) :: loc) rest
  | loc, .augAdd x e :: rest =>
    (Out.ofOption (lookup loc x)).bind fun old => (e.eval env user loc).bind fun v =>
      (addVal old v).bind fun new => runBody env user ((x, new) :: loc) rest
  | loc, .unpack ts e :: rest =>
    (e.eval env user loc).bind fun v => (unpackVal ts v).bind fun bs => runBody env user (bs ++ loc) rest
  | loc, .ifAssign bs :: rest =>
    (firstBranch env user loc bs).bind fun o =>
      match o with
      | none => runBody env user loc rest
      | some (x, e) => (e.eval env user loc).bind fun v => runBody env user ((x, v) :: loc) rest
  | loc, .ret e :: _ => e.eval env user loc

/-- the value of a default: literals only -/
def constVal : Ex → Option (Val α)
  | .int k => some (.nat k)
  | .str s => some (.str s)
  | .bool b => some (.bool b)
  | .pyNone => some .pyNone
  | _ => none

/-- Python's argument binding: positional in order, then by keyword, then defaults; a parameter given twice, a missing one, too many
positional arguments: no meaning (`TypeError` in Python) -/
def bindArgs : List (String × Option Ex) → List (Val α) → List (String × Val α) → Option (Locals α)
  | [], [], _ => some []
  | [], _ :: _, _ => none
  | (p, _) :: ps, v :: vs, ks =>
    if (lookup ks p).isSome then none else (bindArgs ps vs ks).map fun l => (p, v) :: l
  | (p, d) :: ps, [], ks =>
    match lookup ks p with
    | some v => (bindArgs ps [] ks).map fun l => (p, v) :: l
    | none =>
      match d.bind constVal with
      | some v => (bindArgs ps [] ks).map fun l => (p, v) :: l
      | none => none

/-- no keyword that is not a parameter -/
def kwKnown (params : List (String × Option Ex)) (ks : List (String × Val α)) : Bool :=
  ks.all fun k => params.any fun p => p.1 == k.1

/-- calling function `name` of the module (`fuel` bounds the depth of calls between module functions: 2 suffices) -/
def runFn (fns : List FnSpec) (env : Env α) : Nat → String → List (Val α) → List (String × Val α) → Out (Val α)
  | 0, _, _, _ => .stuck
  | fuel + 1, name, vs, ks =>
    match fns.find? fun f => f.name == name with
    | none => .stuck
    | some f =>
      if kwKnown f.params ks then
        match bindArgs f.params vs ks with
        | some loc => runBody env (runFn fns env fuel) loc f.body
        | none => .stuck
      else .stuck

/-! ### `interpolate_modes` -/

/-- `<name> = <expr>` one after the other -/
def evalSeq (env : Env α) (user : String → List (Val α) → List (String × Val α) → Out (Val α)) :
    Locals α → List (String × Ex) → Out (Locals α)
  | loc, [] => .ok loc
  | loc, (x, e) :: rest => (e.eval env user loc).bind fun v => evalSeq env user ((x, v) :: loc) rest

def natsOf : List (Val α) → Out (List Nat)
  | [] => .ok []
  | .nat n :: rest => (natsOf rest).bind fun ns => .ok (n :: ns)
  | _ :: _ => .stuck

/-- the shapes of the zero arrays -/
def evalShapes (env : Env α) (user : String → List (Val α) → List (String × Val α) → Out (Val α)) (loc : Locals α) :
    List (String × List Ex) → Out (List (String × List Nat))
  | [] => .ok []
  | (x, dims) :: rest =>
    (evalArgs env user loc dims).bind fun vs => (natsOf vs).bind fun ns =>
      (evalShapes env user loc rest).bind fun r => .ok ((x, ns) :: r)

/-- the branch of the dispatch chain taken: tests in order, the first `True`.  The tests are evaluated BEFORE the loops (they have a
meaning only if they do not mention a loop variable or the per-mode series) -/
def chooseDispatch (env : Env α) (user : String → List (Val α) → List (String × Val α) → Out (Val α)) (loc : Locals α) :
    List Dispatch → Out (Option Dispatch)
  | [] => .ok none
  | d :: rest =>
    (d.test.eval env user loc).bind fun b =>
      match b with
      | .bool true => .ok (some d)
      | .bool false => chooseDispatch env user loc rest
      | _ => .stuck

/-- one pass through the loop body for the loop-variable values `(j, k)`: `none` = nothing assigned (skipped by `continue`, or no
branch of the chain taken), `some [a, b, c]` = the three columns the callee returned -/
def cellRun (L : LoopSpec) (fns : List FnSpec) (env : Env α) (loc : Locals α) (chosen : Option Dispatch) (jv kv : String) (j k : Nat) :
    Out (Option (List (List α))) :=
  let user := runFn fns env 2
  let loc3 : Locals α := (kv, .nat k) :: (jv, .nat j) :: loc
  (L.skip.eval env user loc3).bind fun s =>
    match s with
    | .bool true => .ok none
    | .bool false =>
      (L.series.2.eval env user loc3).bind fun sv =>
        let loc4 : Locals α := (L.series.1, sv) :: loc3
        match chosen with
        | none => .ok none
        | some d =>
          (evalArgs env user loc4 d.args).bind fun vs => (evalUKw env user loc4 d.kw).bind fun ks =>
            (user d.callee vs ks).bind fun r =>
              match r with
              | .tuple3 (.arr a) (.arr b) (.arr c) => .ok (some [a, b, c])
              | _ => .stuck
    | _ => .stuck

/-- the only assignment-target pattern with a meaning here: `<array>[:, <outer loop variable>, <inner loop variable>]` -/
def targetOk (t : Target) (jv kv : String) : Bool := t.index == [.all, .var jv, .var kv]

def zeros3 (d0 d1 d2 : Nat) : List (List (List α)) :=
  (List.range d0).map fun _ => (List.range d1).map fun _ => (List.range d2).map fun _ => (0 : α)

/-- the array `r` after the loops: zeros of its shape, overwritten at `[:, j, k]` by column `p` of every cell that assigned.
A column whose length is not the extent of axis 0 (numpy: broadcast error / silent broadcast of length 1), a shape whose axes 1, 2 are
not the loop ranges: no meaning. -/
def assembleOut (cells : List (List (Option (List (List α))))) (nj nk : Nat) (dims : List Nat) (p : Option Nat) :
    Out (List (List (List α))) :=
  match dims, p with
  | [d0, d1, d2], none => .ok (zeros3 d0 d1 d2)
  | [d0, d1, d2], some p =>
    if d1 = nj ∧ d2 = nk ∧ ((List.range d1).all fun j => (List.range d2).all fun k =>
        match (cells.getD j []).getD k none with
        | none => true
        | some cols => (cols.getD p []).length == d0) then
      .ok ((List.range d0).map fun t => (List.range d1).map fun j => (List.range d2).map fun k =>
        match (cells.getD j []).getD k none with
        | none => (0 : α)
        | some cols => (cols.getD p []).getD t 0)
    else .stuck
  | _, _ => .stuck

/-- position of the target that writes array `r` -/
def targetPos (ts : List Target) (r : String) : Option Nat :=
  let i := ts.findIdx fun t => t.array == r
  if i < ts.length then some i else none

/-- `interpolate_modes(<args>)`: the returned arrays, in the order of the `return` statement.
Meaning exists only for: two nested loops over `range(·)` whose bounds do not depend on the loop variables; a dispatch chain whose
tests do not depend on them; targets `<array>[:, j, k]` naming distinct arrays; every returned name one of the zero arrays. -/
def LoopSpec.run (L : LoopSpec) (fns : List FnSpec) (env : Env α) (args : List (Val α)) : Out (List (List (List (List α)))) :=
  let user := runFn fns env 2
  match bindArgs L.params args [] with
  | none => .stuck
  | some loc0 =>
    (evalSeq env user loc0 L.prelude).bind fun loc1 =>
    (evalShapes env user loc1 L.zeros).bind fun shapes =>
    (L.volumes.2.eval env user loc1).bind fun vv =>
    let loc2 : Locals α := (L.volumes.1, vv) :: loc1
    match L.loops with
    | [(jv, ej), (kv, ek)] =>
      (ej.eval env user loc2).bind fun rj => (ek.eval env user loc2).bind fun rk =>
      match rj, rk with
      | .range nj, .range nk =>
        (chooseDispatch env user loc2 L.dispatch).bind fun chosen =>
        (Out.collect ((List.range nj).map fun j => Out.collect ((List.range nk).map fun k =>
          cellRun L fns env loc2 chosen jv kv j k))).bind fun cells =>
        match chosen with
        | none =>
          Out.collect (L.returns.map fun r =>
            match shapes.lookup r with
            | some dims => assembleOut cells nj nk dims none
            | none => .stuck)
        | some d =>
          if d.targets.all (targetOk · jv kv) ∧ (d.targets.map (·.array)).Nodup then
            Out.collect (L.returns.map fun r =>
              match shapes.lookup r with
              | some dims => assembleOut cells nj nk dims (targetPos d.targets r)
              | none => .stuck)
          else .stuck
      | _, _ => .stuck
    | _ => .stuck

end Sem

end Cij.ModeGammaGlue
