/-
  The SOURCE of `cij/cli/extract.py` and `cij/cli/geotherm.py` as data, and what that data MEANS.

  `tools/gens/extract_src.py` re-reads the two modules (and `cij/cli/cij.py`) on every run and writes
  `Generated/ExtractSpec.lean` in the types below: the glob pattern of `load_data` part by part and the index
  taken from the match list, the keyword arguments of the pandas readers, the label conversions, the
  `if temperature != None … elif pressure != None …` selection branch by branch, `y_index = …` as an EXPRESSION
  TREE, which attribute becomes `x_array`, how the row is taken, the table constructor, the click options
  (declarations → parameter → default), the argument wiring of the spline call and of `RectBivariateSpline`,
  every signature default (AST kind) and every module-level statement (kind), the command registrations.

  This file gives that data a semantics (interpreters `…Of`) over the same `Tab`/directory/`Spline` objects as
  `CijModel/Extract.lean`; `CijProofs/Lemmas/ExtractSource.lean` proves that the hand-written model IS the
  interpretation of what the files say now.  No Mathlib; polymorphic in the scalar.

  Also here: `lag4` / `bicubic44`, the tensor-product cubic Lagrange interpolant on a 4×4 table.  For a 4×4 table
  `RectBivariateSpline(x, y, z)` (kx = ky = 3, s = 0) has no interior knots, i.e. it is ONE bicubic polynomial
  through the 16 entries — the unique one (Lemmas/Bicubic.lean) — so `bicubic44` is that spline exactly (measured
  by harness/c19.py off the nodes).  For larger tables FITPACK's not-a-knot spline is not modelled.
-/
import CijModel.Extract

namespace Cij.ExtractSrc

open Cij.Extract
open Cij.Writer (dictGet dictSet optAll)

/-! ### `y_index = numpy.argmin(numpy.abs(df.index.to_numpy() - y))` as a tree -/

/-- array / scalar expressions (numpy broadcasting between them) -/
inductive AExpr where
  | index                    -- `df.index.to_numpy()` (also `.values`, plain `df.index`)
  | columns                  -- `df.columns.to_numpy()`
  | y                        -- the requested value
  | sub (a b : AExpr)
  | add (a b : AExpr)
  | neg (a : AExpr)
  | abs (a : AExpr)          -- `numpy.abs` / `numpy.absolute` / `abs`
  deriving Repr, DecidableEq, Inhabited

/-- integer-valued expressions -/
inductive IExpr where
  | argmin (a : AExpr)       -- `numpy.argmin(a)` / `a.argmin()`
  deriving Repr, DecidableEq, Inhabited

/-- a numpy value: 0-d or 1-d -/
inductive Val (α : Type) where
  | sc (x : α)
  | arr (xs : List α)

def Val.map {α} (f : α → α) : Val α → Val α
  | .sc x => .sc (f x)
  | .arr xs => .arr (xs.map f)

/-- broadcasting of a binary ufunc (two arrays: element by element) -/
def Val.map2 {α} (f : α → α → α) : Val α → Val α → Val α
  | .sc a, .sc b => .sc (f a b)
  | .sc a, .arr bs => .arr (bs.map (f a))
  | .arr as, .sc b => .arr (as.map (f · b))
  | .arr as, .arr bs => .arr (List.zipWith f as bs)

section order
variable {α : Type} [LT α] [DecidableLT α] [Sub α] [Add α] [Neg α] [OfNat α 0]

def AExpr.eval (t : Tab α) (y : α) : AExpr → Val α
  | .index => .arr t.rows
  | .columns => .arr t.cols
  | .y => .sc y
  | .sub a b => Val.map2 (· - ·) (a.eval t y) (b.eval t y)
  | .add a b => Val.map2 (· + ·) (a.eval t y) (b.eval t y)
  | .neg a => (a.eval t y).map (- ·)
  | .abs a => (a.eval t y).map absv

/-- `numpy.argmin`: first minimum of a 1-d array (ValueError when empty = none), 0 for a 0-d value -/
def IExpr.eval (t : Tab α) (y : α) : IExpr → Option Nat
  | .argmin a => match a.eval t y with
    | .arr xs => argminFirst xs
    | .sc _ => some 0

/-! ### `extract.main` -/

/-- one arm of `if <test> != None: y = <yFrom> [; df = df.T]` -/
structure SelBranch where
  test : String
  yFrom : String
  transpose : Bool
  deriving Repr, DecidableEq

structure ExtractMainSpec where
  splitSep : String                 -- `variables.split(<sep>)`
  branches : List SelBranch         -- if / elif chain in source order
  hasElse : Bool                    -- a final `else:` arm (there is none: `y` stays unbound)
  xArray : String                   -- `x_array = df.<attr>`
  yIndex : IExpr
  rowSel : String                   -- `data[var] = df.<rowSel>[y_index]`
  ctor : List (String × String)     -- keyword arguments of `pandas.DataFrame(...)`: (keyword, local variable)
  toStringKw : List (String × String)

/-- the command's keyword parameters the selection reads -/
def envTP (T P : Option α) : String → Option α
  | "temperature" => T
  | "pressure" => P
  | _ => none

/-- the `if … elif …` chain: first arm whose parameter is not None; no arm = `y` unbound -/
def selectOf (s : ExtractMainSpec) (t : Tab α) (env : String → Option α) : Option (α × Tab α) :=
  match s.branches.find? (fun b => (env b.test).isSome) with
  | none => none
  | some b => (env b.yFrom).map fun y => (y, if b.transpose then t.transpose else t)

/-- `x_array = df.<xArray>; y_index = <yIndex>; data[var] = df.iloc[y_index]` -/
def pickOf (s : ExtractMainSpec) (t : Tab α) (y : α) : Option (List α × List α) := do
  let labels ← if s.xArray == "columns" then some t.cols else if s.xArray == "index" then some t.rows else none
  let i ← s.yIndex.eval t y
  let row ← if s.rowSel == "iloc" then t.vals[i]? else none
  pure (labels, row)

def selectRowOf (s : ExtractMainSpec) (t : Tab α) (T P : Option α) : Option (List α × List α) := do
  let yt ← selectOf s t (envTP T P)
  pickOf s yt.2 yt.1

end order

/-! ### `load_data` -/

structure LoadSpec where
  globParts : List (Bool × String)       -- f-string: (true, name) = `{name}`, (false, text) = literal text
  globPick : Nat                         -- `glob(...)[<n>]`
  readKw : List (String × String)        -- keyword arguments of `pandas.read_table`, values as source text
  conv : List (String × String × String) -- `df.<a> = [<f>(w) for w in df.<b>]` as (a, f, b), in source order
  deriving Repr, DecidableEq

/-- the pattern with `var` substituted -/
def patternOf (parts : List (Bool × String)) (var : String) : String :=
  String.join (parts.map fun p => if p.1 then var else p.2)

/-- `glob` matching for a pattern whose only metacharacter is one trailing `*` (anything else: no claim = no match) -/
def globMatchOf (parts : List (Bool × String)) (var fname : String) : Bool :=
  match (patternOf parts var).toList.reverse with
  | '*' :: rest => rest.reverse.isPrefixOf fname.toList
  | _ => false

/-- `glob(pattern)[n]` on the directory listing, then the reader -/
def loadOf {α} (L : LoadSpec) (dir : List (String × Tab α)) (var : String) : Option (Tab α) :=
  ((dir.filter fun e => globMatchOf L.globParts var e.1)[L.globPick]?).map (·.2)

/-- the reader takes the first column as row labels, the first line as column labels, splits on white space, and
both label axes are converted with `float` -/
def LoadSpec.readsLabelledFloatTable (L : LoadSpec) : Bool :=
  L.readKw == [("sep", "'\\\\s+'"), ("index_col", "0")] &&
  L.conv == [("columns", "float", "columns"), ("index", "float", "index")]

/-- `extract.main` with everything read from the specs -/
def extractOf {α} [LT α] [DecidableLT α] [Sub α] [Add α] [Neg α] [OfNat α 0] [BEq α]
    (L : LoadSpec) (s : ExtractMainSpec) (dir : List (String × Tab α)) (vars : List String)
    (T P : Option α) : Option (List α × List (String × List (Option α))) := do
  let data ← optAll (vars.map fun v => do
    let t ← loadOf L dir v
    selectRowOf s t T P)
  let last ← data.getLast?
  if s.ctor == [("columns", "variables"), ("index", "x_array")] then
    pure (last.1, (vars.zip data).map fun vs => (vs.1, align last.1 vs.2))
  else none

/-! ### `extract-geotherm` -/

/-- one `@click.option(...)` -/
structure ClickOpt where
  decls : List String
  param : String                -- click's rule: an explicit name, else the longest `--` declaration with `-` → `_`
  default : Option String       -- `str()` of the constant given as `default=`, none when absent
  isFlag : Bool
  required : Bool
  type : String                 -- source text of `type=` ("" when absent)
  deriving Repr, DecidableEq

/-- the value a string-valued option takes when it is not given on the command line -/
def optDefault (opts : List ClickOpt) (param : String) : Option String :=
  (opts.find? fun o => o.param == param).bind (·.default)

/-- the keyword parameter a command-line declaration (`-T`, `--t-col`, …) feeds -/
def optParam (opts : List ClickOpt) (decl : String) : Option String :=
  (opts.find? fun o => o.decls.contains decl).map (·.param)

/-- the declared `type=` of a parameter -/
def optType (opts : List ClickOpt) (param : String) : Option String :=
  (opts.find? fun o => o.param == param).map (·.type)

structure FitSpec where
  args : List String              -- positional arguments of `RectBivariateSpline`, each resolved to `index`/`columns`/`values`
  kw : List (String × String)     -- keyword arguments (none: default degrees kx = ky = 3, s = 0, no bbox)
  deriving Repr, DecidableEq

structure GeothermMainSpec where
  splitSep : String
  readKw : List (String × String)      -- keyword arguments of the geotherm file's `pandas.read_table`
  callArgs : List String               -- `fit_data(df)(table[<p0>], table[<p1>], …)`: the PARAMETERS naming the columns
  callKw : List (String × String)
  toStringKw : List (String × String)
  deriving Repr, DecidableEq

/-- which part of the table a `fit_data` argument is -/
def fitAxis {α} (t : Tab α) : String → Option (List α)
  | "index" => some t.rows
  | "columns" => some t.cols
  | _ => none

/-- `RectBivariateSpline(<a0>, <a1>, <a2>)` -/
def fitOf {α} (F : FitSpec) (S : Spline α) (t : Tab α) : Option (α → α → α) :=
  match F.args, F.kw with
  | [a0, a1, "values"], [] => do
      let x ← fitAxis t a0
      let y ← fitAxis t a1
      pure (S x y t.vals)
  | _, _ => none

/-- the command's two column-name parameters -/
def colEnv (tCol pCol : String) : String → Option String
  | "t_col" => some tCol
  | "p_col" => some pCol
  | _ => none

/-- `table[var] = fit_data(df)(table[<callArgs 0>], table[<callArgs 1>], grid=False)` -/
def geothermStepOf {α} (L : LoadSpec) (F : FitSpec) (G : GeothermMainSpec) (S : Spline α)
    (dir : List (String × Tab α)) (env : String → Option String)
    (table : List (String × List α)) (var : String) : Option (List (String × List α)) :=
  match G.callArgs, G.callKw with
  | [p0, p1], [("grid", "False")] => do
      let df ← loadOf L dir var
      let f ← fitOf F S df
      let a ← (env p0).bind (dictGet table)
      let b ← (env p1).bind (dictGet table)
      pure (dictSet table var (List.zipWith f a b))
  | _, _ => none

/-- `geotherm.main` with the click defaults of `--t-col` / `--p-col` -/
def geothermOf {α} (L : LoadSpec) (F : FitSpec) (G : GeothermMainSpec) (opts : List ClickOpt) (S : Spline α)
    (dir : List (String × Tab α)) (vars : List String) (geo : List (String × List α))
    (tCol pCol : Option String := none) : Option (List (String × List α)) := do
  let tc ← tCol.orElse fun _ => optDefault opts "t_col"
  let pc ← pCol.orElse fun _ => optDefault opts "p_col"
  vars.foldlM (geothermStepOf L F G S dir (colEnv tc pc)) geo

/-- the geotherm file is read with its first line as header and NO column as index (every column is data), and
printed without the index: together with `table[var] = …` (new column at the end) this is the pass-through -/
def GeothermMainSpec.passesColumnsThrough (G : GeothermMainSpec) : Bool :=
  G.readKw == [("sep", "'\\\\s+'"), ("index_col", "None"), ("header", "0")] &&
  G.toStringKw == [("header", "not hide_header"), ("index", "False")]

/-! ### statelessness: signature defaults and module-level statements -/

/-- (module, function, parameter, AST kind of the default, source text) -/
abbrev DefaultRow := String × String × String × String × String

/-- a default that is evaluated once at definition time and can be mutated afterwards (list / dict / set / call /
comprehension …) is anything but a constant -/
def noMutableDefault (rows : List DefaultRow) : Bool := rows.all fun r => r.2.2.2.1 == "Constant"

/-- statements a module may have at top level without doing anything at import: imports, definitions, the
`if __name__ == "__main__": main()` guard -/
def inertModule (kinds : List String) : Bool :=
  kinds.all fun k => k == "Import" || k == "ImportFrom" || k == "FunctionDef" || k == "MainGuard"

/-- decorator calls ARE evaluated at import: only `click.command` / `click.option` with constant arguments
(`click.FLOAT`, `click.Path(exists=True)` as types) pass the translator's grammar; recorded by callee name -/
def onlyClickDecorators (decos : List (String × List String)) : Bool :=
  decos.all fun d => d.2.all fun c => c == "click.command" || c == "click.option"

/-! ### registration -/

def registeredModule (reg : List (String × String)) (command : String) : Option String :=
  (reg.find? fun r => r.2 == command).map (·.1)

/-! ### the bicubic polynomial through a 4×4 table -/

section field
variable {α : Type} [Add α] [Sub α] [Mul α] [Div α]

/-- cubic Lagrange interpolation through (x0,f0) … (x3,f3) -/
def lag4 (x0 x1 x2 x3 f0 f1 f2 f3 x : α) : α :=
  f0 * ((x - x1) * (x - x2) * (x - x3)) / ((x0 - x1) * (x0 - x2) * (x0 - x3)) +
  f1 * ((x - x0) * (x - x2) * (x - x3)) / ((x1 - x0) * (x1 - x2) * (x1 - x3)) +
  f2 * ((x - x0) * (x - x1) * (x - x3)) / ((x2 - x0) * (x2 - x1) * (x2 - x3)) +
  f3 * ((x - x0) * (x - x1) * (x - x2)) / ((x3 - x0) * (x3 - x1) * (x3 - x2))

/-- tensor product: Lagrange along each row (in y), then along the column of results (in x).
Outside 4×4 shapes: `undef` (the real call raises for fewer than 4 nodes and is a different, piecewise spline for more). -/
def bicubic44With (undef : α) : Spline α := fun xs ys z x y =>
  match xs, ys, z with
  | [x0, x1, x2, x3], [y0, y1, y2, y3],
    [[a0, a1, a2, a3], [b0, b1, b2, b3], [c0, c1, c2, c3], [d0, d1, d2, d3]] =>
      lag4 x0 x1 x2 x3
        (lag4 y0 y1 y2 y3 a0 a1 a2 a3 y) (lag4 y0 y1 y2 y3 b0 b1 b2 b3 y)
        (lag4 y0 y1 y2 y3 c0 c1 c2 c3 y) (lag4 y0 y1 y2 y3 d0 d1 d2 d3 y) x
  | _, _, _ => undef

end field

/-- the 4×4 spline (value 0 on other shapes, which no theorem uses) -/
def bicubic44 {α} [Add α] [Sub α] [Mul α] [Div α] [OfNat α 0] : Spline α := bicubic44With 0

end Cij.ExtractSrc
