/-
  Types and MEANING of what `tools/gens/qha_src.py` extracts from `cij/core/qha_adapter.py` and `cij/util/units.py`
  (Generated/QhaGlue.lean).  No Mathlib: the driver evaluates the same definitions at `Float` (ops `c02.*`).

    every def of the two modules                      -> `Def` (parameters, decorator kind, body as `Stmt`s over `Rhs`)
    classes (bases, class-body statements), module-level statements by kind -> `ClassRow`, `ModStmt`
    `convert_unit`                                    -> `ConvertUnit`   ;  `ConvertUnit.meaning`
    `_to_*` / `_from_*`                               -> `Cij.StaticSrc.UnitHelper` (the type of Generated.staticUnitHelpers)

  Meaning.
  * `eval`: a small abstract interpreter of the object graph.  A value is an instance of a class of the module (`new cls args`), an
    external object, or an attribute of one; reading `obj.a` follows a `@property` body, else the `self.a = …` of `__init__`, else —
    for a class with an external base — is the attribute `a` of that very object.  It answers "WHICH attribute of WHICH object does
    this chain of reads return"; it does not model the numbers inside qha.
  * `runReadInput`: the statements of `QHACalculator.read_input` on a list of volumes: which fields are stored, and whether the
    guard `if not qha.tools.is_monotonic_decreasing(self._volumes): raise …` fires (`isMonotonicDecreasing` = `np.all(np.diff(a) <= 0)`).
  * unit monomials: `Mono2` = products of powers of unit NAMES with exponents counted in halves; `UExpr.mono2`; `unitDim` = the
    SI dimension vector (length, mass, time, temperature, amount) of a unit name (pint's table: a recorded contract, compared with
    pint by the harness on every run); `unitOfS` = dimensional analysis of the expression trees of nonshear.py.
-/
import CijModel.StaticExpr
import CijModel.NSGlue

namespace Cij.QhaGlue
open Cij.StaticSrc (UExpr UnitHelper)

/-! ### the statements of the two modules as data -/

/-- a dotted path `a.b.c` (first entry: a name; `"super()"` for the call `super()`) -/
abbrev Path := List String

/-- right-hand sides / returned expressions -/
inductive Rhs where
  /-- `a.b.c` -/
  | path (p : Path)
  /-- `f(a, b, …)`, positional dotted-path arguments only -/
  | call (f : Path) (args : List Path)
  /-- `numpy.array([<x>.<field> for <x> in <coll>])` -/
  | arrayOfField (field : String) (coll : Path)
  /-- `numpy.array([<x_idx> for (x_0, …, x_{arity-1}) in <coll>])` -/
  | arrayOfPick (idx arity : Nat) (coll : Path)
  /-- `numpy.array([[<x_idx> for (x_0, …) in <y>.<inner>] for <y> in <coll>])` -/
  | arrayOfNestedPick (idx arity : Nat) (inner : String) (coll : Path)
  deriving DecidableEq, Repr

inductive Stmt where
  | assign (target : Path) (value : Rhs)
  | ret (value : Rhs)
  /-- `raise <exc>(…)` -/
  | raiseExc (exc : String)
  | pass
  /-- an expression statement that is a call (its effects are the callee's) -/
  | expr (value : Rhs)
  /-- `if [not] <pred>(<args>): raise <exc>(…)` (nothing else in the branch, no else) -/
  | guardRaise (negated : Bool) (pred : Path) (args : List Path) (exc : String)
  /-- a statement whose only effect is logging: a `logger.*` / `logging.*` call, or an `if` / `for` whose bodies are only such -/
  | log
  /-- outside the grammar (text kept) -/
  | other (text : String)
  deriving DecidableEq, Repr

/-- how a def is tied: translated here as data, or by another generator (named) -/
inductive How where
  | data
  | elsewhere (gen : String)
  deriving DecidableEq, Repr

structure Def where
  /-- class name, `""` at module level -/
  cls : String
  name : String
  /-- `method` | `property` | `staticmethod` | `function` | `other:<decorators>` -/
  kind : String
  params : List String
  body : List Stmt
  how : How
  deriving DecidableEq, Repr

structure ClassRow where
  name : String
  bases : List String
  /-- class-body statements that are neither a def nor a docstring -/
  stmts : List String
  deriving DecidableEq, Repr

/-- a module-level statement: kind (`docstring` | `import` | `assign` | `class` | `def` | the ast node name), the name(s) it binds, detail
(import: the module / object imported; assign: the kind of the value) -/
structure ModStmt where
  kind : String
  name : String
  detail : String
  deriving DecidableEq, Repr

structure Module where
  classes : List ClassRow
  defs : List Def
  deriving Repr

def Module.find (m : Module) (cls name : String) : Option Def := m.defs.find? fun d => d.cls == cls && d.name == name
def Module.isClass (m : Module) (c : String) : Bool := m.classes.any (·.name == c)
/-- the class has base classes and none of them is a class of the module (its other attributes are the external base's) -/
def Module.externalBase (m : Module) (c : String) : Bool :=
  match m.classes.find? (·.name == c) with
  | some r => !r.bases.isEmpty && r.bases.all fun b => !m.isClass b
  | none => false

def Stmt.isOther : Stmt → Bool
  | .other _ => true
  | _ => false

def qualName (d : Def) : String := if d.cls == "" then d.name else d.cls ++ "." ++ d.name

/-! ### which attribute of which object: abstract interpretation of the object graph -/

inductive Val where
  /-- a parameter of the root call, a module-level name, or anything the glue only passes along -/
  | opaque (n : String)
  | nil
  | cons (h t : Val)
  /-- an instance of a class of the module, made by `cls(args)` -/
  | new (cls : String) (args : Val)
  /-- the result of calling something that is not defined in the module -/
  | ext (f : Path) (args : Val)
  /-- attribute `a` of an external object, or of an instance whose class inherits `a` from an external base -/
  | attr (v : Val) (a : String)
  | len (v : Val)
  deriving DecidableEq, Repr

abbrev Env := List (String × Val)

def bind : List String → Val → Env
  | p :: ps, .cons h t => (p, h) :: bind ps t
  | _, _ => []

def ofList : List Val → Val
  | [] => .nil
  | v :: vs => .cons v (ofList vs)

inductive Req where
  | readAttr (v : Val) (a : String)
  | path (env : Env) (p : Path)
  | rhs (env : Env) (r : Rhs)
  /-- run a body, return the returned value -/
  | body (env : Env) (stmts : List Stmt)
  /-- run a body, return what was last assigned to the target path -/
  | assigned (env : Env) (stmts : List Stmt) (target : Path) (last : Option Val)

/-- fuelled evaluation; `none` = unsupported / no such attribute / an exception -/
def eval (m : Module) : Nat → Req → Option Val
  | 0, _ => none
  | n + 1, .readAttr v a =>
    match v with
    | .new cls args =>
      match m.find cls a with
      | some d => if d.kind == "property" then eval m n (.body [("self", v)] d.body) else none
      | none =>
        let inherited := if m.externalBase cls then some (Val.attr v a) else none
        match m.find cls "__init__" with
        | some ini =>
          match eval m n (.assigned (bind ini.params (.cons v args)) ini.body ["self", a] none) with
          | some x => some x
          | none => inherited
        | none => inherited
    | _ => some (.attr v a)
  | n + 1, .path env p =>
    match p with
    | [] => none
    | root :: attrs =>
      attrs.foldlM (fun v a => eval m n (.readAttr v a)) ((env.lookup root).getD (.opaque root))
  | n + 1, .rhs env r =>
    match r with
    | .path p => eval m n (.path env p)
    | .call f args =>
      match args.mapM (fun a => eval m n (.path env a)) with
      | none => none
      | some avs =>
        let av := ofList avs
        match f with
        | [c] =>
          if m.isClass c then some (.new c av)
          else if c == "len" then (match avs with | [x] => some (.len x) | _ => none)
          else some (.ext f av)
        | ["self", meth] =>
          match env.lookup "self" with
          | some (.new cls sargs) =>
            match m.find cls meth with
            | some d =>
              if d.kind == "staticmethod" then eval m n (.body (bind d.params av) d.body)
              else if d.kind == "method" then eval m n (.body (bind d.params (.cons (.new cls sargs) av)) d.body)
              else none
            | none => none
          | _ => none
        | _ => some (.ext f av)
    | .arrayOfField f c => some (.ext ["numpy", "array"] (.cons (.opaque (".".intercalate c ++ "[*]." ++ f)) .nil))
    | .arrayOfPick i _ c => some (.ext ["numpy", "array"] (.cons (.opaque (".".intercalate c ++ "[*][" ++ toString i ++ "]")) .nil))
    | .arrayOfNestedPick i _ inner c =>
      some (.ext ["numpy", "array"] (.cons (.opaque (".".intercalate c ++ "[*]." ++ inner ++ "[*][" ++ toString i ++ "]")) .nil))
  | n + 1, .body env stmts =>
    match stmts with
    | [] => some (.opaque "None")
    | st :: rest =>
      match st with
      | .ret r => eval m n (.rhs env r)
      | .assign [x] r =>
        match eval m n (.rhs env r) with
        | some v => eval m n (.body ((x, v) :: env) rest)
        | none => none
      | .assign _ _ => eval m n (.body env rest)
      | .raiseExc _ => none
      | .other _ => none
      | _ => eval m n (.body env rest)
  | n + 1, .assigned env stmts target last =>
    match stmts with
    | [] => last
    | st :: rest =>
      match st with
      | .assign t r =>
        if t == target then
          match eval m n (.rhs env r) with
          | some v => eval m n (.assigned env rest target (some v))
          | none => none
        else
          match t, eval m n (.rhs env r) with
          | [x], some v => eval m n (.assigned ((x, v) :: env) rest target last)
          | _, _ => eval m n (.assigned env rest target last)
      | .ret _ => last
      | .raiseExc _ => none
      | .other _ => none
      | _ => eval m n (.assigned env rest target last)

def fuel : Nat := 100

/-- what a value is, for comparison with the running objects: the class of the root object and the attribute path from it
(`__len__` for `len(…)`); `none` for values that are not an attribute chain on an instance -/
def Val.render : Val → Option (String × List String)
  | .new cls _ => some (cls, [])
  | .attr v a => (Val.render v).map fun r => (r.1, r.2 ++ [a])
  | .len v => (Val.render v).map fun r => (r.1, r.2 ++ ["__len__"])
  | _ => none

/-- `obj.a₁.a₂…` -/
def readChain (m : Module) (obj : Val) (attrs : List String) : Option Val :=
  attrs.foldlM (fun v a => eval m fuel (.readAttr v a)) obj

/-! ### `read_input`: fields stored and the volume-order guard -/

section
variable {α : Type} [Sub α] [LE α] [DecidableLE α] [OfNat α 0]

/-- `numpy.diff` -/
def diff : List α → List α
  | a :: b :: t => (b - a) :: diff (b :: t)
  | _ => []

/-- `qha.tools.is_monotonic_decreasing`: `np.all(np.diff(array) <= 0)` (recorded contract of qha 1.1; tested by the harness) -/
def isMonotonicDecreasing (xs : List α) : Bool := (diff xs).all fun d => decide (d ≤ 0)

/-- `qha.tools.is_monotonic_increasing`: `np.all(np.diff(array) >= 0)` -/
def isMonotonicIncreasing (xs : List α) : Bool := (diff xs).all fun d => decide (0 ≤ d)

/-- the predicates of `qha.tools` the guard may name -/
def predMeaning (p : Path) : Option (List α → Bool) :=
  if p = ["qha", "tools", "is_monotonic_decreasing"] then some isMonotonicDecreasing
  else if p = ["qha", "tools", "is_monotonic_increasing"] then some isMonotonicIncreasing
  else none

/-- the statements of `read_input` run on the file's list of volumes.  `stored` = the `self.<field> = …` assignments made so far;
the guard's single argument must be a field stored from `[<x>.volume for <x> in qha_input.volumes]` (its value is then `volumes`).
`none` = a statement whose meaning this function does not know. -/
def runReadInput (volumes : List α) : List Stmt → List (Path × Rhs) → Option (Except String (List (Path × Rhs)))
  | [], stored => some (.ok stored)
  | st :: rest, stored =>
    match st with
    | .assign t r => runReadInput volumes rest (stored ++ [(t, r)])
    | .guardRaise neg pred [arg] exc =>
      match stored.lookup arg, predMeaning (α := α) pred with
      | some (.arrayOfField "volume" ["qha_input", "volumes"]), some pm =>
        if (pm volumes) != neg then some (.error exc) else runReadInput volumes rest stored
      | _, _ => none
    | .log => runReadInput volumes rest stored
    | .pass => runReadInput volumes rest stored
    | .raiseExc exc => some (.error exc)
    | .ret _ => some (.ok stored)
    | _ => none

end

/-! ### `convert_unit` -/

/-- `def convert_unit(<params>; <defaults>): <lam> = lambda <lamParams>: <quantityFn>(<quantityArgs>).<toMethod>(<toArgs>).<finalAttr>`
`if <testName> <testOp> <testConst>: return <thenRet> else: return <elseRet>` -/
structure ConvertUnit where
  params : List String
  defaults : List (String × String)
  lam : String
  lamParams : List String
  quantityFn : Path
  quantityArgs : List String
  toMethod : String
  toArgs : List String
  finalAttr : String
  testName : String
  testOp : String
  testConst : String
  thenRet : Rhs
  elseRet : Rhs
  deriving DecidableEq, Repr

/-- what a call of `convert_unit` returns: a converted value, or the conversion function -/
inductive Converted (α : Type) where
  | value (x : α)
  | function (f : α → α)

/-- meaning of the translated `convert_unit(uFrom, uTo[, value])`, for any type of units `U` and any
`conv u u' x = units.Quantity(x, u).to(u').magnitude` (pint; a parameter): names are looked up in the call's bindings, so exchanged
arguments give `conv uTo uFrom`.  `none` = outside what this function knows. -/
def ConvertUnit.meaning {U α : Type} (c : ConvertUnit) (conv : U → U → α → α) (uFrom uTo : U) (value : Option α) :
    Option (Converted α) :=
  match c.params, c.lamParams, c.quantityArgs, c.toArgs with
  | [pf, pt, pv], [x], [qa, qu], [ta] =>
    let unitOf : String → Option U := fun n => if n == pf then some uFrom else if n == pt then some uTo else none
    if c.quantityFn = ["units", "Quantity"] && c.toMethod == "to" && c.finalAttr == "magnitude" && qa == x
        && c.defaults == [(pv, "None")] && c.testName == pv && c.testConst == "None"
        && c.thenRet == .call [c.lam] [[pv]] && c.elseRet == .path [c.lam] then
      match unitOf qu, unitOf ta with
      | some u, some u' =>
        let f := conv u u'
        let given := if c.testOp == "is not" then value.isSome else if c.testOp == "is" then value.isNone else false
        if c.testOp != "is not" && c.testOp != "is" then none
        else if given then
          -- `return <lam>(value)`: with `value = None` under the test `is` this would convert None — not a number
          match value with
          | some v => some (.value (f v))
          | none => none
        else some (.function f)
      | _, _ => none
    else none
  | _, _, _, _ => none

/-! ### unit monomials and dimensions -/

/-- a product of powers of unit names; exponents counted in HALVES (so `** (1/2)` stays integral); not normalised -/
abbrev Mono2 := List (String × Int)

def Mono2.exp (m : Mono2) (u : String) : Int := ((m.filter (·.1 == u)).map (·.2)).foldl (· + ·) 0
def Mono2.mul (a b : Mono2) : Mono2 := a ++ b
def Mono2.inv (a : Mono2) : Mono2 := a.map fun p => (p.1, -p.2)
def Mono2.div (a b : Mono2) : Mono2 := a ++ Mono2.inv b
def Mono2.one : Mono2 := []
/-- the same exponent for every unit name that occurs -/
def Mono2.eqv (a b : Mono2) : Bool := ((a ++ b).map (·.1)).all fun u => Mono2.exp a u == Mono2.exp b u
/-- `m ** (num/den)`; `none` when an exponent is not integral in halves -/
def Mono2.pow (m : Mono2) (num den : Nat) : Option Mono2 :=
  if den = 0 then none
  else m.mapM fun p => if (p.2 * (num : Int)) % (den : Int) = 0 then some (p.1, p.2 * (num : Int) / (den : Int)) else none

/-- whole exponents (the monomials of Generated.NonShearGlue.unitConvs) in halves -/
def ofMono (m : Cij.NSGlue.Mono) : Mono2 := m.map fun p => (p.1, 2 * p.2)

def UExpr.mono2 : UExpr → Option Mono2
  | .u n => some [(n, 2)]
  | .mul a b => do pure (Mono2.mul (← UExpr.mono2 a) (← UExpr.mono2 b))
  | .div a b => do pure (Mono2.div (← UExpr.mono2 a) (← UExpr.mono2 b))
  | .pow a n d => do Mono2.pow (← UExpr.mono2 a) n d

/-- SI dimension: exponents of (length, mass, time, temperature, amount of substance) -/
structure Dim where
  l : Int
  m : Int
  t : Int
  θ : Int
  n : Int
  deriving DecidableEq, Repr

def Dim.zero : Dim := ⟨0, 0, 0, 0, 0⟩
def Dim.add (a b : Dim) : Dim := ⟨a.l + b.l, a.m + b.m, a.t + b.t, a.θ + b.θ, a.n + b.n⟩
def Dim.smul (k : Int) (a : Dim) : Dim := ⟨k * a.l, k * a.m, k * a.t, k * a.θ, k * a.n⟩

/-- the dimension of the unit names the two modules and nonshear.py use (pint's default registry: a recorded contract; the
harness compares this table with `units.<name>.dimensionality` on every run) -/
def unitDim (u : String) : Option Dim :=
  if u == "bohr" || u == "angstrom" || u == "cm" || u == "km" || u == "m" then some ⟨1, 0, 0, 0, 0⟩
  else if u == "g" || u == "kg" then some ⟨0, 1, 0, 0, 0⟩
  else if u == "s" then some ⟨0, 0, 1, 0, 0⟩
  else if u == "K" then some ⟨0, 0, 0, 1, 0⟩
  else if u == "mol" || u == "particle" then some ⟨0, 0, 0, 0, 1⟩
  else if u == "rydberg" || u == "eV" || u == "J" || u == "hartree" then some ⟨2, 1, -2, 0, 0⟩
  else if u == "GPa" || u == "Pa" then some ⟨-1, 1, -2, 0, 0⟩
  else none

def unitNames : List String :=
  ["bohr", "angstrom", "cm", "km", "m", "g", "kg", "s", "K", "mol", "particle", "rydberg", "eV", "J", "hartree", "GPa", "Pa"]

/-- dimension of a monomial, in halves (an exponent e/2 of a unit of dimension d contributes e·d) -/
def Mono2.dim : Mono2 → Option Dim
  | [] => some Dim.zero
  | (u, e) :: rest =>
    match unitDim u, Mono2.dim rest with
    | some d, some r => some (Dim.add (Dim.smul e d) r)
    | _, _ => none

/-! ### dimensional analysis of the expression trees of nonshear.py (`Cij.NSExpr.SExpr`, `Cij.NSGlue.QDef`) -/

open Cij.NSExpr in
/-- every per-mode array the bodies average is dimensionless, except the frequencies -/
def unitOfM (freqU : Mono2) : MExpr → Option Mono2
  | .sym .freq => some freqU
  | .sym _ => some Mono2.one
  | .neg a => unitOfM freqU a
  | .add a b | .sub a b =>
    match unitOfM freqU a, unitOfM freqU b with
    | some x, some y => if Mono2.eqv x y then some x else none
    | _, _ => none
  | .mul a b =>
    match unitOfM freqU a, unitOfM freqU b with
    | some x, some y => some (Mono2.mul x y)
    | _, _ => none

open Cij.NSExpr in
/-- the unit of a body, given the unit of every symbol; a sum of unlike units is `none` -/
def unitOfS (symU : SSym → Option Mono2) (freqU : Mono2) : SExpr → Option Mono2
  | .sym s => symU s
  | .lit _ => some Mono2.one
  | .avg m => unitOfM freqU m
  | .neg a => unitOfS symU freqU a
  | .add a b | .sub a b =>
    match unitOfS symU freqU a, unitOfS symU freqU b with
    | some x, some y => if Mono2.eqv x y then some x else none
    | _, _ => none
  | .mul a b =>
    match unitOfS symU freqU a, unitOfS symU freqU b with
    | some x, some y => some (Mono2.mul x y)
    | _, _ => none
  | .div a b =>
    match unitOfS symU freqU a, unitOfS symU freqU b with
    | some x, some y => some (Mono2.div x y)
    | _, _ => none
  | .sq a =>
    match unitOfS symU freqU a with
    | some x => some (Mono2.mul x x)
    | none => none

open Cij.NSGlue in
def unitOfQ (hdkU freqU tU : Mono2) : QDef → Option Mono2
  | .hdk => some hdkU
  | .freq => some freqU
  | .T => some tU
  | .lit _ => some Mono2.one
  | .neg a => unitOfQ hdkU freqU tU a
  | .add a b | .sub a b =>
    match unitOfQ hdkU freqU tU a, unitOfQ hdkU freqU tU b with
    | some x, some y => if Mono2.eqv x y then some x else none
    | _, _ => none
  | .mul a b =>
    match unitOfQ hdkU freqU tU a, unitOfQ hdkU freqU tU b with
    | some x, some y => some (Mono2.mul x y)
    | _, _ => none
  | .div a b =>
    match unitOfQ hdkU freqU tU a, unitOfQ hdkU freqU tU b with
    | some x, some y => some (Mono2.div x y)
    | _, _ => none

/-- the unit in which qha 1.1 holds each field cij reads (its naming: `_ry` rydberg, `_bohr3` bohr³, `_au` atomic Rydberg units;
a recorded contract of the external package — the harness checks `p_tv_au`, `finer_volumes_bohr3`, `f_tv_ry`, `cv_tv_au` against
qha's own `_gpa` / `_ang3` / `_ev` / `_jmolk` twins with CODATA factors on every run) -/
def qhaFieldUnit (f : String) : Option Mono2 :=
  if f == "finer_volumes_bohr3" || f == "v_tp_bohr3" then some [("bohr", 6)]
  else if f == "temperature_array" || f == "temperature_sample_array" then some [("K", 2)]
  else if f == "p_tv_au" || f == "desired_pressures" || f == "bt_tv_au" || f == "bs_tv_au" || f == "bt_tp_au" || f == "bs_tp_au" then
    some [("rydberg", 2), ("bohr", -6)]
  else if f == "cv_tv_au" || f == "cv_tp_au" || f == "cp_tp_au" then some [("rydberg", 2), ("K", -2)]
  else if f == "f_tv_ry" || f == "g_tv_ry" || f == "h_tv_ry" || f == "u_tv_ry" || f == "f_tp_ry" || f == "g_tp_ry" || f == "h_tp_ry"
      || f == "u_tp_ry" then some [("rydberg", 2)]
  else if f == "alpha_tv" || f == "alpha_tp" then some [("K", -2)]
  else none

end Cij.QhaGlue
