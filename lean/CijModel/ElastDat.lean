/-
  Model of `cij/io/traditional/elast_dat.py` (read_elast_data, _find_modulus_key, apply_symetry_on_elast_data)
  and of the re-emission done by `cij/cli/fill.py` (main), at record / line level.

  Files are `List Line` (token lists) as in `QhaInput.lean`; numbers are abstract (`NumFmt`).
  Column names reach the canonical Voigt key through `Modulus.create [.str digits]` (`CijModel/Voigt.lean`, C10).
  `fill_cij` itself (C08/C09) is a PARAMETER here: a partial function on tables.
-/
import CijModel.QhaInput
import CijModel.Voigt

namespace Cij.ElastDat
open Cij

/-- a dictionary key of `static_elastic_modulus`: the canonical `ModulusRepresentation`, or — when the column name
does not end in digits — the raw column name (a `str`). -/
inductive Key where
  | mod (m : Modulus)
  | raw (s : String)
  deriving DecidableEq, Repr, Inhabited

/-- `REGEX_MODULUS = ^\D*(\d+)$` then `c_(digits)`; no match → the name itself.
`none` = `c_` raised (1, 3, ≥5 digits, index out of range). -/
def findModulusKey (t : Token) : Option Key :=
  let cs := t.toList
  let suf := cs.dropWhile (fun c => !c.isDigit)
  if !suf.isEmpty && suf.all Char.isDigit then
    (Modulus.create [.str (String.ofList suf)]).map Key.mod
  else some (Key.raw t)

/-- `dict[k] = v` on an insertion-ordered dictionary -/
def dictInsert {κ ν} [DecidableEq κ] (d : List (κ × ν)) (k : κ) (v : ν) : List (κ × ν) :=
  if d.any (fun e => e.1 = k) then d.map (fun e => if e.1 = k then (e.1, v) else e) else d ++ [(k, v)]

/-- `dict(zip(keys, vals))` : truncates to the shorter list, a repeated key keeps its first position and its last value -/
def dictOfZip {κ ν} [DecidableEq κ] (ks : List κ) (vs : List ν) : List (κ × ν) :=
  (ks.zip vs).foldl (fun d kv => dictInsert d kv.1 kv.2) []

variable {Num : Type}

/-- `ElastVolumeData(volume, static_elastic_modulus)` -/
structure ElastVolume (Num : Type) where
  volume : Num
  moduli : List (Key × Num)
  deriving Repr, DecidableEq

/-- `ElastData(vref, nv, cellmass, volumes, lattice_parmeters)` -/
structure ElastData (Num : Type) where
  vref : Num
  nv : Int
  cellmass : Num
  volumes : List (ElastVolume Num)
  lattice : List (List Num)
  deriving Repr, DecidableEq

/-- the `nv` table rows: `fp.readline()` (empty at EOF → `fields[0]` IndexError), all fields through `float` -/
def readRows (F : NumFmt Num) (keys : List Key) : Nat → List Line → Option (List (ElastVolume Num) × List Line)
  | 0, ls => some ([], ls)
  | n + 1, ls => do
      let fields ← (ls.headD []).mapM F.parse
      let v ← fields.head?
      let (vs, r) ← readRows F keys n ls.tail
      pure (⟨v, dictOfZip keys.tail fields.tail⟩ :: vs, r)

/-- the `nv` lattice rows: `fp.readline()` (empty at EOF → an empty tuple is appended), all fields through `float` -/
def readLattice (F : NumFmt Num) : Nat → List Line → Option (List (List Num))
  | 0, _ => some []
  | n + 1, ls => do
      let fields ← (ls.headD []).mapM F.parse
      let rest ← readLattice F n ls.tail
      pure (fields :: rest)

/-- `read_elast_data` -/
def readElastData (F : NumFmt Num) (file : List Line) : Option (ElastData Num) :=
  match file with
  | _ :: l2 :: l3 :: rest => do
      let vref ← l2[0]? >>= F.parse
      let nv ← l2[1]? >>= Lex.parseInt
      let cellmass ← l2[2]? >>= F.parse
      let keys ← l3.mapM findModulusKey
      let (vols, rest) ← readRows F keys nv.toNat rest
      -- one line is consumed; only when it is non-blank a lattice block of nv rows follows
      let lattice ← if rest.headD [] ≠ [] then readLattice F nv.toNat rest.tail else some []
      pure { vref, nv, cellmass, volumes := vols, lattice }
  | _ => none

/-! ### apply_symetry_on_elast_data -/

/-- a table as pandas holds it: column labels and rows -/
structure Table (Num : Type) where
  names : List Token
  rows : List (List Num)
  deriving Repr, DecidableEq

/-- `"c%s%s" % key.v` — only a `ModulusRepresentation` has `.v`; a raw `str` key raises AttributeError -/
def canonName : Key → Option Token
  | .mod m => m.voigt.map fun (a, b) => "c" ++ toString a ++ toString b
  | .raw _ => none

/-- `c_(key[1:])` on a column label of the filled frame -/
def keyOfName (t : Token) : Option Key :=
  (Modulus.create [.str (String.ofList (t.toList.drop 1))]).map Key.mod

/-- `apply_symetry_on_elast_data(input, symmetry)` with `fill_cij(·, **symmetry)` as the parameter `fill`.
The frame is built from the list of per-volume dictionaries (all rows carry the keys of the key line). -/
def applySymmetry (fill : Table Num → Option (Table Num)) (d : ElastData Num) : Option (ElastData Num) := do
  let keys := (d.volumes.headD ⟨d.vref, []⟩).moduli.map (·.1)
  let names ← keys.mapM canonName
  let t ← fill ⟨names, d.volumes.map fun v => v.moduli.map (·.2)⟩
  let keys' ← t.names.mapM keyOfName
  if t.rows.length < d.volumes.length then none else      -- `df.iloc[i]` IndexError
  pure { d with volumes := (d.volumes.zip t.rows).map fun (v, r) => ⟨v.volume, dictOfZip keys' r⟩ }

/-! ### `cij fill` : re-emission of the file -/

/-- `pandas.read_table(sio, header=0, sep="\s+")` on the N+1 table lines (numeric columns): blank lines are
skipped, the first remaining line is the header; a row whose width differs from the header is outside the
model (pandas pads with NaN / raises) and rejected here. -/
def parseTable (F : NumFmt Num) (lines : List Line) : Option (Table Num) :=
  match lines.filter (· ≠ []) with
  | [] => none
  | h :: rows => do
      let rs ← rows.mapM (fun r => if r.length = h.length then r.mapM F.parse else none)
      pure ⟨h, rs⟩

/-- `elast.to_string(index=False)` : header line, then one line per row; `k` = decimals pandas prints -/
def printTable (P : NumFmt Num) (k : Nat) (t : Table Num) : List Line :=
  t.names :: t.rows.map (fun r => r.map (P.fmt k))

/-- `cij fill` (`cli/fill.py: main`): two header lines verbatim, `N+1` table lines through
read_table → fill_cij → to_string, the rest verbatim.  `F` reads the input, `P` is pandas' printer. -/
def fillCmd (F P : NumFmt Num) (k : Nat) (fill : Table Num → Option (Table Num)) (file : List Line) :
    Option (List Line) :=
  match file with
  | l1 :: l2 :: rest => do
      let n ← l2[1]? >>= Lex.parseInt
      let cnt := (n + 1).toNat                 -- range(N + 1)
      let t ← parseTable F (rest.take cnt)
      let t' ← fill t
      pure (l1 :: l2 :: (printTable P k t' ++ rest.drop cnt))
  | _ => none

/-- rounding of a parsed table to pandas' printed precision -/
def roundData (P : NumFmt Num) (k : Nat) (d : ElastData Num) : ElastData Num :=
  { d with volumes := d.volumes.map fun v => ⟨P.round k v.volume, v.moduli.map fun (key, x) => (key, P.round k x)⟩ }

end Cij.ElastDat
