/-
  Model of `cij/core/phonon_contribution/shear.py` (strain-energy rotation for the 15 components that
  carry a Voigt index 4–6).

  Written ONCE, polymorphic in the scalar `α` (`Add Sub Mul Div NatCast`): run at `Float` by the driver,
  the subject of the theorems at a `CommRing` / `Field` / `ℝ`.

  * numeric literals of the Python code (`0`, `1`, `2`, `key.multiplicity`) are `Nat` casts;
  * `numpy.isclose(x, 0)` is the parameter `isZero` (`|x| ≤ 1e-8` at `Float`, `x = 0` in the theorems);
  * `numpy.linalg.eigh(fictitious_strain)` is a PARAMETER `(T, lam)` (columns of `T` = eigenvectors) with the
    contract `TᵀT = 1`, `Tᵀ e T = diag lam` (`Contract` below; measured by the harness on every case);
  * arrays over the (T,V) grid are handled point-wise by the caller: every operation of shear.py on them is
    point-wise (`*`, `/`, `+=`, `-`).
-/
import CijModel.Voigt

namespace Cij.Shear

variable {α : Type} [Add α] [Sub α] [Mul α] [Div α] [NatCast α]

abbrev Mat3 (α : Type) := Fin 3 → Fin 3 → α
abbrev Vec3 (α : Type) := Fin 3 → α

def fin3 : List (Fin 3) := [0, 1, 2]

/-- a 3-term sum, left to right (a row·column product of `@`, `numpy.sum(axis=1)` of a 3-column row) -/
def sum3 (f : Fin 3 → α) : α := f 0 + f 1 + f 2

/-- all index pairs in `numpy.argwhere` (row-major) order -/
def allPairs9 : List (Fin 3 × Fin 3) := fin3.flatMap fun i => fin3.map fun j => (i, j)

/-- Python index `n - 1` of a 1-based tensor index (only ever applied to 1,2,3) -/
def idx (n : Int) : Fin 3 := ⟨(n - 1).toNat % 3, Nat.mod_lt _ (by decide)⟩

/-- `c_(i+1, j+1, k+1, l+1)`: canonical key of a 0-based index tuple (C10: `Modulus.fromStandard`) -/
def key4 (i j k l : Fin 3) : Modulus :=
  (Modulus.fromStandard ((i.val : Int) + 1) ((j.val : Int) + 1) ((k.val : Int) + 1) ((l.val : Int) + 1)).getD default

abbrev Pair := Fin 3 × Fin 3
def keyOfPairs (pq : Pair × Pair) : Modulus := key4 pq.1.1 pq.1.2 pq.2.1 pq.2.2

/-- which entries `fictitious_strain` sets to 1:
`e[key.i[0]-1, key.i[1]-1] = 1; e[key.i[1]-1, key.i[0]-1] = 1; e[key.j[0]-1, key.j[1]-1] = 1; e[key.j[1]-1, key.j[0]-1] = 1` -/
def fictitiousMask (key : Modulus) (i j : Fin 3) : Bool :=
  (i == idx key.i.i && j == idx key.i.j) || (i == idx key.i.j && j == idx key.i.i) ||
  (i == idx key.j.i && j == idx key.j.j) || (i == idx key.j.j && j == idx key.j.i)

/-- `ShearElasticModulusPhononContribution.fictitious_strain` (`numpy.zeros((3,3))` with the four assignments) -/
def fictitiousStrain (key : Modulus) : Mat3 α := fun i j => if fictitiousMask key i j then ((1 : Nat) : α) else ((0 : Nat) : α)

/-- `numpy.diag(eigenvalues)` — `fictitious_strain_rotated` -/
def diagMat (lam : Vec3 α) : Mat3 α := fun i j => if i = j then lam i else ((0 : Nat) : α)

/-- `numpy.argwhere(numpy.logical_not(numpy.isclose(e, 0)))` -/
def nzPairs (isZero : α → Bool) (e : Mat3 α) : List Pair := allPairs9.filter fun p => !isZero (e p.1 p.2)

/-- `itertools.product(nz, nz)` -/
def product (nz : List Pair) : List (Pair × Pair) := nz.flatMap fun p => nz.map fun q => (p, q)

/-- the pairs of the loop body that are not skipped by `if target and key == target: continue`
(a `ModulusRepresentation` is a non-empty tuple, hence truthy; `None` is falsy; `==` of NamedTuples is structural) -/
def energyPairs (isZero : α → Bool) (e : Mat3 α) (target : Option Modulus) : List (Pair × Pair) :=
  (product (nzPairs isZero e)).filter fun pq => !(decide (some (keyOfPairs pq) = target))

/-- `get_fictitious_strain_energy_keys(e, target)` -/
def energyKeys (isZero : α → Bool) (e : Mat3 α) (target : Option Modulus) : List Modulus :=
  (energyPairs isZero e target).map keyOfPairs

/-- `calculate_fictitious_strain_energy(e, resolve, target)`:
`_energy = 0; for …: _energy += resolve(key) * e[i,j] * e[k,l] / 2` -/
def strainEnergy (isZero : α → Bool) (e : Mat3 α) (resolve : Modulus → α) (target : Option Modulus) : α :=
  (energyPairs isZero e target).foldl
    (fun acc pq => acc + resolve (keyOfPairs pq) * e pq.1.1 pq.1.2 * e pq.2.1 pq.2.2 / ((2 : Nat) : α))
    ((0 : Nat) : α)

/-- `get_target_elastic_modulus` given the two energies:
`2 * (E_rot - E_orig) / (e[i-1,j-1] * e[k-1,l-1]) / key.multiplicity` with `i,j,k,l = key.standard` -/
def targetModulus (key : Modulus) (e : Mat3 α) (eRot eOrig : α) : α :=
  ((2 : Nat) : α) * (eRot - eOrig) / (e (idx key.i.i) (idx key.i.j) * e (idx key.j.i) (idx key.j.j)) /
    ((key.multiplicity : Nat) : α)

/-- `get_modulus_keys()` -/
def modulusKeys (isZero : α → Bool) (key : Modulus) : List Modulus :=
  energyKeys isZero (fictitiousStrain (α := α) key) (some key)

/-- `get_modulus_keys_rotated()` -/
def modulusKeysRotated (isZero : α → Bool) (lam : Vec3 α) : List Modulus :=
  energyKeys isZero (diagMat lam) none

/-- `value_isothermal` = `get_target_elastic_modulus()` with `self.modulus = resolve`, `self.modulus_rotated = resolveRot` -/
def shearValue (isZero : α → Bool) (key : Modulus) (lam : Vec3 α) (resolve resolveRot : Modulus → α) : α :=
  targetModulus key (fictitiousStrain key)
    (strainEnergy isZero (diagMat lam) resolveRot none)
    (strainEnergy isZero (fictitiousStrain key) resolve (some key))

/-- one row of `strain_rotated`: `numpy.diagonal(T.T @ diag(s) @ T)` -/
def strainRotated (T : Mat3 α) (s : Vec3 α) : Vec3 α := fun a =>
  sum3 fun j => (sum3 fun i => T i a * (if i = j then s i else ((0 : Nat) : α))) * T j a

/-! ### specification side: the full tensor of 21 values, its rotation, the eigen contract -/

/-- the symmetric fourth-rank tensor with the 21 independent values `c` -/
def tensorOf (c : Modulus → α) : Fin 3 → Fin 3 → Fin 3 → Fin 3 → α := fun i j k l => c (key4 i j k l)

/-- `C'_abcd = Σ T_ia T_jb T_kc T_ld C_ijkl` -/
def rotate (T : Mat3 α) (C : Fin 3 → Fin 3 → Fin 3 → Fin 3 → α) : Fin 3 → Fin 3 → Fin 3 → Fin 3 → α :=
  fun a b c d => sum3 fun i => sum3 fun j => sum3 fun k => sum3 fun l => T i a * T j b * T k c * T l d * C i j k l

/-- the rotated tensor read through a key (what `modulus_rotated[key]` must contain) -/
def rotatedLookup (T : Mat3 α) (c : Modulus → α) (k : Modulus) : α :=
  rotate T (tensorOf c) (idx k.i.i) (idx k.i.j) (idx k.j.i) (idx k.j.j)

/-- contract of the eigen-decomposition: `TᵀT = 1` and `Tᵀ e T = diag lam` -/
structure Contract (T : Mat3 α) (lam : Vec3 α) (e : Mat3 α) : Prop where
  orth : ∀ a b, (sum3 fun i => T i a * T i b) = if a = b then ((1 : Nat) : α) else ((0 : Nat) : α)
  diag : ∀ a b, (sum3 fun i => sum3 fun j => T i a * e i j * T j b) = if a = b then lam a else ((0 : Nat) : α)

/-- the 15 keys with a Voigt index 4–6 -/
def shearKeys : List Modulus := (keys21.map keyOfVoigt).filter Modulus.isShear

/-- the 6 keys without -/
def nonShearKeys : List Modulus := (keys21.map keyOfVoigt).filter fun k => !k.isShear

end Cij.Shear
