/-
  C18 — the options `cij run-static` runs with when an option is not given: read off the click declaration the
  translator extracts from `cij/cli/static.py` on this run (`Generated.staticClick`).  No Mathlib.
  Used by the driver (`Ops/C18.lean`: a field the harness leaves out takes the value declared in the source) and by
  `static_defaults_are_source` (Properties/C18.lean).
-/
import CijModel.StaticExpr
import Generated.StaticSpec

namespace Cij.StaticSrc
open Cij Cij.Static

/-- `default=` of the parameter `main` receives under this name (`None` when there is none) -/
def clickDefault (name : String) : PyLit :=
  ((clickParam? Generated.staticClick name).map (·.default)).getD .none

def interpOfName : String → Option Interp
  | "none" => some .none
  | "volume" => some .volume
  | "pressure" => some .pressure
  | _ => none

section
variable {α : Type} [Div α] [Neg α] [NatCast α]

def intToScalar (n : Int) : α := if n < 0 then -((n.natAbs : Nat) : α) else ((n.toNat : Nat) : α)

/-- what `click.FLOAT` makes of a numeric default -/
def PyLit.toScalar : PyLit → Option α
  | .int n => some (intToScalar n)
  | .rat n d => some (intToScalar n / ((d : Nat) : α))
  | _ => Option.none

/-- an option whose default may be `None` -/
def PyLit.toOptScalar : PyLit → Option (Option α)
  | .none => some Option.none
  | l => (l.toScalar (α := α)).map some

/-- the options of a bare `cij run-static INPUT01 [INPUT02]` -/
def defaultOptions : Option (Options α) := do
  let interp ← match clickDefault "interp" with
    | .str s => interpOfName s
    | _ => none
  let ntv ← match clickDefault "ntv" with
    | .int n => if n < 0 then none else some n.toNat
    | _ => none
  let pMin ← (clickDefault "p_min").toScalar
  let deltaP ← (clickDefault "delta_p").toScalar
  let deltaPSample ← (clickDefault "delta_p_sample").toOptScalar
  let cellmass ← (clickDefault "cellmass").toOptScalar
  let vRatio ← (clickDefault "v_ratio").toScalar
  let system ← match clickDefault "system" with
    | .none => some none
    | .str s => some (some s)
    | _ => none
  pure { interp, ntv, pMin, deltaP, deltaPSample, cellmass, vRatio, system }

end

end Cij.StaticSrc
