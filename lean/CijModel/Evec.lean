/-
  Model of `cij/misc/evec_sort.py`, `cij/misc/evec_disp2eig.py`, `cij/misc/evec_load.py`.

  * complex numbers are pairs `Cx ρ` over a real scalar `ρ` (Float in the driver, ℝ in the proofs);
  * `evec_sort` is modelled on the matrix of overlap magnitudes `|conj(B) @ T.T|` as a function
    `Nat → Nat → α`: greedy global argmax (numpy.argmax = first maximum in row-major order), row and column
    zeroed, `sorted[row] := target[col]`, repeated `ndim` times — including numpy's behaviour on an all-zero
    remainder (argmax = (0,0) again), which is what produces `None` entries;
  * `evec_load` is modelled at line / character-slice level: the two regexes are hand-written scanners
    (deterministic: for these patterns leftmost-greedy matching needs no backtracking), vector lines are
    cut by the fixed column slices of the STRIPPED line; `float()` is the parameter `pf`.
  Every Python exception is the outcome `none`.
-/
import CijModel.QhaInput

namespace Cij.Evec

/-! ### scalars -/

class HasSqrt (ρ : Type) where
  sqrt : ρ → ρ

instance : HasSqrt Float := ⟨Float.sqrt⟩

structure Cx (ρ : Type) where
  re : ρ
  im : ρ
  deriving Repr, DecidableEq, Inhabited

section scalar
variable {ρ : Type} [Add ρ] [Sub ρ] [Mul ρ] [Div ρ] [Neg ρ] [OfNat ρ 0] [HasSqrt ρ]

namespace Cx
def zero : Cx ρ := ⟨0, 0⟩
def add (x y : Cx ρ) : Cx ρ := ⟨x.re + y.re, x.im + y.im⟩
def mul (x y : Cx ρ) : Cx ρ := ⟨x.re * y.re - x.im * y.im, x.re * y.im + x.im * y.re⟩
def conj (x : Cx ρ) : Cx ρ := ⟨x.re, -x.im⟩
/-- `|z|²` -/
def normSq (x : Cx ρ) : ρ := x.re * x.re + x.im * x.im
/-- `numpy.abs(z)` -/
def abs (x : Cx ρ) : ρ := HasSqrt.sqrt (normSq x)
/-- multiplication by a real factor (`a *= numpy.sqrt(m)[nax, :]`) -/
def smul (s : ρ) (x : Cx ρ) : Cx ρ := ⟨s * x.re, s * x.im⟩
/-- division by a real number (`a /= numpy.sqrt(norm)[:, nax]`, the norm has zero imaginary part) -/
def divReal (x : Cx ρ) (s : ρ) : Cx ρ := ⟨x.re / s, x.im / s⟩
end Cx

/-- one entry of `numpy.conj(base) @ target.T`:  Σ_k conj(b_k) t_k  (left fold; numpy's order differs only in rounding) -/
def overlap (b t : List (Cx ρ)) : Cx ρ :=
  (b.zip t).foldl (fun acc p => Cx.add acc (Cx.mul (Cx.conj p.1) p.2)) Cx.zero

end scalar

/-! ### evec_sort -/

section sort
variable {α : Type} [LT α] [DecidableRel (fun a b : α => a < b)] [OfNat α 0] {ι : Type}

/-- index pairs of an n×n matrix in row-major order (the order `numpy.argmax` scans the flattened array) -/
def pairs (n : Nat) : List (Nat × Nat) :=
  (List.range n).flatMap fun i => (List.range n).map fun j => (i, j)

/-- `numpy.unravel_index(numpy.argmax(a), a.shape)`: first maximum in row-major order -/
def argmax2 (n : Nat) (a : Nat → Nat → α) : Nat × Nat :=
  (pairs n).foldl (fun best p => if a best.1 best.2 < a p.1 p.2 then p else best) (0, 0)

/-- `m[r, :] = 0; m[:, c] = 0` -/
def zeroRC (a : Nat → Nat → α) (r c : Nat) : Nat → Nat → α :=
  fun i j => if i = r ∨ j = c then 0 else a i j

/-- `sorted_arr[r] = x` -/
def setAt (s : Nat → Option ι) (r : Nat) (x : ι) : Nat → Option ι :=
  fun i => if i = r then some x else s i

/-- `k` rounds of the loop body of `evec_sort` -/
def greedyLoop (n : Nat) (target : Nat → ι) : Nat → (Nat → Nat → α) → (Nat → Option ι) → (Nat → Option ι)
  | 0, _, s => s
  | k + 1, a, s =>
      let p := argmax2 n a
      greedyLoop n target k (zeroRC a p.1 p.2) (setAt s p.1 (target p.2))

/-- the loop of `evec_sort` on the magnitude matrix `a = |m|`: `sorted_arr` as a function of the position
(`none` = Python's `None`, an entry that was never assigned) -/
def evecSortMag (n : Nat) (a : Nat → Nat → α) (target : Nat → ι) : Nat → Option ι :=
  greedyLoop n target n a (fun _ => none)

/-- the same loop with the picked (row, column) pairs as an explicit list — the form the driver runs (a function-valued
state would be re-evaluated for every position); `Lemmas/Evec.lean: evecSortRun_eq` proves it equal to `evecSortMag`. -/
def greedyPairs (n : Nat) : Nat → (Nat → Nat → α) → List (Nat × Nat)
  | 0, _ => []
  | k + 1, a =>
      let p := argmax2 n a
      p :: greedyPairs n k (zeroRC a p.1 p.2)

def assign (target : Nat → ι) (ps : List (Nat × Nat)) (s : Nat → Option ι) : Nat → Option ι :=
  ps.foldl (fun s p => setAt s p.1 (target p.2)) s

def evecSortRun (n : Nat) (a : Nat → Nat → α) (target : Nat → ι) : List (Option ι) :=
  let ps := greedyPairs n n a
  (List.range n).map (assign target ps (fun _ => none))

/-- the dimension check: `s = {len(target_evecs), len(base_evecs), *[len(v) ...]}`; reject unless `s = {ndim}` -/
def dimsOk {β : Type} (ndim : Nat) (targetEvecs baseEvecs : List (List β)) : Bool :=
  (targetEvecs.length :: baseEvecs.length :: (targetEvecs ++ baseEvecs).map List.length).all (· == ndim)

end sort

section sortc
variable {ρ : Type} [Add ρ] [Sub ρ] [Mul ρ] [Div ρ] [Neg ρ] [OfNat ρ 0] [HasSqrt ρ]
  [LT ρ] [DecidableRel (fun a b : ρ => a < b)] {ι : Type}

/-- `evec_sort(target_arr, target_evecs, base_evecs)` (no `filter`, no `threshold`) -/
def evecSort (items : List ι) (targetEvecs baseEvecs : List (List (Cx ρ))) : Option (List (Option ι)) :=
  let n := items.length
  if dimsOk n targetEvecs baseEvecs then
    let B := baseEvecs.toArray
    let T := targetEvecs.toArray
    let mag : Array (Array ρ) := B.map fun b => T.map fun t => Cx.abs (overlap b t)
    let a : Nat → Nat → ρ := fun i j => ((mag[i]?).bind (·[j]?)).getD 0
    let it := items.toArray
    some ((evecSortRun n a (fun j => it[j]?)).map fun o => o.bind id)
  else none

/-! ### evec_disp2eig -/

/-- `numpy.repeat(mass, 3)` -/
def repeat3 (mass : List ρ) : List ρ := mass.flatMap fun x => [x, x, x]

/-- one row of `a *= sqrt(m)`; `norm = (conj(a) @ a.T)[i,i]`; `a /= sqrt(norm)` -/
def disp2eigRow (m3 : List ρ) (row : List (Cx ρ)) : List (Cx ρ) :=
  let scaled := List.zipWith (fun z m => Cx.smul (HasSqrt.sqrt m) z) row m3
  let norm := scaled.foldl (fun acc z => acc + Cx.normSq z) 0
  scaled.map fun z => Cx.divReal z (HasSqrt.sqrt norm)

/-- `evec_disp2eig(a, mass)`: `a` is M × 3N; anything else is rejected (RuntimeError / IndexError) -/
def disp2eig (a : List (List (Cx ρ))) (mass : List ρ) : Option (List (List (Cx ρ))) :=
  if !a.isEmpty && a.all (fun r => r.length == 3 * mass.length) then
    some (a.map (disp2eigRow (repeat3 mass)))
  else none

end sortc

/-! ### evec_load -/

def isSpace (c : Char) : Bool :=
  c == ' ' || c == '\t' || c == '\n' || c == '\r' || c == '\x0b' || c == '\x0c'

/-- `str.strip()` -/
def strip (cs : List Char) : List Char :=
  ((cs.dropWhile isSpace).reverse.dropWhile isSpace).reverse

/-- `s[a:b]` -/
def slice (cs : List Char) (a b : Nat) : List Char := (cs.take b).drop a

/-- `\s*` -/
def skipWs (cs : List Char) : List Char := cs.dropWhile isSpace

/-- `\s+` -/
def ws1 : List Char → Option (List Char)
  | c :: r => if isSpace c then some (skipWs r) else none
  | [] => none

/-- a literal -/
def lit (p cs : List Char) : Option (List Char) :=
  if p.isPrefixOf cs then some (cs.drop p.length) else none

/-- `(\d+)` : captured digits and the rest -/
def natTok (cs : List Char) : Option (List Char × List Char) :=
  let d := cs.takeWhile Char.isDigit
  if d.isEmpty then none else some (d, cs.dropWhile Char.isDigit)

/-- `(-?\d+\.?\d*)` : captured text and the rest -/
def numTok (cs : List Char) : Option (List Char × List Char) :=
  let (sign, r) := match cs with
    | '-' :: r => (['-'], r)
    | r => ([], r)
  let d := r.takeWhile Char.isDigit
  if d.isEmpty then none else
  let r := r.dropWhile Char.isDigit
  match r with
  | '.' :: r' => some (sign ++ d ++ ['.'] ++ r'.takeWhile Char.isDigit, r'.dropWhile Char.isDigit)
  | _ => some (sign ++ d, r)

/-- `re.search`: leftmost start position at which the anchored matcher succeeds -/
def search {β} (f : List Char → Option β) : List Char → Option β
  | [] => f []
  | c :: cs => match f (c :: cs) with
    | some r => some r
    | none => search f cs

/-- `Q_COORDS_REGEX = q\s*=\s*(-?\d+\.?\d*)\s+(-?\d+\.?\d*)\s+(-?\d+\.?\d*)` anchored at the head -/
def matchQAt (cs : List Char) : Option (List Char × List Char × List Char) := do
  let r ← lit ['q'] cs
  let r ← lit ['='] (skipWs r)
  let (a, r) ← numTok (skipWs r)
  let r ← ws1 r
  let (b, r) ← numTok r
  let r ← ws1 r
  let (c, _) ← numTok r
  pure (a, b, c)

/-- `MODE_INDEX_REGEX = freq\s*\(\s*(\d+)\)\s*=\s*(-?\d+\.?\d*)\s*\[THz\]\s*=\s*(-?\d+\.?\d*)\s*\[cm\-1\]` anchored at the head -/
def matchFreqAt (cs : List Char) : Option (List Char × List Char × List Char) := do
  let r ← lit "freq".toList cs
  let r ← lit ['('] (skipWs r)
  let (i, r) ← natTok (skipWs r)
  let r ← lit [')'] r
  let r ← lit ['='] (skipWs r)
  let (a, r) ← numTok (skipWs r)
  let r ← lit "[THz]".toList (skipWs r)
  let r ← lit ['='] (skipWs r)
  let (b, r) ← numTok (skipWs r)
  let _ ← lit "[cm-1]".toList (skipWs r)
  pure (i, a, b)

def digitsVal (cs : List Char) : Nat := cs.foldl (fun a c => 10 * a + (c.toNat - '0'.toNat)) 0

section load
variable {Num : Type}

/-- the three line readers of the loader; `concrete pf` below is what the code does, the structure lets the
block-level theorem quantify over them -/
structure LineReaders (Num : Type) where
  /-- stripped q line → the three coordinates -/
  readQ : List Char → Option (List Num)
  /-- stripped freq line → (mode index, THz, cm-1) -/
  readFreq : List Char → Option (Nat × Num × Num)
  /-- raw vector line → three complex components as (re, im) -/
  readVec : List Char → Option (List (Num × Num))

/-- one line of `_read_vecs`: fixed column slices of the STRIPPED line -/
def readVecLine (pf : List Char → Option Num) (raw : List Char) : Option (List (Num × Num)) := do
  let line := strip raw
  let x1 ← pf (slice line 2 12)
  let y1 ← pf (slice line 13 23)
  let x2 ← pf (slice line 26 36)
  let y2 ← pf (slice line 37 47)
  let x3 ← pf (slice line 50 60)
  let y3 ← pf (slice line 61 71)
  pure [(x1, y1), (x2, y2), (x3, y3)]

def concrete (pf : List Char → Option Num) : LineReaders Num where
  readQ := fun l => do
    let (a, b, c) ← search matchQAt l
    [a, b, c].mapM pf
  readFreq := fun l => do
    let (i, a, b) ← search matchFreqAt l
    let a ← pf a
    let b ← pf b
    pure (digitsVal i, a, b)
  readVec := readVecLine pf

/-- `_read_vecs(fp, np)`: `np // 3` lines, three complex numbers each -/
def readVecs (R : LineReaders Num) : Nat → List (List Char) → Option (List (Num × Num) × List (List Char))
  | 0, ls => some ([], ls)
  | k + 1, l :: ls => do
      let v ← R.readVec l
      let (vs, r) ← readVecs R k ls
      pure (v ++ vs, r)
  | _ + 1, [] => none

/-- `_read_modes(fp, np)`: `np` times (freq line, vector lines) -/
def readModes (R : LineReaders Num) (np : Nat) :
    Nat → List (List Char) → Option (List ((Nat × Num × Num) × List (Num × Num)) × List (List Char))
  | 0, ls => some ([], ls)
  | k + 1, l :: ls => do
      let h ← R.readFreq (strip l)
      let (v, r) ← readVecs R (np / 3) ls
      let (ms, r') ← readModes R np k r
      pure ((h, v) :: ms, r')
  | _ + 1, [] => none

/-- `_read_q_points(fp, nq, np)`: per q-point two lines skipped, the q line, one line skipped, the modes,
one line skipped (the generator executes that last `next(fp)` also after the final block) -/
def readQPoints (R : LineReaders Num) (np : Nat) :
    Nat → List (List Char) → Option (List (List Num × List ((Nat × Num × Num) × List (Num × Num))))
  | 0, _ => some []
  | k + 1, _ :: _ :: ql :: _ :: ls => do
      let q ← R.readQ (strip ql)
      let (ms, r) ← readModes R np np ls
      match r with
      | [] => none
      | _ :: r' => do
        let qs ← readQPoints R np k r'
        pure ((q, ms) :: qs)
  | _ + 1, _ => none

/-- `evec_load(fname, nq, np)` on the list of raw lines -/
def evecLoad (pf : List Char → Option Num) (nq np : Nat) (file : List (List Char)) :=
  readQPoints (concrete pf) np nq file

end load

/-- the driver's `float(text)`: surrounding whitespace ignored, exact decimal value (`Lex.ratParseChars`) -/
def pfRat (cs : List Char) : Option Rat := Cij.Lex.ratParseChars (strip cs)

end Cij.Evec
