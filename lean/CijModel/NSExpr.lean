/-
  Expression trees for the bodies of the phonon-contribution properties of `nonshear.py`
  (`zero_point_contribution`, `thermal_contribution`, `isothermal_to_adiabatic`, `value_isothermal`,
  `value_adiabatic`, for the longitudinal and the off-diagonal class).  The translator re-extracts them from the
  source on every run (`Generated/NonShearExprs.lean`); `Lemmas/NonShearSource.lean` proves that the hand-written model
  functions of `CijModel/NonShear.lean` ARE these expressions, for every scalar type (so also for the `Float` run).
-/
import CijModel.NonShear

namespace Cij.NSExpr
open Cij.NonShear

/-- per-mode arrays `[q][m]` -/
inductive MSym | g0 | g10 | g11 | g2 | freq | Q1 | Q2
  deriving DecidableEq, Repr

/-- elementwise expressions over per-mode arrays (the argument of `average_over_modes`) -/
inductive MExpr where
  | sym (s : MSym)
  | neg (a : MExpr)
  | add (a b : MExpr)
  | sub (a b : MExpr)
  | mul (a b : MExpr)
  deriving Repr

/-- scalars at one (T, V) grid point -/
inductive SSym | h | k | T | V | cv | na | P | pst | zp | th | iso | gap
  deriving DecidableEq, Repr

inductive SExpr where
  | sym (s : SSym)
  | lit (n : Nat)
  | avg (m : MExpr)                 -- `self.average_over_modes(m)`
  | neg (a : SExpr)
  | add (a b : SExpr)
  | sub (a b : SExpr)
  | mul (a b : SExpr)
  | div (a b : SExpr)
  | sq (a : SExpr)                  -- `a ** 2`
  deriving Repr

/-- a property body: the expression, and whether rows with `T == 0` are overwritten with 0 afterwards -/
structure Body where
  expr : SExpr
  zeroAtT0 : Bool
  deriving Repr

variable {α : Type} [Scalar α] [Add α] [Sub α] [Mul α] [Div α] [Neg α]

structure MEnv (α : Type) where
  g : ModeGamma α
  freq : List (List α)
  q1 : List (List α)
  q2 : List (List α)

def MEnv.get (e : MEnv α) : MSym → List (List α)
  | .g0 => e.g.g0 | .g10 => e.g.g10 | .g11 => e.g.g11 | .g2 => e.g.g2 | .freq => e.freq | .Q1 => e.q1 | .Q2 => e.q2

def evalM (e : MEnv α) : MExpr → List (List α)
  | .sym s => e.get s
  | .neg a => map2 (fun x => -x) (evalM e a)
  | .add a b => zw2 (· + ·) (evalM e a) (evalM e b)
  | .sub a b => zw2 (· - ·) (evalM e a) (evalM e b)
  | .mul a b => zw2 (· * ·) (evalM e a) (evalM e b)

structure SEnv (α : Type) where
  h : α
  k : α
  T : α
  V : α
  cv : α
  na : Nat
  P : α
  pst : α
  zp : α
  th : α
  iso : α
  gap : α
  w : List α
  m : MEnv α

def SEnv.get (e : SEnv α) : SSym → α
  | .h => e.h | .k => e.k | .T => e.T | .V => e.V | .cv => e.cv | .na => nat e.na | .P => e.P | .pst => e.pst
  | .zp => e.zp | .th => e.th | .iso => e.iso | .gap => e.gap

def evalS (e : SEnv α) : SExpr → α
  | .sym s => e.get s
  | .lit n => nat n
  | .avg m => averageOverModes (evalM e.m m) e.w
  | .neg a => - evalS e a
  | .add a b => evalS e a + evalS e b
  | .sub a b => evalS e a - evalS e b
  | .mul a b => evalS e a * evalS e b
  | .div a b => evalS e a / evalS e b
  | .sq a => evalS e a * evalS e a

def evalBody (e : SEnv α) (b : Body) : α :=
  if b.zeroAtT0 && Scalar.isZero e.T then nat 0 else evalS e b.expr

end Cij.NSExpr
