/-
  Types and interpreters for what `tools/gens/evec_src.py` extracts from the SOURCE of `cij/misc/evec_sort.py`,
  `cij/misc/evec_disp2eig.py`, `cij/misc/evec_load.py` (→ `Generated/EvecSpec.lean`).

  Each interpreter gives the extracted data its Python/numpy meaning:
    * `runSort`  — `evec_sort` driven by the extracted set construction, rejection test, overlap-matrix expression,
                   iteration count, pick, threshold test and loop statements;
    * `runDisp`  — `evec_disp2eig` driven by the extracted repeat count, shape test and statements of the accepted branch;
    * `Rx.run` / `Rx.search` — a BACKTRACKING matcher (greedy quantifiers, alternatives tried in Python's priority order,
                   leftmost start position) for the tiny regex grammar of the two patterns of `evec_load.py`;
    * `evecLoadS` — `evec_load` driven by the extracted regexes, column slices, converters, step list and strip placement.
  `CijProofs/Lemmas/EvecSource.lean` proves that on `Generated.sortSpec` / `dispSpec` / `loadSpec` these ARE the hand-written
  model functions of `CijModel/Evec.lean` (`evecSort`, `disp2eig`, `evecLoad`), for all inputs.
  No Mathlib.
-/
import CijModel.Evec

namespace Cij.EvecSrc
open Cij.Evec

/-! ### evec_sort: the dimension test -/

/-- a sequence of vectors: an argument, or `A + B` (list concatenation) -/
inductive SeqE where
  | var (name : String)
  | cat (a b : SeqE)
  deriving Repr, DecidableEq

/-- one element of the `set([...])` display: `len(X)` or `*[len(i) for i in X]` -/
inductive SetElem where
  | len (s : SeqE)
  | starLens (s : SeqE)
  deriving Repr, DecidableEq

/-- integers of the test: `ndim`, `len(s)`, a literal -/
inductive IntE where
  | ndim
  | card
  | lit (k : Nat)
  deriving Repr, DecidableEq

inductive BoolE where
  | or (a b : BoolE)
  | and (a b : BoolE)
  | not (a : BoolE)
  | eq (x y : IntE)
  | ne (x y : IntE)
  | lt (x y : IntE)
  | le (x y : IntE)
  | gt (x y : IntE)
  | ge (x y : IntE)
  | isIn (x : IntE)
  | notIn (x : IntE)
  deriving Repr, DecidableEq

def SeqE.eval {β : Type} (T B : List (List β)) : SeqE → List (List β)
  | .var n => if n == "target_evecs" then T else if n == "base_evecs" then B else []
  | .cat a b => a.eval T B ++ b.eval T B

/-- the integers one element contributes to the set -/
def SetElem.eval {β : Type} (T B : List (List β)) : SetElem → List Nat
  | .len s => [(s.eval T B).length]
  | .starLens s => (s.eval T B).map List.length

/-- the distinct members of a list, in order of first appearance (a Python `set` seen as a list) -/
def distinct : List Nat → List Nat
  | [] => []
  | x :: r => x :: (distinct r).filter (· != x)

/-- `s` is the LIST of integers put into the set; `len(s)` counts the distinct ones -/
def IntE.eval (ndim : Nat) (s : List Nat) : IntE → Nat
  | .ndim => ndim
  | .card => (distinct s).length
  | .lit k => k

def BoolE.eval (ndim : Nat) (s : List Nat) : BoolE → Bool
  | .or a b => a.eval ndim s || b.eval ndim s
  | .and a b => a.eval ndim s && b.eval ndim s
  | .not a => !a.eval ndim s
  | .eq x y => x.eval ndim s == y.eval ndim s
  | .ne x y => x.eval ndim s != y.eval ndim s
  | .lt x y => decide (x.eval ndim s < y.eval ndim s)
  | .le x y => decide (x.eval ndim s ≤ y.eval ndim s)
  | .gt x y => decide (x.eval ndim s > y.eval ndim s)
  | .ge x y => decide (x.eval ndim s ≥ y.eval ndim s)
  | .isIn x => s.contains (x.eval ndim s)
  | .notIn x => !s.contains (x.eval ndim s)

/-! ### matrix expressions (`@`, conj, `.T`, named arrays): an array is a function of (row, column) -/

inductive MatE where
  | arr (name : String)
  | conj (m : MatE)
  | tr (m : MatE)
  | matmul (a b : MatE)
  deriving Repr, DecidableEq

section scalar
variable {ρ : Type} [Add ρ] [Sub ρ] [Mul ρ] [Div ρ] [Neg ρ] [OfNat ρ 0] [HasSqrt ρ]

/-- `K` = the contracted dimension of every `@` (all arrays here are `· × K`) ; sums are left folds as in `Evec.overlap` -/
def MatE.eval (env : String → Nat → Nat → Cx ρ) (K : Nat) : MatE → Nat → Nat → Cx ρ
  | .arr n => env n
  | .conj m => fun i j => Cx.conj (m.eval env K i j)
  | .tr m => fun i j => m.eval env K j i
  | .matmul a b => fun i j =>
      (List.range K).foldl (fun acc k => Cx.add acc (Cx.mul (a.eval env K i k) (b.eval env K k j))) Cx.zero

/-- `numpy.array(rows)[i, j]` (zero outside) -/
def matOf (rows : List (List (Cx ρ))) : Nat → Nat → Cx ρ :=
  fun i j => ((rows[i]?).bind (·[j]?)).getD Cx.zero

end scalar

/-! ### evec_sort: the loop -/

/-- `m[idx[k], :] = 0`, `m[:, idx[k]] = 0`, `sorted_arr[idx[dst]] = target_arr[idx[src]]` -/
inductive LoopStmt where
  | zeroRow (k : Nat)
  | zeroCol (k : Nat)
  | place (dst src : Nat)
  deriving Repr, DecidableEq

/-- the test before `raise RuntimeError("Low eval product")`: `threshold` (truthiness), `m[idx] < threshold`, … -/
inductive ThrE where
  | given
  | lessThan
  | lessEq
  | greaterThan
  | greaterEq
  | and (a b : ThrE)
  | or (a b : ThrE)
  deriving Repr, DecidableEq

structure SortSpec where
  dimSet : List SetElem
  /-- `if <this>: raise RuntimeError` -/
  dimReject : BoolE
  overlap : MatE
  /-- `range(<this>)` -/
  iterations : IntE
  /-- `numpy.unravel_index(numpy.<reducer>(numpy.<modulus>(m)), m.shape)` -/
  reducer : String
  modulus : String
  threshold : ThrE
  body : List LoopStmt
  /-- defaults of `filter`, `threshold` as source text -/
  defaults : List (String × String)
  deriving Repr

section sortrun
variable {ρ : Type} [Add ρ] [Sub ρ] [Mul ρ] [Div ρ] [Neg ρ] [OfNat ρ 0] [HasSqrt ρ]
  [LT ρ] [DecidableRel (fun a b : ρ => a < b)] [BEq ρ] {ι : Type}

/-- `none` = Python would raise TypeError (comparison with `None`); `and` / `or` short-circuit -/
def ThrE.eval (thr : Option ρ) (v : Cx ρ) : ThrE → Option Bool
  | .given => some (match thr with | none => false | some t => !(t == 0))
  | .lessThan => thr.map fun t => decide (v.re < t)
  | .lessEq => thr.map fun t => !decide (t < v.re)
  | .greaterThan => thr.map fun t => decide (t < v.re)
  | .greaterEq => thr.map fun t => !decide (v.re < t)
  | .and a b => match a.eval thr v with
      | some true => b.eval thr v
      | r => r
  | .or a b => match a.eval thr v with
      | some false => b.eval thr v
      | r => r

/-- `idx[k]` -/
def comp (p : Nat × Nat) (k : Nat) : Nat := if k = 0 then p.1 else p.2

structure SortState (ρ ι : Type) where
  m : Nat → Nat → Cx ρ
  sorted : Nat → Option ι

def LoopStmt.exec (target : Nat → ι) (p : Nat × Nat) (st : SortState ρ ι) : LoopStmt → SortState ρ ι
  | .zeroRow k => { st with m := fun i j => if i = comp p k then Cx.zero else st.m i j }
  | .zeroCol k => { st with m := fun i j => if j = comp p k then Cx.zero else st.m i j }
  | .place d s => { st with sorted := setAt st.sorted (comp p d) (target (comp p s)) }

/-- `k` rounds of the loop as written: pick on `|m|` (numpy.argmax = first maximum in row-major order, `Evec.argmax2`), threshold test,
the extracted statements in order.  `none` = an exception. -/
def sortLoop (S : SortSpec) (n : Nat) (thr : Option ρ) (target : Nat → ι) : Nat → SortState ρ ι → Option (SortState ρ ι)
  | 0, st => some st
  | k + 1, st =>
      let p := argmax2 n (fun i j => Cx.abs (st.m i j))
      match S.threshold.eval thr (st.m p.1 p.2) with
      | some false => sortLoop S n thr target k (S.body.foldl (fun (st : SortState ρ ι) (s : LoopStmt) => s.exec target p st) st)
      | _ => none

/-- `evec_sort(items, T, B, filter, threshold)` driven by the extracted description -/
def runSort (S : SortSpec) (filter : Option ((Nat → Nat → Cx ρ) → Nat → Nat → Cx ρ)) (thr : Option ρ)
    (items : List ι) (T B : List (List (Cx ρ))) : Option (List (Option ι)) :=
  let ndim := items.length
  let lens := S.dimSet.flatMap (SetElem.eval T B)
  if S.dimReject.eval ndim lens then none
  else if S.reducer != "argmax" || S.modulus != "abs" then none
  else
    let env : String → Nat → Nat → Cx ρ := fun name =>
      if name == "base_evecs" then matOf B else if name == "target_evecs" then matOf T else fun _ _ => Cx.zero
    let m0 := S.overlap.eval env ndim
    let m1 := match filter with
      | some f => f m0
      | none => m0
    let it := items.toArray
    match sortLoop S ndim thr (fun j => it[j]?) (S.iterations.eval ndim lens) ⟨m1, fun _ => none⟩ with
    | none => none
    | some st => some ((List.range ndim).map fun i => (st.sorted i).bind id)

end sortrun

/-! ### evec_disp2eig -/

/-- integers of the shape test: literals, `N`, `a.shape[k]`, `a.size` -/
inductive ShapeI where
  | lit (k : Nat)
  | atoms
  | shape (axis : Nat)
  | size
  | mul (a b : ShapeI)
  | add (a b : ShapeI)
  | mod (a b : ShapeI)
  | div (a b : ShapeI)
  deriving Repr, DecidableEq

inductive ShapeB where
  | or (a b : ShapeB)
  | and (a b : ShapeB)
  | not (a : ShapeB)
  | eq (x y : ShapeI)
  | ne (x y : ShapeI)
  | lt (x y : ShapeI)
  | le (x y : ShapeI)
  | gt (x y : ShapeI)
  | ge (x y : ShapeI)
  deriving Repr, DecidableEq

/-- `a` is `M × K`, `N = len(mass)` -/
def ShapeI.eval (M K N : Nat) : ShapeI → Nat
  | .lit k => k
  | .atoms => N
  | .shape ax => if ax = 0 then M else K
  | .size => M * K
  | .mul a b => a.eval M K N * b.eval M K N
  | .add a b => a.eval M K N + b.eval M K N
  | .mod a b => a.eval M K N % b.eval M K N
  | .div a b => a.eval M K N / b.eval M K N

def ShapeB.eval (M K N : Nat) : ShapeB → Bool
  | .or a b => a.eval M K N || b.eval M K N
  | .and a b => a.eval M K N && b.eval M K N
  | .not a => !a.eval M K N
  | .eq x y => x.eval M K N == y.eval M K N
  | .ne x y => x.eval M K N != y.eval M K N
  | .lt x y => decide (x.eval M K N < y.eval M K N)
  | .le x y => decide (x.eval M K N ≤ y.eval M K N)
  | .gt x y => decide (x.eval M K N > y.eval M K N)
  | .ge x y => decide (x.eval M K N ≥ y.eval M K N)

inductive ScaleOp where
  | mul
  | div
  deriving Repr, DecidableEq

/-- `v[nax, :]`: one factor per column; `v[:, nax]`: one factor per row -/
inductive Axis where
  | perColumn
  | perRow
  deriving Repr, DecidableEq

/-- `a *= numpy.sqrt(v[...])` / `a /= numpy.sqrt(v)[...]`;  `name = numpy.diag(<matrix expression>)` -/
inductive DispStmt where
  | scale (op : ScaleOp) (ax : Axis) (vec : String)
  | normDiag (name : String) (e : MatE)
  deriving Repr, DecidableEq

structure DispSpec where
  /-- `numpy.repeat(<repeated>, <times>)` -/
  repeated : String
  times : Nat
  shapeTest : ShapeB
  /-- the RuntimeError is raised when the test has this value -/
  raiseWhen : Bool
  body : List DispStmt
  /-- every callee / attribute name occurring in the function (so: no reshape, ravel, resize, flatten …) -/
  calls : List String
  attributes : List String
  deriving Repr

/-- `numpy.repeat(v, k)`: every element `k` times consecutively -/
def repeatEach {β : Type} (k : Nat) (v : List β) : List β := v.flatMap (List.replicate k)

section disprun
variable {ρ : Type} [Add ρ] [Sub ρ] [Mul ρ] [Div ρ] [Neg ρ] [OfNat ρ 0] [HasSqrt ρ]

structure DispState (ρ : Type) where
  a : List (List (Cx ρ))
  /-- real vectors by name (`m`, `norm`) -/
  vecs : List (String × List ρ)

def lookupVec (vs : List (String × List ρ)) (name : String) : List ρ := (vs.lookup name).getD []

def scaleCell (op : ScaleOp) (f : ρ) (z : Cx ρ) : Cx ρ :=
  match op with
  | .mul => Cx.smul (HasSqrt.sqrt f) z
  | .div => Cx.divReal z (HasSqrt.sqrt f)

/-- the diagonal of the matrix expression is stored by its real part (`Lemmas/EvecSource.lean: disp_norm_is_real`: for the
extracted expression the imaginary part is 0 over ℝ; numpy's complex sqrt of such a number is the real sqrt).  `none` = an exception:
broadcasting needs one factor per column / per row exactly (an unknown vector name has no factors at all). -/
def DispStmt.exec (K : Nat) (st : DispState ρ) : DispStmt → Option (DispState ρ)
  | .scale op .perColumn v =>
      let f := lookupVec st.vecs v
      if st.a.all (fun row => row.length == f.length) then
        some { st with a := st.a.map fun row => List.zipWith (fun z f => scaleCell op f z) row f }
      else none
  | .scale op .perRow v =>
      let f := lookupVec st.vecs v
      if f.length == st.a.length then
        some { st with a := List.zipWith (fun row f => row.map (scaleCell op f)) st.a f }
      else none
  | .normDiag name e =>
      let env : String → Nat → Nat → Cx ρ := fun n => if n == "a" then matOf st.a else fun _ _ => Cx.zero
      some { st with vecs := (name, (List.range st.a.length).map fun i => (e.eval env K i i).re) :: st.vecs }

/-- `evec_disp2eig(a, mass)` driven by the extracted description; `a` must be a non-empty rectangular `M × K` array
(anything else has no `shape[1]`) -/
def runDisp (S : DispSpec) (a : List (List (Cx ρ))) (mass : List ρ) : Option (List (List (Cx ρ))) :=
  let M := a.length
  let K := (a.head?.map List.length).getD 0
  if a.isEmpty || !(a.all fun r => r.length == K) then none
  else
    let N := mass.length
    let m := repeatEach S.times (if S.repeated == "mass" then mass else [])
    if S.shapeTest.eval M K N == S.raiseWhen then none
    else (S.body.foldlM (fun (st : DispState ρ) (s : DispStmt) => s.exec K st) (⟨a, [("m", m)]⟩ : DispState ρ)).map (·.a)

end disprun

/-! ### the tiny regex grammar: literal / escaped characters, `\s`, `\d`, `?` `*` `+` on one character or class, plain groups -/

namespace Rx

inductive Atom where
  | chr (c : Char)
  | space
  | digit
  deriving Repr, DecidableEq

inductive Quant where
  | one
  | opt
  | star
  | plus
  deriving Repr, DecidableEq

inductive Item where
  | tok (a : Atom) (q : Quant)
  | opn
  | cls
  deriving Repr, DecidableEq

def Atom.test : Atom → Char → Bool
  | .chr c, x => x == c
  | .space, x => isSpace x
  | .digit, x => x.isDigit

/-- captured groups (latest first) and the input at the last `(` -/
structure St where
  caps : List (List Char)
  mark : List Char
  deriving Repr

/-- greedy `x*` followed by continuation `k`: one more `x` first, then (on failure of everything after it) stop here -/
def starK {β : Type} (p : Char → Bool) (k : List Char → Option β) : List Char → Option β
  | [] => k []
  | c :: t =>
      if p c then
        match starK p k t with
        | some r => some r
        | none => k (c :: t)
      else k (c :: t)

def tokK {β : Type} (a : Atom) (q : Quant) (k : List Char → Option β) (cs : List Char) : Option β :=
  match q with
  | .one => match cs with
      | c :: t => if a.test c then k t else none
      | [] => none
  | .opt => match cs with
      | c :: t =>
          if a.test c then
            match k t with
            | some r => some r
            | none => k (c :: t)
          else k (c :: t)
      | [] => k []
  | .star => starK a.test k cs
  | .plus => match cs with
      | c :: t => if a.test c then starK a.test k t else none
      | [] => none

/-- match the items at the head of `cs`; the groups in pattern order -/
def run : List Item → St → List Char → Option (List (List Char))
  | [], st, _ => some st.caps.reverse
  | .opn :: r, st, cs => run r ⟨st.caps, cs⟩ cs
  | .cls :: r, st, cs => run r ⟨(st.mark.take (st.mark.length - cs.length)) :: st.caps, []⟩ cs
  | .tok a q :: r, st, cs => tokK a q (run r st) cs

/-- `re.compile(p).search(s).groups()`: leftmost start position -/
def search (items : List Item) (cs : List Char) : Option (List (List Char)) :=
  Evec.search (run items ⟨[], []⟩) cs

end Rx

/-! ### evec_load -/

/-- the statements of one round of `_read_q_points`: `next(fp)` k times, the q line, the yielded modes -/
inductive QStep where
  | skip (k : Nat)
  | qLine
  | modes
  deriving Repr, DecidableEq

structure LoadSpec where
  qRegex : List Rx.Item
  modeRegex : List Rx.Item
  /-- per element of the tuple yielded by `_read_vecs`: (slice of the real part, slice multiplied by `1j`) -/
  vecComponents : List ((Nat × Nat) × (Nat × Nat))
  /-- the slices apply to `next(fp).strip()` -/
  vecStripped : Bool
  /-- `range(np // <this>)` vector lines per mode -/
  vecLinesDiv : Nat
  /-- `zip(<these>, res.groups())` -/
  converters : List String
  modeStripped : Bool
  qSteps : List QStep
  qStripped : Bool
  /-- every if / conditional expression / while / try / comparison / boolean operator / comprehension filter of the three readers -/
  conditionals : List String
  deriving Repr

section loadrun
variable {Num : Type}

/-- `(func(string) for func, string in zip((int, float, float), res.groups()))` unpacked into `mode_id, thz, cm_1` -/
def convertHead (convs : List String) (gs : List (List Char)) (pf : List Char → Option Num) : Option (Nat × Num × Num) :=
  match convs, gs with
  | ["int", "float", "float"], [i, a, b] => do
      let a ← pf a
      let b ← pf b
      pure (digitsVal i, a, b)
  | _, _ => none

def specReaders (S : LoadSpec) (pf : List Char → Option Num) : LineReaders Num where
  readQ := fun l => do
    let gs ← Rx.search S.qRegex l
    gs.mapM pf
  readFreq := fun l => do
    let gs ← Rx.search S.modeRegex l
    convertHead S.converters gs pf
  readVec := fun raw =>
    let line := if S.vecStripped then strip raw else raw
    S.vecComponents.mapM fun s => do
      let x ← pf (slice line s.1.1 s.1.2)
      let y ← pf (slice line s.2.1 s.2.2)
      pure (x, y)

def readModesS (S : LoadSpec) (R : LineReaders Num) (np : Nat) :
    Nat → List (List Char) → Option (List ((Nat × Num × Num) × List (Num × Num)) × List (List Char))
  | 0, ls => some ([], ls)
  | k + 1, l :: ls => do
      let h ← R.readFreq (if S.modeStripped then strip l else l)
      let (v, r) ← readVecs R (np / S.vecLinesDiv) ls
      let (ms, r') ← readModesS S R np k r
      pure ((h, v) :: ms, r')
  | _ + 1, [] => none

structure QAcc (Num : Type) where
  q : Option (List Num)
  ms : Option (List ((Nat × Num × Num) × List (Num × Num)))

/-- one round of `_read_q_points`: the extracted steps in order -/
def runQSteps (S : LoadSpec) (R : LineReaders Num) (np : Nat) :
    List QStep → QAcc Num → List (List Char) → Option (QAcc Num × List (List Char))
  | [], acc, ls => some (acc, ls)
  | .skip k :: r, acc, ls => if ls.length < k then none else runQSteps S R np r acc (ls.drop k)
  | .qLine :: _, _, [] => none
  | .qLine :: r, acc, l :: ls => do
      let q ← R.readQ (if S.qStripped then strip l else l)
      runQSteps S R np r { acc with q := some q } ls
  | .modes :: r, acc, ls =>
      match acc.q with
      | none => none
      | some _ => do
          let (ms, rest) ← readModesS S R np np ls
          runQSteps S R np r { acc with ms := some ms } rest

def readQPointsS (S : LoadSpec) (R : LineReaders Num) (np : Nat) :
    Nat → List (List Char) → Option (List (List Num × List ((Nat × Num × Num) × List (Num × Num))))
  | 0, _ => some []
  | k + 1, ls => do
      let (acc, rest) ← runQSteps S R np S.qSteps ⟨none, none⟩ ls
      let q ← acc.q
      let ms ← acc.ms
      let qs ← readQPointsS S R np k rest
      pure ((q, ms) :: qs)

/-- `evec_load(fname, nq, np)` on the list of raw lines, driven by the extracted description -/
def evecLoadS (S : LoadSpec) (pf : List Char → Option Num) (nq np : Nat) (file : List (List Char)) :=
  if S.vecLinesDiv == 0 then none else readQPointsS S (specReaders S pf) np nq file

end loadrun

end Cij.EvecSrc
