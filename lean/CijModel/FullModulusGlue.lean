/-
  C05 — the SOURCE of `cij/core/full_modulus.py` (class `FullThermalElasticModulus`, every def) and of
  `Calculator._calculate_pressure_static` (cij/core/calculator.py) as data, and an interpreter for it.
  No Mathlib; executable (the driver runs it over `Rat` next to `CijModel/FullModulus.lean`).

  `tools/gens/fullmodulus_src.py` re-reads the files on every run and writes `Generated/FullModulusGlue.lean`:
    every method                                  -> `Method` (decorator kind, parameters with integer defaults, statements `Stmt`
                                                     over expression trees `X`; locals renamed canonically)
    the imports the trees were resolved through   -> `(local name, origin)` pairs
    the inventory of every `def` / `lambda`       -> qualified names
  `CijProofs/Lemmas/FullModulusGlueSource.lean` proves that the hand-written model of `CijModel/FullModulus.lean`
  (`fitModulus`, `getStaticModulus`, `getAxialStrains`, `modulusTotal`, `staticPressure`) IS the interpretation of these data, for
  every scalar type and all inputs.

  Semantics.  A tiny honest object model: the calculator is a record (`Calc`) holding what the class reads from it; reading
  `self.<name>` is the class property of that name when there is one (a `property` is a data descriptor: it wins over the instance
  dictionary), else the instance attribute; a method called inside an expression must be free of attribute writes.  numpy
  arithmetic is SHAPE-CHECKED (a length mismatch is an exception = `none`, never a truncation).  Library calls mean the model
  functions of `CijModel/LeastSq.lean` / `FullModulus.lean` (`numpy.polyfit`, `numpy.polyval`, `numpy.gradient`, qha's
  `polynomial_least_square_fitting`) or a PARAMETER (`calculate_eulerian_strain`, the GPa factor of `_from_gpa`, the result of the
  phonon task list as a function of the strains handed to `resolve` and of the key).  Whatever is outside evaluates to `none`.
-/
import CijModel.FullModulus
import CijModel.ElastDat
import CijModel.StaticExpr

namespace Cij.FMGlue
open Cij Cij.LeastSq Cij.FullModulus

abbrev Key := ElastDat.Key

/-! ### data types filled in by the translator -/

/-- expressions -/
inductive X where
  /-- `self.a.b.c` -/
  | self (path : List String)
  | param (name : String)
  | loc (name : String)
  | lit (n : Nat)
  | str (s : String)
  | neg (a : X)
  | add (a b : X)
  | sub (a b : X)
  | mul (a b : X)
  | div (a b : X)
  /-- `a[k]`, `k` an integer literal (negative: from the end) -/
  | index (a : X) (k : Int)
  /-- `a[<expression>]`: dictionary / configuration lookup -/
  | item (a k : X)
  /-- `a.shape[axis]` -/
  | shape (a : X) (axis : Nat)
  | len (a : X)
  | eq (a b : X)
  /-- `"s" in a` -/
  | contains (a : X) (s : String)
  /-- `a[nax, :]` -/
  | nax (a : X)
  /-- `a[:, i]` -/
  | colOf (a i : X)
  /-- `a[k:]` -/
  | dropFirst (a : X) (k : Nat)
  /-- `a[:-k]`, `k > 0` -/
  | dropLast (a : X) (k : Nat)
  /-- `a[[0, *range(len(a)), -1]]` -/
  | edgeRep (a : X)
  /-- `numpy.zeros((rows, cols))` (`value = 0`) / `numpy.ones((rows, cols))` (`value = 1`), no dtype -/
  | full (value : Nat) (rows cols : X)
  /-- `numpy.sum(a, axis=1, keepdims=True)` -/
  | rowSum (a : X)
  /-- `[v.<attr> for v in <iter>]` -/
  | compAttr (attr : String) (iter : X)
  /-- `[v.<attr>[<key>] for v in <iter>]` -/
  | compAttrItem (attr : String) (key iter : X)
  /-- `tuple(x / <den> for x in <src>)` -/
  | mapDiv (src den : X)
  | tuple3 (a b c : X)
  /-- library / builtin function by its import-resolved name; keywords normalised to positions by the translator -/
  | fn1 (fn : String) (a : X)
  | fn2 (fn : String) (a b : X)
  | fn3 (fn : String) (a b c : X)
  | fn4 (fn : String) (a b c d : X)
  /-- `self.<m>(…)` -/
  | callSelf0 (m : String)
  | callSelf1 (m : String) (a : X)
  | callSelf2 (m : String) (a b : X)
  /-- `<obj>.<m>()` -/
  | mcall0 (obj : X) (m : String)
  deriving Repr, DecidableEq, Inhabited

/-- statements of a loop body -/
inductive LStmt where
  | assign (v : String) (e : X)
  /-- `<arr>[:, <col>] = e` -/
  | setCol (arr : String) (col e : X)
  /-- `<d>[<k>] = e` -/
  | setItem (d : String) (k e : X)
  deriving Repr, DecidableEq, Inhabited

inductive Stmt where
  | assign (v : String) (e : X)
  /-- `v = dict()` -/
  | newDict (v : String)
  /-- `self.<attr> = e` -/
  | setSelf (attr : String) (e : X)
  /-- `logging.debug(<text built from string literals, +, repr/str and these calls>)`: the calls are evaluated, the text dropped -/
  | log (calls : List X)
  /-- `self.<m>()` as a statement -/
  | callProc (m : String)
  /-- `self.<attr>.<m>(args…)` as a statement -/
  | callAttr (attr m : String) (args : List X)
  /-- `if isinstance(v, tuple): _, v = v` (qha < 1.1 returned a pair) -/
  | unpackIfTuple (v : String)
  /-- `if c: <locals…>; return e` (the locals of the branch substituted into `e`) -/
  | retIf (c e : X)
  /-- `for v in range(n): body` -/
  | forRange (v : String) (n : Nat) (body : List LStmt)
  /-- `for v in <iter>: body` -/
  | forIn (v : String) (iter : X) (body : List LStmt)
  | ret (e : X)
  deriving Repr, DecidableEq, Inhabited

structure Method where
  name : String
  /-- "method" | "property" | "LazyProperty" -/
  kind : String
  /-- the parameters after `self`, each with its integer default if it has one -/
  params : List (String × Option Nat)
  body : List Stmt
  deriving Repr, DecidableEq, Inhabited

/-- every `self.…` path an expression reads -/
def X.selfReads : X → List (List String)
  | .self p => [p]
  | .param _ | .loc _ | .lit _ | .str _ => []
  | .neg a | .index a _ | .shape a _ | .len a | .contains a _ | .nax a | .dropFirst a _ | .dropLast a _ | .edgeRep a
  | .rowSum a | .compAttr _ a | .fn1 _ a | .callSelf1 _ a | .mcall0 a _ => a.selfReads
  | .add a b | .sub a b | .mul a b | .div a b | .item a b | .eq a b | .colOf a b | .full _ a b | .compAttrItem _ a b
  | .mapDiv a b | .fn2 _ a b | .callSelf2 _ a b => a.selfReads ++ b.selfReads
  | .tuple3 a b c | .fn3 _ a b c => a.selfReads ++ b.selfReads ++ c.selfReads
  | .fn4 _ a b c d => a.selfReads ++ b.selfReads ++ c.selfReads ++ d.selfReads
  | .callSelf0 _ => []

/-- every `self.<m>(…)` an expression calls -/
def X.selfCalls : X → List String
  | .self _ | .param _ | .loc _ | .lit _ | .str _ => []
  | .neg a | .index a _ | .shape a _ | .len a | .contains a _ | .nax a | .dropFirst a _ | .dropLast a _ | .edgeRep a
  | .rowSum a | .compAttr _ a | .fn1 _ a | .mcall0 a _ => a.selfCalls
  | .add a b | .sub a b | .mul a b | .div a b | .item a b | .eq a b | .colOf a b | .full _ a b | .compAttrItem _ a b
  | .mapDiv a b | .fn2 _ a b => a.selfCalls ++ b.selfCalls
  | .tuple3 a b c | .fn3 _ a b c => a.selfCalls ++ b.selfCalls ++ c.selfCalls
  | .fn4 _ a b c d => a.selfCalls ++ b.selfCalls ++ c.selfCalls ++ d.selfCalls
  | .callSelf0 m => [m]
  | .callSelf1 m a => m :: a.selfCalls
  | .callSelf2 m a b => m :: (a.selfCalls ++ b.selfCalls)

/-- every library function an expression names -/
def X.libCalls : X → List String
  | .self _ | .param _ | .loc _ | .lit _ | .str _ | .callSelf0 _ => []
  | .neg a | .index a _ | .shape a _ | .len a | .contains a _ | .nax a | .dropFirst a _ | .dropLast a _ | .edgeRep a
  | .rowSum a | .compAttr _ a | .callSelf1 _ a | .mcall0 a _ => a.libCalls
  | .add a b | .sub a b | .mul a b | .div a b | .item a b | .eq a b | .colOf a b | .full _ a b | .compAttrItem _ a b
  | .mapDiv a b | .callSelf2 _ a b => a.libCalls ++ b.libCalls
  | .tuple3 a b c => a.libCalls ++ b.libCalls ++ c.libCalls
  | .fn1 f a => f :: a.libCalls
  | .fn2 f a b => f :: (a.libCalls ++ b.libCalls)
  | .fn3 f a b c => f :: (a.libCalls ++ b.libCalls ++ c.libCalls)
  | .fn4 f a b c d => f :: (a.libCalls ++ b.libCalls ++ c.libCalls ++ d.libCalls)

def LStmt.exprs : LStmt → List X
  | .assign _ e => [e]
  | .setCol _ c e => [c, e]
  | .setItem _ k e => [k, e]

def Stmt.exprs : Stmt → List X
  | .assign _ e | .setSelf _ e | .ret e => [e]
  | .newDict _ | .callProc _ | .unpackIfTuple _ => []
  | .log cs => cs
  | .callAttr _ _ args => args
  | .retIf c e => [c, e]
  | .forRange _ _ b => b.flatMap LStmt.exprs
  | .forIn _ it b => it :: b.flatMap LStmt.exprs

def Method.exprs (m : Method) : List X := m.body.flatMap Stmt.exprs
def Method.selfReads (m : Method) : List (List String) := m.exprs.flatMap X.selfReads
def Method.selfCalls (m : Method) : List String := m.exprs.flatMap X.selfCalls
def Method.libCalls (m : Method) : List String := m.exprs.flatMap X.libCalls

/-- a statement that writes an instance attribute or calls something that may -/
def Stmt.writes : Stmt → Bool
  | .setSelf _ _ | .callProc _ | .callAttr _ _ _ => true
  | _ => false

def findMethod (cls : List Method) (n : String) : Option Method := cls.find? fun m => m.name == n

/-- a name the class defines as `property` / `LazyProperty` -/
def isProp (cls : List Method) (n : String) : Bool :=
  match findMethod cls n with
  | some m => m.kind == "property" || m.kind == "LazyProperty"
  | none => false

/-- a method without attribute writes (only such a method may be called inside an expression) -/
def isPure (cls : List Method) (n : String) : Bool :=
  match findMethod cls n with
  | some m => m.body.all fun s => !s.writes
  | none => false

/-! ### values -/

/-- what the class reads from the calculator -/
structure Calc (α : Type) where
  /-- `calculator.v_array`: the fine volume grid -/
  vArray : List α
  /-- `calculator.modulus_keys` -/
  modulusKeys : List Key
  /-- `calculator.elast_data`: the parsed static table (rows and lattice block in file order) -/
  elastData : ElastDat.ElastData α
  /-- `calculator.qha_input.volumes`: (volume, energy) per volume of the PHONON file, in file order -/
  qhaVolumes : List (α × α)
  /-- `calculator.config`: a list of numbers stored at this path, if there is one -/
  cfgLeaf : List String → Option (List α)
  /-- … a mapping stored at this path -/
  cfgSection : List String → Bool

/-- the life of a `PhononContributionTaskList` -/
inductive TLState (α : Type) where
  | fresh
  | resolved (strain : List (List α)) (keys : List Key)
  | calculated (strain : List (List α)) (keys : List Key)

inductive Val (α : Type) where
  | unit
  | nat (n : Nat)
  | sc (a : α)
  /-- a 1-d float array / a list or tuple of floats -/
  | ar (l : List α)
  /-- a 2-d array, by rows -/
  | mat (m : List (List α))
  /-- shape (1, n) -/
  | rowvec (l : List α)
  /-- shape (n, 1) -/
  | colvec (l : List α)
  | key (k : Key)
  | keys (l : List Key)
  /-- a dictionary key -> 2-d array as its write log (latest first); only lookups are modelled, not the insertion order -/
  | dict (d : List (Key × List (List α)))
  | vols (l : List (ElastDat.ElastVolume α))
  /-- a Python list of tuples (`lattice_parmeters`) -/
  | rows (l : List (List α))
  | qvols (l : List (α × α))
  | calcObj
  | edata
  | qha
  | cfg (path : List String)
  | bool (b : Bool)
  | str (s : String)
  | tl (s : TLState α)

abbrev Env (α : Type) := List (String × Val α)

def lookup {β : Type} : List (String × β) → String → Option β
  | [], _ => none
  | kv :: r, n => if kv.1 = n then some kv.2 else lookup r n

/-- everything outside the class -/
structure Ctx (α : Type) where
  /-- `calculate_eulerian_strain(v0, v)` elementwise -/
  strain : α → α → α
  /-- `_from_gpa(1.0)` -/
  gpa : α
  calculator : Calc α
  /-- what the task list returns per key after `resolve(strain, keys)`, `calculate()`: adiabatic / isothermal -/
  phA : List (List α) → Key → Option (List (List α))
  phI : List (List α) → Key → Option (List (List α))

section
variable {α : Type} [Add α] [Sub α] [Mul α] [Div α] [Neg α] [OfNat α 0] [OfNat α 1] [NatCast α] [BEq α]

/-- `a[k]` on a sequence -/
def pyIndex {β : Type} (l : List β) (k : Int) : Option β :=
  if 0 ≤ k then l[k.toNat]? else if k.natAbs ≤ l.length then l[l.length - k.natAbs]? else none

/-- elementwise on two arrays of the same length (else a broadcasting error) -/
def zipSame (f : α → α → α) (l m : List α) : Option (List α) :=
  if l.length = m.length then some (List.zipWith f l m) else none

def allSomeL {β : Type} : List (Option β) → Option (List β)
  | [] => some []
  | none :: _ => none
  | some x :: r => (allSomeL r).map (x :: ·)

/-- a binary operator of numpy / Python; `fn` = what it does on two Python ints (`none`: true division) -/
def bin (f : α → α → α) (fn : Option (Nat → Nat → Nat)) : Val α → Val α → Option (Val α)
  | .nat a, .nat b => match fn with | some g => some (.nat (g a b)) | none => some (.sc (f (a : α) (b : α)))
  | .nat a, .sc b => some (.sc (f (a : α) b))
  | .sc a, .nat b => some (.sc (f a (b : α)))
  | .sc a, .sc b => some (.sc (f a b))
  | .sc a, .ar l => some (.ar (l.map fun x => f a x))
  | .ar l, .sc b => some (.ar (l.map fun x => f x b))
  | .ar l, .ar m => (zipSame f l m).map .ar
  /- (1, n) with (t, n): every row of the matrix with the row vector -/
  | .rowvec l, .mat m => (allSomeL (m.map fun row => zipSame f l row)).map .mat
  /- (n, c) with (n, 1): every row with its own scalar -/
  | .mat m, .colvec s => if m.length = s.length then some (.mat (List.zipWith (fun row x => row.map fun y => f y x) m s)) else none
  | _, _ => none

def getattr (C : Ctx α) : Val α → String → Option (Val α)
  | .calcObj, "v_array" => some (.ar C.calculator.vArray)
  | .calcObj, "modulus_keys" => some (.keys C.calculator.modulusKeys)
  | .calcObj, "elast_data" => some .edata
  | .calcObj, "qha_input" => some .qha
  | .calcObj, "config" => some (.cfg [])
  | .edata, "volumes" => some (.vols C.calculator.elastData.volumes)
  | .edata, "lattice_parmeters" => some (.rows C.calculator.elastData.lattice)
  | .qha, "volumes" => some (.qvols C.calculator.qhaVolumes)
  | _, _ => none

def getPath (C : Ctx α) : Val α → List String → Option (Val α)
  | v, [] => some v
  | v, a :: r => match getattr C v a with
    | some w => getPath C w r
    | none => none

/-- Python's `sum`: left to right from 0 -/
def pySum (l : List α) : α := l.foldl (fun acc x => acc + x) 0

def fun1 (C : Ctx α) (fn : String) (v : Val α) : Option (Val α) :=
  match fn, v with
  | "numpy.array", .ar l => some (.ar l)
  | "numpy.array", .rows l =>
      match l with
      | [] => some (.mat [])
      | r :: _ => if l.all fun x => x.length == r.length then some (.mat l) else none
  | "cij.util.units._from_gpa", .ar l => some (.ar (l.map fun x => x * C.gpa))
  | "cij.util.units._from_gpa", .sc x => some (.sc (x * C.gpa))
  | "numpy.gradient", .ar l => (gradient l).map .ar
  | "sum", .ar l => some (.sc (pySum l))
  | "cij.core.tasks.PhononContributionTaskList", .calcObj => some (.tl .fresh)
  | _, _ => none

def fun2 (C : Ctx α) (fn : String) (v w : Val α) : Option (Val α) :=
  match fn, v, w with
  | "qha.grid_interpolation.calculate_eulerian_strain", .sc v0, .ar l => some (.ar (l.map (C.strain v0)))
  | "numpy.polyval", .ar p, .ar xs => some (.ar (xs.map (polyval p)))
  | _, _, _ => none

def fun3 (fn : String) (u v w : Val α) : Option (Val α) :=
  match fn, u, v, w with
  | "numpy.polyfit", .ar xs, .ar ys, .nat deg => (polyfit xs ys deg).map .ar
  | _, _, _, _ => none

def fun4 (fn : String) (t u v w : Val α) : Option (Val α) :=
  match fn, t, u, v, w with
  | "qha.fitting.polynomial_least_square_fitting", .ar xs, .ar ys, .ar new, .nat order =>
      (polynomialLeastSquareFitting xs ys new order).map .ar
  | _, _, _, _, _ => none

/-- `v.<attr>` / `v.<attr>[key]` for the records of the two parsed files -/
def volAttr (attr : String) (v : ElastDat.ElastVolume α) : Option α :=
  if attr = "volume" then some v.volume else none

def qvolAttr (attr : String) (v : α × α) : Option α :=
  if attr = "volume" then some v.1 else if attr = "energy" then some v.2 else none

def dictLookup {β : Type} (d : List (Key × β)) (k : Key) : Option β := (d.find? fun e => e.1 == k).map (·.2)

/-- how an expression reaches the object it belongs to -/
structure Hooks (α : Type) where
  /-- `self.<name>` -/
  selfGet : String → Option (Val α)
  /-- `self.<m>(args…)` inside an expression -/
  call : String → List (Val α) → Option (Val α)

def X.eval (C : Ctx α) (H : Hooks α) (L : Env α) : X → Option (Val α)
  | .self [] => none
  | .self (a :: r) => match H.selfGet a with
    | some v => getPath C v r
    | none => none
  | .param n => lookup L n
  | .loc n => lookup L n
  | .lit n => some (.nat n)
  | .str s => some (.str s)
  | .neg a => match a.eval C H L with
    | some (.sc x) => some (.sc (-x))
    | some (.ar l) => some (.ar (l.map fun x => -x))
    | _ => none
  | .add a b => match a.eval C H L, b.eval C H L with
    | some x, some y => bin (fun p q => p + q) (some fun p q => p + q) x y
    | _, _ => none
  | .sub a b => match a.eval C H L, b.eval C H L with
    | some x, some y => bin (fun p q => p - q) none x y      -- `int - int` is outside (no such expression; never a truncation)
    | _, _ => none
  | .mul a b => match a.eval C H L, b.eval C H L with
    | some x, some y => bin (fun p q => p * q) (some fun p q => p * q) x y
    | _, _ => none
  | .div a b => match a.eval C H L, b.eval C H L with
    | some x, some y => bin (fun p q => p / q) none x y
    | _, _ => none
  | .index a k => match a.eval C H L with
    | some (.ar l) => (pyIndex l k).map .sc
    | _ => none
  | .item a k => match a.eval C H L, k.eval C H L with
    | some (.dict d), some (.key k) => (dictLookup d k).map .mat
    | some (.cfg p), some (.str s) =>
        match C.calculator.cfgLeaf (p ++ [s]) with
        | some l => some (.ar l)
        | none => if C.calculator.cfgSection (p ++ [s]) then some (.cfg (p ++ [s])) else none
    | _, _ => none
  | .shape a ax => match a.eval C H L, ax with
    | some (.ar l), 0 => some (.nat l.length)
    | some (.mat m), 0 => some (.nat m.length)
    | _, _ => none
  | .len a => match a.eval C H L with
    | some (.ar l) => some (.nat l.length)
    | some (.mat m) => some (.nat m.length)
    | some (.rows m) => some (.nat m.length)
    | _ => none
  | .eq a b => match a.eval C H L, b.eval C H L with
    | some (.nat x), some (.nat y) => some (.bool (x == y))
    | _, _ => none
  | .contains a s => match a.eval C H L with
    | some (.cfg p) => some (.bool ((C.calculator.cfgLeaf (p ++ [s])).isSome || C.calculator.cfgSection (p ++ [s])))
    | _ => none
  | .nax a => match a.eval C H L with
    | some (.ar l) => some (.rowvec l)
    | _ => none
  | .colOf a i => match a.eval C H L, i.eval C H L with
    | some (.mat m), some (.nat i) => (allSomeL (m.map fun row => row[i]?)).map .ar
    | _, _ => none
  | .dropFirst a k => match a.eval C H L with
    | some (.ar l) => some (.ar (l.drop k))
    | _ => none
  | .dropLast a k => match a.eval C H L with
    | some (.ar l) => if k = 0 then none else some (.ar (l.take (l.length - k)))
    | _ => none
  | .edgeRep a => match a.eval C H L with
    | some (.ar l) =>
        match l.head?, l.getLast? with
        | some x, some y => some (.ar (x :: (l ++ [y])))
        | _, _ => none
    | _ => none
  | .full v r c => match r.eval C H L, c.eval C H L with
    | some (.nat r), some (.nat c) =>
        if v = 0 then some (.mat (List.replicate r (List.replicate c 0)))
        else if v = 1 then some (.mat (List.replicate r (List.replicate c 1)))
        else none
    | _, _ => none
  | .rowSum a => match a.eval C H L with
    | some (.mat m) => some (.colvec (m.map sumL))
    | _ => none
  | .compAttr attr it => match it.eval C H L with
    | some (.vols l) => (allSomeL (l.map (volAttr attr))).map .ar
    | some (.qvols l) => (allSomeL (l.map (qvolAttr attr))).map .ar
    | _ => none
  | .compAttrItem attr k it => match k.eval C H L, it.eval C H L with
    | some (.key k), some (.vols l) =>
        if attr = "static_elastic_modulus" then (allSomeL (l.map fun v => dictLookup v.moduli k)).map .ar else none
    | _, _ => none
  | .mapDiv s d => match s.eval C H L, d.eval C H L with
    | some (.ar l), some (.sc x) => if x == 0 then none else some (.ar (l.map fun y => y / x))
    | _, _ => none
  | .tuple3 a b c => match a.eval C H L, b.eval C H L, c.eval C H L with
    | some (.sc x), some (.sc y), some (.sc z) => some (.ar [x, y, z])
    | _, _, _ => none
  | .fn1 f a => match a.eval C H L with
    | some v => fun1 C f v
    | none => none
  | .fn2 f a b => match a.eval C H L, b.eval C H L with
    | some v, some w => fun2 C f v w
    | _, _ => none
  | .fn3 f a b c => match a.eval C H L, b.eval C H L, c.eval C H L with
    | some u, some v, some w => fun3 f u v w
    | _, _, _ => none
  | .fn4 f a b c d => match a.eval C H L, b.eval C H L, c.eval C H L, d.eval C H L with
    | some t, some u, some v, some w => fun4 f t u v w
    | _, _, _, _ => none
  | .callSelf0 m => H.call m []
  | .callSelf1 m a => match a.eval C H L with
    | some v => H.call m [v]
    | none => none
  | .callSelf2 m a b => match a.eval C H L, b.eval C H L with
    | some v, some w => H.call m [v, w]
    | _, _ => none
  | .mcall0 o m => match o.eval C H L with
    | some (.tl (.calculated s ks)) =>
        if m = "get_adiabatic_results" then (allSomeL (ks.map fun k => (C.phA s k).map fun r => (k, r))).map .dict
        else if m = "get_isothermal_results" then (allSomeL (ks.map fun k => (C.phI s k).map fun r => (k, r))).map .dict
        else none
    | _ => none

/-! ### statements -/

/-- the state of a running method: instance attributes, parameters and locals -/
structure St (α : Type) where
  attrs : Env α
  loc : Env α

/-- the class as the running method sees it -/
structure Kernel (α : Type) where
  isProp : String → Bool
  isPure : String → Bool
  /-- `self.<m>(args…)` / reading the property `m`: the attributes afterwards and the value -/
  call : Env α → String → List (Val α) → Option (Env α × Val α)

def Kernel.hooks (K : Kernel α) (attrs : Env α) : Hooks α :=
  { selfGet := fun n =>
      match K.isProp n with
      | true => (K.call attrs n []).map (·.2)
      | false => lookup attrs n,
    call := fun m args =>
      match K.isPure m with
      | true => (K.call attrs m args).map (·.2)
      | false => none }

def evalX (C : Ctx α) (K : Kernel α) (st : St α) (e : X) : Option (Val α) := e.eval C (K.hooks st.attrs) st.loc

def setCol (m : List (List α)) (i : Nat) (col : List α) : Option (List (List α)) :=
  if m.length = col.length ∧ m.all (fun row => i < row.length) then some (List.zipWith (fun row x => row.set i x) m col) else none

def execL (C : Ctx α) (K : Kernel α) (st : St α) : LStmt → Option (St α)
  | .assign v e => (evalX C K st e).map fun x => { st with loc := (v, x) :: st.loc }
  | .setCol arr c e =>
      match lookup st.loc arr, evalX C K st c, evalX C K st e with
      | some (.mat m), some (.nat i), some (.ar col) => (setCol m i col).map fun m' => { st with loc := (arr, .mat m') :: st.loc }
      | _, _, _ => none
  | .setItem d k e =>
      match lookup st.loc d, evalX C K st k, evalX C K st e with
      | some (.dict l), some (.key k), some (.mat m) => some { st with loc := (d, .dict ((k, m) :: l)) :: st.loc }
      | _, _, _ => none

def execLs (C : Ctx α) (K : Kernel α) : List LStmt → St α → Option (St α)
  | [], st => some st
  | s :: r, st => (execL C K st s).bind (execLs C K r)

/-- a `for` loop: the loop variable bound to each value in turn -/
def runLoop (C : Ctx α) (K : Kernel α) (v : String) (body : List LStmt) : List (Val α) → St α → Option (St α)
  | [], st => some st
  | x :: r, st => (execLs C K body { st with loc := (v, x) :: st.loc }).bind (runLoop C K v body r)

inductive Flow (α : Type) where
  | cont (st : St α)
  | done (attrs : Env α) (v : Val α)

def evalArgs (C : Ctx α) (K : Kernel α) (st : St α) (args : List X) : Option (List (Val α)) :=
  allSomeL (args.map (evalX C K st))

/-- a method of the task list that changes it: `resolve(strain, keys)` (at any time), `calculate()` (after `resolve`) -/
def tlCall (m : String) (s : TLState α) (vs : List (Val α)) : Option (TLState α) :=
  if m = "resolve" then
    match vs with
    | [.mat strain, .keys ks] => some (.resolved strain ks)
    | _ => none
  else if m = "calculate" then
    match s, vs with
    | .resolved strain ks, [] => some (.calculated strain ks)
    | _, _ => none
  else none

def execStmt (C : Ctx α) (K : Kernel α) (st : St α) : Stmt → Option (Flow α)
  | .assign v e => (evalX C K st e).map fun x => .cont { st with loc := (v, x) :: st.loc }
  | .newDict v => some (.cont { st with loc := (v, .dict []) :: st.loc })
  | .setSelf a e =>
      match K.isProp a with
      | true => none                 -- a `property` without setter: AttributeError
      | false => (evalX C K st e).map fun x => .cont { st with attrs := (a, x) :: st.attrs }
  | .log calls => (evalArgs C K st calls).map fun _ => .cont st
  | .callProc m => (K.call st.attrs m []).map fun r => .cont { st with attrs := r.1 }
  | .callAttr a m args =>
      match lookup st.attrs a, evalArgs C K st args with
      | some (.tl s), some vs => (tlCall m s vs).map fun s' => .cont { st with attrs := (a, .tl s') :: st.attrs }
      | _, _ => none
  | .unpackIfTuple v =>
      match lookup st.loc v with
      | some (.ar _) => some (.cont st)          -- an array is not a tuple: nothing happens
      | _ => none
  | .retIf c e =>
      match evalX C K st c with
      | some (.bool true) => (evalX C K st e).map fun x => .done st.attrs x
      | some (.bool false) => some (.cont st)
      | _ => none
  | .forRange v n body => (runLoop C K v body ((List.range n).map .nat) st).map .cont
  | .forIn v it body =>
      match evalX C K st it with
      | some (.keys ks) => (runLoop C K v body (ks.map .key) st).map .cont
      | _ => none
  | .ret e => (evalX C K st e).map fun x => .done st.attrs x

/-- a body that falls off its end returns `None` -/
def runStmts (C : Ctx α) (K : Kernel α) : St α → List Stmt → Option (Env α × Val α)
  | st, [] => some (st.attrs, .unit)
  | st, s :: r =>
      match execStmt C K st s with
      | some (.cont st') => runStmts C K st' r
      | some (.done a v) => some (a, v)
      | none => none

/-- positional arguments against the parameters; a missing trailing argument takes its integer default -/
def bindParams : List (String × Option Nat) → List (Val α) → Option (Env α)
  | [], [] => some []
  | [], _ :: _ => none
  | (n, _) :: ps, a :: as => (bindParams ps as).map ((n, a) :: ·)
  | (n, some d) :: ps, [] => (bindParams ps []).map ((n, .nat d) :: ·)
  | (_, none) :: _, [] => none

/-- `self.<name>(args…)` (or reading the property `name`) on an object with these instance attributes -/
def callM (cls : List Method) (C : Ctx α) : Nat → Env α → String → List (Val α) → Option (Env α × Val α)
  | 0, _, _, _ => none
  | fuel + 1, attrs, name, args =>
      match findMethod cls name with
      | none => none
      | some m =>
          match bindParams m.params args with
          | none => none
          | some loc => runStmts C ⟨isProp cls, isPure cls, callM cls C fuel⟩ ⟨attrs, loc⟩ m.body

/-- the value only -/
def callV (cls : List Method) (C : Ctx α) (fuel : Nat) (attrs : Env α) (name : String) (args : List (Val α)) : Option (Val α) :=
  (callM cls C fuel attrs name args).map (·.2)

/-- `FullThermalElasticModulus(calculator)`: the instance attributes after `__init__` -/
def construct (cls : List Method) (C : Ctx α) (fuel : Nat) : Option (Env α) :=
  (callM cls C fuel [] "__init__" [.calcObj]).map (·.1)

/-- a method of the CALCULATOR (`_calculate_pressure_static`): `self` is the calculator record, it has no further methods -/
def runOnCalc (C : Ctx α) (m : Method) (args : List (Val α)) : Option (Env α × Val α) :=
  match bindParams m.params args with
  | none => none
  | some loc =>
      runStmts C ⟨fun _ => false, fun _ => false, fun _ _ _ => none⟩
        ⟨[("v_array", .ar C.calculator.vArray), ("qha_input", .qha)], loc⟩ m.body

end

/-! ### the sibling: `fit_modulus` of `cij/cli/static.py` (translated by `static_src.py` into `StaticSrc.X`) -/

/-- the fragment of `X` that `StaticSrc.X` can say too, with `self.volumes` ↦ the parameter `volumes`, `self.v_array` ↦ `v_array` -/
def toStatic : X → Option StaticSrc.X
  | .self ["volumes"] => some (.loc "volumes")
  | .self ["v_array"] => some (.loc "v_array")
  | .param n => some (.loc n)
  | .lit n => some (.lit n)
  | .index a k => if 0 ≤ k then (toStatic a).map fun x => .index x k.toNat else none
  | .add a b => do let x ← toStatic a; let y ← toStatic b; pure (.add x y)
  | .mul a b => do let x ← toStatic a; let y ← toStatic b; pure (.mul x y)
  | .div a b => do let x ← toStatic a; let y ← toStatic b; pure (.div x y)
  | .fn2 "qha.grid_interpolation.calculate_eulerian_strain" r a => do let x ← toStatic r; let y ← toStatic a; pure (.strain x y)
  | _ => none

/-! ### the inventory -/

/-- substitute the locals of a straight-line body into an expression (`assign` only) -/
def X.subst (σ : List (String × X)) : X → X
  | .loc n => match lookup σ n with | some e => e | none => .loc n
  | .self p => .self p
  | .param n => .param n
  | .lit n => .lit n
  | .str s => .str s
  | .neg a => .neg (a.subst σ)
  | .add a b => .add (a.subst σ) (b.subst σ)
  | .sub a b => .sub (a.subst σ) (b.subst σ)
  | .mul a b => .mul (a.subst σ) (b.subst σ)
  | .div a b => .div (a.subst σ) (b.subst σ)
  | .index a k => .index (a.subst σ) k
  | .item a k => .item (a.subst σ) (k.subst σ)
  | .shape a k => .shape (a.subst σ) k
  | .len a => .len (a.subst σ)
  | .eq a b => .eq (a.subst σ) (b.subst σ)
  | .contains a s => .contains (a.subst σ) s
  | .nax a => .nax (a.subst σ)
  | .colOf a i => .colOf (a.subst σ) (i.subst σ)
  | .dropFirst a k => .dropFirst (a.subst σ) k
  | .dropLast a k => .dropLast (a.subst σ) k
  | .edgeRep a => .edgeRep (a.subst σ)
  | .full v r c => .full v (r.subst σ) (c.subst σ)
  | .rowSum a => .rowSum (a.subst σ)
  | .compAttr t a => .compAttr t (a.subst σ)
  | .compAttrItem t k a => .compAttrItem t (k.subst σ) (a.subst σ)
  | .mapDiv a b => .mapDiv (a.subst σ) (b.subst σ)
  | .tuple3 a b c => .tuple3 (a.subst σ) (b.subst σ) (c.subst σ)
  | .fn1 f a => .fn1 f (a.subst σ)
  | .fn2 f a b => .fn2 f (a.subst σ) (b.subst σ)
  | .fn3 f a b c => .fn3 f (a.subst σ) (b.subst σ) (c.subst σ)
  | .fn4 f a b c d => .fn4 f (a.subst σ) (b.subst σ) (c.subst σ) (d.subst σ)
  | .callSelf0 m => .callSelf0 m
  | .callSelf1 m a => .callSelf1 m (a.subst σ)
  | .callSelf2 m a b => .callSelf2 m (a.subst σ) (b.subst σ)
  | .mcall0 o m => .mcall0 (o.subst σ) m

/-- the returned expression of a straight-line body (`assign`* then `ret`), locals substituted; `none` for any other shape -/
def inlineRet : List (String × X) → List Stmt → Option X
  | σ, [.ret e] => some (e.subst σ)
  | σ, .assign v e :: r => inlineRet ((v, e.subst σ) :: σ) r
  | _, _ => none

end Cij.FMGlue
