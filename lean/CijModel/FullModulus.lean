/-
  C05 — model of cij/core/full_modulus.py (static part, decomposition, wiring) and of
  `Calculator._calculate_pressure_static` (cij/core/calculator.py l. 107-121).

    fit_modulus            full_modulus.py l. 46-62
    get_static_modulus     full_modulus.py l. 64-75      (`_from_gpa`: cij/util/units.py l. 37-42)
    get_axial_strains      full_modulus.py l. 84-104
    modulus_adiabatic/_isothermal   l. 120-132
    `_make_param_by_strain_key` (non-shear branch)  cij/core/tasks.py l. 32-38

  Data that crosses a library boundary enters as data: the Eulerian strains of the input volumes and of the
  fine volume grid (qha `calculate_eulerian_strain(volumes[0], ·)`), qha's fine grid `v_array`, and the phonon
  contribution (the result of `PhononContributionTaskList`, modelled by C01–C04: `CijModel/NonShear.lean`,
  `Shear.lean`, `Tasks.lean`) — here a function of the axial strains and the key.

  No Mathlib.  Polymorphic in the scalar; run over `Rat` (exact least squares) by the driver.
-/
import CijModel.LeastSq
namespace Cij.FullModulus
open Cij.LeastSq

variable {α : Type} [Add α] [Sub α] [Mul α] [Div α] [Neg α] [OfNat α 0] [OfNat α 1]

def nth (l : List α) (i : Nat) : α := l.getD i 0

/-- `numpy.gradient(y)` for a 1-d array, default unit spacing and `edge_order=1`:
    interior `(y[i+1] - y[i-1]) / 2`, ends one-sided `y[1]-y[0]`, `y[-1]-y[-2]`.
    (numpy raises ValueError for fewer than 2 points: `none`.) -/
def gradient (y : List α) : Option (List α) :=
  let n := y.length
  if n < 2 then none else
  some ((List.range n).map fun i =>
    if i = 0 then nth y 1 - nth y 0
    else if i = n - 1 then nth y (n - 1) - nth y (n - 2)
    else (nth y (i + 1) - nth y (i - 1)) / (1 + 1))

/-- `static[nax, :] + phonon` -/
def addStatic (static : List α) (phonon : List (List α)) : List (List α) :=
  phonon.map fun row => List.zipWith (fun s p => s + p) static row

/-- `strain[:, i] / numpy.sum(strain, axis=1)` of `_make_param_by_strain_key` for one grid point -/
def normaliseBySum (row : List α) : List α :=
  let s := sumL row
  row.map (· / s)

variable [BEq α]

/-- `Calculator._calculate_pressure_static`: cubic (order 3) least-squares fit of the static energies in the
    Eulerian strain, evaluated on the fine grid, then `- numpy.gradient(E) / numpy.gradient(v_array)`. -/
def staticPressure (strains energies strainArray vArray : List α) (order : Nat := 3) : Option (List α) := do
  let e ← polynomialLeastSquareFitting strains energies strainArray order
  let ge ← gradient e
  let gv ← gradient vArray
  pure (List.zipWith (fun a b => -a / b) ge gv)

/-- everything `FullThermalElasticModulus` reads -/
structure Inputs (α : Type) where
  /-- `calculate_eulerian_strain(volumes[0], volumes)` -/
  strains : List α
  /-- `calculate_eulerian_strain(volumes[0], v_array)` -/
  strainArray : List α
  /-- `elast_data.volumes[*].volume` -/
  volumes : List α
  /-- the fine volume grid of the (T,V) grid -/
  vArray : List α
  /-- `static_elastic_modulus[key]` per input volume, GPa (after the optional symmetry fill) -/
  table : List (String × List α)
  /-- `elast_data.lattice_parmeters`: one row (a, b, c) per input volume, or empty -/
  lattice : List (List α)
  /-- 1 GPa in Ry/bohr³ (`_from_gpa(1.0)`) -/
  gpaFactor : α

/-- `fit_modulus(moduli, order=2)`: `polyfit(strains, volumes * moduli, deg = order + 1)`,
    `polyval(p, strain_array) / v_array`. -/
def fitModulus (inp : Inputs α) (moduli : List α) (order : Nat := 2) : Option (List α) := do
  let p ← polyfit inp.strains (List.zipWith (fun v c => v * c) inp.volumes moduli) (order + 1)
  pure (List.zipWith (fun s v => polyval p s / v) inp.strainArray inp.vArray)

/-- `_from_gpa(static_moduli)` -/
def fromGpa (k : α) (l : List α) : List α := l.map (· * k)

/-- `get_static_modulus(key)`; a key that is not in the table is a KeyError (`none`) -/
def getStaticModulus (inp : Inputs α) (key : String) : Option (List α) := do
  let col ← inp.table.lookup key
  fitModulus inp (fromGpa inp.gpaFactor col)

/-- `get_axial_strains()`: ones when there is no lattice block; otherwise, per axis, the fitted axis length
    on the fine grid, `tmp = params[[0, *range(n), -1]]`, `(tmp[2:] - tmp[:-2]) / (tmp[2:] + tmp[:-2])`,
    and each grid point's triple divided by its sum. -/
def getAxialStrains (inp : Inputs α) : Option (List (List α)) :=
  let ntv := inp.vArray.length
  if inp.lattice.isEmpty then some (List.replicate ntv [1, 1, 1]) else do
    let cols ← [0, 1, 2].mapM fun i => do
      let params ← fitModulus inp (inp.lattice.map fun row => nth row i)
      let tmp := nth params 0 :: (params ++ [nth params (params.length - 1)])
      pure ((List.range ntv).map fun k => (nth tmp (k + 2) - nth tmp k) / (nth tmp (k + 2) + nth tmp k))
    pure ((List.range ntv).map fun k => normaliseBySum (cols.map fun c => nth c k))

/-- the phonon contribution as the task list produces it: a function of the axial strains handed to
    `PhononContributionTaskList.resolve` and of the key (C01–C04), `none` = failure -/
abbrev Phonon (α : Type) := List (List α) → String → Option (List (List α))

/-- the phonon part that enters the total: the task list is resolved with `get_axial_strains()` -/
def phononPart (inp : Inputs α) (ph : Phonon α) (key : String) : Option (List (List α)) := do
  let e ← getAxialStrains inp
  ph e key

/-- `modulus_isothermal[key]` / `modulus_adiabatic[key]` (the same code with the isothermal / adiabatic
    task-list results): `get_static_modulus(key)[nax, :] + phonon[key]`. -/
def modulusTotal (inp : Inputs α) (ph : Phonon α) (key : String) : Option (List (List α)) := do
  let p ← phononPart inp ph key
  let s ← getStaticModulus inp key
  pure (addStatic s p)

end Cij.FullModulus
