/-
  Model of `lazy_property.LazyProperty` / read-through caches as used all over cij
  (`value_isothermal`, `zero_point_contribution`, `modulus_adiabatic`, `Q1`, …).

  A property body is a program that may read other properties (free-monad style `Body`); reading goes through a
  memo table; the first read runs the body and stores the result, later reads return the stored value.
  `History` = any sequence of reads (including repeated ones: `write_output` twice, `calculate` twice, …) on any
  number of independent objects.
-/
namespace Cij.Memo

/-- a property body: return a value, or read property `n` and continue -/
inductive Body (ν : Type) (β : Type) where
  | ret (v : β)
  | read (n : ν) (k : β → Body ν β)

abbrev Table (ν β : Type) := List (ν × β)

def Table.get? {ν β} [DecidableEq ν] (t : Table ν β) (n : ν) : Option β :=
  (t.find? (fun e => e.1 = n)).map (·.2)

/-- run a body against the memo table, reading other properties through `rd` -/
def runWith {ν β} (rd : ν → Table ν β → Option (β × Table ν β)) : Body ν β → Table ν β → Option (β × Table ν β)
  | .ret v, t => some (v, t)
  | .read n k, t =>
      match rd n t with
      | some (v, t') => runWith rd (k v) t'
      | none => none

/-- `obj.<n>`: cached value, else run the body and cache; `fuel` bounds the nesting depth of bodies
(cij's property graph is acyclic) -/
def readProp {ν β} [DecidableEq ν] (defs : ν → Body ν β) : Nat → ν → Table ν β → Option (β × Table ν β)
  | 0, _, _ => none
  | fuel + 1, n, t =>
      match t.get? n with
      | some v => some (v, t)
      | none =>
          match runWith (readProp defs fuel) (defs n) t with
          | some (v, t') => some (v, (n, v) :: t')
          | none => none

/-- pure denotation of a body given the denotations of the properties -/
def denote {ν β} (spec : ν → β) : Body ν β → β
  | .ret v => v
  | .read n k => denote spec (k (spec n))

/-- a history of reads on one object; returns the values seen, in order -/
def history {ν β} [DecidableEq ν] (defs : ν → Body ν β) (fuel : Nat) : List ν → Table ν β → Option (List β × Table ν β)
  | [], t => some ([], t)
  | n :: ns, t =>
      match readProp defs fuel n t with
      | some (v, t') => (history defs fuel ns t').map fun (vs, t'') => (v :: vs, t'')
      | none => none

/-- several objects, each with its own table; an op names the object and the property -/
def historyMulti {ι ν β} [DecidableEq ι] [DecidableEq ν] (defs : ι → ν → Body ν β) (fuel : Nat) :
    List (ι × ν) → (ι → Table ν β) → Option (List β × (ι → Table ν β))
  | [], ts => some ([], ts)
  | (i, n) :: ops, ts =>
      match readProp (defs i) fuel n (ts i) with
      | some (v, t') =>
          (historyMulti defs fuel ops (fun j => if j = i then t' else ts j)).map fun (vs, ts') => (v :: vs, ts')
      | none => none

end Cij.Memo
