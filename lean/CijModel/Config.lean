/-
  C16 — model of `cij/io/config/config.py` (the merge `update_config`, `apply_default_config`, and the
  suffix dispatch of `read_config`).  No Mathlib.  Everything is structurally recursive so that the kernel can
  evaluate it (`decide`) and the driver can run it.

  A Python `dict` is an association list `List (String × J)` whose keys are unique; `dict[k]` is `lookup k`
  (first match).  Iteration over the Python *set* of keys is iteration over `ord keys` where `ord` is an
  arbitrary function returning a permutation of its argument (a universally quantified parameter of every
  theorem: `OrdOK ord`).  Results are compared as maps (`walk`, order of keys is irrelevant).
-/
import CijModel.Json
import Generated.DefaultSettings

namespace Cij.Config
open Cij

abbrev KV := List (String × J)

/-- `d[k]` / `k in d.keys()` -/
def lookup (k : String) : KV → Option J
  | [] => none
  | (k', v) :: r => if k' = k then some v else lookup k r

def hasKey (k : String) (kv : KV) : Bool := (lookup k kv).isSome

def keys (kv : KV) : List String := kv.map (·.1)

def isObj : J → Bool
  | .obj _ => true
  | _ => false

/-- the exceptions the modelled code can raise -/
inductive Err where
  | attributeError   -- `.keys()` on something that is not a dict
  | keyError         -- `default_dict[k]` for an absent key (unreachable: k comes from the union of the key sets)
  | runtimeError     -- read_config: unsupported suffix
  deriving Repr, DecidableEq

instance {ε α} [DecidableEq ε] [DecidableEq α] : DecidableEq (Except ε α) := fun a b =>
  match a, b with
  | .ok x, .ok y => if h : x = y then isTrue (h ▸ rfl) else isFalse (fun e => h (by cases e; rfl))
  | .error x, .error y => if h : x = y then isTrue (h ▸ rfl) else isFalse (fun e => h (by cases e; rfl))
  | .ok _, .error _ => isFalse (fun e => by cases e)
  | .error _, .ok _ => isFalse (fun e => by cases e)

/-- `set([*input_dict.keys(), *default_dict.keys()])` as a duplicate-free list (user keys, then the keys
that only the default has).  Which representative list is chosen is irrelevant: the loop runs over `ord` of it. -/
def keyUnion (u d : KV) : List String :=
  keys u ++ (keys d).filter (fun k => !hasKey k u)

/-- table of the recursive calls `fun default => update_config(input_dict[k], default)`, one per user entry
(this is how the recursion `update_config(input_dict[k], default_dict[k])` is made structural). -/
def lookupF {β} (k : String) : List (String × β) → Option β
  | [] => none
  | (k', v) :: r => if k' = k then some v else lookupF k r

/-- one iteration of the `for k in set(...)` loop of `update_config` (config.py l.34-42): the value stored
in `output_dict[k]`.  `recur uv dv` is the recursive call `update_config(input_dict[k], default_dict[k])`. -/
def body (recur : String → Option (J → Except Err J)) (u d : KV) (k : String) : Except Err J :=
  match lookup k u, lookup k d with
  | none, some dv => .ok dv                       -- if k not in input_dict.keys(): output_dict[k] = default_dict[k]
  | none, none => .error .keyError                --   (default_dict[k] would raise KeyError; unreachable)
  | some uv, none => .ok uv                       -- elif k not in default_dict.keys(): output_dict[k] = input_dict[k]
  | some uv, some dv =>
      if isObj uv && isObj dv then                -- elif isinstance(input_dict[k], dict) and isinstance(default_dict[k], dict):
        match recur k with                        --     output_dict[k] = update_config(input_dict[k], default_dict[k])
        | some f => f dv
        | none => .error .keyError
      else .ok uv                                 -- else: output_dict[k] = input_dict[k]

/-- the loop itself: `output_dict = {}; for k in ks: output_dict[k] = body k` (first exception aborts). -/
def loop (f : String → Except Err J) : List String → Except Err KV
  | [] => .ok []
  | k :: ks =>
    match f k with
    | .error e => .error e
    | .ok v =>
      match loop f ks with
      | .error e => .error e
      | .ok r => .ok ((k, v) :: r)

mutual
/-- `update_config(input_dict, default_dict)` (config.py l.32-43, as repaired in a3016c4).  `.keys()` on a
non-dict (either argument of the top-level call) raises AttributeError; the recursive call is only made when both
values are dicts, so a user dict over a default list / scalar / None is taken whole. -/
def updateConfig (ord : List String → List String) : J → J → Except Err J
  | .obj u, .obj d =>
      match loop (body (fun k => lookupF k (updRecs ord u)) u d) (ord (keyUnion u d)) with
      | .ok r => .ok (.obj r)
      | .error e => .error e
  | _, _ => .error .attributeError
def updRecs (ord : List String → List String) : KV → List (String × (J → Except Err J))
  | [] => []
  | (k, v) :: r => (k, updateConfig ord v) :: updRecs ord r
end

/-- `apply_default_config(input_dict)` (config.py l.46-51): the default dict is the packaged
`cij/data/default/settings.yaml`, here its translation `Generated.defaultSettings` (re-translated on every run;
the harness compares it with what the real code loads). -/
def applyDefaultConfig (ord : List String → List String) (u : J) : Except Err J :=
  updateConfig ord u Generated.defaultSettings

/-- the call returned (no exception) -/
def isOk : Except Err J → Bool
  | .ok _ => true
  | .error _ => false

/-- path lookup `cfg[k1][k2]…` (through dicts only) -/
def get : J → List String → Option J
  | j, [] => some j
  | .obj kv, k :: p => match lookup k kv with
      | some v => get v p
      | none => none
  | _, _ :: _ => none

/-- What is found when following a key path in a nested dict.  This is the "configuration as a map" view:
two nested dicts are equal as Python values iff their walks agree on every path (dict key order is invisible,
non-dict values are compared whole). -/
inductive Walk where
  | leafAt (v : J)     -- the path ends exactly at a non-dict value
  | dictAt             -- the path ends at a dict
  | shadowed           -- a strict prefix of the path is a non-dict value
  | fellOff            -- a key along the path is missing in a dict
  deriving DecidableEq

def walk : J → List String → Walk
  | .obj _, [] => .dictAt
  | v, [] => .leafAt v
  | .obj kv, k :: p => match lookup k kv with
      | some v => walk v p
      | none => .fellOff
  | _, _ :: _ => .shadowed

/-- user over default, path by path: the user's walk wins unless it fell off a dict. -/
def Walk.over (a b : Walk) : Walk :=
  match a with
  | .fellOff => b
  | a => a

/-- replace/insert `cfg[k1]…[kn] = v`, creating dicts on the way (a non-dict on the way is replaced) -/
def setKey (k : String) (v : J) : KV → KV
  | [] => [(k, v)]
  | (k', x) :: r => if k' = k then (k', v) :: r else (k', x) :: setKey k v r

def setPath : J → List String → J → J
  | _, [], v => v
  | .obj kv, k :: p, v =>
      .obj (setKey k (setPath (match lookup k kv with | some x => x | none => .obj []) p v) kv)
  | _, k :: p, v => .obj [(k, setPath (.obj []) p v)]

/-- remove a key (used for "missing section" perturbations) -/
def delKey (k : String) : KV → KV
  | [] => []
  | (k', x) :: r => if k' = k then delKey k r else (k', x) :: delKey k r

/-! ### read_config: choice of parser by suffix (config.py l.15-24).  The parsers themselves are not modelled. -/

inductive Parser where
  | yaml | json
  deriving Repr, DecidableEq

/-- `PurePath.name`: the part after the last '/' -/
def baseName (cs : List Char) : List Char :=
  cs.foldl (fun acc c => if c = '/' then [] else acc ++ [c]) []

/-- index-free version of CPython 3.12 `PurePath.suffix`:
`i = name.rfind('.'); return name[i:] if 0 < i < len(name) - 1 else ''` -/
def suffixOfName : List Char → List Char
  | [] => []
  | c :: cs =>
    -- candidates: the last '.' that is not at position 0 and not the last character
    let rec go (rest : List Char) (best : Option (List Char)) : Option (List Char) :=
      match rest with
      | [] => best
      | x :: xs => if x = '.' then go xs (some (x :: xs)) else go xs best
    let _ := c
    match go cs none with
    | some s => if s.length > 1 then s else []     -- a trailing '.' gives no suffix
    | none => []

def pathSuffix (fname : String) : String :=
  String.ofList (suffixOfName (baseName (
    -- trailing slashes are dropped by pathlib
    (fname.toList.reverse.dropWhile (· = '/')).reverse)))

def parserFor (fname : String) : Except Err Parser :=
  let s := pathSuffix fname
  if s = ".yml" ∨ s = ".yaml" then .ok .yaml
  else if s = ".json" then .ok .json
  else .error .runtimeError

end Cij.Config
