/-
  Model of the node-based piecewise-cubic interpolators `cij/core/mode_gamma.py::interpolate_mode_ppoly` builds:
  `scipy.interpolate.PchipInterpolator(x, y)` and `scipy.interpolate.Akima1DInterpolator(x, y)` (scipy 1.18.1,
  `scipy/interpolate/_cubic.py`, `_interpolate.py`, `_ppoly.pyx`), evaluated as `interp(q, nu=0|1|2, extrapolate=True)`.

  * No Mathlib.  Written once, polymorphic in the scalar `α` (`Add Sub Mul Div Neg Zero One NatCast LT LE` with decidable
    order); runs at `Float` in the driver (bit-for-bit the operation order of scipy: the correspondence run compares against the
    real classes), is the subject of the theorems at `ℝ` / linearly ordered fields (`CijProofs/Properties/C11.lean`).
  * Both classes are `CubicHermiteSpline(x, y, dydx)` with their own node slopes `dydx`; `CubicHermiteSpline.__init__` turns
    `(x, y, dydx)` into `PPoly` coefficients in the power basis about the left node (`hermiteCoeffs`); `PPoly.__call__` finds the
    piece (`locate`, `_ppoly.find_interval_ascending`) and sums the powers from the constant term up (`Piece.eval`,
    `_ppoly.evaluate_poly1`).
  * `x.getD i 0` is only ever used at `i < length` (theorems carry the length hypotheses).
-/
import CijModel.Interp

namespace Cij.PPoly
open Cij.Interp

section Numeric
variable {α : Type} [Add α] [Sub α] [Mul α] [Div α] [Neg α] [Zero α] [One α] [NatCast α]

/-- the numerals `2.`, `3.`, `6.` of the Python/Cython source -/
def two : α := ((2 : Nat) : α)
def three : α := ((3 : Nat) : α)
def six : α := ((6 : Nat) : α)

/-! ### one cubic piece (`CubicHermiteSpline.__init__`, `_ppoly.evaluate_poly1`) -/

/-- one row of `PPoly.c[:, i]` with its breakpoint: `c0 (x-x0)³ + c1 (x-x0)² + c2 (x-x0) + c3` -/
structure Piece (α : Type) where
  x0 : α
  c0 : α
  c1 : α
  c2 : α
  c3 : α
  deriving Repr

/-- `CubicHermiteSpline.__init__`:
```
slope = diff(y) / dxr
t = (dydx[:-1] + dydx[1:] - 2 * slope) / dxr
c = stack((t / dxr, (slope - dydx[:-1]) / dxr - t, dydx[:-1], y[:-1]))
``` -/
def hermiteCoeffs (x0 x1 y0 y1 d0 d1 : α) : Piece α :=
  let dx := x1 - x0
  let slope := (y1 - y0) / dx
  let t := (d0 + d1 - two * slope) / dx
  ⟨x0, t / dx, (slope - d0) / dx - t, d0, y0⟩

/-- `_ppoly.evaluate_poly1(s, c, ci, cj, dx=nu)` with `s = xval - x[interval]`: `res += c[k-kp-1] * z * prefactor`, `z` the running
power of `s`, `prefactor = kp (kp-1) … (kp-nu+1)`; terms from the constant one upwards (not Horner). -/
def Piece.eval (p : Piece α) (nu : Nat) (x : α) : α :=
  let s := x - p.x0
  match nu with
  | 0 => p.c3 + p.c2 * s + p.c1 * (s * s) + p.c0 * (s * s * s)
  | 1 => p.c2 + p.c1 * s * two + p.c0 * (s * s) * three
  | 2 => p.c1 * two + p.c0 * s * six
  | 3 => p.c0 * six
  | _ => 0

/-! ### secants -/

/-- `hk[i] = x[i+1] - x[i]` -/
def hAt (xs : List α) (i : Nat) : α := xs.getD (i + 1) 0 - xs.getD i 0

/-- `mk[i] = (y[i+1] - y[i]) / hk[i]` -/
def mAt (xs ys : List α) (i : Nat) : α := (ys.getD (i + 1) 0 - ys.getD i 0) / hAt xs i

/-- the piece on `[x_i, x_{i+1}]` for node slopes `ds` -/
def pieceAt (xs ys ds : List α) (i : Nat) : Piece α :=
  hermiteCoeffs (xs.getD i 0) (xs.getD (i + 1) 0) (ys.getD i 0) (ys.getD (i + 1) 0) (ds.getD i 0) (ds.getD (i + 1) 0)

variable [LT α] [DecidableLT α]

/-- `numpy.sign` on non-NaN input -/
def sgn (x : α) : Int := if 0 < x then 1 else if x < 0 then -1 else 0

/-- `numpy.abs` -/
def abs' (x : α) : α := if x < 0 then -x else x

/-- `numpy.max` of a non-empty list (left fold) -/
def maxL : List α → α
  | [] => 0
  | a :: l => l.foldl (fun acc b => if acc < b then b else acc) a

/-! ### PCHIP slopes (`PchipInterpolator._find_derivatives`, `_edge_case`) -/

/-- `_edge_case(h0, h1, m0, m1)`: one-sided three-point estimate with the two shape corrections
```
d = ((2*h0 + h1)*m0 - h0*m1) / (h0 + h1)
mask = sign(d) != sign(m0); mask2 = (sign(m0) != sign(m1)) & (abs(d) > 3.*abs(m0)); mmm = (~mask) & mask2
d[mask] = 0.; d[mmm] = 3.*m0[mmm]
``` -/
def pchipEdge (h0 h1 m0 m1 : α) : α :=
  let d := ((two * h0 + h1) * m0 - h0 * m1) / (h0 + h1)
  if sgn d != sgn m0 then 0
  else if sgn m0 != sgn m1 && decide (three * abs' m0 < abs' d) then three * m0
  else d

/-- interior node `k` (`h0 = h_{k-1}`, `h1 = h_k`, `m0 = m_{k-1}`, `m1 = m_k`):
```
condition = (smk[1:] != smk[:-1]) | (mk[1:] == 0) | (mk[:-1] == 0)
w1 = 2*hk[1:] + hk[:-1]; w2 = hk[1:] + 2*hk[:-1]
whmean = (w1/mk[:-1] + w2/mk[1:]) / (w1 + w2)
dk[1:-1][condition] = 0.0; dk[1:-1][~condition] = 1.0 / whmean[~condition]
```
(`mk == 0` is `sign(mk) == 0` on non-NaN input.) -/
def pchipInterior (h0 h1 m0 m1 : α) : α :=
  if sgn m1 != sgn m0 || sgn m1 == 0 || sgn m0 == 0 then 0
  else
    let w1 := two * h1 + h0
    let w2 := h1 + two * h0
    1 / ((w1 / m0 + w2 / m1) / (w1 + w2))

/-- `dk[k]` of `_find_derivatives(x, y)`: two nodes → the secant at both; else the edge formula at both ends
(`dk[0] = _edge_case(hk[0], hk[1], mk[0], mk[1])`, `dk[-1] = _edge_case(hk[-1], hk[-2], mk[-1], mk[-2])`) and the weighted
harmonic mean inside. -/
def pchipSlopeAt (xs ys : List α) (k : Nat) : α :=
  let n := xs.length
  if n = 2 then mAt xs ys 0
  else if k = 0 then pchipEdge (hAt xs 0) (hAt xs 1) (mAt xs ys 0) (mAt xs ys 1)
  else if k + 1 = n then pchipEdge (hAt xs (n - 2)) (hAt xs (n - 3)) (mAt xs ys (n - 2)) (mAt xs ys (n - 3))
  else pchipInterior (hAt xs (k - 1)) (hAt xs k) (mAt xs ys (k - 1)) (mAt xs ys k)

def pchipSlopes (xs ys : List α) : List α := (List.range xs.length).map (pchipSlopeAt xs ys)

/-! ### Akima slopes (`Akima1DInterpolator.__init__`, `method="akima"`) -/

/-- the secant array extended by two entries on each side (`m`, length `n + 3`; `m[2:-2] = diff(y)/dx`):
```
m[1] = 2. * m[2] - m[3];      m[0] = 2. * m[1] - m[2]
m[-2] = 2. * m[-3] - m[-4];   m[-1] = 2. * m[-2] - m[-3]
``` -/
def akimaM (xs ys : List α) (j : Nat) : α :=
  let n := xs.length
  if j = 0 then two * (two * mAt xs ys 0 - mAt xs ys 1) - mAt xs ys 0
  else if j = 1 then two * mAt xs ys 0 - mAt xs ys 1
  else if j ≤ n then mAt xs ys (j - 2)
  else if j = n + 1 then two * mAt xs ys (n - 2) - mAt xs ys (n - 3)
  else two * (two * mAt xs ys (n - 2) - mAt xs ys (n - 3)) - mAt xs ys (n - 2)

/-- `f1 = dm[2:]`, `f2 = dm[:-2]` with `dm = abs(diff(m))`; `f12 = f1 + f2` -/
def akimaF1 (xs ys : List α) (i : Nat) : α := abs' (akimaM xs ys (i + 3) - akimaM xs ys (i + 2))
def akimaF2 (xs ys : List α) (i : Nat) : α := abs' (akimaM xs ys (i + 1) - akimaM xs ys i)
def akimaF12 (xs ys : List α) (i : Nat) : α := akimaF1 xs ys i + akimaF2 xs ys i

/-- `break_mult = 1.e-9` (`1 / 10⁹` is that double) -/
def breakMult : α := 1 / ((1000000000 : Nat) : α)

/-- `t[i]` given `mmax = max(f12)`:
```
t = .5 * (m[3:] + m[:-3])                      # fill value where the weights (nearly) vanish
ind = nonzero(f12 > break_mult * mmax)
t[ind] = m[ind+1] + (f2[ind] / f12[ind]) * (m[ind+2] - m[ind+1])
``` -/
def akimaSlopeWith (xs ys : List α) (mmax : α) (i : Nat) : α :=
  if breakMult * mmax < akimaF12 xs ys i then
    akimaM xs ys (i + 1) + (akimaF2 xs ys i / akimaF12 xs ys i) * (akimaM xs ys (i + 2) - akimaM xs ys (i + 1))
  else (1 / two) * (akimaM xs ys (i + 3) + akimaM xs ys i)

/-- `mmax = max(f12)` over the `n` nodes -/
def akimaMax (xs ys : List α) : α := maxL ((List.range xs.length).map (akimaF12 xs ys))

/-- the slope array `t`: two nodes → the secant at both -/
def akimaSlopes (xs ys : List α) : List α :=
  if xs.length = 2 then [mAt xs ys 0, mAt xs ys 0]
  else
    let mmax := akimaMax xs ys
    (List.range xs.length).map (akimaSlopeWith xs ys mmax)

/-! ### piece location (`_ppoly.find_interval_ascending` with `extrapolate=True`) and evaluation -/

variable [LE α] [DecidableLE α]

/-- for `x[0] ≤ q`: the number of interior breakpoints `≤ q`, i.e. the `i` with `x[i] ≤ q < x[i+1]` (what scipy's
binary search returns on a strictly increasing `x`) -/
def locateIn : List α → α → Nat
  | _ :: x1 :: rest, q => if x1 ≤ q then locateIn (x1 :: rest) q + 1 else 0
  | _, _ => 0

/-- `find_interval_ascending(x, nx, xval, extrapolate=True)`: left of `x[0]` → first piece; `xval == x[-1]` or right of it → last piece
(`nx - 2`); otherwise the piece with `x[i] ≤ xval < x[i+1]` — so a query AT an interior node belongs to the piece on its right.
`none`: a NaN query (all comparisons false), for which scipy writes NaN. -/
def locate (xs : List α) (q : α) : Option Nat :=
  match xs.head?, xs.getLast? with
  | some a, some b =>
    if q < a then some 0
    else if b ≤ q then some (xs.length - 2)
    else if a ≤ q then some (locateIn xs q)
    else none
  | _, _ => none

/-- `PPoly.__call__(q, nu, extrapolate=True)` for one query point -/
def evalAt (xs ys ds : List α) (nu : Nat) (q : α) : Option α :=
  (locate xs q).map fun i => (pieceAt xs ys ds i).eval nu q

/-! ### constructor checks (`prepare_input`) -/

/-- `isfinite` without a float-specific primitive: `x − x` is `0` exactly for finite `x` (NaN for ±inf and NaN) -/
def isFinite (x : α) : Bool := decide (x - x ≤ 0) && decide (0 ≤ x - x)

/-- `not any(diff(x) <= 0)` -/
def increasing : List α → Bool
  | a :: b :: rest => decide (a < b) && increasing (b :: rest)
  | _ => true

/-- every `ValueError` of `prepare_input(x, y)` for 1-D real input: fewer than 2 nodes, lengths differ, a non-finite node
abscissa or value, abscissae not strictly increasing -/
def validNodes (xs ys : List α) : Bool :=
  decide (2 ≤ xs.length) && xs.length == ys.length && xs.all isFinite && ys.all isFinite && increasing xs

/-- the samples `(s(q), s'(q), s''(q))` = `(interp(q), interp(q, nu=1), interp(q, nu=2))`, all with `extrapolate=True` -/
def sample (xs ys ds : List α) (q : α) : Option (Triple α) := do
  let s0 ← evalAt xs ys ds 0 q
  let s1 ← evalAt xs ys ds 1 q
  let s2 ← evalAt xs ys ds 2 q
  pure (s0, s1, s2)

/-- a `CubicHermiteSpline` subclass with node slopes `slopes x y`, as an interpolation kernel.  `Err.other "nan-query"` is a
model-only tag (no polymorphic NaN): scipy returns NaN for a NaN query; unreachable on a linear order (`locate_isSome`). -/
def hermiteInterpolant (slopes : List α → List α → List α) : Interpolant α := fun xs ys pts =>
  if validNodes xs ys then
    let ds := slopes xs ys
    match pts.mapM (sample xs ys ds) with
    | some r => .ok r
    | none => .error (.other "nan-query")
  else .error .valueError

/-- `scipy.interpolate.PchipInterpolator(x, y)` -/
def pchipInterpolant : Interpolant α := hermiteInterpolant pchipSlopes

/-- `scipy.interpolate.Akima1DInterpolator(x, y)` (default `method="akima"`) -/
def akimaInterpolant : Interpolant α := hermiteInterpolant akimaSlopes

/-- the kernel of every method: `Interp.kernelOf` with the two node-based piecewise-cubic library classes modelled as well -/
def kernelFull [BEq α] (m : Method) (order : Nat) (lib : Interpolant α) : Interpolant α :=
  match m with
  | .pchip => pchipInterpolant
  | .akima => akimaInterpolant
  | _ => kernelOf m order lib

end Numeric

end Cij.PPoly
