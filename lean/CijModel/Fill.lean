/-
  Model of `cij/util/fill.py` (`fill_cij`), statement by statement.  No Mathlib.

  * One definition, polymorphic in the scalar `α` (ordinary operator classes).  The driver runs it at `Rat`
    (every IEEE double is a dyadic rational, so the model run is *exact*: exact rank, exact least squares, exact
    threshold comparisons); the theorems are about the same functions over any linearly ordered field / ℝ.
  * numpy.linalg.lstsq is re-implemented exactly: rank deficiency is decided by `kerWitness` (proved sound AND
    complete in `CijProofs/Lemmas/Fill.lean`), the minimum-norm least-squares solution is `x = Aᵀ z` with
    `(AAᵀ)² z = AAᵀ b` found by an *unverified* elimination (`solveAny`) whose result is *checked* (normal
    equations, exact equality) before it is used: a wrong solve is the outcome `Err.solver`, never a wrong table.
    The residuals are `Σ (a·x − b)²` per volume row, always (also for a rank-deficient system: /repo 6c1887e).
  * The code that exists is modelled (/repo a4e5038): the drop test only looks at modulus-like columns (8c26f17);
    empty relations (triclinic) only skip the concatenation of relation rows — rank test, residual test, write-back
    and drop still run (a4e5038); the constraints lookup uses a path to a regular FILE as the relations, otherwise the
    packaged file of that name — directories named like the system are never looked at (380a118).
  * Outside the model: dtype of the pandas columns (int64 columns make pandas raise TypeError on write-back —
    the harness checks that clause on the real code), NaN/inf cells, duplicated column labels, zero-row tables,
    non-ASCII digits/letters in column names (`\d`, `str.lower` are modelled on ASCII).
-/
import Generated.Constraints

namespace Cij.Fill

/-! ### vectors as lists (a missing entry is 0) -/

section linalg
variable {α : Type} [Add α] [Sub α] [Mul α] [Div α] [Neg α] [OfNat α 0] [OfNat α 1] [DecidableEq α]

/-- Σ uᵢ vᵢ -/
def dot : List α → List α → α
  | a :: u, b :: v => a * b + dot u v
  | _, _ => 0

/-- `v + k·u` -/
def axpy (k : α) : List α → List α → List α
  | [], v => v
  | a :: u, [] => (k * a) :: axpy k u []
  | a :: u, b :: v => (b + k * a) :: axpy k u v

def head0 (r : List α) : α := r.headD 0

/-- `rows.map (r ↦ r.tail − (r.head / a)·p')`: eliminate the first unknown with the pivot row `a :: p'`. -/
def eliminate (a : α) (p' : List α) (rows : List (List α)) : List (List α) :=
  rows.map fun s => axpy (-(head0 s / a)) p' s.tail

/-- A non-zero vector `w` of length `n` with `dot r w = 0` for every row, or `none` when only the zero vector
    does that.  Recursion on the number of unknowns: no pivot in the first column ⇒ `e₀` is in the kernel;
    otherwise eliminate the first unknown and recurse.
    (`numpy.linalg.lstsq`'s `rank < n`  ⇔  `(kerWitness n rows).isSome`; sound + complete: Lemmas/Fill.lean.) -/
def kerWitness : (n : Nat) → List (List α) → Option (List α)
  | 0, _ => none
  | n + 1, rows =>
    match rows.find? (fun r => head0 r ≠ 0) with
    | none => some (1 :: List.replicate n 0)
    | some p =>
      match kerWitness n (eliminate (head0 p) p.tail rows) with
      | none => none
      | some w => some (-(dot p.tail w) / head0 p :: w)

/-- Some solution of `rows · x = rhs` in `n` unknowns when there is one (free unknowns := 0).  Unverified: every
    use checks the result. -/
def solveAny : (n : Nat) → List (List α × α) → List α
  | 0, _ => []
  | n + 1, rows =>
    match rows.find? (fun r => head0 r.1 ≠ 0) with
    | none => 0 :: solveAny n (rows.map fun r => (r.1.tail, r.2))
    | some p =>
      let a := head0 p.1
      let rest := rows.map fun s =>
        let k := -(head0 s.1 / a)
        (axpy k p.1.tail s.1.tail, s.2 + k * p.2)
      let w := solveAny n rest
      ((p.2 - dot p.1.tail w) / a) :: w

/-- residual vector `A x − b` -/
def residualVec (A : List (List α)) (b x : List α) : List α :=
  List.zipWith (fun r bi => dot r x - bi) A b

def sumSq (r : List α) : α := dot r r

/-- `Aᵀ r = Σᵢ rᵢ · (row i)` -/
def tmulVec : List (List α) → List α → List α
  | a :: A, ri :: r => axpy ri a (tmulVec A r)
  | _, _ => []

/-- `Aᵀ (A x − b) = 0`, exactly -/
def normalEqHold (A : List (List α)) (b x : List α) : Bool :=
  (tmulVec A (residualVec A b x)).all fun e => e = 0

/-- minimum-norm least-squares solution `A⁺ b` as `x = Aᵀ z` with `G² z = G b`, `G = A Aᵀ`
    (then `Aᵀ(A x − b) = 0` because `‖Aᵀ(Gz − b)‖² = (Gz − b)ᵀ G (Gz − b)`); the result is CHECKED. -/
def lstsq (n : Nat) (A : List (List α)) (b : List α) : Option (List α) :=
  let G := A.map fun r => A.map fun r' => dot r r'          -- A Aᵀ  (m × m, symmetric)
  let sys := G.map fun g => (G.map fun g' => dot g g', dot g b)
  let z := solveAny A.length sys
  let y := tmulVec A z
  let x := (List.range n).map fun j => y.getD j 0            -- exactly n entries
  if normalEqHold A b x then some x else none

end linalg

/-! ### tables, column recognition, constraint lookup -/

abbrev Table (α : Type) := List (String × List α)
/-- a relation row `(coeffs · x) / den = rhs / den`: integer coefficients as translated (multiplied through),
    together with the denominator `den` they were multiplied by — fill.py's row is the *unscaled* one, and the
    least-squares weighting of an inconsistent table depends on it. -/
structure Rel where
  coeffs : List Int
  rhs : Int
  den : Nat
  deriving Repr, DecidableEq

abbrev Rows := List Rel

inductive Err
  | valueError        -- `list.index`: a column matches c\d\d but is not one of the 21 symbols
  | fileNotFound      -- no packaged constraints file of that name
  | indexError        -- no modulus column at all, relations present: `b.shape[1]`
  | linAlgError       -- no modulus column at all, no relations: lstsq on a 1-dimensional array
  | refuseRank        -- Warning("Rank of constraints …")
  | refuseResidual    -- Warning("Residuals seems to be too large …")
  | solver            -- the model's own solve failed its check (never observed)
  deriving DecidableEq, Repr

/-- `symbols.keys()` of fill.py: c11, c12, …, c66 in the order of `Generated.symbolPairs` -/
def symbolNames : List String := Generated.symbolPairs.map fun p => s!"c{p.1}{p.2}"

def nsym : Nat := symbolNames.length

/-- `re.search(r"c(\d)(\d)", s)` — a 'c' followed by two (ASCII) digits anywhere in `s` -/
def matchesCdd : List Char → Bool
  | 'c' :: d1 :: d2 :: rest => (d1.isDigit && d2.isDigit) || matchesCdd (d1 :: d2 :: rest)
  | _ :: rest => matchesCdd rest
  | [] => false

/-- the loop `for sym, col in elast.items()`: `none` = column skipped, `some i` = selector of symbol `i`;
    `ValueError` at the first modulus-like name that is not a symbol (e.g. "c21", "c77", "xc11"). -/
def recogniseLower : List String → Except Err (List (Option Nat))
  | [] => .ok []
  | s :: rest =>
    if matchesCdd s.toList then
      match symbolNames.idxOf? s with
      | none => .error .valueError
      | some i => (recogniseLower rest).map (some i :: ·)
    else (recogniseLower rest).map (none :: ·)

/-- `sym = sym.lower()` first: only the lower-cased names are ever looked at -/
def recognise (names : List String) : Except Err (List (Option Nat)) := recogniseLower (names.map String.toLower)

/-- what the lookup can see of the world -/
structure Env where
  /-- `Path(system).exists()` in the current working directory (file OR directory) — NOT consulted by the code;
      kept so that the theorems can say so -/
  pathExists : String → Bool
  /-- `Path(system).is_file()`: the relations parsed from `system` when it names a readable regular file -/
  userFile : String → Option Rows

/-- integer rows + their denominators (a missing denominator is 1) -/
def mkRows (rows : List (List Int × Int)) (dens : List Nat) : Rows :=
  (List.zip rows (dens ++ List.replicate (rows.length - dens.length) 1)).map fun p => ⟨p.1.1, p.1.2, p.2⟩

def packaged (system : String) : Except Err Rows :=
  match Generated.constraintSystems.find? (fun p => p.1 == system) with
  | some p =>
    let dens := ((Generated.constraintDens.find? (fun q => q.1 == system)).map (·.2)).getD []
    .ok (mkRows p.2 dens)
  | none => .error .fileNotFound

/-- `constraints = get_data_fname("constraints/" + system)`; `if not Path(constraints).is_file() and Path(system).is_file():
constraints = system` — a packaged crystal-system name always means the packaged relations; only a name that is not a
packaged system is looked up as a user-supplied relations file -/
def resolve (env : Env) (system : String) : Except Err Rows :=
  match packaged system with
  | .ok rows => .ok rows
  | .error e =>
    match env.userFile system with
    | some rows => .ok rows
    | none => .error e

/-! ### fill_cij -/

section fill
variable {α : Type} [Add α] [Sub α] [Mul α] [Div α] [Neg α] [OfNat α 0] [OfNat α 1] [IntCast α]
  [DecidableEq α] [LT α] [DecidableLT α] [LE α] [DecidableLE α]

structure Params (α : Type) where
  ignoreResiduals : Bool
  ignoreRank : Bool
  dropAtol : α
  residualAtol : α

/-- `_a[index(sym)] = 1` -/
def selectorRow (i : Nat) : List α := (List.range nsym).map fun j => if j = i then 1 else 0

/-- the row of `sympy.linear_eq_to_matrix`: integer coefficients divided by the denominator -/
def castRow (r : Rel) : List α := r.coeffs.map fun z => (Int.cast z : α) / (Int.cast (Int.ofNat r.den) : α)

/-- the stacked matrix `a = [selectors; relations]` -/
def stackA (sel : List Nat) (rel : Rows) : List (List α) :=
  sel.map selectorRow ++ rel.map castRow

/-- right-hand side for volume row `k`: supplied values, then the relations' constants -/
def stackB (selCols : List (List α)) (rel : Rows) (k : Nat) : List α :=
  selCols.map (fun c => c.getD k 0) ++ rel.map fun r => (Int.cast r.rhs : α) / (Int.cast (Int.ofNat r.den) : α)

/-- `numpy.allclose(col, 0, atol=drop_atol)` : `|x| ≤ atol` at every row -/
def allClose0 (atol : α) (col : List α) : Bool := col.all fun x => x ≤ atol ∧ -x ≤ atol

/-- `elast.loc[:, key] = col` with `key` = first existing column whose lower-cased name is `sym`, else `sym` -/
def writeBack (t : Table α) (sym : String) (col : List α) : Table α :=
  match t.find? (fun c => c.1.toLower == sym) with
  | some hit => t.map fun c => if c.1 == hit.1 then (c.1, col) else c
  | none => t ++ [(sym, col)]

/-- what the solve stage hands to the decision stage -/
structure Solved (α : Type) where
  rankDeficient : Bool
  m : Nat
  /-- one solution vector (21 entries) per volume row -/
  xs : List (List α)
  /-- `numpy.sum((a @ x - b) ** 2, axis=0)`: Σ r² per volume row -/
  ssq : List α

/-- the `residuals` array the code tests (recomputed after lstsq, never empty-by-convention) -/
def Solved.residuals (s : Solved α) : List α := s.ssq

def solveStage (A : List (List α)) (bs : List (List α)) : Option (Solved α) := do
  let xs ← bs.mapM fun b => lstsq nsym A b
  pure { rankDeficient := (kerWitness nsym A).isSome, m := A.length, xs := xs,
         ssq := List.zipWith (fun b x => sumSq (residualVec A b x)) bs xs }

/-- the two `raise Warning` tests, in the code's order -/
def verdict (P : Params α) (s : Solved α) : Except Err Unit :=
  if s.rankDeficient && !P.ignoreRank then .error .refuseRank
  else if (s.residuals.any fun r => P.residualAtol < r) && !P.ignoreResiduals then .error .refuseResidual
  else .ok ()

def nRows (t : Table α) : Nat := (t.head?.map (·.2.length)).getD 0

/-- write back: column j of x for symbol j, in symbol order -/
def writeAll (t : Table α) (xs : List (List α)) : Table α :=
  (List.zip (List.range nsym) symbolNames).foldl
    (fun acc p => writeBack acc p.2 (xs.map fun x => x.getD p.1 0)) t

/-- then drop empty columns — only columns whose lower-cased name matches `c\d\d` are looked at -/
def finish (P : Params α) (t : Table α) (xs : List (List α)) : Table α :=
  (writeAll t xs).filter fun c => !(matchesCdd c.1.toLower.toList && allClose0 P.dropAtol c.2)

/-- indices of the recognised modulus columns / their value columns -/
def selIdxOf (sel : List (Option Nat)) : List Nat := sel.filterMap id
def selColsOf (sel : List (Option Nat)) (t : Table α) : List (List α) :=
  (List.zip sel t).filterMap fun p => p.1.map fun _ => p.2.2

def fillWith (rel : Rows) (sel : List (Option Nat)) (P : Params α) (t : Table α) : Except Err (Table α) :=
  if (selIdxOf sel).isEmpty then                                   -- no modulus column: `a`, `b` are empty 1-d arrays
    (if rel.isEmpty then .error .linAlgError else .error .indexError)   -- lstsq(1-d) / `b.shape[1]`
  else
  let A : List (List α) := stackA (selIdxOf sel) rel
  let bs := (List.range (nRows t)).map fun k => stackB (selColsOf sel t) rel k
  match solveStage A bs with
  | none => .error .solver
  | some s =>
    match verdict P s with
    | .error e => .error e
    | .ok () => .ok (finish P t s.xs)

/-- `fill_cij(elast, system, ignore_residuals, ignore_rank, drop_atol, residual_atol)` -/
def fill (env : Env) (system : Option String) (P : Params α) (t : Table α) : Except Err (Table α) :=
  match system with
  | none => .ok t                                                   -- `if system is None: return elast`
  | some sys =>
    match recognise (t.map (·.1)) with                              -- the column loop comes first
    | .error e => .error e
    | .ok sel =>
      match resolve env sys with                                 -- then the constraints lookup / open()
      | .error e => .error e
      | .ok rel => fillWith rel sel P t

end fill

end Cij.Fill
