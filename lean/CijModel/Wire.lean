/-
  Wire format of the line protocol between the Python harness and the Lean driver.
  One JSON object per line in, one JSON value per line out.  Floats travel as their IEEE-754 bit
  pattern (a natural number < 2^64), so transport is exact; NaN/±inf are ordinary bit patterns.
-/
import Lean.Data.Json
open Lean

namespace Cij.Wire

def floatOfJson (j : Json) : Except String Float :=
  match j with
  | .num n => if n.exponent == 0 && n.mantissa ≥ 0 then .ok (Float.ofBits (UInt64.ofNat n.mantissa.toNat))
              else .error "float must be sent as bit pattern"
  | _ => .error "expected number (bit pattern)"

def floatToJson (x : Float) : Json := Json.num ⟨Int.ofNat x.toBits.toNat, 0⟩

def intOfJson (j : Json) : Except String Int :=
  match j with
  | .num n => if n.exponent == 0 then .ok n.mantissa else .error "expected integer"
  | _ => .error "expected integer"

def natOfJson (j : Json) : Except String Nat := do
  let i ← intOfJson j
  if i < 0 then .error "expected natural" else pure i.toNat

def strOfJson (j : Json) : Except String String :=
  match j with
  | .str s => .ok s
  | _ => .error "expected string"

def boolOfJson (j : Json) : Except String Bool :=
  match j with
  | .bool b => .ok b
  | _ => .error "expected bool"

def arrOfJson (j : Json) : Except String (List Json) :=
  match j with
  | .arr a => .ok a.toList
  | _ => .error "expected array"

def listOf {α} (f : Json → Except String α) (j : Json) : Except String (List α) := do
  (← arrOfJson j).mapM f

def field (j : Json) (k : String) : Except String Json := j.getObjVal? k

def fieldD (j : Json) (k : String) (d : Json) : Json := (j.getObjVal? k).toOption.getD d

def floats1 := listOf floatOfJson
def floats2 := listOf floats1
def floats3 := listOf floats2
def floats4 := listOf floats3

def jFloats1 (l : List Float) : Json := Json.arr (l.map floatToJson).toArray
def jFloats2 (l : List (List Float)) : Json := Json.arr (l.map jFloats1).toArray
def jFloats3 (l : List (List (List Float))) : Json := Json.arr (l.map jFloats2).toArray
def jInts (l : List Int) : Json := Json.arr (l.map fun i => Json.num ⟨i, 0⟩).toArray
def jInt (i : Int) : Json := Json.num ⟨i, 0⟩
def jStrs (l : List String) : Json := Json.arr (l.map Json.str).toArray

/-- A handler answers an op it knows (`some`) or passes (`none`). -/
abbrev Handler := String → Json → Option (Except String Json)

end Cij.Wire
