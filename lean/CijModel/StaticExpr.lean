/-
  C18 — the SOURCE of `cij/cli/static.py::main` (and of the unit helpers of `cij/util/units.py`) as data, and an interpreter
  for it.  No Mathlib; executable (the driver runs it at `Float` next to `Static.runWith`).

  `tools/gens/static_src.py` re-reads the two files on every run and writes `Generated/StaticSpec.lean`:
    * the click declaration                          -> `List ClickParam`
    * the helper functions `fit_modulus`, `v2p1d`    -> `FunDef` (parameters with defaults, returned expression tree `X`)
    * the body of `main`                             -> `List Block` (guard + statements, in source order; calls of the
                                                         two helpers inlined, if/elif chains flattened with negated guards)
    * the six averages of the private VRH block      -> `Cij.VExpr.VExpr` (the tree type of calculator.py's averages)
    * `_to_*` / `_from_*` of units.py                -> `UnitHelper` (pint unit expressions `UExpr`)
  `CijProofs/Lemmas/StaticSource.lean` proves, for every block and every scalar type, that the hand-written block function of
  `CijModel/Static.lean` IS `execBlock` of the generated block.

  Semantics.  A value is a Python int (`nat`; only `ntv`, literals and `ntv - 1` occur — truncated subtraction, as the
  model's `(ntv - 1 : Nat)`), a float (`sc`) or a 1-d float array (`ar`); `+ - * /` broadcast as numpy does (`/` is true
  division); every exception is `none`.  Library calls are the SAME parameters / model functions `Static.lean` uses
  (`Ext`, `Fit`, `Units`, `Static.linspace`, `FullModulus.gradient`, `V2P.v2p`, `V2P.listMin/Max`), so what the theorems
  compare is the wiring: which arrays, which columns, which operations, in which order.
-/
import CijModel.Static
import CijModel.VExpr

namespace Cij.StaticSrc
open Cij Cij.Static

/-! ### data types filled in by the translator -/

/-- a Python literal of the click declaration / a default argument -/
inductive PyLit where
  | none
  | str (s : String)
  | int (n : Int)
  /-- a float literal as the exact fraction of its decimal spelling (`1.2` = 6/5) -/
  | rat (num : Int) (den : Nat)
  | bool (b : Bool)
  deriving DecidableEq, Repr, Inhabited

/-- `@click.argument(...)` / `@click.option(...)` -/
structure ClickParam where
  /-- "argument" / "option" -/
  kind : String
  /-- the declared names, e.g. `["-I", "--interp"]` -/
  names : List String
  /-- "Path(exists=True)", "Choice", "INT", "FLOAT", "" (no `type=`) -/
  type : String
  choices : List String
  /-- `default=` (absent = `None`) -/
  default : PyLit
  /-- `required=` (click's own default when absent: arguments are required, options are not) -/
  required : Bool
  deriving DecidableEq, Repr, Inhabited

/-- `--delta-p` → `delta_p` (`none` for a short option or an argument) -/
def longName (n : String) : Option String :=
  match n.toList with
  | '-' :: '-' :: r => some (String.ofList (r.map fun c => if c = '-' then '_' else c))
  | _ => none

/-- the Python identifier click passes the parameter as: the first long option name with `-` → `_`, else the declared name -/
def ClickParam.pyName (p : ClickParam) : String :=
  match p.names.filterMap longName with
  | n :: _ => n
  | [] => p.names.headD ""

/-- the declaration of the parameter that `main` receives as `name` -/
def clickParam? (ps : List ClickParam) (name : String) : Option ClickParam := ps.find? fun p => p.pyName = name

/-- `cij.util.units._to_gpa` … as called from static.py -/
inductive UnitFn | toGpa | fromGpa | toAng3 | fromAng3 | toGcm3 | toEv | toKms
  deriving DecidableEq, Repr

/-- the Python name of the helper in units.py -/
def UnitFn.pyName : UnitFn → String
  | .toGpa => "_to_gpa" | .fromGpa => "_from_gpa" | .toAng3 => "_to_ang3" | .fromAng3 => "_from_ang3"
  | .toGcm3 => "_to_gcm3" | .toEv => "_to_ev" | .toKms => "_to_kms"

/-- scalars that come from the command line / the header of INPUT02 -/
inductive Opt | pMin | deltaP | deltaPSample | cellmass | vRatio | ntv | tableCellmass
  deriving DecidableEq, Repr

/-- expressions of `main` (arrays, floats, ints) -/
inductive X where
  /-- `df.loc[:, name]`, `df[name]`, either with `.to_numpy()` -/
  | col (name : String)
  /-- a local variable -/
  | loc (name : String)
  | opt (o : Opt)
  /-- inside the per-key loop: `[volume.volume for volume in input02.volumes]` -/
  | tableVolumes
  /-- inside the per-key loop: `[volume.static_elastic_modulus[key] for volume in input02.volumes]` -/
  | keyValues
  /-- `c[:, i, j]` / `s[:, i, j]` of the 7×7 views -/
  | c (i j : Nat)
  | s (i j : Nat)
  | lit (n : Nat)
  | neg (a : X)
  | add (a b : X)
  | sub (a b : X)
  | mul (a b : X)
  | div (a b : X)
  | sqrt (a : X)
  | gradient (a : X)
  | amin (a : X)
  | amax (a : X)
  | linspace (a b n : X)
  /-- `a[k]` -/
  | index (a : X) (k : Nat)
  /-- `a[::-1]` -/
  | rev (a : X)
  /-- `calculate_eulerian_strain(ref, a)` -/
  | strain (ref a : X)
  /-- `polynomial_least_square_fitting(xs, ys, new, order=order)` (the values; qha < 1.1 returned a pair) -/
  | lsq (xs ys new order : X)
  /-- `v2p(x[nax, :], p[nax, :], pnew)[0]` -/
  | v2pRow0 (x p pnew : X)
  /-- `InterpolatedUnivariateSpline(x, y)(z)` -/
  | spline (x y z : X)
  | unit (u : UnitFn) (a : X)
  deriving Repr, Inhabited

/-- a helper function defined inside `main`: parameters (with default) and the returned expression over `.loc <parameter>` -/
structure FunDef where
  params : List (String × PyLit)
  ret : X
  deriving Repr

/-- the assembly of the 6×6 stiffness from the columns:
    `for i, j in product(range(dim), range(dim)): key = fmt % tuple(sorted((i+keyOffset, j+keyOffset))); if key in df.columns: cij[:, i, j] = df.loc[:, key]`
    on `numpy.zeros`, `sij = numpy.linalg.inv(cij)`, `c[:, viewOffset:, viewOffset:] = cij`, same for `s`. -/
structure AsmSpec where
  dim : Nat
  keyOffset : Nat
  sorted : Bool
  viewOffset : Nat
  deriving DecidableEq, Repr

inductive Stmt where
  /-- `input01 = read_energy(input01)` -/
  | readInput01
  /-- `input02 = read_elast_data(input02)` -/
  | readInput02
  /-- `df = pandas.DataFrame(index=range(input01.nv))`, `for i in df.index: df.loc[i, col] = input01.volumes[i].<attr>` -/
  | frameFromInput01 (cols : List (String × String))
  /-- `df = pandas.DataFrame(index=range(n))` -/
  | newFrame (n : X)
  | setLocal (name : String) (e : X)
  /-- `df.loc[:, name] = e` / `df[name] = e` -/
  | setCol (name : String) (e : X)
  /-- `for key in input02.volumes[0].static_elastic_modulus.keys(): df.loc[:, "c%d%d" % key.voigt] = e` -/
  | fitLoop (e : X)
  /-- `logger.warning(...)` -/
  | warn
  /-- `df = fill_cij(df, system)` -/
  | fill
  | assemble (sp : AsmSpec)
  /-- `df.loc[:, name] = <formula over c[:,i,j], s[:,i,j] and the average columns>` -/
  | setColV (name : String) (e : VExpr.VExpr)
  /-- `step = round(e)`, `df = df.iloc[::step, :]` -/
  | sampleRound (e : X)
  /-- `sys.stdout.write(df.to_string())` -/
  | write
  deriving Repr, Inhabited

/-- what a statement writes (for statements about the ORDER of the script) -/
def Stmt.tag : Stmt → String
  | .readInput01 => "input01=read_energy"
  | .readInput02 => "input02=read_elast_data"
  | .frameFromInput01 _ => "df=frame(input01)"
  | .newFrame _ => "df=frame"
  | .setLocal n _ => n
  | .setCol n _ => "df." ++ n
  | .fitLoop _ => "df.c_ij"
  | .warn => "warning"
  | .fill => "df=fill_cij"
  | .assemble _ => "c,s"
  | .setColV n _ => "df." ++ n
  | .sampleRound _ => "df=df.iloc[::step]"
  | .write => "stdout"

inductive Atom where
  /-- `interp == s` -/
  | interpIs (s : String)
  /-- `input02` (truthiness of the optional argument) -/
  | input02
  /-- `cellmass` -/
  | cellmass
  /-- `system == None` -/
  | systemIsNone
  /-- `name in df.columns` -/
  | hasCol (name : String)
  /-- `delta_p_sample` -/
  | deltaPSample
  deriving DecidableEq, Repr

/-- a block of `main`: runs iff every literal holds (`(false, a)` = `not a`; `elif` = the negated earlier tests first) -/
structure Block where
  guard : List (Bool × Atom)
  body : List Stmt
  deriving Repr, Inhabited

/-- pint unit expressions of units.py -/
inductive UExpr where
  | u (name : String)
  | mul (a b : UExpr)
  | div (a b : UExpr)
  /-- `a ** (num/den)` -/
  | pow (a : UExpr) (num den : Nat)
  deriving DecidableEq, Repr

/-- `def <name>(value): return convert_unit(<src>, <dst>, value)` -/
structure UnitHelper where
  name : String
  src : UExpr
  dst : UExpr
  deriving DecidableEq, Repr

/-- the average columns as they are spelled in the table, seen as the `Prop6` leaves of `VExpr` -/
def propCol : VExpr.Prop6 → String
  | .kV => "bm_V" | .kR => "bm_R" | .kH => "bm_VRH" | .gV => "G_V" | .gR => "G_R" | .gH => "G_VRH"

/-- a formula of the VRH block as an array expression (only the leaves the block can use) -/
def ofVExpr : VExpr.VExpr → Option X
  | .c i j => some (.c i j)
  | .s i j => some (.s i j)
  | .prop p => some (.col (propCol p))
  | .lit n => some (.lit n)
  | .add a b => do let x ← ofVExpr a; let y ← ofVExpr b; pure (.add x y)
  | .sub a b => do let x ← ofVExpr a; let y ← ofVExpr b; pure (.sub x y)
  | .mul a b => do let x ← ofVExpr a; let y ← ofVExpr b; pure (.mul x y)
  | .div a b => do let x ← ofVExpr a; let y ← ofVExpr b; pure (.div x y)
  | _ => none

/-! ### values -/

inductive Val (α : Type) where
  | nat (n : Nat)
  | sc (a : α)
  | ar (l : List α)
  deriving Repr

section
variable {α : Type} [Add α] [Sub α] [Mul α] [Div α] [Neg α] [OfNat α 0] [OfNat α 1] [NatCast α]

def Val.toSc : Val α → Option α
  | .nat n => some (n : α)
  | .sc a => some a
  | .ar _ => none

def Val.toAr : Val α → Option (List α)
  | .ar l => some l
  | _ => none

def Val.toNat : Val α → Option Nat
  | .nat n => some n
  | _ => none

/-- a numpy ufunc / unary operator: ints become floats -/
def Val.map1 (f : α → α) : Val α → Val α
  | .nat n => .sc (f (n : α))
  | .sc a => .sc (f a)
  | .ar l => .ar (l.map f)

/-- a binary operator with numpy broadcasting; `fn` = what it does on two Python ints (`none`: true division) -/
def Val.bin (f : α → α → α) (fn : Option (Nat → Nat → Nat)) : Val α → Val α → Val α
  | .nat a, .nat b => match fn with | some g => .nat (g a b) | none => .sc (f (a : α) (b : α))
  | .nat a, .sc b => .sc (f (a : α) b)
  | .nat a, .ar l => .ar (l.map fun x => f (a : α) x)
  | .sc a, .nat b => .sc (f a (b : α))
  | .sc a, .sc b => .sc (f a b)
  | .sc a, .ar l => .ar (l.map fun x => f a x)
  | .ar l, .nat b => .ar (l.map fun x => f x (b : α))
  | .ar l, .sc b => .ar (l.map fun x => f x b)
  | .ar l, .ar m => .ar (List.zipWith f l m)

end

/-! ### interpreter -/

/-- everything the command receives (files already parsed, options already converted by click) and the library calls -/
structure Inp (α : Type) where
  fit : Fit α
  E : Ext α
  U : Units α
  o : Options α
  d1 : QhaInput.Data α
  d2 : Option (ElastDat.ElastData α)

/-- the state of `main`: the frame, the locals, the stiffness / compliance stacks of the VRH block, the row labels -/
structure St (α : Type) where
  df : Table α := []
  loc : List (String × Val α) := []
  cs : List (List (List α)) := []
  ss : List (List (List α)) := []
  view : Nat := 0
  /-- inside the per-key loop: the tabulated values of the current key -/
  keyVals : Option (List α) := none
  /-- row labels after `df.iloc[::step, :]` (`none`: the RangeIndex of all rows) -/
  index : Option (List Nat) := none
  /-- what was written to stdout -/
  out : Option (Out α) := none

def lookup {β : Type} : List (String × β) → String → Option β
  | [], _ => none
  | kv :: r, n => if kv.1 = n then some kv.2 else lookup r n

def interpName : Interp → String
  | .none => "none" | .volume => "volume" | .pressure => "pressure"

/-- `input01.volumes[i].<attr>` -/
def attrOf {α : Type} : String → Option (QhaInput.VolumeData α → α)
  | "volume" => some (·.volume)
  | "energy" => some (·.energy)
  | "pressure" => some (·.pressure)
  | _ => none

section
variable {α : Type} [Add α] [Sub α] [Mul α] [Div α] [Neg α] [OfNat α 0] [OfNat α 1] [NatCast α]
  [LE α] [DecidableLE α] [LT α] [DecidableLT α] [BEq α]

def unitFactor (U : Units α) : UnitFn → Option α
  | .toGpa => some U.toGpa | .fromGpa => some U.fromGpa | .toAng3 => some U.toAng3 | .toGcm3 => some U.toGcm3
  | .toEv => some U.toEv | .toKms => some U.toKms
  | .fromAng3 => none                  -- imported by static.py, never called; not a field of `Static.Units`

def optVal (I : Inp α) : Opt → Option (Val α)
  | .pMin => some (.sc I.o.pMin)
  | .deltaP => some (.sc I.o.deltaP)
  | .deltaPSample => I.o.deltaPSample.map .sc
  | .cellmass => I.o.cellmass.map .sc
  | .vRatio => some (.sc I.o.vRatio)
  | .ntv => some (.nat I.o.ntv)
  | .tableCellmass => I.d2.map fun d => .sc d.cellmass

def matCol (ms : List (List (List α))) (view i j : Nat) : List α :=
  ms.map fun m => (m.getD (i - view) []).getD (j - view) 0

/-- `v2p(x[nax, :], p[nax, :], pnew)[0]`: one isotherm through qha's `v2p` -/
def v2pRow0 (xs ps qs : List α) : Option (List α) :=
  match V2P.v2p [xs] [ps] qs with
  | .ok [row] => some row
  | _ => none

def eval (I : Inp α) (st : St α) : X → Option (Val α)
  | .col n => (getCol st.df n).map .ar
  | .loc n => lookup st.loc n
  | .opt o => optVal I o
  | .tableVolumes => I.d2.map fun d => .ar (d.volumes.map (·.volume))
  | .keyValues => st.keyVals.map .ar
  | .c i j => some (.ar (matCol st.cs st.view i j))
  | .s i j => some (.ar (matCol st.ss st.view i j))
  | .lit n => some (.nat n)
  | .neg a => (eval I st a).map (Val.map1 fun x => -x)
  | .add a b => do
      let x ← eval I st a
      let y ← eval I st b
      pure (Val.bin (fun p q => p + q) (some fun p q => p + q) x y)
  | .sub a b => do
      let x ← eval I st a
      let y ← eval I st b
      pure (Val.bin (fun p q => p - q) (some fun p q => p - q) x y)
  | .mul a b => do
      let x ← eval I st a
      let y ← eval I st b
      pure (Val.bin (fun p q => p * q) (some fun p q => p * q) x y)
  | .div a b => do
      let x ← eval I st a
      let y ← eval I st b
      pure (Val.bin (fun p q => p / q) none x y)
  | .sqrt a => (eval I st a).map (Val.map1 I.E.sqrt)
  | .gradient a => do
      let l ← (← eval I st a).toAr
      (FullModulus.gradient l).map .ar
  | .amin a => do
      let l ← (← eval I st a).toAr
      (V2P.listMin l).map .sc
  | .amax a => do
      let l ← (← eval I st a).toAr
      (V2P.listMax l).map .sc
  | .linspace a b n => do
      let x ← (← eval I st a).toSc
      let y ← (← eval I st b).toSc
      let k ← (← eval I st n).toNat
      pure (.ar (linspace x y k))
  | .index a k => do
      let l ← (← eval I st a).toAr
      (l[k]?).map .sc
  | .rev a => do
      let l ← (← eval I st a).toAr
      pure (.ar l.reverse)
  | .strain r a => do
      let v0 ← (← eval I st r).toSc
      let l ← (← eval I st a).toAr
      pure (.ar (l.map (I.E.strain v0)))
  | .lsq xs ys new ord => do
      let x ← (← eval I st xs).toAr
      let y ← (← eval I st ys).toAr
      let z ← (← eval I st new).toAr
      let k ← (← eval I st ord).toNat
      (I.fit x y z k).map .ar
  | .v2pRow0 x p pn => do
      let xs ← (← eval I st x).toAr
      let ps ← (← eval I st p).toAr
      let qs ← (← eval I st pn).toAr
      (v2pRow0 xs ps qs).map .ar
  | .spline x y z => do
      let xs ← (← eval I st x).toAr
      let ys ← (← eval I st y).toAr
      let zs ← (← eval I st z).toAr
      pure (.ar (I.E.spline xs ys zs))
  | .unit u a => do
      let f ← unitFactor I.U u
      (eval I st a).map (Val.map1 fun x => x * f)

def Atom.holds (I : Inp α) (st : St α) : Atom → Bool
  | .interpIs s => interpName I.o.interp == s
  | .input02 => I.d2.isSome
  | .cellmass => (truthy I.o.cellmass).isSome
  | .systemIsNone => I.o.system.isNone
  | .hasCol n => Static.hasCol st.df n
  | .deltaPSample => (truthy I.o.deltaPSample).isSome

def guardHolds (I : Inp α) (st : St α) (g : List (Bool × Atom)) : Bool :=
  g.all fun l => l.2.holds I st == l.1

/-- `key = "c%d%d" % tuple(sorted((i+keyOffset, j+keyOffset)))` for the 0-based loop indices -/
def asmName (sp : AsmSpec) (i j : Nat) : String :=
  let a := i + sp.keyOffset
  let b := j + sp.keyOffset
  if sp.sorted then "c" ++ toString (min a b) ++ toString (max a b) else "c" ++ toString a ++ toString b

/-- `cij[r]` after the loop: the column when the frame has it, else the 0 of `numpy.zeros` -/
def asmMat (sp : AsmSpec) (t : Table α) (r : Nat) : List (List α) :=
  (List.range sp.dim).map fun i => (List.range sp.dim).map fun j =>
    match getCol t (asmName sp i j) with
    | some col => col.getD r 0
    | none => 0

def execStmt (I : Inp α) (st : St α) : Stmt → Option (St α)
  | .readInput01 => some st
  | .readInput02 => some st
  | .frameFromInput01 cols =>
      if I.d1.volumes.length < I.d1.nv then none else
      (allSome (cols.map fun c => (attrOf c.2).map fun f => (c.1, (I.d1.volumes.take I.d1.nv).map f))).map
        fun t => { st with df := t, index := none }
  | .newFrame n => do
      let _ ← (← eval I st n).toNat
      pure { st with df := [], index := none }
  | .setLocal name e => do
      let v ← eval I st e
      pure { st with loc := (name, v) :: st.loc }
  | .setCol name e => do
      let l ← (← eval I st e).toAr
      pure { st with df := setCol st.df name l }
  | .fitLoop e => do
      let d ← I.d2
      let v0 ← d.volumes.head?
      let cols ← allSome (v0.moduli.map fun kv =>
        match ElastDat.canonName kv.1, keyValues d kv.1 with
        | some name, some vals =>
          ((eval I { st with keyVals := some vals } e).bind Val.toAr).map fun col => (name, col)
        | _, _ => none)
      pure { st with df := cols.foldl (fun t c => setCol t c.1 c.2) st.df }
  | .warn => some st
  | .fill =>
      match I.o.system with
      | some s => (I.E.fill s st.df).map fun t => { st with df := t }
      | none => none
  | .assemble sp =>
      let cs := (List.range (nRows st.df)).map (asmMat sp st.df)
      (I.E.inv6 cs).map fun ss => { st with cs := cs, ss := ss, view := sp.viewOffset }
  | .setColV name e => do
      let x ← ofVExpr e
      let l ← (← eval I st x).toAr
      pure { st with df := setCol st.df name l }
  | .sampleRound e => do
      let x ← (← eval I st e).toSc
      let step := I.E.round x
      if step = 0 then none else
      let idx := sliceIdx (nRows st.df) step
      pure { st with df := st.df.map fun c => (c.1, idx.map fun i => c.2.getD i 0), index := some idx }
  | .write => some { st with out := some ⟨st.index.getD (List.range (nRows st.df)), st.df⟩ }

def execStmts (I : Inp α) : List Stmt → St α → Option (St α)
  | [], st => some st
  | s :: r, st => (execStmt I st s).bind (execStmts I r)

def execBlock (I : Inp α) (st : St α) (b : Block) : Option (St α) :=
  if guardHolds I st b.guard then execStmts I b.body st else some st

def execBlocks (I : Inp α) : List Block → St α → Option (St α)
  | [], st => some st
  | b :: r, st => (execBlock I st b).bind (execBlocks I r)

/-- the whole command: what `main` writes to stdout -/
def run (I : Inp α) (prog : List Block) : Option (Out α) :=
  (execBlocks I prog {}).bind (·.out)

/-- a helper function applied to argument values (missing trailing arguments take their integer defaults) -/
def callFun (I : Inp α) (f : FunDef) (args : List (Val α)) : Option (Val α) :=
  let rec bind : List (String × PyLit) → List (Val α) → Option (List (String × Val α))
    | [], _ => some []
    | (n, _) :: ps, a :: as => (bind ps as).map ((n, a) :: ·)
    | (n, .int k) :: ps, [] => (bind ps []).map ((n, .nat k.toNat) :: ·)
    | _ :: _, [] => none
  (bind f.params args).bind fun loc => eval I { loc := loc } f.ret

end

end Cij.StaticSrc
