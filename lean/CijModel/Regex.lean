/-
  A tiny regular-expression subset, enough for the three patterns of `cij/io/traditional/{qha_input,elast_dat}.py`
  (`REGEX_INFO_START`, `REGEX_PVE`, `REGEX_MODULUS`), with Python's `re.search` semantics:

  * atoms: a literal character, `\d` `\D` `\s` `\S`; an atom may carry `+` or `*` (greedy, backtracking);
  * one level of capturing groups `( … )`; anchors `^` (start of the string) and `$` (end of the string, or just
    before a newline that ends the string — Python without `re.MULTILINE`);
  * `search` tries the start positions from left to right and returns the groups of the first match.

  A pattern is a flat instruction list (`Instr`).  `parse` reads the pattern TEXT (so the translator's AST is
  re-derived in Lean from the very characters of the source literal and compared by the kernel).
  Character classes are the ASCII part of Python's: `\d` = `0-9`, `\s` = code points 9–13 and 28–32 (what
  `str.isspace`, `str.split()` and `\s` agree on below 128).  Non-ASCII digits / spaces are outside the model.

  Second half: the regex-free recognisers the record-level model (`QhaInput.lean`, `ElastDat.lean`) uses at token
  level, written at CHARACTER level: `splitWs` (= `str.split()`), `recogModulus`, `recogInfo`, `recogPVE`.
  `CijProofs/Lemmas/Regex.lean` proves each recogniser equal to `search` of the corresponding pattern.
-/
namespace Cij.Regex

/-- `\s` / `str.isspace` on ASCII: TAB LF VT FF CR, FS GS RS US, SPACE -/
def isSp (c : Char) : Bool := (9 ≤ c.toNat && c.toNat ≤ 13) || (28 ≤ c.toNat && c.toNat ≤ 32)

inductive Cls where
  | digit | nonDigit | space | nonSpace
  | lit (c : Char)
  deriving DecidableEq, Repr

def Cls.test : Cls → Char → Bool
  | .digit, c => c.isDigit
  | .nonDigit, c => !c.isDigit
  | .space, c => isSp c
  | .nonSpace, c => !isSp c
  | .lit a, c => c == a

inductive Instr where
  | one (a : Cls)
  | star (a : Cls)
  | plus (a : Cls)
  | gopen
  | gclose
  | bos
  | eos
  deriving DecidableEq, Repr

/-! ### pattern text → instructions -/

def special : List Char := ['\\', '^', '$', '.', '|', '?', '*', '+', '(', ')', '[', ']', '{', '}']

def parseAtom : List Char → Option (Cls × List Char)
  | [] => none
  | '\\' :: r =>
    match r with
    | 'd' :: r' => some (.digit, r')
    | 'D' :: r' => some (.nonDigit, r')
    | 's' :: r' => some (.space, r')
    | 'S' :: r' => some (.nonSpace, r')
    | _ => none
  | c :: r => if special.contains c then none else some (.lit c, r)

/-- `fuel` bounds the recursion (the pattern length suffices); `g` = inside a group -/
def parseAux : Nat → Bool → List Char → Option (List Instr)
  | _, g, [] => if g then none else some []
  | 0, _, _ :: _ => none
  | n + 1, g, c :: r =>
    if c = '$' then (parseAux n g r).map (Instr.eos :: ·)
    else if c = '(' then (if g then none else (parseAux n true r).map (Instr.gopen :: ·))
    else if c = ')' then (if g then (parseAux n false r).map (Instr.gclose :: ·) else none)
    else match parseAtom (c :: r) with
      | none => none
      | some (a, rest) =>
        match rest with
        | '+' :: r' => (parseAux n g r').map (Instr.plus a :: ·)
        | '*' :: r' => (parseAux n g r').map (Instr.star a :: ·)
        | _ => (parseAux n g rest).map (Instr.one a :: ·)

/-- the pattern text as instructions; `none` = outside the subset.  `^` is accepted as the very first character only
(elsewhere it is in `special`, hence rejected). -/
def parse (cs : List Char) : Option (List Instr) :=
  match cs with
  | '^' :: r => (parseAux r.length false r).map (Instr.bos :: ·)
  | _ => parseAux cs.length false cs

/-! ### the matcher -/

structure Ctx where
  /-- content of the group that is open -/
  cur : Option (List Char)
  /-- closed groups, in order -/
  groups : List (List Char)
  deriving Repr

def Ctx.eat (x : Ctx) (c : Char) : Ctx := { x with cur := x.cur.map (· ++ [c]) }

def Ctx.eatAll (x : Ctx) (cs : List Char) : Ctx := cs.foldl Ctx.eat x

abbrev Groups := List (List Char)

/-- greedy repetition of a one-character test with backtracking: first one more character, then the continuation -/
def starLoop (t : Char → Bool) (kont : Ctx → List Char → Option Groups) : List Char → Ctx → Option Groups
  | [], x => kont x []
  | c :: r, x =>
    if t c then (starLoop t kont r (x.eat c)).orElse (fun _ => kont x (c :: r)) else kont x (c :: r)

/-- match the instruction list at the current point; the groups of the first (highest-priority) match.
`bos` is handled by `search` (it is the first instruction or nowhere, see `parse`); inside `run` it never matches. -/
def run : List Instr → Ctx → List Char → Option Groups
  | [], x, _ => some x.groups
  | .one a :: k, x, cs =>
    match cs with
    | c :: r => if a.test c then run k (x.eat c) r else none
    | [] => none
  | .star a :: k, x, cs => starLoop a.test (run k) cs x
  | .plus a :: k, x, cs =>
    match cs with
    | c :: r => if a.test c then starLoop a.test (run k) r (x.eat c) else none
    | [] => none
  | .gopen :: k, x, cs => run k { x with cur := some [] } cs
  | .gclose :: k, x, cs => run k { x with cur := none, groups := x.groups ++ [x.cur.getD []] } cs
  | .bos :: _, _, _ => none
  | .eos :: k, x, cs => if cs = [] ∨ cs = ['\n'] then run k x cs else none

def start : Ctx := ⟨none, []⟩

/-- leftmost start position, from the current one on -/
def searchFrom (p : List Instr) : List Char → Option Groups
  | [] => run p start []
  | c :: r => (run p start (c :: r)).orElse fun _ => searchFrom p r

/-- `re.search`: a pattern anchored with `^` is tried at the start of the string only, any other at every start
position from left to right -/
def search : List Instr → List Char → Option Groups
  | .bos :: k, cs => run k start cs
  | p, cs => searchFrom p cs

/-- `re.search(pattern_text, s)` → `None` / `.groups()`; `none` at the outer level = pattern outside the subset -/
def searchText (pat s : List Char) : Option (Option Groups) := (parse pat).map fun p => search p s

/-! ### regex-free recognisers (character level) -/

/-- `str.split()` with the current token as accumulator -/
def splitAux : List Char → List Char → List (List Char)
  | [], cur => if cur.isEmpty then [] else [cur]
  | c :: r, cur =>
    if isSp c then (if cur.isEmpty then splitAux r [] else cur :: splitAux r [])
    else splitAux r (cur ++ [c])

/-- `s.split()` -/
def splitWs (cs : List Char) : List (List Char) := splitAux cs []

/-- `s.strip() == s` -/
def Stripped (cs : List Char) : Prop := (∀ c, cs.head? = some c → isSp c = false) ∧ (∀ c, cs.getLast? = some c → isSp c = false)

/-- `^\D*(\d+)$` : the part after the leading non-digits is a non-empty digit run -/
def recogModulus (cs : List Char) : Option Groups :=
  let suf := cs.dropWhile (fun c => !c.isDigit)
  if !suf.isEmpty && suf.all Char.isDigit then some [suf] else none

/-- five `\d+` groups separated by `\s+`, anchored: exactly five tokens, all digits (on a stripped line) -/
def recogInfo (cs : List Char) : Option Groups :=
  let ts := splitWs cs
  if ts.length == 5 && ts.all (fun t => t.all Char.isDigit) then some ts else none

/-- a token ending in `X=` (X any non-space character) -/
def isLabel1c (t : List Char) : Bool :=
  match t.reverse with
  | '=' :: _ :: _ => true
  | _ => false

/-- the token is exactly `X=` -/
def isLabel2c (t : List Char) : Bool :=
  match t with
  | [_, '='] => true
  | _ => false

/-- `\S=\s+(\S+)\s+\S=\s+(\S+)\s+\S=\s+(\S+)` searched in a line, at token level: the leftmost token ending in `X=`
that is followed by value, `Y=`, value, `Z=`, value -/
def matchPVEc : List (List Char) → Option Groups
  | [] => none
  | l1 :: tl =>
    match tl with
    | a :: l2 :: b :: l3 :: c :: _ =>
        if isLabel1c l1 && isLabel2c l2 && isLabel2c l3 then some [a, b, c] else matchPVEc tl
    | _ => none

def recogPVE (cs : List Char) : Option Groups := matchPVEc (splitWs cs)

end Cij.Regex
