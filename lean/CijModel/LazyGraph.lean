/-
  The property graph of the three phonon-contribution classes (`Generated.lazyDeps*`, re-translated from
  nonshear.py / shear.py on every run) as a `Cij.Memo` program.  No Mathlib.

  A row is `(name, isLazy, reads)`:
  * a `@LazyProperty` is cached by `lazy_property.LazyProperty.__get__` in the instance attribute `_<name>` after its
    body has run: body = read each property the method reads (in source order), then compute — `chain`;
  * a plain `@property` is NOT cached: wherever it is read its own reads happen again — it is *inlined*
    (`inlineReads`), also when it is the property the user asks for (`expandOp`);
  * ordinary attributes (`self.e`, `self.calculator`, `self.modulus`, `self.key`, `self.strain`) are the INPUTS
    of the object: they are not nodes of the graph, the value functions `f` close over them.
-/
import CijModel.Memo

namespace Cij.LazyGraph
open Cij.Memo

abbrev Row := String × Bool × List String
abbrev Tab := List Row

/-- the row of a property (first match, as Python's MRO-resolved class namespace has one entry per name) -/
def lookup (tab : Tab) (n : String) : Option (Bool × List String) :=
  (tab.find? (fun r => r.1 == n)).map (·.2)

/-- the cached properties that reading `n` reads: `[n]` when `n` is lazy, the reads of its body (recursively) when it
is a plain property.  `fuel` bounds the nesting of plain properties (`tab.length` is enough for an acyclic table). -/
def inlineReads (tab : Tab) : Nat → String → List String
  | 0, _ => []
  | fuel + 1, n =>
    match lookup tab n with
    | some (true, _) => [n]
    | some (false, deps) => deps.flatMap (inlineReads tab fuel)
    | none => []

/-- the reads of the body of a lazy property, plain properties inlined -/
def lazyDeps (tab : Tab) (n : String) : List String :=
  match lookup tab n with
  | some (true, deps) => deps.flatMap (inlineReads tab tab.length)
  | _ => []

/-- what the interpreter does for `obj.<n>` in terms of reads of cached properties -/
def expandOp (tab : Tab) (n : String) : List String := inlineReads tab (tab.length + 1) n

/-- `read d₁; read d₂; …; return f [v₁, v₂, …]` -/
def chain {ν β : Type} (f : List β → β) : List ν → List β → Body ν β
  | [], acc => .ret (f acc.reverse)
  | d :: ds, acc => .read d fun v => chain f ds (v :: acc)

/-- the bodies: `f n` computes the value of the lazy property `n` from the values of the properties it reads
(and from the object's inputs, over which `f` is closed) -/
def defsOf {β : Type} (tab : Tab) (f : String → List β → β) (n : String) : Body String β :=
  chain (f n) (lazyDeps tab n) []

/-- depth of a lazy property in the graph (0 for anything that is not a lazy property of the table) -/
def rankFuel (tab : Tab) : Nat → String → Nat
  | 0, _ => 0
  | fuel + 1, n =>
    match lookup tab n with
    | some (true, _) => 1 + ((lazyDeps tab n).map (rankFuel tab fuel)).foldl max 0
    | _ => 0

def rank (tab : Tab) (n : String) : Nat := rankFuel tab tab.length n

/-- the certificate checked by the kernel on the translated tables: every lazy property only reads lazy properties
of strictly smaller rank (so the graph is acyclic) and ranks stay below the fuel used -/
def ranked (tab : Tab) : Bool :=
  tab.all fun r =>
    (rank tab r.1 ≤ tab.length) &&
    (lazyDeps tab r.1).all fun d => rank tab d < rank tab r.1

def fuelOf (tab : Tab) : Nat := tab.length + 1

/-- insertion into a sorted list without duplicates (structural recursion: the kernel can evaluate it) -/
def insertName (n : String) : List String → List String
  | [] => [n]
  | m :: r => if n < m then n :: m :: r else if n = m then m :: r else m :: insertName n r

/-- names of the cached entries of a memo table, sorted (code-point order, as Python's `sorted`), without duplicates -/
def cachedNames {β : Type} (t : Table String β) : List String := (t.map (·.1)).foldr insertName []

/-- run the ops one after the other on ONE object, starting from the table `t`; after every op the sorted list of the
cached property names (`none` = the model ran out of fuel: a cyclic table) -/
def cacheStates {β : Type} (tab : Tab) (f : String → List β → β) : List String → Table String β → List (Option (List String))
  | [], _ => []
  | op :: ops, t =>
    match history (defsOf tab f) (fuelOf tab) (expandOp tab op) t with
    | some (_, t') => some (cachedNames t') :: cacheStates tab f ops t'
    | none => [none]

/-- the same for several objects (object `i` is of the class with table `tabs i`), ops interleaved in any way, through
`Memo.historyMulti`: after every op the cache state of the object it touched -/
def multiStates {β : Type} (tabs : Nat → Tab) (f : Nat → String → List β → β) (fuel : Nat) :
    List (Nat × String) → (Nat → Table String β) → List (Option (List String))
  | [], _ => []
  | (i, op) :: ops, ts =>
    match historyMulti (fun j => defsOf (tabs j) (f j)) fuel ((expandOp (tabs i) op).map fun d => (i, d)) ts with
    | some (_, ts') => some (cachedNames (ts' i)) :: multiStates tabs f fuel ops ts'
    | none => [none]

end Cij.LazyGraph
