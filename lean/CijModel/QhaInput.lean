/-
  Model of `cij/io/traditional/qha_input.py` (read_energy / write_energy) at record / line level.

  * A file is a `List Line`; a `Line` is the list of whitespace-separated tokens of one text line
    (`line.strip().split()`), so a blank line is `[]`.  Character-level lexing (`strip`, `split`, the
    regex engine, `printf`, `float()`) is OUTSIDE the model: numbers are an abstract type `Num` with a
    formatter / parser pair `NumFmt` and the law `parse (fmt k x) = some (round k x)`.
  * The driver instantiates `Num := Rat` with exact decimal formatting (`Lex.ratFmt`): Python's `%`-formatting
    prints the correctly rounded (half-even) decimal of the exact binary value, `float()` reads a decimal
    correctly rounded — so on the wire the model is exact and the real tokens can be compared literally.
  * Every Python exception (StopIteration→RuntimeError, ValueError, IndexError, AttributeError on a failed
    regex, UnboundLocalError when no header line exists, TypeError in `%`) is the single outcome `none`.
-/
namespace Cij

abbrev Token := String
abbrev Line := List Token

/-- number formatting / parsing as seen by the record-level model.
`fmt k x` is `"%w.{k}f" % x` without its padding, `parse` is Python's `float(token)`,
`round k` is what survives printing with `k` decimals. -/
structure NumFmt (Num : Type) where
  fmt : Nat → Num → Token
  parse : Token → Option Num
  round : Nat → Num → Num

/-- the law connecting the three (an assumption of the theorems; tested for the driver's instance) -/
def NumFmt.Lawful {Num} (F : NumFmt Num) : Prop := ∀ k x, F.parse (F.fmt k x) = some (F.round k x)

namespace Lex

/-- `(\d+)` + `int()` : a non-empty run of ASCII digits. -/
def parseNat (t : Token) : Option Nat :=
  if t.toList.all Char.isDigit && !t.toList.isEmpty then some (Nat.ofDigitChars 10 t.toList 0) else none

/-- `int(token)` for the forms the files contain: optional sign, digits. -/
def parseInt (t : Token) : Option Int :=
  match t.toList with
  | '-' :: cs => (parseNat (String.ofList cs)).map fun n => -(Int.ofNat n)
  | '+' :: cs => (parseNat (String.ofList cs)).map Int.ofNat
  | _ => (parseNat t).map Int.ofNat

/-- `"%4d" % n` without padding, for a count. -/
def fmtNat (n : Nat) : Token := toString n

/-! #### exact decimal arithmetic over `Rat` (driver instance) -/

/-- round half to even of a rational to an integer -/
def roundHalfEven (x : Rat) : Int :=
  let f := x.floor
  let r := x - (f : Rat)
  if r < (1 : Rat) / 2 then f
  else if (1 : Rat) / 2 < r then f + 1
  else if f % 2 == 0 then f else f + 1

def pow10 (k : Nat) : Nat := 10 ^ k

/-- what survives `"%.{k}f"`: the nearest multiple of 10^-k (ties to even, as glibc / CPython do on the exact binary value) -/
def ratRound (k : Nat) (x : Rat) : Rat := mkRat (roundHalfEven (x * (pow10 k : Nat))) (pow10 k)

def padLeft (n : Nat) (c : Char) (cs : List Char) : List Char := List.replicate (n - cs.length) c ++ cs

/-- `"%.{k}f" % x` for the exact value `x` (sign printed from the value itself, so a tiny negative number gives "-0.000000") -/
def ratFmtStr (k : Nat) (x : Rat) : Token :=
  let n := roundHalfEven (x * (pow10 k : Nat))
  let a := n.natAbs
  let ip := a / pow10 k
  let fp := a % pow10 k
  let sign := if x < 0 then "-" else ""
  if k == 0 then sign ++ toString ip
  else sign ++ toString ip ++ "." ++ String.ofList (padLeft k '0' (toString fp).toList)

def digitVal (c : Char) : Nat := c.toNat - '0'.toNat

def digitsVal (cs : List Char) : Nat := cs.foldl (fun a c => 10 * a + digitVal c) 0

/-- `float(token)` on the decimal grammar  [+-] digits [. digits] [ (e|E) [+-] digits ]  (at least one mantissa digit);
anything else (including Python's "nan", "inf", "1_0") is rejected — the harness never sends those. -/
def ratParseChars (cs : List Char) : Option Rat :=
  let (neg, cs) := match cs with
    | '-' :: r => (true, r)
    | '+' :: r => (false, r)
    | r => (false, r)
  let ip := cs.takeWhile Char.isDigit
  let r1 := cs.dropWhile Char.isDigit
  let (fp, r2) := match r1 with
    | '.' :: r => (r.takeWhile Char.isDigit, r.dropWhile Char.isDigit)
    | r => ([], r)
  if ip.isEmpty && fp.isEmpty then none else
  let mant : Rat := mkRat (Int.ofNat (digitsVal (ip ++ fp))) (pow10 fp.length)
  let mant := if neg then -mant else mant
  match r2 with
  | [] => some mant
  | e :: r =>
    if e == 'e' || e == 'E' then
      let (eneg, ds) := match r with
        | '-' :: d => (true, d)
        | '+' :: d => (false, d)
        | d => (false, d)
      if ds.isEmpty || !ds.all Char.isDigit then none
      else
        let ex := digitsVal ds
        some (if eneg then mant / ((pow10 ex : Nat) : Rat) else mant * ((pow10 ex : Nat) : Rat))
    else none

def ratParse (t : Token) : Option Rat := ratParseChars t.toList

def ratFmt : NumFmt Rat := { fmt := ratFmtStr, parse := ratParse, round := ratRound }

end Lex

namespace QhaInput

/-- `QPointData(coord, modes)` -/
structure QPointData (Num : Type) where
  coord : List Num
  modes : List Num
  deriving Repr, DecidableEq

/-- `VolumeData(pressure, volume, energy, q_points)` -/
structure VolumeData (Num : Type) where
  pressure : Num
  volume : Num
  energy : Num
  qPoints : List (QPointData Num)
  deriving Repr, DecidableEq

/-- `QPointWeight(coord, weight)` -/
structure QPointWeight (Num : Type) where
  coord : List Num
  weight : Num
  deriving Repr, DecidableEq

/-- `QHAInputData(nv, nq, np, nm, na, weights, volumes)` -/
structure Data (Num : Type) where
  nv : Nat
  nq : Nat
  np : Nat
  nm : Nat
  na : Nat
  weights : List (QPointWeight Num)
  volumes : List (VolumeData Num)
  deriving Repr, DecidableEq

variable {Num : Type}

/-! ### read_energy -/

/-- `REGEX_INFO_START = ^(\d+)\s+(\d+)\s+(\d+)\s+(\d+)\s+(\d+)$` on the stripped line: exactly five digit tokens. -/
def matchInfo (l : Line) : Option (Nat × Nat × Nat × Nat × Nat) :=
  match l with
  | [a, b, c, d, e] => do
      let a ← Lex.parseNat a
      let b ← Lex.parseNat b
      let c ← Lex.parseNat c
      let d ← Lex.parseNat d
      let e ← Lex.parseNat e
      pure (a, b, c, d, e)
  | _ => none

/-- `for line in fp: res = re.search(REGEX_INFO_START, line.strip()); if res: ...; break` —
the first matching line; the iterator stays positioned after it.  No match: `nv` is unbound → error. -/
def findInfo : List Line → Option ((Nat × Nat × Nat × Nat × Nat) × List Line)
  | [] => none
  | l :: rest => match matchInfo l with
    | some r => some (r, rest)
    | none => findInfo rest

/-- first label of `REGEX_PVE = \S=\s+(\S+)\s+\S=\s+(\S+)\s+\S=\s+(\S+)`: a token ending in `X=` -/
def isLabel1 (t : Token) : Bool :=
  match t.toList.reverse with
  | '=' :: _ :: _ => true
  | _ => false

/-- second and third label: the token is exactly `X=` (the regex has `\s+` on both sides of `\S=`) -/
def isLabel2 (t : Token) : Bool :=
  match t.toList with
  | [_, '='] => true
  | _ => false

/-- `re.search(REGEX_PVE, line)` at token level: leftmost position where label, value, label, value, label, value follow. -/
def matchPVE : Line → Option (Token × Token × Token)
  | [] => none
  | l1 :: tl =>
    match tl with
    | a :: l2 :: b :: l3 :: c :: _ =>
        if isLabel1 l1 && isLabel2 l2 && isLabel2 l3 then some (a, b, c) else matchPVE tl
    | _ => none

/-- `_yield_mode_data`: `np` times `float(next(lines))` — the whole line must be one number. -/
def readModes (F : NumFmt Num) : Nat → List Line → Option (List Num × List Line)
  | 0, ls => some ([], ls)
  | n + 1, [t] :: ls => do
      let x ← F.parse t
      let (xs, r) ← readModes F n ls
      pure (x :: xs, r)
  | _ + 1, _ => none

/-- `_yield_q_point_data`: `nq` times (coordinate line of any length, then `np` mode lines). -/
def readQPoints (F : NumFmt Num) (np : Nat) : Nat → List Line → Option (List (QPointData Num) × List Line)
  | 0, ls => some ([], ls)
  | n + 1, l :: ls => do
      let coord ← l.mapM F.parse
      let (modes, r) ← readModes F np ls
      let (qs, r') ← readQPoints F np n r
      pure (⟨coord, modes⟩ :: qs, r')
  | _ + 1, [] => none

/-- `while True: line = next(lines); if line.strip() == "": continue; break` -/
def skipBlank : List Line → List Line
  | [] :: ls => skipBlank ls
  | ls => ls

/-- `_yield_volume_data`: `nv` times (skip blank lines, P/V/E line, q-point blocks). -/
def readVolumes (F : NumFmt Num) (nq np : Nat) : Nat → List Line → Option (List (VolumeData Num) × List Line)
  | 0, ls => some ([], ls)
  | n + 1, ls =>
    match skipBlank ls with
    | [] => none
    | l :: rest => do
        let (p, v, e) ← matchPVE l
        let p ← F.parse p
        let v ← F.parse v
        let e ← F.parse e
        let (qs, r) ← readQPoints F np nq rest
        let (vs, r') ← readVolumes F nq np n r
        pure (⟨p, v, e, qs⟩ :: vs, r')

/-- `for line in fp: if line.strip() in ["weight", "weights"]: break` — lines after the marker (nothing if absent). -/
def scanWeight : List Line → List Line
  | [] => []
  | l :: ls => if l = ["weight"] ∨ l = ["weights"] then ls else scanWeight ls

/-- `_read_weights`: `nq` lines; `words[0:3]` are the coordinate, `words[3]` the weight (further words ignored). -/
def readWeights (F : NumFmt Num) : Nat → List Line → Option (List (QPointWeight Num))
  | 0, _ => some []
  | n + 1, l :: ls => do
      let w ← l[3]?
      let coord ← (l.take 3).mapM F.parse
      let w ← F.parse w
      let ws ← readWeights F n ls
      pure (⟨coord, w⟩ :: ws)
  | _ + 1, [] => none

/-- `read_energy` -/
def readEnergy (F : NumFmt Num) (file : List Line) : Option (Data Num) := do
  let ((nv, nq, np, nm, na), rest) ← findInfo file
  let (vols, rest) ← readVolumes F nq np nv rest
  let ws ← readWeights F nq (scanWeight rest)
  pure { nv, nq, np, nm, na, weights := ws, volumes := vols }

/-! ### write_energy -/

def modeLine (F : NumFmt Num) (m : Num) : Line := [F.fmt 6 m]                       -- f"{cm_1:12.6f}"
def coordLine (F : NumFmt Num) (c : List Num) : Line := c.map (F.fmt 4)              -- " ".join("%10.4f" % c ...)
def pveLine (F : NumFmt Num) (p v e : Num) : Line :=                                 -- f"P= {p:12.6f} V= {v:12.6f} E= {e:12.6f}"
  ["P=", F.fmt 6 p, "V=", F.fmt 6 v, "E=", F.fmt 6 e]

def qPointLines (F : NumFmt Num) (q : QPointData Num) : List Line :=
  coordLine F q.coord :: q.modes.map (modeLine F)

def volumeLines (F : NumFmt Num) (v : VolumeData Num) : List Line :=
  pveLine F v.pressure v.volume v.energy :: v.qPoints.flatMap (qPointLines F)

/-- `"%10.6f %10.6f %10.6f %10.6f" % (*coords, weight)` — exactly four arguments, else TypeError -/
def weightLine (F : NumFmt Num) (w : QPointWeight Num) : Option Line :=
  match w.coord with
  | [a, b, c] => some [F.fmt 6 a, F.fmt 6 b, F.fmt 6 c, F.fmt 6 w.weight]
  | _ => none

def headerNames : Line := ["nv", "nq", "np", "nm", "na"]

def infoLine (d : Data Num) : Line :=
  [Lex.fmtNat d.nv, Lex.fmtNat d.nq, Lex.fmtNat d.np, Lex.fmtNat d.nm, Lex.fmtNat d.na]

/-- `write_energy(fname, input_data, comment)`: the exact sequence of lines it emits. -/
def writeEnergy (F : NumFmt Num) (d : Data Num) (comment : Line := ["QHA", "Input", "data"]) : Option (List Line) := do
  let ws ← d.weights.mapM (weightLine F)
  pure ([comment, [], headerNames, infoLine d, []]
        ++ d.volumes.flatMap (volumeLines F)
        ++ [[], ["weight"]]
        ++ ws)

/-! ### what the round trip preserves -/

def roundQPoint (F : NumFmt Num) (q : QPointData Num) : QPointData Num :=
  ⟨q.coord.map (F.round 4), q.modes.map (F.round 6)⟩

def roundVolume (F : NumFmt Num) (v : VolumeData Num) : VolumeData Num :=
  ⟨F.round 6 v.pressure, F.round 6 v.volume, F.round 6 v.energy, v.qPoints.map (roundQPoint F)⟩

def roundWeight (F : NumFmt Num) (w : QPointWeight Num) : QPointWeight Num :=
  ⟨w.coord.map (F.round 6), F.round 6 w.weight⟩

/-- the data set as it survives printing: every number rounded to its printed precision, everything else untouched -/
def roundAll (F : NumFmt Num) (d : Data Num) : Data Num :=
  { d with weights := d.weights.map (roundWeight F), volumes := d.volumes.map (roundVolume F) }

/-- declared counts = list lengths (the data sets the property quantifies over) -/
structure WellFormed (d : Data Num) : Prop where
  nv_eq : d.volumes.length = d.nv
  nq_eq : ∀ v ∈ d.volumes, v.qPoints.length = d.nq
  np_eq : ∀ v ∈ d.volumes, ∀ q ∈ v.qPoints, q.modes.length = d.np
  nw_eq : d.weights.length = d.nq
  w3 : ∀ w ∈ d.weights, w.coord.length = 3

end QhaInput
end Cij
