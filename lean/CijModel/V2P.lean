/-
  C06 — model of the (T,V) → (T,P) conversion used by cij.

  Mirrors, function by function,
    * qha/v2p.py            `_lagrange4` (l. 36-59), `v2p` (l. 62-105)
    * qha/tools.py          `vectorized_find_nearest` (l. 29-62)   [bisection, incl. its (dead) clamping]
    * qha/tools.py          `arange` (l. 65-74),  qha/calculator.py `desired_pressures_gpa` (l. 266-269)
    * cij/core/qha_adapter.py  `QHACalculator.desired_pressure_status` (l. 39-60)  [cij's override]
    * cij/core/calculator.py   `CijPressureBaseInterface.v2p` (l. 371-380), `__getattr__` (l. 514-517),
                               the named properties (l. 396-512), `CijPressureBaseModulusInterface` (l. 347-358)
    * cij/core/qha_adapter.py  `QHAVolumeBaseInterface.pressures`, `QHAPressureBaseInterface.{p_array,volumes}`
    * qha/thermodynamics.py    `volume` (l. 111-122)

  No Mathlib.  Polymorphic in the scalar `α`: run at `Float` by the driver, stated over a field in
  `CijProofs/Properties/C06.lean`.
-/
namespace Cij.V2P

/-- Python exceptions that the modelled code can raise. -/
inductive Err where
  | valueError | indexError | attributeError
  deriving Repr, DecidableEq, Inhabited

def Err.tag : Err → String
  | .valueError => "error:ValueError"
  | .indexError => "error:IndexError"
  | .attributeError => "error:AttributeError"

section
variable {α : Type} [Add α] [Sub α] [Mul α] [Div α] [OfNat α 0]

/-- `l[i]` for an index known to be in range in the Python code (default 0 otherwise; every use below is
    guarded by an explicit length test that reproduces Python's IndexError / unpacking ValueError). -/
def nth (l : List α) (i : Nat) : α := l.getD i 0

/-- qha/v2p.py `_lagrange4`: cubic Lagrange polynomial through (x0,y0)…(x3,y3) evaluated at x.
    The operation order is the one of the Python source. -/
def lagrange4 (x x0 x1 x2 x3 y0 y1 y2 y3 : α) : α :=
  (x - x1) * (x - x2) * (x - x3) / (x0 - x1) / (x0 - x2) / (x0 - x3) * y0
  + (x - x0) * (x - x2) * (x - x3) / (x1 - x0) / (x1 - x2) / (x1 - x3) * y1
  + (x - x0) * (x - x1) * (x - x3) / (x2 - x0) / (x2 - x1) / (x2 - x3) * y2
  + (x - x0) * (x - x1) * (x - x2) / (x3 - x0) / (x3 - x1) / (x3 - x2) * y3

variable [LE α] [DecidableLE α]

/-- the `while j_up - j_low > 1` loop of `vectorized_find_nearest`:
    `j_mid = (j_up + j_low) // 2; if value >= array[j_mid]: j_low = j_mid else: j_up = j_mid`. -/
def bisect (a : List α) (v : α) (lo up : Nat) : Nat :=
  if up - lo > 1 then
    let mid := (up + lo) / 2
    if v ≥ nth a mid then bisect a v mid up else bisect a v lo mid
  else lo
termination_by up - lo
decreasing_by all_goals omega

/-- the clamping statements executed before the loop
    (`if value <= array[0]: result = 0  elif value >= array[-1]: result = n - 2`); the result buffer is
    initialised with zeros by the caller (`rs = np.zeros(...)`). -/
def clamp (a : List α) (v : α) : Nat :=
  if v ≤ nth a 0 then 0 else if v ≥ nth a (a.length - 1) then a.length - 2 else 0

/-- `vectorized_find_nearest` for one value.  The code that exists assigns the clamped index and then
    *unconditionally* runs the bisection and overwrites it with `j_low` (tools.py l. 47-62), so the returned
    index is the bisection's; `clamp` is kept to state (C06 lemmas) that it agrees with the loop at both ends. -/
def findNearest (a : List α) (v : α) : Nat :=
  let _clamped := clamp a v
  bisect a v 0 (a.length - 1)

/-- `np.hstack((x[:, 3], x, x[:, -4]))` for one row (needs ≥ 4 columns, checked by the caller). -/
def extend (row : List α) : List α := nth row 3 :: (row ++ [nth row (row.length - 4)])

/-- one `(i, j)` iteration of `v2p`: index `k`, the slices `extended_p[i, k-1:k+3]`, `extended_f[i, k-1:k+3]`
    unpacked into four names each (a slice of any other length raises ValueError; `k = 0` gives the empty slice
    `[-1:2]`), then `_lagrange4`. -/
def v2pPoint (ef ep : List α) (x : α) : Except Err α :=
  let k := findNearest ep x
  if 1 ≤ k ∧ k + 3 ≤ ep.length ∧ k + 3 ≤ ef.length then
    .ok (lagrange4 x (nth ep (k - 1)) (nth ep k) (nth ep (k + 1)) (nth ep (k + 2))
                     (nth ef (k - 1)) (nth ef k) (nth ef (k + 1)) (nth ef (k + 2)))
  else .error .valueError

/-- one isotherm of `v2p` -/
def v2pRow (f p desired : List α) : Except Err (List α) :=
  if f.length < 4 ∨ p.length < 4 then .error .indexError
  else desired.mapM (v2pPoint (extend f) (extend p))

/-- qha/v2p.py `v2p(func_of_t_v, p_of_t_v, desired_pressures)`; the row count is that of `func_of_t_v`. -/
def v2p (f p : List (List α)) (desired : List α) : Except Err (List (List α)) :=
  if p.length < f.length then .error .indexError
  else (f.zip p).mapM fun fp => v2pRow fp.1 fp.2 desired

end

/-! ### requested pressure grid and cij's range check -/
section
variable {α : Type} [Add α] [Mul α] [OfNat α 0] [NatCast α]

/-- qha `arange(P_MIN, NTV, DELTA_P)` = `[P_MIN + DELTA_P * n for n in range(NTV)]` (GPa). -/
def desiredPressuresGpa (pMin dP : α) (ntv : Nat) : List α :=
  (List.range ntv).map fun (n : Nat) => pMin + dP * (Nat.cast n : α)

end

section
variable {α : Type} [OfNat α 0] [LT α] [DecidableLT α]

/-- `numpy.ndarray.min()` of a 1-d array (`none` = empty: numpy raises ValueError). -/
def listMin : List α → Option α
  | [] => none
  | x :: xs => some (xs.foldl (fun m y => if y < m then y else m) x)

/-- `numpy.ndarray.max()` -/
def listMax : List α → Option α
  | [] => none
  | x :: xs => some (xs.foldl (fun m y => if m < y then y else m) x)

/-- `p_tv_gpa[:, -1]` -/
def lastColumn (m : List (List α)) : List α := m.map fun row => row.getLastD 0

/-- cij/core/qha_adapter.py `QHACalculator.desired_pressure_status`:
    `if self.p_tv_gpa[:, -1].min() < self.desired_pressures_gpa.max(): raise ValueError`. -/
def desiredPressureStatus (pTvGpa : List (List α)) (desiredGpa : List α) : Except Err Unit :=
  if pTvGpa.any (fun r => r.isEmpty) then .error .indexError else
  match listMin (lastColumn pTvGpa), listMax desiredGpa with
  | some lo, some hi => if lo < hi then .error .valueError else .ok ()
  | _, _ => .error .valueError

end

/-! ### cij's wiring: which pressure field and which target grid every pressure-base quantity uses -/
section
variable {α : Type} [Add α] [Sub α] [Mul α] [Div α] [OfNat α 0] [LE α] [DecidableLE α]

/-- what cij reads from the qha layer (qha_adapter.py) -/
structure Qha (α : Type) where
  /-- `QHAVolumeBaseInterface.v_array` = `finer_volumes_bohr3` -/
  vArray : List α
  /-- `QHAVolumeBaseInterface.pressures` = `p_tv_au` (Ry/bohr³) -/
  pressuresAu : List (List α)
  /-- `QHAPressureBaseInterface.p_array` = `desired_pressures` (Ry/bohr³) -/
  pArrayAu : List α

/-- `CijPressureBaseInterface.v2p` (calculator.py l. 380):
    `v2p(func_of_t_v, self.calculator.qha_calculator.volume_base.pressures, self.p_array)` -/
def cijV2p (q : Qha α) (f : List (List α)) : Except Err (List (List α)) :=
  v2p f q.pressuresAu q.pArrayAu

/-- `QHAPressureBaseInterface.volumes` = `v_tp_bohr3` = qha `volume(vs, desired_ps, ps)`:
    the volume vector repeated for every temperature row of `ps`, through the same `v2p`. -/
def volumesTp (q : Qha α) : Except Err (List (List α)) :=
  v2p (q.pressuresAu.map fun _ => q.vArray) q.pressuresAu q.pArrayAu

/-- The named properties of `CijPressureBaseInterface` that convert a volume-base array:
    (pressure-base attribute, volume-base attribute it passes to `self.v2p`). -/
def namedProperties : List (String × String) := [
  ("bulk_modulus_voigt", "bulk_modulus_voigt"),
  ("bulk_modulus_reuss", "bulk_modulus_reuss"),
  ("bulk_modulus_voigt_reuss_hill", "bulk_modulus_voigt_reuss_hill"),
  ("shear_modulus_voigt", "shear_modulus_voigt"),
  ("shear_modulus_reuss", "shear_modulus_reuss"),
  ("shear_modulus_voigt_reuss_hill", "shear_modulus_voigt_reuss_hill"),
  ("primary_velocities", "primary_velocities"),
  ("secondary_velocities", "secondary_velocities")]

/-- the volume-base attribute that `pressure_base.<name>` passes to `self.v2p` -/
def sourceAttribute (name : String) : String :=
  match namedProperties.lookup name with
  | some s => s
  | none => name

/-- attribute access `calculator.pressure_base.<name>` for array-valued quantities.
    `volumeBase name` is `getattr(calculator.volume_base, name)` (none = AttributeError).
    * `volumes` is a named property that does not go through `volume_base`;
    * the eight named properties pass the volume-base attribute listed in `namedProperties`;
    * every other name falls to `__getattr__` (l. 514-517): `self.v2p(getattr(volume_base, name))`. -/
def pressureBase (q : Qha α) (volumeBase : String → Option (List (List α))) (name : String) :
    Except Err (List (List α)) :=
  if name == "volumes" then volumesTp q
  else
    match volumeBase (sourceAttribute name) with
    | some f => cijV2p q f
    | none => .error .attributeError

/-- `pressure_base.modulus_adiabatic[key]` / `modulus_isothermal[key]`
    (`CijPressureBaseModulusInterface.__getitem__`): `self.v2p(self.modulus[key])`; a missing key is a KeyError,
    reported with the same tag as a missing attribute. -/
def pressureBaseModulus (q : Qha α) (modulus : String → Option (List (List α))) (key : String) :
    Except Err (List (List α)) :=
  match modulus key with
  | some f => cijV2p q f
  | none => .error .attributeError

end

end Cij.V2P
