/-
  C16 — the target language of the AST→Lean printer `tools/gens/config_src.py`.

  `lean/Generated/ConfigSrc.lean` is PRINTED from the abstract syntax of `cij/io/config/config.py`
  (`update_config`, `apply_default_config`, `read_config`) and `cij/io/config/validate.py` (`validate_config`) on
  every run.  Each Python construct the printer understands is printed as one of the combinators below, so the
  printed definition has the control structure of the Python function (which test comes first, which dictionary
  supplies the value in which branch, what the recursive call receives); `CijProofs/Lemmas/ConfigSource.lean` then
  proves that the printed definitions are the hand-written model (`Config.updateConfig`, …) for ALL inputs.

  What is trusted here (and tied to the code by the correspondence run, as before): that these combinators say
  what the Python constructs mean — `d[k]` raises KeyError on an absent key, `and` evaluates its right operand only
  when the left one is true, a `for` loop that stores `out[k] = …` once per iteration into a dict created as `{}`
  builds that dict, `.keys()` of a non-dict raises AttributeError.  A dict is an association list (`Config.KV`),
  iteration over the `set` is the order parameter `ord` (arbitrary, as in the hand model).

  No Mathlib.
-/
import CijModel.Config

namespace Cij.ConfigPy
open Cij Cij.Config

/-- `d[k]` on a dict (KeyError when the key is absent) -/
def getItem (d : KV) (k : String) : Except Err J :=
  match lookup k d with
  | some v => .ok v
  | none => .error .keyError

/-- `k in d.keys()` -/
def inKeys (k : String) (d : KV) : Bool := hasKey k d

/-- `isinstance(x, dict)` -/
def isDict (x : J) : Bool := isObj x

/-- `set([*a.keys(), *b.keys()])`, iterated in the order chosen by `ord` -/
def keySet (ord : List String → List String) (a b : KV) : List String := ord (keyUnion a b)

/-- `out = {}` … `for k in ks: out[k] = f(k)` … `return out` (the first exception aborts; `out` is a NEW dict) -/
def forAssign (ks : List String) (f : String → Except Err J) : Except Err J :=
  match loop f ks with
  | .ok r => .ok (.obj r)
  | .error e => .error e

/-- a test that cannot raise -/
def pyTest (b : Bool) : Except Err Bool := .ok b

/-- `isinstance(e, dict)` where evaluating `e` may raise -/
def isDictOf (e : Except Err J) : Except Err Bool :=
  match e with
  | .ok v => .ok (isDict v)
  | .error x => .error x

/-- `a and b` (short-circuit) -/
def pyAnd (a b : Except Err Bool) : Except Err Bool :=
  match a with
  | .ok true => b
  | .ok false => .ok false
  | .error x => .error x

/-- `a or b` (short-circuit) -/
def pyOr (a b : Except Err Bool) : Except Err Bool :=
  match a with
  | .ok true => .ok true
  | .ok false => b
  | .error x => .error x

/-- `not a` -/
def pyNot (a : Except Err Bool) : Except Err Bool :=
  match a with
  | .ok v => .ok (!v)
  | .error x => .error x

/-- `if c: out[k] = t` / `else: out[k] = e` — the value stored by this iteration -/
def pyIf (c : Except Err Bool) (t e : Except Err J) : Except Err J :=
  match c with
  | .ok true => t
  | .ok false => e
  | .error x => .error x

/-- the recursive call `f(A[k], arg)` where `A` is the first parameter of `f`: `recs` tabulates, for every entry
`(k', v)` of `A`, the function `fun x => f(v, x)` (this is what makes the printed recursion structural).  Python
evaluates `A[k]` first (KeyError when absent), then `arg`, then calls. -/
def callOn (recs : List (String × (J → Except Err J))) (k : String) (arg : Except Err J) : Except Err J :=
  match lookupF k recs with
  | none => .error .keyError
  | some f =>
    match arg with
    | .ok x => f x
    | .error e => .error e

/-- sequencing of two steps of a function body -/
def andThen {ε α β : Type} (a : Except ε α) (f : α → Except ε β) : Except ε β :=
  match a with
  | .ok x => f x
  | .error e => .error e

end Cij.ConfigPy
