/-
  The GLUE of `cij/core/phonon_contribution/nonshear.py` as evaluators of translated data (no Mathlib).

  `tools/gens/nonshear_src.py` re-extracts on every run, from the working tree, what `gen_tables.gen_nonshear_exprs` /
  `gen_prefactors` / `gen_qexprs` leave out, as DATA (`Generated/NonShearGlue.lean`, which instantiates the types below):

    module `average_over_modes(amount, q_weights)`        -> `Red` (a reduction tree) ;  `evalRed`
    module `clear_gamma_point(mat)`                       -> `ClearSpec`              ;  `clearAt`
    method `average_over_modes(self, amount)`             -> `AvgMethod`              ;  `methodAvg`
    `q_weights`                                           -> `QWeightsSpec`           ;  `evalQWeights`
    `v_array` / `t_array` / `freq_array`, `__init__`      -> `Accessor`, `Src`
    `prefactors` of both classes (whole expressions)      -> `PrefExprs`              ;  `evalPref`
    the broadcasting subscripts of every method           -> `Ax` patterns            ;  `bcastOk`, `wiringGamma`
    `Q`                                                   -> `QDef`                   ;  `evalQDef`
    the `ret[numpy.where(self.t_array == 0), :] = 0` masks -> `MaskSpec`              ;  `applyMask`, `maskAt`
    unit conversions `units.Quantity(v, u).to(u').magnitude` -> `UnitConv`            ;  `dimOf`, `monoSub`
    class table, method resolution, coverage list         -> plain lists

  This file says what those data MEAN.  `Source.valueIsothermalAt` assembles a whole `value_isothermal` from nothing but
  translated pieces; `CijProofs/Lemmas/NonShearGlueSource.lean` proves that the hand-written model of `CijModel/NonShear.lean`
  is that evaluation, for all inputs.
-/
import CijModel.NSExpr

namespace Cij.NSGlue
open Cij.NonShear Cij.NSExpr

/-! ### `clear_gamma_point` and `average_over_modes` (module level) -/

/-- `indices = tuple([slice(None)] * (dims - leadDrop) + [row, slice(lo, hi)]); mat[indices] = value` -/
structure ClearSpec where
  /-- the leading axes are all `slice(None)` -/
  leadFull : Bool
  /-- … and there are `dims - leadDrop` of them (2 = every axis but the last two) -/
  leadDrop : Nat
  /-- integer index on the last-but-one axis (the q axis) -/
  row : Nat
  /-- `slice(lo, hi)` on the last axis (the mode axis) -/
  lo : Nat
  hi : Nat
  value : Nat
  /-- the function has no `return` (it works in place on its argument) -/
  inPlaceOnly : Bool
  deriving DecidableEq, Repr

/-- the body of `average_over_modes(amount, q_weights)` as a tree of array operations; `dims = len(amount.shape)` -/
inductive Red where
  /-- the parameter `amount` -/
  | input
  /-- `a.copy()` -/
  | copy (a : Red)
  /-- `clear_gamma_point(a)` executed on `a` before it is used further -/
  | clear (a : Red)
  /-- `numpy.average(a, axis = dims - axisFromEnd)` with `weights = q_weights` when `weighted` -/
  | average (a : Red) (axisFromEnd : Nat) (weighted : Bool)
  deriving DecidableEq, Repr

section
variable {α : Type} [Add α] [Sub α] [Mul α] [Div α] [Neg α] [Scalar α]

/-- entries `lo ≤ i < hi` of a row set to `v`; `i` = position of the head -/
def setRange (lo hi : Nat) (v : α) : Nat → List α → List α
  | _, [] => []
  | i, a :: as => (if lo ≤ i ∧ i < hi then v else a) :: setRange lo hi v (i + 1) as

/-- apply `f` to row `n` (an index past the end changes nothing; numpy raises IndexError there — never the case for nq ≥ 1) -/
def modifyRow (f : List α → List α) : Nat → List (List α) → List (List α)
  | _, [] => []
  | 0, r :: rs => f r :: rs
  | n + 1, r :: rs => r :: modifyRow f n rs

/-- `mat[..., row, lo:hi] = value` on one `[q][m]` slice (the leading axes are mapped over) -/
def clearAt (c : ClearSpec) (x : List (List α)) : List (List α) :=
  modifyRow (setRange c.lo c.hi (nat c.value) 0) c.row x

/-- what an array expression evaluates to on one `[q][m]` slice -/
inductive Arr (α : Type) where
  | a2 (x : List (List α))
  | a1 (x : List α)
  | a0 (x : α)
  /-- outside the evaluator (numpy would raise or do something this model does not describe) -/
  | bad

/-- meaning of a reduction tree on one `[q][m]` slice of `amount` (rank `dims` = 2 relative to the slice).
`numpy.average(a, axis)` = sum / count; with weights = Σ a·w / Σ w (numpy: `multiply(a, wgt).sum(axis) / wgt.sum(axis)`);
`axis = dims - 1` of the rank-2 array is the mode axis, `axis = dims - 2` of the remaining rank-1 array is the q axis. -/
def evalRed (c : ClearSpec) (w : List α) (x : List (List α)) : Red → Arr α
  | .input => .a2 x
  | .copy a => evalRed c w x a
  | .clear a =>
    match evalRed c w x a with
    | .a2 y => if c.leadFull && c.leadDrop == 2 then .a2 (clearAt c y) else .bad
    | _ => .bad
  | .average a k weighted =>
    match evalRed c w x a, k, weighted with
    | .a2 y, 1, false => .a1 (y.map mean)
    | .a1 y, 2, true => .a0 (sumL (List.zipWith (fun x wq => x * wq) y w) / sumL w)
    | .a1 y, 2, false => .a0 (mean y)
    | _, _, _ => .bad

/-- does the tree clear the caller's own array (no `.copy` between `.clear` and `.input`)? -/
def Red.mutatesInput : Red → Bool
  | .input => false
  | .copy _ => false
  | .clear a => (match a with | .input => true | _ => a.mutatesInput)
  | .average a _ _ => a.mutatesInput

/-- where a value comes from -/
inductive Src where
  | param (name : String)
  | selfPath (path : List String)
  | other (text : String)
  deriving DecidableEq, Repr

/-- method `average_over_modes(self, amount)`: `return <callee>(<amountArg>, <weightsArg>)` -/
structure AvgMethod where
  callee : String
  amountArg : Src
  weightsArg : Src
  deriving DecidableEq, Repr

/-- the method on one slice: the module function applied to its own argument and to `self.q_weights` -/
def methodAvg (m : AvgMethod) (tree : Red) (c : ClearSpec) (amount : List (List α)) (qWeights : List α) : Arr α :=
  if m.callee == "average_over_modes" && m.amountArg == .param "amount" && m.weightsArg == .selfPath ["q_weights"]
  then evalRed c qWeights amount tree else .bad

def Arr.scalar? : Arr α → Option α
  | .a0 x => some x
  | _ => none

/-! ### `q_weights`, accessors, `__init__` -/

/-- `return <wrapper>([<tuple component pick> for <tuple of `arity` names> in self.<path>])` -/
structure QWeightsSpec where
  kind : String
  path : List String
  arity : Nat
  pick : Nat
  wrapper : String
  deriving DecidableEq, Repr

/-- the weights handed to `numpy.average`, from the `(coord, weight)` pairs of the QHA input, in file order -/
def evalQWeights {β : Type} (s : QWeightsSpec) (pairs : List (β × α)) : Option (List α) :=
  if s.arity == 2 && s.pick == 1 && s.wrapper == "numpy.array" then some (pairs.map (·.2)) else none

/-- a property whose body is `return self.<path>` -/
structure Accessor where
  name : String
  kind : String
  path : List String
  deriving DecidableEq, Repr

def lookupStore (tab : List (String × Src)) (attr : String) : Option Src :=
  (tab.find? (·.1 == attr)).map (·.2)

/-! ### `prefactors` -/

/-- expressions over the strain pair `self.e = (e[0], e[1])` (arrays over the volume axis; everything is elementwise) -/
inductive PExpr where
  | lit (n : Nat)
  /-- `self.e[0]` -/
  | e0
  /-- `self.e[1]` -/
  | e1
  /-- `numpy.prod(self.e, axis=0)` — the product over the two members of the pair -/
  | prodE
  | neg (a : PExpr)
  | add (a b : PExpr)
  | sub (a b : PExpr)
  | mul (a b : PExpr)
  | div (a b : PExpr)
  deriving DecidableEq, Repr

def PExpr.eval (x0 x1 : α) : PExpr → α
  | .lit n => nat n
  | .e0 => x0
  | .e1 => x1
  | .prodE => x0 * x1
  | .neg a => - a.eval x0 x1
  | .add a b => a.eval x0 x1 + b.eval x0 x1
  | .sub a b => a.eval x0 x1 - b.eval x0 x1
  | .mul a b => a.eval x0 x1 * b.eval x0 x1
  | .div a b => a.eval x0 x1 / b.eval x0 x1

/-- the returned tuple `(p0, (p10, p11), p2)` -/
structure PrefExprs where
  p0 : PExpr
  p10 : PExpr
  p11 : PExpr
  p2 : PExpr
  deriving DecidableEq, Repr

def evalPref (p : PrefExprs) (x0 x1 : α) : Pref α :=
  { p0 := p.p0.eval x0 x1, p10 := p.p10.eval x0 x1, p11 := p.p11.eval x0 x1, p2 := p.p2.eval x0 x1 }

/-! ### broadcasting subscripts -/

/-- one item of a subscript tuple -/
inductive Ax where
  /-- `:` -/
  | full
  /-- `nax` / `numpy.newaxis` / `None` -/
  | new
  /-- an integer index -/
  | idx (i : Int)
  /-- anything else (a bounded slice, an expression) as text -/
  | other (text : String)
  deriving DecidableEq, Repr

/-- `self.prefactors[…][:, nax, nax]`: one prefactor per VOLUME, spread over the q and mode axes of `[v][q][m]` -/
def prefPattern : List Ax := [.full, .new, .new]

/-- one broadcasting subscript found in a method: (class, method, subscripted expression, pattern) -/
structure BcastEntry where
  cls : String
  method : String
  base : String
  pattern : List Ax
  deriving DecidableEq, Repr

/-- is the pattern the one the per-(T, V) model assumes for that operand?  Temperatures run along axis 0, volumes along
axis 1 of a `[t][v]` result; per-mode arrays `[v][q][m]` get ONE new leading axis (temperature) -/
def bcastOk (e : BcastEntry) : Bool :=
  if e.base == "self.t_array" then
    e.pattern == [.full, .new] || e.pattern == [.full, .new, .new, .new]
  else if e.base == "self.v_array" || e.base == "self.calculator.static_p_array" then
    e.pattern == [.new, .full]
  else if e.base == "self.freq_array" || e.base == "self.mode_gamma[0]" || e.base == "self.mode_gamma[2]"
      || e.base == "self.mode_gamma[1][0]" || e.base == "self.mode_gamma[1][1]" then
    e.pattern == [.new, .full, .full, .full]
  else if e.base == "self.prefactors[0]" || e.base == "self.prefactors[2]" || e.base == "self.prefactors[1][0]"
      || e.base == "self.prefactors[1][1]" then
    e.pattern == prefPattern
  else false

def prefAt (p : Pref α) : List Nat → Option α
  | [0] => some p.p0
  | [1, 0] => some p.p10
  | [1, 1] => some p.p11
  | [2] => some p.p2
  | _ => none

def cmgAt (mg0 mg1 mg2 : List (List α)) : Nat → Option (List (List α))
  | 0 => some mg0
  | 1 => some mg1
  | 2 => some mg2
  | _ => none

/-- `self.mode_gamma` from its translated wiring (index path into `self.prefactors`, index into `calculator.mode_gamma`) and the
translated broadcasting pattern of each prefactor, at one volume -/
def wiringGamma (wiring : List (List Nat × Nat)) (bc : List (List Ax)) (p : Pref α) (mg0 mg1 mg2 : List (List α)) :
    Option (ModeGamma α) :=
  let entry (e : List Nat × Nat) : Option (List (List α)) :=
    match prefAt p e.1, cmgAt mg0 mg1 mg2 e.2 with
    | some pf, some m => some (map2 (fun x => pf * x) m)
    | _, _ => none
  if bc.all (· == prefPattern) && bc.length == 4 then
    match wiring with
    | [a, b, c, d] =>
      match entry a, entry b, entry c, entry d with
      | some g0, some g10, some g11, some g2 => some { g0 := g0, g10 := g10, g11 := g11, g2 := g2 }
      | _, _, _, _ => none
    | _ => none
  else none

/-! ### `Q` -/

/-- the return expression of `Q` at one (T, mode): module constant `h_div_k`, `self.freq_array[…]`, `self.t_array[…]` -/
inductive QDef where
  | hdk
  | freq
  | T
  | lit (n : Nat)
  | neg (a : QDef)
  | add (a b : QDef)
  | sub (a b : QDef)
  | mul (a b : QDef)
  | div (a b : QDef)
  deriving DecidableEq, Repr

def evalQDef (hdk T f : α) : QDef → α
  | .hdk => hdk
  | .freq => f
  | .T => T
  | .lit n => nat n
  | .neg a => - evalQDef hdk T f a
  | .add a b => evalQDef hdk T f a + evalQDef hdk T f b
  | .sub a b => evalQDef hdk T f a - evalQDef hdk T f b
  | .mul a b => evalQDef hdk T f a * evalQDef hdk T f b
  | .div a b => evalQDef hdk T f a / evalQDef hdk T f b

/-! ### the T = 0 masks -/

/-- which rows of `ret[<rows>, <cols>] = value` are addressed -/
inductive RowSel where
  /-- `numpy.where(self.<operand path> <op> <rhs>)`: the rows whose VALUE of the operand satisfies the comparison -/
  | whereCmp (operand : List String) (op : String) (rhs : Int)
  /-- a fixed row number -/
  | index (i : Int)
  | other (text : String)
  deriving DecidableEq, Repr

structure MaskSpec where
  target : String
  rows : RowSel
  colsFull : Bool
  value : Nat
  deriving DecidableEq, Repr

/-- is row number `i`, whose temperature is `T`, overwritten? (`none`: the statement is outside the evaluator) -/
def MaskSpec.hits (m : MaskSpec) (i : Nat) (T : α) : Option Bool :=
  if !m.colsFull then none else
  match m.rows with
  | .whereCmp operand op rhs =>
    if operand == ["t_array"] && op == "==" && rhs == 0 then some (Scalar.isZero T) else none
  | .index k => some (decide ((i : Int) = k))
  | .other _ => none

/-- one mask on a `[t][v]` array; `i0` = row number of the head -/
def applyMaskFrom (m : MaskSpec) : Nat → List α → List (List α) → Option (List (List α))
  | _, [], _ => some []
  | _, _ :: _, [] => some []
  | i, T :: ts, row :: rows =>
    match m.hits i T, applyMaskFrom m (i + 1) ts rows with
    | some b, some rest => some ((if b then row.map (fun _ => nat m.value) else row) :: rest)
    | _, _ => none

def applyMask (m : MaskSpec) (ts : List α) (grid : List (List α)) : Option (List (List α)) := applyMaskFrom m 0 ts grid

def applyMasks : List MaskSpec → List α → List (List α) → Option (List (List α))
  | [], _, grid => some grid
  | m :: ms, ts, grid => (applyMask m ts grid).bind (applyMasks ms ts)

/-- the masks at ONE grid point of temperature `T` — defined only when every mask selects its rows BY VALUE (`numpy.where`);
a mask addressing a fixed row number has no meaning at a point (`none`) -/
def maskAt : List MaskSpec → α → α → Option α
  | [], _, x => some x
  | m :: ms, T, x =>
    match m.rows with
    | .whereCmp _ _ _ =>
      match m.hits 0 T with
      | some b => maskAt ms T (if b then nat m.value else x)
      | none => none
    | _ => none

/-! ### bodies evaluated with a given averaging function -/

/-- `NSExpr.evalS` with `self.average_over_modes` as a parameter -/
def evalSWith (avg : List (List α) → List α → Option α) (e : SEnv α) : SExpr → Option α
  | .sym s => some (e.get s)
  | .lit n => some (nat n)
  | .avg m => avg (evalM e.m m) e.w
  | .neg a => (evalSWith avg e a).map (fun x => -x)
  | .add a b => do let x ← evalSWith avg e a; let y ← evalSWith avg e b; pure (x + y)
  | .sub a b => do let x ← evalSWith avg e a; let y ← evalSWith avg e b; pure (x - y)
  | .mul a b => do let x ← evalSWith avg e a; let y ← evalSWith avg e b; pure (x * y)
  | .div a b => do let x ← evalSWith avg e a; let y ← evalSWith avg e b; pure (x / y)
  | .sq a => do let x ← evalSWith avg e a; pure (x * x)

/-- everything the translators read off one class, bundled -/
structure Source where
  avgMethod : AvgMethod
  avgTree : Red
  clear : ClearSpec
  pref : PrefExprs
  wiring : List (List Nat × Nat)
  wiringBcast : List (List Ax)
  qDef : QDef
  zp : Body
  th : Body
  iso : Body
  maskZp : List MaskSpec
  maskTh : List MaskSpec
  maskIso : List MaskSpec

/-- `self.average_over_modes(x)` of the source -/
def Source.avg (src : Source) (x : List (List α)) (w : List α) : Option α :=
  (methodAvg src.avgMethod src.avgTree src.clear x w).scalar?

/-- `self.mode_gamma` of the source at one volume -/
def Source.modeGamma (src : Source) (s : VolSlice α) : Option (ModeGamma α) :=
  wiringGamma src.wiring src.wiringBcast (evalPref src.pref s.e0 s.e1) s.mg0 s.mg1 s.mg2

/-- the evaluation environment at one (T, V) point: `Q` from the translated expression, `Q1`/`Q2` = `q1f`/`q2f` of it -/
def Source.env (src : Source) (q1f q2f : α → α) (c : Consts α) (w : List α) (T P cv : α) (s : VolSlice α)
    (g : ModeGamma α) (zp th iso gap : α) : SEnv α :=
  let Q := map2 (fun f => evalQDef c.hdk T f src.qDef) s.freq
  { h := c.h, k := c.k, T := T, V := s.V, cv := cv, na := c.na, P := P, pst := s.pstatic, zp := zp, th := th, iso := iso,
    gap := gap, w := w, m := { g := g, freq := s.freq, q1 := map2 q1f Q, q2 := map2 q2f Q } }

/-- `zero_point_contribution[v]` assembled from translated pieces only -/
def Source.zeroPointAt (src : Source) (q1f q2f : α → α) (c : Consts α) (w : List α) (T P cv : α) (s : VolSlice α) : Option α := do
  let g ← src.modeGamma s
  let x ← evalSWith src.avg (src.env q1f q2f c w T P cv s g (nat 0) (nat 0) (nat 0) (nat 0)) src.zp.expr
  maskAt src.maskZp T x

/-- `thermal_contribution[t][v]` assembled from translated pieces only -/
def Source.thermalAt (src : Source) (q1f q2f : α → α) (c : Consts α) (w : List α) (T P cv : α) (s : VolSlice α) : Option α := do
  let g ← src.modeGamma s
  let x ← evalSWith src.avg (src.env q1f q2f c w T P cv s g (nat 0) (nat 0) (nat 0) (nat 0)) src.th.expr
  maskAt src.maskTh T x

/-- `value_isothermal[t][v]` assembled from translated pieces only -/
def Source.valueIsothermalAt (src : Source) (q1f q2f : α → α) (c : Consts α) (w : List α) (T P cv : α) (s : VolSlice α) :
    Option α := do
  let g ← src.modeGamma s
  let zp ← src.zeroPointAt q1f q2f c w T P cv s
  let th ← src.thermalAt q1f q2f c w T P cv s
  let x ← evalSWith src.avg (src.env q1f q2f c w T P cv s g zp th (nat 0) (nat 0)) src.iso.expr
  maskAt src.maskIso T x

end

/-! ### unit conversions `units.Quantity(value, from).to(to).magnitude` -/

/-- a product of powers of unit names, sorted by name, no zero exponent -/
abbrev Mono := List (String × Int)

structure UnitConv where
  cls : String
  method : String
  /-- the local / module name the magnitude is bound to -/
  name : String
  /-- the converted value, as written -/
  value : String
  frm : Mono
  to : Mono
  deriving DecidableEq, Repr

/-- (energy, length, temperature) exponents of the unit names the file uses -/
def dimOfUnit (u : String) : Option (Int × Int × Int) :=
  if u == "J" || u == "eV" || u == "rydberg" then some (1, 0, 0)
  else if u == "m" || u == "cm" then some (0, 1, 0)
  else if u == "K" then some (0, 0, 1)
  else none

def dimOf : Mono → Option (Int × Int × Int)
  | [] => some (0, 0, 0)
  | (u, k) :: rest =>
    match dimOfUnit u, dimOf rest with
    | some (a, b, c), some (x, y, z) => some (k * a + x, k * b + y, k * c + z)
    | _, _ => none

def UnitConv.consistent (c : UnitConv) : Bool :=
  match dimOf c.frm, dimOf c.to with
  | some a, some b => a == b
  | _, _ => false

/-- exponent of a unit in a monomial -/
def Mono.exp (m : Mono) (u : String) : Int := ((m.find? (·.1 == u)).map (·.2)).getD 0

/-- `a / b` as monomials agree with `c` on every unit name occurring in any of them -/
def monoIsQuotient (c a b : Mono) : Bool :=
  ((c ++ a ++ b).map (·.1)).all fun u => Mono.exp c u == Mono.exp a u - Mono.exp b u

/-- `_h`, `_k` from scipy's table: `scipy.constants.physical_constants[<name>][<i>]`, products and quotients -/
inductive ConstDef where
  | phys (name : String) (i : Int)
  | mul (a b : ConstDef)
  | div (a b : ConstDef)
  deriving DecidableEq, Repr

/-! ### class table -/

/-- (class or `"<module>"`, function, how it is tied) -/
abbrev Coverage := List (String × String × String)

def covered (cov : Coverage) (p : String × String) : Bool := cov.any fun c => c.1 == p.1 && c.2.1 == p.2

end Cij.NSGlue
