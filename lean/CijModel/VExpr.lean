/-
  Expression trees for the bodies of the averaging / velocity properties of `CijVolumeBaseInterface` (calculator.py).
  The translator re-extracts them from the source on every run (`Generated/VRHExprs.lean`); `Lemmas/VRHSource.lean`
  proves that the point formulas of `CijModel/VRH.lean` ARE these expressions, for every scalar type.
-/
import CijModel.VRH

namespace Cij.VExpr
open Cij.VRH

inductive Prop6 | kV | kR | kH | gV | gR | gH
  deriving DecidableEq, Repr

inductive VExpr where
  | c (i j : Nat)                  -- `self.cIJ`
  | s (i j : Nat)                  -- `self.sIJ`
  | prop (p : Prop6)               -- another averaging property of the same object
  | vArray                         -- `self.v_array`
  | mass                           -- `self.mass`
  | cellmass                       -- `self.calculator.elast_data.cellmass`
  | avogadro                       -- scipy.constants Avogadro constant
  | lit (n : Nat)
  | add (a b : VExpr)
  | sub (a b : VExpr)
  | mul (a b : VExpr)
  | div (a b : VExpr)
  | rydbergToKgKm2s2 (a : VExpr)   -- `units.Quantity(a, units.rydberg).to(units.kg * units.km ** 2 / units.s ** 2).magnitude`
  | sqrt (a : VExpr)               -- `numpy.sqrt(a)`
  deriving Repr

variable {α : Type} [Scalar α] [Add α] [Sub α] [Mul α] [Div α]

structure Env (α : Type) where
  c : Nat → Nat → α
  s : Nat → Nat → α
  prop : Prop6 → α
  V : α
  mass : α
  cellmass : α
  avogadro : α
  ryFactor : α

def eval (e : Env α) : VExpr → α
  | .c i j => e.c i j
  | .s i j => e.s i j
  | .prop p => e.prop p
  | .vArray => e.V
  | .mass => e.mass
  | .cellmass => e.cellmass
  | .avogadro => e.avogadro
  | .lit n => nat n
  | .add a b => eval e a + eval e b
  | .sub a b => eval e a - eval e b
  | .mul a b => eval e a * eval e b
  | .div a b => eval e a / eval e b
  | .rydbergToKgKm2s2 a => eval e a * e.ryFactor
  | .sqrt a => Scalar.sqrt (eval e a)

end Cij.VExpr
