/-
  Model of `cij/util/voigt.py` (StrainRepresentation = E_, ModulusRepresentation = C_).

  * `VOIGT_TO_STANDARD` is *not* written here: it is `Generated.voigtToStandard`, translated from
    the source literal on every run.  `STANDARD_TO_VOIGT` is derived from it as in the code.
  * Python's dispatch on arity and on `int` / `str` is modelled by `Arg`.
  * Every Python exception (RuntimeError, ValueError, TypeError, RecursionError, KeyError) is the
    single outcome `none`: the property only says "rejected".
-/
import Generated.VoigtTable

namespace Cij

/-- `StrainRepresentation(i, j)` — a NamedTuple of two ints. -/
structure Strain where
  i : Int
  j : Int
  deriving DecidableEq, Repr, Inhabited, BEq, Hashable

/-- `ModulusRepresentation(i, j)` — a NamedTuple of two StrainRepresentations. -/
structure Modulus where
  i : Strain
  j : Strain
  deriving DecidableEq, Repr, Inhabited, BEq, Hashable

/-- An argument as Python sees it: an `int` or a `str`. -/
inductive Arg where
  | int (n : Int)
  | str (s : String)
  deriving DecidableEq, Repr

def voigtTable : List (Int × (Int × Int)) := Generated.voigtToStandard

/-- `VOIGT_TO_STANDARD[i]` with `KeyError`/membership test. -/
def voigtLookup (v : Int) : Option (Int × Int) :=
  (voigtTable.find? (fun e => e.1 == v)).map (·.2)

/-- `STANDARD_TO_VOIGT = dict((v, k) for k, v in VOIGT_TO_STANDARD.items())` — a later entry with
the same value overwrites an earlier one, hence the search from the end. -/
def standardLookup (p : Int × Int) : Option Int :=
  (voigtTable.reverse.find? (fun e => e.2 == p)).map (·.1)

namespace Strain

/-- `from_voigt`. -/
def fromVoigt (v : Int) : Option Strain :=
  (voigtLookup v).map fun p => ⟨p.1, p.2⟩

/-- `from_standard`: sort the pair, require membership in the table's values. -/
def fromStandard (a b : Int) : Option Strain :=
  let (lo, hi) := if a ≤ b then (a, b) else (b, a)
  if voigtTable.any (fun e => e.2 == (lo, hi)) then some ⟨lo, hi⟩ else none

/-- `.voigt` (a `KeyError` for a tuple that is not a table value). -/
def voigt (s : Strain) : Option Int := standardLookup (s.i, s.j)

/-- `.standard` -/
def standard (s : Strain) : Int × Int := (s.i, s.j)

end Strain

/-- decimal digits of a Python `str` made of digits only; `int(c)` on any other char raises. -/
def digitsOf (s : String) : Option (List Int) :=
  s.toList.mapM fun c => if c.isDigit then some (Int.ofNat (c.toNat - '0'.toNat)) else none

/-- `str(n)` for `n : int` as a list of digits; a negative number contains '-' and `int('-')` raises. -/
def intDigits (n : Int) : Option (List Int) :=
  if n < 0 then none else digitsOf (toString n.toNat)

namespace Strain

/-- `E_.create(i, j=None)` for positional ints (the 1- and 2-argument int forms). -/
def createInts : List Int → Option Strain
  | [a, b] => fromStandard a b
  | [a] =>
      if a < 10 then fromVoigt a
      else
        -- create(str(i)) -> create(*(int(k) for k in str)) ; ≥ 10 means at least two digits
        match intDigits a with
        | some [x, y] => fromStandard x y
        | _ => none   -- three or more digits: TypeError (too many positional arguments)
  | _ => none

/-- `E_.create` on a general argument list. -/
def create : List Arg → Option Strain
  | [Arg.int a, Arg.int b] => fromStandard a b
  | [Arg.int a] => createInts [a]
  | [Arg.str s] =>
      match digitsOf s with
      | some [x] => createInts [x]
      | some [x, y] => fromStandard x y
      | _ => none
  | _ => none

end Strain

namespace Modulus

/-- `sorted((a, b), key=lambda e: e.voigt)` — Python's sort is stable: `a` stays first on a tie. -/
def sortByVoigt (a b : Strain) : Option Modulus := do
  let va ← a.voigt
  let vb ← b.voigt
  pure (if vb < va then ⟨b, a⟩ else ⟨a, b⟩)

def fromVoigt (i j : Int) : Option Modulus := do
  let a ← Strain.fromVoigt i
  let b ← Strain.fromVoigt j
  sortByVoigt a b

def fromStandard (i j k l : Int) : Option Modulus := do
  let a ← Strain.fromStandard i j
  let b ← Strain.fromStandard k l
  sortByVoigt a b

/-- positional-int forms of `C_.create`. `fuel`-free: the only recursion in the Python code
(`create(int) -> create(str) -> create(*digits)`) bottoms out unless the string has one digit, in which
case Python recurses for ever (RecursionError) — modelled as rejection. -/
def createInts : List Int → Option Modulus
  | [i, j, k, l] => fromStandard i j k l
  | [i, j] => fromVoigt i j
  | [n] =>
      match intDigits n with
      | some [i, j, k, l] => fromStandard i j k l
      | some [i, j] => fromVoigt i j
      | _ => none        -- 1 digit: infinite recursion; 3 or ≥5 digits: "Invalid modulus representation"
  | _ => none

def create : List Arg → Option Modulus
  | [Arg.int i, Arg.int j, Arg.int k, Arg.int l] => fromStandard i j k l
  | [Arg.int i, Arg.int j] => fromVoigt i j
  | [Arg.int n] => createInts [n]
  | [Arg.str s] =>
      match digitsOf s with
      | some [i, j, k, l] => fromStandard i j k l
      | some [i, j] => fromVoigt i j
      | _ => none
  | _ => none

/-- `.voigt` -/
def voigt (m : Modulus) : Option (Int × Int) := do
  let a ← m.i.voigt
  let b ← m.j.voigt
  pure (a, b)

/-- `.standard` -/
def standard (m : Modulus) : Int × Int × Int × Int := (m.i.i, m.i.j, m.j.i, m.j.j)

def isShear (m : Modulus) : Bool :=
  let sh (s : Strain) := match s.voigt with
    | some v => v == 4 || v == 5 || v == 6
    | none => false
  sh m.i || sh m.j

def isLongitudinal (m : Modulus) : Bool := (m.i == m.j) && !m.isShear

def isOffDiagonal (m : Modulus) : Bool := !m.isShear && !m.isLongitudinal

/-- `1 << (i != j) << (i.i != i.j) << (j.i != j.j)` -/
def multiplicity (m : Modulus) : Nat :=
  1 <<< (if m.i != m.j then 1 else 0) <<< (if m.i.i != m.i.j then 1 else 0) <<< (if m.j.i != m.j.j then 1 else 0)

inductive CalcType | longitudinal | offDiagonal | shear
  deriving DecidableEq, Repr

def calcType (m : Modulus) : CalcType :=
  if m.isLongitudinal then .longitudinal
  else if m.isOffDiagonal then .offDiagonal
  else .shear

end Modulus

/-! ### The canonical 21 keys and the orbit of a tuple (the specification side) -/

/-- all index tuples (i,j,k,l) ∈ {1,2,3}⁴ -/
def idx3 : List Int := [1, 2, 3]
def idx6 : List Int := [1, 2, 3, 4, 5, 6]

def allTuples : List (Int × Int × Int × Int) :=
  idx3.flatMap fun i => idx3.flatMap fun j => idx3.flatMap fun k => idx3.map fun l => (i, j, k, l)

def allPairs : List (Int × Int) :=
  idx6.flatMap fun i => idx6.map fun j => (i, j)

/-- the 8 images of a tuple under the minor (i↔j, k↔l) and major ((ij)↔(kl)) symmetries -/
def orbit (t : Int × Int × Int × Int) : List (Int × Int × Int × Int) :=
  let (i, j, k, l) := t
  [(i, j, k, l), (j, i, k, l), (i, j, l, k), (j, i, l, k),
   (k, l, i, j), (l, k, i, j), (k, l, j, i), (l, k, j, i)]

/-- the 21 canonical keys, as Voigt pairs (a ≤ b) -/
def keys21 : List (Int × Int) :=
  idx6.flatMap fun a => (idx6.filter (a ≤ ·)).map fun b => (a, b)

/-- key built from a Voigt pair (defaulting never happens on `keys21`) -/
def keyOfVoigt (p : Int × Int) : Modulus := (Modulus.fromVoigt p.1 p.2).getD default

end Cij
