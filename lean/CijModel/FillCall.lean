/-
  The call interface of `fill_cij` (`cij/util/fill.py`, the `def` line): parameter names, the default of every keyword
  parameter, and a call by keywords in which absent keywords take their defaults.  No Mathlib.

  Hand-written (like the rest of the model); `CijProofs/Properties/C09.lean: fill_model_is_source_defaults` proves that
  these are the values the translator reads off the signature on every run (`Generated.fillParams`, `Generated.fillDefaults`).
  The driver (`Ops/C09.lean`) fills absent keywords of the op `c09.fill` from HERE, so the correspondence run also
  exercises the defaults: a harness case that leaves `drop_atol` out is compared with the real call that leaves it out.

  A Python float literal such as `1e-8` denotes the nearest double; the model uses the decimal fraction 1/10⁸ (relative
  difference ≤ 2⁻⁵³ — a table entry would have to lie in that gap to tell them apart).
-/
import CijModel.Fill

namespace Cij.FillCall
open Cij.Fill

/-- `def fill_cij(elast, system, ignore_residuals, ignore_rank, drop_atol, residual_atol)` -/
def paramNames : List String := ["elast", "system", "ignore_residuals", "ignore_rank", "drop_atol", "residual_atol"]

/-- `system: str = None` -/
def defaultSystem : Option String := none

/-- `ignore_residuals=False, ignore_rank=False, drop_atol=1e-8, residual_atol=0.1` -/
def defaultParams : Params Rat :=
  { ignoreResiduals := false, ignoreRank := false, dropAtol := mkRat 1 100000000, residualAtol := mkRat 1 10 }

/-- the keywords of one call `fill_cij(elast, **kw)`; `none` = keyword absent -/
structure Kwargs where
  system : Option (Option String) := none
  ignoreResiduals : Option Bool := none
  ignoreRank : Option Bool := none
  dropAtol : Option Rat := none
  residualAtol : Option Rat := none

def Kwargs.params (kw : Kwargs) : Params Rat :=
  { ignoreResiduals := kw.ignoreResiduals.getD defaultParams.ignoreResiduals,
    ignoreRank := kw.ignoreRank.getD defaultParams.ignoreRank,
    dropAtol := kw.dropAtol.getD defaultParams.dropAtol,
    residualAtol := kw.residualAtol.getD defaultParams.residualAtol }

/-- `fill_cij(elast, **kw)` -/
def call (env : Env) (kw : Kwargs) (t : Table Rat) : Except Err (Table Rat) :=
  fill env (kw.system.getD defaultSystem) kw.params t

end Cij.FillCall
