/-
  C18 — model of `cij/cli/static.py` (`cij run-static`), statement by statement.  No Mathlib.

    fit_modulus                         static.py l. 37-57      -> `fitModulus`
    v2p1d                               l. 59-61                -> `v2p1d`             (qha `v2p`: CijModel/V2P.lean)
    input01 columns                     l. 64-74                -> `input01Columns`
    v_array / f_array / p_array         l. 78-82                -> `linspace`, `eos`   (numpy.gradient: FullModulus.gradient)
    the three `interp` branches         l. 84-104               -> `modeTable`
    density, per-key modulus fit        l. 110-120              -> `addModuli`, `moduliColumns`
    fill_cij(df, system)                l. 124-127              -> `applyFill`         (fill_cij itself: a PARAMETER)
    --cellmass                          l. 129-130              -> `overrideDensity`
    the private VRH block               l. 134-166              -> `cEntry`, `cMat`, `bmV` … `gR`, `addVrh`
    unit conversion                     l. 171-176              -> `convertUnits`
    velocities                          l. 180-187              -> `addVelocities`
    sampling                            l. 190-192              -> `sample`
    the whole command                                           -> `tableWith` (all rows), `runWith` (sampled)

  One definition, polymorphic in the scalar `α`.  What crosses a library boundary is a parameter:
    * `Ext.strain`  qha `calculate_eulerian_strain(v0, v)`  (a real power, ½((v0/v)^(2/3) − 1)),
    * `Ext.sqrt`    `numpy.sqrt`,
    * `Ext.spline`  `scipy.interpolate.InterpolatedUnivariateSpline(x, y)(t)` (contract: it interpolates),
    * `Ext.inv6`    `numpy.linalg.inv` on the batch of 6×6 matrices (LinAlgError = `none`),
    * `Ext.fill`    `cij.util.fill.fill_cij(df, system)` (C08/C09: CijModel/Fill.lean),
    * `Ext.round`   Python's built-in `round` on a float,
    * `Units`       the six pint factors (`_to_ang3(1)`, `_to_ev(1)`, `_to_gpa(1)`, `_from_gpa(1)`, `_to_gcm3(1)`, `_to_kms(1)`),
    * the least-squares routine of qha is NOT external: `run`/`table` use `LeastSq.polynomialLeastSquareFitting`
      (C05, exact normal equations).  `tableWith`/`runWith` take the fit as an argument only so that the driver can
      run everything at `Float` and the fit over `Rat` (exact; every double is a rational) — one rounding per fit.

  A pandas DataFrame is an association list of named columns (`Fill.Table`); `df.loc[:, name] = col` is `setCol`
  (replace in place or append).  Every Python exception is `none`.
  The warning of l. 125 goes to the `logging` module (stderr), not to the table: not modelled.
-/
import CijModel.LeastSq
import CijModel.FullModulus
import CijModel.V2P
import CijModel.Fill
import CijModel.ElastDat
import CijModel.QhaInput

namespace Cij.Static
open Cij Cij.LeastSq

abbrev Table (α : Type) := Fill.Table α          -- List (String × List α)

/-- option `-I` (`interp`) -/
inductive Interp where
  | none | volume | pressure
  deriving DecidableEq, Repr

/-- the command-line options (`click` has already parsed them) -/
structure Options (α : Type) where
  interp : Interp
  ntv : Nat
  /-- `--p-min`, GPa -/
  pMin : α
  /-- `--delta-p`, GPa -/
  deltaP : α
  /-- `--delta-p-sample` (default None) -/
  deltaPSample : Option α
  /-- `--cellmass` (default None) -/
  cellmass : Option α
  /-- `--v-ratio` -/
  vRatio : α
  /-- option `-s` (`system`, default None) -/
  system : Option String

/-- pint's multiplicative factors (cij/util/units.py) -/
structure Units (α : Type) where
  /-- bohr³ → Å³ -/
  toAng3 : α
  /-- Ry → eV -/
  toEv : α
  /-- Ry/bohr³ → GPa -/
  toGpa : α
  /-- GPa → Ry/bohr³ -/
  fromGpa : α
  /-- (g/mol)/(bohr³/particle) → g/cm³ -/
  toGcm3 : α
  /-- (GPa/(g/cm³))^½ → km/s -/
  toKms : α

/-- library calls -/
structure Ext (α : Type) where
  strain : α → α → α
  sqrt : α → α
  /-- `InterpolatedUnivariateSpline(x, y)(ts)` -/
  spline : List α → List α → List α → List α
  /-- `numpy.linalg.inv` of a stack of 6×6 matrices -/
  inv6 : List (List (List α)) → Option (List (List (List α)))
  /-- `fill_cij(df, system)` -/
  fill : String → Table α → Option (Table α)
  /-- `round(x)` -/
  round : α → Int

/-- the least-squares routine `polynomial_least_square_fitting(xs, ys, new_xs, order)` -/
abbrev Fit (α : Type) := List α → List α → List α → Nat → Option (List α)

section
variable {α : Type}

/-! ### DataFrame columns -/

/-- `df.loc[:, name]` / `name in df.columns` -/
def getCol (t : Table α) (name : String) : Option (List α) :=
  match t with
  | [] => none
  | c :: r => if c.1 = name then some c.2 else getCol r name

def hasCol (t : Table α) (name : String) : Bool := (getCol t name).isSome

/-- `df.loc[:, name] = col`: an existing column is overwritten in place, a new one is appended -/
def setCol (t : Table α) (name : String) (col : List α) : Table α :=
  match t with
  | [] => [(name, col)]
  | c :: r => if c.1 = name then (name, col) :: r else c :: setCol r name col

/-- `df[name] = f(df[name].to_numpy())` -/
def mapCol (t : Table α) (name : String) (f : α → α) : Table α :=
  t.map fun c => if c.1 = name then (c.1, c.2.map f) else c

/-- all entries present, else `none` -/
def allSome {β : Type} : List (Option β) → Option (List β)
  | [] => some []
  | none :: _ => none
  | some x :: r => (allSome r).map (x :: ·)

/-- `if x:` for an optional float option: `None` and `0.0` are falsy -/
def truthy [OfNat α 0] [BEq α] (x : Option α) : Option α :=
  match x with
  | some v => if v == 0 then none else some v
  | none => none

end

section
variable {α : Type} [Add α] [Sub α] [Mul α] [Div α] [Neg α] [OfNat α 0] [OfNat α 1] [NatCast α]

/-- a natural number as a scalar (the literals `2, 3, 4, 9, 15` of the Python source) -/
abbrev lit (k : Nat) : α := (k : α)

/-- `numpy.linspace(start, stop, num)` (endpoint=True): `arange(num) * step + start` with `step = (stop-start)/(num-1)`,
    last entry overwritten by `stop`; `num = 1` gives `[start]`. -/
def linspace (start stop : α) (num : Nat) : List α :=
  if num = 1 then [start] else
  let step := (stop - start) / ((num - 1 : Nat) : α)
  (List.range num).map fun i => if i + 1 = num then stop else (i : α) * step + start

/-- `fit_modulus(volumes, v_array, moduli, order=2)` (static.py l. 37-57): Eulerian strains with respect to
    `volumes[0]` (IndexError for an empty array), least squares of degree `order`, evaluated on `v_array`. -/
def fitModulus (fit : Fit α) (E : Ext α) (volumes vArray moduli : List α) (order : Nat := 2) : Option (List α) :=
  match volumes with
  | [] => none
  | v0 :: _ => fit (volumes.map (E.strain v0)) moduli (vArray.map (E.strain v0)) order

/-- `v_array`, `f_array`, `p_array` -/
structure Eos (α : Type) where
  vArray : List α
  fArray : List α
  pArray : List α

/-- `df` after l. 64-74: `range(input01.nv)` rows, `V` and `F` from `input01.volumes[i]` (IndexError when the
    header announces more volumes than there are) -/
def input01Columns (d : QhaInput.Data α) : Option (List α × List α) :=
  if d.volumes.length < d.nv then none
  else some ((d.volumes.take d.nv).map (·.volume), (d.volumes.take d.nv).map (·.energy))

variable [LE α] [DecidableLE α] [LT α] [DecidableLT α]

/-- l. 78-82: `v_array = linspace(min(V)/v_ratio, max(V)*v_ratio, ntv)`, `f_array = fit_modulus(V, v_array, F)`,
    `p_array = - gradient(f_array) / gradient(v_array)` -/
def eos (fit : Fit α) (E : Ext α) (vRatio : α) (ntv : Nat) (volumes energies : List α) : Option (Eos α) := do
  let lo ← V2P.listMin volumes
  let hi ← V2P.listMax volumes
  let vArray := linspace (lo / vRatio) (hi * vRatio) ntv
  let fArray ← fitModulus fit E volumes vArray energies
  let gf ← FullModulus.gradient fArray
  let gv ← FullModulus.gradient vArray
  pure { vArray, fArray, pArray := List.zipWith (fun a b => -a / b) gf gv }

/-- `v2p1d(x_old, p_old, p_new) = v2p(x_old[nax, ::-1], p_old[nax, ::-1], p_new)[0]` -/
def v2p1d (xOld pOld pNew : List α) : Option (List α) :=
  match V2P.v2p [xOld.reverse] [pOld.reverse] pNew with
  | .ok [row] => some row
  | _ => none

/-- the requested pressures of mode `pressure` in Ry/bohr³:
    `linspace(_from_gpa(p_min), _from_gpa(p_min + delta_p * (ntv - 1)), ntv)` -/
def requestedPressures (U : Units α) (o : Options α) : List α :=
  linspace (o.pMin * U.fromGpa) ((o.pMin + o.deltaP * ((o.ntv - 1 : Nat) : α)) * U.fromGpa) o.ntv

/-- the `V`, `F`, `P` columns of the three branches (l. 84-104), atomic units -/
structure VFP (α : Type) where
  v : List α
  f : List α
  p : List α

def modeTable (E : Ext α) (U : Units α) (o : Options α) (volumes energies : List α) (e : Eos α) :
    Option (VFP α) :=
  match o.interp with
  | .none => some ⟨volumes, energies, E.spline e.vArray e.pArray volumes⟩
  | .volume => some ⟨e.vArray, e.fArray, e.pArray⟩
  | .pressure =>
    let p := requestedPressures U o
    match v2p1d e.vArray e.pArray p, v2p1d e.fArray e.pArray p with
    | some v, some f => some ⟨v, f, p⟩
    | _, _ => none

def VFP.table (x : VFP α) : Table α := [("V", x.v), ("F", x.f), ("P", x.p)]

/-- the values of one key over input02's volumes: `volume.static_elastic_modulus[key]` (KeyError = `none`) -/
def keyValues (d2 : ElastDat.ElastData α) (key : ElastDat.Key) : Option (List α) :=
  allSome (d2.volumes.map fun ev => (ev.moduli.find? fun e => e.1 = key).map (·.2))

/-- l. 112-119: for every key of `input02.volumes[0].static_elastic_modulus` the column `"c%d%d" % key.voigt`
    (a raw `str` key has no `.voigt`: AttributeError) = `fit_modulus` of input02's OWN (volume, value) pairs,
    evaluated at the row volumes `rowV`. -/
def moduliColumns (fit : Fit α) (E : Ext α) (d2 : ElastDat.ElastData α) (rowV : List α) :
    Option (List (String × List α)) :=
  match d2.volumes with
  | [] => none                                         -- `input02.volumes[0]`: IndexError
  | v0 :: _ =>
    allSome (v0.moduli.map fun kv =>
      match ElastDat.canonName kv.1, keyValues d2 kv.1 with
      | some name, some vals =>
        (fitModulus fit E (d2.volumes.map (·.volume)) rowV vals).map fun col => (name, col)
      | _, _ => none)

/-- `if input02:` l. 108-120: `density = input02.cellmass / V`, then the modulus columns one by one -/
def addModuli (fit : Fit α) (E : Ext α) (d2 : Option (ElastDat.ElastData α)) (x : VFP α) : Option (Table α) :=
  match d2 with
  | none => some x.table
  | some d => do
    let cols ← moduliColumns fit E d x.v
    pure (cols.foldl (fun t c => setCol t c.1 c.2) (setCol x.table "density" (x.v.map fun v => d.cellmass / v)))

/-- l. 124-127: `if system == None: (warning) elif input02: df = fill_cij(df, system)` — without a static table
    there is nothing to fill (/repo 34736c8; before that commit `-s` without INPUT02 raised IndexError inside fill_cij) -/
def applyFill (E : Ext α) (system : Option String) (withTable : Bool) (t : Table α) : Option (Table α) :=
  match system with
  | none => some t
  | some s => if withTable then E.fill s t else some t

variable [BEq α]

/-- l. 129-130: `if cellmass: df.loc[:, "density"] = cellmass / df.loc[:, "V"]` -/
def overrideDensity (cellmass : Option α) (t : Table α) : Option (Table α) :=
  match truthy cellmass with
  | none => some t
  | some m => (getCol t "V").map fun v => setCol t "density" (v.map fun x => m / x)

/-! ### the private VRH block (l. 134-166) -/

/-- `"c%d%d" % tuple(sorted((i, j)))` for 1-based `i, j` -/
def cName (i j : Nat) : String := "c" ++ toString (min i j) ++ toString (max i j)

/-- `cij[r, i-1, j-1]`: the column of the sorted pair when the table has it, else the 0 of `numpy.zeros` -/
def cEntry (t : Table α) (r i j : Nat) : α :=
  match getCol t (cName i j) with
  | some col => col.getD r 0
  | none => 0

def idx6 : List Nat := [1, 2, 3, 4, 5, 6]

/-- `cij[r]` -/
def cMat (t : Table α) (r : Nat) : List (List α) := idx6.map fun i => idx6.map fun j => cEntry t r i j

/-- `m[i-1][j-1]`, the view `c[:, 1:, 1:] = cij` of the 7×7 arrays -/
def at6 (m : List (List α)) (i j : Nat) : α := (m.getD (i - 1) []).getD (j - 1) 0

/-- `(c11 + c22 + c33 + 2 * (c12 + c23 + c13)) / 9` -/
def bmV (c : Nat → Nat → α) : α := (c 1 1 + c 2 2 + c 3 3 + lit 2 * (c 1 2 + c 2 3 + c 1 3)) / lit 9

/-- `1 / (s11 + s22 + s33 + 2 * (s12 + s23 + s13))` -/
def bmR (s : Nat → Nat → α) : α := lit 1 / (s 1 1 + s 2 2 + s 3 3 + lit 2 * (s 1 2 + s 2 3 + s 1 3))

/-- `(x_V + x_R) / 2` -/
def vrh (v r : α) : α := (v + r) / lit 2

/-- `(+ (c11 + c22 + c33) - (c12 + c23 + c13) + 3 * (c44 + c55 + c66)) / 15` -/
def gV (c : Nat → Nat → α) : α :=
  ((c 1 1 + c 2 2 + c 3 3) - (c 1 2 + c 2 3 + c 1 3) + lit 3 * (c 4 4 + c 5 5 + c 6 6)) / lit 15

/-- `15 / (4 * (s11 + s22 + s33) - 4 * (s12 + s23 + s13) + 3 * (s44 + s55 + s66))` -/
def gR (s : Nat → Nat → α) : α :=
  lit 15 / (lit 4 * (s 1 1 + s 2 2 + s 3 3) - lit 4 * (s 1 2 + s 2 3 + s 1 3) + lit 3 * (s 4 4 + s 5 5 + s 6 6))

def nRows (t : Table α) : Nat := (t.head?.map (·.2.length)).getD 0

/-- the six average columns from the stiffness matrices `cs` and their inverses `ss` (one per row) -/
def vrhColumns (cs ss : List (List (List α))) : List (String × List α) :=
  let kv := cs.map fun c => bmV (at6 c)
  let kr := ss.map fun s => bmR (at6 s)
  let gv := cs.map fun c => gV (at6 c)
  let gr := ss.map fun s => gR (at6 s)
  [("bm_V", kv), ("bm_R", kr), ("bm_VRH", List.zipWith vrh kv kr),
   ("G_V", gv), ("G_R", gr), ("G_VRH", List.zipWith vrh gv gr)]

/-- `if input02:` l. 134-166 — the 6×6 of every row from the columns present NOW (after the fill), the batched
    inverse, the six averages -/
def addVrh (E : Ext α) (withTable : Bool) (t : Table α) : Option (Table α) :=
  if !withTable then some t else
  let cs := (List.range (nRows t)).map (cMat t)
  (E.inv6 cs).map fun ss => (vrhColumns cs ss).foldl (fun t c => setCol t c.1 c.2) t

/-- l. 171-176 -/
def convertUnits (U : Units α) (t : Table α) : Table α :=
  let t := mapCol t "V" (· * U.toAng3)
  let t := mapCol t "F" (· * U.toEv)
  let t := mapCol t "P" (· * U.toGpa)
  if hasCol t "density" then mapCol t "density" (· * U.toGcm3) else t

/-- `sqrt((K + 4 / 3 * G) / rho)`, `sqrt(G / rho)`, `sqrt(K / rho)` and `_to_kms` (l. 180-187) -/
def vP (E : Ext α) (U : Units α) (k g rho : α) : α := E.sqrt ((k + lit 4 / lit 3 * g) / rho) * U.toKms
def vS (E : Ext α) (U : Units α) (g rho : α) : α := E.sqrt (g / rho) * U.toKms
def vPhi (E : Ext α) (U : Units α) (k rho : α) : α := E.sqrt (k / rho) * U.toKms

def zip3 (f : α → α → α → α) (a b c : List α) : List α :=
  List.zipWith (fun x yz => f x yz.1 yz.2) a (List.zip b c)

def addVelocities (E : Ext α) (U : Units α) (withTable : Bool) (t : Table α) : Option (Table α) :=
  if !withTable then some t else
  match getCol t "bm_VRH", getCol t "G_VRH", getCol t "density" with
  | some k, some g, some rho =>
    let t := setCol t "v_p" (zip3 (vP E U) k g rho)
    let t := setCol t "v_s" (List.zipWith (vS E U) g rho)
    some (setCol t "v_phi" (List.zipWith (vPhi E U) k rho))
  | _, _, _ => none

/-- the full table (before the sampling of l. 190-192) -/
def tableWith (fit : Fit α) (E : Ext α) (U : Units α) (o : Options α) (d1 : QhaInput.Data α)
    (d2 : Option (ElastDat.ElastData α)) : Option (Table α) := do
  let ve ← input01Columns d1
  let e ← eos fit E o.vRatio o.ntv ve.1 ve.2
  let x ← modeTable E U o ve.1 ve.2 e
  let t1 ← addModuli fit E d2 x
  let t2 ← applyFill E o.system d2.isSome t1
  let t3 ← overrideDensity o.cellmass t2
  let t4 ← addVrh E d2.isSome t3
  addVelocities E U d2.isSome (convertUnits U t4)

/-- `range(len)[::step]` for `step ≠ 0` (a negative step walks back from the last row) -/
def sliceIdx (len : Nat) (step : Int) : List Nat :=
  if step > 0 then (List.range len).filter fun i => i % step.toNat = 0
  else ((List.range len).reverse).filter fun i => (len - 1 - i) % step.natAbs = 0

/-- printed table: the index labels of the rows that are kept, and their values -/
structure Out (α : Type) where
  index : List Nat
  table : Table α

/-- l. 190-192: `if interp == "pressure" and delta_p_sample: df = df.iloc[::round(delta_p_sample / delta_p), :]`
    (`slice step cannot be zero`: ValueError) -/
def sample (E : Ext α) (o : Options α) (t : Table α) : Option (Out α) :=
  let all : Out α := ⟨List.range (nRows t), t⟩
  match o.interp, truthy o.deltaPSample with
  | .pressure, some dps =>
    let step := E.round (dps / o.deltaP)
    if step = 0 then none else
    let idx := sliceIdx (nRows t) step
    some ⟨idx, t.map fun c => (c.1, idx.map fun i => c.2.getD i 0)⟩
  | _, _ => some all

/-- `cij run-static INPUT01 [INPUT02] …`: what is written to stdout -/
def runWith (fit : Fit α) (E : Ext α) (U : Units α) (o : Options α) (d1 : QhaInput.Data α)
    (d2 : Option (ElastDat.ElastData α)) : Option (Out α) :=
  (tableWith fit E U o d1 d2).bind (sample E o)

/-- with qha's least squares as modelled for C05 (exact normal equations) -/
def table (E : Ext α) (U : Units α) (o : Options α) (d1 : QhaInput.Data α)
    (d2 : Option (ElastDat.ElastData α)) : Option (Table α) :=
  tableWith polynomialLeastSquareFitting E U o d1 d2

def run (E : Ext α) (U : Units α) (o : Options α) (d1 : QhaInput.Data α)
    (d2 : Option (ElastDat.ElastData α)) : Option (Out α) :=
  runWith polynomialLeastSquareFitting E U o d1 d2

end

/-! ### an executable interpolating cubic spline — used only to RUN the model

`InterpolatedUnivariateSpline(x, y)` (k = 3, no smoothing) is the cubic spline through all points with the
not-a-knot end conditions (FITPACK puts no knot at `x[1]` and `x[-2]`); for given data that spline is unique, so
any solver of the same linear system returns the same function up to rounding. -/
section
variable {α : Type} [Add α] [Sub α] [Mul α] [Div α] [Neg α] [OfNat α 0] [OfNat α 1] [NatCast α]
  [LT α] [DecidableLT α]

private def nth (l : List α) (i : Nat) : α := l.getD i 0

/-- second derivatives `M_0 … M_{m}` (m = n−1) of the not-a-knot cubic spline, by the Thomas algorithm on the
    tridiagonal system obtained after eliminating `M_0` and `M_m` with the end conditions. Needs ≥ 4 points. -/
def splineMoments (x y : List α) : List α :=
  let m := x.length - 1
  let h (i : Nat) : α := nth x (i + 1) - nth x i
  let d (i : Nat) : α := (nth y (i + 1) - nth y i) / h i
  let r (i : Nat) : α := lit 6 * (d i - d (i - 1))                   -- rhs of interior equation i (1 ≤ i ≤ m−1)
  -- interior equation i:  h_{i-1} M_{i-1} + 2 (h_{i-1} + h_i) M_i + h_i M_{i+1} = r_i
  -- not-a-knot at the left:   M_0 = ((h_0 + h_1) M_1 − h_0 M_2) / h_1 ;  at the right likewise
  let lo (i : Nat) : α := if i = 1 then 0 else if i = m - 1 then h (m - 2) - h (m - 1) * h (m - 1) / h (m - 2) else h (i - 1)
  let di (i : Nat) : α :=
    if i = 1 then h 0 * (h 0 + h 1) / h 1 + lit 2 * (h 0 + h 1)
    else if i = m - 1 then h (m - 1) * (h (m - 1) + h (m - 2)) / h (m - 2) + lit 2 * (h (m - 2) + h (m - 1))
    else lit 2 * (h (i - 1) + h i)
  let up (i : Nat) : α := if i = 1 then h 1 - h 0 * h 0 / h 1 else if i = m - 1 then 0 else h i
  -- forward sweep over i = 1 … m−1: (c', d') pairs
  let fw := (List.range (m - 1)).foldl (fun (acc : List (α × α)) k =>
      let i := k + 1
      match acc.getLast? with
      | none => [(up i / di i, r i / di i)]
      | some (cp, dp) =>
        let den := di i - lo i * cp
        acc ++ [(up i / den, (r i - lo i * dp) / den)]) []
  -- back substitution
  let inner := fw.foldr (fun (cd : α × α) (acc : List α) =>
      match acc with
      | [] => [cd.2]
      | nxt :: _ => (cd.2 - cd.1 * nxt) :: acc) []
  let m1 := nth inner 0
  let m2 := nth inner 1
  let ml1 := nth inner (m - 2)
  let ml2 := nth inner (m - 3)
  let m0 := ((h 0 + h 1) * m1 - h 0 * m2) / h 1
  let mm := ((h (m - 1) + h (m - 2)) * ml1 - h (m - 1) * ml2) / h (m - 2)
  m0 :: (inner ++ [mm])

/-- evaluate the spline with moments `mom` at `t` (the end pieces extrapolate) -/
def splineEval (x y mom : List α) (t : α) : α :=
  let m := x.length - 1
  -- largest i ≤ m−1 with x_i ≤ t (0 when t is left of everything)
  let i := (List.range m).foldl (fun best k => if ¬ (t < nth x k) then k else best) 0
  let h := nth x (i + 1) - nth x i
  let a := nth x (i + 1) - t
  let b := t - nth x i
  nth mom i * a * a * a / (lit 6 * h) + nth mom (i + 1) * b * b * b / (lit 6 * h)
    + (nth y i / h - nth mom i * h / lit 6) * a + (nth y (i + 1) / h - nth mom (i + 1) * h / lit 6) * b

/-- the not-a-knot cubic spline through `(x, y)` evaluated at `ts` -/
def notAKnotSpline (x y ts : List α) : List α :=
  let mom := splineMoments x y
  ts.map (splineEval x y mom)

end

end Cij.Static
