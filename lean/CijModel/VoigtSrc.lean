/-
  Glue between the TRANSLATED SOURCE of `cij/util/voigt.py` (`Generated.VoigtSrc.module`, a `PyLite.Module` re-emitted from the
  working tree on every run) and the hand-written model `CijModel/Voigt.lean`:

  * `srcCall alias args`   runs `cij.util.<alias>(*args)` (`c_`, `e_`, `s_`, resolved through the translated aliases of
                           `cij/util/__init__.py`) inside the PyLite evaluator;
  * `srcProp cls p self`   reads a property / calls `__repr__` of a NamedTuple instance;
  * decoders from PyLite values to the model's `Strain` / `Modulus`, and the `agree…` predicates used by the theorems
    `voigt_model_is_source*` — `outOfFuel` and `unsupported` agree with NOTHING;
  * `domainC`, `domainE`   the complete finite domain of C10 (the same enumeration as `harness/c10.py::all_inputs`, which the
                           harness cross-checks through the op `c10.domain`).
  No Mathlib; executable (the driver runs the same definitions).
-/
import CijModel.PyLite
import CijModel.Voigt
import Generated.VoigtSrc

namespace Cij.VoigtSrc
open PyLite

/-- evaluator budget used by the theorems AND by the driver: nesting depth 2000, Python recursion limit 60 frames
(the only unbounded recursion of voigt.py, `C_.create(<one digit>)`, needs 2 frames per round). -/
def fuel : Fuel := { depth := 2000, frames := 60 }

def src : Module := Generated.VoigtSrc.module

def Arg.toVal : Cij.Arg → Val
  | .int n => .int n
  | .str s => .str (codes s)

/-- `cij.util.<alias>(*args)` on the translated source -/
def srcCallWith (fl : Fuel) (alias : String) (args : List Val) : Result Val :=
  match Generated.VoigtSrc.utilAliases.lookup alias with
  | some (c, f) => PyLite.eval src fl ⟨c, f⟩ args
  | none => .unsupported ("no alias " ++ alias ++ " in cij/util/__init__.py")

def srcCall (alias : String) (args : List Val) : Result Val := srcCallWith fuel alias args

/-- `Class.fn(*args)` on the translated source -/
def srcFun (cls fn : String) (args : List Val) : Result Val := PyLite.eval src fuel ⟨cls, fn⟩ args

/-- property `p` (or method `__repr__`) of the instance `self` of class `cls` -/
def srcProp (cls p : String) (self : Val) : Result Val := PyLite.eval src fuel ⟨cls, p⟩ [self]

def c_ (args : List Cij.Arg) : Result Val := srcCall "c_" (args.map Arg.toVal)
def e_ (args : List Cij.Arg) : Result Val := srcCall "e_" (args.map Arg.toVal)

/-! ### values ↔ model -/

def Strain.toVal (s : Cij.Strain) : Val := .record "StrainRepresentation" [.int s.i, .int s.j]
def Modulus.toVal (m : Cij.Modulus) : Val := .record "ModulusRepresentation" [Strain.toVal m.i, Strain.toVal m.j]

def valToStrain : Val → Option Cij.Strain
  | .record "StrainRepresentation" [.int a, .int b] => some ⟨a, b⟩
  | _ => none

def valToModulus : Val → Option Cij.Modulus
  | .record "ModulusRepresentation" [a, b] =>
    match valToStrain a, valToStrain b with
    | some x, some y => some ⟨x, y⟩
    | _, _ => none
  | _ => none

/-- source result vs model result: the same value, or both reject (the model has one rejection outcome); running out of fuel
or leaving the subset is agreement with nothing -/
def agreeWith {α} [BEq α] (dec : Val → Option α) (r : Result Val) (m : Option α) : Bool :=
  match r, m with
  | .ok v, some x => (match dec v with | some y => y == x | none => false)
  | .exc _ _, none => true
  | _, _ => false

def agreeC (args : List Cij.Arg) : Bool := agreeWith valToModulus (c_ args) (Cij.Modulus.create args)
def agreeE (args : List Cij.Arg) : Bool := agreeWith valToStrain (e_ args) (Cij.Strain.create args)

def isInt (r : Result Val) (n : Int) : Bool := match r with | .ok (.int k) => k == n | _ => false
def isBool (r : Result Val) (b : Bool) : Bool := match r with | .ok (.bool k) => k == b | _ => false
def isStr (r : Result Val) (s : String) : Bool := match r with | .ok (.str k) => k == codes s | _ => false
def isInts (r : Result Val) (ns : List Int) : Bool :=
  match r with
  | .ok (.tuple xs) => xs.length == ns.length && (xs.zip ns).all fun (x, n) => match x with | .int k => k == n | _ => false
  | _ => false
def isEnum (r : Result Val) (c m : String) : Bool := match r with | .ok (.enumv c' m') => c' == c && m' == m | _ => false
def excKind (r : Result Val) : Option String := match r with | .exc k _ => some k | _ => none
def isExc (r : Result Val) (kind : String) : Bool := match r with | .exc k _ => k == kind | _ => false
def isExcMsg (r : Result Val) (kind msg : String) : Bool :=
  match r with | .exc k [.str s] => k == kind && s == codes msg | _ => false

def calcName : Cij.Modulus.CalcType → String
  | .longitudinal => "LONGITUDINAL" | .offDiagonal => "OFF_DIAGONAL" | .shear => "SHEAR"

/-- every view of a key, read off the translated source, equals the model's -/
def agreeViewsC (k : Cij.Modulus) : Bool :=
  let v := Modulus.toVal k
  let P := srcProp "ModulusRepresentation"
  let (a, b, c, d) := k.standard
  (match k.voigt with | some (x, y) => isInts (P "voigt" v) [x, y] && isInts (P "v" v) [x, y] | none => false) &&
  isInts (P "standard" v) [a, b, c, d] && isInts (P "s" v) [a, b, c, d] &&
  isInt (P "multiplicity" v) k.multiplicity &&
  isBool (P "is_longitudinal" v) k.isLongitudinal && isBool (P "is_off_diagonal" v) k.isOffDiagonal &&
  isBool (P "is_shear" v) k.isShear &&
  isEnum (P "calc_type" v) "ElasticModulusCalculationType" (calcName k.calcType)

def agreeViewsE (s : Cij.Strain) : Bool :=
  let v := Strain.toVal s
  let P := srcProp "StrainRepresentation"
  (match s.voigt with | some x => isInt (P "voigt" v) x && isInt (P "v" v) x | none => false) &&
  isInts (P "standard" v) [s.i, s.j] && isInts (P "s" v) [s.i, s.j]

def digitsStr (ds : List Int) : String := String.join (ds.map toString)

/-! ### what the translated source answers, in the model's vocabulary

`none` stands for "no key": an exception, but also out-of-fuel / unsupported — so an equation `srcKey… = some k` says the source
ANSWERED `k`, while `srcKey… = none` alone says nothing (rejection is stated with `excKind`). -/

def decodeC (r : Result Val) : Option Cij.Modulus := match r with | .ok v => valToModulus v | _ => none
def decodeE (r : Result Val) : Option Cij.Strain := match r with | .ok v => valToStrain v | _ => none

/-- `c_(i, j, k, l)`, `c_(a, b)`, `e_(i, j)`, `e_(v)` on the translated source -/
def srcKey4 (t : Int × Int × Int × Int) : Option Cij.Modulus := decodeC (c_ [.int t.1, .int t.2.1, .int t.2.2.1, .int t.2.2.2])
def srcKey2 (p : Int × Int) : Option Cij.Modulus := decodeC (c_ [.int p.1, .int p.2])
def srcStrain2 (i j : Int) : Option Cij.Strain := decodeE (e_ [.int i, .int j])
def srcStrain1 (v : Int) : Option Cij.Strain := decodeE (e_ [.int v])

/-- views of a key, read off the translated source (`none`: the source did not answer a value of the expected shape) -/
def intsOf (r : Result Val) : Option (List Int) :=
  match r with
  | .ok (.tuple xs) => xs.mapM fun x => match x with | .int k => some k | _ => none
  | _ => none
def intOf (r : Result Val) : Option Int := match r with | .ok (.int k) => some k | _ => none
def boolOf (r : Result Val) : Option Bool := match r with | .ok (.bool b) => some b | _ => none
def strOfR (r : Result Val) : Option String := match r with | .ok (.str s) => some (Str.toString s) | _ => none
def enumOf (r : Result Val) : Option String := match r with | .ok (.enumv _ m) => some m | _ => none

def srcVoigt (k : Cij.Modulus) : Option (List Int) := intsOf (srcProp "ModulusRepresentation" "voigt" (Modulus.toVal k))
def srcStandard (k : Cij.Modulus) : Option (List Int) := intsOf (srcProp "ModulusRepresentation" "standard" (Modulus.toVal k))
def srcMultiplicity (k : Cij.Modulus) : Option Int := intOf (srcProp "ModulusRepresentation" "multiplicity" (Modulus.toVal k))
def srcCalcType (k : Cij.Modulus) : Option String := enumOf (srcProp "ModulusRepresentation" "calc_type" (Modulus.toVal k))
def srcFlag (p : String) (k : Cij.Modulus) : Option Bool := boolOf (srcProp "ModulusRepresentation" p (Modulus.toVal k))
def srcRepr (k : Cij.Modulus) : Result Val := srcProp "ModulusRepresentation" "__repr__" (Modulus.toVal k)
def srcReprE (s : Cij.Strain) : Result Val := srcProp "StrainRepresentation" "__repr__" (Strain.toVal s)

/-- `repr` as the documented map dictates it: Voigt digits, then the standard digits in parentheses -/
def stdOf (v : Int) : List Int := match Cij.voigtLookup v with | some (a, b) => [a, b] | none => []
def reprSpec (p : Int × Int) : String := digitsStr [p.1, p.2] ++ "(" ++ digitsStr (stdOf p.1 ++ stdOf p.2) ++ ")"
def reprSpecE (v : Int) : String := digitsStr [v] ++ "(" ++ digitsStr (stdOf v) ++ ")"

/-! ### the complete finite domain of C10 -/

def rangeI (a b : Int) : List Int := (List.range (b - a + 1).toNat).map fun k => a + Int.ofNat k

def digitsInt (ds : List Int) : Int := ds.foldl (fun acc d => 10 * acc + d) 0

/-- positional, str and (unless it would start with 0) int spelling of a digit tuple -/
def spell (ds : List Int) : List (List Cij.Arg) :=
  [ds.map .int, [.str (digitsStr ds)]] ++ (if ds.head? == some 0 then [] else [[.int (digitsInt ds)]])

def tuples2 (r : List Int) : List (List Int) := r.flatMap fun a => r.map fun b => [a, b]
def tuples4 (r : List Int) : List (List Int) :=
  r.flatMap fun a => r.flatMap fun b => r.flatMap fun c => r.map fun d => [a, b, c, d]

def oddStrs : List String := ["", "123", "12345", "1a", "-12", "1 2", "a", "11111", "111"]
def oddInts : List Int := [123, 12345, -12, -1123, 111, 100, 1000, 99999]

/-- singles: ints −2..11 and their str spelling when non-negative, malformed strings, long / negative ints -/
def singles : List (List Cij.Arg) :=
  ((rangeI (-2) 11).flatMap fun v => [[Cij.Arg.int v]] ++ (if v ≥ 0 then [[Cij.Arg.str (toString v)]] else [])) ++
  oddStrs.map (fun s => [Cij.Arg.str s]) ++ oddInts.map (fun n => [Cij.Arg.int n])

/-! `c_`: 4 indices 0..4 (⊇ the 81 tuples and their ring), 2 Voigt indices 0..7 (⊇ the 36 pairs and their ring), singles,
wrong arities -/
/-- the 4-index spellings whose first two indices are `a`, `b` (the kernel decides the domain block by block) -/
def blockC4 (a b : Int) : List (List Cij.Arg) :=
  ((rangeI 0 4).flatMap fun c => (rangeI 0 4).map fun d => [a, b, c, d]).flatMap spell
def domainC4 : List (List Cij.Arg) := (rangeI 0 4).flatMap fun a => (rangeI 0 4).flatMap fun b => blockC4 a b
/-- the 2-index spellings whose first index is `a` -/
def blockC2 (a : Int) : List (List Cij.Arg) := ((rangeI 0 7).map fun b => [a, b]).flatMap spell
def domainC2 : List (List Cij.Arg) := (rangeI 0 7).flatMap blockC2
def domainC1 : List (List Cij.Arg) := singles ++ [[.int 1, .int 2, .int 3], [], [.int 1, .int 1, .int 1, .int 1, .int 1]]
def domainC : List (List Cij.Arg) := domainC4 ++ domainC2 ++ domainC1

/-- `e_`: 2 indices 0..4 (⊇ the 9 pairs and their ring), Voigt index / singles, wrong arities -/
def domainE : List (List Cij.Arg) :=
  (tuples2 (rangeI 0 4)).flatMap spell ++ singles ++ [[], [.int 1, .int 2, .int 3]]

end Cij.VoigtSrc
