/-
  Specification side of C08: rank-4 tensors, rotations, the 21 canonical components, the generators of
  the rotation part of the nine Laue classes in the standard setting, and the *action matrix* of a
  generator on the 21 components — all computed, nothing tabulated by hand.

  * No Mathlib.  Everything numeric is polymorphic in the scalar `α` (only `+`, `*`, numerals), so the same
    `rotate` is evaluated over `ZS = ℤ[√3]` by the kernel (certificates), over `Float` by the driver
    (cross-check against numpy's einsum in the harness) and is the subject of the theorems over `ℝ`.
  * The canonical key of an index tuple is the one of C10 (`Modulus.fromStandard`, `CijModel/Voigt.lean`);
    the order of the 21 components is `Generated.symbolPairs` (the order of `fill.py`'s `symbols`).
  * The relation rows are `Generated.constraints_<system>` (re-translated from /repo on every run).
-/
import CijModel.Voigt
import Generated.Constraints

namespace Cij.Laue

/-! ### ℤ[√3] as integer pairs `re + im·√3` -/

structure ZS where
  re : Int
  im : Int
  deriving DecidableEq, Repr, Inhabited

namespace ZS
instance : Add ZS := ⟨fun a b => ⟨a.re + b.re, a.im + b.im⟩⟩
instance : Sub ZS := ⟨fun a b => ⟨a.re - b.re, a.im - b.im⟩⟩
instance : Neg ZS := ⟨fun a => ⟨-a.re, -a.im⟩⟩
instance : Mul ZS := ⟨fun a b => ⟨a.re * b.re + 3 * (a.im * b.im), a.re * b.im + a.im * b.re⟩⟩
instance (n : Nat) : OfNat ZS n := ⟨⟨n, 0⟩⟩
/-- the element √3 -/
def sqrt3 : ZS := ⟨0, 1⟩
def ofInt (n : Int) : ZS := ⟨n, 0⟩
end ZS

/-! ### tensors and rotations (generic scalar) -/

abbrev Mat3 (α : Type) := Fin 3 → Fin 3 → α
abbrev Tensor4 (α : Type) := Fin 3 → Fin 3 → Fin 3 → Fin 3 → α

section generic
variable {α : Type} [Add α] [Mul α]

def sum3 (f : Fin 3 → α) : α := f 0 + f 1 + f 2

def sum4 (f : Fin 3 → Fin 3 → Fin 3 → Fin 3 → α) : α :=
  sum3 fun p => sum3 fun q => sum3 fun r => sum3 fun s => f p q r s

/-- `C'_{ijkl} = g_{ip} g_{jq} g_{kr} g_{ls} C_{pqrs}` (the tensor seen after the rotation `g`). -/
def rotate (g : Mat3 α) (T : Tensor4 α) : Tensor4 α := fun i j k l =>
  sum4 fun p q r s => g i p * g j q * g k r * g l s * T p q r s

end generic

/-! ### the 21 components -/

/-- position of the canonical key of `(i,j,k,l)` (0-based indices) in `Generated.symbolPairs`;
    the key is C10's `Modulus.fromStandard`, its Voigt pair is looked up in the symbol order of `fill.py`. -/
def keyIndexNat (i j k l : Fin 3) : Nat :=
  match (Modulus.fromStandard (i.val + 1) (j.val + 1) (k.val + 1) (l.val + 1)).bind Modulus.voigt with
  | some (a, b) => Generated.symbolPairs.findIdx fun p => (p.1 : Int) == a && (p.2 : Int) == b
  | none => 0

def keyIndex (i j k l : Fin 3) : Fin 21 := Fin.ofNat 21 (keyIndexNat i j k l)

/-- the full tensor with the 21 components `c` (minor and major symmetries built in) -/
def tensorOf {α : Type} (c : Fin 21 → α) : Tensor4 α := fun i j k l => c (keyIndex i j k l)

/-- a standard index tuple of component `b`: Voigt pair from `symbolPairs`, each Voigt index expanded with
    `VOIGT_TO_STANDARD` (C10's table), 0-based. -/
def stdOfKey (b : Fin 21) : Fin 3 × Fin 3 × Fin 3 × Fin 3 :=
  let p := Generated.symbolPairs.getD b.val (1, 1)
  let s := (voigtLookup p.1).getD (1, 1)
  let t := (voigtLookup p.2).getD (1, 1)
  (Fin.ofNat 3 (s.1 - 1).toNat, Fin.ofNat 3 (s.2 - 1).toNat, Fin.ofNat 3 (t.1 - 1).toNat, Fin.ofNat 3 (t.2 - 1).toNat)

/-- component `b` of a full tensor -/
def comp {α : Type} (T : Tensor4 α) (b : Fin 21) : α :=
  let t := stdOfKey b
  T t.1 t.2.1 t.2.2.1 t.2.2.2

/-! ### generators (standard setting), as *twice* the rotation matrix so that all entries lie in ℤ[√3] -/

inductive Gen
  | twoX | twoY | twoZ | fourZ | threeZ | sixZ | three111
  deriving DecidableEq, Repr

section gens
variable {α : Type} [Neg α] [OfNat α 0] [OfNat α 1] [OfNat α 2]

def matOfRows (r0 r1 r2 : α × α × α) : Mat3 α := fun i j =>
  let r := match i with | 0 => r0 | 1 => r1 | 2 => r2
  match j with | 0 => r.1 | 1 => r.2.1 | 2 => r.2.2

/-- `2·R` for the generator `R`; `s3` is the scalar √3.
    twoX = diag(1,−1,−1) …; fourZ: x→y, y→−x; threeZ / sixZ: rotation by 120° / 60° about z;
    three111: the cyclic permutation x→y→z→x. -/
def gen2 (s3 : α) : Gen → Mat3 α
  | .twoX     => matOfRows (2, 0, 0) (0, -2, 0) (0, 0, -2)
  | .twoY     => matOfRows (-2, 0, 0) (0, 2, 0) (0, 0, -2)
  | .twoZ     => matOfRows (-2, 0, 0) (0, -2, 0) (0, 0, 2)
  | .fourZ    => matOfRows (0, -2, 0) (2, 0, 0) (0, 0, 2)
  | .threeZ   => matOfRows (-1, -s3, 0) (s3, -1, 0) (0, 0, 2)
  | .sixZ     => matOfRows (1, -s3, 0) (s3, 1, 0) (0, 0, 2)
  | .three111 => matOfRows (0, 0, 2) (2, 0, 0) (0, 2, 0)

end gens

/-- generators of the rotation part of the Laue class of each packaged system, standard setting:
    principal axis z, two-fold axis x where present, unique axis y for monoclinic. -/
def laueGens : String → List Gen
  | "triclinic"    => []                       -- -1
  | "monoclinic"   => [.twoY]                  -- 2/m, unique axis y
  | "orthorhombic" => [.twoX, .twoY, .twoZ]    -- mmm
  | "tetragonal7"  => [.fourZ]                 -- 4/m
  | "tetragonal6"  => [.fourZ, .twoX]          -- 4/mmm
  | "trigonal7"    => [.threeZ]                -- -3
  | "trigonal6"    => [.threeZ, .twoX]         -- -3m
  | "hexagonal"    => [.sixZ, .twoX]           -- 6/mmm
  | "cubic"        => [.fourZ, .three111]      -- m-3m
  | _ => []

/-! ### action of a (doubled) generator on the 21 components, over ℤ[√3]

  `comp (rotate G (tensorOf c)) a = Σ_x coef G (std a) x · c (key x) = Σ_b (Σ_{x ∈ fiber b} coef G (std a) x) · c_b`
  (proved for every commutative ring in `CijProofs/Lemmas/Laue.lean`); `actZ` is the inner sum over ℤ[√3]. -/

abbrev Idx4 := Fin 3 × Fin 3 × Fin 3 × Fin 3

/-- the 81 index tuples, in the order of the nested sums of `rotate` -/
def tuples : List Idx4 :=
  let l3 : List (Fin 3) := [0, 1, 2]
  l3.flatMap fun p => l3.flatMap fun q => l3.flatMap fun r => l3.map fun s => (p, q, r, s)

def keyOf (x : Idx4) : Fin 21 := keyIndex x.1 x.2.1 x.2.2.1 x.2.2.2

/-- the index tuples whose canonical key is component `b` -/
def fiber (b : Fin 21) : List Idx4 := tuples.filter fun x => keyOf x = b

/-- `g_{ip} g_{jq} g_{kr} g_{ls}` for target `t = (i,j,k,l)` and source `x = (p,q,r,s)` -/
def coef {α : Type} [Mul α] (G : Mat3 α) (t x : Idx4) : α :=
  G t.1 x.1 * G t.2.1 x.2.1 * G t.2.2.1 x.2.2.1 * G t.2.2.2 x.2.2.2

def sumList {α : Type} [Add α] [OfNat α 0] (l : List α) : α := l.foldr (· + ·) 0

/-- entry (a, b) of the action matrix of the doubled generator `2R` (= 16 × the action of `R`) -/
def actZ (g : Gen) (a b : Fin 21) : ZS := sumList ((fiber b).map (coef (gen2 ZS.sqrt3 g) (stdOfKey a)))

/-- `N_g = act(2R) − 16·1` — its kernel is the set of tensors invariant under `R` -/
def defectZ (g : Gen) (a b : Fin 21) : ZS := actZ g a b - (if a = b then 16 else 0)

end Cij.Laue
