/-
  Scalar expressions in one variable `q` with `exp`, as they occur in `nonshear.py` (`Q1`, `Q2`).
  The translator (tools/gen_tables.py) extracts the return expressions of those properties from the
  source on every run into `Generated/QExprs.lean`; this file gives them three semantics:
    * `eval`   — over any scalar type with the usual operators and an `exp` (Float in the driver, ℝ in proofs),
    * `evalCls`— an abstract IEEE-754 special-value semantics (classes nan/±inf/zero/finite by sign and by
                 comparison with 1), with rounding outcomes (overflow, underflow, absorption) as explicit
                 non-determinism,
    * `Denoms` — the list of denominators (for the "no division by zero" theorems).
-/
namespace Cij

inductive QExpr where
  | q
  | const (n : Nat)
  | neg (a : QExpr)
  | add (a b : QExpr)
  | sub (a b : QExpr)
  | mul (a b : QExpr)
  | div (a b : QExpr)
  | pow (a : QExpr) (n : Nat)      -- `a ** n`, n a literal
  | exp (a : QExpr)                -- `numpy.exp(a)`
  deriving Repr, DecidableEq, Inhabited

namespace QExpr

/-- generic evaluation; `npow x n` is repeated multiplication (numpy's integer power for small n) -/
def eval {α} [Add α] [Sub α] [Mul α] [Div α] [Neg α] [NatCast α] (expf : α → α) (x : α) : QExpr → α
  | .q => x
  | .const n => (n : α)
  | .neg a => - eval expf x a
  | .add a b => eval expf x a + eval expf x b
  | .sub a b => eval expf x a - eval expf x b
  | .mul a b => eval expf x a * eval expf x b
  | .div a b => eval expf x a / eval expf x b
  | .pow a n => (List.replicate n (eval expf x a)).foldl (· * ·) (1 : Nat)
  | .exp a => expf (eval expf x a)

/-- all denominators occurring in the expression -/
def denoms : QExpr → List QExpr
  | .q | .const _ => []
  | .neg a | .pow a _ | .exp a => denoms a
  | .add a b | .sub a b | .mul a b => denoms a ++ denoms b
  | .div a b => b :: (denoms a ++ denoms b)

end QExpr

/-! ### IEEE-754 special-value classes -/

/-- `neg` = finite < 0; `sub1` = 0 < x < 1; `gt1` = 1 < x < ∞ (finite); `zero` = ±0 -/
inductive Cls | nan | ninf | neg | zero | sub1 | one | gt1 | pinf
  deriving DecidableEq, Repr, Inhabited

namespace Cls

abbrev CSet := List Cls

def union (a b : CSet) : CSet := a ++ b.filter (fun x => !a.contains x)

def lift2 (f : Cls → Cls → CSet) (a b : CSet) : CSet :=
  (a.flatMap fun x => b.flatMap fun y => f x y).eraseDups

def lift1 (f : Cls → CSet) (a : CSet) : CSet := (a.flatMap f).eraseDups

/-- magnitudes of the finite negatives, as positive classes -/
def posMags : CSet := [sub1, one, gt1]

def negate : Cls → CSet
  | nan => [nan] | ninf => [pinf] | pinf => [ninf] | zero => [zero]
  | neg => posMags | sub1 => [neg] | one => [neg] | gt1 => [neg]

/-- product of two NON-NEGATIVE, non-nan classes (incl. zero and +inf) -/
def mulPos : Cls → Cls → CSet
  | zero, pinf => [nan] | pinf, zero => [nan]
  | zero, _ => [zero] | _, zero => [zero]
  | pinf, _ => [pinf] | _, pinf => [pinf]
  | one, x => [x] | x, one => [x]
  | sub1, sub1 => [sub1, zero]            -- underflow possible
  | sub1, gt1 => [sub1, one, gt1] | gt1, sub1 => [sub1, one, gt1]
  | gt1, gt1 => [gt1, pinf]               -- overflow possible
  | _, _ => [nan]                          -- unreachable for the stated domain

/-- sign (−1, 0, +1) and magnitude classes of a class; `none` for nan -/
def split : Cls → Option (Int × CSet)
  | nan => none
  | ninf => some (-1, [pinf]) | neg => some (-1, posMags)
  | zero => some (0, [zero])
  | sub1 => some (1, [sub1]) | one => some (1, [one]) | gt1 => some (1, [gt1]) | pinf => some (1, [pinf])

/-- attach a sign to a non-negative class -/
def signed (s : Int) (c : Cls) : Cls :=
  if s ≥ 0 then c else
  match c with
  | pinf => ninf | zero => zero | nan => nan | _ => neg

def mul (a b : Cls) : CSet :=
  match split a, split b with
  | some (sa, ma), some (sb, mb) =>
      ((ma.flatMap fun x => mb.flatMap fun y => mulPos x y).map (signed (if sa * sb < 0 then -1 else 1))).eraseDups
  | _, _ => [nan]

/-- quotient of two non-negative non-nan classes; a zero divisor has unknown sign (±0) -/
def divPos : Cls → Cls → CSet
  | zero, zero => [nan] | pinf, pinf => [nan]
  | zero, _ => [zero]
  | _, zero => [pinf, ninf]
  | pinf, _ => [pinf]
  | _, pinf => [zero]
  | x, one => [x]
  | sub1, sub1 => [sub1, one, gt1, pinf]
  | sub1, gt1 => [sub1, zero]
  | one, sub1 => [gt1, pinf]
  | one, gt1 => [sub1]
  | gt1, sub1 => [gt1, pinf]
  | gt1, gt1 => [sub1, one, gt1]
  | _, _ => [nan]

def div (a b : Cls) : CSet :=
  match split a, split b with
  | some (sa, ma), some (sb, mb) =>
      ((ma.flatMap fun x => mb.flatMap fun y => divPos x y).flatMap fun c =>
        -- a ±inf coming from a zero divisor keeps both signs
        if sb == 0 then [c] else [signed (if sa * sb < 0 then -1 else 1) c]).eraseDups
  | _, _ => [nan]

/-- sum of two non-negative non-nan classes -/
def addPos : Cls → Cls → CSet
  | zero, x => [x] | x, zero => [x]
  | pinf, _ => [pinf] | _, pinf => [pinf]
  | sub1, sub1 => [sub1, one, gt1]
  | sub1, one => [one, gt1] | one, sub1 => [one, gt1]     -- 1 + tiny rounds to 1
  | sub1, gt1 => [gt1] | gt1, sub1 => [gt1]
  | one, one => [gt1] | one, gt1 => [gt1] | gt1, one => [gt1]
  | gt1, gt1 => [gt1, pinf]
  | _, _ => [nan]

/-- difference a − b of two non-negative non-nan classes -/
def subPos : Cls → Cls → CSet
  | pinf, pinf => [nan]
  | pinf, _ => [pinf] | _, pinf => [ninf]
  | x, zero => [x]
  | zero, _ => [neg]
  | one, one => [zero]
  | one, sub1 => [sub1, one]                               -- 1 − tiny rounds to 1
  | sub1, one => [neg]
  | one, gt1 => [neg] | sub1, gt1 => [neg]
  | gt1, one => [sub1, one, gt1] | gt1, sub1 => [sub1, one, gt1]
  | sub1, sub1 => [sub1, zero, neg]
  | gt1, gt1 => [neg, zero, sub1, one, gt1]
  | _, _ => [nan]

def add (a b : Cls) : CSet :=
  match split a, split b with
  | some (sa, ma), some (sb, mb) =>
      (ma.flatMap fun x => mb.flatMap fun y =>
        if sa ≥ 0 && sb ≥ 0 then addPos x y
        else if sa < 0 && sb < 0 then (addPos x y).map (signed (-1))
        else if sa ≥ 0 then subPos x y                       -- a + (−|b|)
        else subPos y x).eraseDups                           -- (−|a|) + b
  | _, _ => [nan]

def sub (a b : Cls) : CSet := lift1 (fun nb => add a nb) (negate b)

/-- possible results of libm `exp` -/
def expAll : Cls → CSet
  | nan => [nan] | ninf => [zero] | neg => [sub1, zero, one] | zero => [one]
  | sub1 => [one, gt1] | one => [gt1] | gt1 => [gt1, pinf] | pinf => [pinf]

def ofLit : Nat → Cls
  | 0 => zero | 1 => one | _ => gt1

/-- `c ** n` for a NON-NEGATIVE class as repeated multiplication -/
def powMag (c : Cls) : Nat → CSet
  | 0 => [one]
  | 1 => [c]
  | n + 2 => lift2 mul (powMag c (n + 1)) [c]

/-- `x ** n` as repeated multiplication of the SAME value (so a square is never negative) -/
def powSame (c : Cls) (n : Nat) : CSet :=
  match c with
  | neg => (lift1 (fun m => powMag m n) posMags).map (signed (if n % 2 == 0 then 1 else -1))
  | ninf => if n == 0 then [one] else if n % 2 == 0 then [pinf] else [ninf]
  | c => powMag c n

end Cls

namespace QExpr
open Cls

/-- abstract evaluation; `expf` and `powf` choose which rounding outcomes are considered
(`Cls.expAll`, `Cls.powSame` = all of them) -/
def evalCls (expf : Cls → CSet) (powf : Cls → Nat → CSet) (x : Cls) : QExpr → CSet
  | .q => [x]
  | .const n => [ofLit n]
  | .neg a => lift1 negate (evalCls expf powf x a)
  | .add a b => lift2 Cls.add (evalCls expf powf x a) (evalCls expf powf x b)
  | .sub a b => lift2 Cls.sub (evalCls expf powf x a) (evalCls expf powf x b)
  | .mul a b => lift2 Cls.mul (evalCls expf powf x a) (evalCls expf powf x b)
  | .div a b => lift2 Cls.div (evalCls expf powf x a) (evalCls expf powf x b)
  | .pow a n => lift1 (fun c => powf c n) (evalCls expf powf x a)
  | .exp a => lift1 expf (evalCls expf powf x a)

end QExpr

/-- class of a concrete double (used by the driver to validate the transfer tables against numpy) -/
def Cls.ofFloat (x : Float) : Cls :=
  if x.isNaN then .nan
  else if x == 0 then .zero
  else if x.isInf then (if x > 0 then .pinf else .ninf)
  else if x < 0 then .neg
  else if x < 1 then .sub1
  else if x == 1 then .one
  else .gt1

end Cij
