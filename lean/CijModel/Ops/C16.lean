/-
  Driver ops of property C16.  Wire encoding of a Python JSON-like value (`Cij.J`):
    null | true | false | ["q", "<numerator>", "<denominator>", isInt] | ["s", str] | ["a", [..]] | ["o", [[key, value], ..]]
  (numbers travel as exact rationals in decimal strings: a Python float is sent as `float.as_integer_ratio()`).
-/
import CijModel.Wire
import CijModel.Config
import CijModel.Schema
import Generated.ExampleSettings
open Lean Cij Cij.Wire Cij.Config Cij.Schema

namespace Cij.Ops.C16

partial def jOfJson (j : Json) : Except String J :=
  match j with
  | .null => .ok .null
  | .bool b => .ok (.bool b)
  | .arr a =>
    match a.toList with
    | [.str "q", .str n, .str d, .bool i] =>
      match n.toInt?, d.toNat? with
      | some n, some d => if d = 0 then .error "zero denominator" else .ok (.num n d i)
      | _, _ => .error "bad rational"
    | [.str "s", .str s] => .ok (.str s)
    | [.str "a", .arr xs] => do
        let l ← xs.toList.mapM jOfJson
        pure (.arr l)
    | [.str "o", .arr kvs] => do
        let l ← kvs.toList.mapM (fun kv => match kv with
          | .arr p => (match p.toList with
              | [.str k, v] => do let x ← jOfJson v; pure (k, x)
              | _ => .error "bad key/value pair")
          | _ => .error "bad key/value pair")
        pure (.obj l)
    | _ => .error "bad tagged value"
  | _ => .error "bad value"

partial def jToJson : J → Json
  | .null => .null
  | .bool b => .bool b
  | .num n d i => Json.arr #[.str "q", .str (toString n), .str (toString d), .bool i]
  | .str s => Json.arr #[.str "s", .str s]
  | .arr l => Json.arr #[.str "a", Json.arr (l.map jToJson).toArray]
  | .obj kv => Json.arr #[.str "o", Json.arr (kv.map (fun p => Json.arr #[.str p.1, jToJson p.2])).toArray]

def ordOf (s : String) : Except String (List String → List String) :=
  match s with
  | "id" => .ok id
  | "rev" => .ok List.reverse
  | "sort" => .ok (fun l => l.mergeSort (fun a b => decide (a ≤ b)))
  | "rot" => .ok (fun l => l.rotateLeft 1)
  | _ => .error s!"unknown order {s}"

def errName : Err → String
  | .attributeError => "AttributeError"
  | .keyError => "KeyError"
  | .runtimeError => "RuntimeError"

def resJson : Except Err J → Json
  | .ok r => Json.mkObj [("ok", jToJson r)]
  | .error e => Json.mkObj [("err", Json.str (errName e))]

def handle : Handler := fun op j =>
  match op with
  | "c16.update" => some do
      let u ← jOfJson (← field j "u")
      let d ← jOfJson (← field j "d")
      let ord ← ordOf (← strOfJson (← field j "ord"))
      pure (resJson (updateConfig ord u d))
  | "c16.apply_default" => some do
      let u ← jOfJson (← field j "u")
      let ord ← ordOf (← strOfJson (← field j "ord"))
      pure (resJson (applyDefaultConfig ord u))
  | "c16.validate" => some do
      let cfg ← jOfJson (← field j "cfg")
      pure (Json.bool (validateConfig cfg))
  | "c16.validate_with" => some do
      let cfg ← jOfJson (← field j "cfg")
      let sch ← jOfJson (← field j "schema")
      pure (Json.mkObj [("valid", Json.bool (validate sch cfg)), ("supported", Json.bool (supported sch))])
  | "c16.parser" => some do
      let f ← strOfJson (← field j "fname")
      pure (match parserFor f with
        | .ok .yaml => Json.str "yaml"
        | .ok .json => Json.str "json"
        | .error e => Json.str ("error:" ++ errName e))
  | "c16.default" => some (pure (jToJson Generated.defaultSettings))
  | "c16.schema" => some (pure (jToJson Generated.configSchema))
  | "c16.examples" => some (pure (Json.arr (Generated.exampleSettings.map
      (fun e => Json.arr #[.str e.1, jToJson e.2])).toArray))
  | _ => none

end Cij.Ops.C16
