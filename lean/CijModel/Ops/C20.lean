import CijModel.Wire
import CijModel.QhaInput
import CijModel.Evec
import CijModel.EvecSrc
import Generated.EvecSpec
open Lean Cij Cij.Wire

namespace Cij.Ops.C20
open Cij.Evec

def cxOfJson (j : Json) : Except String (Cx Float) := do
  match ← arrOfJson j with
  | [a, b] => pure ⟨← floatOfJson a, ← floatOfJson b⟩
  | _ => throw "complex = [re, im]"

def cx1 := listOf cxOfJson
def cx2 := listOf cx1

def jCx (z : Cx Float) : Json := Json.arr #[floatToJson z.re, floatToJson z.im]
def jCx2 (a : List (List (Cx Float))) : Json := Json.arr (a.map fun r => Json.arr (r.map jCx).toArray).toArray

def jRat (x : Rat) : Json := Json.arr #[jInt x.num, jInt (Int.ofNat x.den)]


def handle : Handler := fun op j =>
  match op with
  | "c20.sort" => some do
      let t ← cx2 (← field j "target")
      let b ← cx2 (← field j "base")
      let n ← natOfJson (← field j "n_items")
      pure (match evecSort (List.range n) t b with
        | some l => Json.arr (l.map fun o => match o with | some i => jInt i | none => Json.null).toArray
        | none => Json.str "error")
  | "c20.sort_mag" => some do
      -- greedy loop on a magnitude matrix given directly
      let a ← floats2 (← field j "a")
      let n := a.length
      let arr := a.toArray.map List.toArray
      let f : Nat → Nat → Float := fun i k => ((arr[i]?).bind (·[k]?)).getD 0
      let res := evecSortRun n f (fun k => k)
      pure (Json.arr (res.map fun o => match o with | some k => jInt k | none => Json.null).toArray)
  | "c20.disp2eig" => some do
      let a ← cx2 (← field j "a")
      let m ← floats1 (← field j "mass")
      pure (match disp2eig a m with
        | some r => jCx2 r
        | none => Json.str "error")
  | "c20.load" => some do
      let ls ← listOf strOfJson (← field j "lines")
      let nq ← natOfJson (← field j "nq")
      let np ← natOfJson (← field j "np")
      pure (match evecLoad pfRat nq np (ls.map String.toList) with
        | none => Json.str "error"
        | some qs => Json.arr (qs.map fun (q, ms) => Json.arr #[
            Json.arr (q.map jRat).toArray,
            Json.arr (ms.map fun ((i, thz, cm), v) => Json.arr #[
              Json.arr #[jInt i, jRat thz, jRat cm],
              Json.arr (v.map fun (x, y) => Json.arr #[jRat x, jRat y]).toArray]).toArray]).toArray)
  | "c20.rx" => some do
      -- the backtracking matcher of CijModel/EvecSrc.lean on the regex AST translated from evec_load.py on this run
      let which ← strOfJson (← field j "which")
      let ss ← listOf strOfJson (← field j "strings")
      let items := if which == "q" then Generated.qCoordsRegex else Generated.modeIndexRegex
      pure (Json.arr (ss.map fun s => match Cij.EvecSrc.Rx.search items s.toList with
        | none => Json.null
        | some gs => Json.arr (gs.map fun g => Json.str (String.ofList g)).toArray).toArray)
  | "c20.load_src" => some do
      -- evec_load driven by the translated description (regexes, slices, converters, steps): `EvecSrc.evecLoadS`
      let ls ← listOf strOfJson (← field j "lines")
      let nq ← natOfJson (← field j "nq")
      let np ← natOfJson (← field j "np")
      pure (match Cij.EvecSrc.evecLoadS Generated.loadSpec pfRat nq np (ls.map String.toList) with
        | none => Json.str "error"
        | some qs => Json.arr (qs.map fun (q, ms) => Json.arr #[
            Json.arr (q.map jRat).toArray,
            Json.arr (ms.map fun ((i, thz, cm), v) => Json.arr #[
              Json.arr #[jInt i, jRat thz, jRat cm],
              Json.arr (v.map fun (x, y) => Json.arr #[jRat x, jRat y]).toArray]).toArray]).toArray)
  | "c20.sort_src" => some do
      -- evec_sort driven by the translated description: `EvecSrc.runSort`
      let t ← cx2 (← field j "target")
      let b ← cx2 (← field j "base")
      let n ← natOfJson (← field j "n_items")
      pure (match Cij.EvecSrc.runSort Generated.sortSpec none none (List.range n) t b with
        | some l => Json.arr (l.map fun o => match o with | some i => jInt i | none => Json.null).toArray
        | none => Json.str "error")
  | "c20.disp2eig_src" => some do
      let a ← cx2 (← field j "a")
      let m ← floats1 (← field j "mass")
      pure (match Cij.EvecSrc.runDisp Generated.dispSpec a m with
        | some r => jCx2 r
        | none => Json.str "error")
  | _ => none

end Cij.Ops.C20
