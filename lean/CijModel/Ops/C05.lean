import CijModel.Wire
import CijModel.FullModulus
import CijModel.FullModulusGlue
import Generated.FullModulusGlue
open Lean Cij Cij.Wire Cij.LeastSq Cij.FullModulus

namespace Cij.Ops.C05

/-- exact value of a finite double -/
def floatToRat (x : Float) : Option Rat :=
  let b := x.toBits
  let neg := (b >>> 63) == 1
  let e := ((b >>> 52) &&& 0x7FF).toNat
  let m := (b &&& 0xFFFFFFFFFFFFF).toNat
  if e == 2047 then none else
  let mant : Nat := if e == 0 then m else m + 2 ^ 52
  let ex : Int := if e == 0 then -1074 else (e : Int) - 1075
  let r : Rat := if ex ≥ 0 then ((mant * 2 ^ ex.toNat : Nat) : Rat) else mkRat mant (2 ^ (-ex).toNat)
  some (if neg then -r else r)

/-- nearest double (error ≤ 1 ulp) of a rational -/
def ratToFloat (r : Rat) : Float :=
  if r.num == 0 then 0.0 else
  let n := r.num.natAbs
  let d := r.den
  let shift : Int := 66 + (d.log2 : Int) - (n.log2 : Int)
  let q : Nat := if shift ≥ 0 then (n <<< shift.toNat) / d else n / (d <<< (-shift).toNat)
  let f := (Float.ofNat q).scaleB (-shift)
  if r.num < 0 then -f else f

def ratOfJson (j : Json) : Except String Rat := do
  let x ← floatOfJson j
  match floatToRat x with
  | some r => pure r
  | none => .error "non-finite"

def rats1 := listOf ratOfJson
def rats2 := listOf rats1

def jRats1 (l : List Rat) : Json := jFloats1 (l.map ratToFloat)
def jRats2 (l : List (List Rat)) : Json := jFloats2 (l.map fun r => r.map ratToFloat)

def inputsOfJson (j : Json) : Except String (Inputs Rat) := do
  let table ← match (← field j "table") with
    | .obj kv => kv.toList.mapM fun (k, v) => do pure (k, ← rats1 v)
    | _ => .error "table: expected object"
  pure { strains := ← rats1 (← field j "strains"),
         strainArray := ← rats1 (← field j "strain_array"),
         volumes := ← rats1 (← field j "volumes"),
         vArray := ← rats1 (← field j "v_array"),
         table := table,
         lattice := ← rats2 (← field j "lattice"),
         gpaFactor := ← ratOfJson (← field j "gpa_factor") }

def optJson {β} (f : β → Json) : Option β → Json
  | some x => f x
  | none => Json.str "error"

/-! #### the translated source, interpreted (`CijModel/FullModulusGlue.lean` on `Generated/FullModulusGlue.lean`)

`calculate_eulerian_strain` is not rational: the interpreter's strain function is the finite table (reference volume, volume) ↦ strain
of exactly the values qha returned on this case (the static table's volumes and the grid against the table's first row; the phonon
file's volumes and the grid against that file's first volume). -/

def tableOfJson (j : Json) : Except String (List (String × List Rat)) := do
  match (← field j "table") with
  | .obj kv => kv.toList.mapM fun (k, v) => do pure (k, ← rats1 v)
  | _ => .error "table: expected object"

def srcCtx (j : Json) : Except String (FMGlue.Ctx Rat) := do
  let vols ← rats1 (← field j "volumes")
  let vArr ← rats1 (← field j "v_array")
  let strains ← rats1 (← field j "strains")
  let sArr ← rats1 (← field j "strain_array")
  let table ← tableOfJson j
  let lattice ← rats2 (← field j "lattice")
  let gpa ← ratOfJson (← field j "gpa_factor")
  let qv ← rats1 (← field j "qha_volumes")
  let qe ← rats1 (← field j "energies")
  let es ← rats1 (← field j "e_strains")
  let esa ← rats1 (← field j "e_strain_array")
  let v0 := vols.headD 0
  let q0 := qv.headD 0
  let tbl : List ((Rat × Rat) × Rat) :=
    (vols.zip strains).map (fun e => ((v0, e.1), e.2)) ++ (vArr.zip sArr).map (fun e => ((v0, e.1), e.2)) ++
    (qv.zip es).map (fun e => ((q0, e.1), e.2)) ++ (vArr.zip esa).map (fun e => ((q0, e.1), e.2))
  let rows : List (ElastDat.ElastVolume Rat) :=
    (List.range vols.length).map fun i => ⟨vols.getD i 0, table.map fun kc => (ElastDat.Key.raw kc.1, kc.2.getD i 0)⟩
  pure { strain := fun a b => ((tbl.find? fun e => e.1 == (a, b)).map (·.2)).getD 0,
         gpa := gpa,
         calculator := { vArray := vArr, modulusKeys := table.map fun kc => ElastDat.Key.raw kc.1,
                         elastData := { vref := 0, nv := vols.length, cellmass := 0, volumes := rows, lattice := lattice },
                         qhaVolumes := qv.zip qe,
                         cfgLeaf := fun _ => none,
                         cfgSection := fun p => p == ["elast"] || p == ["elast", "settings"] },
         phA := fun _ _ => none, phI := fun _ _ => none }

def srcAttrs : FMGlue.Env Rat := [("elast_data", .edata), ("calculator", .calcObj)]

def jVal : Option (FMGlue.Val Rat) → Json
  | some (.ar l) => jRats1 l
  | some (.mat m) => jRats2 m
  | _ => Json.str "error"

def handle : Handler := fun op j =>
  match op with
  | "c05.src" => some do
      -- the translated `get_static_modulus` (every key), `get_axial_strains`, `_calculate_pressure_static`, and `fit_modulus`
      -- with explicit orders, interpreted over Rat
      let C ← srcCtx j
      let table ← tableOfJson j
      let cls := Generated.FullModulusGlue.cls
      let fits ← match j.getObjVal? "fits" with
        | .ok (.arr a) => a.toList.mapM fun f => do
            let m ← rats1 (← field f "moduli")
            let k ← natOfJson (← field f "order")
            pure (jVal (FMGlue.callV cls C 4 srcAttrs "fit_modulus" [.ar m, .nat k]))
        | _ => pure []
      let sp := (FMGlue.runOnCalc C Generated.FullModulusGlue.pressureStatic []).bind fun r => FMGlue.lookup r.1 "static_p_array"
      pure (Json.mkObj [
        ("static", Json.mkObj (table.map fun kc =>
          (kc.1, jVal (FMGlue.callV cls C 5 srcAttrs "get_static_modulus" [.key (ElastDat.Key.raw kc.1)])))),
        ("axial", jVal (FMGlue.callV cls C 5 srcAttrs "get_axial_strains" [])),
        ("static_p", jVal sp),
        ("fits", Json.arr fits.toArray)])
  | "c05.static" => some do
      -- every key of the table: get_static_modulus(key) on the fine grid (exact over Rat, rounded once)
      let inp ← inputsOfJson j
      pure (Json.mkObj (inp.table.map fun (k, _) => (k, optJson jRats1 (getStaticModulus inp k))))
  | "c05.axial" => some do
      let inp ← inputsOfJson j
      pure (optJson jRats2 (getAxialStrains inp))
  | "c05.static_p" => some do
      let s ← rats1 (← field j "strains")
      let e ← rats1 (← field j "energies")
      let sa ← rats1 (← field j "strain_array")
      let v ← rats1 (← field j "v_array")
      pure (optJson jRats1 (staticPressure s e sa v))
  | "c05.total" => some do
      -- static[nax,:] + phonon, in double precision as numpy does
      let st ← floats1 (← field j "static")
      let ph ← floats2 (← field j "phonon")
      pure (jFloats2 (addStatic st ph))
  | "c05.task_fraction" => some do
      -- _make_param_by_strain_key (non-shear): strain row / its sum, in double precision
      let rows ← floats2 (← field j "rows")
      pure (jFloats2 (rows.map normaliseBySum))
  | "c05.lsq" => some do
      -- exact least squares: coefficients (highest first), exact minimum of Σ r², and the exact Σ r² of a
      -- candidate coefficient vector (numpy's), all rounded once
      let xs ← rats1 (← field j "xs")
      let ys ← rats1 (← field j "ys")
      let deg ← natOfJson (← field j "deg")
      let cand ← rats1 (← field j "candidate")
      match polyfit xs ys deg with
      | none => pure (Json.str "error")
      | some p => pure (Json.mkObj [("p", jRats1 p), ("min", floatToJson (ratToFloat (sqResidual xs ys p))),
                                    ("cand", floatToJson (ratToFloat (sqResidual xs ys cand))),
                                    ("cand_ge_min", Json.bool (sqResidual xs ys p ≤ sqResidual xs ys cand))])
  | _ => none

end Cij.Ops.C05
