/-
  Ops of C03 (and the Float instantiation shared with C04): the shear model run on the inputs the real
  `ShearElasticModulusPhononContribution` gets.
-/
import CijModel.Wire
import CijModel.Shear
open Lean Cij Cij.Wire Cij.Shear

namespace Cij.Ops.C03

instance : NatCast Float := ⟨Float.ofNat⟩

/-- `numpy.isclose(x, 0)` with the default `rtol=1e-5, atol=1e-8`: `|x - 0| <= atol + rtol*|0|` (False for NaN) -/
def isZeroF (x : Float) : Bool := x.abs ≤ 1e-8

def vec3OfList (l : List Float) : Vec3 Float :=
  let a := l.toArray
  fun i => a[i.val]?.getD 0.0

def mat3OfLists (l : List (List Float)) : Mat3 Float :=
  let a := (l.map List.toArray).toArray
  fun i j => (a[i.val]?.getD #[])[j.val]?.getD 0.0

def listOfVec3 (v : Vec3 Float) : List Float := [v 0, v 1, v 2]

def keyOfJson (j : Json) : Except String Modulus := do
  let l ← listOf intOfJson j
  match l with
  | [a, b] => match Modulus.fromVoigt a b with
      | some k => pure k
      | none => .error "bad key"
  | _ => .error "key must be a Voigt pair"

def jKey (k : Modulus) : Json := match k.voigt with
  | some (a, b) => jInts [a, b]
  | none => Json.null

def jKeys (l : List Modulus) : Json := Json.arr (l.map jKey).toArray

/-- a dict `key -> vector of cells`, sent as `[[a, b, [bits…]], …]` -/
def dictOfJson (j : Json) : Except String (List (Modulus × Array Float)) := do
  (← arrOfJson j).mapM fun e => do
    match (← arrOfJson e) with
    | [a, b, v] =>
        let k ← keyOfJson (Json.arr #[a, b])
        pure (k, (← floats1 v).toArray)
    | _ => .error "dict entry must be [a, b, values]"

/-- `self.modulus[key]` at cell `c` (a missing key is a Python KeyError: reported as an error by the op) -/
def lookupCell (d : List (Modulus × Array Float)) (c : Nat) (k : Modulus) : Float :=
  match d.find? (fun e => e.1 == k) with
  | some e => e.2[c]?.getD (0.0 / 0.0)
  | none => 0.0 / 0.0

def handle : Handler := fun op j =>
  match op with
  | "c03.keys" => some do
      let key ← keyOfJson (← field j "key")
      let lam := vec3OfList (← floats1 (← field j "lam"))
      let e : Mat3 Float := fictitiousStrain key
      pure (Json.mkObj [
        ("fict", jFloats2 (fin3.map fun i => fin3.map fun k => e i k)),
        ("orig", jKeys (modulusKeys isZeroF key)),
        ("rot", jKeys (modulusKeysRotated isZeroF lam)),
        ("mult", jInt key.multiplicity)])
  | "c03.target" => some do
      let key ← keyOfJson (← field j "key")
      let lam := vec3OfList (← floats1 (← field j "lam"))
      let n ← natOfJson (← field j "cells")
      let m ← dictOfJson (← field j "modulus")
      let mr ← dictOfJson (← field j "modulus_rotated")
      let missing := (modulusKeys isZeroF key).any (fun k => !(m.any fun e => e.1 == k)) ||
                     (modulusKeysRotated isZeroF lam).any (fun k => !(mr.any fun e => e.1 == k))
      if missing then pure (Json.str "error") else
      let cells := List.range n
      let e : Mat3 Float := fictitiousStrain key
      pure (Json.mkObj [
        ("value", jFloats1 (cells.map fun c => shearValue isZeroF key lam (lookupCell m c) (lookupCell mr c))),
        ("e_orig", jFloats1 (cells.map fun c => strainEnergy isZeroF e (lookupCell m c) (some key))),
        ("e_rot", jFloats1 (cells.map fun c => strainEnergy isZeroF (diagMat lam) (lookupCell mr c) none))])
  | "c03.strain_rotated" => some do
      let T := mat3OfLists (← floats2 (← field j "T"))
      let s ← floats2 (← field j "strain")
      pure (jFloats2 (s.map fun r => listOfVec3 (strainRotated T (vec3OfList r))))
  | "c03.rotate" => some do
      -- the rotated tensor read through the six non-shear keys, from the 21 values (order of `keys21`)
      let T := mat3OfLists (← floats2 (← field j "T"))
      let c := (← floats1 (← field j "c")).toArray
      let ks := keys21.map keyOfVoigt
      let cf : Modulus → Float := fun k => match ks.idxOf? k with
        | some i => c[i]?.getD 0.0
        | none => 0.0
      pure (jFloats1 (nonShearKeys.map fun k => rotatedLookup T cf k))
  | _ => none

end Cij.Ops.C03
