import CijModel.Wire
import CijModel.QhaInput
import CijModel.ElastDat
import CijModel.Regex
import Generated.ReadersSpec
open Lean Cij Cij.Wire

namespace Cij.Ops.C17
open Cij.QhaInput Cij.ElastDat

/-- exact value of a finite double (bit pattern → rational) -/
def ratOfBits (b : Nat) : Except String Rat :=
  let sign := b / 2 ^ 63
  let e := (b / 2 ^ 52) % 2048
  let m := b % 2 ^ 52
  if e == 2047 then .error "non-finite float" else
  let mag : Rat := if e == 0 then mkRat (Int.ofNat m) (2 ^ 1074)
    else if e ≥ 1075 then ((((2 ^ 52 + m) * 2 ^ (e - 1075) : Nat) : Int) : Rat)
    else mkRat (Int.ofNat (2 ^ 52 + m)) (2 ^ (1075 - e))
  .ok (if sign == 1 then -mag else mag)

def ratOfJson (j : Json) : Except String Rat := do ratOfBits (← natOfJson j)
def rats1 := listOf ratOfJson
def rats2 := listOf rats1

def jRat (x : Rat) : Json := Json.arr #[jInt x.num, jInt (Int.ofNat x.den)]
def jRats (l : List Rat) : Json := Json.arr (l.map jRat).toArray
def jLines (l : List Line) : Json := Json.arr (l.map jStrs).toArray
def linesOfJson := listOf (listOf strOfJson)

def dataOfJson (j : Json) : Except String (Data Rat) := do
  let nv ← natOfJson (← field j "nv")
  let nq ← natOfJson (← field j "nq")
  let np ← natOfJson (← field j "np")
  let nm ← natOfJson (← field j "nm")
  let na ← natOfJson (← field j "na")
  let ws ← (← arrOfJson (← field j "weights")).mapM fun w => do
    match ← arrOfJson w with
    | [c, x] => pure (⟨← rats1 c, ← ratOfJson x⟩ : QPointWeight Rat)
    | _ => throw "weight"
  let vs ← (← arrOfJson (← field j "volumes")).mapM fun v => do
    match ← arrOfJson v with
    | [p, vv, e, qs] =>
      let qs ← (← arrOfJson qs).mapM fun q => do
        match ← arrOfJson q with
        | [c, ms] => pure (⟨← rats1 c, ← rats1 ms⟩ : QPointData Rat)
        | _ => throw "qpoint"
      pure (⟨← ratOfJson p, ← ratOfJson vv, ← ratOfJson e, qs⟩ : VolumeData Rat)
    | _ => throw "volume"
  pure { nv, nq, np, nm, na, weights := ws, volumes := vs }

def dataJson (d : Data Rat) : Json :=
  Json.mkObj [
    ("nv", jInt d.nv), ("nq", jInt d.nq), ("np", jInt d.np), ("nm", jInt d.nm), ("na", jInt d.na),
    ("weights", Json.arr (d.weights.map fun w => Json.arr #[jRats w.coord, jRat w.weight]).toArray),
    ("volumes", Json.arr (d.volumes.map fun v => Json.arr #[jRat v.pressure, jRat v.volume, jRat v.energy,
        Json.arr (v.qPoints.map fun q => Json.arr #[jRats q.coord, jRats q.modes]).toArray]).toArray)]

def keyJson : Key → Json
  | .mod m => match m.voigt with
    | some (a, b) => Json.mkObj [("v", jInts [a, b])]
    | none => Json.mkObj [("v", Json.null)]
  | .raw s => Json.mkObj [("raw", Json.str s)]

def elastJson (d : ElastData Rat) : Json :=
  Json.mkObj [
    ("vref", jRat d.vref), ("nv", jInt d.nv), ("cellmass", jRat d.cellmass),
    ("volumes", Json.arr (d.volumes.map fun v => Json.arr #[jRat v.volume,
        Json.arr (v.moduli.map fun (k, x) => Json.arr #[keyJson k, jRat x]).toArray]).toArray),
    ("lattice", Json.arr (d.lattice.map jRats).toArray)]

def optJson {α} (f : α → Json) : Option α → Json
  | some a => f a
  | none => Json.str "error"

/-- groups of a match as strings; no match = null -/
def groupsJson : Option Regex.Groups → Json
  | some gs => Json.arr (gs.map fun g => Json.str (String.ofList g)).toArray
  | none => Json.null

/-- a raw text line → the model's token list (`Regex.splitWs` = `str.split()`) -/
def tokensOfRaw (s : String) : Line := (Regex.splitWs s.toList).map String.ofList

/-- the regex the SOURCE holds now (translated into `Generated.Readers`) by the name of the Python constant -/
def generatedRegex : String → Option (List Regex.Instr)
  | "REGEX_INFO_START" => some Generated.Readers.regexInfoStart
  | "REGEX_PVE" => some Generated.Readers.regexPVE
  | "REGEX_MODULUS" => some Generated.Readers.regexModulus
  | _ => none

def handle : Handler := fun op j =>
  match op with
  | "c17.regex" => some do
      -- `re.search(pattern, s)`: by generated name, or by pattern text through the Lean parser
      let subj ← strOfJson (← field j "s")
      match j.getObjVal? "name" with
      | .ok n => do
          let n ← strOfJson n
          match generatedRegex n with
          | some p => pure (Json.mkObj [("groups", groupsJson (Regex.search p subj.toList))])
          | none => pure (Json.mkObj [("groups", Json.str "unknown-name")])
      | .error _ => do
          let pat ← strOfJson (← field j "pattern")
          match Regex.searchText pat.toList subj.toList with
          | some r => pure (Json.mkObj [("groups", groupsJson r)])
          | none => pure (Json.mkObj [("groups", Json.str "unsupported-pattern")])
  | "c17.lex" => some do
      -- the regex-free recognisers of the model on one raw line
      let subj ← strOfJson (← field j "s")
      let cs := subj.toList
      pure (Json.mkObj [
        ("tokens", jStrs (tokensOfRaw subj)),
        ("info", groupsJson (Regex.recogInfo cs)),
        ("pve", groupsJson (Regex.recogPVE cs)),
        ("modulus", groupsJson (Regex.recogModulus cs)),
        ("match_info", match matchInfo (tokensOfRaw subj) with
          | some (a, b, c, d, e) => jInts [a, b, c, d, e]
          | none => Json.null),
        ("match_pve", match matchPVE (tokensOfRaw subj) with
          | some (a, b, c) => jStrs [a, b, c]
          | none => Json.null)])
  | "c17.read_energy_raw" => some do
      let ls ← listOf strOfJson (← field j "lines")
      pure (optJson dataJson (readEnergy Lex.ratFmt (ls.map tokensOfRaw)))
  | "c17.read_elast_raw" => some do
      let ls ← listOf strOfJson (← field j "lines")
      pure (optJson elastJson (readElastData Lex.ratFmt (ls.map tokensOfRaw)))
  | "c17.write_read" => some do
      let d ← dataOfJson (← field j "data")
      let comment ← listOf strOfJson (fieldD j "comment" (jStrs ["QHA", "Input", "data"]))
      let F := Lex.ratFmt
      let w := writeEnergy F d comment
      let r := w.bind (readEnergy F)
      pure (Json.mkObj [("lines", optJson jLines w), ("read", optJson dataJson r),
        ("round_eq", Json.bool (decide (r = some (roundAll F d))))])
  | "c17.read_energy" => some do
      let ls ← linesOfJson (← field j "lines")
      pure (optJson dataJson (readEnergy Lex.ratFmt ls))
  | "c17.read_elast" => some do
      let ls ← linesOfJson (← field j "lines")
      pure (optJson elastJson (readElastData Lex.ratFmt ls))
  | "c17.fill" => some do
      let ls ← linesOfJson (← field j "lines")
      let k ← natOfJson (fieldD j "decimals" (jInt 6))
      let filled : Option (Table Rat) ← match j.getObjVal? "filled" with
        | .ok (.null) => pure none
        | .ok t => do
            let names ← listOf strOfJson (← field t "names")
            let rows ← rats2 (← field t "rows")
            pure (some ⟨names, rows⟩)
        | .error _ => pure none
      -- optional: the table the real code handed to fill_cij, to check the model parses the same one
      let F := Lex.ratFmt
      let out := fillCmd F F k (fun _ => filled) ls
      let parsedIn := match ls with
        | _ :: l2 :: rest => (l2[1]? >>= Lex.parseInt).bind fun n => parseTable F (rest.take (n + 1).toNat)
        | _ => none
      pure (Json.mkObj [
        ("lines", optJson jLines out),
        ("parsed", optJson elastJson (out.bind (readElastData F))),
        ("table_in", optJson (fun t => Json.mkObj [("names", jStrs t.names), ("rows", Json.arr (t.rows.map jRats).toArray)]) parsedIn)])
  | "c17.fmt" => some do
      let x ← ratOfJson (← field j "x")
      let k ← natOfJson (← field j "k")
      let t := Lex.ratFmtStr k x
      pure (Json.mkObj [("token", Json.str t), ("parse", optJson jRat (Lex.ratParse t)), ("round", jRat (Lex.ratRound k x))])
  | "c17.key" => some do
      let t ← strOfJson (← field j "name")
      pure (optJson keyJson (findModulusKey t))
  | _ => none

end Cij.Ops.C17
