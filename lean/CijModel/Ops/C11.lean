import CijModel.Wire
import CijModel.Interp
import CijModel.PPoly
open Lean Cij Cij.Wire Cij.Interp

/-
  Ops of property C11 (prefix `c11.`).  Floats cross the wire as bit patterns.
  The exact kernels run over `Rat` (`liftRat`): every finite double is a rational, the kernel's rational
  answer is rounded once to the nearest double.
-/
namespace Cij.Ops.C11

/-- exact value of a finite double -/
def floatToRat (x : Float) : Option Rat :=
  let b := x.toBits.toNat
  let e := (b >>> 52) % 2048
  let m := b % 2 ^ 52
  if e == 2047 then none else
  let mant : Nat := if e == 0 then m else m + 2 ^ 52
  let ex : Int := if e == 0 then -1074 else (e : Int) - 1075
  let r : Rat := if ex ≥ 0 then ((mant * 2 ^ ex.toNat : Nat) : Rat)
                 else ((mant : Nat) : Rat) / ((2 ^ (-ex).toNat : Nat) : Rat)
  some (if b >>> 63 == 1 then -r else r)

/-- nearest double (to within the final `Float.ofNat` rounding of a 67-bit quotient) -/
def ratToFloat (q : Rat) : Float :=
  if q.num == 0 then 0 else
  let n := q.num.natAbs
  let d := q.den
  let k : Int := (n.log2 : Int) - (d.log2 : Int)
  let sh : Int := 66 - k
  let quo : Nat := if sh ≥ 0 then (n <<< sh.toNat) / d else n / (d <<< (-sh).toNat)
  let f := Float.scaleB (Float.ofNat quo) (-sh)
  if q.num < 0 then -f else f

def ratsOf (l : List Float) : Except Err (List Rat) :=
  l.mapM fun x => match floatToRat x with | some r => .ok r | none => .error (.other "nonfinite")

/-- run a rational kernel on double inputs -/
def liftRat (I : Interpolant Rat) : Interpolant Float := fun xs ys pts => do
  let r ← I (← ratsOf xs) (← ratsOf ys) (← ratsOf pts)
  pure (r.map fun (a, b, c) => (ratToFloat a, ratToFloat b, ratToFloat c))

structure LibEntry where
  ys : List UInt64
  out : Except Err (List (Triple Float))

/-- the external library as data: samples supplied by the harness for each node-value vector -/
def libOfTable (t : List LibEntry) : Interpolant Float := fun _ ys _ =>
  match t.find? (fun e => e.ys == ys.map Float.toBits) with
  | some e => e.out
  | none => .error (.other "no-samples-for-these-nodes")

/-- `kernelOf` with the exact kernel lifted from `Rat` for least squares, and the modelled scipy classes
(`CijModel/PPoly.lean`, run directly at `Float`) for `pchip` / `akima` -/
def kernelFloat (m : Method) (order : Nat) (lib : Interpolant Float) : Interpolant Float :=
  match m with
  | .lsqPoly => liftRat (lsqInterpolantF order)      -- = `lsqInterpolant` with at least one volume; no volume: numpy's zero solution
  | _ => PPoly.kernelFull m order lib

def errOfString : String → Err
  | "TypeError" => .typeError | "ZeroDivisionError" => .zeroDivision | "ValueError" => .valueError
  | s => .other s

def tripleOfJson (j : Json) : Except String (Triple Float) := do
  match ← floats1 j with
  | [a, b, c] => pure (a, b, c)
  | _ => throw "triple expected"

def libEntryOfJson (j : Json) : Except String LibEntry := do
  let ys ← floats1 (← field j "ys")
  match j.getObjVal? "error" with
  | .ok e => pure ⟨ys.map Float.toBits, .error (errOfString (← strOfJson e))⟩
  | .error _ =>
    let s ← listOf tripleOfJson (← field j "samples")
    pure ⟨ys.map Float.toBits, .ok s⟩

structure Inp where
  method : Method
  order : Nat
  nq : Nat
  np : Nat
  vols : List Float
  freqs : List (List (List Float))
  vArray : List Float

def inpOfJson (j : Json) : Except String Inp := do
  pure { method := Method.ofString (← strOfJson (← field j "method")), order := ← natOfJson (← field j "order"),
         nq := ← natOfJson (← field j "nq"), np := ← natOfJson (← field j "np"),
         vols := ← floats1 (← field j "volumes"), freqs := ← floats3 (← field j "freqs"),
         vArray := ← floats1 (← field j "v_array") }

def errJson (e : Err) : Json := Json.mkObj [("error", Json.str e.toString)]

/-- `c11.pchip` / `c11.akima`: the interpolator class on nodes `(xs, ys)` evaluated at `q` with `nu = 0, 1, 2`, `extrapolate=True`;
a NaN query gives NaN (as scipy); also the node slopes `dydx` -/
def ppolyOp (slopes : List Float → List Float → List Float) (j : Json) : Except String Json := do
  let xs ← floats1 (← field j "xs")
  let ys ← floats1 (← field j "ys")
  let q ← floats1 (← field j "q")
  if !PPoly.validNodes xs ys then pure (errJson .valueError) else
  let ds := slopes xs ys
  let nan : Float := 0.0 / 0.0
  let col (nu : Nat) : List Float := q.map fun x => (PPoly.evalAt xs ys ds nu x).getD nan
  pure (Json.mkObj [("ok", Json.arr #[jFloats1 (col 0), jFloats1 (col 1), jFloats1 (col 2)]),
                    ("slopes", jFloats1 ds),
                    ("piece", Json.arr (q.map fun x => match PPoly.locate xs x with
                        | some i => Json.num ⟨(i : Int), 0⟩ | none => Json.null).toArray)])


def handle : Handler := fun op j =>
  match op with
  | "c11.interp" => some do
      let i ← inpOfJson j
      let tbl ← match j.getObjVal? "lib" with
        | .ok l => listOf libEntryOfJson l
        | .error _ => pure []
      let I := kernelFloat i.method i.order (libOfTable tbl)
      -- the model WITH the exceptions of malformed inputs (no volume: `[::0]`; a missing frequency: `IndexError`)
      pure (match interpolateModesF i.method i.order I i.vols i.vArray i.nq i.np i.freqs with
        | .ok (f, g, d) => Json.mkObj [("ok", Json.arr #[jFloats3 f, jFloats3 g, jFloats3 d])]
        | .error e => errJson e)
  | "c11.pchip" => some (ppolyOp PPoly.pchipSlopes j)
  | "c11.akima" => some (ppolyOp PPoly.akimaSlopes j)
  | "c11.nodes" => some do
      -- the (ln x, ln y) node vectors and evaluation points the library kernel receives, per (j,k) (null = skipped)
      let i ← inpOfJson j
      let cellJson (jq k : Nat) : Json :=
        if jq == 0 && k < 3 then Json.null else
        match modeNodes i.method i.order i.vols (series i.freqs jq k) with
        | .ok (nv, nf) => Json.mkObj [("xs", jFloats1 (nv.map Float.log)), ("ys", jFloats1 (nf.map Float.log))]
        | .error e => errJson e
      pure (Json.mkObj [
        ("lnv", jFloats1 (i.vArray.map Float.log)),
        ("cells", Json.arr ((List.range i.nq).map fun jq =>
            Json.arr ((List.range i.np).map fun k => cellJson jq k).toArray).toArray)])
  | "c11.lstsq" => some do
      let xs ← floats1 (← field j "xs")
      let ys ← floats1 (← field j "ys")
      let order ← natOfJson (← field j "order")
      let r : Except Err (List Rat) := do
        match lstsqPolyfit (← ratsOf xs) (← ratsOf ys) order with
        | some a => pure a
        | none => .error .linAlg
      pure (match r with
        | .ok a => Json.mkObj [("ok", jFloats1 (a.map ratToFloat))]
        | .error e => errJson e)
  | "c11.poly" => some do
      -- polyval / polyder / polyder(m=2) on a coefficient list at points
      let p ← floats1 (← field j "p")
      let xs ← floats1 (← field j "xs")
      pure (Json.mkObj [
        ("der1", jFloats1 (polyder p)), ("der2", jFloats1 (polyderN 2 p)),
        ("val", jFloats1 (xs.map (polyval p))), ("val1", jFloats1 (xs.map (polyval (polyder p)))),
        ("val2", jFloats1 (xs.map (polyval (polyderN 2 p))))])
  | "c11.thin" => some do
      let n ← natOfJson (← field j "n")
      let order ← natOfJson (← field j "order")
      pure (Json.arr ((thin order (List.range n)).map fun (i : Nat) => Json.num ⟨(i : Int), 0⟩).toArray)
  | "c11.plot" => some do
      let n ← intOfJson (← field j "n")
      let iq ← natOfJson (← field j "iq")
      let np ← natOfJson (← field j "np")
      let f ← floats3 (← field j "f")
      let g ← floats3 (← field j "g")
      let d ← floats3 (← field j "d")
      let sel := match plotSelect n with
        | some .omega => "omega" | some .gamma => "gamma" | some .vdrDv => "vdr_dv" | some .gammaSq => "gamma_sq"
        | none => "unbound"
      pure (match plotModes (calculatorWiring f g d) np n iq with
        | .ok curves => Json.mkObj [("ok", jFloats2 curves), ("select", Json.str sel)]
        | .error e => Json.mkObj [("error", Json.str e.toString), ("select", Json.str sel)])
  | _ => none

end Cij.Ops.C11
