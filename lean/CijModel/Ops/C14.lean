/-
  Driver op of property C14.
    {"op": "c14.history", "cls": "long" | "off" | "shear", "ops": [property names]}
      -> {"states": [[cached names after op 1], [after op 2], …], "reads": [[cached properties op 1 reads], …]}
    {"op": "c14.multi", "objs": [cls, …], "ops": [[object index, property name], …]}   (several objects, `historyMulti`)
      -> {"states": [cached names of the touched object after each op]}
    {"op": "c14.table", "cls": …} -> rows (name, isLazy, reads, reads with plain properties inlined, rank)
  The cache-state sequence is computed by `Memo.history` (through `LazyGraph.cacheStates`) on the bodies built from
  the tables `Generated.lazyDeps*`, which are re-translated from nonshear.py / shear.py on every run.  Values are a
  token (`Unit`): the correspondence is about WHICH properties are cached after each read; equality of the values is
  checked on the Python side against fresh objects.
-/
import CijModel.Wire
import CijModel.LazyGraph
import Generated.LazyDeps
open Lean Cij Cij.Wire Cij.LazyGraph

namespace Cij.Ops.C14

def tabOf (cls : String) : Except String Tab :=
  match cls with
  | "long" => .ok Generated.lazyDepsLong
  | "off" => .ok Generated.lazyDepsOff
  | "shear" => .ok Generated.lazyDepsShear
  | _ => .error s!"unknown class {cls}"

def handle : Handler := fun op j =>
  match op with
  | "c14.history" => some do
      let tab ← tabOf (← strOfJson (← field j "cls"))
      let ops ← listOf strOfJson (← field j "ops")
      let st := cacheStates (β := Unit) tab (fun _ _ => ()) ops []
      pure (Json.mkObj [
        ("states", Json.arr (st.map (fun s => match s with | some l => jStrs l | none => Json.null)).toArray),
        ("reads", Json.arr (ops.map (fun o => jStrs (expandOp tab o))).toArray),
        ("ranked", Json.bool (ranked tab))])
  | "c14.multi" => some do
      -- {"objs": [cls of object 0, cls of object 1, …], "ops": [[object index, property name], …]}
      let objs ← (← listOf strOfJson (← field j "objs")).mapM tabOf
      let ops ← (← arrOfJson (← field j "ops")).mapM fun o => do
        match ← arrOfJson o with
        | [i, n] => pure (← natOfJson i, ← strOfJson n)
        | _ => .error "op must be [object, name]"
      let tabs : Nat → Tab := fun i => objs.getD i []
      let fuel := (objs.map fuelOf).foldl max 1
      let st := multiStates (β := Unit) tabs (fun _ _ _ => ()) fuel ops (fun _ => [])
      pure (Json.mkObj [
        ("states", Json.arr (st.map (fun s => match s with | some l => jStrs l | none => Json.null)).toArray)])
  | "c14.table" => some do
      let tab ← tabOf (← strOfJson (← field j "cls"))
      pure (Json.arr (tab.map (fun r => Json.arr #[Json.str r.1, Json.bool r.2.1, jStrs r.2.2, jStrs (lazyDeps tab r.1),
        jInt (rank tab r.1)])).toArray)
  | _ => none

end Cij.Ops.C14
