/-
  Driver ops of C13: `QHACalculator.read_input` on a list of volume blocks in file order (Float = the doubles the real method gets).

  "c13.read_input"   {nm, blocks: [{v, e, modes: [[bits]]}], weights: [bits]}
        → {"model": <hand-written `VolOrder.readInput`>, "source": <`VolOrder.evalSteps` on `Generated.VolOrder.readInputSteps`>}
          each either {"error": tag} or {"nm", "volumes", "energies", "frequencies", "weights"}
  "c13.monotonic"    {arrays: [[bits]]} → per array [is_monotonic_decreasing (model), allDiff <op read from the installed qha>]
-/
import CijModel.Wire
import CijModel.VolOrder
import Generated.VolOrderSpec
open Lean Cij Cij.Wire

namespace Cij.Ops.C13
open Cij.QhaInput Cij.VolOrder

def blockOfJson (j : Json) : Except String (VolumeData Float) := do
  let v ← floatOfJson (← field j "v")
  let e ← floatOfJson (← field j "e")
  let ms ← floats2 (← field j "modes")
  pure ⟨0, v, e, ms.map fun m => ⟨[], m⟩⟩

def dataOfJson (j : Json) : Except String (Data Float) := do
  let nm ← natOfJson (← field j "nm")
  let bs ← (← arrOfJson (← field j "blocks")).mapM blockOfJson
  let ws ← floats1 (← field j "weights")
  pure { nv := bs.length, nq := ws.length, np := 0, nm := nm, na := 0,
         weights := ws.map fun w => ⟨[], w⟩, volumes := bs }

def jArrays (r : QhaArrays Float) : Json :=
  Json.mkObj [("nm", jInt (Int.ofNat r.nm)), ("volumes", jFloats1 r.volumes), ("energies", jFloats1 r.energies),
              ("frequencies", jFloats3 r.frequencies), ("weights", jFloats1 r.weights)]

def jVal : Val Float → Json
  | .nat n => jInt (Int.ofNat n)
  | .vec v => jFloats1 v
  | .cube c => jFloats3 c

/-- the store of the interpreted source under the names of `jArrays` -/
def jStore (s : Store Float) : Json :=
  let names := [("_formula_unit_number", "nm"), ("_volumes", "volumes"), ("_static_energies", "energies"),
                ("_frequencies", "frequencies"), ("_q_weights", "weights")]
  Json.mkObj (names.filterMap fun (attr, nm) => (s.get attr).map fun v => (nm, jVal v))

def handle : Handler := fun op j =>
  match op with
  | "c13.read_input" => some do
      let d ← dataOfJson j
      let m := match readInput d with
        | .ok r => jArrays r
        | .error e => Json.mkObj [("error", Json.str e.tag)]
      let s := match evalSteps d Generated.VolOrder.readInputSteps [] with
        | .ok st => jStore st
        | .error e => Json.mkObj [("error", Json.str e.tag)]
      pure (Json.mkObj [("model", m), ("source", s)])
  | "c13.monotonic" => some do
      let arrays ← floats2 (← field j "arrays")
      pure (Json.arr (arrays.map fun a =>
        Json.arr #[Json.bool (isMonotonicDecreasing a), Json.bool (allDiff Generated.VolOrder.qhaMonotonicOp a)]).toArray)
  | _ => none

end Cij.Ops.C13
