import CijModel.Wire
import CijModel.Fill
import CijModel.FillCall
open Lean Cij Cij.Wire

/-! Wire ops of C09 (and the `fill` op shared with C08).  Floats arrive as IEEE-754 bit patterns and are turned
    into the *exact* rational they denote; the model then runs over `Rat`. -/
namespace Cij.Ops.C09

/-- exact value of a finite double as a rational; `none` for NaN/±inf -/
def ratOfBits (bits : Nat) : Option Rat :=
  let sign : Nat := bits / 2 ^ 63
  let e : Nat := (bits / 2 ^ 52) % 2048
  let f : Nat := bits % 2 ^ 52
  if e == 2047 then none else
  let (m, ex) : Nat × Int := if e == 0 then (f, -1074) else (f + 2 ^ 52, Int.ofNat e - 1075)
  let mag : Rat := if ex ≥ 0 then ((m * 2 ^ ex.toNat : Nat) : Rat) else mkRat m (2 ^ (-ex).toNat)
  some (if sign == 1 then -mag else mag)

/-- nearest-ish double of a rational (error ≤ a few ulp; only used for output) -/
def floatOfRat (q : Rat) : Float :=
  let n := q.num.natAbs
  let d := q.den
  let k := (max n.log2 d.log2) - 900
  let f := Float.ofNat (n >>> k) / Float.ofNat (d >>> k)
  if q.num < 0 then -f else f

def ratOfJson (j : Json) : Except String Rat := do
  let n ← natOfJson j
  match ratOfBits n with
  | some q => pure q
  | none => .error "non-finite float"

def jRat (q : Rat) : Json := floatToJson (floatOfRat q)

def errName : Fill.Err → String
  | .valueError => "error:ValueError"
  | .fileNotFound => "error:FileNotFoundError"
  | .indexError => "error:IndexError"
  | .linAlgError => "error:LinAlgError"
  | .refuseRank => "refuse:rank"
  | .refuseResidual => "refuse:residual"
  | .solver => "error:model-solver"

/-- a user row: 21 integer coefficients, rhs, denominator -/
def rowsOfJson (j : Json) : Except String Fill.Rows := do
  let rows ← listOf (listOf intOfJson) j
  pure (rows.map fun r => ⟨r.take 21, r.getD 21 0, (r.getD 22 1).toNat⟩)

/-- op `fill`: {columns:[str], values:[[bits]…] (one list per column), system: str|null, ignore_residuals,
    ignore_rank: bool, drop_atol, residual_atol: bits (each of the four optional: absent = the signature's default,
    `FillCall.defaultParams`), exists: bool (Path(system).exists(); ignored by the model as
    by the code), user_rows?: [[21 coeffs, rhs, den]…] (present iff `system` is a path to a regular file)} -/
def fillOp (j : Json) : Except String Json := do
  let names ← listOf strOfJson (← field j "columns")
  let vals ← listOf (listOf ratOfJson) (← field j "values")
  let system : Option String := match fieldD j "system" Json.null with | .str s => some s | _ => none
  -- an absent keyword takes the default of the signature as the MODEL has it (`FillCall.defaultParams`)
  let optBool (k : String) : Except String (Option Bool) :=
    match fieldD j k Json.null with | .null => pure none | v => (boolOfJson v).map some
  let optRat (k : String) : Except String (Option Rat) :=
    match fieldD j k Json.null with | .null => pure none | v => (ratOfJson v).map some
  let kw : FillCall.Kwargs := {
    system := some system,
    ignoreResiduals := ← optBool "ignore_residuals",
    ignoreRank := ← optBool "ignore_rank",
    dropAtol := ← optRat "drop_atol",
    residualAtol := ← optRat "residual_atol" }
  let ex ← boolOfJson (fieldD j "exists" (Json.bool false))
  let user : Option Fill.Rows ← match fieldD j "user_rows" Json.null with
    | .null => pure none
    | r => (rowsOfJson r).map some
  let env : Fill.Env := { pathExists := fun _ => ex, userFile := fun _ => user }
  let t : Fill.Table Rat := List.zip names vals
  match FillCall.call env kw t with
  | .error e => pure (Json.mkObj [("status", Json.str (errName e))])
  | .ok out =>
    pure (Json.mkObj [("status", Json.str "ok"), ("columns", jStrs (out.map (·.1))),
      ("values", Json.arr (out.map fun c => Json.arr (c.2.map jRat).toArray).toArray)])

/-- op `solve`: the solve stage alone, for diagnostics: {sel:[nat], system:str, b:[[bits]…] per volume row}
    → {rank_deficient, m, residuals:[bits], xs:[[bits]]} -/
def solveOp (j : Json) : Except String Json := do
  let sel ← listOf natOfJson (← field j "sel")
  let sys ← strOfJson (← field j "system")
  let bs ← listOf (listOf ratOfJson) (← field j "b")
  match Fill.packaged sys with
  | .error _ => pure (Json.str "error")
  | .ok rel =>
    let A : List (List Rat) := Fill.stackA sel rel
    match Fill.solveStage A bs with
    | none => pure (Json.str "error:model-solver")
    | some s => pure (Json.mkObj [("rank_deficient", Json.bool s.rankDeficient), ("m", jInt s.m),
        ("residuals", Json.arr (s.residuals.map jRat).toArray),
        ("ssq", Json.arr (s.ssq.map jRat).toArray),
        ("xs", Json.arr (s.xs.map fun x => Json.arr (x.map jRat).toArray).toArray)])

def handle : Handler := fun op j =>
  match op with
  | "c09.fill" => some (fillOp j)
  | "c09.solve" => some (solveOp j)
  | _ => none

end Cij.Ops.C09
