/- Wire ops of property C15 (writer model run at Float). -/
import CijModel.Wire
import CijModel.Writer
open Lean Cij Cij.Wire Cij.Writer

namespace Cij.Ops.C15

local instance : NatCast Float := ⟨Nat.toFloat⟩

def optStr (j : Json) (k : String) : Except String (Option String) :=
  match (j.getObjVal? k).toOption with
  | none => pure none
  | some .null => pure none
  | some v => some <$> strOfJson v

def cfgOfJson (j : Json) : Except String Config := do
  match j with
  | .str s => pure { keyword := s }
  | _ =>
    let kw ← strOfJson (← field j "keyword")
    pure { keyword := kw, fname := ← optStr j "fname", unit := ← optStr j "unit", unitInternal := ← optStr j "unit_internal" }

def keyOfJson (j : Json) : Except String Modulus := do
  match ← listOf intOfJson j with
  | [a, b] => match Modulus.fromVoigt a b with
    | some m => pure m
    | none => .error "bad voigt key"
  | _ => .error "key must be a pair"

def propOfJson (j : Json) : Except String (String × PropVal Float) := do
  let name ← strOfJson (← field j "name")
  let kind ← strOfJson (← field j "kind")
  if kind == "value" then
    pure (name, .value (← floats2 (← field j "m")))
  else
    let items ← (← arrOfJson (← field j "items")).mapM fun it => do
      let k ← keyOfJson (← field it "key")
      let m ← floats2 (← field it "m")
      pure (k, m)
    pure (name, .items items)

def baseOfJson (j : Json) : Except String (Base Float) := do
  pure { baseName := ← strOfJson (← field j "name")
         pressureBase := ← boolOfJson (← field j "pressure")
         tArray := ← floats1 (← field j "t")
         axis := ← floats1 (← field j "axis")
         props := ← (← arrOfJson (← field j "props")).mapM propOfJson }

def unitsOfJson (j : Json) : Except String (Units Float) := do
  let conv ← (← arrOfJson (← field j "conv")).mapM fun e => do
    match ← arrOfJson e with
    | [a, b, c] => pure ((← strOfJson a, ← strOfJson b), ← floatOfJson c)
    | _ => .error "conv entry must be [from, to, bits]"
  pure { toGPa := ← floatOfJson (← field j "to_gpa")
         toAng3 := ← floatOfJson (← field j "to_ang3")
         conv := fun a b => (conv.find? fun e => e.1.1 == a && e.1.2 == b).map (·.2) }

def ruleOfJson (j : Json) : Except String Generated.WriterRule := do
  pure { keywords := ← listOf strOfJson (← field j "keywords")
         fnamePattern := ← strOfJson (← field j "fname_pattern")
         prop := ← strOfJson (← field j "prop")
         unit := ← strOfJson (← field j "unit")
         unitInternal := ← strOfJson (← field j "unit_internal")
         varType := ← strOfJson (← field j "var_type") }

def tableJson (t : Table Float) : Json :=
  Json.mkObj [("fname", Json.str t.fname), ("corner", Json.str t.corner), ("rows", jFloats1 t.rows),
              ("cols", jFloats1 t.cols), ("vals", jFloats2 t.vals)]

def resultJson (r : Option (List (Table Float))) : Json :=
  match r with
  | none => Json.str "error"
  | some ts => Json.mkObj [("events", Json.arr (ts.map tableJson).toArray),
                           ("files", Json.arr ((filesAfter ts).map fun e => tableJson e.2).toArray)]

def optCfgs (j : Json) (k : String) : Except String (Option (List Config)) :=
  match (j.getObjVal? k).toOption with
  | none => pure none
  | some .null => pure none
  | some v => some <$> listOf cfgOfJson v

def handle : Handler := fun op j =>
  match op with
  | "c15.resolve" => some do
      let kw ← strOfJson (← field j "kw")
      pure (match resolve kw with
        | none => Json.str "error"
        | some r => Json.mkObj [("keywords", jStrs r.keywords), ("fname_pattern", Json.str r.fnamePattern),
            ("prop", Json.str r.prop), ("unit", Json.str r.unit), ("unit_internal", Json.str r.unitInternal),
            ("var_type", Json.str r.varType)])
  | "c15.arange" => some do
      let s ← floatOfJson (← field j "start")
      let n ← natOfJson (← field j "num")
      let d ← floatOfJson (← field j "step")
      pure (jFloats1 (arange s n d))
  | "c15.write" => some do
      let b ← baseOfJson (← field j "base")
      let U ← unitsOfJson (← field j "units")
      let cfg ← cfgOfJson (← field j "cfg")
      match (j.getObjVal? "rules").toOption with
      | none | some .null => pure (resultJson (writeKeyword U b cfg))
      | some rj =>
        let rules ← listOf ruleOfJson rj
        pure (resultJson (writeKeywordIn rules U b cfg))
  | "c15.write_variables" => some do
      -- `base.write_variables(list)`: one step of the harness' `alternate` stream (the model is stateless: a fresh writer per call)
      let b ← baseOfJson (← field j "base")
      let U ← unitsOfJson (← field j "units")
      let cfgs ← listOf cfgOfJson (← field j "cfgs")
      pure (resultJson (writeVariables U b cfgs))
  | "c15.write_output" => some do
      let U ← unitsOfJson (← field j "units")
      let pb ← baseOfJson (← field j "pbase")
      let vb ← baseOfJson (← field j "vbase")
      pure (resultJson (writeOutput U pb vb (← optCfgs j "pcfg") (← optCfgs j "vcfg")))
  | _ => none

end Cij.Ops.C15
