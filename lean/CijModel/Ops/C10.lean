import CijModel.Wire
import CijModel.Voigt
open Lean Cij Cij.Wire

namespace Cij.Ops.C10

def argOfJson (j : Json) : Except String Arg :=
  match j with
  | .str s => .ok (.str s)
  | .num n => if n.exponent == 0 then .ok (.int n.mantissa) else .error "non-integer arg"
  | _ => .error "bad arg"

def strainJson (s : Strain) : Json :=
  Json.mkObj [("s", jInts [s.i, s.j]), ("v", match s.voigt with | some v => jInt v | none => Json.null)]

def modulusJson (m : Modulus) : Json :=
  let (a, b, c, d) := m.standard
  Json.mkObj [
    ("s", jInts [a, b, c, d]),
    ("v", match m.voigt with | some (x, y) => jInts [x, y] | none => Json.null),
    ("mult", jInt m.multiplicity),
    ("long", Json.bool m.isLongitudinal), ("off", Json.bool m.isOffDiagonal), ("shear", Json.bool m.isShear),
    ("calc", Json.str (match m.calcType with | .longitudinal => "LONGITUDINAL" | .offDiagonal => "OFF_DIAGONAL" | .shear => "SHEAR"))]

def handle : Handler := fun op j =>
  match op with
  | "c_" => some do
      let args ← listOf argOfJson (← field j "args")
      pure (match Modulus.create args with | some m => modulusJson m | none => Json.str "error")
  | "e_" => some do
      let args ← listOf argOfJson (← field j "args")
      pure (match Strain.create args with | some s => strainJson s | none => Json.str "error")
  | _ => none

end Cij.Ops.C10
