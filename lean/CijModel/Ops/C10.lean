import CijModel.Wire
import CijModel.Voigt
import CijModel.VoigtSrc
open Lean Cij Cij.Wire

namespace Cij.Ops.C10

def argOfJson (j : Json) : Except String Arg :=
  match j with
  | .str s => .ok (.str s)
  | .num n => if n.exponent == 0 then .ok (.int n.mantissa) else .error "non-integer arg"
  | _ => .error "bad arg"

def strainJson (s : Strain) : Json :=
  Json.mkObj [("s", jInts [s.i, s.j]), ("v", match s.voigt with | some v => jInt v | none => Json.null)]

def modulusJson (m : Modulus) : Json :=
  let (a, b, c, d) := m.standard
  Json.mkObj [
    ("s", jInts [a, b, c, d]),
    ("v", match m.voigt with | some (x, y) => jInts [x, y] | none => Json.null),
    ("mult", jInt m.multiplicity),
    ("long", Json.bool m.isLongitudinal), ("off", Json.bool m.isOffDiagonal), ("shear", Json.bool m.isShear),
    ("calc", Json.str (match m.calcType with | .longitudinal => "LONGITUDINAL" | .offDiagonal => "OFF_DIAGONAL" | .shear => "SHEAR"))]

/-! ### the translated source (`Generated.VoigtSrc.module`) run by the PyLite evaluator -/

open PyLite in
/-- JSON → PyLite value: null, bool, integer, string, array (= tuple).  Anything else (a float, an object) is outside PyLite. -/
partial def valOfJson (j : Json) : Except String PyLite.Val :=
  match j with
  | .null => .ok .none
  | .bool b => .ok (.bool b)
  | .num n => if n.exponent == 0 then .ok (.int n.mantissa) else .error "float argument: outside PyLite"
  | .str s => .ok (.str (codes s))
  | .arr a => do let xs ← a.toList.mapM valOfJson; pure (.tuple xs)
  | .obj _ => .error "object argument: outside PyLite"

open PyLite in
/-- typed encoding of a PyLite value (the harness encodes the CPython value the same way) -/
partial def valJson : PyLite.Val → Json
  | .none => Json.null
  | .bool b => Json.bool b
  | .int n => jInt n
  | .str s => Json.str (Str.toString s)
  | .tuple xs => Json.mkObj [("t", Json.arr (xs.map valJson).toArray)]
  | .list xs => Json.mkObj [("l", Json.arr (xs.map valJson).toArray)]
  | .record c fs => Json.mkObj [("r", Json.str c), ("f", Json.arr (fs.map valJson).toArray)]
  | .enumv c m => Json.mkObj [("e", Json.str (c ++ "." ++ m))]
  | .dict _ _ => Json.mkObj [("other", Json.str "dict")]
  | .set _ => Json.mkObj [("other", Json.str "set")]
  | .cls c => Json.mkObj [("other", Json.str ("class " ++ c))]
  | _ => Json.mkObj [("other", Json.str "?")]

open PyLite in
def resultJson (r : Result Val) : Json :=
  match r with
  | .ok v => Json.mkObj [("ok", valJson v)]
  | .exc k [.str msg] => Json.mkObj [("exc", Json.str k), ("msg", Json.str (Str.toString msg))]
  | .exc k _ => Json.mkObj [("exc", Json.str k)]
  | .outOfFuel => Json.mkObj [("out_of_fuel", Json.bool true)]
  | .unsupported w => Json.mkObj [("unsupported", Json.str w)]

open PyLite in
/-- call + every view of the result, as the harness canonicalises the CPython object -/
def srcJson (alias : String) (args : List Val) : Json :=
  let r := VoigtSrc.srcCall alias args
  match r with
  | .ok (.record c fs) =>
    let v := Val.record c fs
    let views : List String :=
      if c == "ModulusRepresentation" then
        ["s", "v", "standard", "voigt", "multiplicity", "is_longitudinal", "is_off_diagonal", "is_shear", "calc_type", "__repr__"]
      else ["s", "v", "standard", "voigt", "__repr__"]
    Json.mkObj (("ok", valJson v) :: views.map fun p => (p, resultJson (VoigtSrc.srcProp c p v)))
  | _ => resultJson r

def argJson : Arg → Json
  | .int n => jInt n
  | .str s => Json.str s

def handle : Handler := fun op j =>
  match op with
  | "c_" => some do
      let args ← listOf argOfJson (← field j "args")
      pure (match Modulus.create args with | some m => modulusJson m | none => Json.str "error")
  | "e_" => some do
      let args ← listOf argOfJson (← field j "args")
      pure (match Strain.create args with | some s => strainJson s | none => Json.str "error")
  | "c10.src" => some do
      let fn ← strOfJson (← field j "fn")
      let args ← listOf valOfJson (← field j "args")
      pure (srcJson fn args)
  | "c10.domain" => some do
      let enc (l : List (List Arg)) : Json := Json.arr (l.map fun a => Json.arr (a.map argJson).toArray).toArray
      pure (Json.mkObj [("c_", enc VoigtSrc.domainC), ("e_", enc VoigtSrc.domainE)])
  | "c10.src_vs_model" => some do
      -- the inputs of the decided domain on which the translated source and the hand-written model differ (kernel-checked to
      -- be none by `voigt_model_is_source`; when that theorem breaks, this names the inputs)
      let enc (l : List (List Arg)) : Json := Json.arr (l.map fun a => Json.arr (a.map argJson).toArray).toArray
      pure (Json.mkObj [("c_", enc ((VoigtSrc.domainC.filter fun a => !VoigtSrc.agreeC a).take 400)),
                        ("e_", enc ((VoigtSrc.domainE.filter fun a => !VoigtSrc.agreeE a).take 120)),
                        ("views", Json.arr (((Cij.keys21.map Cij.keyOfVoigt).filter fun k => !VoigtSrc.agreeViewsC k).map modulusJson).toArray)])
  | _ => none

end Cij.Ops.C10
