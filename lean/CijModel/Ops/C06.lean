import CijModel.Wire
import CijModel.V2P
open Lean Cij Cij.Wire Cij.V2P

namespace Cij.Ops.C06

local instance : NatCast Float := ⟨Float.ofNat⟩

def jRes2 (r : Except Err (List (List Float))) : Json :=
  match r with
  | .ok m => jFloats2 m
  | .error e => Json.str e.tag

/-- `{name: [[bits]]}` object → lookup function (attribute table of `calculator.volume_base`) -/
def envOfJson (j : Json) : Except String (String → Option (List (List Float))) := do
  match j with
  | .obj kv =>
    let l ← kv.toList.mapM fun (k, v) => do pure (k, ← floats2 v)
    pure fun name => l.lookup name
  | _ => .error "expected object"

def qhaOfJson (j : Json) : Except String (Qha Float) := do
  pure { vArray := ← floats1 (← field j "v_array"),
         pressuresAu := ← floats2 (← field j "p_tv_au"),
         pArrayAu := ← floats1 (← field j "p_array") }

def handle : Handler := fun op j =>
  match op with
  | "c06.v2p" => some do
      let f ← floats2 (← field j "f")
      let p ← floats2 (← field j "p")
      let d ← floats1 (← field j "desired")
      pure (jRes2 (v2p f p d))
  | "c06.find_nearest" => some do
      let a ← floats1 (← field j "array")
      let vs ← floats1 (← field j "values")
      pure (Json.arr (vs.map fun v => jInt (Int.ofNat (findNearest a v))).toArray)
  | "c06.desired" => some do
      let pmin ← floatOfJson (← field j "p_min")
      let dp ← floatOfJson (← field j "delta_p")
      let ntv ← natOfJson (← field j "ntv")
      pure (jFloats1 (desiredPressuresGpa pmin dp ntv))
  | "c06.status" => some do
      let p ← floats2 (← field j "p_tv_gpa")
      let pmin ← floatOfJson (← field j "p_min")
      let dp ← floatOfJson (← field j "delta_p")
      let ntv ← natOfJson (← field j "ntv")
      pure (match desiredPressureStatus p (desiredPressuresGpa pmin dp ntv) with
            | .ok _ => Json.str "ok"
            | .error e => Json.str e.tag)
  | "c06.pressure_base" => some do
      let q ← qhaOfJson j
      let env ← envOfJson (← field j "volume_base")
      let names ← listOf strOfJson (← field j "names")
      pure (Json.mkObj (names.map fun n => (n, jRes2 (pressureBase q env n))))
  | "c06.pressure_base_modulus" => some do
      let q ← qhaOfJson j
      let env ← envOfJson (← field j "modulus")
      let keys ← listOf strOfJson (← field j "keys")
      pure (Json.mkObj (keys.map fun n => (n, jRes2 (pressureBaseModulus q env n))))
  | _ => none

end Cij.Ops.C06
