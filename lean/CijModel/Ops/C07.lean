import CijModel.Wire
import CijModel.VRH
import CijModel.CalcGlue
import Generated.CalcGlueSpec
open Lean Cij Cij.Wire

namespace Cij.Ops.C07
open Cij.VRH Cij.CalcGlue

def jOptField : Option (Field Float) → Json
  | some f => jFloats2 f
  | none => Json.str "error"

def jFloats4 (l : List (List (List (List Float)))) : Json := Json.arr (l.map jFloats3).toArray

def keyOfJson (j : Json) : Except String Modulus := do
  let p ← listOf intOfJson j
  match p with
  | [a, b] =>
    match Modulus.create [.int a, .int b] with
    | some k => pure k
    | none => .error s!"c_({a},{b}) rejected"
  | _ => .error "key must be a Voigt pair"

def keyJson (k : Modulus) : Json :=
  match k.voigt with
  | some (a, b) => jInts [a, b]
  | none => Json.null

def inputsOfJson (j : Json) : Except String (Inputs Float) := do
  let keys ← listOf keyOfJson (← field j "keys")
  let fields ← floats3 (← field j "fields")
  if keys.length ≠ fields.length then throw "keys/fields length"
  pure { modAd := keys.zip fields,
         nt := ← natOfJson (← field j "nt"), nv := ← natOfJson (← field j "nv"),
         vArray := ← floats1 (← field j "v"),
         cellmass := ← floatOfJson (← field j "cellmass"),
         avogadro := ← floatOfJson (← field j "avogadro"),
         ryFactor := ← floatOfJson (← field j "ry") }

def reportJson (inp : Inputs Float) (S : Nat → Nat → Int → Int → Float) : Json :=
  let r := report inp S
  let tgrid (h : Nat → Nat → Float) : Json := jFloats2 (grid inp.nt inp.nv h)
  let cT (t v : Nat) := tensorOf (kvAt inp.modAd t v)
  let sT (t v : Nat) := complTensorOf (reportedS r.compl t v)
  Json.mkObj [
    ("compl_keys", Json.arr (r.compl.map (keyJson ·.1)).toArray),
    ("compl", jFloats3 (r.compl.map (·.2))),
    ("kV", jOptField r.kV), ("kR", jOptField r.kR), ("kH", jOptField r.kH),
    ("gV", jOptField r.gV), ("gR", jOptField r.gR), ("gH", jOptField r.gH),
    ("mass", floatToJson r.mass), ("vp", jOptField r.vp), ("vs", jOptField r.vs),
    ("C", jFloats4 ((List.range inp.nt).map fun t => (List.range inp.nv).map fun v => assemble6 (kvAt inp.modAd t v))),
    -- the same two loops evaluated from the index data extracted from `_calculate_compliances` on this run
    ("C_spec", jFloats4 ((List.range inp.nt).map fun t => (List.range inp.nv).map fun v =>
        assemble6Spec Generated.CalcGlue.complSpec (kvAt inp.modAd t v))),
    ("compl_spec_keys", Json.arr ((complDictSpec Generated.CalcGlue.complSpec S inp.nt inp.nv).map (keyJson ·.1)).toArray),
    ("compl_spec", jFloats3 ((complDictSpec Generated.CalcGlue.complSpec S inp.nt inp.nv).map (·.2))),
    ("S", jFloats4 ((List.range inp.nt).map fun t => (List.range inp.nv).map fun v =>
        idx6.map fun i => idx6.map fun j => S t v i j)),
    -- the specification side of the theorems, evaluated on the same data
    ("C_iijj", tgrid fun t v => contractIIJJ (cT t v)), ("C_ijij", tgrid fun t v => contractIJIJ (cT t v)),
    ("S_iijj", tgrid fun t v => contractIIJJ (sT t v)), ("S_ijij", tgrid fun t v => contractIJIJ (sT t v))]

/-- outcome of `getattr(volume_base, name)` through the extracted pattern / dispatch -/
def outcomeJson : Outcome → Json
  | .served st key => Json.arr #[Json.str st, keyJson key]
  | .attributeError => Json.str "AttributeError"
  | .otherError => Json.str "error"

def handle : Handler := fun op j =>
  match op with
  | "c07.run" => some do          -- model with its own Gauss–Jordan inverse
      let inp ← inputsOfJson j
      let g := invGridList inp
      pure (reportJson inp (sOfGrid g))
  | "c07.report" => some do       -- model with the inverse handed over (numpy's), `S[t][v][i][j]`
      let inp ← inputsOfJson j
      let s ← floats4 (← field j "S")
      pure (reportJson inp (sOfGrid s))
  | "c07.lookup" => some do       -- names through REGEX_CIJ / __getattr__ as extracted on this run
      let keys ← listOf keyOfJson (← field j "keys")
      let dictKeys ← listOf keyOfJson (← field j "dict_keys")
      let complKeys ← listOf keyOfJson (← field j "compl_keys")
      let names ← listOf strOfJson (← field j "names")
      let st : Stores Unit := { keys := keys, adiabatic := dictKeys.map (·, ()), isothermal := dictKeys.map (·, ()),
                                compliances := complKeys.map (·, ()) }
      pure (Json.arr (names.map fun n =>
        outcomeJson (resolve Generated.CalcGlue.regexParts Generated.CalcGlue.getattrMatchFn
          Generated.CalcGlue.getattrBranches st.hasKey n)).toArray)
  | _ => none

end Cij.Ops.C07
