/- Wire ops of property C19 (extract / extract-geotherm model run at Float). -/
import CijModel.Wire
import CijModel.Extract
import CijModel.ExtractSrc
import Generated.ExtractSpec
open Lean Cij Cij.Wire Cij.Extract Cij.ExtractSrc

namespace Cij.Ops.C19

def tabOfJson (j : Json) : Except String (Tab Float) := do
  pure { rows := ← floats1 (← field j "rows"), cols := ← floats1 (← field j "cols"), vals := ← floats2 (← field j "vals") }

def dirOfJson (j : Json) : Except String (List (String × Tab Float)) := do
  (← arrOfJson j).mapM fun e => do
    match ← arrOfJson e with
    | [n, t] => pure (← strOfJson n, ← tabOfJson t)
    | _ => .error "dir entry must be [name, table]"

def optFloat (j : Json) (k : String) : Except String (Option Float) :=
  match (j.getObjVal? k).toOption with
  | none => pure none
  | some .null => pure none
  | some v => some <$> floatOfJson v

/-- a spline that is only defined by its contract: the table entry at a node, NaN elsewhere -/
def nodeSpline : Spline Float := fun xs ys z x y =>
  match xs.findIdx? (· == x), ys.findIdx? (· == y) with
  | some i, some j => ((z[i]?).bind (·[j]?)).getD (0.0 / 0.0)
  | _, _ => 0.0 / 0.0

/-- the 4×4 bicubic (tensor Lagrange) spline, NaN on other shapes -/
def spline44 : Spline Float := bicubic44With (0.0 / 0.0)

def splineOf (j : Json) : Spline Float :=
  match (j.getObjVal? "spline").toOption with
  | some (.str "bicubic44") => spline44
  | _ => nodeSpline

def optStr (j : Json) (k : String) : Except String (Option String) :=
  match (j.getObjVal? k).toOption with
  | none => pure none
  | some .null => pure none
  | some v => some <$> strOfJson v

def geoOfJson (j : Json) : Except String (List (String × List Float)) := do
  (← arrOfJson j).mapM fun e => do
    match ← arrOfJson e with
    | [n, c] => pure (← strOfJson n, ← floats1 c)
    | _ => .error "geo entry must be [name, column]"

def jOptFloats (l : List (Option Float)) : Json :=
  Json.arr (l.map fun x => match x with | some v => floatToJson v | none => Json.null).toArray

def handle : Handler := fun op j =>
  match op with
  | "c19.argmin" => some do
      let xs ← floats1 (← field j "xs")
      let y ← floatOfJson (← field j "y")
      pure (match argminAbs xs y with | some i => jInt i | none => Json.null)
  | "c19.glob" => some do
      pure (Json.bool (globMatches (← strOfJson (← field j "var")) (← strOfJson (← field j "fname"))))
  | "c19.stem" => some do
      pure (Json.str (stem (← strOfJson (← field j "fname"))))
  | "c19.extract" => some do
      let dir ← dirOfJson (← field j "dir")
      let vars ← listOf strOfJson (← field j "vars")
      let r := extract dir vars (← optFloat j "T") (← optFloat j "P")
      pure (match r with
        | none => Json.str "error"
        | some (idx, cols) => Json.mkObj [("index", jFloats1 idx),
            ("cols", Json.arr (cols.map fun c => Json.arr #[Json.str c.1, jOptFloats c.2]).toArray)])
  | "c19.geotherm" => some do
      let dir ← dirOfJson (← field j "dir")
      let vars ← listOf strOfJson (← field j "vars")
      let geo ← geoOfJson (← field j "geo")
      let tcol ← strOfJson (← field j "tcol")
      let pcol ← strOfJson (← field j "pcol")
      pure (match geotherm (splineOf j) dir vars geo tcol pcol with
        | none => Json.str "error"
        | some t => Json.arr (t.map fun c => Json.arr #[Json.str c.1, jFloats1 c.2]).toArray)
  -- the SOURCE as translated on this run, interpreted (CijModel/ExtractSrc.lean); options left out take click's defaults
  | "c19.src_argmin" => some do
      let xs ← floats1 (← field j "xs")
      let y ← floatOfJson (← field j "y")
      let t : Tab Float := { rows := xs, cols := [], vals := [] }
      pure (match Generated.ExtractSpec.extractMain.yIndex.eval t y with | some i => jInt i | none => Json.null)
  | "c19.src_extract" => some do
      let dir ← dirOfJson (← field j "dir")
      let vars ← listOf strOfJson (← field j "vars")
      let r := extractOf Generated.ExtractSpec.loadExtract Generated.ExtractSpec.extractMain dir vars
        (← optFloat j "T") (← optFloat j "P")
      pure (match r with
        | none => Json.str "error"
        | some (idx, cols) => Json.mkObj [("index", jFloats1 idx),
            ("cols", Json.arr (cols.map fun c => Json.arr #[Json.str c.1, jOptFloats c.2]).toArray)])
  | "c19.src_geotherm" => some do
      let dir ← dirOfJson (← field j "dir")
      let vars ← listOf strOfJson (← field j "vars")
      let geo ← geoOfJson (← field j "geo")
      let r := geothermOf Generated.ExtractSpec.loadGeotherm Generated.ExtractSpec.fitData
        Generated.ExtractSpec.geothermMain Generated.ExtractSpec.geothermOptions (splineOf j) dir vars geo
        (← optStr j "tcol") (← optStr j "pcol")
      pure (match r with
        | none => Json.str "error"
        | some t => Json.arr (t.map fun c => Json.arr #[Json.str c.1, jFloats1 c.2]).toArray)
  | "c19.bicubic44" => some do
      let xs ← floats1 (← field j "xs")
      let ys ← floats1 (← field j "ys")
      let z ← floats2 (← field j "z")
      let px ← floats1 (← field j "px")
      let py ← floats1 (← field j "py")
      pure (jFloats1 (List.zipWith (spline44 xs ys z) px py))
  | _ => none

end Cij.Ops.C19
