import CijModel.Wire
import CijModel.QExpr
import Generated.QExprs
open Lean Cij Cij.Wire

namespace Cij.Ops.C12

def clsName : Cls → String
  | .nan => "nan" | .ninf => "ninf" | .neg => "neg" | .zero => "zero"
  | .sub1 => "sub1" | .one => "one" | .gt1 => "gt1" | .pinf => "pinf"

def jCls (s : Cls.CSet) : Json := jStrs (s.map clsName)

def exprOf (name : String) : Except String QExpr :=
  match name with
  | "q1" => .ok Generated.q1Expr
  | "q2" => .ok Generated.q2Expr
  | _ => .error s!"unknown expr {name}"

instance : NatCast Float := ⟨Float.ofNat⟩

def handle : Handler := fun op j =>
  match op with
  | "c12.eval" => some do        -- Float evaluation of the generated expression at each q
      let e ← exprOf (← strOfJson (← field j "expr"))
      let qs ← floats1 (← field j "q")
      pure (jFloats1 (qs.map fun q => e.eval Float.exp q))
  | "c12.cls" => some do         -- abstract classes of the generated expression for the class of each q
      let e ← exprOf (← strOfJson (← field j "expr"))
      let qs ← floats1 (← field j "q")
      pure (Json.arr (qs.map fun q => jCls (e.evalCls Cls.expAll Cls.powSame (Cls.ofFloat q))).toArray)
  | "c12.op" => some do          -- one IEEE operation on the classes of concrete doubles (transfer-table validation)
      let name ← strOfJson (← field j "name")
      let a ← floats1 (← field j "a")
      let b ← floats1 (← field j "b")
      let f : Cls → Cls → Cls.CSet ← match name with
        | "mul" => pure Cls.mul | "div" => pure Cls.div | "add" => pure Cls.add | "sub" => pure Cls.sub
        | "exp" => pure (fun x _ => Cls.expAll x) | "neg" => pure (fun x _ => Cls.negate x)
        | "sq" => pure (fun x _ => Cls.powSame x 2)
        | _ => throw s!"unknown op {name}"
      pure (Json.arr ((a.zip b).map fun (x, y) => jCls (f (Cls.ofFloat x) (Cls.ofFloat y))).toArray)
  | _ => none

end Cij.Ops.C12
