import CijModel.Wire
import CijModel.QhaGlue
import Generated.QhaGlue
open Lean Cij Cij.Wire Cij.QhaGlue

/-
  Driver ops of C02: the MEANING of the data translated from qha_adapter.py / units.py (Generated/QhaGlue.lean), evaluated at Float
  on the inputs the harness gives to the real code.
    c02.volcheck   the statements of `QHACalculator.read_input` on a list of volumes: accepted / exception, fields stored
    c02.chain      `adapter.<a₁>.<a₂>…` in the abstract object graph: class of the root object + attribute path
    c02.helpers    every `_to_*` / `_from_*` helper as two unit monomials (exponents in halves)
    c02.convert    the translated `convert_unit(uFrom, uTo[, value])` with units valued by floats (conv u u' x = x·u/u')
    c02.unitdims   the dimension table of unit names
-/
namespace Cij.Ops.C02

def adapterObj : Val := .new "QHACalculatorAdapter" (ofList [.opaque "settings", .opaque "qha_input"])

def jMono (m : Option Mono2) : Json :=
  match m with
  | some l => Json.arr (l.map fun p => Json.arr #[Json.str p.1, jInt p.2]).toArray
  | none => Json.null

def handle : Handler := fun op j =>
  match op with
  | "c02.volcheck" => some do
      let vs ← floats1 (← field j "volumes")
      match Generated.QhaGlue.adapterModule.find "QHACalculator" "read_input" with
      | none => pure (Json.mkObj [("status", Json.str "no-read_input")])
      | some d =>
        pure (match runReadInput vs d.body [] with
          | none => Json.mkObj [("status", Json.str "unknown")]
          | some (.error e) => Json.mkObj [("status", Json.str e)]
          | some (.ok stored) => Json.mkObj [("status", Json.str "ok"), ("stored", jStrs (stored.map fun p => ".".intercalate p.1))])
  | "c02.chain" => some do
      let attrs ← listOf strOfJson (← field j "attrs")
      pure (match (readChain Generated.QhaGlue.adapterModule adapterObj attrs).bind Val.render with
        | some (root, path) => Json.mkObj [("root", Json.str root), ("path", jStrs path)]
        | none => Json.null)
  | "c02.helpers" => some do
      pure (Json.arr (Generated.QhaGlue.unitHelpers.map fun h =>
        Json.mkObj [("name", Json.str h.name), ("src", jMono (UExpr.mono2 h.src)), ("dst", jMono (UExpr.mono2 h.dst))]).toArray)
  | "c02.convert" => some do
      let uf ← floatOfJson (← field j "from")
      let ut ← floatOfJson (← field j "to")
      let probe ← floatOfJson (← field j "probe")
      let value ← match fieldD j "value" Json.null with
        | Json.null => pure none
        | v => (floatOfJson v).map some
      pure (match Generated.QhaGlue.convertUnit.meaning (fun (u u' x : Float) => x * u / u') uf ut value with
        | some (.value x) => Json.mkObj [("kind", Json.str "value"), ("x", floatToJson x)]
        | some (.function f) => Json.mkObj [("kind", Json.str "function"), ("x", floatToJson (f probe))]
        | none => Json.mkObj [("kind", Json.str "unknown")])
  | "c02.unitdims" => some do
      let names ← listOf strOfJson (← field j "names")
      pure (Json.mkObj (names.map fun n => (n, match unitDim n with
        | some d => jInts [d.l, d.m, d.t, d.θ, d.n]
        | none => Json.null)))
  | _ => none

end Cij.Ops.C02
