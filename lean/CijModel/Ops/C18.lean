import CijModel.Wire
import CijModel.Static
import CijModel.StaticExpr
import CijModel.StaticDefaults
import CijModel.VRH
import CijModel.Ops.C05
open Lean Cij Cij.Wire

/-! Wire ops of C18.  `Static.runWith` is executed at `Float` (numpy's own arithmetic); the least-squares fit is
    `LeastSq.polynomialLeastSquareFitting` over `Rat` on the exact values of the doubles, rounded once;
    `fill_cij` is `Fill.fill` over `Rat` (as for C08/C09); `numpy.linalg.inv` is `VRH.inv` (Gauss–Jordan, as for C07);
    the spline of mode `none` is `Static.notAKnotSpline`.
    An option the harness leaves out (JSON null / absent) takes the default DECLARED IN THE SOURCE (`StaticSrc.defaultOptions`,
    from the click declaration translated on this run).  With `"check_source": true` the op also interprets the translated
    blocks of `main` (`StaticSrc.run … Generated.staticBlocks`) on the same input and reports whether the result is
    bit-identical to `runWith` (`StaticSrc.run_is_source_driver` proves `runSource = runModel` for this very environment:
    `fillViaRat` satisfies `FillFrame` because `Fill.fill` does, over every scalar type). -/
namespace Cij.Ops.C18
open Cij.Static Cij.LeastSq

/-- numpy's `float(n)`; named so that Lemmas/StaticFillDriver.lean states its theorem with this very instance -/
def natCastFloat : NatCast Float := ⟨Float.ofNat⟩
attribute [local instance] natCastFloat

/-- the fit over `Rat`, conjugated with the exact embedding `Float → Rat` and one rounding `Rat → Float` -/
def fitViaRat : Fit Float := fun xs ys new order =>
  match xs.mapM C05.floatToRat, ys.mapM C05.floatToRat, new.mapM C05.floatToRat with
  | some a, some b, some c => (polynomialLeastSquareFitting a b c order).map fun l => l.map C05.ratToFloat
  | _, _, _ => none

/-- Python's `round(x)` for a float: nearest integer, ties to even -/
def pyRound (x : Float) : Int :=
  let f := x.floor
  let d := x - f
  let fi : Int := f.toInt64.toInt
  if d < 0.5 then fi else if d > 0.5 then fi + 1 else if fi % 2 == 0 then fi else fi + 1

/-- `fill_cij(df, system)` with its default keyword arguments, over `Rat` -/
def fillViaRat (system : String) (t : Table Float) : Option (Table Float) :=
  match t.mapM (fun c => (c.2.mapM C05.floatToRat).map fun col => (c.1, col)) with
  | none => none
  | some tq =>
    let P : Fill.Params Rat := { ignoreResiduals := false, ignoreRank := false,
                                 dropAtol := mkRat 1 100000000, residualAtol := mkRat 1 10 }
    let env : Fill.Env := { pathExists := fun _ => false, userFile := fun _ => none }
    match Fill.fill env (some system) P tq with
    | .ok out => some (out.map fun c => (c.1, c.2.map C05.ratToFloat))
    | .error _ => none

def isFinite (x : Float) : Bool := !(x.isNaN || x.isInf)

def extFloat : Ext Float where
  strain v0 v := 1.0 / 2.0 * (Float.pow (v0 / v) (2.0 / 3.0) - 1.0)
  sqrt := Float.sqrt
  spline := notAKnotSpline
  inv6 cs :=
    let ss := cs.map VRH.inv
    if ss.all fun s => s.all fun r => r.all isFinite then some ss else none
  fill := fillViaRat
  round := pyRound

def optFloat (j : Json) (k : String) : Except String (Option Float) :=
  match fieldD j k Json.null with
  | .null => pure none
  | v => (floatOfJson v).map some

def optionsOfJson (j : Json) : Except String (Options Float) := do
  let d ← match StaticSrc.defaultOptions (α := Float) with
    | some d => pure d
    | none => throw "the click defaults of static.py are outside the model's grammar"
  let interp ← match fieldD j "interp" Json.null with
    | .null => pure d.interp
    | v => match ← strOfJson v with
      | "none" => pure Interp.none
      | "volume" => pure Interp.volume
      | "pressure" => pure Interp.pressure
      | s => throw s!"interp {s}"
  let orDefault (k : String) (dflt : Float) : Except String Float :=
    match fieldD j k Json.null with
    | .null => pure dflt
    | v => floatOfJson v
  let orDefaultOpt (k : String) (dflt : Option Float) : Except String (Option Float) :=
    match fieldD j k Json.null with
    | .null => pure dflt
    | v => (floatOfJson v).map some
  pure { interp,
         ntv := ← (match fieldD j "ntv" Json.null with | .null => pure d.ntv | v => natOfJson v),
         pMin := ← orDefault "p_min" d.pMin, deltaP := ← orDefault "delta_p" d.deltaP,
         deltaPSample := ← orDefaultOpt "delta_p_sample" d.deltaPSample,
         cellmass := ← orDefaultOpt "cellmass" d.cellmass,
         vRatio := ← orDefault "v_ratio" d.vRatio,
         system := match fieldD j "system" Json.null with | .str s => some s | _ => d.system }

/-- bit-identical results (same row labels, same column names, same 64-bit patterns) -/
def sameOut (a b : Option (Out Float)) : Bool :=
  match a, b with
  | none, none => true
  | some x, some y =>
    x.index == y.index && x.table.map (·.1) == y.table.map (·.1)
      && x.table.map (fun c => c.2.map Float.toBits) == y.table.map (fun c => c.2.map Float.toBits)
  | _, _ => false

def unitsOfJson (j : Json) : Except String (Units Float) := do
  pure { toAng3 := ← floatOfJson (← field j "to_ang3"), toEv := ← floatOfJson (← field j "to_ev"),
         toGpa := ← floatOfJson (← field j "to_gpa"), fromGpa := ← floatOfJson (← field j "from_gpa"),
         toGcm3 := ← floatOfJson (← field j "to_gcm3"), toKms := ← floatOfJson (← field j "to_kms") }

/-- `{nv, volumes:[bits], energies:[bits]}` → what `read_energy` returns, as far as run-static reads it -/
def data01OfJson (j : Json) : Except String (QhaInput.Data Float) := do
  let vs ← floats1 (← field j "volumes")
  let es ← floats1 (← field j "energies")
  pure { nv := ← natOfJson (← field j "nv"), nq := 0, np := 0, nm := 0, na := 0, weights := [],
         volumes := (vs.zip es).map fun ve => ⟨0.0, ve.1, ve.2, []⟩ }

/-- a key: a Voigt pair `[i, j]` (through `c_`) or a raw column name -/
def keyOfJson (j : Json) : Except String ElastDat.Key :=
  match j with
  | .str s => pure (.raw s)
  | _ => do
    match ← listOf intOfJson j with
    | [a, b] =>
      match Modulus.create [.int a, .int b] with
      | some m => pure (.mod m)
      | none => throw "c_ rejected the pair"
    | _ => throw "key must be a Voigt pair or a string"

/-- `{cellmass, vref, keys, volumes:[bits], rows:[[bits]]}` → `read_elast_data` result -/
def data02OfJson (j : Json) : Except String (ElastDat.ElastData Float) := do
  let keys ← listOf keyOfJson (← field j "keys")
  let vs ← floats1 (← field j "volumes")
  let rows ← floats2 (← field j "rows")
  pure { vref := ← floatOfJson (← field j "vref"), nv := vs.length, cellmass := ← floatOfJson (← field j "cellmass"),
         volumes := (vs.zip rows).map fun vr => ⟨vr.1, ElastDat.dictOfZip keys vr.2⟩, lattice := [] }

def tableJson (t : Table Float) : List (String × Json) :=
  [("columns", jStrs (t.map (·.1))), ("values", jFloats2 (t.map (·.2)))]

/-- the model run of the op `c18.run` -/
def runModel (u : Units Float) (o : Options Float) (d1 : QhaInput.Data Float) (d2 : Option (ElastDat.ElastData Float)) :
    Option (Out Float) := runWith fitViaRat extFloat u o d1 d2

/-- the interpretation of the translated blocks of `main` on the same input (`"check_source": true`);
    `StaticSrc.run_is_source_driver` (Lemmas/StaticFillDriver.lean): `runSource = runModel` on every input -/
def runSource (u : Units Float) (o : Options Float) (d1 : QhaInput.Data Float) (d2 : Option (ElastDat.ElastData Float)) :
    Option (Out Float) := StaticSrc.run ⟨fitViaRat, extFloat, u, o, d1, d2⟩ Generated.staticBlocks

def handle : Handler := fun op j =>
  match op with
  | "c18.run" => some do
      let o ← optionsOfJson (← field j "options")
      let u ← unitsOfJson (← field j "units")
      let d1 ← data01OfJson (← field j "input01")
      let d2 ← match fieldD j "input02" Json.null with
        | .null => pure none
        | x => (data02OfJson x).map some
      -- the EoS arrays, for diagnostics
      let eosJ : List (String × Json) :=
        match (input01Columns d1).bind fun ve => eos fitViaRat extFloat o.vRatio o.ntv ve.1 ve.2 with
        | some e => [("v_array", jFloats1 e.vArray), ("f_array", jFloats1 e.fArray), ("p_array", jFloats1 e.pArray)]
        | none => []
      let res := runModel u o d1 d2
      let srcJ : List (String × Json) :=
        match fieldD j "check_source" Json.null with
        | .bool true =>
          [("source_agrees", Json.bool (sameOut res (runSource u o d1 d2)))]
        | _ => []
      match res with
      | none => pure (Json.mkObj ([("status", Json.str "error")] ++ eosJ ++ srcJ))
      | some out =>
        pure (Json.mkObj ([("status", Json.str "ok"), ("index", jInts (out.index.map Int.ofNat))]
          ++ tableJson out.table ++ eosJ ++ srcJ))
  | "c18.spline" => some do
      let x ← floats1 (← field j "x")
      let y ← floats1 (← field j "y")
      let t ← floats1 (← field j "t")
      pure (jFloats1 (notAKnotSpline x y t))
  | "c18.round" => some do
      let xs ← floats1 (← field j "xs")
      pure (jInts (xs.map pyRound))
  | "c18.linspace" => some do
      let a ← floatOfJson (← field j "start")
      let b ← floatOfJson (← field j "stop")
      let k ← natOfJson (← field j "num")
      pure (jFloats1 (linspace a b k))
  | _ => none

end Cij.Ops.C18
