/-
  Ops of C04: `resolve` / `calculate` of the task model run at Float on the inputs the real
  `PhononContributionTaskList` gets (strain field, requested keys, numpy's own eigh output per shear key, the
  evaluation order networkx produced, the values the real non-shear classes returned).
-/
import CijModel.Wire
import CijModel.Tasks
import CijModel.Ops.C03
open Lean Cij Cij.Wire Cij.Shear Cij.Tasks Cij.Ops.C03

namespace Cij.Ops.C04

/-- the tolerances `PhononContributionTaskParams.__eq__` passes to `numpy.allclose` (read from the code under test by
the harness: `rtol=_STRAIN_RTOL, atol=0` since the fix of the 1e-5 merge; numpy's defaults 1e-5 / 1e-8 before) -/
structure Tol where
  rtol : Float
  atol : Float

/-- `numpy.isclose(a, b, rtol, atol)` (`|a-b| <= atol + rtol*|b|`, equal infinities are close, NaN never) -/
def isclose (t : Tol) (a b : Float) : Bool := a == b || (a - b).abs ≤ t.atol + t.rtol * b.abs

def allclose1 (t : Tol) (a b : List Float) : Bool := a.length == b.length && (a.zip b).all fun p => isclose t p.1 p.2

def rowList (r : Vec3 Float) : List Float := [r 0, r 1, r 2]

/-- `PhononContributionTaskParams.__eq__(self, other)` -/
def peqF (t : Tol) : Params Float → Params Float → Bool
  | .nonshear c a b, .nonshear c' a' b' => c == c' && allclose1 t a a' && allclose1 t b b'
  | .shear s k, .shear s' k' => k == k' && s.length == s'.length &&
      (s.zip s').all fun p => allclose1 t (rowList p.1) (rowList p.2)
  | _, _ => false

def tolOfJson (j : Json) : Except String Tol := do
  pure ⟨← floatOfJson (← field j "rtol"), ← floatOfJson (← field j "atol")⟩

def sfieldOfJson (j : Json) : Except String (SField Float) := do
  pure ((← floats2 j).map vec3OfList)

def jSField (s : SField Float) : Json := jFloats2 (s.map rowList)

def eigOfJson (j : Json) : Except String (Eig Float) := do
  let entries ← (← arrOfJson j).mapM fun e => do
    let k ← keyOfJson (← field e "k")
    let T := mat3OfLists (← floats2 (← field e "T"))
    let lam := vec3OfList (← floats1 (← field e "lam"))
    pure (k, T, lam)
  pure fun k => match entries.find? (fun e => e.1 == k) with
    | some e => e.2
    | none => (fun _ _ => 0.0, fun _ => 0.0)

def calcName : Modulus.CalcType → String
  | .longitudinal => "LONGITUDINAL" | .offDiagonal => "OFF_DIAGONAL" | .shear => "SHEAR"

def jParams : Params Float → Json
  | .nonshear c a b => Json.mkObj [("calc", Json.str (calcName c)), ("a", jFloats1 a), ("b", jFloats1 b)]
  | .shear s k => Json.mkObj [("calc", Json.str "SHEAR"), ("strain", jSField s), ("key", jKey k)]

def jTask (t : PTask Float) : Json := Json.mkObj [("key", jKey t.key), ("params", jParams t.params)]

def jEdges (l : List (Nat × Nat)) : Json := Json.arr (l.map fun e => jInts [e.1, e.2]).toArray

def handle : Handler := fun op j =>
  match op with
  | "c04.resolve" => some do
      let strain ← sfieldOfJson (← field j "strain")
      let keys ← listOf keyOfJson (← field j "keys")
      let eig ← eigOfJson (← field j "eig")
      let peqF := peqF (← tolOfJson j)
      match resolve isZeroF peqF eig strain keys with
      | none => pure (Json.str "out-of-fuel")
      | some st => pure (Json.mkObj [
          ("tasks", Json.arr (st.tasks.map jTask).toArray),
          ("edges", jEdges st.edges),
          ("fuel", jInt (fuelFor isZeroF eig keys))])
  | "c04.calculate" => some do
      let strain ← sfieldOfJson (← field j "strain")
      let keys ← listOf keyOfJson (← field j "keys")
      let eig ← eigOfJson (← field j "eig")
      let order ← listOf natOfJson (← field j "order")
      let peqF := peqF (← tolOfJson j)
      let n ← natOfJson (← field j "cells")
      -- per task index: the (flattened) grids the real non-shear class returned; [] for shear tasks
      let bIso := ((← floats2 (← field j "base_iso")).map List.toArray).toArray
      let bAdi := ((← floats2 (← field j "base_adi")).map List.toArray).toArray
      match resolve isZeroF peqF eig strain keys with
      | none => pure (Json.str "out-of-fuel")
      | some st =>
        let base (tab : Array (Array Float)) (c : Nat) (p : Params Float) : Float :=
          match findTask peqF st.tasks p with
          | some i => (tab[i]?.getD #[])[c]?.getD (0.0 / 0.0)
          | none => 0.0 / 0.0
        let runs := (List.range n).map fun c =>
          calculate isZeroF peqF eig (base bIso c) (base bAdi c) st.tasks order ([], [])
        if runs.any Option.isNone then pure (Json.str "error") else
        let stores := runs.filterMap id
        let valid := validOrder st.tasks.length st.edges order
        -- requested results: key -> cells
        let res (pick : Store Float × Store Float → Store Float) : Option (List (Modulus × List Float)) :=
          keys.mapM fun k => do
            let vs ← stores.mapM fun s => (pick s).get peqF (create strain k)
            pure (k, vs)
        -- whole stores, per task in evaluation order
        let whole (pick : Store Float × Store Float → Store Float) : List (List Float) :=
          (List.range order.length).map fun t => stores.map fun s => ((pick s)[t]?.map (·.2)).getD (0.0 / 0.0)
        match res (·.1), res (·.2) with
        | some ri, some ra =>
            let jr (r : List (Modulus × List Float)) : Json :=
              Json.arr (r.map fun e => Json.arr #[jKey e.1, jFloats1 e.2]).toArray
            pure (Json.mkObj [("valid_order", Json.bool valid), ("iso", jr ri), ("adi", jr ra),
              ("store_iso", jFloats2 (whole (·.1))), ("store_adi", jFloats2 (whole (·.2)))])
        | _, _ => pure (Json.str "error")
  | _ => none

end Cij.Ops.C04
