/-
  Ops of C04: `resolve` / `calculate` of the task model run at Float on the inputs the real
  `PhononContributionTaskList` gets (strain field, requested keys, numpy's own eigh output per shear key, the
  evaluation order networkx produced, the values the real non-shear classes returned).
-/
import CijModel.Wire
import CijModel.Tasks
import CijModel.TasksGlue
import Generated.TasksGlue
import CijModel.Ops.C03
open Lean Cij Cij.Wire Cij.Shear Cij.Tasks Cij.Ops.C03

namespace Cij.Ops.C04

/-- the tolerances `PhononContributionTaskParams.__eq__` passes to `numpy.allclose` (read from the code under test by
the harness: `rtol=_STRAIN_RTOL, atol=0` since the fix of the 1e-5 merge; numpy's defaults 1e-5 / 1e-8 before) -/
structure Tol where
  rtol : Float
  atol : Float

/-- `numpy.isclose(a, b, rtol, atol)` (`|a-b| <= atol + rtol*|b|`, equal infinities are close, NaN never) -/
def isclose (t : Tol) (a b : Float) : Bool := a == b || (a - b).abs ≤ t.atol + t.rtol * b.abs

def allclose1 (t : Tol) (a b : List Float) : Bool := a.length == b.length && (a.zip b).all fun p => isclose t p.1 p.2

def rowList (r : Vec3 Float) : List Float := [r 0, r 1, r 2]

/-- `PhononContributionTaskParams.__eq__(self, other)`: the hand-written `TasksGlue.peqModel` (proved equal to the meaning of the
`__eq__` translated from tasks.py on this run, `c04_glue_is_source_eq`) with `numpy.allclose`'s formula on the flattened arrays -/
def peqF (t : Tol) : Params Float → Params Float → Bool := Cij.TasksGlue.peqModel (allclose1 t)

/-- the same relation read off the translated decision list (`Generated.TasksGlue.eqSpec`) -/
def peqSrcF (t : Tol) : Params Float → Params Float → Bool :=
  Cij.TasksGlue.peqOfSpec Generated.TasksGlue.eqSpec (allclose1 t)

def tolOfJson (j : Json) : Except String Tol := do
  pure ⟨← floatOfJson (← field j "rtol"), ← floatOfJson (← field j "atol")⟩

def sfieldOfJson (j : Json) : Except String (SField Float) := do
  pure ((← floats2 j).map vec3OfList)

def jSField (s : SField Float) : Json := jFloats2 (s.map rowList)

def eigOfJson (j : Json) : Except String (Eig Float) := do
  let entries ← (← arrOfJson j).mapM fun e => do
    let k ← keyOfJson (← field e "k")
    let T := mat3OfLists (← floats2 (← field e "T"))
    let lam := vec3OfList (← floats1 (← field e "lam"))
    pure (k, T, lam)
  pure fun k => match entries.find? (fun e => e.1 == k) with
    | some e => e.2
    | none => (fun _ _ => 0.0, fun _ => 0.0)

def calcName : Modulus.CalcType → String
  | .longitudinal => "LONGITUDINAL" | .offDiagonal => "OFF_DIAGONAL" | .shear => "SHEAR"

def jParams : Params Float → Json
  | .nonshear c a b => Json.mkObj [("calc", Json.str (calcName c)), ("a", jFloats1 a), ("b", jFloats1 b)]
  | .shear s k => Json.mkObj [("calc", Json.str "SHEAR"), ("strain", jSField s), ("key", jKey k)]

def jTask (t : PTask Float) : Json := Json.mkObj [("key", jKey t.key), ("params", jParams t.params)]

def jEdges (l : List (Nat × Nat)) : Json := Json.arr (l.map fun e => jInts [e.1, e.2]).toArray

def handle : Handler := fun op j =>
  match op with
  | "c04.resolve" => some do
      let strain ← sfieldOfJson (← field j "strain")
      let keys ← listOf keyOfJson (← field j "keys")
      let eig ← eigOfJson (← field j "eig")
      let peqF := peqF (← tolOfJson j)
      match resolve isZeroF peqF eig strain keys with
      | none => pure (Json.str "out-of-fuel")
      | some st => pure (Json.mkObj [
          ("tasks", Json.arr (st.tasks.map jTask).toArray),
          ("edges", jEdges st.edges),
          ("fuel", jInt (fuelFor isZeroF eig keys))])
  | "c04.calculate" => some do
      let strain ← sfieldOfJson (← field j "strain")
      let keys ← listOf keyOfJson (← field j "keys")
      let eig ← eigOfJson (← field j "eig")
      let order ← listOf natOfJson (← field j "order")
      let peqF := peqF (← tolOfJson j)
      let n ← natOfJson (← field j "cells")
      -- per task index: the (flattened) grids the real non-shear class returned; [] for shear tasks
      let bIso := ((← floats2 (← field j "base_iso")).map List.toArray).toArray
      let bAdi := ((← floats2 (← field j "base_adi")).map List.toArray).toArray
      match resolve isZeroF peqF eig strain keys with
      | none => pure (Json.str "out-of-fuel")
      | some st =>
        let base (tab : Array (Array Float)) (c : Nat) (p : Params Float) : Float :=
          match findTask peqF st.tasks p with
          | some i => (tab[i]?.getD #[])[c]?.getD (0.0 / 0.0)
          | none => 0.0 / 0.0
        let runs := (List.range n).map fun c =>
          calculate isZeroF peqF eig (base bIso c) (base bAdi c) st.tasks order ([], [])
        if runs.any Option.isNone then pure (Json.str "error") else
        let stores := runs.filterMap id
        let valid := validOrder st.tasks.length st.edges order
        -- requested results: key -> cells
        let res (pick : Store Float × Store Float → Store Float) : Option (List (Modulus × List Float)) :=
          keys.mapM fun k => do
            let vs ← stores.mapM fun s => (pick s).get peqF (create strain k)
            pure (k, vs)
        -- whole stores, per task in evaluation order
        let whole (pick : Store Float × Store Float → Store Float) : List (List Float) :=
          (List.range order.length).map fun t => stores.map fun s => ((pick s)[t]?.map (·.2)).getD (0.0 / 0.0)
        match res (·.1), res (·.2) with
        | some ri, some ra =>
            let jr (r : List (Modulus × List Float)) : Json :=
              Json.arr (r.map fun e => Json.arr #[jKey e.1, jFloats1 e.2]).toArray
            pure (Json.mkObj [("valid_order", Json.bool valid), ("iso", jr ri), ("adi", jr ra),
              ("store_iso", jFloats2 (whole (·.1))), ("store_adi", jFloats2 (whole (·.2)))])
        | _, _ => pure (Json.str "error")
  | "c04.eq" => some do
      -- pairs of (strain, key): `create(a) == create(b)` by the hand-written relation, by the translated decision list, and the
      -- result of running the TRANSLATED `resolve` on the same request as a task count (0 = out of fuel / ill-typed)
      let t ← tolOfJson j
      let one (e : Json) : Except String (Params Float) := do
        pure (create (← sfieldOfJson (← field e "strain")) (← keyOfJson (← field e "key")))
      let pairs ← listOf (fun e => do pure ((← one (← field e "a")), (← one (← field e "b")))) (← field j "pairs")
      pure (Json.arr (pairs.map fun ab =>
        Json.arr #[Json.bool (peqF t ab.1 ab.2), Json.bool (peqSrcF t ab.1 ab.2)]).toArray)
  | "c04.store" => some do
      -- a history of `store[(strain, key)] = v` / `store[(strain, key)]` on two result stores: `Store` append and `Store.get`
      let t ← tolOfJson j
      let ops ← arrOfJson (← field j "ops")
      let step (acc : Except String (Array (Store Float) × Array Json)) (o : Json) : Except String (Array (Store Float) × Array Json) := do
        let (stores, out) ← acc
        let i ← natOfJson (← field o "st")
        let e ← field o "p"
        let p := create (← sfieldOfJson (← field e "strain")) (← keyOfJson (← field e "key"))
        match o.getObjVal? "v" with
        | .ok v => pure (stores.modify i (· ++ [(p, ← floatOfJson v)]), out)
        | .error _ =>
            pure (stores, out.push (match Store.get (peqF t) (stores[i]?.getD []) p with
              | some v => floatToJson v
              | none => Json.str "missing"))
      let (_, out) ← ops.foldl step (pure (#[[], []], #[]))
      pure (Json.arr out)
  | "c04.resolve_src" => some do
      -- the TRANSLATED work-list program (Generated.TasksGlue.workList / depsSpec / eqSpec) run on the same request
      let strain ← sfieldOfJson (← field j "strain")
      let keys ← listOf keyOfJson (← field j "keys")
      let eig ← eigOfJson (← field j "eig")
      let t ← tolOfJson j
      match Cij.TasksGlue.runResolve Generated.TasksGlue.workList (peqSrcF t)
          (Cij.TasksGlue.depsOfSpec Generated.TasksGlue.depsSpec isZeroF eig) (fuelFor isZeroF eig keys) strain keys with
      | none => pure (Json.str "out-of-fuel")
      | some st => pure (Json.mkObj [
          ("tasks", Json.arr (st.tasks.map jTask).toArray),
          ("edges", jEdges st.edges)])
  | _ => none

end Cij.Ops.C04
