/-
  Driver ops for C01 / C02: the `Float` instance of `CijModel/NonShear.lean` on the arrays the real
  `LongitudinalElasticModulusPhononContribution` / `OffDiagonalElasticModulusPhononContribution` get.

  op "c01.long" / "c01.off"
    in : h k hdk (float bits), na (int), w[q], t[t], v[v], e0[v], e1[v], pst[v],
         freq[v][q][m], mg0[v][q][m], mg1[v][q][m], mg2[v][q][m], P[t][v], cv[t][v]
    out: {"zp":[v], "th":[t][v], "iso":[t][v], "gap":[t][v], "adia":[t][v]}
         = zero_point_contribution, thermal_contribution, value_isothermal, isothermal_to_adiabatic, value_adiabatic
  op "c01.avg"   in: x[q][m], w[q]   out: average_over_modes(x, w)   (one float)
  op "c01.avgsrc" in: x[q][m], w[q]  out: the TRANSLATED method `average_over_modes(self, amount)` → module function → reduction tree
                  (`Generated.NonShearGlue`, evaluated by `CijModel/NSGlue.lean`) on the same array; "error:tree" when the tree is
                  outside the evaluator
  op "c01.masksrc" in: t[t], x[t][v]  out: the translated `ret[…] = 0` statements of thermal_contribution applied to x
  Shapes that numpy would refuse to broadcast are answered with the string "error:shape".
-/
import CijModel.Wire
import CijModel.NonShear
import CijModel.NSGlue
import Generated.NonShearGlue
open Lean Cij.Wire Cij.NonShear Cij.NSGlue Generated.NonShearGlue

namespace Cij.Ops.C01

private def sameLen {β γ} (a : List β) (b : List γ) : Bool := a.length == b.length

private def rect2 (a : List (List Float)) (n m : Nat) : Bool :=
  a.length == n && a.all (fun r => r.length == m)

private def rect3 (a : List (List (List Float))) (nv nq np : Nat) : Bool :=
  a.length == nv && a.all (fun s => rect2 s nq np)

def handleGrid (offDiag : Bool) (j : Json) : Except String Json := do
  let h ← floatOfJson (← field j "h")
  let k ← floatOfJson (← field j "k")
  let hdk ← floatOfJson (← field j "hdk")
  let na ← natOfJson (← field j "na")
  let w ← floats1 (← field j "w")
  let t ← floats1 (← field j "t")
  let v ← floats1 (← field j "v")
  let e0 ← floats1 (← field j "e0")
  let e1 ← floats1 (← field j "e1")
  let pst ← floats1 (← field j "pst")
  let freq ← floats3 (← field j "freq")
  let mg0 ← floats3 (← field j "mg0")
  let mg1 ← floats3 (← field j "mg1")
  let mg2 ← floats3 (← field j "mg2")
  let P ← floats2 (← field j "P")
  let cv ← floats2 (← field j "cv")
  let nv := v.length
  let nq := w.length
  let np := match freq with | (r :: _) :: _ => r.length | _ => 0
  let okShape := sameLen e0 v && sameLen e1 v && sameLen pst v
    && rect3 freq nv nq np && rect3 mg0 nv nq np && rect3 mg1 nv nq np && rect3 mg2 nv nq np
    && rect2 P t.length nv && rect2 cv t.length nv && nq > 0
  if !okShape then return Json.str "error:shape"
  let c : Consts Float := { h := h, k := k, hdk := hdk, na := na }
  let vs := slices v e0 e1 pst freq mg0 mg1 mg2
  let ts := tempRows t P cv
  let (zp, th, iso, gap, adia) :=
    if offDiag then
      (zeroPointOff c w vs, thermalOff c w ts vs, valueIsothermalOff c w ts vs, isoToAdiaOff c w ts vs,
       valueAdiabaticOff c w ts vs)
    else
      (zeroPointLong c w vs, thermalLong c w ts vs, valueIsothermalLong c w ts vs, isoToAdiaLong c w ts vs,
       valueAdiabaticLong c w ts vs)
  pure (Json.mkObj [("zp", jFloats1 zp), ("th", jFloats2 th), ("iso", jFloats2 iso), ("gap", jFloats2 gap),
                    ("adia", jFloats2 adia)])

def handle : Handler := fun op j =>
  match op with
  | "c01.long" => some (handleGrid false j)
  | "c01.off" => some (handleGrid true j)
  | "c01.avg" => some do
      let x ← floats2 (← field j "x")
      let w ← floats1 (← field j "w")
      pure (floatToJson (averageOverModes x w))
  | "c01.avgsrc" => some do
      let x ← floats2 (← field j "x")
      let w ← floats1 (← field j "w")
      match (methodAvg avgMethod avgTree clearSpec x w).scalar? with
      | some a => pure (floatToJson a)
      | none => pure (Json.str "error:tree")
  | "c01.masksrc" => some do
      let t ← floats1 (← field j "t")
      let x ← floats2 (← field j "x")
      match applyMasks masksThLong t x, applyMasks masksThOff t x with
      | some a, some b => pure (Json.mkObj [("long", jFloats2 a), ("off", jFloats2 b)])
      | _, _ => pure (Json.str "error:mask")
  | _ => none

end Cij.Ops.C01
