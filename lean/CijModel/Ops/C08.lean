import CijModel.Wire
import CijModel.Laue
import CijModel.Ops.C09
open Lean Cij Cij.Wire

/-! Wire ops of C08: the same `fill` model as C09, and the specification side (`rotate`) evaluated at `Float`
    so that the harness can cross-check it against numpy's einsum. -/
namespace Cij.Ops.C08

/-- the rotation matrix `R = (2R)/2` at Float -/
def rotF (g : Laue.Gen) : Laue.Mat3 Float := fun i j => Laue.gen2 (Float.sqrt 3) g i j / 2

/-- op `c08.defect`: {system, c:[21 bits]} → for every generator of the Laue class the 21 components of
    `rotate R (tensorOf c) − tensorOf c` -/
def defectOp (j : Json) : Except String Json := do
  let sys ← strOfJson (← field j "system")
  let c ← floats1 (← field j "c")
  let cf : Fin 21 → Float := fun b => c.getD b.val 0
  let T := Laue.tensorOf cf
  let out := (Laue.laueGens sys).map fun g =>
    let T' := Laue.rotate (rotF g) T
    (List.finRange 21).map fun b => Laue.comp T' b - cf b
  pure (jFloats2 out)

/-- op `c08.rotate`: {g:[[9 bits]] row-major 3×3, c:[21 bits]} → the 81 entries of rotate g (tensorOf c) -/
def rotateOp (j : Json) : Except String Json := do
  let g ← floats1 (← field j "g")
  let c ← floats1 (← field j "c")
  let G : Laue.Mat3 Float := fun i k => g.getD (3 * i.val + k.val) 0
  let T' := Laue.rotate G (Laue.tensorOf fun b : Fin 21 => c.getD b.val 0)
  let l3 := List.finRange 3
  pure (jFloats1 (l3.flatMap fun i => l3.flatMap fun k => l3.flatMap fun m => l3.map fun n => T' i k m n))

def handle : Handler := fun op j =>
  match op with
  | "c08.fill" => some (C09.fillOp j)
  | "c08.defect" => some (defectOp j)
  | "c08.rotate" => some (rotateOp j)
  | _ => none

end Cij.Ops.C08
