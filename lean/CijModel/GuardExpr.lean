/-
  Small expression language for "reduction of a field ⋚ reduction of a field" tests, the shape of the pressure-range
  guard in cij/core/qha_adapter.py (`QHACalculator.desired_pressure_status`).  The generator tools/gens/adapter_guard.py
  translates the guard's `if` test into a value of `Guard`; `Guard.eval` is its meaning over any ordered scalar.
  No imports: the driver links this file.
-/
namespace Cij.GuardExpr

/-- `x.min()` / `x.max()` -/
inductive Red | min | max
  deriving DecidableEq, Repr

/-- which part of the (T,V) table is reduced: `a[:, -1]`, `a[:, 0]`, or the whole (1-d) array -/
inductive Sel | lastColumn | firstColumn | all
  deriving DecidableEq, Repr

/-- comparison operator of the test -/
inductive Cmp | lt | le | gt | ge
  deriving DecidableEq, Repr

/-- one side of the test: `self.<field><sel>.<red>()` -/
structure Side where
  field : String
  sel : Sel
  red : Red
  deriving DecidableEq, Repr

/-- `if <left> <op> <right>: raise <raises>` -/
structure Guard where
  left : Side
  op : Cmp
  right : Side
  raises : String
  deriving DecidableEq, Repr

section
variable {α : Type} [LT α] [DecidableLT α]

def reduce (r : Red) : List α → Option α
  | [] => none
  | x :: xs => some (match r with
      | .min => xs.foldl (fun m y => if y < m then y else m) x
      | .max => xs.foldl (fun m y => if m < y then y else m) x)

def cmp (c : Cmp) (a b : α) : Bool :=
  match c with
  | .lt => decide (a < b)
  | .gt => decide (b < a)
  | .le => !decide (b < a)
  | .ge => !decide (a < b)

end

end Cij.GuardExpr
