/-
  Model of `cij extract` (cij/cli/extract.py: load_data, main) and `cij extract-geotherm`
  (cij/cli/geotherm.py: load_data, fit_data, main)  — property C19.

  * A table file is its parsed content `(row labels, column labels, matrix)` exactly as
    `pandas.read_table(…, sep=r"\s+", index_col=0)` + `float()` of the labels delivers it.
  * The working directory is a list `(file name, table)` in the order `glob` returns names
    (filesystem dependent — a parameter); `glob(f"{var}_tp_*")[0]` is the first name with that prefix
    (assumption: `var` contains no glob metacharacter).
  * `scipy.interpolate.RectBivariateSpline(x, y, z)` is a PARAMETER `S x y z : α → α → α` (contract used by the
    theorems: `S x y z x_i y_j = z_ij`).  The model records exactly which columns the code passes where.
  * exceptions (IndexError of `[0]`, KeyError of a column, UnboundLocalError when neither -T nor -P, ValueError of
    argmin on an empty axis) are `none`.
  No Mathlib; polymorphic in the scalar.
-/
import CijModel.Writer

namespace Cij.Extract

open Cij.Writer (dictGet dictSet optAll)

/-- parsed table: `df.index`, `df.columns`, `df.to_numpy()` -/
structure Tab (α : Type) where
  rows : List α
  cols : List α
  vals : List (List α)

/-- `df.T` -/
def Tab.transpose {α} (t : Tab α) : Tab α :=
  { rows := t.cols
    cols := t.rows
    vals := (List.range t.cols.length).map fun j => t.vals.filterMap (·[j]?) }

section order
variable {α : Type} [LT α] [DecidableLT α]

/-- running first-minimum: `go rest nextIndex bestIndex bestValue` -/
def argminGo : List α → Nat → Nat → α → Nat
  | [], _, bi, _ => bi
  | e :: es, i, bi, bv => if e < bv then argminGo es (i + 1) i e else argminGo es (i + 1) bi bv

/-- `numpy.argmin` on finite data: index of the FIRST minimum (ValueError on an empty array = none) -/
def argminFirst : List α → Option Nat
  | [] => none
  | d :: ds => some (argminGo ds 1 0 d)

variable [Sub α] [Neg α] [OfNat α 0]

/-- `numpy.abs` -/
def absv (x : α) : α := if x < 0 then -x else x

/-- `numpy.argmin(numpy.abs(df.index.to_numpy() - y))` -/
def argminAbs (xs : List α) (y : α) : Option Nat := argminFirst (xs.map fun x => absv (x - y))

/-- `y_index = argmin(|index − y|); data[var] = df.iloc[y_index]`, together with `x_array = df.columns` -/
def pick (t : Tab α) (y : α) : Option (List α × List α) := do
  let i ← argminAbs t.rows y
  let row ← t.vals[i]?
  pure (t.cols, row)

/-- the body of the loop in extract.main for one table: `-T` wins when both are given (`if temperature != None …
elif pressure != None`), `-P` transposes first, neither leaves `y` unbound. -/
def selectRow (t : Tab α) (temperature pressure : Option α) : Option (List α × List α) :=
  match temperature, pressure with
  | some y, _ => pick t y
  | none, some y => pick t.transpose y
  | none, none => none

end order

/-- the glob pattern `f"{var}_tp_*"` matches exactly the names that begin with `var ++ "_tp_"` -/
def globMatches (var fname : String) : Bool := (var ++ "_tp_").toList.isPrefixOf fname.toList

/-- `glob(f"{var}_tp_*")[0]` then `read_table` -/
def loadData {α} (dir : List (String × Tab α)) (var : String) : Option (Tab α) :=
  (dir.find? fun e => globMatches var e.1).map (·.2)

/-- the variable name under which a file is found: the part of its name before the first "_tp_" -/
def stemGo : List Char → List Char → List Char
  | [], acc => acc.reverse
  | c :: cs, acc => if "_tp_".toList.isPrefixOf (c :: cs) then acc.reverse else stemGo cs (c :: acc)
def stem (fname : String) : String := String.ofList (stemGo fname.toList [])

/-- `table[var] = series` on a frame indexed by `labels`: alignment by label, a missing label gives NaN (`none`) -/
def align {α} [BEq α] (labels : List α) (ser : List α × List α) : List (Option α) :=
  labels.map fun l => ((ser.1.zip ser.2).find? fun e => e.1 == l).map (·.2)

/-- `extract.main`: index = `x_array` of the LAST variable, one column per variable (variables assumed distinct) -/
def extract {α} [LT α] [DecidableLT α] [Sub α] [Neg α] [OfNat α 0] [BEq α]
    (dir : List (String × Tab α)) (vars : List String) (temperature pressure : Option α) :
    Option (List α × List (String × List (Option α))) := do
  let data ← optAll (vars.map fun v => do
    let t ← loadData dir v
    selectRow t temperature pressure)
  let last ← data.getLast?
  pure (last.1, (vars.zip data).map fun vs => (vs.1, align last.1 vs.2))

/-! ### extract-geotherm -/

/-- `fit_data(df)`: `RectBivariateSpline(x = df.index, y = df.columns, z = df.to_numpy())` -/
abbrev Spline (α : Type) := List α → List α → List (List α) → α → α → α

/-- one pass of the loop: `table[var] = fit_data(df)(table[p_col], table[t_col], grid=False)` — first argument
(the spline's x = temperatures axis) is the column named by `--p-col`, second (y = pressures axis) by `--t-col`,
exactly as coded. -/
def geothermStep {α} (S : Spline α) (dir : List (String × Tab α)) (tCol pCol : String)
    (table : List (String × List α)) (var : String) : Option (List (String × List α)) := do
  let df ← loadData dir var
  let a ← dictGet table pCol
  let b ← dictGet table tCol
  pure (dictSet table var (List.zipWith (S df.rows df.cols df.vals) a b))

/-- `geotherm.main`; `geo` is the geotherm file as columns in file order; the click defaults are
`--t-col "P"` and `--p-col "T"`. -/
def geotherm {α} (S : Spline α) (dir : List (String × Tab α)) (vars : List String)
    (geo : List (String × List α)) (tCol : String := "P") (pCol : String := "T") :
    Option (List (String × List α)) :=
  vars.foldlM (geothermStep S dir tCol pCol) geo

end Cij.Extract
