/-
  Model of `cij/core/mode_gamma.py` (interpolation of every phonon mode in (ln V, ln ω), with first and
  second derivative), of the wiring line `calculator.py: self.mode_gamma = [vdr_dv, gamma_i, gamma_i**2]`
  and of `cij/plot/modes.py: ModePlotter.plot_modes`.

  * No Mathlib.  Numeric code is written once, polymorphic in the scalar `α`
    (`Add Sub Mul Div Neg Zero One NatCast BEq` + the two-function class `ExpLog`).
    It runs at `Float` (driver), at `Rat` (exact kernels: least squares) and is the subject of the
    theorems at `ℝ` / ordered fields (`CijProofs/Properties/C11.lean`).
  * External libraries are *parameters with a contract*: an `Interpolant α` receives the nodes
    (already in ln–ln, thinned and flipped exactly as the Python code hands them to scipy) and the
    evaluation points and returns the samples `(s, s', s'')`.  For `lsq_poly`, `lagrange`, `krogh`
    the kernel is re-implemented exactly (`lsqInterpolant`, `newtonInterpolant`); for
    `spline`/`pchip`/`akima` it is supplied (scipy's samples; contract "s' and s'' are the
    derivatives of s" is measured by the harness); `hermite` is the call that exists:
    `CubicHermiteSpline(x, y)` without `dydx` → `TypeError`.
  * Model the code that EXISTS: `plotSelect` reproduces the selection of `plot_modes` as coded
    (since /repo 17c4262: n = 1 ↦ `mode_gamma[1]`, n = 2 ↦ `mode_gamma[0]`).
-/
namespace Cij.Interp

/-- `numpy.exp` / `numpy.log` -/
class ExpLog (α : Type) where
  exp : α → α
  log : α → α

instance : ExpLog Float := ⟨Float.exp, Float.log⟩
instance : NatCast Float := ⟨Float.ofNat⟩

/-- Python exception classes that can leave `interpolate_modes` / `plot_modes` -/
inductive Err where
  | typeError        -- CubicHermiteSpline(x, y): missing `dydx`
  | zeroDivision     -- order = 0 in `shape[0] / order`
  | valueError       -- raised by a library constructor (too few nodes, k out of range, …)
  | linAlg           -- model only: normal equations not solvable exactly (rank deficient)
  | unboundLocal     -- plot_modes with n ∉ {0,1,2}: `w_arrays` never bound
  | other (tag : String)
  deriving Repr, DecidableEq, Inhabited

def Err.toString : Err → String
  | .typeError => "TypeError" | .zeroDivision => "ZeroDivisionError" | .valueError => "ValueError"
  | .linAlg => "LinAlgError" | .unboundLocal => "UnboundLocalError" | .other t => t

/-- the seven documented methods (schema enum) and anything else (no branch of the loop matches) -/
inductive Method where
  | spline | lagrange | krogh | pchip | akima | hermite | lsqPoly
  | unknown
  deriving Repr, DecidableEq, Inhabited

def Method.ofString : String → Method
  | "spline" => .spline | "lagrange" => .lagrange | "krogh" => .krogh | "pchip" => .pchip
  | "akima" => .akima | "hermite" => .hermite | "lsq_poly" => .lsqPoly | _ => .unknown

/-- samples `(s(x), s'(x), s''(x))` of an interpolant -/
abbrev Triple (α : Type) := α × α × α

/-- An interpolation kernel in ln–ln: `I xs ys pts` = the samples at `pts` of the interpolant built on
nodes `(xs, ys)`; or the exception the constructor raises. -/
abbrev Interpolant (α : Type) := List α → List α → List α → Except Err (List (Triple α))

section Numeric
variable {α : Type} [Add α] [Sub α] [Mul α] [Div α] [Neg α] [Zero α] [One α] [NatCast α]

/-! ### numpy.polyval / numpy.polyder on coefficient lists (highest power first, as numpy) -/

/-- `numpy.polyval(p, x)`: Horner, `y = y * x + pv` for `pv` in `p`. -/
def polyval (p : List α) (x : α) : α := p.foldl (fun acc c => acc * x + c) 0

/-- `numpy.polyder(p, 1)`: coefficient of `x^k` times `k`, constant term dropped. -/
def polyder : List α → List α
  | [] => []
  | [_] => []
  | c :: c' :: cs => (c * ((cs.length + 1 : Nat) : α)) :: polyder (c' :: cs)

/-- `numpy.polyder(p, m)` -/
def polyderN : Nat → List α → List α
  | 0, p => p
  | m + 1, p => polyderN m (polyder p)

/-- `x ** n` by repeated multiplication -/
def npow (x : α) : Nat → α
  | 0 => 1
  | n + 1 => npow x n * x

/-- one row of `numpy.vander(xs, n)`: `[x^(n-1), …, x, 1]` -/
def powersDesc (x : α) : Nat → List α
  | 0 => []
  | n + 1 => npow x n :: powersDesc x n

/-- `numpy.vander(xs, n)` -/
def vander (xs : List α) (n : Nat) : List (List α) := xs.map (powersDesc · n)

def sumL (l : List α) : α := l.foldr (· + ·) 0
def dot (u v : List α) : α := sumL (List.zipWith (· * ·) u v)

/-- `Σ_r x_r^k` and `Σ_r x_r^k · e_r`: the entries of `VᵀV` and of `Vᵀe` for the Vandermonde matrix `V` -/
def powerSum (xs : List α) (k : Nat) : α := sumL (xs.map (npow · k))
def moment (xs es : List α) (k : Nat) : α := sumL (List.zipWith (fun x e => npow x k * e) xs es)

/-- `Vᵀ V` for `V = vander xs n`: entry `(i, j)` is `Σ_r x_r^(n-1-i) x_r^(n-1-j)` -/
def normalMatrix (xs : List α) (n : Nat) : List (List α) :=
  (List.range n).map fun i => (List.range n).map fun j => powerSum xs ((n - 1 - i) + (n - 1 - j))

/-- `Vᵀ y` -/
def normalRhs (xs ys : List α) (n : Nat) : List α :=
  (List.range n).map fun i => moment xs ys (n - 1 - i)

variable [BEq α]

/-- first row whose leading entry is non-zero, and the other rows in order -/
def extractPivot : List (List α) → Option (List α × List (List α))
  | [] => none
  | r :: rs =>
    if r.headD 0 == 0 then (extractPivot rs).map (fun (p, rest) => (p, r :: rest)) else some (r, rs)

/-- Gaussian elimination on an augmented `n × (n+1)` system; `none` when no pivot is found.
(Untrusted search: `lstsqPolyfit` re-checks the answer.) -/
def solve : Nat → List (List α) → Option (List α)
  | 0, _ => some []
  | n + 1, rows =>
    match extractPivot rows with
    | none => none
    | some (p, rest) =>
      let p0 := p.headD 0
      let pt := p.tail
      let sub := rest.map fun r => List.zipWith (fun a b => a - (r.headD 0 / p0) * b) r.tail pt
      match solve n sub with
      | none => none
      | some xs =>
        let rhs := pt.getD n 0
        let x0 := (rhs - dot (pt.take n) xs) / p0
        some (x0 :: xs)

/-- residuals `polyval(a, x_r) − y_r` of the fitted polynomial (`= (V a − y)_r`, a row of `vander` dotted with `a` being Horner's value) -/
def residuals (xs ys a : List α) : List α := List.zipWith (fun x y => polyval a x - y) xs ys

/-- the *normal equations* `Vᵀ (V a − y) = 0` of `min ‖vander(xs, order+1) · a − ys‖²`, column by column:
`Σ_r x_r^k (polyval(a, x_r) − y_r) = 0` for `k = 0 … order` -/
def normalEq (xs ys : List α) (order : Nat) (a : List α) : Bool :=
  a.length == order + 1 && (List.range (order + 1)).all fun k => moment xs (residuals xs ys a) k == 0

/-- `mode_gamma.lstsq_polyfit` (coefficients only): `order += 1; xx = vander(xs, order);
a = lstsq(xx, ys)`.  Exact least squares by the normal equations; the answer is returned only if it
satisfies them exactly (`normalEq`), so over `Rat` it IS the least-squares solution (theorems
`lsq_minimises`, `lsq_exact`).  Rank-deficient systems (numpy: minimum-norm solution) are outside the model. -/
def lstsqPolyfit (xs ys : List α) (order : Nat) : Option (List α) :=
  let n := order + 1
  let aug := List.zipWith (fun r b => r ++ [b]) (normalMatrix xs n) (normalRhs xs ys n)
  match solve n aug with
  | none => none
  | some a => if normalEq xs ys order a then some a else none

/-- kernel of `interpolate_mode_lsq_poly`: `p = poly1d(a)`, samples `polyval(p)`, `polyval(polyder(p,1))`,
`polyval(polyder(p,2))` at the evaluation points. -/
def lsqInterpolant (order : Nat) : Interpolant α := fun xs ys pts =>
  match lstsqPolyfit xs ys order with
  | none => .error .linAlg
  | some a => .ok (pts.map fun x => (polyval a x, polyval (polyder a) x, polyval (polyderN 2 a) x))

/-! ### the interpolating polynomial through the nodes (scipy `lagrange` / `KroghInterpolator`), Newton form -/

/-- `Σ_k c_k Π_{j<k}(x − x_j)` with first and second derivative, and the running product
`Π_j (x − x_j)` with its derivatives; `nodes` = list of `(x_k, c_k)`. State `(acc, acc', acc'', w, w', w'')`. -/
def newtonFold (x : α) : List (α × α) → (Triple α × Triple α) → (Triple α × Triple α)
  | [], st => st
  | (xk, ck) :: rest, ((a, a1, a2), (w, w1, w2)) =>
    newtonFold x rest
      ((a + ck * w, a1 + ck * w1, a2 + ck * w2),
       (w * (x - xk), w1 * (x - xk) + w, w2 * (x - xk) + (w1 + w1)))

def newtonInit : Triple α × Triple α := ((0, 0, 0), (1, 0, 0))

/-- value, first and second derivative of the Newton-form polynomial at `x` -/
def newtonEval (nodes : List (α × α)) (x : α) : Triple α := (newtonFold x nodes newtonInit).1

/-- node product `Π_j (x − x_j)` -/
def newtonProd (nodes : List (α × α)) (x : α) : α := (newtonFold x nodes newtonInit).2.1

/-- add the data points one at a time: the new coefficient is `(y_k − p(x_k)) / Π_{j<k}(x_k − x_j)` -/
def newtonBuild : List (α × α) → List (α × α) → List (α × α)
  | [], built => built
  | (xk, yk) :: rest, built =>
    newtonBuild rest (built ++ [(xk, (yk - (newtonEval built xk).1) / newtonProd built xk)])

/-- kernel of `interpolate_mode_lagrange` / `interpolate_mode_krogh`: THE polynomial of degree < #nodes through
the nodes, `polyder(…, m=1)`, `polyder(…, m=2)` (resp. `derivative(der=1,2)`). -/
def newtonInterpolant : Interpolant α := fun xs ys pts =>
  let nodes := newtonBuild (List.zip xs ys) []
  .ok (pts.map (newtonEval nodes))

end Numeric

/-! ### the glue of `mode_gamma.py` -/

/-- `a[::interval]` with `interval = int(numpy.ceil(len(a) / order))` (`order ≥ 1`) -/
def thinInterval (n order : Nat) : Nat := (n + order - 1) / order

def stride {β : Type} (interval : Nat) (l : List β) : List β :=
  (List.range ((l.length + interval - 1) / interval)).filterMap fun i => l[i * interval]?

def thin {β : Type} (order : Nat) (l : List β) : List β := stride (thinInterval l.length order) l

section Glue
variable {α : Type} [Neg α] [Zero α] [ExpLog α]

/-- the common tail of the five `interpolate_mode_*` functions: build on `(ln V_nodes, ln ω_nodes)`, evaluate at
`ln v_array`, return `(exp s, −s', −s'')`. -/
def finishMode (I : Interpolant α) (nodeVols nodeFreqs vArray : List α) : Except Err (List (Triple α)) := do
  let r ← I (nodeVols.map ExpLog.log) (nodeFreqs.map ExpLog.log) (vArray.map ExpLog.log)
  pure (r.map fun (s, s1, s2) => (ExpLog.exp s, -s1, -s2))

/-- `interpolate_mode_{spline,lagrange,krogh,ppoly,lsq_poly}`: which nodes (volumes, frequencies — before the
logarithm) reach the kernel.
* `lsq_poly`: all volumes, file order (no flip);
* `spline`: all volumes, both arrays flipped;
* `lagrange`, `krogh`, `pchip`, `akima`, `hermite`: thinned `[::ceil(nv/order)]`, then both flipped. -/
def modeNodes {β : Type} (m : Method) (order : Nat) (vols freqs : List β) : Except Err (List β × List β) :=
  match m with
  | .lsqPoly | .unknown => .ok (vols, freqs)
  | .spline => .ok (vols.reverse, freqs.reverse)
  | .lagrange | .krogh | .pchip | .akima | .hermite =>
    if order == 0 then .error .zeroDivision
    else .ok ((thin order vols).reverse, (thin order freqs).reverse)

/-- one `interpolate_mode_*` call.  `hermite`: `CubicHermiteSpline(x, y)` → `TypeError` (three required
arguments: the constructor needs `dydx`), raised after the thinning line. -/
def interpolateMode (m : Method) (order : Nat) (I : Interpolant α) (vols freqs vArray : List α) :
    Except Err (List (Triple α)) := do
  let (nv, nf) ← modeNodes m order vols freqs
  if m == .hermite then .error .typeError
  else finishMode I nv nf vArray

/-- `[volume.q_points[j].modes[k] for volume in qha_input.volumes]` -/
def series (freqs : List (List (List α))) (j k : Nat) : List α :=
  freqs.map fun vol => (vol.getD j []).getD k 0

/-- the body of the double loop for one `(j, k)`: Γ-acoustic entries are skipped (`continue`), i.e. keep the zeros
of `numpy.zeros((ntv, nq, np))`. -/
def cell (m : Method) (order : Nat) (I : Interpolant α) (vols vArray : List α) (j k : Nat) (ser : List α) :
    Except Err (List (Triple α)) :=
  if j == 0 && k < 3 then .ok (vArray.map fun _ => (0, 0, 0))
  else if m == .unknown then .ok (vArray.map fun _ => (0, 0, 0))
  else interpolateMode m order I vols ser vArray

/-- results of a loop in order; the first exception aborts -/
def collect {β : Type} : List (Except Err β) → Except Err (List β)
  | [] => .ok []
  | .error e :: _ => .error e
  | .ok v :: rest => match collect rest with
    | .ok vs => .ok (v :: vs)
    | .error e => .error e

/-- all cells in loop order (`for j in range(nq): for k in range(np):`); the first exception aborts -/
def cells (m : Method) (order : Nat) (I : Interpolant α) (vols vArray : List α) (nq np : Nat)
    (freqs : List (List (List α))) : Except Err (List (List (List (Triple α)))) :=
  collect ((List.range nq).map fun j => collect ((List.range np).map fun k =>
    cell m order I vols vArray j k (series freqs j k)))

/-- `[q][m][t]` ↦ `[t][q][m]`, selecting one component -/
def assemble (ntv : Nat) (c : List (List (List (Triple α)))) (sel : Triple α → α) : List (List (List α)) :=
  (List.range ntv).map fun t => c.map fun row => row.map fun col => sel (col.getD t (0, 0, 0))

/-- `interpolate_modes(qha_input, v_array, method, order)` → `(interp_freq, gamma_i, vdr_dv)`, each `[ntv][nq][np]` -/
def interpolateModes (m : Method) (order : Nat) (I : Interpolant α) (vols vArray : List α) (nq np : Nat)
    (freqs : List (List (List α))) :
    Except Err (List (List (List α)) × List (List (List α)) × List (List (List α))) := do
  let c ← cells m order I vols vArray nq np freqs
  let ntv := vArray.length
  pure (assemble ntv c (·.1), assemble ntv c (·.2.1), assemble ntv c (·.2.2))

end Glue

/-! ### the glue with the exceptions of malformed inputs (round 5)

`modeNodes` / `series` / `cell` / `interpolateModes` above are total where the real code raises: with NO volume the thinning methods
take `[::0]` (`interval = int(ceil(0 / order)) = 0`: `ValueError: slice step cannot be zero`), and a volume block that lacks q-point
`j` or mode `k` makes `volume.q_points[j].modes[k]` raise `IndexError` where `series` reads a default.  The definitions below reject
what the real code rejects, in the order it does; on inputs with at least one volume whose blocks carry the `nq × np` frequencies they
are the definitions above (`CijProofs/Lemmas/ModeGammaGlueSource.lean`: `interpolateModesF_eq`).  The older definitions are kept
unchanged: C12 / C13 state their theorems about them. -/

/-- `IndexError` (list index out of range) -/
def indexError : Err := .other "IndexError"

section Faithful
variable {α : Type} [Neg α] [Zero α] [ExpLog α]

/-- `[volume.q_points[j].modes[k] for volume in qha_input.volumes]`: volume by volume; `IndexError` at the first volume whose block has
no q-point `j` or whose q-point `j` has no mode `k` -/
def seriesE : List (List (List α)) → Nat → Nat → Except Err (List α)
  | [], _, _ => .ok []
  | vol :: rest, j, k =>
    match vol[j]? with
    | none => .error indexError
    | some row =>
      match row[k]? with
      | none => .error indexError
      | some x =>
        match seriesE rest j k with
        | .ok xs => .ok (x :: xs)
        | .error e => .error e

/-- `modeNodes` with the slice error: `interval = int(numpy.ceil(mode_volumes.shape[0] / order))` (`order = 0`: `ZeroDivisionError`), then
`mode_volumes[::interval]`, `mode_freqs[::interval]` — the SAME interval (from the volumes) for both — `ValueError` when it is 0, i.e.
when there is no volume. -/
def modeNodesF {β : Type} (m : Method) (order : Nat) (vols freqs : List β) : Except Err (List β × List β) :=
  match m with
  | .lsqPoly | .unknown => .ok (vols, freqs)
  | .spline => .ok (vols.reverse, freqs.reverse)
  | .lagrange | .krogh | .pchip | .akima | .hermite =>
    if order == 0 then .error .zeroDivision
    else if thinInterval vols.length order == 0 then .error .valueError
    else .ok ((stride (thinInterval vols.length order) vols).reverse, (stride (thinInterval vols.length order) freqs).reverse)

/-- one `interpolate_mode_*` call, with the slice error -/
def interpolateModeF (m : Method) (order : Nat) (I : Interpolant α) (vols freqs vArray : List α) :
    Except Err (List (Triple α)) := do
  let (nv, nf) ← modeNodesF m order vols freqs
  if m == .hermite then .error .typeError
  else finishMode I nv nf vArray

/-- the body of the double loop for `(j, k)`: `continue` for the Γ-acoustic entries (BEFORE the series is read: a missing Γ-acoustic
frequency is never noticed), then the series (`IndexError`), then the dispatch (no branch for an unknown method: zeros) -/
def cellF (m : Method) (order : Nat) (I : Interpolant α) (vols vArray : List α) (freqs : List (List (List α))) (j k : Nat) :
    Except Err (List (Triple α)) :=
  if j == 0 && k < 3 then .ok (vArray.map fun _ => (0, 0, 0))
  else match seriesE freqs j k with
    | .error e => .error e
    | .ok ser =>
      if m == .unknown then .ok (vArray.map fun _ => (0, 0, 0))
      else interpolateModeF m order I vols ser vArray

/-- all cells `c j k` in loop order; the first exception aborts -/
def cellsOf {β : Type} (c : Nat → Nat → Except Err β) (nq np : Nat) : Except Err (List (List β)) :=
  collect ((List.range nq).map fun j => collect ((List.range np).map fun k => c j k))

/-- `interpolate_modes(qha_input, v_array, method, order)` with the exceptions of malformed inputs -/
def interpolateModesF (m : Method) (order : Nat) (I : Interpolant α) (vols vArray : List α) (nq np : Nat)
    (freqs : List (List (List α))) :
    Except Err (List (List (List α)) × List (List (List α)) × List (List (List α))) := do
  let c ← cellsOf (cellF m order I vols vArray freqs) nq np
  let ntv := vArray.length
  pure (assemble ntv c (·.1), assemble ntv c (·.2.1), assemble ntv c (·.2.2))

end Faithful

/-- `numpy.linalg.lstsq` on a matrix with NO rows (no volume) returns the minimum-norm solution, all zeros, without raising: the fitted
polynomial is 0 (ω = exp 0, γ = −0, V∂γ/∂V = −0); with at least one volume: `lsqInterpolant` -/
def lsqInterpolantF {α : Type} [Add α] [Sub α] [Mul α] [Div α] [Neg α] [Zero α] [One α] [NatCast α] [BEq α]
    (order : Nat) : Interpolant α := fun xs ys pts =>
  if xs.isEmpty then
    let a : List α := List.replicate (order + 1) 0
    .ok (pts.map fun x => (polyval a x, polyval (polyder a) x, polyval (polyderN 2 a) x))
  else lsqInterpolant order xs ys pts

/-- the kernel each method uses: exact for the polynomial methods, the supplied library interpolant otherwise -/
def kernelOf {α : Type} [Add α] [Sub α] [Mul α] [Div α] [Neg α] [Zero α] [One α] [NatCast α] [BEq α]
    (m : Method) (order : Nat) (lib : Interpolant α) : Interpolant α :=
  match m with
  | .lsqPoly => lsqInterpolant order
  | .lagrange | .krogh => newtonInterpolant
  | _ => lib

/-! ### `calculator.py:_interpolate_modes` wiring and `ModePlotter.plot_modes` -/

/-- the physical quantities -/
inductive Quantity where
  | omega      -- ω_qm(V)
  | gamma      -- γ_qm(V)
  | vdrDv      -- V ∂γ_qm/∂V
  | gammaSq    -- γ²
  deriving Repr, DecidableEq, Inhabited

/-- `self.mode_gamma = [vdr_dv, gamma_i, gamma_i**2]` (calculator.py) -/
def modeGammaTags : List Quantity := [.vdrDv, .gamma, .gammaSq]

/-- `plot_modes` as coded: `n == 0 → freq_array`, `n == 1 → mode_gamma[1]`, `n == 2 → mode_gamma[0]`;
any other `n` leaves `w_arrays` unbound. -/
def plotSelect (n : Int) : Option Quantity :=
  if n == 0 then some .omega
  else if n == 1 then modeGammaTags[1]?
  else if n == 2 then modeGammaTags[0]?
  else none

/-- what the docstring and the property say: n = 0, 1, 2 ↦ ω, γ, V∂γ/∂V -/
def plotSelectSpec (n : Int) : Option Quantity :=
  if n == 0 then some .omega
  else if n == 1 then some .gamma
  else if n == 2 then some .vdrDv
  else none

section Plot
variable {α : Type} [Mul α] [Zero α]

/-- state of the calculator after `_interpolate_modes` -/
structure CalcState (α : Type) where
  freqArray : List (List (List α))
  modeGamma : List (List (List (List α)))

/-- `self.freq_array = interp_freq; self.mode_gamma = [vdr_dv, gamma_i, gamma_i**2]` -/
def calculatorWiring (f g d : List (List (List α))) : CalcState α :=
  ⟨f, [d, g, g.map fun a => a.map fun b => b.map fun x => x * x]⟩

/-- the array a quantity denotes -/
def arrayOf (f g d : List (List (List α))) : Quantity → List (List (List α))
  | .omega => f | .gamma => g | .vdrDv => d
  | .gammaSq => g.map fun a => a.map fun b => b.map fun x => x * x

/-- y-data of the `ax.plot(self.v_array, w_array)` calls of `plot_modes(ax, n, iq)`, in call order.
For `n ∉ {0,1,2}` the name `w_arrays` is unbound, which Python notices at its first use — i.e. only if some mode
is actually drawn (`iq == 0` with `np == 3` draws nothing and returns normally). -/
def plotModes (c : CalcState α) (np : Nat) (n : Int) (iq : Nat) : Except Err (List (List α)) :=
  let ks := (List.range np).filter fun k => !(iq == 0 && k < 3)
  if ks.isEmpty then .ok [] else do
  let w ← (if n == 0 then .ok c.freqArray
    else if n == 1 then .ok (c.modeGamma.getD 1 [])
    else if n == 2 then .ok (c.modeGamma.getD 0 [])
    else .error .unboundLocal : Except Err (List (List (List α))))
  pure (ks.map fun k => w.map fun row => (row.getD iq []).getD k 0)

end Plot

end Cij.Interp
