/-
  Executable model of the VRH part of `cij/core/calculator.py` (property C07) — no Mathlib.

    Calculator._calculate_compliances                      -> `writes`, `assembleEntry`, `assemble6`, `complDict`
    numpy.linalg.inv (external)                            -> a PARAMETER `S t v i j` of `complDict`/`report`;
                                                              `inv6` (Gauss–Jordan, partial pivoting) only to RUN
    CijVolumeBaseInterface.__getattr__ / REGEX_CIJ         -> `attrKey`, `getC`, `getS`
    bulk/shear_modulus_{voigt,reuss,voigt_reuss_hill}      -> `bulkVoigtPt` … `hillPt` and the field versions
    mass, primary_velocities, secondary_velocities         -> `mass`, `vpPt`, `vsPt`, `primaryVelocities`, …

  One definition, polymorphic in the scalar `α`: run at `Float` by `Ops/C07.lean` on the arrays the Python
  classes get, instantiated at `ℝ` in `CijProofs/Lemmas/VRH.lean` where the theorems are stated.

  Arrays: a (T,V) field is a nested list `[t][v]`; a python `dict` keyed by `C_` objects is an association list
  with keys `Cij.Modulus` (CijModel/Voigt.lean); python exceptions (AttributeError / KeyError) are `none`.
  `modulus_keys` and `modulus_adiabatic` are modelled as ONE association list (key order = `modulus_keys`):
  in `Calculator` both come from the same key list.

  External numbers are parameters: Avogadro's constant (scipy.constants), the pint factor
  rydberg -> kg·km²/s²; the harness hands over the numbers the Python module really uses and compares them
  with CODATA separately.
-/
import CijModel.Voigt

namespace Cij.VRH

/-- What the model needs from a scalar beyond `+ - * /`. -/
class Scalar (α : Type) where
  ofNat : Nat → α
  sqrt : α → α
  /-- `|a| < |b|` (pivot search of the executable inverse only) -/
  absLt : α → α → Bool

instance : Scalar Float where
  ofNat := Float.ofNat
  sqrt := Float.sqrt
  absLt a b := a.abs < b.abs

section
variable {α : Type} [Add α] [Sub α] [Mul α] [Div α] [Scalar α]

/-- numeral `n` as a scalar -/
abbrev nat (n : Nat) : α := Scalar.ofNat n

abbrev Field (α : Type) := List (List α)                 -- [t][v]
abbrev Dict (α : Type) := List (Modulus × Field α)       -- modulus_adiabatic / _compliances
abbrev KV (α : Type) := List (Modulus × α)               -- a dictionary seen at one grid point
abbrev Mat (α : Type) := List (List α)                   -- 6×6, [i][j], 0-based positions of 1-based Voigt indices

/-- `dict[key]` / `key in dict` with Python's structural `__eq__` of the NamedTuple keys; first match
(keys of a dict are unique, so "first" is "the"). -/
def find {β : Type} : List (Modulus × β) → Modulus → Option β
  | [], _ => none
  | (k, x) :: r, key => if k = key then some x else find r key

/-- `x[t, v]` (0 outside the array: never reached for `t < nt`, `v < nv`) -/
def fieldAt (f : Field α) (t v : Nat) : α := (f.getD t []).getD v (nat 0)

/-- an `(nt, nv)` array given by its entries -/
def grid (nt nv : Nat) (h : Nat → Nat → α) : Field α :=
  (List.range nt).map fun t => (List.range nv).map fun v => h t v

/-- the dictionary restricted to one grid point -/
def kvAt (d : Dict α) (t v : Nat) : KV α := d.map fun e => (e.1, fieldAt e.2 t v)

/-! ### `Calculator._calculate_compliances` -/

/-- `set(itertools.permutations(key.voigt, 2))` — the positions a key is written to.  (For a diagonal key the
two permutations coincide; the `set` removes the duplicate, membership is all that matters here.) -/
def writes (k : Modulus) : List (Int × Int) :=
  match k.voigt with
  | some (a, b) => [(a, b), (b, a)]
  | none => []            -- `.voigt` raises KeyError: impossible for a `C_` built by `c_`

/-- entry `[i-1, j-1]` of `elastic_moduli[t, v]` after the loop
`for key in modulus_keys: for i, j in set(permutations(key.voigt, 2)): elastic_moduli[:, :, i-1, j-1] = modulus_adiabatic[key]`
starting from `numpy.zeros`: the last key that writes the position wins, untouched positions stay 0. -/
def assembleEntry (kv : KV α) (i j : Int) : α :=
  kv.foldl (fun acc e => if (i, j) ∈ writes e.1 then e.2 else acc) (nat 0)

def assemble6 (kv : KV α) : Mat α := idx6.map fun i => idx6.map fun j => assembleEntry kv i j

/-- `compliances[:, :, i-1, j-1]` of the batched inverse `S t v i j` (1-based Voigt indices) -/
def entryField (S : Nat → Nat → Int → Int → α) (nt nv : Nat) (i j : Int) : Field α :=
  grid nt nv fun t v => S t v i j

/-- the loop
`for i, j in itertools.product(range(6), range(6)): if i > j: continue;
 self._compliances[c_(i+1, j+1)] = compliances[:, :, i, j]`  (pairs below are already `i+1, j+1`): all 21 entries of
the upper triangle are stored. -/
def complDict (S : Nat → Nat → Int → Int → α) (nt nv : Nat) : Dict α :=
  allPairs.filterMap fun p =>
    if p.1 > p.2 then none
    else (Modulus.create [.int p.1, .int p.2]).map fun k => (k, entryField S nt nv p.1 p.2)

/-! ### `CijVolumeBaseInterface.__getattr__` for the names `cIJ` / `sIJ` (two Voigt digits) -/

/-- `c_(res.group(2))` for the attribute name `"c<i><j>"` / `"s<i><j>"`: the key is built from the STRING. -/
def attrKey (i j : Int) : Option Modulus := Modulus.create [.str (toString i ++ toString j)]

/-- `self.c<i><j>`: AttributeError unless the key is in `modulus_keys`, else `modulus_adiabatic[key]` -/
def getC (d : Dict α) (i j : Int) : Option (Field α) := (attrKey i j).bind (find d)

/-- `self.s<i><j>`: AttributeError unless the key is in `_compliances` -/
def getS (d : Dict α) (i j : Int) : Option (Field α) := (attrKey i j).bind (find d)

/-! ### the averages, at one grid point (numpy applies them element-wise) -/

/-- `(c11 + c22 + c33 + 2 * (c12 + c23 + c13)) / 9` -/
def bulkVoigtPt (c11 c22 c33 c12 c23 c13 : α) : α :=
  (c11 + c22 + c33 + nat 2 * (c12 + c23 + c13)) / nat 9

/-- `1 / (s11 + s22 + s33 + 2 * (s12 + s23 + s13))` -/
def bulkReussPt (s11 s22 s33 s12 s23 s13 : α) : α :=
  nat 1 / (s11 + s22 + s33 + nat 2 * (s12 + s23 + s13))

/-- `(reuss + voigt) / 2` -/
def hillPt (r v : α) : α := (r + v) / nat 2

/-- `((c11 + c22 + c33) - (c12 + c23 + c13) + 3 * (c44 + c55 + c66)) / 15` -/
def shearVoigtPt (c11 c22 c33 c12 c23 c13 c44 c55 c66 : α) : α :=
  ((c11 + c22 + c33) - (c12 + c23 + c13) + nat 3 * (c44 + c55 + c66)) / nat 15

/-- `15 / (4 * (s11 + s22 + s33) - 4 * (s12 + s23 + s13) + 3 * (s44 + s55 + s66))` -/
def shearReussPt (s11 s22 s33 s12 s23 s13 s44 s55 s66 : α) : α :=
  nat 15 / (nat 4 * (s11 + s22 + s33) - nat 4 * (s12 + s23 + s13) + nat 3 * (s44 + s55 + s66))

/-- `m * 1e-3 / N` — mass per cell in kg from g/mol -/
def mass (cellmass avogadro : α) : α := cellmass * (nat 1 / nat 1000) / avogadro

/-- `sqrt(Quantity((K + 4 / 3 * G) * V, rydberg).to(kg km²/s²).magnitude / mass)` with `f` the pint factor -/
def vpPt (K G V f m : α) : α := Scalar.sqrt ((K + nat 4 / nat 3 * G) * V * f / m)

/-- `sqrt(Quantity(G * V, rydberg).to(kg km²/s²).magnitude / mass)` -/
def vsPt (G V f m : α) : α := Scalar.sqrt (G * V * f / m)

/-! ### the same on the (T,V) arrays: attribute lookups may raise, arithmetic is element-wise -/

structure Inputs (α : Type) where
  modAd : Dict α            -- modulus_adiabatic in modulus_keys order
  nt : Nat                  -- dims
  nv : Nat
  vArray : List α           -- qha_calculator.volume_base.v_array  (bohr³)
  cellmass : α              -- elast_data.cellmass (g/mol)
  avogadro : α              -- scipy.constants Avogadro constant
  ryFactor : α              -- pint: 1 rydberg in kg·km²/s²

def bulkVoigt (nt nv : Nat) (c : Dict α) : Option (Field α) := do
  let c11 ← getC c 1 1; let c22 ← getC c 2 2; let c33 ← getC c 3 3
  let c12 ← getC c 1 2; let c23 ← getC c 2 3; let c13 ← getC c 1 3
  pure (grid nt nv fun t v => bulkVoigtPt (fieldAt c11 t v) (fieldAt c22 t v) (fieldAt c33 t v)
    (fieldAt c12 t v) (fieldAt c23 t v) (fieldAt c13 t v))

def bulkReuss (nt nv : Nat) (s : Dict α) : Option (Field α) := do
  let s11 ← getS s 1 1; let s22 ← getS s 2 2; let s33 ← getS s 3 3
  let s12 ← getS s 1 2; let s23 ← getS s 2 3; let s13 ← getS s 1 3
  pure (grid nt nv fun t v => bulkReussPt (fieldAt s11 t v) (fieldAt s22 t v) (fieldAt s33 t v)
    (fieldAt s12 t v) (fieldAt s23 t v) (fieldAt s13 t v))

def shearVoigt (nt nv : Nat) (c : Dict α) : Option (Field α) := do
  let c11 ← getC c 1 1; let c22 ← getC c 2 2; let c33 ← getC c 3 3
  let c12 ← getC c 1 2; let c23 ← getC c 2 3; let c13 ← getC c 1 3
  let c44 ← getC c 4 4; let c55 ← getC c 5 5; let c66 ← getC c 6 6
  pure (grid nt nv fun t v => shearVoigtPt (fieldAt c11 t v) (fieldAt c22 t v) (fieldAt c33 t v)
    (fieldAt c12 t v) (fieldAt c23 t v) (fieldAt c13 t v) (fieldAt c44 t v) (fieldAt c55 t v) (fieldAt c66 t v))

def shearReuss (nt nv : Nat) (s : Dict α) : Option (Field α) := do
  let s11 ← getS s 1 1; let s22 ← getS s 2 2; let s33 ← getS s 3 3
  let s12 ← getS s 1 2; let s23 ← getS s 2 3; let s13 ← getS s 1 3
  let s44 ← getS s 4 4; let s55 ← getS s 5 5; let s66 ← getS s 6 6
  pure (grid nt nv fun t v => shearReussPt (fieldAt s11 t v) (fieldAt s22 t v) (fieldAt s33 t v)
    (fieldAt s12 t v) (fieldAt s23 t v) (fieldAt s13 t v) (fieldAt s44 t v) (fieldAt s55 t v) (fieldAt s66 t v))

/-- `(reuss + voigt) / 2` on arrays -/
def hill (nt nv : Nat) (r vo : Option (Field α)) : Option (Field α) := do
  let r ← r; let vo ← vo
  pure (grid nt nv fun t v => hillPt (fieldAt r t v) (fieldAt vo t v))

/-- everything `CijVolumeBaseInterface` reports for C07, given the batched inverse `S` -/
structure Report (α : Type) where
  compl : Dict α
  kV : Option (Field α)
  kR : Option (Field α)
  kH : Option (Field α)
  gV : Option (Field α)
  gR : Option (Field α)
  gH : Option (Field α)
  mass : α
  vp : Option (Field α)
  vs : Option (Field α)

def primaryVelocities (inp : Inputs α) (kH gH : Option (Field α)) : Option (Field α) := do
  let k ← kH; let g ← gH
  pure (grid inp.nt inp.nv fun t v =>
    vpPt (fieldAt k t v) (fieldAt g t v) (inp.vArray.getD v (nat 0)) inp.ryFactor (mass inp.cellmass inp.avogadro))

def secondaryVelocities (inp : Inputs α) (gH : Option (Field α)) : Option (Field α) := do
  let g ← gH
  pure (grid inp.nt inp.nv fun t v =>
    vsPt (fieldAt g t v) (inp.vArray.getD v (nat 0)) inp.ryFactor (mass inp.cellmass inp.avogadro))

def report (inp : Inputs α) (S : Nat → Nat → Int → Int → α) : Report α :=
  let compl := complDict S inp.nt inp.nv
  let kV := bulkVoigt inp.nt inp.nv inp.modAd
  let kR := bulkReuss inp.nt inp.nv compl
  let kH := hill inp.nt inp.nv kR kV
  let gV := shearVoigt inp.nt inp.nv inp.modAd
  let gR := shearReuss inp.nt inp.nv compl
  let gH := hill inp.nt inp.nv gR gV
  { compl, kV, kR, kH, gV, gR, gH,
    mass := mass inp.cellmass inp.avogadro,
    vp := primaryVelocities inp kH gH,
    vs := secondaryVelocities inp gH }

/-! ### the full fourth-rank tensors (specification side of the theorems; also run by the driver) -/

/-- `C_ijkl` from the dictionary through the canonical key map of `cij.util.voigt` (absent key = 0) -/
def tensorOf (kv : KV α) (i j k l : Int) : α :=
  match Modulus.fromStandard i j k l with
  | some key => (find kv key).getD (nat 0)
  | none => nat 0

/-- weight of a Voigt index in the compliance convention: 1 for 1..3, ½ for 4..6 -/
def sWeight (p : Int) : α := if p ≤ 3 then nat 1 else nat 1 / nat 2

/-- `S_ijkl = s_pq · (1, ½, ¼)` from Voigt compliances `s p q` (read at the canonical pair `p ≤ q` only,
which is all `_compliances` stores) -/
def complTensorOf (s : Int → Int → α) (i j k l : Int) : α :=
  match Modulus.fromStandard i j k l with
  | some key =>
    match key.voigt with
    | some (p, q) => sWeight p * sWeight q * s p q
    | none => nat 0
  | none => nat 0

/-- the REPORTED compliances at one grid point as a function of the Voigt pair (a key that was not stored
counts as 0) -/
def reportedS (compl : Dict α) (t v : Nat) (p q : Int) : α :=
  match Modulus.create [.int p, .int q] with
  | some key => (find (kvAt compl t v) key).getD (nat 0)
  | none => nat 0

/-- sum of a list, left fold from 0 -/
def sum (l : List α) : α := l.foldl (· + ·) (nat 0)

/-- `T_iijj` -/
def contractIIJJ (T : Int → Int → Int → Int → α) : α :=
  sum (idx3.map fun i => sum (idx3.map fun j => T i i j j))

/-- `T_ijij` -/
def contractIJIJ (T : Int → Int → Int → Int → α) : α :=
  sum (idx3.map fun i => sum (idx3.map fun j => T i j i j))

/-! ### an executable inverse (Gauss–Jordan with partial pivoting) — used only to RUN the model -/

def rowSub (a b : List α) (m : α) : List α := List.zipWith (fun x y => x - m * y) a b

/-- index of the row (among rows `≥ c`) with the largest `|entry c|` -/
def pivotRow (rows : List (List α)) (c : Nat) : Nat :=
  let cand := (List.range rows.length).filter (c ≤ ·)
  cand.foldl (fun best r =>
    if Scalar.absLt ((rows.getD best []).getD c (nat 0)) ((rows.getD r []).getD c (nat 0)) then r else best) c

def swapRows (rows : List (List α)) (a b : Nat) : List (List α) :=
  if a = b then rows else
    (List.range rows.length).map fun r =>
      if r = a then rows.getD b [] else if r = b then rows.getD a [] else rows.getD r []

/-- one elimination step on the augmented matrix `[A | 1]` -/
def gjStep (rows : List (List α)) (c : Nat) : List (List α) :=
  let rows := swapRows rows c (pivotRow rows c)
  let prow := rows.getD c []
  let piv := prow.getD c (nat 0)
  let prow := prow.map (· / piv)
  (List.range rows.length).map fun r =>
    if r = c then prow else
      let row := rows.getD r []
      rowSub row prow (row.getD c (nat 0))

/-- inverse of an `n×n` matrix; a singular matrix gives inf/NaN entries at `Float` (numpy raises LinAlgError) -/
def inv (a : Mat α) : Mat α :=
  let n := a.length
  let aug := (List.range n).map fun r =>
    (a.getD r []) ++ (List.range n).map fun k => if k = r then (nat 1 : α) else nat 0
  let red := (List.range n).foldl gjStep aug
  red.map (·.drop n)

/-- `numpy.linalg.inv(elastic_moduli)`: the batched inverse as `[t][v]` list of 6×6 -/
def invGridList (inp : Inputs α) : List (List (Mat α)) :=
  (List.range inp.nt).map fun t => (List.range inp.nv).map fun v => inv (assemble6 (kvAt inp.modAd t v))

/-- a `[t][v][i][j]` array as a function of (t, v, i, j), 1-based i, j -/
def sOfGrid (g : List (List (Mat α))) : Nat → Nat → Int → Int → α :=
  fun t v i j => (((g.getD t []).getD v []).getD (i - 1).toNat []).getD (j - 1).toNat (nat 0)

/-- the model run end to end with its own inverse -/
def run (inp : Inputs α) : Report α :=
  let g := invGridList inp
  report inp (sOfGrid g)

end

end Cij.VRH
