/-
  Model of `QHACalculator.read_input` (cij/core/qha_adapter.py) — the place where the volume blocks of the phonon file, in the order
  the reader found them (`CijModel/QhaInput.lean: readEnergy`, `Data.volumes`), are handed to qha — and of the check it performs
  first (fix 6ab5bee):

      self._volumes = numpy.array([volume.volume for volume in qha_input.volumes])
      if not qha.tools.is_monotonic_decreasing(self._volumes):          # numpy.all(numpy.diff(array) <= 0)
          raise RuntimeError("Check the input file to make sure the volume decreases!")
      self._static_energies = …; self._frequencies = …; self._q_weights = …

  Two descriptions of the same method:
  * `readInput` — written by hand, mirrors the statements above;
  * `evalSteps` — an interpreter of the statement list `Generated.VolOrder.readInputSteps` that the translator
    (tools/gens/volorder_src.py) extracts on every run.  `Lemmas/VolOrderSource.lean` proves them equal for every scalar type.
  No imports beyond the reader model: the driver links this file (scalar = Float; the theorems use ordered fields).
-/
import CijModel.QhaInput

namespace Cij.VolOrder
open Cij.QhaInput

/-- comparison operator of the test `numpy.diff(array) <op> 0` -/
inductive Cmp | lt | le | gt | ge
  deriving DecidableEq, Repr

/-- which number of a volume block an array of the qha calculator receives -/
inductive BlockField | volume | energy | modes
  deriving DecidableEq, Repr

/-- `if [not] numpy.all(numpy.diff(self.<attr>) <op> 0): raise <raises>(…)` -/
structure Guard where
  attr : String
  negated : Bool
  op : Cmp
  raises : String
  deriving DecidableEq, Repr

/-- one statement of `read_input` (see `Generated/VolOrderSpec.lean`) -/
inductive Step
  | scalar (attr field : String)
  | perBlock (attr : String) (what : BlockField)
  | weights (attr : String)
  | guard (g : Guard)
  deriving DecidableEq, Repr

/-- what `read_input` can raise: the guard's exception (by name), or anything else (a guard that reads an attribute which is not a
1-d array yet: AttributeError / TypeError inside numpy) -/
inductive Exn
  | raised (name : String)
  | other
  deriving DecidableEq, Repr

def Exn.tag : Exn → String
  | .raised n => n
  | .other => "other"

section
variable {α : Type}

/-- value of an attribute of the qha calculator set by `read_input` -/
inductive Val (α : Type)
  | nat (n : Nat)
  | vec (v : List α)
  | cube (c : List (List (List α)))
  deriving DecidableEq, Repr

/-- the attributes assigned so far, latest first -/
abbrev Store (α : Type) := List (String × Val α)

variable [Sub α] [OfNat α 0] [LT α] [DecidableLT α] [LE α] [DecidableLE α]

/-- `numpy.diff(array)`: `a[i+1] - a[i]` -/
def diff : List α → List α
  | a :: b :: t => (b - a) :: diff (b :: t)
  | _ => []

def cmp (c : Cmp) (a b : α) : Bool :=
  match c with
  | .lt => decide (a < b)
  | .le => decide (a ≤ b)
  | .gt => decide (b < a)
  | .ge => decide (b ≤ a)

/-- `numpy.all(numpy.diff(array) <op> 0)`; an empty or one-element array has no differences: True.  (With IEEE floats a NaN
difference compares False under every operator, so a NaN volume is never accepted.) -/
def allDiff (op : Cmp) (a : List α) : Bool := (diff a).all fun d => cmp op d 0

/-- `qha.tools.is_monotonic_decreasing` as installed (qha 1.1.3): `dx = np.diff(array); return np.all(dx <= 0)` — NOT strict:
two equal neighbours pass -/
def isMonotonicDecreasing (a : List α) : Bool := allDiff .le a

/-- the three arrays + count + weights `read_input` stores on the qha calculator -/
structure QhaArrays (α : Type) where
  nm : Nat
  volumes : List α
  energies : List α
  frequencies : List (List (List α))
  weights : List α
  deriving DecidableEq, Repr

/-- **`QHACalculator.read_input`** on the data the reader returned: every array lists the blocks in FILE order; the volume list
must pass `is_monotonic_decreasing`, otherwise `RuntimeError` and nothing else is stored. -/
def readInput (d : Data α) : Except Exn (QhaArrays α) :=
  let vols := d.volumes.map (·.volume)
  if !isMonotonicDecreasing vols then .error (.raised "RuntimeError")
  else .ok { nm := d.nm, volumes := vols, energies := d.volumes.map (·.energy),
             frequencies := d.volumes.map fun v => v.qPoints.map (·.modes),
             weights := d.weights.map (·.weight) }

/-! ### the interpreter of the translated statement list -/

def blockArray (d : Data α) : BlockField → Val α
  | .volume => .vec (d.volumes.map (·.volume))
  | .energy => .vec (d.volumes.map (·.energy))
  | .modes => .cube (d.volumes.map fun v => v.qPoints.map (·.modes))

def scalarField (d : Data α) : String → Option Nat
  | "nv" => some d.nv | "nq" => some d.nq | "np" => some d.np | "nm" => some d.nm | "na" => some d.na
  | _ => none

def Store.get (s : Store α) (attr : String) : Option (Val α) := s.lookup attr

/-- one statement; a guard reads the attribute from the store AS IT IS at that point -/
def evalStep (d : Data α) (s : Store α) : Step → Except Exn (Store α)
  | .scalar attr f => match scalarField d f with
      | some n => .ok ((attr, .nat n) :: s)
      | none => .error .other
  | .perBlock attr what => .ok ((attr, blockArray d what) :: s)
  | .weights attr => .ok ((attr, .vec (d.weights.map (·.weight))) :: s)
  | .guard g => match s.get g.attr with
      | some (.vec v) =>
          let c := allDiff g.op v
          if (if g.negated then !c else c) then .error (.raised g.raises) else .ok s
      | _ => .error .other

/-- the statements in order; the first exception aborts -/
def evalSteps (d : Data α) : List Step → Store α → Except Exn (Store α)
  | [], s => .ok s
  | st :: rest, s => match evalStep d s st with
      | .ok s' => evalSteps d rest s'
      | .error e => .error e

/-- the translated `read_input` on a fresh calculator: the statements of `steps` in order on an empty store -/
def runSteps (steps : List Step) (d : Data α) : Except Exn (Store α) := evalSteps d steps []

/-- the same data set with its volume blocks listed as `bs` (what re-listing the blocks of the file does to the reader's result:
`readEnergy` returns the blocks in file order) -/
def relist (d : Data α) (bs : List (VolumeData α)) : Data α := { d with volumes := bs }

/-- the store a successful `readInput` leaves (attribute names of qha's calculator) -/
def QhaArrays.toStore (r : QhaArrays α) : Store α :=
  [("_q_weights", .vec r.weights), ("_frequencies", .cube r.frequencies), ("_static_energies", .vec r.energies),
   ("_volumes", .vec r.volumes), ("_formula_unit_number", .nat r.nm)]

end

end Cij.VolOrder
