/-
  Polynomial least squares, exactly: `numpy.polyfit(x, y, deg)` / `numpy.polyval(p, x)` and qha's
  `polynomial_least_square_fitting(xs, ys, new_xs, order)` (qha/fitting.py l. 21-41), as the solution of the
  normal equations  (AᵀA) c = Aᵀ y,  A_ij = x_i^j.

  numpy solves the same least-squares problem by SVD on a column-scaled Vandermonde matrix; the two agree in
  exact arithmetic whenever the minimiser is unique (≥ deg+1 distinct abscissae — the property's quantifier:
  ≥ 4 distinct volumes for a cubic).  The model is run over `Rat` by the driver (floats are dyadic rationals,
  so the inputs are transported exactly) and compared with numpy's result to 1e-7 of the family scale.

  The solver is a plain Gauss–Jordan elimination *without* pivoting; its result is only returned after the
  model has itself verified the normal equations exactly (`normalEqHolds`), so the theorems (C05:
  `polyfit_minimises`, `lsq_exact_on_cubics`) need no correctness proof of the elimination.

  No Mathlib.  Polymorphic in the scalar.
-/
namespace Cij.LeastSq

variable {α : Type} [Add α] [Sub α] [Mul α] [Div α] [OfNat α 0] [OfNat α 1]

/-- Σ of a list (right fold; equal to `List.sum` in any additive monoid) -/
def sumL : List α → α
  | [] => 0
  | x :: xs => x + sumL xs

/-- `x ** n` for a natural exponent -/
def powN (x : α) : Nat → α
  | 0 => 1
  | n + 1 => x * powN x n

/-- `numpy.polyval(p, x)`: Horner, coefficients highest power first (`y = y * x + pv` for `pv` in `p`). -/
def polyval (p : List α) (x : α) : α := p.foldl (fun acc c => acc * x + c) 0

/-- augmented normal-equation matrix of the degree-`deg` fit: row `j` is
    `[Σ x^(j+0), …, Σ x^(j+deg) | Σ x^j y]`, `j = 0 … deg` -/
def normalAug (xs ys : List α) (deg : Nat) : List (List α) :=
  (List.range (deg + 1)).map fun j =>
    ((List.range (deg + 1)).map fun k => sumL (xs.map fun x => powN x (j + k)))
      ++ [sumL (List.zipWith (fun x y => powN x j * y) xs ys)]

/-- one Gauss–Jordan step on column `c` (no pivot search) -/
def eliminate (m : List (List α)) (c : Nat) : List (List α) :=
  let prow := m.getD c []
  let pv := prow.getD c 0
  let prow' := prow.map (· / pv)
  m.mapIdx fun r row =>
    if r == c then prow' else
      let f := row.getD c 0
      List.zipWith (fun p x => x - f * p) prow' row

/-- solve the `n × (n+1)` augmented system; returns the last column after elimination -/
def solve (m : List (List α)) (n : Nat) : List α :=
  ((List.range n).foldl eliminate m).map fun row => row.getD n 0

/-- residual of the `j`-th normal equation for the coefficients `p` (highest first):
    `Σ_i x_i^j (p(x_i) − y_i)` -/
def normalResidual (xs ys : List α) (p : List α) (j : Nat) : α :=
  sumL (List.zipWith (fun x y => powN x j * (polyval p x - y)) xs ys)

variable [BEq α]

/-- the certificate: right number of coefficients and all `deg+1` normal equations hold exactly -/
def normalEqHolds (xs ys : List α) (deg : Nat) (p : List α) : Bool :=
  p.length == deg + 1 && (List.range (deg + 1)).all fun j => normalResidual xs ys p j == 0

/-- `numpy.polyfit(xs, ys, deg)` (coefficients highest power first); `none` when the unpivoted elimination
    did not produce the exact solution (rank-deficient data, or inexact scalars such as `Float`) or when the
    two arrays differ in length (numpy raises TypeError). -/
def polyfit (xs ys : List α) (deg : Nat) : Option (List α) :=
  if xs.length != ys.length then none else
  let p := (solve (normalAug xs ys deg) (deg + 1)).reverse
  if normalEqHolds xs ys deg p then some p else none

/-- sum of squared residuals `Σ (p(x_i) − y_i)²` -/
def sqResidual (xs ys : List α) (p : List α) : α :=
  sumL (List.zipWith (fun x y => (polyval p x - y) * (polyval p x - y)) xs ys)

/-- qha `polynomial_least_square_fitting(xs, ys, new_xs, order)`: Vandermonde with `order+1` columns,
    `lstsq`, evaluation on `new_xs` — the same least-squares polynomial of degree `order`. -/
def polynomialLeastSquareFitting (xs ys newXs : List α) (order : Nat) : Option (List α) :=
  (polyfit xs ys order).map fun p => newXs.map (polyval p)

end Cij.LeastSq
