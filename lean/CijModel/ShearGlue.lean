/-
  The GLUE of `cij/core/phonon_contribution/shear.py` as evaluators of translated data (no Mathlib).

  `tools/gens/shear_src.py` re-extracts on every run, from the working tree, everything of shear.py that is not one of the two
  arithmetic formulas (those are `Generated/ShearExprs.lean`) as DATA (`Generated/ShearGlue.lean`, which instantiates the
  structures below):

    `fictitious_strain`                          -> `FictSpec`   (shape of the zeros array, the cell assignments as index
                                                                   expressions over `self.key.i[·]`, `self.key.j[·]`)
    `fictitious_strain_rotated`,
    `transformation_matrix`                      -> `ArrE`       (the returned expression: which call, which component)
    `strain_rotated`                             -> `List SrStmt` (zeros, the einsum diagonal write, the product, the diagonal)
    `calculate_fictitious_strain_energy`,
    `get_fictitious_strain_energy_keys`          -> `LoopSpec`   (non-zero test, pair enumeration, key construction, skip)
    the class wiring                             -> `ClassSpec`  (which strain / resolver / target each energy property and
                                                                   each key method uses, resolver -> dictionary attribute,
                                                                   `value_isothermal` / `value_adiabatic`, `__init__`)

  This file says what those data MEAN: a tiny honest semantics of the numpy / itertools calls involved (everything outside
  it evaluates to `none`, never to a guess).  `numpy.linalg.eigh` and `numpy.isclose(·, 0)` stay PARAMETERS (as in
  `CijModel/Shear.lean`).  `CijProofs/Lemmas/ShearGlueSource.lean` proves that the hand-written model of `CijModel/Shear.lean` is
  the evaluation of the generated data, for all inputs.
-/
import CijModel.Shear
import CijModel.ShExpr

namespace Cij.ShearGlue
open Cij Cij.Shear

variable {α : Type} [Add α] [Sub α] [Mul α] [Div α] [NatCast α]

/-! ### `fictitious_strain` -/

inductive PairSel | i | j
  deriving DecidableEq, Repr

/-- `self.key.<pair>[<comp>] + <off>` -/
structure KeyIdx where
  pair : PairSel
  comp : Int
  off : Int
  deriving DecidableEq, Repr

/-- `t[c]` for a 2-tuple (negative indices count from the end; anything else is an IndexError) -/
def tuple2 (s : Strain) (c : Int) : Option Int :=
  if c = 0 ∨ c = -2 then some s.i else if c = 1 ∨ c = -1 then some s.j else none

/-- an index into an axis of length 3: `-3 ≤ n < 3`, negative ones count from the end (anything else is an IndexError) -/
def axis3 (n : Int) : Option (Fin 3) :=
  if 0 ≤ n ∧ n < 3 then some ⟨n.toNat % 3, Nat.mod_lt _ (by decide)⟩
  else if -3 ≤ n ∧ n < 0 then some ⟨(n + 3).toNat % 3, Nat.mod_lt _ (by decide)⟩
  else none

def KeyIdx.eval (k : KeyIdx) (key : Modulus) : Option (Fin 3) :=
  match tuple2 (match k.pair with | .i => key.i | .j => key.j) k.comp with
  | some v => axis3 (v + k.off)
  | none => none

/-- `e[<row>, <col>] = <value>` -/
structure CellAssign where
  row : KeyIdx
  col : KeyIdx
  value : Nat
  deriving DecidableEq, Repr

/-- `e = numpy.zeros(<shape>)`; the assignments in source order; `return e` -/
structure FictSpec where
  kind : String
  shape : List Nat
  cells : List CellAssign
  deriving DecidableEq, Repr

def setCell (m : Fin 3 → Fin 3 → Nat) (r c : Fin 3) (v : Nat) : Fin 3 → Fin 3 → Nat :=
  fun i j => if i = r ∧ j = c then v else m i j

/-- one assignment (an index out of range is an IndexError: `none`) -/
def CellAssign.apply (key : Modulus) (m : Option (Fin 3 → Fin 3 → Nat)) (a : CellAssign) : Option (Fin 3 → Fin 3 → Nat) :=
  match m, a.row.eval key, a.col.eval key with
  | some m, some r, some c => some (setCell m r c a.value)
  | _, _, _ => none

/-- the integer matrix the statements build (later assignments overwrite earlier ones) -/
def FictSpec.evalNat (s : FictSpec) (key : Modulus) : Option (Fin 3 → Fin 3 → Nat) :=
  if s.shape = [3, 3] then s.cells.foldl (CellAssign.apply key) (some fun _ _ => 0) else none

/-- … as an array of scalars -/
def FictSpec.eval (s : FictSpec) (key : Modulus) : Option (Mat3 α) :=
  (s.evalNat key).map fun m i j => ((m i j : Nat) : α)

/-- the symmetric matrix `numpy.linalg.eigh(a)` works on: `UPLO='L'`, only the lower triangle of `a` is read -/
def symFromLower (m : Mat3 α) : Mat3 α := fun i j => if j ≤ i then m i j else m j i

/-! ### array expressions (`fictitious_strain_rotated`, `transformation_matrix`, `strain_rotated`) -/

/-- the expressions the translator understands; `call` = one array argument, further integer positional arguments, integer
keyword arguments (sorted by name); anything else is `other <text>` and has no meaning -/
inductive ArrE where
  | selfAttr (name : String)
  | var (name : String)
  | call (fn : String) (arg : ArrE) (extra : List Int) (kw : List (String × Int))
  | index (e : ArrE) (k : Int)
  | tr (e : ArrE)
  | matmul (a b : ArrE)
  | other (text : String)
  deriving Repr

inductive Val (α : Type) where
  | mat (m : Mat3 α)                    -- a (3,3) array
  | stack (m : Mat3 α)                  -- a (…,3,3) array: one generic cell of the leading axes
  | vec (v : Vec3 α)                    -- a (3,) array
  | rows (v : Vec3 α)                   -- a (…,3) array: one generic row of the leading axes
  | eig (lam : Vec3 α) (T : Mat3 α)     -- the pair returned by `numpy.linalg.eigh`

/-- `a @ b` on the last two axes -/
def mmul (a b : Mat3 α) : Mat3 α := fun i k => sum3 fun j => a i j * b j k

/-- `a.T` of a (3,3) array -/
def transpose (a : Mat3 α) : Mat3 α := fun i j => a j i

structure Env (α : Type) where
  self : String → Option (Val α)
  eigh : Mat3 α → Vec3 α × Mat3 α

abbrev Locals (α : Type) := List (String × Val α)

def lookup (loc : Locals α) (n : String) : Option (Val α) := (loc.find? fun e => e.1 == n).map (·.2)

/-- `axis1=-2, axis2=-1` (either order): the diagonal of the last two axes -/
def lastTwoAxes (kw : List (String × Int)) : Bool :=
  kw == [("axis1", -2), ("axis2", -1)] || kw == [("axis1", -1), ("axis2", -2)]

/-- the calls with a meaning here.  `numpy.linalg.eigh(m)`: the parameter applied to the matrix eigh reads (lower triangle);
`numpy.diag(v)`: the diagonal matrix / the diagonal; `numpy.diagonal(x, axis1=-2, axis2=-1)`: the diagonal of the last two axes.
Any further positional / keyword argument, any other function: `none`. -/
def applyFn (env : Env α) (fn : String) (v : Val α) (extra : List Int) (kw : List (String × Int)) : Option (Val α) :=
  if fn = "numpy.linalg.eigh" then
    match v, extra, kw with
    | .mat m, [], [] => some (.eig (env.eigh (symFromLower m)).1 (env.eigh (symFromLower m)).2)
    | _, _, _ => none
  else if fn = "numpy.diag" then
    match v, extra, kw with
    | .vec l, [], [] => some (.mat (diagMat l))
    | .mat m, [], [] => some (.vec fun a => m a a)
    | _, _, _ => none
  else if fn = "numpy.diagonal" then
    match v, extra with
    | .stack m, [] => if lastTwoAxes kw then some (.rows fun a => m a a) else none
    | .mat m, [] => if lastTwoAxes kw || kw == [] then some (.vec fun a => m a a) else none
    | _, _ => none
  else none

def ArrE.eval (env : Env α) (loc : Locals α) : ArrE → Option (Val α)
  | .selfAttr n => env.self n
  | .var n => lookup loc n
  | .call fn a extra kw =>
      match a.eval env loc with
      | some v => applyFn env fn v extra kw
      | none => none
  | .index e k =>
      match e.eval env loc with
      | some (.eig lam T) =>
          if k = 0 ∨ k = -2 then some (.vec lam) else if k = 1 ∨ k = -1 then some (.mat T) else none
      | _ => none
  | .tr e =>
      match e.eval env loc with
      | some (.mat m) => some (.mat (transpose m))
      | _ => none                              -- `.T` of a stacked array reverses ALL axes: outside this semantics
  | .matmul a b =>
      match a.eval env loc, b.eval env loc with
      | some (.mat x), some (.mat y) => some (.mat (mmul x y))
      | some (.mat x), some (.stack y) => some (.stack (mmul x y))
      | some (.stack x), some (.mat y) => some (.stack (mmul x y))
      | some (.stack x), some (.stack y) => some (.stack (mmul x y))
      | _, _ => none
  | .other _ => none

/-- the statements of `strain_rotated` -/
inductive SrStmt where
  | zerosLike (var shapeOf : String) (extra : List Nat)                 -- `<var> = numpy.zeros((*self.<shapeOf>.shape, <extra>…))`
  | einsumWrite (inSub outSub target : String) (src : ArrE)              -- `numpy.einsum('<in> -> <out>', <target>)[...] = <src>`
  | assign (var : String) (e : ArrE)
  | ret (e : ArrE)
  deriving Repr

/-- `'...aa -> ...a'`: the writable view of the diagonal of the last two axes -/
def diagView (i o : String) : Bool :=
  match i.toList, o.toList with
  | ['.', '.', '.', a, b], ['.', '.', '.', c] => a == b && b == c && a.isAlpha
  | _, _ => false

def runSr (env : Env α) : Locals α → List SrStmt → Option (Val α)
  | _, [] => none                                                        -- falls off the end: `None`
  | loc, .zerosLike v s extra :: rest =>
      match env.self s, extra with
      | some (.rows _), [3] => runSr env ((v, .stack fun _ _ => ((0 : Nat) : α)) :: loc) rest
      | _, _ => none
  | loc, .einsumWrite i o t src :: rest =>
      match lookup loc t, src.eval env loc with
      | some (.stack m), some (.rows s) =>
          if diagView i o then runSr env ((t, .stack fun a b => if a = b then s a else m a b) :: loc) rest else none
      | _, _ => none
  | loc, .assign v e :: rest =>
      match e.eval env loc with
      | some x => runSr env ((v, x) :: loc) rest
      | none => none
  | loc, .ret e :: _ => e.eval env loc

/-! ### the two module functions: non-zero test, pair enumeration, key, skip -/

/-- the argument of `numpy.argwhere` -/
inductive MaskE where
  | isclose (arg : String) (ref : Int) (kw : List String)     -- `numpy.isclose(<arg>, <ref>, <kw>…)`
  | ne (arg : String) (ref : Int)                             -- `<arg> != <ref>`
  | not (e : MaskE)                                           -- `numpy.logical_not(·)` / `~·`
  | other (text : String)
  deriving Repr

/-- meaning per cell.  `isZero` IS `numpy.isclose(·, 0)` with the default tolerances: a test with other arguments, an exact
comparison, anything else has no meaning here. -/
def MaskE.eval (isZero : α → Bool) (argName : String) : MaskE → Option (α → Bool)
  | .isclose a r kw => if a = argName ∧ r = 0 ∧ kw = [] then some isZero else none
  | .ne _ _ => none
  | .not e => (e.eval isZero argName).map fun f x => !f x
  | .other _ => none

/-- the test of `if …: continue` -/
inductive SkipE where
  | truthy (v : String)
  | isNotNone (v : String)
  | eq (a b : String)
  | and (a b : SkipE)
  | or (a b : SkipE)
  | not (a : SkipE)
  | other (text : String)
  deriving Repr

/-- a `ModulusRepresentation` is a non-empty tuple (truthy), `None` is falsy; `==` of NamedTuples is structural and
`key == None` is False -/
def SkipE.eval (keyVar targetVar : String) (key : Modulus) (target : Option Modulus) : SkipE → Option Bool
  | .truthy v => if v = targetVar then some target.isSome else if v = keyVar then some true else none
  | .isNotNone v => if v = targetVar then some target.isSome else if v = keyVar then some true else none
  | .eq a b =>
      if (a = keyVar ∧ b = targetVar) ∨ (a = targetVar ∧ b = keyVar) then some (decide (some key = target)) else none
  | .and a b =>
      match a.eval keyVar targetVar key target, b.eval keyVar targetVar key target with
      | some x, some y => some (x && y)
      | _, _ => none
  | .or a b =>
      match a.eval keyVar targetVar key target, b.eval keyVar targetVar key target with
      | some x, some y => some (x || y)
      | _, _ => none
  | .not a => (a.eval keyVar targetVar key target).map (!·)
  | .other _ => none

inductive LoopBody where
  /-- `<moduliVar> = <resolver>(<arg>)`; `<acc> += <term>` where the term reads `<strain>[v_a, v_b]`, `<strain>[v_c, v_d]`
  (positions in the flattened loop variables) -/
  | accumulate (moduliVar resolver arg : String) (cells : List (Nat × Nat))
  /-- `<acc>.append(<what>)` -/
  | append (what : String)
  deriving Repr, DecidableEq

structure LoopSpec where
  name : String
  params : List (String × Option String)      -- (parameter, default as text)
  accVar : String
  accInit : String                            -- "0" | "[]"
  nzVar : String
  nzFn : String
  mask : MaskE
  iterFn : String
  iterArgs : List String
  loopVars : List (List String)
  keyVar : String
  keyFn : String
  keyArgs : List (Nat × Int)                  -- (position in the flattened loop variables, offset)
  skip : SkipE
  body : LoopBody
  returns : String
  deriving Repr

/-- the flattened loop variables `i, j, k, l` of one iteration (numpy integers) -/
def loopVals (pq : Pair × Pair) : List Int := [(pq.1.1.val : Int), (pq.1.2.val : Int), (pq.2.1.val : Int), (pq.2.2.val : Int)]

/-- `key = c_(…)`: `c_ = C_.create` on integers (`CijModel/Voigt.lean`, C10) -/
def LoopSpec.keyOf (s : LoopSpec) (pq : Pair × Pair) : Option Modulus :=
  if s.keyFn = "c_" then
    match s.keyArgs.mapM fun a => ((loopVals pq)[a.1]?).map (· + a.2) with
    | some args => Modulus.createInts args
    | none => none
  else none

def optMapM {β γ : Type} (f : β → Option γ) : List β → Option (List γ)
  | [] => some []
  | x :: xs =>
      match f x, optMapM f xs with
      | some y, some ys => some (y :: ys)
      | _, _ => none

/-- the header of both functions has a meaning only in this shape: `nz = numpy.argwhere(<mask of the first parameter>)`,
`for (a, b), (c, d) in itertools.product(nz, nz)`; the first parameter is the strain, the last one the target -/
def LoopSpec.headerOk (s : LoopSpec) : Bool :=
  s.nzFn == "numpy.argwhere" && s.iterFn == "itertools.product" && s.iterArgs == [s.nzVar, s.nzVar] &&
    s.loopVars.map List.length == [2, 2]

/-- the iterations that reach the loop body, with their keys, in order -/
def LoopSpec.pairs (s : LoopSpec) (isZero : α → Bool) (e : Mat3 α) (target : Option Modulus) :
    Option (List ((Pair × Pair) × Modulus)) :=
  match s.params.head?, s.params.getLast? with
  | some (strainParam, _), some (targetParam, _) =>
    match s.mask.eval isZero strainParam with
    | some f =>
      if s.headerOk then
        match optMapM (fun pq => match s.keyOf pq with
            | some k => (s.skip.eval s.keyVar targetParam k target).map fun sk => ((pq, k), sk)
            | none => none) (product (allPairs9.filter fun p => f (e p.1 p.2))) with
        | some l => some ((l.filter fun x => !x.2).map (·.1))
        | none => none
      else none
    | none => none
  | _, _ => none

/-- `get_fictitious_strain_energy_keys(e, target)` -/
def LoopSpec.keys (s : LoopSpec) (isZero : α → Bool) (e : Mat3 α) (target : Option Modulus) : Option (List Modulus) :=
  if s.accInit = "[]" ∧ s.body = .append s.keyVar ∧ s.returns = s.accVar then
    (s.pairs isZero e target).map fun l => l.map (·.2)
  else none

/-- the symbols of the two translated formulas (`CijModel/ShExpr.lean`) -/
def symEnv (m eij ekl eRot eOrig mult : α) : ShExpr.Sym → α
  | .m => m | .eij => eij | .ekl => ekl | .eRot => eRot | .eOrig => eOrig | .mult => mult

/-- `calculate_fictitious_strain_energy(e, resolve, target)`.  The accumulated term is `Generated.shearEnergyTerm`
(translated by `gen_shear_exprs` with the names `_moduli`, `fictitious_strain[i, j]`, `fictitious_strain[k, l]`): it has the
meaning given here only when the names of this function ARE those. -/
def LoopSpec.energy (s : LoopSpec) (term : ShExpr.ShExpr) (isZero : α → Bool) (e : Mat3 α) (resolve : Modulus → α)
    (target : Option Modulus) : Option α :=
  match s.params with
  | [("fictitious_strain", none), (resolver, none), (_, some "None")] =>
    if s.accInit = "0" ∧ s.body = .accumulate "_moduli" resolver s.keyVar [(0, 1), (2, 3)] ∧ s.returns = s.accVar ∧
        s.loopVars = [["i", "j"], ["k", "l"]] then
      (s.pairs isZero e target).map fun l =>
        l.foldl (fun acc x => acc + ShExpr.eval (symEnv (resolve x.2) (e x.1.1.1 x.1.1.2) (e x.1.2.1 x.1.2.2) acc acc acc) term)
          ((0 : Nat) : α)
    else none
  | _ => none

/-! ### the class -/

/-- `return <fn>(self.<strain>, lambda k: self.<resolver>(k), self.<target>)` (resolver / target may be absent) -/
structure EnergyUse where
  name : String
  kind : String
  fn : String
  strain : String
  resolver : Option String
  target : Option String
  deriving Repr, DecidableEq

/-- `def <name>(self, key): return self.<dict>[key]` -/
structure Resolver where
  name : String
  kind : String
  dict : String
  deriving Repr, DecidableEq

inductive ValueE where
  | callSelf (method : String)     -- `return self.<method>()`
  | attr (name : String)           -- `return self.<name>`
  | other (text : String)
  deriving Repr, DecidableEq

structure ValueProp where
  name : String
  kind : String
  body : ValueE
  deriving Repr, DecidableEq

inductive InitVal where
  | param (name : String)          -- `self.x = <parameter>`
  | freshDict                      -- `self.x = dict()` / `self.x = {}`
  | other (text : String)
  deriving Repr, DecidableEq

structure ClassSpec where
  initParams : List (String × Option String)
  initAssigns : List (String × InitVal)
  fict : FictSpec
  rotated : String × ArrE                  -- decorator kind, returned expression of `fictitious_strain_rotated`
  transformation : String × ArrE           -- … of `transformation_matrix`
  strainRotated : String × List SrStmt
  energies : List EnergyUse
  keyMethods : List EnergyUse
  resolvers : List Resolver
  values : List ValueProp
  deriving Repr

/-- the state of one instance as far as shear.py reads it -/
structure Obj (α : Type) where
  key : Modulus
  strain : Vec3 α                          -- one generic row of `self.strain`
  modulus : Modulus → α                    -- `self.modulus` (one generic cell)
  modulusRotated : Modulus → α             -- `self.modulus_rotated`
  eigh : Mat3 α → Vec3 α × Mat3 α
  isZero : α → Bool

/-- attributes that do not depend on another property -/
def ClassSpec.self0 (c : ClassSpec) (o : Obj α) (n : String) : Option (Val α) :=
  if n = "fictitious_strain" then (c.fict.eval o.key).map Val.mat
  else if n = "strain" then some (.rows o.strain)
  else none

/-- … plus the two properties computed from `fictitious_strain` -/
def ClassSpec.self1 (c : ClassSpec) (o : Obj α) (n : String) : Option (Val α) :=
  if n = "fictitious_strain_rotated" then c.rotated.2.eval ⟨c.self0 o, o.eigh⟩ []
  else if n = "transformation_matrix" then c.transformation.2.eval ⟨c.self0 o, o.eigh⟩ []
  else c.self0 o n

/-- `self.strain_rotated` (one generic row) -/
def ClassSpec.strainRotatedRow (c : ClassSpec) (o : Obj α) : Option (Vec3 α) :=
  match runSr ⟨c.self1 o, o.eigh⟩ [] c.strainRotated.2 with
  | some (.rows v) => some v
  | _ => none

def ClassSpec.matAttr (c : ClassSpec) (o : Obj α) (n : String) : Option (Mat3 α) :=
  match c.self1 o n with
  | some (.mat m) => some m
  | _ => none

def Obj.dict (o : Obj α) (n : String) : Option (Modulus → α) :=
  if n = "modulus" then some o.modulus else if n = "modulus_rotated" then some o.modulusRotated else none

def Obj.targetOf (o : Obj α) : Option String → Option (Option Modulus)
  | none => some none
  | some n => if n = "key" then some (some o.key) else none

/-- one of the energy properties -/
def ClassSpec.energy (c : ClassSpec) (fn : LoopSpec) (term : ShExpr.ShExpr) (o : Obj α) (name : String) : Option α :=
  match c.energies.find? fun u => u.name == name with
  | some u =>
    match c.matAttr o u.strain, u.resolver, o.targetOf u.target with
    | some e, some rname, some tgt =>
      match c.resolvers.find? fun r => r.name == rname with
      | some r =>
        match o.dict r.dict with
        | some d => if u.fn = fn.name then fn.energy term o.isZero e d tgt else none
        | none => none
      | none => none
    | _, _, _ => none
  | none => none

/-- `get_modulus_keys()` / `get_modulus_keys_rotated()` -/
def ClassSpec.keysOf (c : ClassSpec) (fn : LoopSpec) (o : Obj α) (name : String) : Option (List Modulus) :=
  match c.keyMethods.find? fun u => u.name == name with
  | some u =>
    match c.matAttr o u.strain, u.resolver, o.targetOf u.target with
    | some e, none, some tgt => if u.fn = fn.name then fn.keys o.isZero e tgt else none
    | _, _, _ => none
  | none => none

/-- `get_target_elastic_modulus()`: `Generated.shearTarget` (translated by `gen_shear_exprs`, whose symbols are
`self.fictitious_strain_energy_rotated`, `self.fictitious_strain_energy`, `self.fictitious_strain[i-1, j-1]`,
`self.fictitious_strain[k-1, l-1]` with `i, j, k, l = self.key.standard`, `self.key.multiplicity`) -/
def ClassSpec.target (c : ClassSpec) (fn : LoopSpec) (term tgt : ShExpr.ShExpr) (o : Obj α) : Option α :=
  match c.energy fn term o "fictitious_strain_energy_rotated", c.energy fn term o "fictitious_strain_energy",
      c.matAttr o "fictitious_strain" with
  | some eRot, some eOrig, some e =>
      some (ShExpr.eval (symEnv eRot (e (idx o.key.i.i) (idx o.key.i.j)) (e (idx o.key.j.i) (idx o.key.j.j)) eRot eOrig
        ((o.key.multiplicity : Nat) : α)) tgt)
  | _, _, _ => none

/-- `self.<name>` for the value properties: follow `return self.<other>` / `return self.<method>()` -/
def ClassSpec.value (c : ClassSpec) (fn : LoopSpec) (term tgt : ShExpr.ShExpr) (o : Obj α) : Nat → String → Option α
  | 0, _ => none
  | fuel + 1, name =>
    match c.values.find? fun v => v.name == name with
    | some v =>
      match v.body with
      | .attr n => c.value fn term tgt o fuel n
      | .callSelf m => if m = "get_target_elastic_modulus" then c.target fn term tgt o else none
      | .other _ => none
    | none => none

/-! ### the inventory -/

inductive Handled where
  | translated (generatedDef : String)          -- by tools/gens/shear_src.py, into this Generated definition
  | translatedBy (generator generatedDef : String)   -- by another generator
  | pinned                                      -- compared as normalised text
  deriving Repr, DecidableEq

end Cij.ShearGlue
