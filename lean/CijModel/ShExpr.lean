/- Expression trees for the two arithmetic formulas of `shear.py` (translated on every run, `Generated/ShearExprs.lean`). -/
namespace Cij.ShExpr

inductive Sym | m | eij | ekl | eRot | eOrig | mult
  deriving DecidableEq, Repr

inductive ShExpr where
  | sym (s : Sym)
  | lit (n : Nat)
  | add (a b : ShExpr)
  | sub (a b : ShExpr)
  | mul (a b : ShExpr)
  | div (a b : ShExpr)
  deriving Repr

variable {α : Type} [Add α] [Sub α] [Mul α] [Div α] [NatCast α]

def eval (env : Sym → α) : ShExpr → α
  | .sym s => env s
  | .lit n => (n : α)
  | .add a b => eval env a + eval env b
  | .sub a b => eval env a - eval env b
  | .mul a b => eval env a * eval env b
  | .div a b => eval env a / eval env b

end Cij.ShExpr
