/-
  Model of the output path of cij (property C15):

    cij/io/output/results_writer.py   ResultsWriterRule.{write_variable, write_ij_variable, _format_ij, write},
                                      ResultsWriter.{_init_rules, write}
    cij/core/calculator.py            CijVolumeBaseInterface.write_table / CijPressureBaseInterface.write_table,
                                      write_variables, Calculator.write_output
    qha/basic_io/out.py               save_x_tp / save_x_tv   (which rows / columns reach the file)

  * The rules are NOT written here: they are `Generated.writerRules`, re-translated from
    cij/data/output/writer_rules.yml on every run.
  * A file is modelled by its CONTENT `(fname, corner label, row labels, column labels, values)`; pandas'
    text layout and printf rounding ("%.15e", 6 decimals for labels) are outside the model (tested by the harness).
  * pint is external: a conversion `Quantity(x, u_from).to(u_to).magnitude` is `x * k(u_from, u_to)` with the
    factor `k` a parameter (`Units.conv`; `none` = pint raises).  The harness measures the factors on pint itself.
  * Every Python exception (KeyError for an unknown keyword / format field, AttributeError, pandas shape
    ValueError, pint errors, NotImplementedError) is the single outcome `none`.
  No Mathlib.  Numeric code is polymorphic in the scalar `α` (only `*` is needed; `+`, `NatCast` for grids).
-/
import Generated.WriterRules
import CijModel.Voigt

namespace Cij.Writer

open Generated (WriterRule)

/-! ### Python `dict` with `str` keys: association list, assignment replaces in place, else appends -/

def dictSet {β} (d : List (String × β)) (k : String) (v : β) : List (String × β) :=
  match d with
  | [] => [(k, v)]
  | (k', v') :: t => if k' == k then (k', v) :: t else (k', v') :: dictSet t k v

def dictGet {β} (d : List (String × β)) (k : String) : Option β :=
  (d.find? (fun e => e.1 == k)).map (·.2)

/-- a Python loop whose body may raise: all results, or the exception (`none`) -/
def optAll {β} : List (Option β) → Option (List β)
  | [] => some []
  | x :: xs => match x, optAll xs with
    | some y, some ys => some (y :: ys)
    | _, _ => none

/-! ### `ResultsWriter._init_rules` (results_writer.py l.108-112) and the lookup in `ResultsWriter.write` -/

/-- `for rule in rules: for keyword in rule.keywords: self.registry[keyword] = rule` — a later rule wins. -/
def initRules (rules : List WriterRule) : List (String × WriterRule) :=
  rules.foldl (fun reg r => r.keywords.foldl (fun reg k => dictSet reg k r) reg) []

/-- the registry of the packaged YAML (`DEFAULT_WRITER_RULES`) -/
def registry : List (String × WriterRule) := initRules Generated.writerRules

/-- `self.registry[config["keyword"]]` (KeyError = none) -/
def resolveIn (rules : List WriterRule) (kw : String) : Option WriterRule := dictGet (initRules rules) kw
def resolve (kw : String) : Option WriterRule := resolveIn Generated.writerRules kw

/-! ### `str.format(**kwargs)` restricted to plain `{name}` fields -/

/-- state: `none` = literal text, `some f` = inside a `{…}` field whose name so far is `f` reversed.
A lone `}`, a nested `{`, an unterminated field → ValueError; an unknown field name → KeyError. -/
def formatGo (env : List (String × String)) : List Char → Option (List Char) → Option (List Char)
  | [], none => some []
  | [], some _ => none
  | c :: cs, none =>
      if c = '{' then formatGo env cs (some [])
      else if c = '}' then none
      else (formatGo env cs none).map (c :: ·)
  | c :: cs, some f =>
      if c = '}' then
        match dictGet env (String.ofList f.reverse) with
        | some v => (formatGo env cs none).map (v.toList ++ ·)
        | none => none
      else if c = '{' then none
      else formatGo env cs (some (c :: f))

def format (pattern : String) (env : List (String × String)) : Option String :=
  (formatGo env pattern.toList none).map String.ofList

/-- `ResultsWriterRule._format_ij`: `"%d%d" % key.v` (KeyError of `.v` = none) -/
def formatIj (key : Modulus) : Option String :=
  key.voigt.map fun p => toString p.1 ++ toString p.2

/-- the file name of a `value` rule: `self.fname_pattern.format(base=base._base_name)` -/
def valueFname (r : WriterRule) (baseName : String) : Option String :=
  format r.fnamePattern [("base", baseName)]

/-- the file name of one component of an `ij_value` rule: `.format(base=…, ij=self._format_ij(k))` -/
def ijFname (r : WriterRule) (baseName : String) (key : Modulus) : Option String := do
  let ij ← formatIj key
  format r.fnamePattern [("base", baseName), ("ij", ij)]

/-! ### grids -/

/-- `qha.tools.arange(start, num, step) = [start + step * n for n in range(num)]` -/
def arange {α} [Add α] [Mul α] [NatCast α] (start : α) (num : Nat) (step : α) : List α :=
  (List.range num).map fun (n : Nat) => start + step * (Nat.cast n : α)

/-- Python `x[:-4]` / pandas `.iloc[:-4]` -/
def dropLast4 {β} (l : List β) : List β := l.take (l.length - 4)

/-! ### bases, tables, units -/

abbrev Matrix (α : Type) := List (List α)

/-- what `getattr(base, rule.prop)` returns: an array `[t][x]`, or a dict-like with `.items()` -/
inductive PropVal (α : Type) where
  | value (m : Matrix α)
  | items (l : List (Modulus × Matrix α))

/-- the attributes of a `Cij{Volume,Pressure}BaseInterface` that the writer reads -/
structure Base (α : Type) where
  baseName : String                    -- `_base_name`
  pressureBase : Bool                  -- which `write_table` is bound
  tArray : List α                      -- `t_array` (qha's temperature_array: NT+4 entries, K)
  axis : List α                        -- `p_array` (Ry/bohr³) resp. `v_array` (bohr³)
  props : List (String × PropVal α)

/-- the content of one written file -/
structure Table (α : Type) where
  fname : String
  corner : String                      -- `df.columns.name`
  rows : List α
  cols : List α
  vals : Matrix α

/-- pint, as far as the writer uses it -/
structure Units (α : Type) where
  toGPa : α                                  -- `_to_gpa`  : rydberg/bohr**3 → GPa
  toAng3 : α                                 -- `_to_ang3` : bohr**3 → angstrom**3
  conv : String → String → Option α          -- `convert_unit(unit_internal, unit)`; none = pint raises

variable {α : Type} [Mul α]

def scale (k : α) (m : Matrix α) : Matrix α := m.map fun row => row.map fun x => x * k

/-- `write_table` of both bases (calculator.py l.330-335, l.519-524) followed by qha's `save_x_tv` / `save_x_tp`:
`pd.DataFrame(value, index=t, columns=axis).iloc[:-4, :]`; the `isin` sample filters keep everything because the
sample arrays passed are the full arrays.  A shape mismatch is pandas' ValueError. -/
def writeTable (U : Units α) (b : Base α) (fname : String) (value : Matrix α) : Option (Table α) :=
  let cols := b.axis.map fun x => x * (if b.pressureBase then U.toGPa else U.toAng3)
  if value.length == b.tArray.length && value.all (fun row => row.length == cols.length) then
    some { fname := fname
           corner := if b.pressureBase then "T(K)\\P(GPa)" else "T(K)\\V(A^3)"
           rows := dropLast4 b.tArray
           cols := cols
           vals := dropLast4 value }
  else none

/-- the `config` dict of `ResultsWriter.write` (a `str` config is `{ keyword := s }`); only the keys the code
reads.  `_config = self._asdict(); _config.update(config)` lets `unit` and `unit_internal` be overridden;
`fname` is taken when present (`if "fname" in _config: fname = config["fname"]`). -/
structure Config where
  keyword : String
  fname : Option String := none
  unit : Option String := none
  unitInternal : Option String := none
  deriving Repr, DecidableEq

/-- `convert = convert_unit(_config["unit_internal"], _config["unit"])` -/
def factorOf (U : Units α) (r : WriterRule) (cfg : Option Config) : Option α :=
  U.conv ((cfg.bind (·.unitInternal)).getD r.unitInternal) ((cfg.bind (·.unit)).getD r.unit)

/-- `ResultsWriterRule.write_variable` (l.48-66): the list of files written, in order -/
def writeVariable (U : Units α) (r : WriterRule) (b : Base α) (cfg : Option Config) : Option (List (Table α)) := do
  let k ← factorOf U r cfg
  let v ← match dictGet b.props r.prop with
    | some (.value m) => some m
    | _ => none
  let fname ← match cfg.bind (·.fname) with
    | some f => some f
    | none => valueFname r b.baseName
  let t ← writeTable U b fname (scale k v)
  pure [t]

/-- `ResultsWriterRule.write_ij_variable` (l.68-88): one `write_table` per item of `.items()`, in order.
With an `fname` override EVERY component goes to that same name (as coded).  `convert` is a lambda: pint is
only consulted when a component is converted, so an impossible unit goes unnoticed when there is no component. -/
def writeIjVariable (U : Units α) (r : WriterRule) (b : Base α) (cfg : Option Config) : Option (List (Table α)) := do
  let items ← match dictGet b.props r.prop with
    | some (.items l) => some l
    | _ => none
  optAll (items.map fun kv => do
    let fname ← match cfg.bind (·.fname) with
      | some f => some f
      | none => ijFname r b.baseName kv.1
    let k ← factorOf U r cfg
    writeTable U b fname (scale k kv.2))

/-- `ResultsWriterRule.write` (l.90-96) -/
def writeRule (U : Units α) (r : WriterRule) (b : Base α) (cfg : Option Config) : Option (List (Table α)) :=
  if r.varType == "value" then writeVariable U r b cfg
  else if r.varType == "ij_value" then writeIjVariable U r b cfg
  else none

/-- `ResultsWriter.write` (l.114-117) for the packaged rules -/
def writeKeywordIn (rules : List WriterRule) (U : Units α) (b : Base α) (cfg : Config) : Option (List (Table α)) := do
  let r ← resolveIn rules cfg.keyword
  writeRule U r b (some cfg)

def writeKeyword (U : Units α) (b : Base α) (cfg : Config) : Option (List (Table α)) :=
  writeKeywordIn Generated.writerRules U b cfg

/-- `write_variables` (calculator.py l.337-345 / l.526-534): `for c in variables: writer.write(c)` -/
def writeVariables (U : Units α) (b : Base α) (cfgs : List Config) : Option (List (Table α)) :=
  (optAll (cfgs.map (writeKeyword U b))).map List.flatten

/-- `Calculator.write_output` (l.158-166): pressure base first, then volume base, each only if its key is present -/
def writeOutput (U : Units α) (pb vb : Base α) (pcfg vcfg : Option (List Config)) : Option (List (Table α)) := do
  let a ← match pcfg with | some c => writeVariables U pb c | none => some []
  let b ← match vcfg with | some c => writeVariables U vb c | none => some []
  pure (a ++ b)

/-- the directory after a sequence of writes: `open(name, "w")` truncates, the last write to a name survives -/
def filesAfter (events : List (Table α)) : List (String × Table α) :=
  events.foldl (fun d t => dictSet d t.fname t) []

/-! ### all file names the packaged rules can produce for one base (used for the collision theorems) -/

def ruleFnames (r : WriterRule) (baseName : String) : List (Option String) :=
  if r.varType == "ij_value" then keys21.map fun p => ijFname r baseName (keyOfVoigt p)
  else [valueFname r baseName]

def allFnames (rules : List WriterRule) (baseName : String) : List (Option String) :=
  rules.flatMap fun r => ruleFnames r baseName

end Cij.Writer
