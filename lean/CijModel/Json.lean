/-
  JSON-like values as the Python side sees them after `json.load` / `yaml.load`:
  `num n d isInt` is the rational n/d; `isInt` records whether Python holds an `int`
  (so that `3` and `3.0` stay distinguishable where jsonschema distinguishes them).
-/
namespace Cij

inductive J where
  | null
  | bool (b : Bool)
  | num (n : Int) (d : Nat) (isInt : Bool)
  | str (s : String)
  | arr (l : List J)
  | obj (kv : List (String × J))
  deriving Repr, Inhabited

/-! Structural (syntactic) equality, written by hand: `deriving DecidableEq` does not apply to this
nested inductive.  Structural recursion, so the kernel evaluates it (`decide`). -/
mutual
def J.beq : J → J → Bool
  | .null, .null => true
  | .bool a, .bool b => a == b
  | .num n d i, .num n' d' i' => n == n' && d == d' && i == i'
  | .str a, .str b => a == b
  | .arr a, .arr b => J.beqList a b
  | .obj a, .obj b => J.beqKV a b
  | _, _ => false
def J.beqList : List J → List J → Bool
  | [], [] => true
  | x :: xs, y :: ys => J.beq x y && J.beqList xs ys
  | _, _ => false
def J.beqKV : List (String × J) → List (String × J) → Bool
  | [], [] => true
  | (k, x) :: xs, (k', y) :: ys => k == k' && J.beq x y && J.beqKV xs ys
  | _, _ => false
end

mutual
theorem J.eq_of_beq : ∀ (a b : J), J.beq a b = true → a = b
  | .null, b, h => by cases b <;> simp_all [J.beq]
  | .bool x, b, h => by cases b <;> simp_all [J.beq]
  | .num n d i, b, h => by cases b <;> simp_all [J.beq]
  | .str s, b, h => by cases b <;> simp_all [J.beq]
  | .arr l, b, h => by
      cases b <;> simp [J.beq] at h
      rename_i l'
      exact congrArg J.arr (J.eq_of_beqList l l' h)
  | .obj kv, b, h => by
      cases b <;> simp [J.beq] at h
      rename_i kv'
      exact congrArg J.obj (J.eq_of_beqKV kv kv' h)
theorem J.eq_of_beqList : ∀ (a b : List J), J.beqList a b = true → a = b
  | [], b, h => by cases b <;> simp_all [J.beqList]
  | x :: xs, b, h => by
      cases b with
      | nil => simp [J.beqList] at h
      | cons y ys =>
        simp [J.beqList] at h
        rw [J.eq_of_beq x y h.1, J.eq_of_beqList xs ys h.2]
theorem J.eq_of_beqKV : ∀ (a b : List (String × J)), J.beqKV a b = true → a = b
  | [], b, h => by cases b <;> simp_all [J.beqKV]
  | (k, x) :: xs, b, h => by
      cases b with
      | nil => simp [J.beqKV] at h
      | cons y ys =>
        obtain ⟨k', y⟩ := y
        simp [J.beqKV] at h
        rw [h.1.1, J.eq_of_beq x y h.1.2, J.eq_of_beqKV xs ys h.2]
end

mutual
theorem J.beq_refl : ∀ (a : J), J.beq a a = true
  | .null => by simp [J.beq]
  | .bool _ => by simp [J.beq]
  | .num _ _ _ => by simp [J.beq]
  | .str _ => by simp [J.beq]
  | .arr l => by simp [J.beq, J.beqList_refl l]
  | .obj kv => by simp [J.beq, J.beqKV_refl kv]
theorem J.beqList_refl : ∀ (a : List J), J.beqList a a = true
  | [] => by simp [J.beqList]
  | x :: xs => by simp [J.beqList, J.beq_refl x, J.beqList_refl xs]
theorem J.beqKV_refl : ∀ (a : List (String × J)), J.beqKV a a = true
  | [] => by simp [J.beqKV]
  | (k, x) :: xs => by simp [J.beqKV, J.beq_refl x, J.beqKV_refl xs]
end

instance : DecidableEq J := fun a b =>
  if h : J.beq a b = true then isTrue (J.eq_of_beq a b h)
  else isFalse (fun e => h (e ▸ J.beq_refl a))

end Cij
