/-
  JSON-like values as the Python side sees them after `json.load` / `yaml.load`:
  `num n d isInt` is the rational n/d; `isInt` records whether Python holds an `int`
  (so that `3` and `3.0` stay distinguishable where jsonschema distinguishes them).
-/
namespace Cij

inductive J where
  | null
  | bool (b : Bool)
  | num (n : Int) (d : Nat) (isInt : Bool)
  | str (s : String)
  | arr (l : List J)
  | obj (kv : List (String × J))
  deriving Repr, Inhabited

end Cij
