/-
  Meaning of the description of `cij/core/tasks.py` that `tools/gens/tasks_src.py` extracts on every run
  (`Generated/TasksGlue.lean`): small interpreters that give each extracted piece of glue its semantics, generic in the
  description.  `CijProofs/Lemmas/TasksGlueSource.lean` proves that, on the description extracted NOW, they are the
  hand-written model of `CijModel/Tasks.lean` — for every strain field, key list, task-equality relation, eigen table, store.

  * `WorkList` / `runResolve`   — `PhononContributionTaskList.resolve` as a work-list program over an environment of named locals;
  * `DepsSpec` / `depsOfSpec`   — `PhononContributionTask.get_dependencies`;
  * `CalcSpec`, `GetModulus`, `ResultsSpec`, `Search`, `KeyNorm`, `ShearIface` / `calculateSpec`, `getResultsOf`
                                — `calculate`, `get_modulus_*`, `get_results_by_strain_keys`, `__getitem__`, `__setitem__`, `get_*_results`;
  * `HashSpec` / `hashOf`, `EqSpec` / `peqOfSpec`, `peqModel`
                                — `PhononContributionTaskParams.__hash__` / `__eq__`.
  Python names stay strings: the interpreters look variables up in an environment, so what a description means does not depend
  on how the locals are spelled.
-/
import CijModel.Tasks

namespace Cij.TasksGlue
open Cij Cij.Shear Cij.Tasks

/-! ### descriptions (plain data, printed by the translator) -/

/-- which end of a Python list: `q.pop()` / `q.append(x)` work at `.last`, `q.pop(0)` / `q.insert(0, x)` at `.first` -/
inductive End | first | last
  deriving DecidableEq, Repr

/-- a factor of `itertools.product(…)`: `[x]` or the iterable `x` -/
inductive QFactor | single (x : String) | each (x : String)
  deriving DecidableEq, Repr

structure WorkList where
  params : List String
  queueInit : List QFactor
  popEnd : End
  popTargets : List String
  paramsVar : String
  createArgs : List String
  taskVar : String
  lookupAttr : String
  lookupCandidateLeft : Bool
  newTaskArgs : List String
  currVar : String
  currNewOffset : Int
  edgeGuard : String
  edge : String × String
  pushMethod : String
  pushTargets : List String
  pushItem : List String
  pushEnd : End
  sortFn : String
  dataAttr : String
  deriving DecidableEq, Repr

structure DepsSpec where
  emptyFor : List String
  pairs : List (String × String)
  deriving DecidableEq, Repr

structure Feed where
  taskAttr : String
  store : String
  strainAttr : String
  keysMethod : String
  deriving DecidableEq, Repr

structure CalcSpec where
  loopOver : String
  guardType : String
  feeds : List Feed
  writes : List (String × String × String)
  deriving DecidableEq, Repr

structure GetModulus where
  name : String
  guardType : String
  assigns : List (String × String)
  returns : String
  deriving DecidableEq, Repr

structure ResultsSpec where
  params : List String
  iterates : String
  loopVar : String
  createArgs : List String
  keyedBy : String
  deriving DecidableEq, Repr

structure KeyNorm where
  cls : String
  tupleTargets : List String
  createArgs : List String
  deriving DecidableEq, Repr

structure Search where
  over : String
  entryLeft : Bool
  hasDefault : Bool
  deriving DecidableEq, Repr

structure TaskInit where
  params : List String
  keyAttr : String
  keyValue : String
  paramsAttr : String
  createArgs : List String
  dispatch : List (String × String × List String)
  deriving DecidableEq, Repr

structure ShearIface where
  origAttr : String
  rotAttr : String
  valueAdiabaticIs : String
  deriving DecidableEq, Repr

inductive HExpr
  | calcType
  | floats (i : Nat)
  | obj (i : Nat)
  | xor (a b : HExpr)
  deriving DecidableEq, Repr

structure HashSpec where
  typeName : String
  whenType : HExpr
  otherwise : HExpr
  deriving DecidableEq, Repr

inductive EqTest
  | calcTypeNe
  | objNe (i : Nat)
  | notClose (i : Option Nat) (selfFirst : Bool)
  deriving DecidableEq, Repr

structure EqSpec where
  pre : List EqTest
  typeName : String
  whenType : List EqTest
  otherwise : List EqTest
  rtol : Nat × Nat
  atol : Nat × Nat
  deriving DecidableEq, Repr

/-- `ElasticModulusCalculationType.<name>` -/
def calcTypeName : Modulus.CalcType → String
  | .longitudinal => "LONGITUDINAL" | .offDiagonal => "OFF_DIAGONAL" | .shear => "SHEAR"

section interp
variable {α : Type}

/-! ### values, environments -/

/-- what a local of `resolve` / `get_results_by_strain_keys` can hold -/
inductive Val (α : Type) where
  | field (s : SField α)
  | key (k : Modulus)
  | keys (ks : List Modulus)
  | idx (n : Nat)
  | none

/-- named locals; the most recent binding first -/
abbrev Env (α : Type) := List (String × Val α)

def Env.get (e : Env α) (x : String) : Option (Val α) := (e.find? fun b => b.1 == x).map (·.2)

def Env.set (e : Env α) (x : String) (v : Val α) : Env α := (x, v) :: e

/-- tuple unpacking `x0, x1, … = (v0, v1, …)` -/
def Env.bindAll (e : Env α) : List String → List (Val α) → Option (Env α)
  | [], [] => some e
  | x :: xs, v :: vs => Env.bindAll (e.set x v) xs vs
  | _, _ => Option.none

/-- a name, or the literal `None` -/
def evalAtom (e : Env α) (x : String) : Option (Val α) := if x == "None" then some .none else e.get x

def asField : Option (Val α) → Option (SField α)
  | some (.field s) => some s
  | _ => Option.none

def asKey : Option (Val α) → Option Modulus
  | some (.key k) => some k
  | _ => Option.none

def asIdx : Option (Val α) → Option Nat
  | some (.idx n) => some n
  | _ => Option.none

/-- the two arguments of `PhononContributionTaskParams.create(<a>, <b>)`: a strain field, then a key -/
def args2 (e : Env α) : List String → Option (SField α × Modulus)
  | [a, b] =>
      match asField (evalAtom e a), asKey (evalAtom e b) with
      | some s, some k => some (s, k)
      | _, _ => Option.none
  | _ => Option.none

/-- the arguments of `PhononContributionTask(<a>, <b>, self.calculator)` -/
def args3 (e : Env α) : List String → Option (SField α × Modulus)
  | [a, b, c] => if c == "self.calculator" then args2 e [a, b] else Option.none
  | _ => Option.none

/-- `itertools.product(f0, f1, …)` of lists: the last factor varies fastest -/
def product {X : Type} : List (List X) → List (List X)
  | [] => [[]]
  | f :: fs => f.flatMap fun x => (product fs).map (x :: ·)

def popQ {X : Type} : End → List X → Option (X × List X)
  | .first, [] => Option.none
  | .first, x :: q => some (x, q)
  | .last, q => match q.getLast? with
      | some x => some (x, q.dropLast)
      | Option.none => Option.none

def pushQ {X : Type} : End → List X → X → List X
  | .first, q, x => x :: q
  | .last, q, x => q ++ [x]

end interp

section model
variable {α : Type} [Add α] [Sub α] [Mul α] [Div α] [NatCast α]

/-! ### `get_dependencies` -/

/-- `self.calculator.<attr>` of a shear task: `strain` is the strain the task was built with (first constructor argument),
`strain_rotated` its rotation into the eigenframe of the key -/
def strainAttr (eig : Eig α) (t : PTask α) : String → Option (SField α)
  | "strain" => some t.strain
  | "strain_rotated" => some (rotatedField (eig t.key).1 t.strain)
  | _ => none

/-- `self.calculator.<method>()` of a shear task -/
def keysMethod (isZero : α → Bool) (eig : Eig α) (t : PTask α) : String → Option (List Modulus)
  | "get_modulus_keys" => some (modulusKeys (α := α) isZero t.key)
  | "get_modulus_keys_rotated" => some (modulusKeysRotated isZero (eig t.key).2)
  | _ => none

/-- `get_dependencies()` as described: `[]` for the listed calc types, else the concatenation of `product([strain attr], keys method())` -/
def depsOfSpec (d : DepsSpec) (isZero : α → Bool) (eig : Eig α) (t : PTask α) : List (SField α × Modulus) :=
  if d.emptyFor.contains (calcTypeName t.key.calcType) then []
  else d.pairs.flatMap fun p =>
    match strainAttr eig t p.1, keysMethod isZero eig t p.2 with
    | some s, some ks => ks.map fun k => (s, k)
    | _, _ => []

/-! ### `resolve` -/

/-- the tuple appended for one dependency: `for <pushTargets> in task.<pushMethod>(): q.append((<pushItem>))` -/
def pushedItem (wl : WorkList) (e : Env α) (sk : SField α × Modulus) : Option (List (Val α)) :=
  match Env.bindAll e wl.pushTargets [.field sk.1, .key sk.2] with
  | some e' => wl.pushItem.mapM (evalAtom e')
  | none => none

/-- `if <edgeGuard> is not None: graph.add_edge(<edge.1>, <edge.2>)` -/
def edgesAfter (wl : WorkList) (e : Env α) (edges : List (Nat × Nat)) : Option (List (Nat × Nat)) :=
  match e.get wl.edgeGuard with
  | none => none
  | some .none => some edges
  | some _ =>
      match asIdx (e.get wl.edge.1), asIdx (e.get wl.edge.2) with
      | some a, some b => some (edges ++ [(a, b)])
      | _, _ => none

/-- the part of an iteration after `curr` is known: the guarded `add_edge` and the push of the dependencies of `task` -/
def finishStep (wl : WorkList) (depsOf : PTask α → List (SField α × Modulus)) (e : Env α)
    (tasks : List (PTask α)) (edges : List (Nat × Nat)) (task : Option (PTask α)) :
    Option (RState α × List (List (Val α))) :=
  match edgesAfter wl e edges with
  | none => none
  | some es =>
    match (match task with
           | some t => depsOf t
           | none => []).mapM (pushedItem wl e) with
    | none => none
    | some pushed => some (⟨tasks, es⟩, pushed)

/-- one iteration of the `while` loop on the popped tuple; `none` = the description is ill-typed (never for a translated one) -/
def stepSpec (wl : WorkList) (peq : Params α → Params α → Bool) (depsOf : PTask α → List (SField α × Modulus))
    (e0 : Env α) (item : List (Val α)) (st : RState α) : Option (RState α × List (List (Val α))) :=
  match Env.bindAll e0 wl.popTargets item with
  | none => none
  | some e =>
    match args2 e wl.createArgs with
    | none => none
    | some sk =>
      let p := create sk.1 sk.2
      match st.tasks.findIdx? (fun t => if wl.lookupCandidateLeft then peq t.params p else peq p t.params) with
      | some i => finishStep wl depsOf (e.set wl.currVar (.idx i)) st.tasks st.edges st.tasks[i]?
      | none =>
        match args3 e wl.newTaskArgs with
        | none => none
        | some sk' =>
          let ts := st.tasks ++ [mkTask sk'.1 sk'.2]
          let curr := (Int.ofNat ts.length + wl.currNewOffset).toNat
          finishStep wl depsOf (e.set wl.currVar (.idx curr)) ts st.edges ts[curr]?

/-- the `while` loop; the queue in Python order; `fuel` bounds the iterations (`none` = ran out / ill-typed) -/
def loopSpec (wl : WorkList) (peq : Params α → Params α → Bool) (depsOf : PTask α → List (SField α × Modulus)) (e0 : Env α) :
    Nat → List (List (Val α)) → RState α → Option (RState α)
  | fuel, q, st =>
    match popQ wl.popEnd q with
    | none => some st
    | some (item, rest) =>
      match fuel with
      | 0 => none
      | n + 1 =>
        match stepSpec wl peq depsOf e0 item st with
        | none => none
        | some r => loopSpec wl peq depsOf e0 n (r.2.foldl (pushQ wl.pushEnd) rest) r.1

def factorVals (e : Env α) : QFactor → Option (List (Val α))
  | .single x => (evalAtom e x).map fun v => [v]
  | .each x => match e.get x with
      | some (.keys ks) => some (ks.map .key)
      | _ => none

/-- `resolve(strain, keys)` up to the call of the sort function, as described -/
def runResolve (wl : WorkList) (peq : Params α → Params α → Bool) (depsOf : PTask α → List (SField α × Modulus))
    (fuel : Nat) (strain : SField α) (keys : List Modulus) : Option (RState α) :=
  match Env.bindAll [] wl.params [.field strain, .keys keys] with
  | none => none
  | some e0 =>
    match wl.queueInit.mapM (factorVals e0) with
    | none => none
    | some fs => loopSpec wl peq depsOf e0 fuel (product fs) ⟨[], []⟩

/-! ### result stores -/

/-- `__getitem__` after normalisation: first entry (insertion order) whose key is equal to the query under `__eq__` -/
def getItemOf (g : Search) (peq : Params α → Params α → Bool) (s : Store α) (p : Params α) : Option α :=
  (s.find? fun e => if g.entryLeft then peq e.1 p else peq p e.1).map (·.2)

/-- the key normalisation of `__setitem__` / `__getitem__` applied to a `(strain, key)` tuple -/
def normKey (n : KeyNorm) (strain : SField α) (key : Modulus) : Option (Params α) :=
  match Env.bindAll ([] : Env α) n.tupleTargets [.field strain, .key key] with
  | none => none
  | some e => (args2 e n.createArgs).map fun sk => create sk.1 sk.2

/-- a fresh `dict` keyed by `C_` objects, in assignment order; `get` = the LAST assignment to an equal key -/
abbrev Dict (α : Type) := List (Modulus × α)

def Dict.get (d : Dict α) (k : Modulus) : Option α := (d.reverse.find? fun e => decide (e.1 = k)).map (·.2)

/-- `get_results_by_strain_keys(<params>)` as described, on top of a `__getitem__` -/
def resultsOf (rs : ResultsSpec) (getitem : Params α → Option α) (strain : SField α) (keys : List Modulus) : Option (Dict α) :=
  match Env.bindAll ([] : Env α) rs.params [.field strain, .keys keys] with
  | none => none
  | some e0 =>
    match e0.get rs.iterates with
    | some (.keys ks) =>
      ks.mapM fun k =>
        let e := e0.set rs.loopVar (.key k)
        match args2 e rs.createArgs, asKey (e.get rs.keyedBy) with
        | some sk, some rk => (getitem (create sk.1 sk.2)).map fun v => (rk, v)
        | _, _ => none
    | _ => none

/-- `self.<store attribute>` of the task list -/
def storeNamed (st : Store α × Store α) : String → Option (Store α)
  | "modulus_isothermal_values" => some st.1
  | "modulus_adiabatic_values" => some st.2
  | _ => none

/-- `self.<store attribute>[task.task_params] = v` (a key not yet present: appended) -/
def appendNamed (st : Store α × Store α) (name : String) (e : Params α × α) : Option (Store α × Store α) :=
  match name with
  | "modulus_isothermal_values" => some (st.1 ++ [e], st.2)
  | "modulus_adiabatic_values" => some (st.1, st.2 ++ [e])
  | _ => none

def attrGet {β : Type} (l : List (String × β)) (a : String) : Option β := (l.find? fun b => b.1 == a).map (·.2)

/-- the dictionaries `calculate()` assigns to attributes of a task: one FRESH dictionary per feed -/
def feedDicts (cs : CalcSpec) (rs : ResultsSpec) (g : Search) (isZero : α → Bool) (peq : Params α → Params α → Bool) (eig : Eig α)
    (st : Store α × Store α) (t : PTask α) : Option (List (String × Dict α)) :=
  cs.feeds.mapM fun f =>
    match storeNamed st f.store, strainAttr eig t f.strainAttr, keysMethod isZero eig t f.keysMethod with
    | some s, some sf, some ks => (resultsOf rs (getItemOf g peq s) sf ks).map fun d => (f.taskAttr, d)
    | _, _, _ => none

/-- `task.<method>()` (`get_modulus_isothermal` / `get_modulus_adiabatic`) given the task's attribute dictionaries:
under the guard the assignments `self.calculator.<a> = self.<b>`, then `return self.calculator.<returns>`; the contribution
classes are the model's: a shear value reads `self.<origAttr>[key]` / `self.<rotAttr>[key]` (`ShearIface`), its adiabatic value
IS its isothermal one; a non-shear value is `baseIso` / `baseAdi` of the task parameters -/
def taskMethod (gms : List GetModulus) (sh : ShearIface) (isZero : α → Bool) (eig : Eig α) (baseIso baseAdi : Params α → α)
    (t : PTask α) (attrs : List (String × Dict α)) (name : String) : Option α :=
  match gms.find? fun gm => gm.name == name with
  | none => none
  | some gm =>
    let cattrs : Option (List (String × Dict α)) :=
      if calcTypeName t.key.calcType == gm.guardType then gm.assigns.mapM fun ab => (attrGet attrs ab.2).map fun d => (ab.1, d)
      else some []
    match cattrs with
    | none => none
    | some ca =>
      let which := if gm.returns == "value_adiabatic" && t.key.calcType == .shear then sh.valueAdiabaticIs else gm.returns
      match t.key.calcType with
      | .shear =>
        if which == "value_isothermal" then
          match attrGet ca sh.origAttr, attrGet ca sh.rotAttr with
          | some m, some mr =>
            some (shearValue isZero t.key (eig t.key).2 (fun k => (m.get k).getD ((0 : Nat) : α)) (fun k => (mr.get k).getD ((0 : Nat) : α)))
          | _, _ => none
        else none
      | _ =>
        if which == "value_isothermal" then some (baseIso t.params)
        else if which == "value_adiabatic" then some (baseAdi t.params)
        else none

/-- the body of the loop of `calculate()` for one task -/
def calcTask (cs : CalcSpec) (gms : List GetModulus) (rs : ResultsSpec) (g : Search) (sh : ShearIface)
    (isZero : α → Bool) (peq : Params α → Params α → Bool) (eig : Eig α) (baseIso baseAdi : Params α → α)
    (st : Store α × Store α) (t : PTask α) : Option (Store α × Store α) :=
  let attrs : Option (List (String × Dict α)) :=
    if calcTypeName t.key.calcType == cs.guardType then feedDicts cs rs g isZero peq eig st t else some []
  match attrs with
  | none => none
  | some attrsV =>
    cs.writes.foldlM (fun (acc : Store α × Store α) w =>
      match taskMethod gms sh isZero eig baseIso baseAdi t attrsV w.2.2 with
      | none => none
      | some v => appendNamed acc w.1 (t.params, v)) st

/-- `calculate()` as described: `for task in self.data` with `self.data = [tasks[i] for i in order]` -/
def calculateSpec (cs : CalcSpec) (gms : List GetModulus) (rs : ResultsSpec) (g : Search) (sh : ShearIface)
    (isZero : α → Bool) (peq : Params α → Params α → Bool) (eig : Eig α) (baseIso baseAdi : Params α → α)
    (tasks : List (PTask α)) : List Nat → Store α × Store α → Option (Store α × Store α)
  | [], st => some st
  | i :: rest, st =>
      match tasks[i]? with
      | none => none
      | some t =>
        match calcTask cs gms rs g sh isZero peq eig baseIso baseAdi st t with
        | none => none
        | some st' => calculateSpec cs gms rs g sh isZero peq eig baseIso baseAdi tasks rest st'

/-- `get_adiabatic_results()` / `get_isothermal_results()` as described; `selfStrain`, `selfKeys` = what `resolve` bound to
`self.strain`, `self.keys` -/
def getResultsOf (getters : List (String × String × String × String)) (rs : ResultsSpec) (g : Search)
    (peq : Params α → Params α → Bool) (st : Store α × Store α) (selfStrain : SField α) (selfKeys : List Modulus)
    (name : String) : Option (Dict α) :=
  match getters.find? fun r => r.1 == name with
  | none => none
  | some r =>
    if r.2.2.1 == "strain" && r.2.2.2 == "keys" then
      match storeNamed st r.2.1 with
      | some s => resultsOf rs (getItemOf g peq s) selfStrain selfKeys
      | none => none
    else none

/-! ### `__hash__` and `__eq__` -/

/-- `.flatten().tolist()` of a `(ntv, 3)` array: row-major -/
def flat (s : SField α) : List α := s.flatMap fun r => [r 0, r 1, r 2]

def _root_.Cij.Tasks.Params.calcType : Params α → Modulus.CalcType
  | .nonshear c _ _ => c
  | .shear _ _ => .shear

/-- `self.params[i]` when it is an array of floats -/
def _root_.Cij.Tasks.Params.array : Params α → Nat → Option (List α)
  | .nonshear _ a _, 0 => some a
  | .nonshear _ _ b, 1 => some b
  | .shear s _, 0 => some (flat s)
  | _, _ => none

/-- `self.params[i]` when it is a key object -/
def _root_.Cij.Tasks.Params.object : Params α → Nat → Option Modulus
  | .shear _ k, 1 => some k
  | _, _ => none

/-- `self.params` as ONE array (`numpy.allclose` of a pair of equally long arrays compares them stacked) -/
def _root_.Cij.Tasks.Params.whole : Params α → Option (List α)
  | .nonshear _ a b => some (a ++ b)
  | .shear _ _ => none

/-- calc type and constructor agree (what `create` builds) -/
def _root_.Cij.Tasks.Params.Proper : Params α → Prop
  | .nonshear c _ _ => c ≠ .shear
  | .shear _ _ => True

def HExpr.eval {H : Type} (hc : Modulus.CalcType → H) (hf : List α → H) (hk : Modulus → H) (x : H → H → H) (p : Params α) :
    HExpr → Option H
  | .calcType => some (hc p.calcType)
  | .floats i => (p.array i).map hf
  | .obj i => (p.object i).map hk
  | .xor a b =>
      match HExpr.eval hc hf hk x p a, HExpr.eval hc hf hk x p b with
      | some u, some v => some (x u v)
      | _, _ => none

/-- `hash(params)` as described, for ANY hash of the enum member, of a tuple of floats, of a key, and any `^` -/
def hashOf {H : Type} (hs : HashSpec) (hc : Modulus.CalcType → H) (hf : List α → H) (hk : Modulus → H) (x : H → H → H)
    (p : Params α) : Option H :=
  if calcTypeName p.calcType == hs.typeName then hs.whenType.eval hc hf hk x p else hs.otherwise.eval hc hf hk x p

/-- does `if <test>: return False` fire?  `close a b` = `numpy.allclose(a, b, rtol, atol)` on flattened arrays; `none` = a TypeError /
ambiguous truth value in Python -/
def EqTest.fires (close : List α → List α → Bool) (p q : Params α) : EqTest → Option Bool
  | .calcTypeNe => some (decide (p.calcType ≠ q.calcType))
  | .objNe i =>
      match p.object i, q.object i with
      | some a, some b => some (decide (a ≠ b))
      | _, _ => none
  | .notClose (some i) sf =>
      match p.array i, q.array i with
      | some a, some b => some (!(if sf then close a b else close b a))
      | _, _ => none
  | .notClose none sf =>
      match p.whole, q.whole with
      | some a, some b => some (!(if sf then close a b else close b a))
      | _, _ => none

/-- a list of `if <test>: return False` ending in `return True` -/
def runTests (close : List α → List α → Bool) (p q : Params α) : List EqTest → Option Bool
  | [] => some true
  | t :: ts =>
      match t.fires close p q with
      | none => none
      | some true => some false
      | some false => runTests close p q ts

/-- `p == q` as described (`false` also where Python would raise) -/
def peqOfSpec (es : EqSpec) (close : List α → List α → Bool) (p q : Params α) : Bool :=
  match runTests close p q es.pre with
  | some true =>
      ((if calcTypeName p.calcType == es.typeName then runTests close p q es.whenType
        else runTests close p q es.otherwise).getD false)
  | _ => false

/-- `PhononContributionTaskParams.__eq__` written by hand, for any closeness test on flattened arrays: same calc type; shear: same
key and close strain fields; non-shear: close parameter arrays.  (The driver runs it with `numpy.allclose`'s formula.) -/
def peqModel (close : List α → List α → Bool) : Params α → Params α → Bool
  | .nonshear c a b, .nonshear c' a' b' => decide (c = c') && close (a ++ b) (a' ++ b')
  | .shear s k, .shear s' k' => decide (k = k') && close (flat s) (flat s')
  | _, _ => false

end model

end Cij.TasksGlue
