/-
  Model of `cij/core/tasks.py`: task parameters, the LIFO work-list of
  `PhononContributionTaskList.resolve`, `calculate` over a given evaluation order, the two result stores.

  Scalar-polymorphic like `Shear.lean`.  Parameters (external behaviour, with contracts stated in the theorems
  and measured by the harness):
  * `peq`   — `PhononContributionTaskParams.__eq__` (numpy.allclose based; the theorems assume an equivalence);
  * `isZero`— `numpy.isclose(·, 0)`;
  * `eig`   — `numpy.linalg.eigh` of the fictitious strain of a key: `(T, lam)`;
  * `order` — `networkx.topological_sort(graph)` (any order that respects the edges);
  * `baseIso`, `baseAdi` — the values of the non-shear contribution classes (C01 / C02) as functions of the task
    parameters (`Longitudinal/OffDiagonalElasticModulusPhononContribution(calculator, params)` reads nothing else
    of the task).
  A value on the (T,V) grid is handled cell by cell: every array operation of the shear path is point-wise,
  all look-ups are by whole strain fields and are the same for every cell.
-/
import CijModel.Shear

namespace Cij.Tasks
open Cij.Shear

variable {α : Type} [Add α] [Sub α] [Mul α] [Div α] [NatCast α]

/-- a strain field `(ntv, 3)`: one axial triple per volume -/
abbrev SField (α : Type) := List (Vec3 α)
/-- one normalised component over the volumes `(ntv,)` -/
abbrev CField (α : Type) := List α

/-- `PhononContributionTaskParams(calc_type, params)`: `params = (e_i/Σe, e_k/Σe)` for a non-shear key,
`(strain, key)` for a shear key -/
inductive Params (α : Type) where
  | nonshear (ct : Modulus.CalcType) (a b : CField α)
  | shear (strain : SField α) (key : Modulus)

/-- `strain[:, i] / numpy.sum(strain, axis=1)` -/
def component (s : SField α) (i : Fin 3) : CField α := s.map fun r => r i / sum3 r

/-- `PhononContributionTaskParams.create(strain, key)` (`_make_param_by_strain_key`) -/
def create (strain : SField α) (key : Modulus) : Params α :=
  if key.isShear then .shear strain key
  else .nonshear key.calcType (component strain (idx key.i.i)) (component strain (idx key.j.i))

/-- `PhononContributionTask(strain, key, calculator)`: remembers its key, the strain it was built with and its params -/
structure PTask (α : Type) where
  key : Modulus
  strain : SField α
  params : Params α

def mkTask (strain : SField α) (key : Modulus) : PTask α := ⟨key, strain, create strain key⟩

/-- `strain_rotated` for every volume row -/
def rotatedField (T : Mat3 α) (s : SField α) : SField α := s.map (strainRotated T)

abbrev Eig (α : Type) := Modulus → Mat3 α × Vec3 α

/-- `PhononContributionTask.get_dependencies()`:
`product([strain], get_modulus_keys()) + product([strain_rotated], get_modulus_keys_rotated())`, `[]` for non-shear -/
def deps (isZero : α → Bool) (eig : Eig α) (t : PTask α) : List (SField α × Modulus) :=
  match t.key.calcType with
  | .shear =>
      (modulusKeys (α := α) isZero t.key).map (fun k => (t.strain, k)) ++
      (modulusKeysRotated isZero (eig t.key).2).map (fun k => (rotatedField (eig t.key).1 t.strain, k))
  | _ => []

/-- state of `resolve`: `tasks` and the edges `graph.add_edge(curr, dep)` in insertion order
(nodes of the graph = indices of `tasks`) -/
structure RState (α : Type) where
  tasks : List (PTask α)
  edges : List (Nat × Nat)

/-- an entry of the work list `q`: `(strain, key, dependant)` -/
abbrev Item (α : Type) := SField α × Modulus × Option Nat

/-- `next((t for t in tasks if t.task_params == task_params), None)` then `tasks.index(task)` -/
def findTask (peq : Params α → Params α → Bool) (tasks : List (PTask α)) (p : Params α) : Option Nat :=
  tasks.findIdx? fun t => peq t.params p

/-- `task = next(…, None)`; `if task is None: task = PhononContributionTask(…); tasks.append(task); curr = len(tasks) - 1`
`else: curr = tasks.index(task)` — the (possibly extended) task list and `curr` -/
def currOf (peq : Params α → Params α → Bool) (tasks : List (PTask α)) (it : Item α) : List (PTask α) × Nat :=
  match findTask peq tasks (create it.1 it.2.1) with
  | some i => (tasks, i)
  | none => (tasks ++ [mkTask it.1 it.2.1], tasks.length)

/-- `if dep is not None: graph.add_edge(curr, dep)` -/
def addEdge (edges : List (Nat × Nat)) (curr : Nat) : Option Nat → List (Nat × Nat)
  | some d => edges ++ [(curr, d)]
  | none => edges

/-- `for _strain, _key in task.get_dependencies(): q.append((_strain, _key, curr))` (in append order);
dependencies are re-expanded also when `task` was already known -/
def pushedOf (isZero : α → Bool) (eig : Eig α) (tasks : List (PTask α)) (curr : Nat) : List (Item α) :=
  match tasks[curr]? with
  | some t => (deps isZero eig t).map fun sk => (sk.1, sk.2, some curr)
  | none => []

/-- one iteration of `while not len(q) == 0` on the popped item; returns the new state and the items appended to `q` -/
def resolveStep (isZero : α → Bool) (peq : Params α → Params α → Bool) (eig : Eig α)
    (it : Item α) (st : RState α) : RState α × List (Item α) :=
  let tc := currOf peq st.tasks it
  (⟨tc.1, addEdge st.edges tc.2 it.2.2⟩, pushedOf isZero eig tc.1 tc.2)

/-- the `while` loop.  `stack` is `q` with its END first (`q.pop()` takes the last element, `q.append` adds at the
end): appended items are pushed reversed.  `fuel` bounds the number of iterations (`none` = ran out). -/
def resolveLoop (isZero : α → Bool) (peq : Params α → Params α → Bool) (eig : Eig α) :
    Nat → List (Item α) → RState α → Option (RState α)
  | _, [], st => some st
  | 0, _ :: _, _ => none
  | n + 1, it :: rest, st =>
      let r := resolveStep isZero peq eig it st
      resolveLoop isZero peq eig n (r.2.reverse ++ rest) r.1

/-- keys a task with key `k` asks for (both frames) -/
def depKeys (isZero : α → Bool) (eig : Eig α) (k : Modulus) : List Modulus :=
  match k.calcType with
  | .shear => modulusKeys (α := α) isZero k ++ modulusKeysRotated isZero (eig k).2
  | _ => []

/-- number of loop iterations an item with key `k` causes, unrolled to depth `n` -/
def weight (isZero : α → Bool) (eig : Eig α) : Nat → Modulus → Nat
  | 0, _ => 1
  | n + 1, k => 1 + ((depKeys isZero eig k).map (weight isZero eig n)).sum

/-- 0 for the six non-shear keys, 1 for c44 c55 c66, 2 for the other shear keys -/
def rank (k : Modulus) : Nat := if !k.isShear then 0 else if k.i == k.j then 1 else 2

/-- `q = list(itertools.product([strain], keys, [None]))` seen from its end -/
def initialStack (strain : SField α) (keys : List Modulus) : List (Item α) :=
  (keys.map fun k => (strain, k, (none : Option Nat))).reverse

/-- enough iterations for the request (`resolve_terminates`) -/
def fuelFor (isZero : α → Bool) (eig : Eig α) (keys : List Modulus) : Nat :=
  (keys.map (weight isZero eig 2)).sum

/-- `PhononContributionTaskList.resolve(strain, keys)` up to the call of `topological_sort` -/
def resolve (isZero : α → Bool) (peq : Params α → Params α → Bool) (eig : Eig α)
    (strain : SField α) (keys : List Modulus) : Option (RState α) :=
  resolveLoop isZero peq eig (fuelFor isZero eig keys) (initialStack strain keys) ⟨[], []⟩

/-! ### calculate -/

/-- `PhononContributionTaskResults` (a dict in insertion order).  `__setitem__` is modelled as append: in
`calculate` every task is stored once and distinct tasks never have equal params. -/
abbrev Store (α : Type) := List (Params α × α)

/-- `__getitem__`: `next(v for p, v in self.data.items() if p == params)`; `none` = StopIteration -/
def Store.get (peq : Params α → Params α → Bool) (s : Store α) (p : Params α) : Option α :=
  (s.find? fun e => peq e.1 p).map (·.2)

/-- `get_results_by_strain_keys(strain, keys)` as `key ↦ value` in the order of `keys` -/
def Store.results (peq : Params α → Params α → Bool) (s : Store α) (strain : SField α) (keys : List Modulus) :
    Option (List (Modulus × α)) :=
  keys.mapM fun k => (s.get peq (create strain k)).map fun v => (k, v)

/-- the value a task computes given the isothermal store: `(get_modulus_isothermal(), get_modulus_adiabatic())`.
A shear task reads BOTH its dictionaries from the isothermal store and its adiabatic value is its isothermal value. -/
def taskValue (isZero : α → Bool) (peq : Params α → Params α → Bool) (eig : Eig α)
    (baseIso baseAdi : Params α → α) (iso : Store α) (t : PTask α) : Option (α × α) :=
  match t.key.calcType with
  | .shear =>
      let T := (eig t.key).1
      let lam := (eig t.key).2
      let sRot := rotatedField T t.strain
      match iso.results peq t.strain (modulusKeys (α := α) isZero t.key),
            iso.results peq sRot (modulusKeysRotated isZero lam) with
      | some _, some _ =>
          let v := shearValue isZero t.key lam
            (fun k => (iso.get peq (create t.strain k)).getD ((0 : Nat) : α))
            (fun k => (iso.get peq (create sRot k)).getD ((0 : Nat) : α))
          some (v, v)
      | _, _ => none
  | _ => some (baseIso t.params, baseAdi t.params)

/-- `calculate()`: `for task in self.data` with `self.data = [tasks[i] for i in order]` -/
def calculate (isZero : α → Bool) (peq : Params α → Params α → Bool) (eig : Eig α)
    (baseIso baseAdi : Params α → α) (tasks : List (PTask α)) :
    List Nat → Store α × Store α → Option (Store α × Store α)
  | [], st => some st
  | i :: rest, (iso, adi) =>
      match tasks[i]? with
      | none => none
      | some t =>
        match taskValue isZero peq eig baseIso baseAdi iso t with
        | none => none
        | some (vi, va) =>
            calculate isZero peq eig baseIso baseAdi tasks rest (iso ++ [(t.params, vi)], adi ++ [(t.params, va)])

/-- every task of `rest` is preceded (in `pre ++ rest`) by the sources of all edges into it -/
def respectsFrom (edges : List (Nat × Nat)) : List Nat → List Nat → Bool
  | _, [] => true
  | pre, i :: rest => (edges.all fun e => e.2 != i || pre.contains e.1) && respectsFrom edges (pre ++ [i]) rest

/-- `order` is a topological order of the graph: it lists every task index (and nothing else), as many entries as tasks,
and every edge `(a, b)` has `a` before `b` -/
def validOrder (n : Nat) (edges : List (Nat × Nat)) (order : List Nat) : Bool :=
  order.length == n && order.all (· < n) && (List.range n).all (fun i => order.contains i) &&
  respectsFrom edges [] order

/-- the denotational value of a task parameter, by depth: non-shear = the base value; shear = the shear solver applied
to the values of what it asks for. -/
def spec (isZero : α → Bool) (eig : Eig α) (base : Params α → α) : Nat → Params α → α
  | _, .nonshear ct a b => base (.nonshear ct a b)
  | 0, .shear _ _ => ((0 : Nat) : α)
  | n + 1, .shear s k =>
      shearValue isZero k (eig k).2
        (fun k' => spec isZero eig base n (create s k'))
        (fun k' => spec isZero eig base n (create (rotatedField (eig k).1 s) k'))

end Cij.Tasks
