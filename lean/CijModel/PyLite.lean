/-
  PyLite — a deep embedding of a small PURE subset of Python, with a fuelled big-step evaluator.

  Purpose: a Python module of `cij` that consists of pure functions over ints / strs / tuples / small dicts / NamedTuples
  is translated *as a whole* (by a plug-in of `tools/gen_tables.py`, from the `ast` of the working tree, on every run)
  into a `PyLite.Module` literal.  `PyLite.eval` runs that literal; theorems are stated about `PyLite.eval <generated module>`,
  so they are theorems about what the file says now.  First client: `cij/util/voigt.py` (`Generated.VoigtSrc.module`).
  The file is import-free (core Lean only) and executable (the compiled driver runs the same `eval`).

  ## What is implemented (everything else evaluates to `Result.unsupported`, NEVER to a default value)

  Values (`Val`): `None`, `bool`, `int` (unbounded), `str` (held as the list of its code points — cheap for the kernel; `codes` /
    `Str.toString` convert), `tuple`, `list` (immutable use only: results of `sorted`/`list`),
    `dict` (insertion-ordered association list; keys compared with `==`), `set` (membership only), NamedTuple instances
    (`record cls fields`; they ARE tuples for `==`, `<`, hashing, iteration, indexing, `len`, truthiness), Enum members
    (`enumv cls member`), class objects, builtin functions/types, bound builtin methods (`"".join`, `d.keys/values/items`),
    bound classmethods, closed lambdas, exception instances (`exc kind args`), materialised generators (`gen`) and dict
    views (`view`).
  Expressions (`Expr`): constants; names (locals → module globals → classes → builtins, else NameError); attribute access
    (record field, property, classmethod, Enum member, `.name` of a member, the bound builtin methods above); tuple / dict /
    set displays (tuple and call arguments may contain `*starred`); subscripts of dict / tuple / list / record / str by
    int; binary comparisons `== != < <= > >= in not in is is not` (`is` only against None or between bools);
    `and` / `or` (value-returning, short-circuit) / `not`; `+ - * << %` on ints/bools, `+` on str/tuple/list, `str % args`
    with `%d %s %%`; calls; generator expressions with ONE `for` clause, no `if`, target a name or a flat tuple of names,
    evaluated EAGERLY (sound where the generator is consumed completely and at once: `*args`, `"".join`, `dict`, `tuple`,
    `list`, `sorted` — the translator allows a generator expression only there); lambdas without free local
    variables; f-strings without conversion / format spec.
  Builtins: `int` (of int/bool/ASCII str, exact CPython grammar incl. whitespace, sign, underscores), `str`, `repr`
    (None/bool/int/ASCII str/tuple/list), `len`, `type`, `tuple`, `list`, `dict` (of an iterable of pairs), `bool`,
    `sorted(iterable, key=f)` (stable insertion sort using `<` only, keys computed first; for ≤ 2 elements these are exactly
    CPython's comparisons; for more, the result is CPython's whenever the keys are pairwise comparable, and both raise
    TypeError when some pair is not — the order in which comparisons happen is not modelled), exception classes
    `RuntimeError ValueError TypeError KeyError IndexError AttributeError NameError ZeroDivisionError RecursionError
    NotImplementedError Exception`.
  Statements (`Stmt`): assignment to a name or a flat tuple of names (unpacking), `if/elif/else`, `return`, `raise`,
    expression statement, `pass`.  A function that falls off its end returns None.
  Definitions: classes of kind NamedTuple (fields; `@classmethod`, `@property`, plain methods; positional parameters with
    constant defaults, `*args`) and Enum (members only); module-level assignments `NAME = expr`, evaluated once, in source
    order, by `Module.load` before the call (import-time semantics: an expression sees only the names bound above it).
  Exceptions: interpreter-raised exceptions carry their KIND only (`TypeError`, `ValueError`, `KeyError`, `IndexError`,
    `AttributeError`, `NameError`, `ZeroDivisionError`, `RecursionError`) with an empty argument list — their messages are not
    modelled; explicitly raised ones carry the evaluated arguments.  There is no `try`.
  Entry points: `PyLite.eval m fuel ⟨cls, fn⟩ args` (imports the module with `Module.load`, resolves `cls` — a class or a
    module-level alias of one —, calls the classmethod with the class / the property or method with `args.head` as `self`);
    `evalGlobal`.  Structure: non-recursive `step…` functions over the record `Rec` of "the evaluator with one unit of fuel
    less"; a mutual block of twelve one-line functions ties the knot by structural recursion on the fuel.
  Extending: a new construct is a new constructor of `Expr` / `Stmt` / `Val` plus its case in the matching `step…` function (and
    in tools/gens/_pylite.py); constructors never change meaning, so modules translated earlier keep their semantics.
  Fuel: `Fuel.depth` bounds the nesting depth of the evaluator (running out gives `outOfFuel`, which is never an answer);
    `Fuel.frames` is the Python recursion limit: a call of a module function / lambda when `frames` frames are already
    active raises `RecursionError`.  CPython's own limit (1000 by default) also counts the caller's frames, so the depth at
    which it fires differs; the KIND agrees for every unbounded recursion.

  ## NOT implemented (→ `unsupported`)
  floats, complex, bytes, slices, chained comparisons, augmented assignment, loops (`for`/`while`) as statements, `try`,
  `with`, `global`/`nonlocal`, nested `def`, closures over locals, keyword arguments (except `sorted(key=)`), `**kwargs`,
  comprehensions other than the generator expression above, iteration over a `set`, `==`/ordering of dict / set / view /
  generator / function values, `str()`/`repr()`/formatting of records, Enum members and every other value not listed,
  non-ASCII strings in `int()`/`repr()`, `%` conversions other than `%d %s %%`, attributes of builtin values other than
  the methods listed, identity (`is`) between values other than None / bools, inheritance, decorators other than
  `@classmethod` / `@property`, mutation of any kind, the 4300-digit limit of `int(str)`/`str(int)`.
-/

namespace PyLite

/-! ### Syntax -/

inductive Const where
  | none
  | bool (b : Bool)
  | int (n : Int)
  | str (s : String)

inductive CmpOp where
  | eq | ne | lt | le | gt | ge | in_ | notIn | is_ | isNot

inductive BinOp where
  | add | sub | mul | shl | mod

inductive BoolOp where
  | and | or

/-- assignment / loop target: a name or a flat tuple of names -/
inductive Target where
  | name (x : String)
  | tuple (xs : List String)

inductive Expr where
  | const (c : Const)
  | name (x : String)
  | attr (e : Expr) (a : String)
  | tuple (es : List Expr)                         -- elements may be `starred`
  | dict (ks : List Expr) (vs : List Expr)
  | set (es : List Expr)
  | subscript (e : Expr) (i : Expr)
  | cmp (op : CmpOp) (l : Expr) (r : Expr)
  | boolop (op : BoolOp) (es : List Expr)
  | not (e : Expr)
  | binop (op : BinOp) (l : Expr) (r : Expr)
  | call (f : Expr) (args : List Expr) (kw : List (String × Expr))   -- args may be `starred`
  | starred (e : Expr)
  | genexp (elt : Expr) (target : Target) (iter : Expr)
  | lambda (params : List String) (body : Expr)
  | fstring (parts : List Expr)

inductive Stmt where
  | assign (t : Target) (e : Expr)
  | ifElse (c : Expr) (thn : List Stmt) (els : List Stmt)
  | ret (e : Option Expr)
  | raise (e : Expr)
  | expr (e : Expr)
  | pass

structure Param where
  name : String
  default : Option Const := none

inductive FunKind where
  | classmethod | property | method

structure FunDef where
  name : String
  kind : FunKind
  /-- all positional parameters, INCLUDING the first one (`cls` / `self`) -/
  params : List Param
  vararg : Option String := none
  body : List Stmt

inductive ClassKind where
  | namedTuple (fields : List String)
  | enum (members : List String)

structure ClassDef where
  name : String
  kind : ClassKind
  funs : List FunDef := []

structure Module where
  /-- module-level `NAME = expr`, in source order -/
  globals : List (String × Expr)
  classes : List ClassDef

/-! ### Values and results -/

inductive Val where
  | none
  | bool (b : Bool)
  | int (n : Int)
  | str (s : List Nat)                             -- the code points (kernel-cheap; `codes` / `Str.toString` convert)
  | tuple (xs : List Val)
  | list (xs : List Val)
  | dict (ks : List Val) (vs : List Val)
  | set (xs : List Val)
  | gen (xs : List Val)
  | view (xs : List Val)
  | record (cls : String) (fields : List Val)
  | enumv (cls : String) (member : String)
  | cls (name : String)
  | builtin (name : String)
  | bound (self : Val) (meth : String)
  | classmeth (cls : String) (fn : String)
  | lambda (params : List String) (body : Expr)
  | exc (kind : String) (args : List Val)

inductive Result (α : Type) where
  | ok (a : α)
  | exc (kind : String) (args : List Val)
  | outOfFuel
  | unsupported (why : String)

namespace Result
@[inline] def bind {α β} (r : Result α) (f : α → Result β) : Result β :=
  match r with
  | .ok a => f a
  | .exc k a => .exc k a
  | .outOfFuel => .outOfFuel
  | .unsupported w => .unsupported w
instance : Monad Result where
  pure := .ok
  bind := Result.bind
end Result

/-- interpreter-raised exception (kind only) -/
@[inline] def raiseK {α} (kind : String) : Result α := .exc kind []

abbrev Env := List (String × Val)

structure Fuel where
  /-- evaluator nesting depth -/
  depth : Nat
  /-- Python recursion limit (active frames of module functions / lambdas) -/
  frames : Nat

structure FunName where
  cls : String
  fn : String

/-- a Python `str` value: its code points -/
abbrev Str := List Nat

/-- code points of a Lean string -/
def codes (s : String) : Str := s.toList.map Char.toNat

def Str.toString (cs : Str) : String := String.ofList (cs.map Char.ofNat)

/-- decimal digits of a natural number, most significant first (`fuel` ≥ number of digits) -/
def natCodesAux : Nat → Nat → Str → Str
  | 0, _, acc => acc
  | fuel + 1, n, acc => if n < 10 then (48 + n) :: acc else natCodesAux fuel (n / 10) ((48 + n % 10) :: acc)

def natCodes (n : Nat) : Str := natCodesAux (n + 1) n []

/-- `str(n)` for an int -/
def intCodes : Int → Str
  | .ofNat n => natCodes n
  | .negSucc n => 45 :: natCodes (n + 1)

def constVal : Const → Val
  | .none => .none
  | .bool b => .bool b
  | .int n => .int n
  | .str s => .str (codes s)

/-! ### Pure helpers on values -/

/-- `bool`/`int` as a number -/
def numOf : Val → Option Int
  | .int n => some n
  | .bool b => some (if b then 1 else 0)
  | _ => Option.none

/-- values whose `==` against a value of another kind is simply False -/
def Val.plain : Val → Bool
  | .none | .bool _ | .int _ | .str _ | .tuple _ | .list _ | .record _ _ | .enumv _ _ | .cls _ | .builtin _ => true
  | _ => false

/-- `==` on non-container values of kinds where it is defined; containers are handled by `pyEq` -/
def eqAtom (a b : Val) : Result Bool :=
  if !(a.plain && b.plain) then .unsupported "== on a value outside the modelled kinds" else
  match numOf a, numOf b with
  | some x, some y => .ok (x == y)
  | _, _ =>
    match a, b with
    | .none, .none => .ok true
    | .str s, .str t => .ok (s == t)
    | .enumv c m, .enumv c' m' => .ok (c == c' && m == m')
    | .cls c, .cls c' => .ok (c == c')
    | .builtin c, .builtin c' => .ok (c == c')
    | _, _ => .ok false

mutual
/-- Python `a == b` -/
def pyEq : Val → Val → Result Bool
  | .tuple xs, .tuple ys => pyEqList xs ys
  | .tuple xs, .record _ ys => pyEqList xs ys
  | .record _ xs, .tuple ys => pyEqList xs ys
  | .record _ xs, .record _ ys => pyEqList xs ys
  | .list xs, .list ys => pyEqList xs ys
  | a, b => eqAtom a b
/-- element-wise until the first difference, then the lengths (CPython's `tuplerichcompare`) -/
def pyEqList : List Val → List Val → Result Bool
  | [], [] => .ok true
  | x :: xs, y :: ys =>
    match pyEq x y with
    | .ok true => pyEqList xs ys
    | r => r
  | _, _ => .ok false
end

inductive OrdOp where
  | lt | le | gt | ge

/-- `a < b` on ints, by cases on the constructors (so that it also reduces on partly symbolic arguments; `intLt_iff` in
Lemmas/PyLite.lean proves it is `<`) -/
def intLt : Int → Int → Bool
  | .ofNat a, .ofNat b => Nat.blt a b
  | .ofNat _, .negSucc _ => false
  | .negSucc _, .ofNat _ => true
  | .negSucc a, .negSucc b => Nat.blt b a

def OrdOp.onInt : OrdOp → Int → Int → Bool
  | .lt, a, b => intLt a b
  | .le, a, b => !intLt b a
  | .gt, a, b => intLt b a
  | .ge, a, b => !intLt a b

def OrdOp.onLen : OrdOp → Nat → Nat → Bool
  | .lt, a, b => decide (a < b)
  | .le, a, b => decide (a ≤ b)
  | .gt, a, b => decide (b < a)
  | .ge, a, b => decide (b ≤ a)

/-- lexicographic comparison of code points -/
def cmpCodes : List Nat → List Nat → Ordering
  | [], [] => .eq
  | [], _ :: _ => .lt
  | _ :: _, [] => .gt
  | x :: xs, y :: ys => if x < y then .lt else if y < x then .gt else cmpCodes xs ys

def OrdOp.onOrdering : OrdOp → Ordering → Bool
  | .lt, o => o == .lt
  | .le, o => o != .gt
  | .gt, o => o == .gt
  | .ge, o => o != .lt

/-- ordering of non-container values -/
def ordAtom (op : OrdOp) (a b : Val) : Result Bool :=
  if !(a.plain && b.plain) then .unsupported "ordering on a value outside the modelled kinds" else
  match numOf a, numOf b with
  | some x, some y => .ok (op.onInt x y)
  | _, _ =>
    match a, b with
    | .str s, .str t => .ok (op.onOrdering (cmpCodes s t))
    | _, _ => raiseK "TypeError"

mutual
/-- Python `a < b`, `a <= b`, `a > b`, `a >= b` -/
def pyOrd (op : OrdOp) : Val → Val → Result Bool
  | .tuple xs, .tuple ys => pyOrdList op xs ys
  | .tuple xs, .record _ ys => pyOrdList op xs ys
  | .record _ xs, .tuple ys => pyOrdList op xs ys
  | .record _ xs, .record _ ys => pyOrdList op xs ys
  | .list xs, .list ys => pyOrdList op xs ys
  | a, b => ordAtom op a b
/-- first differing position decides, else the lengths -/
def pyOrdList (op : OrdOp) : List Val → List Val → Result Bool
  | [], [] => .ok (op.onLen 0 0)
  | [], _ :: _ => .ok (op.onLen 0 1)
  | _ :: _, [] => .ok (op.onLen 1 0)
  | x :: xs, y :: ys =>
    match pyEq x y with
    | .ok true => pyOrdList op xs ys
    | .ok false => pyOrd op x y
    | r => r
end

mutual
/-- `hash(v)` succeeds (`ok true`), raises TypeError (`ok false`), or is outside the model -/
def hashable : Val → Result Bool
  | .none | .bool _ | .int _ | .str _ | .enumv _ _ | .cls _ | .builtin _ => .ok true
  | .tuple xs => hashableAll xs
  | .record _ xs => hashableAll xs
  | .list _ | .dict _ _ | .set _ => .ok false
  | _ => .unsupported "hash of a value outside the modelled kinds"
def hashableAll : List Val → Result Bool
  | [] => .ok true
  | x :: xs =>
    match hashable x with
    | .ok true => hashableAll xs
    | r => r
end

/-- raise TypeError unless hashable -/
def needHashable (v : Val) : Result Unit :=
  match hashable v with
  | .ok true => .ok ()
  | .ok false => raiseK "TypeError"
  | .exc k a => .exc k a
  | .outOfFuel => .outOfFuel
  | .unsupported w => .unsupported w

/-- `x in xs` for a sequence: first `==` hit -/
def memSeq (x : Val) : List Val → Result Bool
  | [] => .ok false
  | y :: ys =>
    match pyEq y x with
    | .ok true => .ok true
    | .ok false => memSeq x ys
    | r => r

/-- index of the first key equal to `k` -/
def findKey (k : Val) : List Val → Nat → Result (Option Nat)
  | [], _ => .ok Option.none
  | y :: ys, i =>
    match pyEq y k with
    | .ok true => .ok (some i)
    | .ok false => findKey k ys (i + 1)
    | .exc kd a => .exc kd a
    | .outOfFuel => .outOfFuel
    | .unsupported w => .unsupported w

/-- `d[k] = v` on the association list: an existing key keeps its position, its value is replaced -/
def dictInsert (ks vs : List Val) (k v : Val) : Result (List Val × List Val) := do
  needHashable k
  match ← findKey k ks 0 with
  | some i => pure (ks, vs.set i v)
  | Option.none => pure (ks ++ [k], vs ++ [v])

def dictOfPairs : List Val → List Val → List Val → List Val → Result Val
  | ks, vs, [], _ => .ok (.dict ks vs)
  | ks, vs, k :: kr, v :: vr => do
      let (ks', vs') ← dictInsert ks vs k v
      dictOfPairs ks' vs' kr vr
  | _, _, _ :: _, [] => .unsupported "dict display with unequal key/value lists"

def setOfList : List Val → List Val → Result Val
  | acc, [] => .ok (.set acc)
  | acc, x :: xs => do
      needHashable x
      if ← memSeq x acc then setOfList acc xs else setOfList (acc ++ [x]) xs

/-- the items produced by iterating a value -/
def iterOf : Val → Result (List Val)
  | .str s => .ok (s.map fun c => .str [c])
  | .tuple xs | .list xs | .gen xs | .view xs | .record _ xs => .ok xs
  | .dict ks _ => .ok ks
  | .none | .bool _ | .int _ => raiseK "TypeError"
  | .set _ => .unsupported "iteration over a set (order not modelled)"
  | _ => .unsupported "iteration over a value outside the modelled kinds"

def truthy : Val → Bool
  | .none => false
  | .bool b => b
  | .int n => n != 0
  | .str s => !s.isEmpty
  | .tuple xs | .list xs | .set xs | .view xs | .record _ xs => !xs.isEmpty
  | .dict ks _ => !ks.isEmpty
  | _ => true

def lenOf : Val → Result Nat
  | .str s => .ok s.length
  | .tuple xs | .list xs | .set xs | .view xs | .record _ xs => .ok xs.length
  | .dict ks _ => .ok ks.length
  | .none | .bool _ | .int _ | .gen _ => raiseK "TypeError"
  | _ => .unsupported "len of a value outside the modelled kinds"

def typeOf : Val → Result Val
  | .none => .ok (.builtin "NoneType")
  | .bool _ => .ok (.builtin "bool")
  | .int _ => .ok (.builtin "int")
  | .str _ => .ok (.builtin "str")
  | .tuple _ => .ok (.builtin "tuple")
  | .list _ => .ok (.builtin "list")
  | .dict _ _ => .ok (.builtin "dict")
  | .set _ => .ok (.builtin "set")
  | .record c _ => .ok (.cls c)
  | .enumv c _ => .ok (.cls c)
  | _ => .unsupported "type() of a value outside the modelled kinds"

/-! #### `str`, `repr`, `%`-formatting -/

def isAscii (s : Str) : Bool := s.all fun c => c < 128

def hexDigit (n : Nat) : Nat := if n < 10 then 48 + n else 87 + n

/-- `repr` of an ASCII `str` (CPython's `unicode_repr`): single quotes unless the string contains `'` and no `"` -/
def reprStr (cs : Str) : Result Str :=
  if !isAscii cs then .unsupported "repr of a non-ASCII str" else
  let q : Nat := if cs.contains 39 && !cs.contains 34 then 34 else 39
  let esc (c : Nat) : Str :=
    if c == q || c == 92 then [92, c]
    else if c == 9 then [92, 116]
    else if c == 10 then [92, 110]
    else if c == 13 then [92, 114]
    else if c < 32 || c == 127 then [92, 120, hexDigit (c / 16), hexDigit (c % 16)]
    else [c]
  .ok (q :: (cs.flatMap esc) ++ [q])

/-- `sep.join(parts)` on code points -/
def joinCodes (sep : Str) : List Str → Str
  | [] => []
  | [x] => x
  | x :: xs => x ++ sep ++ joinCodes sep xs

mutual
/-- `repr(v)` -/
def reprOf : Val → Result Str
  | .none => .ok (codes "None")
  | .bool b => .ok (if b then codes "True" else codes "False")
  | .int n => .ok (intCodes n)
  | .str s => reprStr s
  | .tuple [x] => do let r ← reprOf x; pure (40 :: r ++ [44, 41])
  | .tuple xs => do let rs ← reprAll xs; pure (40 :: joinCodes [44, 32] rs ++ [41])
  | .list xs => do let rs ← reprAll xs; pure (91 :: joinCodes [44, 32] rs ++ [93])
  | _ => .unsupported "repr of a value outside the modelled kinds"
def reprAll : List Val → Result (List Str)
  | [] => .ok []
  | x :: xs => do let r ← reprOf x; let rs ← reprAll xs; pure (r :: rs)
end

/-- `str(v)` (= `format(v, "")`) -/
def strOf : Val → Result Str
  | .str s => .ok s
  | v => reprOf v

/-- `fmt % args` for the conversions `%d` (100), `%s` (115), `%%` (37) -/
def percentFormat : Str → List Val → Result Str
  | [], [] => .ok []
  | [], _ :: _ => raiseK "TypeError"                      -- not all arguments converted
  | 37 :: 37 :: rest, args => do let r ← percentFormat rest args; pure (37 :: r)
  | 37 :: 100 :: rest, args =>
      match args with
      | [] => raiseK "TypeError"                           -- not enough arguments
      | a :: as =>
        match numOf a with
        | some n => do let r ← percentFormat rest as; pure (intCodes n ++ r)
        | Option.none =>
          match a with
          | .none | .str _ | .tuple _ | .list _ => raiseK "TypeError"
          | _ => .unsupported "%d of a value outside the modelled kinds"
  | 37 :: 115 :: rest, args =>
      match args with
      | [] => raiseK "TypeError"
      | a :: as => do let s ← strOf a; let r ← percentFormat rest as; pure (s ++ r)
  | 37 :: _, _ => .unsupported "% conversion other than %d %s %%"
  | c :: rest, args => do let r ← percentFormat rest args; pure (c :: r)

/-! #### `int(str)` — CPython's grammar for base 10 on ASCII strings -/

def isSpaceCode (n : Nat) : Bool := (9 ≤ n && n ≤ 13) || (28 ≤ n && n ≤ 32)

def digitVal (c : Nat) : Option Nat := if 48 ≤ c && c ≤ 57 then some (c - 48) else Option.none

/-- digits with single underscores (95) between them; `prev` = the previous char was a digit -/
def parseDigits : Str → Bool → Nat → Option Nat
  | [], prev, acc => if prev then some acc else Option.none
  | c :: cs, prev, acc =>
    match digitVal c with
    | some d => parseDigits cs true (10 * acc + d)
    | Option.none => if c == 95 && prev then (match cs with | [] => Option.none | _ => parseDigits cs false acc) else Option.none

def intOfStr (s : Str) : Result Int :=
  if !isAscii s then .unsupported "int() of a non-ASCII str" else
  let cs := s.dropWhile isSpaceCode
  let cs := (cs.reverse.dropWhile isSpaceCode).reverse
  let (neg, ds) : Bool × Str := match cs with
    | 45 :: r => (true, r)
    | 43 :: r => (false, r)
    | r => (false, r)
  match ds with
  | [] => raiseK "ValueError"
  | d :: _ =>
    if (digitVal d).isNone then raiseK "ValueError" else
    match parseDigits ds false 0 with
    | some n => .ok (if neg then -(Int.ofNat n) else Int.ofNat n)
    | Option.none => raiseK "ValueError"

def toInt : Val → Result Int
  | .int n => .ok n
  | .bool b => .ok (if b then 1 else 0)
  | .str s => intOfStr s
  | .none | .tuple _ | .list _ | .dict _ _ | .set _ | .record _ _ => raiseK "TypeError"
  | _ => .unsupported "int() of a value outside the modelled kinds"

/-! #### operators -/

def pow2 (n : Nat) : Int := Int.ofNat (2 ^ n)

def binop (op : BinOp) (a b : Val) : Result Val :=
  match numOf a, numOf b with
  | some x, some y =>
    match op with
    | .add => .ok (.int (x + y))
    | .sub => .ok (.int (x - y))
    | .mul => .ok (.int (x * y))
    | .shl => if y < 0 then raiseK "ValueError" else .ok (.int (x * pow2 y.toNat))
    | .mod => if y == 0 then raiseK "ZeroDivisionError" else .ok (.int (Int.fmod x y))
  | _, _ =>
    match op, a, b with
    | .add, .str s, .str t => .ok (.str (s ++ t))
    | .add, .tuple xs, .tuple ys => .ok (.tuple (xs ++ ys))
    | .add, .list xs, .list ys => .ok (.list (xs ++ ys))
    | .mod, .str f, .tuple args => do let r ← percentFormat f args; pure (.str r)
    | .mod, .str _, .record _ _ => .unsupported "str % NamedTuple"
    | .mod, .str _, .dict _ _ => .unsupported "str % dict"
    | .mod, .str f, x => do let r ← percentFormat f [x]; pure (.str r)
    | _, _, _ =>
      let basic (v : Val) : Bool := match v with
        | .none | .bool _ | .int _ | .str _ | .tuple _ | .list _ => true
        | _ => false
      match op with
      | .mul => .unsupported "sequence repetition"
      | _ => if basic a && basic b then raiseK "TypeError" else .unsupported "operator on a value outside the modelled kinds"

def isInfixChars (p : Str) : Str → Bool
  | [] => p.isEmpty
  | c :: cs => p.isPrefixOf (c :: cs) || isInfixChars p cs

/-- `x in c` -/
def contains (c x : Val) : Result Bool :=
  match c with
  | .tuple xs | .list xs | .view xs | .record _ xs => memSeq x xs
  | .dict ks _ => do needHashable x; memSeq x ks
  | .set xs => do needHashable x; memSeq x xs
  | .str s =>
    match x with
    | .str t => .ok (isInfixChars t s)
    | .none | .bool _ | .int _ | .tuple _ | .list _ => raiseK "TypeError"
    | _ => .unsupported "in str of a value outside the modelled kinds"
  | .none | .bool _ | .int _ => raiseK "TypeError"
  | _ => .unsupported "membership in a value outside the modelled kinds"

/-- a Boolean test as a Python value, optionally negated -/
def boolRes (neg : Bool) (r : Result Bool) : Result Val :=
  match r with
  | .ok b => .ok (.bool (b != neg))
  | .exc k a => .exc k a
  | .outOfFuel => .outOfFuel
  | .unsupported w => .unsupported w

/-- `a is b` (negated for `is not`): only against None or between bools -/
def identity (neg : Bool) (a b : Val) : Result Val :=
  match a, b with
  | .none, .none => .ok (.bool (!neg))
  | .none, _ | _, .none => .ok (.bool neg)
  | .bool x, .bool y => .ok (.bool ((x == y) != neg))
  | _, _ => .unsupported "identity between values other than None / bools"

def compare (op : CmpOp) (a b : Val) : Result Val :=
  match op with
  | .eq => boolRes false (pyEq a b)
  | .ne => boolRes true (pyEq a b)
  | .lt => boolRes false (pyOrd .lt a b)
  | .le => boolRes false (pyOrd .le a b)
  | .gt => boolRes false (pyOrd .gt a b)
  | .ge => boolRes false (pyOrd .ge a b)
  | .in_ => boolRes false (contains b a)
  | .notIn => boolRes true (contains b a)
  | .is_ => identity false a b
  | .isNot => identity true a b

def seqIndex (xs : List Val) (i : Int) : Result Val :=
  let n : Int := Int.ofNat xs.length
  let j := if i < 0 then i + n else i
  if j < 0 || j ≥ n then raiseK "IndexError" else
  match xs[j.toNat]? with
  | some v => .ok v
  | Option.none => raiseK "IndexError"

def subscr (c i : Val) : Result Val :=
  match c with
  | .dict ks vs => do
      needHashable i
      match ← findKey i ks 0 with
      | some n => (match vs[n]? with | some v => pure v | Option.none => .unsupported "corrupt dict")
      | Option.none => raiseK "KeyError"
  | .tuple xs | .list xs | .record _ xs =>
      (match numOf i with
       | some n => seqIndex xs n
       | Option.none => match i with
         | .none | .str _ | .tuple _ | .list _ => raiseK "TypeError"
         | _ => .unsupported "subscript by a value outside the modelled kinds")
  | .str s =>
      (match numOf i with
       | some n => seqIndex (s.map fun ch => .str [ch]) n
       | Option.none => match i with
         | .none | .str _ | .tuple _ | .list _ => raiseK "TypeError"
         | _ => .unsupported "subscript by a value outside the modelled kinds")
  | .none | .bool _ | .int _ => raiseK "TypeError"
  | _ => .unsupported "subscript of a value outside the modelled kinds"

/-- stable insertion of `(k, x)` behind every element whose key is not greater (uses `<` only, like `list.sort`) -/
def insertSorted (k x : Val) : List (Val × Val) → Result (List (Val × Val))
  | [] => .ok [(k, x)]
  | (k', y) :: rest =>
    match pyOrd .lt k k' with
    | .ok true => .ok ((k, x) :: (k', y) :: rest)
    | .ok false => do let r ← insertSorted k x rest; pure ((k', y) :: r)
    | .exc kd a => .exc kd a
    | .outOfFuel => .outOfFuel
    | .unsupported w => .unsupported w

def sortByKeys : List Val → List Val → List (Val × Val) → Result (List Val)
  | k :: ks, x :: xs, acc => do let acc' ← insertSorted k x acc; sortByKeys ks xs acc'
  | _, _, acc => .ok (acc.map (·.2))

/-- an iterable of 2-sequences → dict -/
def dictOfItems : List Val → List Val → List Val → Result Val
  | ks, vs, [] => .ok (.dict ks vs)
  | ks, vs, it :: rest => do
      match ← iterOf it with
      | [k, v] => do let (ks', vs') ← dictInsert ks vs k v; dictOfItems ks' vs' rest
      | _ => raiseK "ValueError"

def excClasses : List String :=
  ["RuntimeError", "ValueError", "TypeError", "KeyError", "IndexError", "AttributeError", "NameError",
   "ZeroDivisionError", "RecursionError", "NotImplementedError", "Exception"]

def builtinNames : List String :=
  ["int", "str", "repr", "len", "type", "tuple", "list", "dict", "bool", "sorted", "NoneType", "set"] ++ excClasses

def biInt : List Val → Result Val
  | [] => .ok (.int 0)
  | [x] => do let n ← toInt x; pure (.int n)
  | _ => .unsupported "int() with a base"
def biStr : List Val → Result Val
  | [] => .ok (.str [])
  | [x] => do let s ← strOf x; pure (.str s)
  | _ => .unsupported "str() with encoding"
def biRepr : List Val → Result Val
  | [x] => do let s ← reprOf x; pure (.str s)
  | _ => raiseK "TypeError"
def biLen : List Val → Result Val
  | [x] => do let n ← lenOf x; pure (.int (Int.ofNat n))
  | _ => raiseK "TypeError"
def biType : List Val → Result Val
  | [x] => typeOf x
  | _ => .unsupported "type() with three arguments"
def biTuple : List Val → Result Val
  | [] => .ok (.tuple [])
  | [x] => do let xs ← iterOf x; pure (.tuple xs)
  | _ => raiseK "TypeError"
def biList : List Val → Result Val
  | [] => .ok (.list [])
  | [x] => do let xs ← iterOf x; pure (.list xs)
  | _ => raiseK "TypeError"
def biDict : List Val → Result Val
  | [] => .ok (.dict [] [])
  | [.dict ks vs] => .ok (.dict ks vs)
  | [x] => do let xs ← iterOf x; dictOfItems [] [] xs
  | _ => raiseK "TypeError"
def biBool : List Val → Result Val
  | [] => .ok (.bool false)
  | [x] => .ok (.bool (truthy x))
  | _ => raiseK "TypeError"

/-- builtins that need no call-back into the evaluator (`sorted` is in `stepCallVal`) -/
def callBuiltin (b : String) (args : List Val) : Result Val :=
  if b == "int" then biInt args
  else if b == "str" then biStr args
  else if b == "len" then biLen args
  else if b == "type" then biType args
  else if b == "tuple" then biTuple args
  else if b == "dict" then biDict args
  else if b == "list" then biList args
  else if b == "repr" then biRepr args
  else if b == "bool" then biBool args
  else if excClasses.contains b then .ok (.exc b args)
  else .unsupported ("builtin " ++ b)

/-- methods of builtin values that can be bound -/
def boundable (self : Val) (meth : String) : Bool :=
  match self with
  | .str _ => meth == "join"
  | .dict _ _ => meth == "keys" || meth == "values" || meth == "items"
  | _ => false

def joinStrs : List Val → Result (List Str)
  | [] => .ok []
  | .str s :: xs => do let r ← joinStrs xs; pure (s :: r)
  | v :: _ =>
    match v with
    | .none | .bool _ | .int _ | .tuple _ | .list _ | .record _ _ => raiseK "TypeError"
    | _ => .unsupported "join of a value outside the modelled kinds"

def callBound (self : Val) (meth : String) (args : List Val) : Result Val :=
  match self, meth, args with
  | .str sep, "join", [x] => do
      let xs ← iterOf x
      let ss ← joinStrs xs
      pure (.str (joinCodes sep ss))
  | .dict ks _, "keys", [] => .ok (.view ks)
  | .dict _ vs, "values", [] => .ok (.view vs)
  | .dict ks vs, "items", [] => .ok (.view ((ks.zip vs).map fun (k, v) => .tuple [k, v]))
  | .str _, "join", _ | .dict _ _, "keys", _ | .dict _ _, "values", _ | .dict _ _, "items", _ => raiseK "TypeError"
  | _, _, _ => .unsupported ("method " ++ meth)

/-- bind positional arguments to parameters (constant defaults, optional `*vararg`) -/
def bindParams : List Param → Option String → List Val → Result Env
  | [], Option.none, [] => .ok []
  | [], Option.none, _ :: _ => raiseK "TypeError"
  | [], some va, rest => .ok [(va, .tuple rest)]
  | p :: ps, va, a :: as => do let e ← bindParams ps va as; pure ((p.name, a) :: e)
  | p :: ps, va, [] =>
    match p.default with
    | some c => do let e ← bindParams ps va []; pure ((p.name, constVal c) :: e)
    | Option.none => raiseK "TypeError"

def bindNames : List String → List Val → Result Env
  | [], [] => .ok []
  | x :: xs, v :: vs => do let e ← bindNames xs vs; pure ((x, v) :: e)
  | _, _ => raiseK "ValueError"          -- too many / not enough values to unpack

/-- assignment to a target; unpacking iterates the value -/
def bindTarget (t : Target) (v : Val) (env : Env) : Result Env :=
  match t with
  | .name x => .ok ((x, v) :: env)
  | .tuple xs => do
      let items ← iterOf v
      let e ← bindNames xs items
      pure (e.reverse ++ env)

def Module.findClass (m : Module) (c : String) : Option ClassDef := m.classes.find? (·.name == c)

def ClassDef.findFun (c : ClassDef) (f : String) : Option FunDef := c.funs.find? (·.name == f)

def indexOfName (x : String) : List String → Nat → Option Nat
  | [], _ => Option.none
  | y :: ys, i => if y == x then some i else indexOfName x ys (i + 1)

/-- what `raise v` raises -/
def raiseVal {α} (v : Val) : Result α :=
  match v with
  | .exc k a => .exc k a
  | .builtin b => if excClasses.contains b then .exc b [] else raiseK "TypeError"
  | .none | .bool _ | .int _ | .str _ | .tuple _ | .list _ => raiseK "TypeError"
  | _ => .unsupported "raise of a value outside the modelled kinds"

inductive Flow where
  | next (env : Env)
  | ret (v : Val)

def hasStarred (es : List Expr) : Bool := es.any fun e => match e with | .starred _ => true | _ => false

/-! ### The evaluator

Open recursion: every `step…` function below is NON-recursive and receives the evaluator one fuel unit down as the record
`Rec`; the mutual block at the end only ties the knot (`evalX 0 = outOfFuel`, `evalX (fuel+1) = stepX ⟨evalX fuel, …⟩`), each
function recursing structurally on the fuel.  The step functions are deliberately cut into small pieces: kernel evaluation
(`decide +kernel`) pays for the size of every body it unfolds. -/

/-- the evaluator with one unit of fuel less; the first `Nat` of each field is the call depth -/
structure Rec where
  expr : Nat → Env → Expr → Result Val
  list : Nat → Env → List Expr → Result (List Val)
  dict : Nat → Env → List Expr → List Expr → Result (List Val × List Val)
  kw : Nat → Env → List (String × Expr) → Result (List (String × Val))
  bool : Nat → Env → BoolOp → List Expr → Result Val
  fparts : Nat → Env → List Expr → Result (List Str)
  gen : Nat → Env → Expr → Target → List Val → Result (List Val)
  mapCall : Nat → Val → List Val → Result (List Val)
  stmts : Nat → Env → List Stmt → Result Flow
  callFun : Nat → FunDef → Val → List Val → Result Val
  callVal : Nat → Val → List Val → List (String × Val) → Result Val
  getAttr : Nat → Val → String → Result Val

section
variable (m : Module) (lim : Nat) (genv : Env)

/-- a name: locals, then module globals, then classes, then builtins -/
def lookupName (env : Env) (x : String) : Result Val :=
  match env.lookup x with
  | some v => .ok v
  | Option.none =>
    match genv.lookup x with
    | some gv => .ok gv
    | Option.none =>
      if (m.findClass x).isSome then .ok (.cls x)
      else if builtinNames.contains x then .ok (.builtin x)
      else raiseK "NameError"

def stepDictDisplay (r : Rec) (d : Nat) (env : Env) (ks vs : List Expr) : Result Val :=
  if hasStarred ks || hasStarred vs then .unsupported "starred in dict display" else do
  let (kvs, vvs) ← r.dict d env ks vs
  dictOfPairs [] [] kvs vvs

def stepCall (r : Rec) (d : Nat) (env : Env) (f : Expr) (args : List Expr) (kw : List (String × Expr)) : Result Val := do
  let fv ← r.expr d env f
  let avs ← r.list d env args
  let kvs ← r.kw d env kw
  r.callVal d fv avs kvs

def stepGenexp (r : Rec) (d : Nat) (env : Env) (elt : Expr) (t : Target) (it : Expr) : Result Val := do
  let iv ← r.expr d env it
  let items ← iterOf iv
  let xs ← r.gen d env elt t items
  pure (.gen xs)

def stepBin (r : Rec) (d : Nat) (env : Env) (f : Val → Val → Result Val) (l rt : Expr) : Result Val := do
  let a ← r.expr d env l
  let b ← r.expr d env rt
  f a b

def stepAttr (r : Rec) (d : Nat) (env : Env) (e : Expr) (a : String) : Result Val := do
  let v ← r.expr d env e
  r.getAttr d v a

def stepTuple (r : Rec) (d : Nat) (env : Env) (es : List Expr) : Result Val := do
  let vs ← r.list d env es
  pure (.tuple vs)

def stepSet (r : Rec) (d : Nat) (env : Env) (es : List Expr) : Result Val := do
  let vs ← r.list d env es
  setOfList [] vs

def stepNot (r : Rec) (d : Nat) (env : Env) (e : Expr) : Result Val := do
  let v ← r.expr d env e
  pure (.bool (!truthy v))

def stepFString (r : Rec) (d : Nat) (env : Env) (parts : List Expr) : Result Val := do
  let ss ← r.fparts d env parts
  pure (.str ss.flatten)

/-- evaluate an expression at call depth `d` (a pure dispatcher: one small helper per constructor) -/
def stepExpr (r : Rec) (d : Nat) (env : Env) (e : Expr) : Result Val :=
  match e with
  | .const c => .ok (constVal c)
  | .name x => lookupName m genv env x
  | .attr e a => stepAttr r d env e a
  | .tuple es => stepTuple r d env es
  | .dict ks vs => stepDictDisplay r d env ks vs
  | .set es => stepSet r d env es
  | .subscript e i => stepBin r d env subscr e i
  | .cmp op l rt => stepBin r d env (compare op) l rt
  | .boolop op es => r.bool d env op es
  | .not e => stepNot r d env e
  | .binop op l rt => stepBin r d env (binop op) l rt
  | .call f args kw => stepCall r d env f args kw
  | .starred _ => .unsupported "starred expression outside a call / tuple display"
  | .genexp elt t it => stepGenexp r d env elt t it
  | .lambda ps body => .ok (.lambda ps body)
  | .fstring parts => stepFString r d env parts

/-- a list of expressions, `*starred` ones spliced in -/
def stepList (r : Rec) (d : Nat) (env : Env) : List Expr → Result (List Val)
  | [] => .ok []
  | .starred e :: es => do
      let v ← r.expr d env e
      let xs ← iterOf v
      let rest ← r.list d env es
      pure (xs ++ rest)
  | e :: es => do
      let v ← r.expr d env e
      let rest ← r.list d env es
      pure (v :: rest)

/-- dict display: key, value, key, value, … in source order -/
def stepDict (r : Rec) (d : Nat) (env : Env) : List Expr → List Expr → Result (List Val × List Val)
  | [], [] => .ok ([], [])
  | k :: ks, v :: vs => do
      let kv ← r.expr d env k
      let vv ← r.expr d env v
      let (kr, vr) ← r.dict d env ks vs
      pure (kv :: kr, vv :: vr)
  | _, _ => .unsupported "dict display with unequal key/value lists"

def stepKw (r : Rec) (d : Nat) (env : Env) : List (String × Expr) → Result (List (String × Val))
  | [] => .ok []
  | (k, e) :: rest => do
      let v ← r.expr d env e
      let rs ← r.kw d env rest
      pure ((k, v) :: rs)

/-- `a and b and …` / `a or b or …`: the value of the deciding operand -/
def stepBool (r : Rec) (d : Nat) (env : Env) (op : BoolOp) : List Expr → Result Val
  | [] => .unsupported "empty boolean operation"
  | [e] => r.expr d env e
  | e :: es => do
      let v ← r.expr d env e
      match op with
      | .and => if truthy v then r.bool d env op es else pure v
      | .or => if truthy v then pure v else r.bool d env op es

def stepFParts (r : Rec) (d : Nat) (env : Env) : List Expr → Result (List Str)
  | [] => .ok []
  | .const (.str s) :: ps => do
      let rs ← r.fparts d env ps
      pure (codes s :: rs)
  | e :: ps => do
      let v ← r.expr d env e
      let s ← strOf v
      let rs ← r.fparts d env ps
      pure (s :: rs)

/-- the elements of a generator expression, eagerly, in iteration order -/
def stepGen (r : Rec) (d : Nat) (env : Env) (elt : Expr) (t : Target) : List Val → Result (List Val)
  | [] => .ok []
  | x :: xs => do
      let env' ← bindTarget t x env
      let v ← r.expr d env' elt
      let rest ← r.gen d env elt t xs
      pure (v :: rest)

/-- `f(x)` for each `x` (the keys of `sorted`) -/
def stepMapCall (r : Rec) (d : Nat) (f : Val) : List Val → Result (List Val)
  | [] => .ok []
  | x :: xs => do
      let v ← r.callVal d f [x] []
      let rest ← r.mapCall d f xs
      pure (v :: rest)

def stepIf (r : Rec) (d : Nat) (env : Env) (c : Expr) (thn els ss : List Stmt) : Result Flow := do
  let cv ← r.expr d env c
  match ← r.stmts d env (if truthy cv then thn else els) with
  | .ret v => pure (.ret v)
  | .next env' => r.stmts d env' ss

def stepAssign (r : Rec) (d : Nat) (env : Env) (t : Target) (e : Expr) (ss : List Stmt) : Result Flow := do
  let v ← r.expr d env e
  let env' ← bindTarget t v env
  r.stmts d env' ss

def stepRet (r : Rec) (d : Nat) (env : Env) : Option Expr → Result Flow
  | Option.none => .ok (.ret .none)
  | some e => do let v ← r.expr d env e; pure (.ret v)

def stepRaise (r : Rec) (d : Nat) (env : Env) (e : Expr) : Result Flow := do
  let v ← r.expr d env e
  raiseVal v

def stepExprStmt (r : Rec) (d : Nat) (env : Env) (e : Expr) (ss : List Stmt) : Result Flow := do
  let _ ← r.expr d env e
  r.stmts d env ss

def stepStmt (r : Rec) (d : Nat) (env : Env) (s : Stmt) (ss : List Stmt) : Result Flow :=
  match s with
  | .assign t e => stepAssign r d env t e ss
  | .ifElse c thn els => stepIf r d env c thn els ss
  | .ret e => stepRet r d env e
  | .raise e => stepRaise r d env e
  | .expr e => stepExprStmt r d env e ss
  | .pass => r.stmts d env ss

def stepStmts (r : Rec) (d : Nat) (env : Env) : List Stmt → Result Flow
  | [] => .ok (.next env)
  | s :: ss => stepStmt r d env s ss

/-- call a module function with receiver `recv` (the class for a classmethod, the instance otherwise) -/
def stepCallFun (r : Rec) (d : Nat) (fd : FunDef) (recv : Val) (args : List Val) : Result Val :=
  if d ≥ lim then raiseK "RecursionError" else do
  let env ← bindParams fd.params fd.vararg (recv :: args)
  match ← r.stmts (d + 1) env fd.body with
  | .ret v => pure v
  | .next _ => pure .none

def stepSorted (r : Rec) (d : Nat) (args : List Val) (kw : List (String × Val)) : Result Val :=
  match args with
  | [x] => do
      let xs ← iterOf x
      let keys ← (match kw with
        | [] => pure xs
        | [("key", .none)] => pure xs
        | [("key", kf)] => r.mapCall d kf xs
        | _ => .unsupported "sorted() keyword other than key")
      let rs ← sortByKeys keys xs []
      pure (.list rs)
  | _ => raiseK "TypeError"

def stepConstruct (c : String) (args : List Val) : Result Val :=
  match m.findClass c with
  | some cd =>
    match cd.kind with
    | .namedTuple fields => if args.length == fields.length then .ok (.record c args) else raiseK "TypeError"
    | .enum _ => .unsupported "call of an Enum class"
  | Option.none => .unsupported "unknown class"

def stepClassmeth (r : Rec) (d : Nat) (c fn : String) (args : List Val) : Result Val :=
  match m.findClass c with
  | some cd =>
    match cd.findFun fn with
    | some fd => r.callFun d fd (.cls c) args
    | Option.none => .unsupported "unknown classmethod"
  | Option.none => .unsupported "unknown class"

def stepLambda (r : Rec) (d : Nat) (ps : List String) (body : Expr) (args : List Val) : Result Val :=
  if d ≥ lim then raiseK "RecursionError" else
  if args.length != ps.length then raiseK "TypeError" else
  r.expr (d + 1) (ps.zip args) body

def stepCallVal (r : Rec) (d : Nat) (f : Val) (args : List Val) (kw : List (String × Val)) : Result Val :=
  match f with
  | .builtin b =>
    if b == "sorted" then stepSorted r d args kw
    else if kw.isEmpty then callBuiltin b args else .unsupported "keyword argument"
  | .cls c => if kw.isEmpty then stepConstruct m c args else .unsupported "keyword argument"
  | .classmeth c fn => if kw.isEmpty then stepClassmeth m r d c fn args else .unsupported "keyword argument"
  | .bound self meth => if kw.isEmpty then callBound self meth args else .unsupported "keyword argument"
  | .lambda ps body => if kw.isEmpty then stepLambda lim r d ps body args else .unsupported "keyword argument"
  | .none | .bool _ | .int _ | .str _ | .tuple _ | .list _ | .dict _ _ | .set _ | .record _ _ => raiseK "TypeError"
  | _ => .unsupported "call of a value outside the modelled kinds"

def stepRecordAttr (r : Rec) (d : Nat) (v : Val) (c : String) (fields : List Val) (a : String) : Result Val :=
  match m.findClass c with
  | some cd =>
    let fieldIdx : Option Nat := match cd.kind with
      | .namedTuple fs => indexOfName a fs 0
      | .enum _ => Option.none
    match fieldIdx with
    | some i => (match fields[i]? with | some x => .ok x | Option.none => .unsupported "corrupt record")
    | Option.none =>
      match cd.findFun a with
      | some fd =>
        match fd.kind with
        | .property => r.callFun d fd v []
        | .classmethod => .ok (.classmeth c a)
        | .method => .unsupported "bound method object"
      | Option.none => .unsupported ("attribute " ++ a ++ " of a NamedTuple instance")
  | Option.none => .unsupported "unknown class"

def stepClassAttr (c a : String) : Result Val :=
  match m.findClass c with
  | some cd =>
    match cd.kind with
    | .enum members => if members.contains a then .ok (.enumv c a) else .unsupported ("attribute " ++ a ++ " of an Enum class")
    | .namedTuple _ =>
      match cd.findFun a with
      | some fd =>
        match fd.kind with
        | .classmethod => .ok (.classmeth c a)
        | _ => .unsupported "function / property object"
      | Option.none => .unsupported ("attribute " ++ a ++ " of a NamedTuple class")
  | Option.none => .unsupported "unknown class"

/-- `v.a` -/
def stepGetAttr (r : Rec) (d : Nat) (v : Val) (a : String) : Result Val :=
  match v with
  | .record c fields => stepRecordAttr m r d v c fields a
  | .cls c => stepClassAttr m c a
  | .enumv _ mem => if a == "name" then .ok (.str (codes mem)) else .unsupported ("attribute " ++ a ++ " of an Enum member")
  | .none => if a.startsWith "__" then .unsupported "dunder attribute of None" else raiseK "AttributeError"
  | other => if boundable other a then .ok (.bound other a) else .unsupported ("attribute " ++ a)

mutual
def evalExpr : Nat → Nat → Env → Expr → Result Val
  | 0, _, _, _ => .outOfFuel
  | fuel + 1, d, env, e =>
    stepExpr m genv ⟨evalExpr fuel, evalList fuel, evalDict fuel, evalKw fuel, evalBool fuel, evalFParts fuel, genLoop fuel,
      mapCall fuel, execStmts fuel, callFun fuel, callVal fuel, getAttr fuel⟩ d env e
termination_by structural fuel _ _ _ => fuel
def evalList : Nat → Nat → Env → List Expr → Result (List Val)
  | 0, _, _, _ => .outOfFuel
  | fuel + 1, d, env, es =>
    stepList ⟨evalExpr fuel, evalList fuel, evalDict fuel, evalKw fuel, evalBool fuel, evalFParts fuel, genLoop fuel,
      mapCall fuel, execStmts fuel, callFun fuel, callVal fuel, getAttr fuel⟩ d env es
termination_by structural fuel _ _ _ => fuel
def evalDict : Nat → Nat → Env → List Expr → List Expr → Result (List Val × List Val)
  | 0, _, _, _, _ => .outOfFuel
  | fuel + 1, d, env, ks, vs =>
    stepDict ⟨evalExpr fuel, evalList fuel, evalDict fuel, evalKw fuel, evalBool fuel, evalFParts fuel, genLoop fuel,
      mapCall fuel, execStmts fuel, callFun fuel, callVal fuel, getAttr fuel⟩ d env ks vs
termination_by structural fuel _ _ _ _ => fuel
def evalKw : Nat → Nat → Env → List (String × Expr) → Result (List (String × Val))
  | 0, _, _, _ => .outOfFuel
  | fuel + 1, d, env, kw =>
    stepKw ⟨evalExpr fuel, evalList fuel, evalDict fuel, evalKw fuel, evalBool fuel, evalFParts fuel, genLoop fuel,
      mapCall fuel, execStmts fuel, callFun fuel, callVal fuel, getAttr fuel⟩ d env kw
termination_by structural fuel _ _ _ => fuel
def evalBool : Nat → Nat → Env → BoolOp → List Expr → Result Val
  | 0, _, _, _, _ => .outOfFuel
  | fuel + 1, d, env, op, es =>
    stepBool ⟨evalExpr fuel, evalList fuel, evalDict fuel, evalKw fuel, evalBool fuel, evalFParts fuel, genLoop fuel,
      mapCall fuel, execStmts fuel, callFun fuel, callVal fuel, getAttr fuel⟩ d env op es
termination_by structural fuel _ _ _ _ => fuel
def evalFParts : Nat → Nat → Env → List Expr → Result (List Str)
  | 0, _, _, _ => .outOfFuel
  | fuel + 1, d, env, ps =>
    stepFParts ⟨evalExpr fuel, evalList fuel, evalDict fuel, evalKw fuel, evalBool fuel, evalFParts fuel, genLoop fuel,
      mapCall fuel, execStmts fuel, callFun fuel, callVal fuel, getAttr fuel⟩ d env ps
termination_by structural fuel _ _ _ => fuel
def genLoop : Nat → Nat → Env → Expr → Target → List Val → Result (List Val)
  | 0, _, _, _, _, _ => .outOfFuel
  | fuel + 1, d, env, elt, t, xs =>
    stepGen ⟨evalExpr fuel, evalList fuel, evalDict fuel, evalKw fuel, evalBool fuel, evalFParts fuel, genLoop fuel,
      mapCall fuel, execStmts fuel, callFun fuel, callVal fuel, getAttr fuel⟩ d env elt t xs
termination_by structural fuel _ _ _ _ _ => fuel
def mapCall : Nat → Nat → Val → List Val → Result (List Val)
  | 0, _, _, _ => .outOfFuel
  | fuel + 1, d, f, xs =>
    stepMapCall ⟨evalExpr fuel, evalList fuel, evalDict fuel, evalKw fuel, evalBool fuel, evalFParts fuel, genLoop fuel,
      mapCall fuel, execStmts fuel, callFun fuel, callVal fuel, getAttr fuel⟩ d f xs
termination_by structural fuel _ _ _ => fuel
def execStmts : Nat → Nat → Env → List Stmt → Result Flow
  | 0, _, _, _ => .outOfFuel
  | fuel + 1, d, env, ss =>
    stepStmts ⟨evalExpr fuel, evalList fuel, evalDict fuel, evalKw fuel, evalBool fuel, evalFParts fuel, genLoop fuel,
      mapCall fuel, execStmts fuel, callFun fuel, callVal fuel, getAttr fuel⟩ d env ss
termination_by structural fuel _ _ _ => fuel
def callFun : Nat → Nat → FunDef → Val → List Val → Result Val
  | 0, _, _, _, _ => .outOfFuel
  | fuel + 1, d, fd, recv, args =>
    stepCallFun lim ⟨evalExpr fuel, evalList fuel, evalDict fuel, evalKw fuel, evalBool fuel, evalFParts fuel, genLoop fuel,
      mapCall fuel, execStmts fuel, callFun fuel, callVal fuel, getAttr fuel⟩ d fd recv args
termination_by structural fuel _ _ _ _ => fuel
def callVal : Nat → Nat → Val → List Val → List (String × Val) → Result Val
  | 0, _, _, _, _ => .outOfFuel
  | fuel + 1, d, f, args, kw =>
    stepCallVal m lim ⟨evalExpr fuel, evalList fuel, evalDict fuel, evalKw fuel, evalBool fuel, evalFParts fuel, genLoop fuel,
      mapCall fuel, execStmts fuel, callFun fuel, callVal fuel, getAttr fuel⟩ d f args kw
termination_by structural fuel _ _ _ _ => fuel
def getAttr : Nat → Nat → Val → String → Result Val
  | 0, _, _, _ => .outOfFuel
  | fuel + 1, d, v, a =>
    stepGetAttr m ⟨evalExpr fuel, evalList fuel, evalDict fuel, evalKw fuel, evalBool fuel, evalFParts fuel, genLoop fuel,
      mapCall fuel, execStmts fuel, callFun fuel, callVal fuel, getAttr fuel⟩ d v a
termination_by structural fuel _ _ _ => fuel
end
end

/-- Import-time evaluation of the module-level assignments, in source order: each expression sees the names bound above it
(a later binding of the same name shadows the earlier one). -/
def loadGlobals (m : Module) (lim : Nat) (fuel : Nat) : List (String × Expr) → Env → Result Env
  | [], genv => .ok genv
  | (x, e) :: rest, genv =>
    match evalExpr m lim genv fuel 0 [] e with
    | .ok v => loadGlobals m lim fuel rest ((x, v) :: genv)
    | .exc k a => .exc k a
    | .outOfFuel => .outOfFuel
    | .unsupported w => .unsupported w

/-- the module's global environment after import -/
def Module.load (m : Module) (fuel : Fuel) : Result Env := loadGlobals m fuel.frames fuel.depth m.globals []

/-- Run function `f.fn` of class (or alias of a class) `f.cls` on `args`, in a freshly imported module.  A classmethod receives
the class; a property or a plain method receives `args.head` as `self`. -/
def eval (m : Module) (fuel : Fuel) (f : FunName) (args : List Val) : Result Val :=
  match m.load fuel with
  | .exc k a => .exc k a
  | .outOfFuel => .outOfFuel
  | .unsupported w => .unsupported w
  | .ok genv =>
    match evalExpr m fuel.frames genv fuel.depth 0 [] (.name f.cls) with
    | .ok (.cls c) =>
      match m.findClass c with
      | some cd =>
        match cd.findFun f.fn with
        | some fd =>
          match fd.kind with
          | .classmethod => callFun m fuel.frames genv fuel.depth 0 fd (.cls c) args
          | _ =>
            match args with
            | self :: rest => callFun m fuel.frames genv fuel.depth 0 fd self rest
            | [] => raiseK "TypeError"
        | Option.none => raiseK "AttributeError"
      | Option.none => .unsupported "unknown class"
    | .ok _ => .unsupported "eval: the name is not a class"
    | .exc k a => .exc k a
    | .outOfFuel => .outOfFuel
    | .unsupported w => .unsupported w

/-- the value of a module-level name after import -/
def evalGlobal (m : Module) (fuel : Fuel) (x : String) : Result Val :=
  match m.load fuel with
  | .ok genv => evalExpr m fuel.frames genv fuel.depth 0 [] (.name x)
  | .exc k a => .exc k a
  | .outOfFuel => .outOfFuel
  | .unsupported w => .unsupported w

end PyLite
