import Generated.VoigtTable
import Generated.Constraints
import Generated.Prefactors
import Generated.QExprs
import Generated.LazyDeps
import Generated.ConfigSchema
import Generated.DefaultSettings
import Generated.WriterRules
