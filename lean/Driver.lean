/-
  Line-protocol driver: reads one JSON object per line ({"op": ..., ...}) from stdin, writes one JSON value
  per line to stdout.  Unknown op -> {"driver_error": ...}.  No Mathlib anywhere below this file.
-/
import CijModel.Wire
import CijModel.Ops.C10
import CijModel.Ops.C12
import CijModel.Ops.C01
import CijModel.Ops.C07
import CijModel.Ops.C15
import CijModel.Ops.C19
import CijModel.Ops.C05
import CijModel.Ops.C06
import CijModel.Ops.C03
import CijModel.Ops.C04
import CijModel.Ops.C17
import CijModel.Ops.C20
import CijModel.Ops.C16
import CijModel.Ops.C11
import CijModel.Ops.C08
import CijModel.Ops.C09
import CijModel.Ops.C18
import CijModel.Ops.C14
import CijModel.Ops.C13
import CijModel.Ops.C02
open Lean Cij.Wire

def handlers : List Handler := [
  Cij.Ops.C10.handle,
  Cij.Ops.C12.handle,
  Cij.Ops.C01.handle,
  Cij.Ops.C07.handle,
  Cij.Ops.C15.handle,
  Cij.Ops.C19.handle,
  Cij.Ops.C05.handle,
  Cij.Ops.C06.handle,
  Cij.Ops.C03.handle,
  Cij.Ops.C04.handle,
  Cij.Ops.C17.handle,
  Cij.Ops.C20.handle,
  Cij.Ops.C16.handle,
  Cij.Ops.C11.handle,
  Cij.Ops.C08.handle,
  Cij.Ops.C09.handle,
  Cij.Ops.C18.handle,
  Cij.Ops.C14.handle,
  Cij.Ops.C13.handle,
  Cij.Ops.C02.handle
]

def dispatch (line : String) : Json :=
  match Json.parse line with
  | .error e => Json.mkObj [("driver_error", Json.str s!"parse: {e}")]
  | .ok j =>
    match j.getObjValAs? String "op" with
    | .error e => Json.mkObj [("driver_error", Json.str s!"no op: {e}")]
    | .ok op =>
      let rec go : List Handler → Json
        | [] => Json.mkObj [("driver_error", Json.str s!"unknown op {op}")]
        | h :: hs => match h op j with
          | some (.ok r) => r
          | some (.error e) => Json.mkObj [("driver_error", Json.str e)]
          | none => go hs
      go handlers

partial def loop (hin : IO.FS.Stream) (hout : IO.FS.Stream) : IO Unit := do
  let line ← hin.getLine
  if line.isEmpty then return ()
  let t := line.trimAscii.toString
  if t.isEmpty then loop hin hout else
  hout.putStrLn (dispatch t).compress
  loop hin hout

def main : IO Unit := do
  let hin ← IO.getStdin
  let hout ← IO.getStdout
  loop hin hout
  hout.flush
