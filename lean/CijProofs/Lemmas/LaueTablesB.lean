/- Kernel check (part B) of the literal action tables: see LaueCertDefs.lean. -/
import CijProofs.Lemmas.LaueCertDefs
namespace Cij.Laue
open Cij.Certs

/-- `defectZ` with the literal fibres (same as `defectFast`, kept local so that parts A and B build in parallel) -/
def defectFastB (g : Gen) (a b : Fin 21) : ZS :=
  sumList ((fiberLit.getD b.val []).map (coef (gen2 ZS.sqrt3 g) (stdOfKey a))) - (if a = b then 16 else 0)

theorem defect_fourZ : ∀ a b : Fin 21, defectFastB .fourZ a b = look (defectLit .fourZ) a.val b.val := by decide +kernel
theorem defect_threeZ : ∀ a b : Fin 21, defectFastB .threeZ a b = look (defectLit .threeZ) a.val b.val := by decide +kernel
theorem defect_sixZ : ∀ a b : Fin 21, defectFastB .sixZ a b = look (defectLit .sixZ) a.val b.val := by decide +kernel
theorem defect_three111 : ∀ a b : Fin 21, defectFastB .three111 a b = look (defectLit .three111) a.val b.val := by
  decide +kernel

end Cij.Laue
