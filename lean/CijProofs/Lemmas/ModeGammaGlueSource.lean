/-
  `CijModel/Interp.lean` IS what `cij/core/mode_gamma.py` says now — every function of the module (helper lemmas for C11, no property
  statements here).

  `tools/gens/modegamma_src.py` re-translates the module on every run into `Generated/ModeGammaGlue.lean` (statement lists and expression
  trees; `fns` = the six straight-line functions, `loop` = `interpolate_modes`); `CijModel/ModeGammaGlue.lean` gives those data their
  meaning (a small interpreter: Python values, numpy/scipy calls by NAME, the libraries as parameters `Env`).  Here: on the data extracted
  NOW the interpretation equals the hand-written model — `interpolateMode` for every method, `interpolateModes` for the loop — for every
  scalar type with an `ExpLog` instance (any pair of functions: no law, no base), every kernel, every input.

  The proofs evaluate the interpreter on the generated statements by `simp`; they never mention a local variable name of the source.
-/
import CijModel.ModeGammaGlue
import CijModel.PPoly
import Generated.ModeGammaGlue
import CijProofs.Lemmas.Interp

set_option linter.unusedSectionVars false
set_option linter.unusedVariables false
set_option linter.unusedSimpArgs false

namespace Cij.ModeGammaGlue
open Cij.Interp
open Generated.ModeGammaGlue (fns loop)

variable {α : Type} [Add α] [Mul α] [Neg α] [Zero α] [One α] [NatCast α] [ExpLog α]

/-! ### what the model is compared with -/

/-- the triple of arrays a Python function returns, for the model's list of triples -/
def colsVal (r : List (Triple α)) : Val α := .tuple3 (.arr (r.map (·.1))) (.arr (r.map (·.2.1))) (.arr (r.map (·.2.2)))

/-- the least-squares kernel over an arbitrary solver `S` = `numpy.linalg.lstsq(·, ·)[0]`: the matrix is `numpy.vander(x, order + 1)`
(rows `[x^order, …, x, 1]`), the right-hand side the 1-d array `y` of ONE mode; the solution is read as polynomial coefficients,
highest power first (`numpy.poly1d`), and sampled with its first and second derivative -/
def lsqKernel (S : List (List α) → List α → Except Err (List α)) (order : Nat) : Interpolant α := fun xs ys pts =>
  match S (vander xs (order + 1)) ys with
  | .error e => .error e
  | .ok a => .ok (pts.map fun x => (polyval a x, polyval (polyder a) x, polyval (polyderN 2 a) x))

/-- the kernel the model is run with for a method, given the libraries -/
def Env.kernelFor (env : Env α) (m : Method) (order : Nat) : Interpolant α :=
  match m with
  | .spline => env.spline order
  | .lagrange => env.lagrange
  | .krogh => env.krogh
  | .pchip => env.pchip
  | .akima => env.akima
  | .lsqPoly => lsqKernel env.lstsq order
  | .hermite | .unknown => env.spline order          -- never called by the model for these two

/-! ### evaluation lemmas -/

@[simp] theorem bind_ok {β γ : Type} (v : β) (f : β → Out γ) : (Out.ok v).bind f = f v := rfl
@[simp] theorem bind_raise {β γ : Type} (e : Err) (f : β → Out γ) : (Out.raise e : Out β).bind f = .raise e := rfl
@[simp] theorem bind_stuck {β γ : Type} (f : β → Out γ) : (Out.stuck : Out β).bind f = .stuck := rfl

theorem applyFn_log (env : Env α) (l : List α) : applyFn env .npLog [.arr l] [] = .ok (.arr (l.map ExpLog.log)) := rfl
theorem applyFn_exp (env : Env α) (l : List α) : applyFn env .npExp [.arr l] [] = .ok (.arr (l.map ExpLog.exp)) := rfl
theorem applyFn_flip (env : Env α) (l : List α) : applyFn env .npFlip [.arr l] [(.axis, .nat 0)] = .ok (.arr l.reverse) := rfl
theorem applyFn_flip' (env : Env α) (l : List α) : applyFn env .npFlip [.arr l] [] = .ok (.arr l.reverse) := rfl
theorem applyFn_ceil (env : Env α) (n d : Nat) : applyFn env .npCeil [.quot n d] [] = .ok (.fint ((n + d - 1) / d)) := rfl
theorem applyFn_int (env : Env α) (n : Nat) : applyFn env .pyInt [.fint n] [] = .ok (.nat n) := rfl
theorem applyFn_int' (env : Env α) (n : Nat) : applyFn env .pyInt [.nat n] [] = .ok (.nat n) := rfl
theorem applyFn_range (env : Env α) (n : Nat) : applyFn env .pyRange [.nat n] [] = .ok (.range n) := rfl
theorem applyFn_array (env : Env α) (l : List α) : applyFn env .npArray [.pylist l] [] = .ok (.arr l) := rfl
theorem applyFn_array' (env : Env α) (l : List α) : applyFn env .npArray [.arr l] [] = .ok (.arr l) := rfl
theorem applyFn_vander (env : Env α) (x : List α) (n : Nat) : applyFn env .npVander [.arr x, .nat n] [] = .ok (.mat (vander x n)) := rfl
theorem applyFn_lstsq (env : Env α) (A : List (List α)) (b : List α) :
    applyFn env .npLstsq [.mat A, .arr b] [] =
      match env.lstsq A b with
      | .ok a => .ok (.tuple4 (.arr a) .opaque .opaque .opaque)
      | .error e => .raise e := rfl
theorem applyFn_poly1d (env : Env α) (a : List α) : applyFn env .npPoly1d [.arr a] [] = .ok (.poly a) := rfl
theorem applyFn_poly1d' (env : Env α) (a : List α) : applyFn env .npPoly1d [.poly a] [] = .ok (.poly a) := rfl
theorem applyFn_polyval (env : Env α) (a x : List α) :
    applyFn env .npPolyval [.poly a, .arr x] [] = .ok (.arr (x.map (polyval a))) := rfl
theorem applyFn_polyval' (env : Env α) (a x : List α) :
    applyFn env .npPolyval [.arr a, .arr x] [] = .ok (.arr (x.map (polyval a))) := rfl
theorem applyFn_polyder (env : Env α) (p : Val α) : applyFn env .npPolyder [p] [] = polyderVal p 1 := rfl
theorem applyFn_polyder_pos (env : Env α) (p : Val α) (m : Nat) : applyFn env .npPolyder [p, .nat m] [] = polyderVal p m := rfl
theorem applyFn_polyder_kw (env : Env α) (p : Val α) (m : Nat) : applyFn env .npPolyder [p] [(.m, .nat m)] = polyderVal p m := rfl
theorem applyFn_spline (env : Env α) (x y : List α) (k : Nat) :
    applyFn env .spUnivariateSpline [.arr x, .arr y] [(.k, .nat k)] = .ok (.interp (.spline k) x y 0) := rfl
theorem applyFn_lagrange (env : Env α) (x y : List α) :
    applyFn env .spLagrange [.arr x, .arr y] [] = .ok (.interp .lagrange x y 0) := rfl
theorem applyFn_krogh (env : Env α) (x y : List α) :
    applyFn env .spKrogh [.arr x, .arr y] [] = .ok (.interp .krogh x y 0) := rfl
theorem applyFn_pchip (env : Env α) (x y : List α) :
    applyFn env .spPchip [.arr x, .arr y] [] = .ok (.interp .pchip x y 0) := rfl
theorem applyFn_akima (env : Env α) (x y : List α) :
    applyFn env .spAkima [.arr x, .arr y] [] = .ok (.interp .akima x y 0) := rfl
theorem applyFn_hermite (env : Env α) (x y : List α) :
    applyFn env .spHermite [.arr x, .arr y] [] = .raise .typeError := rfl

theorem callVal_cls (env : Env α) (c : Lib) (vs : List (Val α)) (ks : List (Kw × Val α)) : callVal env (.cls c) vs ks = applyFn env c vs ks := rfl
theorem callVal_poly (env : Env α) (a x : List α) : callVal env (.poly a) [.arr x] [] = .ok (.arr (x.map (polyval a))) := rfl
theorem callVal_lagrange (env : Env α) (xs ys p : List α) (d : Nat) :
    callVal env (.interp .lagrange xs ys d) [.arr p] [] = sample env .lagrange xs ys p d := rfl
theorem callVal_krogh (env : Env α) (xs ys p : List α) : callVal env (.interp .krogh xs ys 0) [.arr p] [] = sample env .krogh xs ys p 0 := rfl
theorem callVal_spline (env : Env α) (k : Nat) (xs ys p : List α) :
    callVal env (.interp (.spline k) xs ys 0) [.arr p] [] = sample env (.spline k) xs ys p 0 := rfl
theorem callVal_spline_nu (env : Env α) (k n : Nat) (xs ys p : List α) :
    callVal env (.interp (.spline k) xs ys 0) [.arr p] [(.nu, .nat n)] = sample env (.spline k) xs ys p n := rfl
theorem callVal_pchip (env : Env α) (xs ys p : List α) :
    callVal env (.interp .pchip xs ys 0) [.arr p] [(.extrapolate, .bool true)] = sample env .pchip xs ys p 0 := rfl
theorem callVal_pchip_nu (env : Env α) (n : Nat) (xs ys p : List α) :
    callVal env (.interp .pchip xs ys 0) [.arr p] [(.extrapolate, .bool true), (.nu, .nat n)] = sample env .pchip xs ys p n := rfl
theorem callVal_akima (env : Env α) (xs ys p : List α) :
    callVal env (.interp .akima xs ys 0) [.arr p] [(.extrapolate, .bool true)] = sample env .akima xs ys p 0 := rfl
theorem callVal_akima_nu (env : Env α) (n : Nat) (xs ys p : List α) :
    callVal env (.interp .akima xs ys 0) [.arr p] [(.extrapolate, .bool true), (.nu, .nat n)] = sample env .akima xs ys p n := rfl
theorem callMeth_krogh (env : Env α) (xs ys p : List α) :
    callMeth env (.interp .krogh xs ys 0) "derivative" [.arr p] [] = sample env .krogh xs ys p 1 := rfl
theorem callMeth_krogh_der (env : Env α) (n : Nat) (xs ys p : List α) :
    callMeth env (.interp .krogh xs ys 0) "derivative" [.arr p] [(.der, .nat n)] = sample env .krogh xs ys p n := rfl
theorem callMeth_krogh_pos (env : Env α) (n : Nat) (xs ys p : List α) :
    callMeth env (.interp .krogh xs ys 0) "derivative" [.arr p, .nat n] [] = sample env .krogh xs ys p n := rfl

theorem sample0 (env : Env α) (k : Kern) (xs ys p : List α) :
    sample env k xs ys p 0 = match env.kernel k xs ys p with | .error e => .raise e | .ok r => .ok (.arr (r.map (·.1))) := rfl
theorem sample1 (env : Env α) (k : Kern) (xs ys p : List α) :
    sample env k xs ys p 1 = match env.kernel k xs ys p with | .error e => .raise e | .ok r => .ok (.arr (r.map (·.2.1))) := rfl
theorem sample2 (env : Env α) (k : Kern) (xs ys p : List α) :
    sample env k xs ys p 2 = match env.kernel k xs ys p with | .error e => .raise e | .ok r => .ok (.arr (r.map (·.2.2))) := rfl

theorem polyderVal_poly (a : List α) (m : Nat) : polyderVal (.poly a : Val α) m = .ok (.poly (polyderN m a)) := rfl
theorem polyderVal_lagrange (xs ys : List α) (d m : Nat) :
    polyderVal (.interp .lagrange xs ys d : Val α) m = .ok (.interp .lagrange xs ys (d + m)) := rfl
theorem globVal_pchip : (globVal .spPchip : Out (Val α)) = .ok (.cls .spPchip) := rfl
theorem globVal_akima : (globVal .spAkima : Out (Val α)) = .ok (.cls .spAkima) := rfl
theorem globVal_hermite : (globVal .spHermite : Out (Val α)) = .ok (.cls .spHermite) := rfl
theorem globVal_krogh : (globVal .spKrogh : Out (Val α)) = .ok (.cls .spKrogh) := rfl
theorem globVal_spline : (globVal .spUnivariateSpline : Out (Val α)) = .ok (.cls .spUnivariateSpline) := rfl
theorem attrVal_shape (l : List α) : attrVal (.arr l : Val α) "shape" = .ok (.shape [l.length]) := rfl
theorem attrVal_nv (nv nq np : Nat) (v : List (α × List (List α))) : attrVal (.qha nv nq np v) "nv" = .ok (.nat nv) := rfl
theorem attrVal_nq (nv nq np : Nat) (v : List (α × List (List α))) : attrVal (.qha nv nq np v) "nq" = .ok (.nat nq) := rfl
theorem attrVal_np (nv nq np : Nat) (v : List (α × List (List α))) : attrVal (.qha nv nq np v) "np" = .ok (.nat np) := rfl
theorem attrVal_volumes (nv nq np : Nat) (v : List (α × List (List α))) : attrVal (.qha nv nq np v) "volumes" = .ok (.vols v) := rfl
theorem attrVal_volume (x : α) (q : List (List α)) : attrVal (.vol x q) "volume" = .ok (.scalar x) := rfl
theorem attrVal_qpoints (x : α) (q : List (List α)) : attrVal (.vol x q) "q_points" = .ok (.qpts q) := rfl
theorem attrVal_modes (m : List α) : attrVal (.qpt m : Val α) "modes" = .ok (.pylist m) := rfl
theorem indexVal_shape (dims : List Nat) (k : Nat) :
    indexVal (.shape dims : Val α) (.nat k) = match dims[k]? with | some d => .ok (.nat d) | none => .raise (.other "IndexError") := rfl
theorem indexVal_qpts (q : List (List α)) (k : Nat) :
    indexVal (.qpts q) (.nat k) = match q[k]? with | some m => .ok (.qpt m) | none => .raise (.other "IndexError") := rfl
theorem indexVal_pylist (l : List α) (k : Nat) :
    indexVal (.pylist l) (.nat k) = match l[k]? with | some x => .ok (.scalar x) | none => .raise (.other "IndexError") := rfl
theorem sliceStepVal_arr (l : List α) (k : Nat) :
    sliceStepVal (.arr l) (.nat k) = if k = 0 then .raise .valueError else .ok (.arr (stride k l)) := rfl
theorem negVal_arr (l : List α) : negVal (.arr l) = .ok (.arr (l.map (- ·))) := rfl
theorem divVal_nat (n d : Nat) : divVal (.nat n : Val α) (.nat d) = if d = 0 then .raise .zeroDivision else .ok (.quot n d) := rfl
theorem eqVal_str (x y : String) : eqVal (.str x : Val α) (.str y) = .ok (.bool (x == y)) := rfl
theorem eqVal_nat (x y : Nat) : eqVal (.nat x : Val α) (.nat y) = .ok (.bool (x == y)) := rfl
theorem isinVal_strs (x : String) (l : List String) : isinVal (.str x : Val α) (.strs l) = .ok (.bool (l.contains x)) := rfl
theorem isinVal_range (k n : Nat) : isinVal (.nat k : Val α) (.range n) = .ok (.bool (decide (k < n))) := rfl
theorem tupleVal2 (a b : Val α) : tupleVal [a, b] = .ok (.tuple2 a b) := rfl
theorem tupleVal3 (a b c : Val α) : tupleVal [a, b, c] = .ok (.tuple3 a b c) := rfl
theorem unpackVal2 (a b : String) (x y : Val α) : unpackVal [a, b] (.tuple2 x y) = .ok [(b, y), (a, x)] := rfl
theorem unpackVal4 (a b c d : String) (x y z w : Val α) :
    unpackVal [a, b, c, d] (.tuple4 x y z w) = .ok [(d, w), (c, z), (b, y), (a, x)] := rfl
theorem addVal_nat (x y : Nat) : addVal (.nat x : Val α) (.nat y) = .ok (.nat (x + y)) := rfl

theorem ceilDiv_ne_zero (n d : Nat) (hn : n ≠ 0) (hd : d ≠ 0) : (n + d - 1) / d ≠ 0 := by
  intro h
  have := (Nat.div_eq_zero_iff).mp h
  omega

/-- evaluate the interpreter on the generated statements -/
local macro "mg_eval" "[" ts:Lean.Parser.Tactic.simpLemma,* "]" : tactic =>
  `(tactic| simp [fns, runFn, kwKnown, bindArgs, lookup, runBody, firstBranch, Ex.eval, evalArgs, evalKw, evalUKw, constVal,
      applyFn_log, applyFn_exp, applyFn_flip, applyFn_flip', applyFn_ceil, applyFn_int, applyFn_int', applyFn_range, applyFn_array,
      applyFn_array', applyFn_vander, applyFn_lstsq, applyFn_poly1d, applyFn_poly1d', applyFn_polyval, applyFn_polyval', applyFn_polyder,
      applyFn_polyder_pos, applyFn_polyder_kw, applyFn_spline, applyFn_lagrange, applyFn_krogh, applyFn_pchip, applyFn_akima,
      applyFn_hermite, callVal_cls, callVal_poly, callVal_lagrange, callVal_krogh, callVal_spline, callVal_spline_nu, callVal_pchip,
      callVal_pchip_nu, callVal_akima, callVal_akima_nu, callMeth_krogh, callMeth_krogh_der, callMeth_krogh_pos, sample0, sample1,
      sample2, polyderVal_poly, polyderVal_lagrange, globVal_pchip, globVal_akima, globVal_hermite, globVal_krogh, globVal_spline,
      attrVal_shape, attrVal_nv, attrVal_nq, attrVal_np, attrVal_volumes, attrVal_volume, attrVal_qpoints, attrVal_modes,
      indexVal_shape, indexVal_qpts, indexVal_pylist, sliceStepVal_arr, negVal_arr, divVal_nat, eqVal_str, eqVal_nat, isinVal_strs,
      isinVal_range, tupleVal2, tupleVal3, unpackVal2, unpackVal4, addVal_nat, Out.ofOption, Env.kernel,
      interpolateMode, modeNodes, interpolateModeF, modeNodesF, finishMode, thin, thinInterval, Out.ofExcept, Out.map, bind,
      Except.bind, pure, Except.pure, colsVal, List.map_map, Function.comp_def, $ts,*])

/-! ### the six straight-line functions -/

/-- `interpolate_mode_spline(mode_volumes, mode_freqs, v_array, order=order)` -/
theorem spline_is_source (env : Env α) (order : Nat) (vols freqs va : List α) :
    runFn fns env 2 "interpolate_mode_spline" [.arr vols, .arr freqs, .arr va] [("order", .nat order)]
      = (Out.ofExcept (interpolateModeF .spline order (env.spline order) vols freqs va)).map colsVal := by
  mg_eval []
  generalize env.spline _ _ _ _ = R
  cases R <;> simp [applyFn_exp, negVal_arr, tupleVal3, List.map_map, Function.comp_def]

/-- `interpolate_mode_lagrange(…)`: the thinning uses `mode_volumes.shape[0]` for BOTH arrays, and `[::0]` (no volume at all) is the
`ValueError` of `modeNodesF` -/
theorem lagrange_is_source (env : Env α) (order : Nat) (vols freqs va : List α) :
    runFn fns env 2 "interpolate_mode_lagrange" [.arr vols, .arr freqs, .arr va] [("order", .nat order)]
      = (Out.ofExcept (interpolateModeF .lagrange order env.lagrange vols freqs va)).map colsVal := by
  by_cases ho : order = 0
  · subst ho
    mg_eval []
  · by_cases hk : (vols.length + order - 1) / order = 0
    · mg_eval [ho, hk]
    · mg_eval [ho, hk]
      generalize env.lagrange _ _ _ = R
      cases R <;> simp [applyFn_exp, negVal_arr, tupleVal3, List.map_map, Function.comp_def]

/-- `interpolate_mode_krogh(…)` -/
theorem krogh_is_source (env : Env α) (order : Nat) (vols freqs va : List α) :
    runFn fns env 2 "interpolate_mode_krogh" [.arr vols, .arr freqs, .arr va] [("order", .nat order)]
      = (Out.ofExcept (interpolateModeF .krogh order env.krogh vols freqs va)).map colsVal := by
  by_cases ho : order = 0
  · subst ho
    mg_eval []
  · by_cases hk : (vols.length + order - 1) / order = 0
    · mg_eval [ho, hk]
    · mg_eval [ho, hk]
      generalize env.krogh _ _ _ = R
      cases R <;> simp [applyFn_exp, negVal_arr, tupleVal3, List.map_map, Function.comp_def]

/-- `interpolate_mode_ppoly(…, method="pchip", …)` -/
theorem pchip_is_source (env : Env α) (order : Nat) (vols freqs va : List α) :
    runFn fns env 2 "interpolate_mode_ppoly" [.arr vols, .arr freqs, .arr va] [("method", .str "pchip"), ("order", .nat order)]
      = (Out.ofExcept (interpolateModeF .pchip order env.pchip vols freqs va)).map colsVal := by
  by_cases ho : order = 0
  · subst ho
    mg_eval []
  · by_cases hk : (vols.length + order - 1) / order = 0
    · mg_eval [ho, hk]
    · mg_eval [ho, hk]
      generalize env.pchip _ _ _ = R
      cases R <;> simp [applyFn_exp, negVal_arr, tupleVal3, List.map_map, Function.comp_def]

/-- `interpolate_mode_ppoly(…, method="akima", …)` -/
theorem akima_is_source (env : Env α) (order : Nat) (vols freqs va : List α) :
    runFn fns env 2 "interpolate_mode_ppoly" [.arr vols, .arr freqs, .arr va] [("method", .str "akima"), ("order", .nat order)]
      = (Out.ofExcept (interpolateModeF .akima order env.akima vols freqs va)).map colsVal := by
  by_cases ho : order = 0
  · subst ho
    mg_eval []
  · by_cases hk : (vols.length + order - 1) / order = 0
    · mg_eval [ho, hk]
    · mg_eval [ho, hk]
      generalize env.akima _ _ _ = R
      cases R <;> simp [applyFn_exp, negVal_arr, tupleVal3, List.map_map, Function.comp_def]

/-- `interpolate_mode_ppoly(…, method="hermite", …)`: the thinning, then `CubicHermiteSpline(x, y)` → `TypeError`, whatever the kernel -/
theorem hermite_is_source (env : Env α) (I : Interpolant α) (order : Nat) (vols freqs va : List α) :
    runFn fns env 2 "interpolate_mode_ppoly" [.arr vols, .arr freqs, .arr va] [("method", .str "hermite"), ("order", .nat order)]
      = (Out.ofExcept (interpolateModeF .hermite order I vols freqs va)).map colsVal := by
  by_cases ho : order = 0
  · subst ho
    mg_eval []
  · by_cases hk : (vols.length + order - 1) / order = 0
    · mg_eval [ho, hk]
    · mg_eval [ho, hk]

/-- `lstsq_polyfit(xs, ys, new_xs, order=order)`: `order + 1` columns, decreasing powers, ONE 1-d right-hand side; returns the
coefficient array and `polyval` of it at `new_xs` -/
theorem lstsq_polyfit_is_source (env : Env α) (fuel order : Nat) (xs ys new : List α) :
    runFn fns env (fuel + 1) "lstsq_polyfit" [.arr xs, .arr ys, .arr new] [("order", .nat order)]
      = (Out.ofExcept (env.lstsq (vander xs (order + 1)) ys)).map fun a => .tuple2 (.arr a) (.arr (new.map (polyval a))) := by
  mg_eval []
  generalize env.lstsq _ _ = R
  cases R <;> simp [unpackVal4, lookup, runBody, Ex.eval, evalArgs, evalKw, evalUKw, applyFn_poly1d, applyFn_polyval, Out.ofOption, tupleVal2]

/-- `interpolate_mode_lsq_poly(…)`: no thinning, no flip; `exp` of the fitted values, minus `polyval` of `polyder(p, 1)` and of
`polyder(p, 2)` -/
theorem lsq_poly_is_source (env : Env α) (order : Nat) (vols freqs va : List α) :
    runFn fns env 2 "interpolate_mode_lsq_poly" [.arr vols, .arr freqs, .arr va] [("order", .nat order)]
      = (Out.ofExcept (interpolateModeF .lsqPoly order (lsqKernel env.lstsq order) vols freqs va)).map colsVal := by
  mg_eval [lsqKernel]
  generalize env.lstsq _ _ = R
  cases R <;> simp [unpackVal2, unpackVal4, lookup, runBody, Ex.eval, evalArgs, evalKw, evalUKw, applyFn_poly1d, applyFn_polyval, applyFn_polyder_pos,
    applyFn_exp, polyderVal_poly, Out.ofOption, tupleVal2, tupleVal3, negVal_arr, polyderN, List.map_map, Function.comp_def]

/-! ### the loop, independent of the generated data -/

/-- the three columns of a cell -/
def cols3 (r : List (Triple α)) : List (List α) := [r.map (·.1), r.map (·.2.1), r.map (·.2.2)]

/-- a cell of the model seen from the interpretation: skipped cells assign nothing, the others assign their three columns -/
def toMine (j k : Nat) (col : List (Triple α)) : Option (List (List α)) :=
  if j == 0 && decide (k < 3) then none else some (cols3 col)

def mineOf (nq np : Nat) (c : List (List (List (Triple α)))) : List (List (Option (List (List α)))) :=
  List.zipWith (fun j row => List.zipWith (toMine j) (List.range np) row) (List.range nq) c

theorem collect_lift {β γ δ : Type} (l : List β) (g : β → Except Err γ) (h : β → γ → δ) :
    Out.collect (l.map fun x => (Out.ofExcept (g x)).map (h x))
      = (Out.ofExcept (collect (l.map g))).map fun ys => List.zipWith h l ys := by
  induction l with
  | nil => rfl
  | cons x xs ih =>
    simp only [List.map_cons, Out.collect]
    rw [ih]
    cases hx : g x with
    | error e => simp [Out.ofExcept, Out.map, collect]
    | ok v =>
      cases hc : collect (xs.map g) with
      | error e => simp [Out.ofExcept, Out.map, collect, hc]
      | ok vs => simp [Out.ofExcept, Out.map, collect, hc]

/-- the cells of the loop, for ANY cell function `cf j k` -/
theorem cells_transfer (cf : Nat → Nat → Except Err (List (Triple α))) (nq np : Nat) :
    Out.collect ((List.range nq).map fun j => Out.collect ((List.range np).map fun k =>
        (Out.ofExcept (cf j k)).map (toMine j k)))
      = (Out.ofExcept (cellsOf cf nq np)).map (mineOf nq np) := by
  have inner : ∀ j, Out.collect ((List.range np).map fun k => (Out.ofExcept (cf j k)).map (toMine j k))
      = (Out.ofExcept (collect ((List.range np).map fun k => cf j k))).map
          (fun row => List.zipWith (toMine j) (List.range np) row) := fun j => collect_lift _ _ _
  simp only [inner]
  exact collect_lift (List.range nq) (fun j => collect ((List.range np).map fun k => cf j k))
    (fun j row => List.zipWith (toMine j) (List.range np) row)

/-- what `cellsOf … = .ok c` says, index by index -/
theorem cells_ok {β : Type} (cf : Nat → Nat → Except Err (List β)) (nq np : Nat)
    (c : List (List (List β))) (hc : cellsOf cf nq np = .ok c) :
    c.length = nq ∧ ∀ j, j < nq → (c.getD j []).length = np ∧
      ∀ k, k < np → cf j k = .ok ((c.getD j []).getD k []) := by
  unfold cellsOf at hc
  rw [collect_eq_ok] at hc
  have hlen : c.length = nq := by simpa using (congrArg List.length hc).symm
  refine ⟨hlen, fun j hj => ?_⟩
  have hrow := congrArg (·[j]?) hc
  simp only [List.getElem?_map, List.getElem?_range hj, Option.map_some] at hrow
  have hjc : j < c.length := hlen ▸ hj
  rw [List.getElem?_eq_getElem hjc, Option.map_some, Option.some.injEq, collect_eq_ok] at hrow
  have hgj : c.getD j [] = c[j] := by simp [List.getD_eq_getElem?_getD, List.getElem?_eq_getElem hjc]
  have hlen2 : c[j].length = np := by simpa using (congrArg List.length hrow).symm
  refine ⟨by rw [hgj]; exact hlen2, fun k hk => ?_⟩
  have hcol := congrArg (·[k]?) hrow
  simp only [List.getElem?_map, List.getElem?_range hk, Option.map_some] at hcol
  have hkc : k < c[j].length := hlen2 ▸ hk
  rw [List.getElem?_eq_getElem hkc, Option.map_some, Option.some.injEq] at hcol
  rw [hgj, hcol]
  simp [List.getD_eq_getElem?_getD, List.getElem?_eq_getElem hkc]

theorem mineOf_getD (nq np : Nat) (c : List (List (List (Triple α)))) (hlen : c.length = nq)
    (hrow : ∀ j, j < nq → (c.getD j []).length = np) (j k : Nat) (hj : j < nq) (hk : k < np) :
    ((mineOf nq np c).getD j []).getD k none = toMine j k ((c.getD j []).getD k []) := by
  have hjc : j < c.length := hlen ▸ hj
  have hk' : k < (c.getD j []).length := (hrow j hj).symm ▸ hk
  have hgj : c.getD j [] = c[j] := by simp [List.getD_eq_getElem?_getD, List.getElem?_eq_getElem hjc]
  have hk'' : k < c[j].length := hgj ▸ hk'
  simp [mineOf, List.getD_eq_getElem?_getD, List.getElem?_zipWith, List.getElem?_range hj, List.getElem?_range hk,
    List.getElem?_eq_getElem hjc, List.getElem?_eq_getElem hk'']


/-- component `p` of a triple -/
def selP (p : Nat) (t : Triple α) : α := match p with | 0 => t.1 | 1 => t.2.1 | _ => t.2.2

theorem cols3_getD (col : List (Triple α)) (p : Nat) (hp : p < 3) : (cols3 col).getD p [] = col.map (selP p) := by
  match p, hp with
  | 0, _ => rfl
  | 1, _ => rfl
  | 2, _ => rfl

theorem getD_map_selP (col : List (Triple α)) (p t : Nat) : (col.map (selP p)).getD t 0 = selP p (col.getD t (0, 0, 0)) := by
  have h0 : (0 : α) = selP p ((0 : α), (0 : α), (0 : α)) := by
    unfold selP; split <;> rfl
  rw [List.getD_eq_getElem?_getD, List.getD_eq_getElem?_getD, List.getElem?_map]
  cases col[t]? with
  | none => exact h0
  | some x => rfl

/-- the kernel returns one sample per evaluation point -/
def LenOK (I : Interpolant α) : Prop := ∀ xs ys pts r, I xs ys pts = .ok r → r.length = pts.length

/-- the kernel contract as the loop needs it: `hermite` raises before its kernel is called and an unknown method calls none -/
def LenFor (m : Method) (I : Interpolant α) : Prop := m ≠ .hermite → m ≠ .unknown → LenOK I

/-- the zero column of a skipped cell -/
def zeroCol (va : List α) : List (Triple α) := va.map fun _ => ((0 : α), (0 : α), (0 : α))

/-- what the loop lemmas need of a cell function: Γ-acoustic cells are zero columns, every cell has one triple per grid point -/
structure CellOK (cf : Nat → Nat → Except Err (List (Triple α))) (va : List α) : Prop where
  skip : ∀ j k, (j == 0 && decide (k < 3)) = true → cf j k = .ok (zeroCol va)
  len : ∀ j k col, cf j k = .ok col → col.length = va.length

theorem cellF_length (m : Method) (order : Nat) (I : Interpolant α) (hI : LenFor m I) (vols va : List α)
    (freqs : List (List (List α))) (j k : Nat)
    (c : List (Triple α)) (h : cellF m order I vols va freqs j k = .ok c) : c.length = va.length := by
  unfold cellF at h
  split at h
  · cases h; simp
  · split at h
    · cases h
    · split at h
      · cases h; simp
      · rename_i hmu
        unfold interpolateModeF at h
        rename_i ser _
        cases hn : modeNodesF m order vols ser with
        | error e => simp [hn, bind, Except.bind] at h
        | ok nn =>
          obtain ⟨nv, nf⟩ := nn
          simp only [hn, bind, Except.bind] at h
          split at h
          · cases h
          · rename_i hmh
            unfold finishMode at h
            cases hr : I (nv.map ExpLog.log) (nf.map ExpLog.log) (va.map ExpLog.log) with
            | error e => simp [hr, bind, Except.bind] at h
            | ok r =>
              simp only [hr, bind, Except.bind, pure, Except.pure, Except.ok.injEq] at h
              subst h
              have hI' : LenOK I := hI (by simpa using hmh) (by simpa using hmu)
              simpa using hI' _ _ _ _ hr

theorem cellF_ok (m : Method) (order : Nat) (I : Interpolant α) (hI : LenFor m I) (vols va : List α)
    (freqs : List (List (List α))) : CellOK (cellF m order I vols va freqs) va :=
  ⟨fun j k h => by unfold cellF zeroCol; rw [if_pos (by simpa using h)],
   fun j k col h => cellF_length m order I hI vols va freqs j k col h⟩

/-- ASSEMBLY: reading the three arrays back from the interpretation's cells gives the model's `assemble` -/
theorem assemble_is (cf : Nat → Nat → Except Err (List (Triple α))) (va : List α) (hcf : CellOK cf va) (nq np : Nat)
    (c : List (List (List (Triple α)))) (hc : cellsOf cf nq np = .ok c)
    (p : Nat) (hp : p < 3) :
    assembleOut (mineOf nq np c) nq np [va.length, nq, np] (some p) = .ok (assemble va.length c (selP p)) := by
  obtain ⟨hlen, hrows⟩ := cells_ok cf nq np c hc
  have hget := mineOf_getD nq np c hlen (fun j hj => (hrows j hj).1)
  simp only [assembleOut, and_self, true_and]
  rw [if_pos]
  swap
  · simp only [List.all_eq_true, List.mem_range]
    intro j hj k hk
    rw [hget j k hj hk]
    by_cases hs : (j == 0 && decide (k < 3)) = true
    · simp [toMine, hs]
    · simp only [toMine, hs, Bool.false_eq_true, if_false]
      rw [cols3_getD (α := α) _ p hp, List.length_map, beq_iff_eq]
      exact hcf.len j k _ ((hrows j hj).2 k hk)
  congr 1
  unfold assemble
  refine List.map_congr_left fun t _ => ?_
  apply List.ext_getElem
  · simp [hlen]
  · intro j h1 h2
    have hj : j < nq := by simpa using h1
    have hjc : j < c.length := hlen ▸ hj
    have hgj : c.getD j [] = c[j] := by simp [List.getD_eq_getElem?_getD, List.getElem?_eq_getElem hjc]
    simp only [List.getElem_map, List.getElem_range]
    apply List.ext_getElem
    · have := (hrows j hj).1
      rw [hgj] at this
      simp [this]
    · intro k h3 h4
      have hk : k < np := by simpa using h3
      have hkc : k < c[j].length := by rw [← hgj, (hrows j hj).1]; exact hk
      have hgk : (c.getD j []).getD k [] = c[j][k] := by
        rw [hgj]; simp [List.getD_eq_getElem?_getD, List.getElem?_eq_getElem hkc]
      simp only [List.getElem_map, List.getElem_range]
      rw [hget j k hj hk, hgk]
      by_cases hskip : (j == 0 && decide (k < 3)) = true
      · simp only [toMine, hskip, if_true]
        -- a skipped cell: the model's column is all zeros
        have hcell := (hrows j hj).2 k hk
        rw [hgk, hcf.skip j k hskip] at hcell
        have : c[j][k] = va.map fun _ => ((0 : α), (0 : α), (0 : α)) := (Except.ok.inj hcell).symm
        rw [this, List.getD_eq_getElem?_getD, List.getElem?_map]
        cases va[t]? <;> (unfold selP; split <;> rfl)
      · simp only [toMine, hskip, Bool.false_eq_true, if_false]
        rw [cols3_getD (α := α) _ p hp]
        exact getD_map_selP _ p t

/-- the three arrays of a run of the loop over the cell function `cf` -/
def modesOf (cf : Nat → Nat → Except Err (List (Triple α))) (va : List α) (nq np : Nat) :
    Except Err (List (List (List α)) × List (List (List α)) × List (List (List α))) := do
  let c ← cellsOf cf nq np
  pure (assemble va.length c (·.1), assemble va.length c (·.2.1), assemble va.length c (·.2.2))

theorem interpolateModesF_eq_modesOf (m : Method) (order : Nat) (I : Interpolant α) (vols va : List α) (nq np : Nat)
    (freqs : List (List (List α))) :
    interpolateModesF m order I vols va nq np freqs = modesOf (cellF m order I vols va freqs) va nq np := rfl

/-- THE LOOP, given the cells: one independent cell per `(j, k)`, collected in loop order (the first exception aborts), the three
arrays read back at `[t][j][k]` -/
theorem loop_generic (cf : Nat → Nat → Except Err (List (Triple α))) (va : List α) (hcf : CellOK cf va) (nq np : Nat) :
    (Out.collect ((List.range nq).map fun j => Out.collect ((List.range np).map fun k =>
        (Out.ofExcept (cf j k)).map (toMine j k)))).bind
      (fun cells => Out.collect [assembleOut cells nq np [va.length, nq, np] (some 0),
        assembleOut cells nq np [va.length, nq, np] (some 1), assembleOut cells nq np [va.length, nq, np] (some 2)])
      = (Out.ofExcept (modesOf cf va nq np)).map fun r => [r.1, r.2.1, r.2.2] := by
  rw [cells_transfer]
  unfold modesOf
  cases hc : cellsOf cf nq np with
  | error e => simp [Out.ofExcept, Out.map, bind, Except.bind]
  | ok c =>
    simp only [Out.ofExcept, Out.map, bind_ok, bind, Except.bind, pure, Except.pure]
    rw [assemble_is cf va hcf nq np c hc 0 (by decide), assemble_is cf va hcf nq np c hc 1 (by decide),
      assemble_is cf va hcf nq np c hc 2 (by decide)]
    simp only [Out.collect, bind_ok]
    rfl

/-- the three output arrays at `[t][j][k]` are the `t`-th triple of the cell `(j, k)` -/
theorem modesOf_cell (cf : Nat → Nat → Except Err (List (Triple α))) (va : List α) (nq np : Nat)
    (F G D : List (List (List α))) (h : modesOf cf va nq np = .ok (F, G, D))
    (t j k : Nat) (ht : t < va.length) (hj : j < nq) (hk : k < np) :
    ∃ col, cf j k = .ok col ∧
      entry F t j k = some (col.getD t (0, 0, 0)).1 ∧ entry G t j k = some (col.getD t (0, 0, 0)).2.1 ∧
      entry D t j k = some (col.getD t (0, 0, 0)).2.2 := by
  unfold modesOf at h
  cases hc : cellsOf cf nq np with
  | error e => rw [hc] at h; cases h
  | ok c =>
    rw [hc] at h
    simp only [bind, Except.bind, pure, Except.pure, Except.ok.injEq, Prod.mk.injEq] at h
    obtain ⟨rfl, rfl, rfl⟩ := h
    obtain ⟨hlen, hrows⟩ := cells_ok cf nq np c hc
    have hjc : j < c.length := hlen ▸ hj
    have hgj : c.getD j [] = c[j] := by simp [List.getD_eq_getElem?_getD, List.getElem?_eq_getElem hjc]
    have hkc : k < c[j].length := by rw [← hgj, (hrows j hj).1]; exact hk
    have hgk : (c.getD j []).getD k [] = c[j][k] := by
      rw [hgj]; simp [List.getD_eq_getElem?_getD, List.getElem?_eq_getElem hkc]
    refine ⟨c[j][k], by rw [← hgk]; exact (hrows j hj).2 k hk, ?_, ?_, ?_⟩ <;>
      simp [entry, assemble, List.getElem?_map, List.getElem?_range ht, List.getElem?_eq_getElem hjc,
        List.getElem?_eq_getElem hkc]

theorem collect_ok_map' {β γ : Type} (l : List β) (f : β → γ) : collect (l.map fun x => (Except.ok (f x) : Except Err γ)) = .ok (l.map f) := by
  induction l with
  | nil => rfl
  | cons x xs ih => simp [collect, ih]

theorem collect_ok_map {β γ : Type} (l : List β) (f : β → γ) : Out.collect (l.map fun x => Out.ok (f x)) = .ok (l.map f) := by
  induction l with
  | nil => rfl
  | cons x xs ih => simp [Out.collect, ih]

/-- no cell assigns anything (a method string outside the table, on an input whose series can all be read): the three zero arrays -/
theorem modesOf_zero (cf : Nat → Nat → Except Err (List (Triple α))) (va : List α) (nq np : Nat)
    (h : ∀ j, j < nq → ∀ k, k < np → cf j k = .ok (zeroCol va)) :
    modesOf cf va nq np = .ok (zeros3 va.length nq np, zeros3 va.length nq np, zeros3 va.length nq np) := by
  have hc : cellsOf cf nq np = .ok ((List.range nq).map fun _ => (List.range np).map fun _ => zeroCol va) := by
    unfold cellsOf
    have : ((List.range nq).map fun j => collect ((List.range np).map fun k => cf j k))
        = (List.range nq).map fun _ => (Except.ok ((List.range np).map fun _ => zeroCol va) : Except Err _) := by
      refine List.map_congr_left fun j hj => ?_
      have : ((List.range np).map fun k => cf j k) = (List.range np).map fun _ => (Except.ok (zeroCol va) : Except Err _) :=
        List.map_congr_left fun k hk => h j (List.mem_range.mp hj) k (List.mem_range.mp hk)
      rw [this, collect_ok_map']
    rw [this, collect_ok_map']
  unfold modesOf
  simp only [hc, bind, Except.bind, pure, Except.pure, assemble, List.map_map, Function.comp_def, zeros3, zeroCol]
  have h0 : ∀ t, (va.map fun _ => ((0 : α), (0 : α), (0 : α))).getD t (0, 0, 0) = (0, 0, 0) := by
    intro t
    rw [List.getD_eq_getElem?_getD, List.getElem?_map]
    cases va[t]? <;> rfl
  simp only [h0]


/-! ### `interpolate_modes` on the generated data -/

/-- every volume has the `nq × np` frequencies the header announces -/
def Shaped (volumes : List (α × List (List α))) (nq np : Nat) : Prop :=
  ∀ vl ∈ volumes, ∀ j, j < nq → ∀ k, k < np → ∃ row x, vl.2[j]? = some row ∧ row[k]? = some x

theorem scalarsOf_map {β : Type} (l : List β) (f : β → α) : scalarsOf (l.map fun x => Val.scalar (f x)) = .ok (l.map f) := by
  induction l with
  | nil => rfl
  | cons x xs ih => simp [scalarsOf, ih]

/-- `volume.q_points[j].modes[k]` for one volume, as the interpreter evaluates it -/
def elemOut (vl : α × List (List α)) (j k : Nat) : Out (Val α) :=
  match vl.2[j]? with
  | none => .raise indexError
  | some row =>
    match row[k]? with
    | none => .raise indexError
    | some x => .ok (.scalar x)

/-- the comprehension over the volumes IS `seriesE`: same values, `IndexError` at the same (first) volume -/
theorem series_collect (volumes : List (α × List (List α))) (j k : Nat) (F : α × List (List α) → Out (Val α))
    (hF : ∀ vl, F vl = elemOut vl j k) :
    Out.collect (volumes.map F) = (Out.ofExcept (seriesE (volumes.map (·.2)) j k)).map fun xs => xs.map Val.scalar := by
  induction volumes with
  | nil => rfl
  | cons v vs ih =>
    simp only [List.map_cons, Out.collect, ih, hF v, elemOut, seriesE]
    cases h1 : v.2[j]? with
    | none => simp [Out.ofExcept, Out.map]
    | some row =>
      cases h2 : row[k]? with
      | none => simp [Out.ofExcept, Out.map, h2]
      | some x =>
        cases seriesE (vs.map (·.2)) j k with
        | error e => simp [Out.ofExcept, Out.map, h2]
        | ok xs => simp [Out.ofExcept, Out.map, h2]

theorem scalarsOf_scalars (xs : List α) : scalarsOf (xs.map Val.scalar) = .ok xs := by
  have := scalarsOf_map xs (fun x : α => x)
  simpa using this

theorem collect2_congr {β : Type} (nq np : Nat) (f g : Nat → Nat → Out β) (h : ∀ j, j < nq → ∀ k, k < np → f j k = g j k) :
    Out.collect ((List.range nq).map fun j => Out.collect ((List.range np).map fun k => f j k))
      = Out.collect ((List.range nq).map fun j => Out.collect ((List.range np).map fun k => g j k)) := by
  congr 1
  refine List.map_congr_left fun j hj => ?_
  congr 1
  exact List.map_congr_left fun k hk => h j (List.mem_range.mp hj) k (List.mem_range.mp hk)

theorem collect_replicate {β : Type} (n : Nat) (v : β) : Out.collect (List.replicate n (Out.ok v)) = .ok (List.replicate n v) := by
  induction n with
  | zero => rfl
  | succ n ih => simp [List.replicate_succ, Out.collect, ih]

/-- prologue of `interpolate_modes` (arguments, header fields, shapes, node volumes, loop ranges) and the dispatch chain -/
local macro "loop_prologue" "[" ts:Lean.Parser.Tactic.simpLemma,* "]" : tactic =>
  `(tactic| simp [LoopSpec.run, loop, bindArgs, lookup, evalSeq, evalShapes, natsOf, Ex.eval, evalArgs, evalKw, evalUKw, attrVal_nv,
      attrVal_nq, attrVal_np, attrVal_shape, attrVal_volumes, attrVal_volume, indexVal_shape, Out.ofOption, collect_ok_map,
      scalarsOf_map, applyFn_array, applyFn_range, chooseDispatch, eqVal_str, isinVal_strs, targetOk, targetPos, List.lookup,
      List.findIdx_cons, $ts,*])

/-- one pass through the loop body up to the call of the mode function -/
local macro "cell_eval" "[" ts:Lean.Parser.Tactic.simpLemma,* "]" : tactic =>
  `(tactic| simp [cellRun, loop, lookup, Ex.eval, evalArgs, evalKw, evalUKw, Out.ofOption, eqVal_nat, isinVal_range, applyFn_range,
      attrVal_volumes, attrVal_qpoints, $ts,*])

 set_option hygiene false in
/-- the element expression of the series comprehension, evaluated for one volume -/
local macro "elem_eval" : tactic =>
  `(tactic| (
    intro vl
    simp only [elemOut, indexVal_qpts]
    cases vl.2[j]? with
    | none => simp [indexError]
    | some row =>
      simp only [bind_ok, attrVal_modes, indexVal_pylist]
      cases row[k]? with
      | none => simp [indexError]
      | some x => simp))

set_option hygiene false in
/-- the proof for one method: `m` = the model's method, `I` = its kernel, `thm` = the source theorem of the function it dispatches to,
applied up to the two node arrays -/
local macro "loop_case" m:term "," I:term "," thm:term : tactic =>
  `(tactic| (
    loop_prologue []
    rw [collect2_congr nq np _ (fun j k => (Out.ofExcept (cellF $m order $I (volumes.map (·.1)) va (volumes.map (·.2)) j k)).map
        (toMine j k))]
    · have hg := loop_generic (cellF $m order $I (volumes.map (·.1)) va (volumes.map (·.2))) va
        (cellF_ok $m order $I hI (volumes.map (·.1)) va (volumes.map (·.2))) nq np
      exact hg
    · intro j hj k hk
      by_cases hskip : (j == 0 && decide (k < 3)) = true
      · have h0 : j = 0 := by simp at hskip; exact hskip.1
        have h3 : k < 3 := by simp at hskip; exact hskip.2
        cell_eval [h0, h3, cellF, toMine, Out.ofExcept, Out.map]
      · have hs : ¬ (j = 0 ∧ k < 3) := by simpa using hskip
        have hk3 : (j == 0) = true → decide (k < 3) = false := by
          intro h0
          have h0' : j = 0 := by simpa using h0
          simpa using fun h => hs ⟨h0', h⟩
        have hnot : (j == 0 && decide (k < 3)) = false := by simpa using hskip
        have hmu : ($m == Method.unknown) = false := by decide
        cases hj0 : (j == 0) <;>
        · cell_eval [hj0, hk3]
          rw [series_collect volumes j k _ (by elem_eval)]
          unfold cellF
          rw [hnot]
          cases hser : seriesE (volumes.map (·.2)) j k with
          | error e => simp [Out.ofExcept, Out.map]
          | ok ser =>
            simp only [Out.ofExcept, Out.map, bind_ok, scalarsOf_scalars, applyFn_array]
            rw [$thm:term]
            simp only [hmu, Bool.false_eq_true, if_false]
            generalize interpolateModeF $m order $I _ ser va = R
            cases R <;> simp [Out.ofExcept, Out.map, colsVal, toMine, hnot, cols3]))

section LoopData
variable (env : Env α) (order nv nq np : Nat) (volumes : List (α × List (List α))) (va : List α)

theorem loop_spline (hI : LenFor .spline (env.spline order)) :
    loop.run fns env [.qha nv nq np volumes, .arr va, .str "spline", .nat order]
      = (Out.ofExcept (interpolateModesF .spline order (env.spline order) (volumes.map (·.1)) va nq np (volumes.map (·.2)))).map
          fun r => [r.1, r.2.1, r.2.2] := by
  loop_case Method.spline, env.spline order, spline_is_source env order _ _ va

theorem loop_lagrange (hI : LenFor .lagrange env.lagrange) :
    loop.run fns env [.qha nv nq np volumes, .arr va, .str "lagrange", .nat order]
      = (Out.ofExcept (interpolateModesF .lagrange order env.lagrange (volumes.map (·.1)) va nq np (volumes.map (·.2)))).map
          fun r => [r.1, r.2.1, r.2.2] := by
  loop_case Method.lagrange, env.lagrange, lagrange_is_source env order _ _ va

theorem loop_krogh (hI : LenFor .krogh env.krogh) :
    loop.run fns env [.qha nv nq np volumes, .arr va, .str "krogh", .nat order]
      = (Out.ofExcept (interpolateModesF .krogh order env.krogh (volumes.map (·.1)) va nq np (volumes.map (·.2)))).map
          fun r => [r.1, r.2.1, r.2.2] := by
  loop_case Method.krogh, env.krogh, krogh_is_source env order _ _ va

theorem loop_pchip (hI : LenFor .pchip env.pchip) :
    loop.run fns env [.qha nv nq np volumes, .arr va, .str "pchip", .nat order]
      = (Out.ofExcept (interpolateModesF .pchip order env.pchip (volumes.map (·.1)) va nq np (volumes.map (·.2)))).map
          fun r => [r.1, r.2.1, r.2.2] := by
  loop_case Method.pchip, env.pchip, pchip_is_source env order _ _ va

theorem loop_akima (hI : LenFor .akima env.akima) :
    loop.run fns env [.qha nv nq np volumes, .arr va, .str "akima", .nat order]
      = (Out.ofExcept (interpolateModesF .akima order env.akima (volumes.map (·.1)) va nq np (volumes.map (·.2)))).map
          fun r => [r.1, r.2.1, r.2.2] := by
  loop_case Method.akima, env.akima, akima_is_source env order _ _ va

theorem loop_hermite (I : Interpolant α) :
    loop.run fns env [.qha nv nq np volumes, .arr va, .str "hermite", .nat order]
      = (Out.ofExcept (interpolateModesF .hermite order I (volumes.map (·.1)) va nq np (volumes.map (·.2)))).map
          fun r => [r.1, r.2.1, r.2.2] := by
  have hI : LenFor .hermite I := fun h => absurd rfl h
  loop_case Method.hermite, I, hermite_is_source env I order _ _ va

theorem loop_lsq_poly (hI : LenFor .lsqPoly (lsqKernel env.lstsq order)) :
    loop.run fns env [.qha nv nq np volumes, .arr va, .str "lsq_poly", .nat order]
      = (Out.ofExcept (interpolateModesF .lsqPoly order (lsqKernel env.lstsq order) (volumes.map (·.1)) va nq np (volumes.map (·.2)))).map
          fun r => [r.1, r.2.1, r.2.2] := by
  loop_case Method.lsqPoly, lsqKernel env.lstsq order, lsq_poly_is_source env order _ _ va

/-- a method string outside the dispatch table: nothing is assigned — but every non-acoustic series is still READ (`IndexError` on a
missing frequency); otherwise the three zero arrays are returned -/
theorem loop_unknown (I : Interpolant α) (s : String)
    (hs : s ≠ "lagrange" ∧ s ≠ "krogh" ∧ s ≠ "pchip" ∧ s ≠ "hermite" ∧ s ≠ "akima" ∧ s ≠ "spline" ∧ s ≠ "lsq_poly") :
    loop.run fns env [.qha nv nq np volumes, .arr va, .str s, .nat order]
      = (Out.ofExcept (interpolateModesF .unknown order I (volumes.map (·.1)) va nq np (volumes.map (·.2)))).map
          fun r => [r.1, r.2.1, r.2.2] := by
  obtain ⟨h1, h2, h3, h4, h5, h6, h7⟩ := hs
  have b1 : (s == "lagrange") = false := by simpa using h1
  have b2 : (s == "krogh") = false := by simpa using h2
  have b6 : (s == "spline") = false := by simpa using h6
  have b7 : (s == "lsq_poly") = false := by simpa using h7
  have hI : LenFor .unknown I := fun _ h => absurd rfl h
  loop_prologue [h1, h2, h3, h4, h5, h6, h7, b1, b2, b6, b7]
  -- the interpretation's cells: `none` (nothing assigned) or the exception of the series
  rw [collect2_congr nq np _ (fun j k => (Out.ofExcept (cellF .unknown order I (volumes.map (·.1)) va (volumes.map (·.2)) j k)).map
      fun _ => (none : Option (List (List α))))]
  · -- all cells ok ⇒ zero arrays; an exception ⇒ the same exception
    rw [interpolateModesF_eq_modesOf]
    have key : ∀ (cf : Nat → Nat → Except Err (List (Triple α))),
        (∀ j k col, cf j k = .ok col → col = zeroCol va) →
        (Out.collect ((List.range nq).map fun j => Out.collect ((List.range np).map fun k =>
            (Out.ofExcept (cf j k)).map fun _ => (none : Option (List (List α)))))).bind
          (fun cells => Out.collect [assembleOut cells nq np [va.length, nq, np] none,
            assembleOut cells nq np [va.length, nq, np] none, assembleOut cells nq np [va.length, nq, np] none])
          = (Out.ofExcept (modesOf cf va nq np)).map fun r => [r.1, r.2.1, r.2.2] := by
      intro cf hz
      have inner : ∀ j, Out.collect ((List.range np).map fun k => (Out.ofExcept (cf j k)).map fun _ => (none : Option (List (List α))))
          = (Out.ofExcept (collect ((List.range np).map fun k => cf j k))).map
              (fun row => List.zipWith (fun _ _ => (none : Option (List (List α)))) (List.range np) row) :=
        fun j => collect_lift _ _ _
      simp only [inner]
      rw [collect_lift (List.range nq) (fun j => collect ((List.range np).map fun k => cf j k))
        (fun j row => List.zipWith (fun _ _ => (none : Option (List (List α)))) (List.range np) row)]
      cases hc : cellsOf cf nq np with
      | error e =>
        have hc' := hc
        unfold cellsOf at hc'
        unfold modesOf
        simp [hc, hc', Out.ofExcept, Out.map, bind, Except.bind]
      | ok c =>
        have hc' := hc
        unfold cellsOf at hc'
        obtain ⟨hlen, hrows⟩ := cells_ok cf nq np c hc
        have hall : ∀ j, j < nq → ∀ k, k < np → cf j k = .ok (zeroCol va) := fun j hj k hk => by
          have := (hrows j hj).2 k hk
          rw [this, hz j k _ this]
        rw [modesOf_zero cf va nq np hall]
        simp [hc', Out.ofExcept, Out.map, assembleOut, Out.collect]
    exact key _ (fun j k col h => by
      unfold cellF at h
      split at h
      · exact (Except.ok.inj h).symm
      · split at h
        · cases h
        · simp only [BEq.rfl, if_true] at h
          exact (Except.ok.inj h).symm)
  · intro j hj k hk
    by_cases hskip : (j == 0 && decide (k < 3)) = true
    · have h0 : j = 0 := by simp at hskip; exact hskip.1
      have h3 : k < 3 := by simp at hskip; exact hskip.2
      cell_eval [h0, h3, cellF, Out.ofExcept, Out.map]
    · have hs : ¬ (j = 0 ∧ k < 3) := by simpa using hskip
      have hk3 : (j == 0) = true → decide (k < 3) = false := by
        intro h0
        have h0' : j = 0 := by simpa using h0
        simpa using fun h => hs ⟨h0', h⟩
      have hnot : (j == 0 && decide (k < 3)) = false := by simpa using hskip
      cases hj0 : (j == 0) <;>
      · cell_eval [hj0, hk3]
        rw [series_collect volumes j k _ (by elem_eval)]
        unfold cellF
        rw [hnot]
        cases hser : seriesE (volumes.map (·.2)) j k with
        | error e => simp [Out.ofExcept, Out.map]
        | ok ser => simp [Out.ofExcept, Out.map, scalarsOf_scalars, applyFn_array]

end LoopData

/-- THE LOOP IS THE SOURCE'S.  For every method string `s` (the seven of the dispatch table and any other), every order, EVERY input
— no volume, volume blocks with too few q-points or modes included — and every library whose kernel returns one sample per evaluation
point: the interpretation of the translated `interpolate_modes` is the model's `interpolateModesF` for the method `Method.ofString s`,
run with the kernel the libraries provide for that method — same arrays in the same order, same first exception. -/
theorem loop_is_source (env : Env α) (s : String) (order nv nq np : Nat) (volumes : List (α × List (List α))) (va : List α)
    (hI : LenFor (Method.ofString s) (env.kernelFor (Method.ofString s) order)) :
    loop.run fns env [.qha nv nq np volumes, .arr va, .str s, .nat order]
      = (Out.ofExcept (interpolateModesF (Method.ofString s) order (env.kernelFor (Method.ofString s) order)
            (volumes.map (·.1)) va nq np (volumes.map (·.2)))).map fun r => [r.1, r.2.1, r.2.2] := by
  by_cases h1 : s = "spline"
  · subst h1; exact loop_spline env order nv nq np volumes va hI
  by_cases h2 : s = "lagrange"
  · subst h2; exact loop_lagrange env order nv nq np volumes va hI
  by_cases h3 : s = "krogh"
  · subst h3; exact loop_krogh env order nv nq np volumes va hI
  by_cases h4 : s = "pchip"
  · subst h4; exact loop_pchip env order nv nq np volumes va hI
  by_cases h5 : s = "akima"
  · subst h5; exact loop_akima env order nv nq np volumes va hI
  by_cases h6 : s = "hermite"
  · subst h6; exact loop_hermite env order nv nq np volumes va _
  by_cases h7 : s = "lsq_poly"
  · subst h7; exact loop_lsq_poly env order nv nq np volumes va hI
  have hm : Method.ofString s = .unknown := by
    unfold Method.ofString
    split <;> simp_all
  rw [hm]
  exact loop_unknown env order nv nq np volumes va _ s ⟨h2, h3, h4, h6, h5, h1, h7⟩

/-! ### the faithful model on well-formed inputs is the model of `CijModel/Interp.lean` -/

theorem seriesE_ok (freqs : List (List (List α))) (j k : Nat) (ser : List α) (h : seriesE freqs j k = .ok ser) :
    ser = series freqs j k := by
  induction freqs generalizing ser with
  | nil => simp [seriesE] at h; subst h; rfl
  | cons v vs ih =>
    unfold seriesE at h
    cases h1 : v[j]? with
    | none => simp [h1] at h
    | some row =>
      cases h2 : row[k]? with
      | none => simp [h1, h2] at h
      | some x =>
        cases h3 : seriesE vs j k with
        | error e => simp [h1, h2, h3] at h
        | ok xs =>
          simp only [h1, h2, h3, Except.ok.injEq] at h
          subst h
          simp [series, List.getD_eq_getElem?_getD, h1, h2, ih xs h3]

theorem seriesE_shaped (freqs : List (List (List α))) (j k : Nat)
    (h : ∀ vol ∈ freqs, ∃ row x, vol[j]? = some row ∧ row[k]? = some x) : seriesE freqs j k = .ok (series freqs j k) := by
  induction freqs with
  | nil => rfl
  | cons v vs ih =>
    obtain ⟨row, x, h1, h2⟩ := h v List.mem_cons_self
    have := ih fun vol hv => h vol (List.mem_cons_of_mem _ hv)
    simp [seriesE, h1, h2, this, series, List.getD_eq_getElem?_getD]

/-- with at least one volume and node arrays of equal length (what `interpolate_modes` builds) `modeNodesF` is `modeNodes` -/
theorem modeNodesF_eq {β : Type} (m : Method) (order : Nat) (vols freqs : List β) (hl : vols.length = freqs.length) (hne : vols ≠ []) :
    modeNodesF m order vols freqs = modeNodes m order vols freqs := by
  by_cases ho : order = 0
  · subst ho; cases m <;> rfl
  · have hk : (vols.length + order - 1) / order ≠ 0 := ceilDiv_ne_zero _ _ (by simpa using hne) ho
    cases m <;> simp [modeNodesF, modeNodes, thin, thinInterval, ho, hk, ← hl]

theorem interpolateModeF_eq (m : Method) (order : Nat) (I : Interpolant α) (vols freqs va : List α) (hl : vols.length = freqs.length)
    (hne : vols ≠ []) : interpolateModeF m order I vols freqs va = interpolateMode m order I vols freqs va := by
  unfold interpolateModeF interpolateMode
  rw [modeNodesF_eq m order vols freqs hl hne]

theorem cellsOf_congr {β : Type} (f g : Nat → Nat → Except Err β) (nq np : Nat) (h : ∀ j, j < nq → ∀ k, k < np → f j k = g j k) :
    cellsOf f nq np = cellsOf g nq np := by
  unfold cellsOf
  congr 1
  refine List.map_congr_left fun j hj => ?_
  congr 1
  exact List.map_congr_left fun k hk => h j (List.mem_range.mp hj) k (List.mem_range.mp hk)

/-- ON WELL-FORMED INPUTS (at least one volume, every block with the `nq × np` frequencies of the header) the faithful model is the model
every other theorem of C11 / C12 / C13 is stated about -/
theorem interpolateModesF_eq (m : Method) (order : Nat) (I : Interpolant α) (va : List α) (nq np : Nat)
    (volumes : List (α × List (List α))) (hne : volumes ≠ []) (hshape : Shaped volumes nq np) :
    interpolateModesF m order I (volumes.map (·.1)) va nq np (volumes.map (·.2))
      = interpolateModes m order I (volumes.map (·.1)) va nq np (volumes.map (·.2)) := by
  unfold interpolateModesF interpolateModes cells
  rw [cellsOf_congr _ (fun j k => cell m order I (volumes.map (·.1)) va j k (series (volumes.map (·.2)) j k)) nq np]
  · rfl
  · intro j hj k hk
    have hs : seriesE (volumes.map (·.2)) j k = .ok (series (volumes.map (·.2)) j k) := by
      apply seriesE_shaped
      intro vol hv
      obtain ⟨vl, hvl, rfl⟩ := List.mem_map.mp hv
      exact hshape vl hvl j hj k hk
    unfold cellF cell
    simp only [hs]
    rw [interpolateModeF_eq m order I _ _ va (by simp [series]) (by simpa using hne)]

/-! ### the libraries the model is run with -/

theorem lenOK_lsqKernel (S : List (List α) → List α → Except Err (List α)) (order : Nat) : LenOK (lsqKernel S order) := by
  intro xs ys pts r h
  unfold lsqKernel at h
  split at h
  · cases h
  · cases h; simp

section Std
variable {β : Type} [Add β] [Sub β] [Mul β] [Div β] [Neg β] [Zero β] [One β] [NatCast β] [BEq β] [LT β] [DecidableLT β] [LE β]
  [DecidableLE β] [ExpLog β]

/-- CONTRACT of `numpy.linalg.lstsq` on the systems `lstsq_polyfit` builds: on `vander(x, n + 1)` and a 1-d right-hand side it returns
what the model's exact solver `lstsqPolyfit` returns (which IS the least-squares polynomial: `lsq_minimises`, `lsq_total`) -/
def SolvesVander (S : List (List β) → List β → Except Err (List β)) : Prop :=
  ∀ xs ys n, S (vander xs (n + 1)) ys = match lstsqPolyfit xs ys n with | some a => .ok a | none => .error .linAlg

theorem lsqKernel_model (S : List (List β) → List β → Except Err (List β)) (hS : SolvesVander S) (order : Nat) :
    lsqKernel S order = lsqInterpolant order := by
  funext xs ys pts
  unfold lsqKernel lsqInterpolant
  rw [hS xs ys order]
  cases lstsqPolyfit xs ys order <;> rfl

theorem lenOK_newton : LenOK (newtonInterpolant : Interpolant β) := by
  intro xs ys pts r h
  unfold newtonInterpolant at h
  cases h; simp

theorem mapM_length {γ δ : Type} (f : γ → Option δ) (l : List γ) (r : List δ) (h : l.mapM f = some r) : r.length = l.length := by
  induction l generalizing r with
  | nil => simp at h; subst h; rfl
  | cons x xs ih =>
    rw [List.mapM_cons] at h
    cases hx : f x with
    | none => simp [hx] at h
    | some y =>
      cases hxs : xs.mapM f with
      | none => simp [hx, hxs] at h
      | some ys =>
        simp [hx, hxs] at h
        subst h
        simp [ih ys hxs]

theorem lenOK_hermite (slopes : List β → List β → List β) : LenOK (PPoly.hermiteInterpolant slopes) := by
  intro xs ys pts r h
  unfold PPoly.hermiteInterpolant at h
  split at h
  · simp only at h
    split at h
    · rename_i r' hr
      cases h
      exact mapM_length _ _ _ hr
    · cases h
  · cases h

/-- the libraries as the model has them: FITPACK a parameter `lib`, the interpolating polynomial (Newton form) for `lagrange` and
`krogh`, the modelled scipy classes for `pchip` and `akima`, a least-squares solver `S` -/
def stdEnv (lib : Interpolant β) (S : List (List β) → List β → Except Err (List β)) : Env β :=
  ⟨fun _ => lib, newtonInterpolant, newtonInterpolant, PPoly.pchipInterpolant, PPoly.akimaInterpolant, S⟩

/-- … and with them every method runs with exactly the kernel `PPoly.kernelFull` names -/
theorem stdEnv_kernelFor (lib : Interpolant β) (S : List (List β) → List β → Except Err (List β)) (hS : SolvesVander S)
    (m : Method) (order : Nat) : (stdEnv lib S).kernelFor m order = PPoly.kernelFull m order lib := by
  cases m <;> simp [stdEnv, Env.kernelFor, PPoly.kernelFull, kernelOf, lsqKernel_model S hS]

theorem stdEnv_lenOK (lib : Interpolant β) (hlib : LenOK lib) (S : List (List β) → List β → Except Err (List β)) (m : Method)
    (order : Nat) : LenOK ((stdEnv lib S).kernelFor m order) := by
  cases m <;> simp only [stdEnv, Env.kernelFor]
  all_goals first
    | exact hlib
    | exact lenOK_newton
    | exact lenOK_lsqKernel S order
    | exact lenOK_hermite _

/-- (iii) DISCHARGED for the modelled kernels: with the libraries of `stdEnv` the loop's kernel contract holds for every method but the
FITPACK spline, for which it is the contract of the parameter `lib` -/
theorem stdEnv_lenFor (lib : Interpolant β) (S : List (List β) → List β → Except Err (List β)) (m : Method) (order : Nat)
    (hlib : m = .spline → LenOK lib) : LenFor m ((stdEnv lib S).kernelFor m order) := by
  intro hh hu
  cases m
  case hermite => exact absurd rfl hh
  case unknown => exact absurd rfl hu
  case spline => exact hlib rfl
  all_goals simp only [stdEnv, Env.kernelFor]
  all_goals first
    | exact lenOK_newton
    | exact lenOK_lsqKernel S order
    | exact lenOK_hermite _

/-- CONTRACT of `numpy.linalg.lstsq` including the system with NO rows (no volume): the zero solution there (minimum norm, no
exception), the model's exact solver otherwise -/
def SolvesVanderF (S : List (List β) → List β → Except Err (List β)) : Prop :=
  ∀ xs ys n, S (vander xs (n + 1)) ys =
    if xs.isEmpty then .ok (List.replicate (n + 1) 0)
    else match lstsqPolyfit xs ys n with | some a => .ok a | none => .error .linAlg

theorem lsqKernel_modelF (S : List (List β) → List β → Except Err (List β)) (hS : SolvesVanderF S) (order : Nat) :
    lsqKernel S order = lsqInterpolantF order := by
  funext xs ys pts
  unfold lsqKernel lsqInterpolantF lsqInterpolant
  rw [hS xs ys order]
  by_cases h : xs.isEmpty
  · simp [h]
  · simp only [h, Bool.false_eq_true, if_false]
    cases lstsqPolyfit xs ys order <;> rfl

theorem lenOK_lsqInterpolantF (order : Nat) : LenOK (lsqInterpolantF order : Interpolant β) := by
  intro xs ys pts r h
  unfold lsqInterpolantF lsqInterpolant at h
  split at h
  · cases h; simp
  · split at h
    · cases h
    · cases h; simp

end Std

/-- for the examples of Properties/C11.lean: the translated loop RUN over ℚ with exp = log = id, the libraries of `stdEnv` (a stand-in
spline library that raises `ValueError`, a solver that raises), a header with ONE q-point and `np` modes, the grid `[4]` -/
def runQ (vols : List (Rat × List (List Rat))) (np : Nat) (s : String) (order : Nat) : Out (List (List (List (List Rat)))) :=
  letI : ExpLog Rat := ⟨id, id⟩
  loop.run (α := Rat) fns (stdEnv (β := Rat) (fun _ _ _ => Except.error Err.valueError) (fun _ _ => Except.error Err.linAlg))
    [.qha vols.length 1 np vols, .arr [4], .str s, .nat order]

/-! ### inventory -/

/-- every expression of the module -/
def allExprs : List Ex := fns.flatMap FnSpec.exprs ++ loop.exprs

/-- every library function / class the module names -/
def usedLibs : List Lib := allExprs.flatMap Ex.libs

/-- everything the translator could not place in its grammar -/
def outsideGrammar : List String :=
  allExprs.flatMap Ex.outside ++ loop.dispatch.flatMap fun d => d.targets.flatMap fun t => t.index.flatMap AxisSel.outside

/-- NOTHING of the module is outside the grammar: no `other` expression, no unknown dotted name, no unknown keyword, no unknown index -/
theorem nothing_outside : outsideGrammar = [] := by decide +kernel

/-- the library functions the module calls are, without repetition, these (in order of first use); in particular the ONLY elementwise
transcendental functions are `numpy.log` and `numpy.exp` -/
theorem used_libs : usedLibs.eraseDups =
    [.spUnivariateSpline, .npFlip, .npLog, .npExp, .pyInt, .npCeil, .spLagrange, .npPolyder, .spKrogh, .spPchip, .spAkima, .spHermite,
      .npVander, .npLstsq, .npPoly1d, .npPolyval, .npArray, .pyRange] := by decide +kernel

/-- the translator's name tables are the inverse of `Lib.pyName` / `Kw.pyName` -/
theorem tables_ok : (∀ e ∈ Generated.ModeGammaGlue.libTable, e.2.pyName = e.1) ∧ (∀ e ∈ Generated.ModeGammaGlue.kwTable, e.2.pyName = e.1) := by
  decide +kernel

/-- INVENTORY: every `def` / `lambda` / `class` of the file is one of the seven translated functions (each defined once), nothing is
only pinned; the module has no statement besides imports and these definitions; `numpy` is numpy and `scipy` is scipy -/
theorem inventory_complete :
    Generated.ModeGammaGlue.definedFunctions = Generated.ModeGammaGlue.handled.map (·.1) ∧
    Generated.ModeGammaGlue.definedFunctions.Nodup ∧
    (∀ h ∈ Generated.ModeGammaGlue.handled, h.2 = .translated "fns" ∨ h.2 = .translated "loop") ∧
    Generated.ModeGammaGlue.definedFunctions = fns.map (·.name) ++ [loop.name] ∧
    Generated.ModeGammaGlue.moduleAssigns = [] ∧ Generated.ModeGammaGlue.moduleOtherStatements = [] ∧
    (∀ e ∈ Generated.ModeGammaGlue.imports, (e.1 = "numpy" → e.2 = "numpy") ∧ (e.1 = "scipy" → e.2.startsWith "scipy") ∧
      e.1 ∉ Generated.ModeGammaGlue.definedFunctions) := by
  decide +kernel

end Cij.ModeGammaGlue
