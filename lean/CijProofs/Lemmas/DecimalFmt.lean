/-
  Character-level proof of the formatter/parser law for the driver's exact-decimal instance `Cij.Lex.ratFmt`
  (`CijModel/QhaInput.lean`):   ratParse (ratFmtStr k q) = some (ratRound k q)   for EVERY `k : Nat`, `q : Rat`
  (`ratFmt_lawful`), plus the facts about `ratRound` the C17 property uses implicitly (idempotent, within half a
  unit of the last printed place, monotone).  Helper lemmas only; the property statements are in
  `CijProofs/Properties/C17.lean`.

  Shape of the proof: `ratFmtStr` is re-expressed as a list of characters (`ratFmtChars`, proved equal);
  `ratParseChars` is split into sign consumption (`signSplit`) and the remainder (`parseBody`, the same text as in
  the model, equal by `rfl`); digit runs are handled through core's `Nat.toDigits` / `Nat.ofDigitChars` lemmas.
  No sign corner is excluded: a negative value that rounds to zero prints "-0.00…", which parses to `-(0) = 0`
  in `Rat` (there is no negative zero in the model's number type), and `k = 0` prints no decimal point.
-/
import CijModel.QhaInput
import Mathlib.Tactic.Linarith
import Mathlib.Tactic.Ring
import Mathlib.Algebra.Order.Field.Rat
import Mathlib.Algebra.Order.Field.Basic

namespace Cij.Lex

/-- everything `ratParseChars` does after the optional sign has been consumed (same text as in the model) -/
def parseBody (neg : Bool) (cs : List Char) : Option Rat :=
  let ip := cs.takeWhile Char.isDigit
  let r1 := cs.dropWhile Char.isDigit
  let (fp, r2) := match r1 with
    | '.' :: r => (r.takeWhile Char.isDigit, r.dropWhile Char.isDigit)
    | r => ([], r)
  if ip.isEmpty && fp.isEmpty then none else
  let mant : Rat := mkRat (Int.ofNat (digitsVal (ip ++ fp))) (pow10 fp.length)
  let mant := if neg then -mant else mant
  match r2 with
  | [] => some mant
  | e :: r =>
    if e == 'e' || e == 'E' then
      let (eneg, ds) := match r with
        | '-' :: d => (true, d)
        | '+' :: d => (false, d)
        | d => (false, d)
      if ds.isEmpty || !ds.all Char.isDigit then none
      else
        let ex := digitsVal ds
        some (if eneg then mant / ((pow10 ex : Nat) : Rat) else mant * ((pow10 ex : Nat) : Rat))
    else none

theorem ratParseChars_minus (r : List Char) : ratParseChars ('-' :: r) = parseBody true r := rfl

def signSplit (cs : List Char) : Bool × List Char :=
  match cs with
    | '-' :: r => (true, r)
    | '+' :: r => (false, r)
    | r => (false, r)

theorem ratParseChars_eq (cs : List Char) : ratParseChars cs = parseBody (signSplit cs).1 (signSplit cs).2 := rfl

theorem signSplit_digit (c : Char) (r : List Char) (hc : c.isDigit = true) : signSplit (c :: r) = (false, c :: r) := by
  have h1 : c ≠ '-' := by rintro rfl; simp at hc
  have h2 : c ≠ '+' := by rintro rfl; simp at hc
  unfold signSplit
  split
  · rename_i h; simp at h; exact absurd h.1 h1
  · rename_i h; simp at h; exact absurd h.1 h2
  · rfl

theorem ratParseChars_digit (c : Char) (r : List Char) (hc : c.isDigit = true) :
    ratParseChars (c :: r) = parseBody false (c :: r) := by
  rw [ratParseChars_eq, signSplit_digit c r hc]

theorem takeWhile_all {ds : List Char} (h : ∀ c ∈ ds, c.isDigit = true) : ds.takeWhile Char.isDigit = ds := by
  induction ds with
  | nil => rfl
  | cons d ds ih => simp [h d (by simp), ih (fun c hc => h c (by simp [hc]))]

theorem dropWhile_all {ds : List Char} (h : ∀ c ∈ ds, c.isDigit = true) : ds.dropWhile Char.isDigit = [] := by
  induction ds with
  | nil => rfl
  | cons d ds ih => simp [h d (by simp), ih (fun c hc => h c (by simp [hc]))]

theorem takeWhile_dot {ds : List Char} (h : ∀ c ∈ ds, c.isDigit = true) (r : List Char) :
    (ds ++ '.' :: r).takeWhile Char.isDigit = ds := by
  induction ds with
  | nil => simp
  | cons d ds ih => simp [h d (by simp), ih (fun c hc => h c (by simp [hc]))]

theorem dropWhile_dot {ds : List Char} (h : ∀ c ∈ ds, c.isDigit = true) (r : List Char) :
    (ds ++ '.' :: r).dropWhile Char.isDigit = '.' :: r := by
  induction ds with
  | nil => simp
  | cons d ds ih => simp [h d (by simp), ih (fun c hc => h c (by simp [hc]))]

theorem parseBody_dot (neg : Bool) {ip fp : List Char} (hip : ∀ c ∈ ip, c.isDigit = true) (hne : ip ≠ [])
    (hfp : ∀ c ∈ fp, c.isDigit = true) :
    parseBody neg (ip ++ '.' :: fp) =
      some (if neg then -(mkRat (Int.ofNat (digitsVal (ip ++ fp))) (pow10 fp.length))
            else mkRat (Int.ofNat (digitsVal (ip ++ fp))) (pow10 fp.length)) := by
  unfold parseBody
  simp only [takeWhile_dot hip, dropWhile_dot hip, takeWhile_all hfp, dropWhile_all hfp]
  simp [hne]

theorem parseBody_nodot (neg : Bool) {ip : List Char} (hip : ∀ c ∈ ip, c.isDigit = true) (hne : ip ≠ []) :
    parseBody neg ip =
      some (if neg then -(mkRat (Int.ofNat (digitsVal ip)) 1) else mkRat (Int.ofNat (digitsVal ip)) 1) := by
  unfold parseBody
  simp only [takeWhile_all hip, dropWhile_all hip]
  simp [hne, pow10]


/-! ### rounding: sign -/

theorem roundHalfEven_nonneg {y : Rat} (h : 0 ≤ y) : 0 ≤ roundHalfEven y := by
  have hf : 0 ≤ y.floor := Rat.le_floor_iff.mpr (by simpa using h)
  unfold roundHalfEven
  simp only
  split_ifs <;> omega

theorem roundHalfEven_nonpos {y : Rat} (h : y < 0) : roundHalfEven y ≤ 0 := by
  have hf : y.floor < 0 := Rat.floor_lt_iff.mpr (by simpa using h)
  unfold roundHalfEven
  simp only
  split_ifs <;> omega

theorem pow10_pos (k : Nat) : 0 < pow10 k := Nat.pow_pos (by decide)

theorem scaled_nonneg {x : Rat} (k : Nat) (h : ¬ x < 0) : 0 ≤ x * ((pow10 k : Nat) : Rat) := by
  have : (0 : Rat) < ((pow10 k : Nat) : Rat) := by exact_mod_cast pow10_pos k
  have hx : 0 ≤ x := not_lt.mp h
  positivity

theorem scaled_neg {x : Rat} (k : Nat) (h : x < 0) : x * ((pow10 k : Nat) : Rat) < 0 := by
  have : (0 : Rat) < ((pow10 k : Nat) : Rat) := by exact_mod_cast pow10_pos k
  exact mul_neg_of_neg_of_pos h this

/-! ### the printed characters -/

/-- `ratFmtStr` as a list of characters -/
def ratFmtChars (k : Nat) (x : Rat) : List Char :=
  let a := (roundHalfEven (x * (pow10 k : Nat))).natAbs
  (if x < 0 then ['-'] else []) ++ (Nat.toDigits 10 (a / pow10 k) ++
    (if k = 0 then [] else '.' :: padLeft k '0' (Nat.toDigits 10 (a % pow10 k))))

theorem toList_ratFmtStr (k : Nat) (x : Rat) : (ratFmtStr k x).toList = ratFmtChars k x := by
  unfold ratFmtStr ratFmtChars
  by_cases hk : k = 0 <;> by_cases hx : x < 0 <;> simp [hk, hx]

theorem digits_toDigits (n : Nat) : ∀ c ∈ Nat.toDigits 10 n, c.isDigit = true :=
  fun _ hc => Nat.isDigit_of_mem_toDigits (by decide) (by decide) hc

theorem digitsVal_eq (cs : List Char) : digitsVal cs = Nat.ofDigitChars 10 cs 0 := rfl

theorem digitsVal_toDigits (n : Nat) : digitsVal (Nat.toDigits 10 n) = n := by
  rw [digitsVal_eq, Nat.ofDigitChars_ten_toDigits]

theorem length_padLeft {k : Nat} {cs : List Char} (h : cs.length ≤ k) : (padLeft k '0' cs).length = k := by
  simp [padLeft]; omega

theorem digits_padLeft (k : Nat) {cs : List Char} (h : ∀ c ∈ cs, c.isDigit = true) :
    ∀ c ∈ padLeft k '0' cs, c.isDigit = true := by
  intro c hc
  simp only [padLeft, List.mem_append, List.mem_replicate] at hc
  rcases hc with ⟨_, rfl⟩ | hc
  · rfl
  · exact h c hc

theorem digitsVal_padLeft (k : Nat) (cs : List Char) : digitsVal (padLeft k '0' cs) = digitsVal cs := by
  simp [digitsVal_eq, padLeft, Nat.ofDigitChars_append]

theorem digitsVal_append (a b : List Char) : digitsVal (a ++ b) = 10 ^ b.length * digitsVal a + digitsVal b := by
  rw [digitsVal_eq, Nat.ofDigitChars_append, Nat.ofDigitChars_eq_ofDigitChars_zero]; rfl

/-- the parse of the printed characters, before any arithmetic on the result -/
theorem ratParseChars_fmtChars (k : Nat) (x : Rat) :
    ratParseChars (ratFmtChars k x) =
      some (if x < 0 then -(mkRat ((roundHalfEven (x * (pow10 k : Nat))).natAbs : Int) (pow10 k))
            else mkRat ((roundHalfEven (x * (pow10 k : Nat))).natAbs : Int) (pow10 k)) := by
  generalize ha : (roundHalfEven (x * (pow10 k : Nat))).natAbs = a
  have hip := digits_toDigits (a / pow10 k)
  have hne : Nat.toDigits 10 (a / pow10 k) ≠ [] := Nat.toDigits_ne_nil
  -- strip the sign
  have hsign : ∀ tail, ratParseChars ((if x < 0 then ['-'] else []) ++ (Nat.toDigits 10 (a / pow10 k) ++ tail))
      = parseBody (decide (x < 0)) (Nat.toDigits 10 (a / pow10 k) ++ tail) := by
    intro tail
    by_cases hx : x < 0
    · simp [hx, ratParseChars_minus]
    · obtain ⟨c, r, hcr⟩ := List.exists_cons_of_ne_nil hne
      have hc : c.isDigit = true := hip c (by simp [hcr])
      simp only [hx, if_false, List.nil_append, hcr, List.cons_append, decide_false]
      exact ratParseChars_digit c _ hc
  unfold ratFmtChars
  simp only [ha]
  rw [hsign]
  by_cases hk : k = 0
  · subst hk
    simp only [if_true, List.append_nil]
    rw [parseBody_nodot _ hip hne, digitsVal_toDigits]
    simp [pow10]
  · have hk' : 0 < k := Nat.pos_of_ne_zero hk
    have hlen : (Nat.toDigits 10 (a % pow10 k)).length ≤ k :=
      (Nat.length_toDigits_le_iff (by decide) hk').mpr (Nat.mod_lt _ (pow10_pos k))
    simp only [hk, if_false]
    rw [parseBody_dot _ hip hne (digits_padLeft k (digits_toDigits _)), length_padLeft hlen,
      digitsVal_append, length_padLeft hlen, digitsVal_padLeft, digitsVal_toDigits, digitsVal_toDigits]
    have : 10 ^ k * (a / pow10 k) + a % pow10 k = a := Nat.div_add_mod a (pow10 k)
    rw [this]
    simp

/-- THE LAW for the driver's instance: reading back what `"%.{k}f"` printed gives the value rounded to `k` decimals -/
theorem ratParse_ratFmtStr (k : Nat) (x : Rat) : ratParse (ratFmtStr k x) = some (ratRound k x) := by
  unfold ratParse
  rw [toList_ratFmtStr, ratParseChars_fmtChars]
  unfold ratRound
  by_cases hx : x < 0
  · have hn := roundHalfEven_nonpos (scaled_neg k hx)
    simp only [hx, if_true, Rat.neg_mkRat]
    congr 2
    omega
  · have hn := roundHalfEven_nonneg (scaled_nonneg k hx)
    simp only [hx, if_false]
    congr 2
    omega

theorem ratFmt_lawful : ratFmt.Lawful := fun k x => ratParse_ratFmtStr k x


/-! ### rounding: idempotence, error bound, monotonicity -/

theorem roundHalfEven_intCast (n : Int) : roundHalfEven (n : Rat) = n := by
  unfold roundHalfEven
  simp [Rat.floor_intCast]

theorem pow10_cast_pos (k : Nat) : (0 : Rat) < ((pow10 k : Nat) : Rat) := by exact_mod_cast pow10_pos k

theorem ratRound_eq_div (k : Nat) (x : Rat) :
    ratRound k x = ((roundHalfEven (x * (pow10 k : Nat)) : Int) : Rat) / ((pow10 k : Nat) : Rat) :=
  Rat.mkRat_eq_div _ _

theorem ratRound_mul_pow10 (k : Nat) (x : Rat) :
    ratRound k x * ((pow10 k : Nat) : Rat) = ((roundHalfEven (x * (pow10 k : Nat)) : Int) : Rat) := by
  rw [ratRound_eq_div, div_mul_cancel₀ _ (pow10_cast_pos k).ne']

theorem ratRound_def (k : Nat) (y : Rat) :
    ratRound k y = mkRat (roundHalfEven (y * (pow10 k : Nat))) (pow10 k) := rfl

theorem ratRound_idem (k : Nat) (x : Rat) : ratRound k (ratRound k x) = ratRound k x := by
  rw [ratRound_def k (ratRound k x), ratRound_mul_pow10, roundHalfEven_intCast]
  rfl

theorem roundHalfEven_err (y : Rat) : |((roundHalfEven y : Int) : Rat) - y| ≤ 1 / 2 := by
  have h1 := Rat.floor_le y
  have h2 := Rat.lt_floor_add_one y
  push_cast at h2
  unfold roundHalfEven
  simp only
  rw [abs_le]
  split_ifs with ha hb hc <;> push_cast <;> constructor <;> linarith

theorem ratRound_err (k : Nat) (x : Rat) : |ratRound k x - x| ≤ 1 / (2 * (10 : Rat) ^ k) := by
  have hP := pow10_cast_pos k
  have hP' : ((pow10 k : Nat) : Rat) = (10 : Rat) ^ k := by simp [pow10]
  have h := roundHalfEven_err (x * ((pow10 k : Nat) : Rat))
  have hx : ratRound k x - x = (((roundHalfEven (x * (pow10 k : Nat)) : Int) : Rat) - x * ((pow10 k : Nat) : Rat))
      / ((pow10 k : Nat) : Rat) := by
    rw [ratRound_eq_div, sub_div, mul_div_cancel_right₀ _ hP.ne']
  rw [hx, abs_div, abs_of_pos hP, ← hP', div_le_div_iff₀ hP (by positivity)]
  nlinarith [abs_nonneg (((roundHalfEven (x * (pow10 k : Nat)) : Int) : Rat) - x * ((pow10 k : Nat) : Rat))]

theorem roundHalfEven_mono {x y : Rat} (h : x ≤ y) : roundHalfEven x ≤ roundHalfEven y := by
  have hf : x.floor ≤ y.floor := Rat.floor_monotone h
  have hx1 := Rat.floor_le x
  have hy1 := Rat.floor_le y
  have hx2 := Rat.lt_floor_add_one x
  have hy2 := Rat.lt_floor_add_one y
  rcases hf.lt_or_eq with hlt | heq
  · have ha : roundHalfEven x ≤ x.floor + 1 := by unfold roundHalfEven; simp only; split_ifs <;> omega
    have hb : y.floor ≤ roundHalfEven y := by unfold roundHalfEven; simp only; split_ifs <;> omega
    omega
  · unfold roundHalfEven
    simp only
    rw [heq] at hx1 hx2 ⊢
    split_ifs <;> first | omega | (exfalso; linarith)

theorem ratRound_mono (k : Nat) {x y : Rat} (h : x ≤ y) : ratRound k x ≤ ratRound k y := by
  have hP := pow10_cast_pos k
  rw [ratRound_eq_div, ratRound_eq_div]
  have := roundHalfEven_mono (mul_le_mul_of_nonneg_right h hP.le)
  have h' : ((roundHalfEven (x * (pow10 k : Nat)) : Int) : Rat) ≤ ((roundHalfEven (y * (pow10 k : Nat)) : Int) : Rat) := by
    exact_mod_cast this
  exact div_le_div_of_nonneg_right h' hP.le

/-- a value that is already a multiple of 10^-k is printed and read back exactly -/
theorem ratRound_of_grid (k : Nat) (n : Int) : ratRound k (mkRat n (pow10 k)) = mkRat n (pow10 k) := by
  have e : mkRat n (pow10 k) * ((pow10 k : Nat) : Rat) = (n : Rat) := by
    rw [Rat.mkRat_eq_div, div_mul_cancel₀ _ (pow10_cast_pos k).ne']
  rw [ratRound_def, e, roundHalfEven_intCast]

end Cij.Lex
