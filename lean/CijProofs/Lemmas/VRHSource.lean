/-
  The point formulas of `CijModel/VRH.lean` ARE the expressions the translator extracts from the bodies of the
  averaging / velocity properties of `CijVolumeBaseInterface` on this run (`Generated/VRHExprs.lean`) — for every scalar
  type, hence also for the `Float` run.  All by unfolding.
-/
import CijModel.VExpr
import Generated.VRHExprs

namespace Cij.VExpr
open Cij.VRH

variable {α : Type} [Scalar α] [Add α] [Sub α] [Mul α] [Div α]

/-- the c-lookup the averages use: only the nine orthotropic entries are read -/
def cEnv (c11 c22 c33 c12 c23 c13 c44 c55 c66 : α) : Nat → Nat → α
  | 1, 1 => c11 | 2, 2 => c22 | 3, 3 => c33 | 1, 2 => c12 | 2, 3 => c23 | 1, 3 => c13
  | 4, 4 => c44 | 5, 5 => c55 | 6, 6 => c66 | _, _ => nat 0

theorem bulkVoigt_is_source (c11 c22 c33 c12 c23 c13 c44 c55 c66 : α) (e : Env α)
    (he : e.c = cEnv c11 c22 c33 c12 c23 c13 c44 c55 c66) :
    bulkVoigtPt c11 c22 c33 c12 c23 c13 = eval e Generated.vrhBulkVoigt := by
  simp only [Generated.vrhBulkVoigt, eval, he, cEnv]; rfl

theorem shearVoigt_is_source (c11 c22 c33 c12 c23 c13 c44 c55 c66 : α) (e : Env α)
    (he : e.c = cEnv c11 c22 c33 c12 c23 c13 c44 c55 c66) :
    shearVoigtPt c11 c22 c33 c12 c23 c13 c44 c55 c66 = eval e Generated.vrhShearVoigt := by
  simp only [Generated.vrhShearVoigt, eval, he, cEnv]; rfl

theorem bulkReuss_is_source (s11 s22 s33 s12 s23 s13 s44 s55 s66 : α) (e : Env α)
    (he : e.s = cEnv s11 s22 s33 s12 s23 s13 s44 s55 s66) :
    bulkReussPt s11 s22 s33 s12 s23 s13 = eval e Generated.vrhBulkReuss := by
  simp only [Generated.vrhBulkReuss, eval, he, cEnv]; rfl

theorem shearReuss_is_source (s11 s22 s33 s12 s23 s13 s44 s55 s66 : α) (e : Env α)
    (he : e.s = cEnv s11 s22 s33 s12 s23 s13 s44 s55 s66) :
    shearReussPt s11 s22 s33 s12 s23 s13 s44 s55 s66 = eval e Generated.vrhShearReuss := by
  simp only [Generated.vrhShearReuss, eval, he, cEnv]; rfl

theorem hill_is_source (e : Env α) :
    hillPt (e.prop .kR) (e.prop .kV) = eval e Generated.vrhBulkHill ∧
    hillPt (e.prop .gR) (e.prop .gV) = eval e Generated.vrhShearHill := ⟨rfl, rfl⟩

theorem mass_is_source (e : Env α) : mass e.cellmass e.avogadro = eval e Generated.vrhMass := rfl

theorem vp_is_source (e : Env α) :
    vpPt (e.prop .kH) (e.prop .gH) e.V e.ryFactor e.mass = eval e Generated.vrhVp := rfl

theorem vs_is_source (e : Env α) :
    vsPt (e.prop .gH) e.V e.ryFactor e.mass = eval e Generated.vrhVs := rfl

end Cij.VExpr
