/- Helper lemmas for the isotropic-limit clause of C04 (no property statements here). -/
import CijProofs.Lemmas.Tasks

set_option linter.unusedSectionVars false

namespace Cij.Tasks
open Cij Cij.Shear

/-- 0 longitudinal, 1 off-diagonal, 2 pure shear (c44 c55 c66), 3 the other twelve -/
def isoClass (k : Modulus) : Nat :=
  if k.isLongitudinal then 0 else if k.isOffDiagonal then 1 else if k.i == k.j then 2 else 3

theorem isoClass_key4 : ∀ i j k l : Fin 3, isoClass (key4 i j k l) =
    if (i = j ∧ k = l) then (if i = k then 0 else 1) else if ((i = k ∧ j = l) ∨ (i = l ∧ j = k)) then 2 else 3 := by
  decide +kernel

section iso
variable {R : Type} [Field R]

/-- the isotropic tensor with longitudinal value `L` and off-diagonal value `O`, as 21 values -/
def cIso (L O : R) (k : Modulus) : R :=
  match isoClass k with
  | 0 => L
  | 1 => O
  | 2 => (L - O) / 2
  | _ => 0

def delta (i j : Fin 3) : R := if i = j then 1 else 0

theorem iso_tensor [CharZero R] (L O : R) (i j k l : Fin 3) :
    tensorOf (cIso L O) i j k l =
      O * delta i j * delta k l + (L - O) / 2 * (delta i k * delta j l + delta i l * delta j k) := by
  unfold tensorOf cIso
  rw [isoClass_key4]
  fin_cases i <;> fin_cases j <;> fin_cases k <;> fin_cases l <;> simp [delta] <;> ring

/-- an orthogonal frame leaves the longitudinal / off-diagonal components of the isotropic tensor unchanged -/
theorem rotate_iso [CharZero R] (L O : R) (T : Mat3 R)
    (horth : ∀ a b, (sum3 fun i => T i a * T i b) = if a = b then ((1 : Nat) : R) else ((0 : Nat) : R)) (a b : Fin 3) :
    rotate T (tensorOf (cIso L O)) a a b b = tensorOf (cIso L O) a a b b := by
  simp only [rotate, sum3, iso_tensor]
  have haa := horth a a
  have hbb := horth b b
  have hab := horth a b
  simp only [sum3, if_true, Nat.cast_one, Nat.cast_zero] at haa hbb hab
  by_cases h : a = b
  · subst h
    simp [delta]
    linear_combination (L * (T 0 a * T 0 a + T 1 a * T 1 a + T 2 a * T 2 a + 1)) * haa
  · simp only [if_neg h] at hab
    simp [delta, h]
    linear_combination (O * (T 0 a * T 0 a + T 1 a * T 1 a + T 2 a * T 2 a)) * hbb + O * haa +
      ((L - O) * (T 0 a * T 0 b + T 1 a * T 1 b + T 2 a * T 2 b)) * hab

end iso

end Cij.Tasks

namespace Cij.Tasks
open Cij Cij.Shear

section isospec
variable {R : Type} [Field R] [CharZero R]

/-- a strain field with equal (non-zero) axial strains in every volume row -/
def IsoStrain (s : SField R) : Prop := ∀ r ∈ s, r 0 = r 1 ∧ r 1 = r 2 ∧ r 0 ≠ 0

/-- every normalised component is 1/3 -/
def third (s : SField R) : CField R := s.map fun _ => (1 : R) / 3

theorem component_iso {s : SField R} (hs : IsoStrain s) (i : Fin 3) : component s i = third s := by
  unfold component third
  apply List.map_congr_left
  intro r hr
  obtain ⟨h01, h12, h0⟩ := hs r hr
  have hi : r i = r 0 := by fin_cases i <;> simp [h01, h12]
  rw [hi]
  simp only [sum3, ← h12, ← h01]
  field_simp
  ring

theorem strainRotated_sq (T : Mat3 R) (r : Vec3 R) (a : Fin 3) :
    strainRotated T r a = T 0 a * T 0 a * r 0 + T 1 a * T 1 a * r 1 + T 2 a * T 2 a * r 2 := by
  simp only [strainRotated, sum3]
  simp
  ring

theorem rotatedField_iso {s : SField R} (hs : IsoStrain s) (T : Mat3 R)
    (horth : ∀ a b, (sum3 fun i => T i a * T i b) = if a = b then ((1 : Nat) : R) else ((0 : Nat) : R)) :
    rotatedField T s = s := by
  unfold rotatedField
  conv_rhs => rw [← List.map_id s]
  apply List.map_congr_left
  intro r hr
  obtain ⟨h01, h12, _⟩ := hs r hr
  funext a
  have haa := horth a a
  simp only [sum3, if_true, Nat.cast_one] at haa
  have hra : r a = r 0 := by fin_cases a <;> simp [h01, h12]
  rw [strainRotated_sq, id, hra, ← h12, ← h01]
  linear_combination (r 0) * haa

theorem create_nonshear_iso {s : SField R} (hs : IsoStrain s) {k : Modulus} (hk : k.isShear = false) :
    create s k = .nonshear k.calcType (third s) (third s) := by
  unfold create
  simp [hk, component_iso hs]

theorem cIso_nonshear (L O : R) {k : Modulus} (hk : k.isShear = false) :
    cIso L O k = if k.isLongitudinal then L else O := by
  unfold cIso isoClass Modulus.isOffDiagonal
  cases hl : k.isLongitudinal <;> simp [hk]

theorem calcType_nonshear {k : Modulus} (hk : k.isShear = false) :
    k.calcType = if k.isLongitudinal then .longitudinal else .offDiagonal := by
  unfold Modulus.calcType Modulus.isOffDiagonal
  cases hl : k.isLongitudinal <;> simp [hk]

/-- with equal axial strains every key gets the value of the isotropic tensor built from the longitudinal value `L`
and the off-diagonal value `O` -/
theorem iso_spec {isZero : R → Bool} (hz : ZeroSpec isZero) (eig : Eig R)
    (heig : ∀ k ∈ shearKeys, Contract (eig k).1 (eig k).2 (fictitiousStrain k))
    (base : Params R → R) {s : SField R} (hs : IsoStrain s) :
    ∀ (n : Nat) (k : Modulus), k ∈ allKeys → rank k ≤ n →
      spec isZero eig base 2 (create s k) =
        cIso (base (.nonshear .longitudinal (third s) (third s))) (base (.nonshear .offDiagonal (third s) (third s))) k := by
  intro n
  induction n with
  | zero =>
    intro k _ hr
    have hns : k.isShear = false := by
      cases h : k.isShear
      · rfl
      · have := rank_pos_of_shear h; omega
    rw [create_nonshear_iso hs hns, spec_nonshear, cIso_nonshear _ _ hns, calcType_nonshear hns]
    cases k.isLongitudinal <;> rfl
  | succ n ih =>
    intro k hk hr
    cases hsh : k.isShear
    · rw [create_nonshear_iso hs hsh, spec_nonshear, cIso_nonshear _ _ hsh, calcType_nonshear hsh]
      cases k.isLongitudinal <;> rfl
    · have hks : k ∈ shearKeys := mem_shearKeys.2 ⟨hk, hsh⟩
      have hc := heig k hks
      have hcreate : create s k = .shear s k := by unfold create; simp [hsh]
      rw [hcreate, spec_fix hz eig base s hks, rotatedField_iso hs _ hc.orth]
      set L := base (.nonshear .longitudinal (third s) (third s))
      set O := base (.nonshear .offDiagonal (third s) (third s))
      rw [← shearValue_exact isZero hz k hks (cIso L O) (eig k).1 (eig k).2 hc]
      apply shearValue_congr
      · intro k' hk'
        have hd : k' ∈ depKeys isZero eig k := by
          rw [depKeys_shear isZero eig hsh]; exact List.mem_append.mpr (Or.inl hk')
        have := depKeys_canon_rank hz eig hk hd
        exact ih k' this.1 (by omega)
      · intro k' hk'
        obtain ⟨a, b, rfl⟩ := mem_modulusKeysRotated hz _ hk'
        have hcan := key4_diag_canon a b
        rw [ih _ hcan.1 (by omega), rotatedLookup_diag, rotate_iso L O _ hc.orth]
        rfl

end isospec

end Cij.Tasks
