/- Kernel check (part A) of the literal action tables: see LaueCertDefs.lean. -/
import CijProofs.Lemmas.LaueCertDefs
namespace Cij.Laue
open Cij.Certs

theorem fiber_table : ∀ b : Fin 21, fiber b = fiberLit.getD b.val [] := by decide +kernel

/-- `defectZ` with the literal fibres -/
def defectFast (g : Gen) (a b : Fin 21) : ZS :=
  sumList ((fiberLit.getD b.val []).map (coef (gen2 ZS.sqrt3 g) (stdOfKey a))) - (if a = b then 16 else 0)

theorem defectFast_eq (g : Gen) (a b : Fin 21) : defectZ g a b = defectFast g a b := by
  simp only [defectZ, defectFast, actZ, fiber_table]

theorem defect_twoX : ∀ a b : Fin 21, defectFast .twoX a b = look (defectLit .twoX) a.val b.val := by decide +kernel
theorem defect_twoY : ∀ a b : Fin 21, defectFast .twoY a b = look (defectLit .twoY) a.val b.val := by decide +kernel
theorem defect_twoZ : ∀ a b : Fin 21, defectFast .twoZ a b = look (defectLit .twoZ) a.val b.val := by decide +kernel

end Cij.Laue
