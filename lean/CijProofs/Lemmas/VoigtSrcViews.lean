/-
  Every view of the 21 keys and 6 strains read off the translated source of `cij/util/voigt.py` (`Generated.VoigtSrc.module` under
  `PyLite.eval`): Voigt pair, standard quadruple, multiplicity, flags, calc_type, repr; canonical ordering.  `decide +kernel`.
-/
import CijProofs.Lemmas.Voigt
import CijModel.VoigtSrc

namespace Cij.VoigtSrc
open PyLite

/-- every view of each of the 21 keys, read off the translated source: Voigt pair, standard quadruple (the documented map),
multiplicity, the three flags, calc_type, repr -/
theorem src_views : ∀ p ∈ keys21,
    srcVoigt (keyOfVoigt p) = some [p.1, p.2] ∧
    srcStandard (keyOfVoigt p) = some (stdOf p.1 ++ stdOf p.2) ∧
    srcMultiplicity (keyOfVoigt p) = some (Int.ofNat (keyOfVoigt p).multiplicity) ∧
    srcFlag "is_longitudinal" (keyOfVoigt p) = some (keyOfVoigt p).isLongitudinal ∧
    srcFlag "is_off_diagonal" (keyOfVoigt p) = some (keyOfVoigt p).isOffDiagonal ∧
    srcFlag "is_shear" (keyOfVoigt p) = some (keyOfVoigt p).isShear ∧
    srcCalcType (keyOfVoigt p) = some (calcName (keyOfVoigt p).calcType) ∧
    strOfR (srcRepr (keyOfVoigt p)) = some (reprSpec p) := by decide +kernel

theorem src_viewsE : ∀ v ∈ idx6, ∃ s, Strain.fromVoigt v = some s ∧
    intOf (srcProp "StrainRepresentation" "voigt" (Strain.toVal s)) = some v ∧
    intsOf (srcProp "StrainRepresentation" "standard" (Strain.toVal s)) = some (stdOf v) ∧
    strOfR (srcReprE s) = some (reprSpecE v) := by decide +kernel

/-- canonical ordering: whatever the order of the arguments, the Voigt view of the key the source builds is ascending -/
def ascending : Option (List Int) → Bool
  | some [a, b] => decide (a ≤ b)
  | _ => false

theorem src_canonical_order :
    (∀ q ∈ allPairs, (srcKey2 q).bind srcVoigt = some [min q.1 q.2, max q.1 q.2]) ∧
    (∀ t ∈ allTuples, ascending ((srcKey4 t).bind srcVoigt) = true) := by decide +kernel

end Cij.VoigtSrc
