/- Helper lemmas for C04 (no property statements here): the double eigenspace of the fictitious strain of c14, c25, c36.
   * every eigen-decomposition `(T, λ)` with spectrum (−1, 1, 1) that meets the contract has, for the squares of its entries
     (all that `strain_rotated` reads), a ONE-parameter form: `c = T[p,1]²` (`contract_deg_form`); the decomposition of the
     pure-shear partner (spectrum −1, 0, 1) has no freedom (`contract_shear_form`);
   * the model value of the degenerate key as an explicit function of `c` (`degenerate_value`). -/
import CijProofs.Lemmas.Degenerate
import Mathlib.Analysis.Real.Sqrt
import Mathlib.Tactic.NormNum
import Mathlib.Tactic.Linarith

set_option linter.unusedSectionVars false

namespace Cij.Shear
open Finset

section eigvec
variable {R : Type} [CommRing R]

/-- the columns of `T` are eigenvectors: `e T[:,a] = λ_a T[:,a]` -/
theorem Contract.eigvec {T : Mat3 R} {lam : Vec3 R} {e : Mat3 R} (h : Contract T lam e) (i a : Fin 3) :
    ∑ j, e i j * T j a = lam a * T i a := by
  calc ∑ j, e i j * T j a = ∑ j, (∑ b, T i b * lam b * T j b) * T j a :=
        sum_congr rfl fun j _ => by rw [h.decomp i j]
    _ = ∑ b, T i b * lam b * ∑ j, T j b * T j a := by
        simp only [Finset.sum_mul, Finset.mul_sum]
        rw [Finset.sum_comm]
        exact sum_congr rfl fun b _ => sum_congr rfl fun j _ => by ring
    _ = lam a * T i a := by
        simp only [h.orth']
        simp [Finset.sum_ite_eq']
        ring

end eigvec
end Cij.Shear

namespace Cij.Tasks
open Cij Cij.Shear

theorem fictMask_deg : ∀ t ∈ degTriples, ∀ i j : Fin 3, fictitiousMask (degKey t) i j =
    (decide (i = t.1 ∧ j = t.1) || decide (i = t.2.1 ∧ j = t.2.2) || decide (i = t.2.2 ∧ j = t.2.1)) := by
  decide +kernel

theorem fictMask_degShear : ∀ t ∈ degTriples, ∀ i j : Fin 3, fictitiousMask (degShear t) i j =
    (decide (i = t.2.1 ∧ j = t.2.2) || decide (i = t.2.2 ∧ j = t.2.1)) := by
  decide +kernel

section forms
variable {R : Type} [Field R] [CharZero R]

theorem fict_deg {t : Fin 3 × Fin 3 × Fin 3} (ht : t ∈ degTriples) (i j : Fin 3) :
    fictitiousStrain (α := R) (degKey t) i j =
      if (i = t.1 ∧ j = t.1) ∨ (i = t.2.1 ∧ j = t.2.2) ∨ (i = t.2.2 ∧ j = t.2.1) then 1 else 0 := by
  unfold fictitiousStrain
  rw [fictMask_deg t ht]
  by_cases h : (i = t.1 ∧ j = t.1) ∨ (i = t.2.1 ∧ j = t.2.2) ∨ (i = t.2.2 ∧ j = t.2.1)
  · rw [if_pos h, if_pos (by simpa [or_assoc] using h)]; simp
  · rw [if_neg h, if_neg (by simpa [or_assoc] using h)]; simp

theorem fict_degShear {t : Fin 3 × Fin 3 × Fin 3} (ht : t ∈ degTriples) (i j : Fin 3) :
    fictitiousStrain (α := R) (degShear t) i j =
      if (i = t.2.1 ∧ j = t.2.2) ∨ (i = t.2.2 ∧ j = t.2.1) then 1 else 0 := by
  unfold fictitiousStrain
  rw [fictMask_degShear t ht]
  by_cases h : (i = t.2.1 ∧ j = t.2.2) ∨ (i = t.2.2 ∧ j = t.2.1)
  · rw [if_pos h, if_pos (by simpa using h)]; simp
  · rw [if_neg h, if_neg (by simpa using h)]; simp

theorem two_mul_eq_zero {x : R} (h : x = -x) : x = 0 := by
  have h2 : (2 : R) * x = 0 := by linear_combination h
  rcases mul_eq_zero.mp h2 with h | h
  · exact absurd h two_ne_zero
  · exact h

/-- **one-parameter form of the frames of a degenerate key.**  `(T, λ)` meets the eigen contract for the fictitious strain of
`c_ppqr` with the spectrum in ascending order (−1, 1, 1).  Then the rotated axial strains — which only read the SQUARES of the
entries of `T` — are determined by the single number `c = T[p,1]²` (the squared component of the second eigenvector along the
coordinate axis `p`; `0 ≤ c ≤ 1` over an ordered field, any value in between occurs):
`(m, c·e_p + (1−c)·m, (1−c)·e_p + c·m)` with `m = (e_q + e_r)/2`. -/
theorem contract_deg_form {t : Fin 3 × Fin 3 × Fin 3} (ht : t ∈ degTriples) {T : Mat3 R} {lam : Vec3 R}
    (h : Contract T lam (fictitiousStrain (degKey t))) (hl : lam 0 = -1 ∧ lam 1 = 1 ∧ lam 2 = 1) (row : Vec3 R) :
    strainRotated T row 0 = mOf t row ∧
    strainRotated T row 1 = T t.1 1 * T t.1 1 * row t.1 + (1 - T t.1 1 * T t.1 1) * mOf t row ∧
    strainRotated T row 2 = (1 - T t.1 1 * T t.1 1) * row t.1 + T t.1 1 * T t.1 1 * mOf t row := by
  obtain ⟨l0, l1, l2⟩ := hl
  have ev : ∀ i a, ∑ j, fictitiousStrain (α := R) (degKey t) i j * T j a = lam a * T i a := h.eigvec
  have n0 := h.orth' 0 0
  have n1 := h.orth' 1 1
  have n2 := h.orth' 2 2
  simp only [fict_deg ht, Fin.sum_univ_three, if_true] at ev n0 n1 n2
  simp only [degTriples, List.mem_cons, List.mem_nil_iff, or_false] at ht
  rcases ht with rfl | rfl | rfl
  · -- p = 0, q = 1, r = 2
    have rp := h.rows 0 0
    simp only [Fin.sum_univ_three, if_true] at rp
    have e00 := ev 0 0; have e10 := ev 1 0
    have e11 := ev 1 1; have e12 := ev 1 2
    simp [l0, l1, l2] at e00 e10 e11 e12
    have h00 : T 0 0 = 0 := two_mul_eq_zero e00
    rw [h00] at rp
    simp only [strainRotated_sq, mOf]
    refine ⟨?_, ?_, ?_⟩
    · rw [h00, e10] at n0 ⊢
      linear_combination ((row 1 + row 2) / 2) * n0
    · rw [e11] at n1 ⊢
      linear_combination ((row 1 + row 2) / 2) * n1
    · rw [e12] at n2 ⊢
      linear_combination (row 0) * rp + ((row 1 + row 2) / 2) * n2 - ((row 1 + row 2) / 2) * rp
  · -- p = 1, q = 0, r = 2
    have rp := h.rows 1 1
    simp only [Fin.sum_univ_three, if_true] at rp
    have e10 := ev 1 0; have e00 := ev 0 0
    have e01 := ev 0 1; have e02 := ev 0 2
    simp [l0, l1, l2] at e10 e00 e01 e02
    have h10 : T 1 0 = 0 := two_mul_eq_zero e10
    rw [h10] at rp
    simp only [strainRotated_sq, mOf]
    refine ⟨?_, ?_, ?_⟩
    · rw [h10, e00] at n0 ⊢
      linear_combination ((row 0 + row 2) / 2) * n0
    · rw [e01] at n1 ⊢
      linear_combination ((row 0 + row 2) / 2) * n1
    · rw [e02] at n2 ⊢
      linear_combination (row 1) * rp + ((row 0 + row 2) / 2) * n2 - ((row 0 + row 2) / 2) * rp
  · -- p = 2, q = 0, r = 1
    have rp := h.rows 2 2
    simp only [Fin.sum_univ_three, if_true] at rp
    have e20 := ev 2 0; have e00 := ev 0 0
    have e01 := ev 0 1; have e02 := ev 0 2
    simp [l0, l1, l2] at e20 e00 e01 e02
    have h20 : T 2 0 = 0 := two_mul_eq_zero e20
    rw [h20] at rp
    simp only [strainRotated_sq, mOf]
    refine ⟨?_, ?_, ?_⟩
    · rw [h20, e00] at n0 ⊢
      linear_combination ((row 0 + row 1) / 2) * n0
    · rw [e01] at n1 ⊢
      linear_combination ((row 0 + row 1) / 2) * n1
    · rw [e02] at n2 ⊢
      linear_combination (row 2) * rp + ((row 0 + row 1) / 2) * n2 - ((row 0 + row 1) / 2) * rp

/-- the frame of the pure-shear partner `c_qrqr` (simple spectrum −1, 0, 1) has no such freedom: the squares of its entries,
hence the rotated axial strains `(m, e_p, m)`, are determined by the contract -/
theorem contract_shear_form {t : Fin 3 × Fin 3 × Fin 3} (ht : t ∈ degTriples) {T : Mat3 R} {lam : Vec3 R}
    (h : Contract T lam (fictitiousStrain (degShear t))) (hl : lam 0 = -1 ∧ lam 1 = 0 ∧ lam 2 = 1) (row : Vec3 R) :
    strainRotated T row 0 = mOf t row ∧ strainRotated T row 1 = row t.1 ∧ strainRotated T row 2 = mOf t row := by
  obtain ⟨l0, l1, l2⟩ := hl
  have ev : ∀ i a, ∑ j, fictitiousStrain (α := R) (degShear t) i j * T j a = lam a * T i a := h.eigvec
  have n0 := h.orth' 0 0
  have n1 := h.orth' 1 1
  have n2 := h.orth' 2 2
  simp only [fict_degShear ht, Fin.sum_univ_three, if_true] at ev n0 n1 n2
  simp only [degTriples, List.mem_cons, List.mem_nil_iff, or_false] at ht
  rcases ht with rfl | rfl | rfl
  · -- p = 0, q = 1, r = 2
    have e00 := ev 0 0; have e02 := ev 0 2; have e10 := ev 1 0; have e11 := ev 1 1; have e12 := ev 1 2; have e21 := ev 2 1
    simp [l0, l1, l2] at e00 e02 e10 e11 e12 e21
    simp only [strainRotated_sq, mOf]
    refine ⟨?_, ?_, ?_⟩
    · rw [e00, e10] at n0 ⊢
      linear_combination ((row 1 + row 2) / 2) * n0
    · rw [e11, e21] at n1 ⊢
      linear_combination (row 0) * n1
    · rw [← e02, e12] at n2 ⊢
      linear_combination ((row 1 + row 2) / 2) * n2
  · -- p = 1, q = 0, r = 2
    have e10 := ev 1 0; have e12 := ev 1 2; have e00 := ev 0 0; have e01 := ev 0 1; have e02 := ev 0 2; have e21 := ev 2 1
    simp [l0, l1, l2] at e10 e12 e00 e01 e02 e21
    simp only [strainRotated_sq, mOf]
    refine ⟨?_, ?_, ?_⟩
    · rw [e10, e00] at n0 ⊢
      linear_combination ((row 0 + row 2) / 2) * n0
    · rw [e01, e21] at n1 ⊢
      linear_combination (row 1) * n1
    · rw [← e12, e02] at n2 ⊢
      linear_combination ((row 0 + row 2) / 2) * n2
  · -- p = 2, q = 0, r = 1
    have e20 := ev 2 0; have e22 := ev 2 2; have e00 := ev 0 0; have e01 := ev 0 1; have e02 := ev 0 2; have e11 := ev 1 1
    simp [l0, l1, l2] at e20 e22 e00 e01 e02 e11
    simp only [strainRotated_sq, mOf]
    refine ⟨?_, ?_, ?_⟩
    · rw [e20, e00] at n0 ⊢
      linear_combination ((row 0 + row 1) / 2) * n0
    · rw [e01, e11] at n1 ⊢
      linear_combination (row 2) * n1
    · rw [← e22, e02] at n2 ⊢
      linear_combination ((row 0 + row 1) / 2) * n2

end forms
section value
variable {R : Type} [Field R] [CharZero R]

/-- the normalised strain component `m/Σe`, `m = (e_q + e_r)/2`, per volume row -/
def degM (t : Fin 3 × Fin 3 × Fin 3) (s : SField R) : CField R := s.map fun row => mOf t row / sum3 row

/-- the normalised mixture `(c·e_p + (1−c)·m)/Σe` per volume row -/
def degMix (t : Fin 3 × Fin 3 × Fin 3) (c : R) (s : SField R) : CField R :=
  s.map fun row => (c * row t.1 + (1 - c) * mOf t row) / sum3 row

theorem degMix_zero (t : Fin 3 × Fin 3 × Fin 3) (s : SField R) : degMix t 0 s = degM t s := by
  unfold degMix degM
  apply List.map_congr_left
  intro row _
  congr 1; ring

theorem degMix_one (t : Fin 3 × Fin 3 × Fin 3) (s : SField R) : degMix t 1 s = component s t.1 := by
  unfold degMix component
  apply List.map_congr_left
  intro row _
  congr 1; ring

/-- frames of a degenerate key `c_ppqr` and of its pure-shear partner, the first with parameter `c = T[p,1]²`
(`DegFrames` is the case `c = 0`: the third eigenvector is the coordinate axis) -/
structure DegFramesC (eig : Eig R) (t : Fin 3 × Fin 3 × Fin 3) (c : R) : Prop where
  lamD : (eig (degKey t)).2 0 = -1 ∧ (eig (degKey t)).2 1 = 1 ∧ (eig (degKey t)).2 2 = 1
  rotD : ∀ row : Vec3 R, strainRotated (eig (degKey t)).1 row 0 = mOf t row ∧
      strainRotated (eig (degKey t)).1 row 1 = c * row t.1 + (1 - c) * mOf t row ∧
      strainRotated (eig (degKey t)).1 row 2 = (1 - c) * row t.1 + c * mOf t row
  lamS : (eig (degShear t)).2 0 = -1 ∧ (eig (degShear t)).2 1 = 0 ∧ (eig (degShear t)).2 2 = 1
  rotS : ∀ row : Vec3 R, strainRotated (eig (degShear t)).1 row 0 = mOf t row ∧
      strainRotated (eig (degShear t)).1 row 1 = row t.1 ∧ strainRotated (eig (degShear t)).1 row 2 = mOf t row

/-- every pair of decompositions that meets the contract (ascending spectra) is of that form, with `c = T[p,1]²` -/
theorem DegFramesC.of_contract {eig : Eig R} {t : Fin 3 × Fin 3 × Fin 3} (ht : t ∈ degTriples)
    (hD : Contract (eig (degKey t)).1 (eig (degKey t)).2 (fictitiousStrain (degKey t)))
    (hlD : (eig (degKey t)).2 0 = -1 ∧ (eig (degKey t)).2 1 = 1 ∧ (eig (degKey t)).2 2 = 1)
    (hS : Contract (eig (degShear t)).1 (eig (degShear t)).2 (fictitiousStrain (degShear t)))
    (hlS : (eig (degShear t)).2 0 = -1 ∧ (eig (degShear t)).2 1 = 0 ∧ (eig (degShear t)).2 2 = 1) :
    DegFramesC eig t ((eig (degKey t)).1 t.1 1 * (eig (degKey t)).1 t.1 1) :=
  ⟨hlD, contract_deg_form ht hD hlD, hlS, contract_shear_form ht hS hlS⟩

theorem DegFrames.toC {eig : Eig R} {t : Fin 3 × Fin 3 × Fin 3} (h : DegFrames eig t) : DegFramesC eig t 0 :=
  ⟨h.lamD, fun row => by
    obtain ⟨h0, h1, h2⟩ := h.rotD row
    exact ⟨h0, by rw [h1]; ring, by rw [h2]; ring⟩, h.lamS, h.rotS⟩

/-- the value the model gives a degenerate key when the second eigenvector has squared axis component `c`
(`L`, `O` = the longitudinal / off-diagonal non-shear values as functions of the normalised strain components) -/
def degValue (base : Params R → R) (t : Fin 3 × Fin 3 × Fin 3) (c : R) (s : SField R) : R :=
  (base (.nonshear .longitudinal (degMix t c s) (degMix t c s))
    + base (.nonshear .longitudinal (degMix t (1 - c) s) (degMix t (1 - c) s))
    - base (.nonshear .longitudinal (degM t s) (degM t s))
    - base (.nonshear .longitudinal (component s t.1) (component s t.1))
    - 2 * base (.nonshear .offDiagonal (degM t s) (degMix t c s))
    - 2 * base (.nonshear .offDiagonal (degM t s) (degMix t (1 - c) s))
    + 2 * base (.nonshear .offDiagonal (degMix t c s) (degMix t (1 - c) s))
    + 2 * base (.nonshear .offDiagonal (degM t s) (degM t s))) / 4

/-- **the value of c14 / c25 / c36 for an ARBITRARY orthonormal basis of the double eigenspace** -/
theorem degenerate_value {isZero : R → Bool} (hz : ZeroSpec isZero) (eig : Eig R) (base : Params R → R)
    {t : Fin 3 × Fin 3 × Fin 3} (ht : t ∈ degTriples) {c : R} (hf : DegFramesC eig t c) (s : SField R) :
    spec isZero eig base 2 (create s (degKey t)) = degValue base t c s := by
  obtain ⟨hkd, hks, hkl, hmd, hms, hperm, hnil, hlns, hlct, hli, hlj, _⟩ := deg_facts t ht
  have hsumD : ∀ row : Vec3 R, strainRotated (eig (degKey t)).1 row 0 + strainRotated (eig (degKey t)).1 row 1 +
      strainRotated (eig (degKey t)).1 row 2 = sum3 row := by
    intro row
    rw [(hf.rotD row).1, (hf.rotD row).2.1, (hf.rotD row).2.2, ← sum3_deg ht row]; ring
  have hsumS : ∀ row : Vec3 R, strainRotated (eig (degShear t)).1 row 0 + strainRotated (eig (degShear t)).1 row 1 +
      strainRotated (eig (degShear t)).1 row 2 = sum3 row := by
    intro row
    rw [(hf.rotS row).1, (hf.rotS row).2.1, (hf.rotS row).2.2, ← sum3_deg ht row]; ring
  have compD : component (rotatedField (eig (degKey t)).1 s) 0 = degM t s ∧
      component (rotatedField (eig (degKey t)).1 s) 1 = degMix t c s ∧
      component (rotatedField (eig (degKey t)).1 s) 2 = degMix t (1 - c) s := by
    refine ⟨?_, ?_, ?_⟩ <;> rw [component_rotated] <;> apply List.map_congr_left <;> intro row _ <;>
      simp only [sum3] <;> rw [hsumD row]
    · rw [(hf.rotD row).1]; rfl
    · rw [(hf.rotD row).2.1]; rfl
    · rw [(hf.rotD row).2.2]
      show _ = ((1 - c) * row t.1 + (1 - (1 - c)) * mOf t row) / sum3 row
      congr 1; ring
  have compS : component (rotatedField (eig (degShear t)).1 s) 0 = degM t s ∧
      component (rotatedField (eig (degShear t)).1 s) 2 = degM t s := by
    refine ⟨?_, ?_⟩ <;> rw [component_rotated] <;> apply List.map_congr_left <;> intro row _ <;>
      simp only [sum3] <;> rw [hsumS row]
    · rw [(hf.rotS row).1]; rfl
    · rw [(hf.rotS row).2.2]; rfl
  -- value of the pure-shear partner
  have hshear : spec isZero eig base 2 (create s (degShear t)) =
      (base (.nonshear .longitudinal (degM t s) (degM t s)) - base (.nonshear .offDiagonal (degM t s) (degM t s))) / 2 := by
    have hc : create s (degShear t) = .shear s (degShear t) := by
      unfold create; simp [(mem_shearKeys.1 hks).2]
    rw [hc, spec_fix hz eig base s hks, shearValue_unfold isZero hz, hnil, hms, strainEnergy_diag isZero hz]
    simp only [sum3, create_diag, spec_nonshear, hf.lamS.1, hf.lamS.2.1, hf.lamS.2.2]
    simp
    simp only [compS.1, compS.2]
    ring
  -- value of the longitudinal partner
  have hlong : spec isZero eig base 2 (create s (degLong t)) =
      base (.nonshear .longitudinal (component s t.1) (component s t.1)) := by
    unfold create
    simp only [hlns, Bool.false_eq_true, if_false, hlct, hli, hlj, spec_nonshear]
  have hc : create s (degKey t) = .shear s (degKey t) := by
    unfold create; simp [(mem_shearKeys.1 hkd).2]
  rw [hc, spec_fix hz eig base s hkd, shearValue_unfold isZero hz, (hperm.map _).sum_eq, hmd,
    strainEnergy_diag isZero hz]
  simp only [List.map_cons, List.map_nil, List.sum_cons, List.sum_nil, hshear, hlong]
  simp only [sum3, create_diag, spec_nonshear, hf.lamD.1, hf.lamD.2.1, hf.lamD.2.2]
  simp
  simp only [compD.1, compD.2.1, compD.2.2]
  unfold degValue
  ring

/-- the coordinate axis is the third eigenvector (`c = 0`): the value vanishes, whatever the non-shear values -/
theorem degValue_zero (base : Params R → R) (t : Fin 3 × Fin 3 × Fin 3) (s : SField R) : degValue base t 0 s = 0 := by
  unfold degValue
  rw [sub_zero, degMix_zero, degMix_one]
  ring

/-- the coordinate axis is the second eigenvector (`c = 1`): the value vanishes when the off-diagonal value is symmetric in
its two strain components -/
theorem degValue_one (base : Params R → R) (hsymm : ∀ ct a b, base (.nonshear ct a b) = base (.nonshear ct b a))
    (t : Fin 3 × Fin 3 × Fin 3) (s : SField R) : degValue base t 1 s = 0 := by
  unfold degValue
  rw [sub_self, degMix_zero, degMix_one, hsymm .offDiagonal (component s t.1) (degM t s)]
  ring

theorem DegFramesC.toDegFrames {eig : Eig R} {t : Fin 3 × Fin 3 × Fin 3} (h : DegFramesC eig t 0) : DegFrames eig t :=
  ⟨h.lamD, fun row => by
    obtain ⟨h0, h1, h2⟩ := h.rotD row
    exact ⟨h0, by rw [h1]; ring, by rw [h2]; ring⟩, h.lamS, h.rotS⟩

end value

/-! ### explicit frames over ℝ (data of the counter-example and of the non-vacuity examples of C04) -/
section real

/-- `√2/2` -/
noncomputable def h2 : ℝ := Real.sqrt 2 / 2

theorem h2_sq : h2 * h2 = 1 / 2 := by
  unfold h2
  have := Real.mul_self_sqrt (show (0 : ℝ) ≤ 2 by norm_num)
  nlinarith

/-- the frames numpy/LAPACK returns for c14, c44, c25, c55 (rows of the matrices printed by `numpy.linalg.eigh`) -/
noncomputable def T14 : Mat3 ℝ := fun i a => ![![0, 0, 1], ![-h2, h2, 0], ![h2, h2, 0]] i a
noncomputable def T44 : Mat3 ℝ := fun i a => ![![0, 1, 0], ![-h2, 0, h2], ![h2, 0, h2]] i a
noncomputable def T25 : Mat3 ℝ := fun i a => ![![-h2, -h2, 0], ![0, 0, -1], ![h2, -h2, 0]] i a
noncomputable def T55 : Mat3 ℝ := fun i a => ![![-h2, 0, -h2], ![0, -1, 0], ![h2, 0, -h2]] i a

/-- another orthonormal eigenbasis for c14: LAPACK's second and third vector rotated by 45° inside the double eigenspace —
columns `(0, −h, h)`, `(h, ½, ½)`, `(−h, ½, ½)`, `h = √2/2` -/
noncomputable def T45 : Mat3 ℝ := fun i a => ![![0, h2, -h2], ![-h2, 1 / 2, 1 / 2], ![h2, 1 / 2, 1 / 2]] i a

def lamDeg : Vec3 ℝ := fun a => ![-1, 1, 1] a
def lamShear : Vec3 ℝ := fun a => ![-1, 0, 1] a

theorem fict14 (i j : Fin 3) :
    fictitiousStrain (α := ℝ) (degKey (0, 1, 2)) i j = ![![1, 0, 0], ![0, 0, 1], ![0, 1, 0]] i j := by
  rw [fict_deg (by decide)]
  fin_cases i <;> fin_cases j <;> simp

theorem fict44 (i j : Fin 3) :
    fictitiousStrain (α := ℝ) (degShear (0, 1, 2)) i j = ![![0, 0, 0], ![0, 0, 1], ![0, 1, 0]] i j := by
  rw [fict_degShear (by decide)]
  fin_cases i <;> fin_cases j <;> simp

theorem fict25 (i j : Fin 3) :
    fictitiousStrain (α := ℝ) (degKey (1, 0, 2)) i j = ![![0, 0, 1], ![0, 1, 0], ![1, 0, 0]] i j := by
  rw [fict_deg (by decide)]
  fin_cases i <;> fin_cases j <;> simp

theorem fict55 (i j : Fin 3) :
    fictitiousStrain (α := ℝ) (degShear (1, 0, 2)) i j = ![![0, 0, 1], ![0, 0, 0], ![1, 0, 0]] i j := by
  rw [fict_degShear (by decide)]
  fin_cases i <;> fin_cases j <;> simp

theorem T14_contract : Contract T14 lamDeg (fictitiousStrain (degKey (0, 1, 2))) := by
  constructor
  · intro a b
    fin_cases a <;> fin_cases b <;> simp [sum3, T14] <;> nlinarith [h2_sq]
  · intro a b
    simp only [fict14]
    fin_cases a <;> fin_cases b <;> simp [sum3, T14, lamDeg] <;> nlinarith [h2_sq]

theorem T45_contract : Contract T45 lamDeg (fictitiousStrain (degKey (0, 1, 2))) := by
  constructor
  · intro a b
    fin_cases a <;> fin_cases b <;> simp [sum3, T45] <;> nlinarith [h2_sq]
  · intro a b
    simp only [fict14]
    fin_cases a <;> fin_cases b <;> simp [sum3, T45, lamDeg] <;> nlinarith [h2_sq]

theorem T44_contract : Contract T44 lamShear (fictitiousStrain (degShear (0, 1, 2))) := by
  constructor
  · intro a b
    fin_cases a <;> fin_cases b <;> simp [sum3, T44] <;> nlinarith [h2_sq]
  · intro a b
    simp only [fict44]
    fin_cases a <;> fin_cases b <;> simp [sum3, T44, lamShear] <;> nlinarith [h2_sq]

theorem T25_contract : Contract T25 lamDeg (fictitiousStrain (degKey (1, 0, 2))) := by
  constructor
  · intro a b
    fin_cases a <;> fin_cases b <;> simp [sum3, T25] <;> nlinarith [h2_sq]
  · intro a b
    simp only [fict25]
    fin_cases a <;> fin_cases b <;> simp [sum3, T25, lamDeg] <;> nlinarith [h2_sq]

theorem T55_contract : Contract T55 lamShear (fictitiousStrain (degShear (1, 0, 2))) := by
  constructor
  · intro a b
    fin_cases a <;> fin_cases b <;> simp [sum3, T55] <;> nlinarith [h2_sq]
  · intro a b
    simp only [fict55]
    fin_cases a <;> fin_cases b <;> simp [sum3, T55, lamShear] <;> nlinarith [h2_sq]

/-- non-shear values of the counter-example: longitudinal = product of the two (equal) normalised strain components of the
first volume row, off-diagonal = 0; symmetric in the two components -/
def base0 : Params ℝ → ℝ
  | .nonshear .longitudinal a b => a.headD 0 * b.headD 0
  | _ => 0

theorem base0_symm (ct : Modulus.CalcType) (a b : CField ℝ) : base0 (.nonshear ct a b) = base0 (.nonshear ct b a) := by
  cases ct <;> simp [base0, mul_comm]

/-- one volume row, axial strains (2, 1, 1) -/
def s0 : SField ℝ := [fun i => ![2, 1, 1] i]

theorem degValue_base0_half : degValue base0 (0, 1, 2) (1 / 2) s0 = -1 / 128 := by
  simp [degValue, degMix, degM, mOf, sum3, component, base0, s0]
  norm_num

end real

end Cij.Tasks
