/-
  Order-freedom helpers for C14 (no property statements here): a lookup in an association list with distinct keys and
  a `find?` with at most one hit do not depend on the order of the list.
-/
import CijProofs.Lemmas.VRH
import CijProofs.Lemmas.Writer
namespace Cij.OrderFree
open Cij Cij.VRH

/-- `dict[key]` is a property of the dictionary as a MAP: with distinct keys, `find d key = some x ↔ (key, x) ∈ d` -/
theorem find_eq_some_iff {β : Type} : ∀ (d : List (Modulus × β)), (d.map (·.1)).Nodup → ∀ (key : Modulus) (x : β),
    find d key = some x ↔ (key, x) ∈ d
  | [], _, key, x => by simp [find]
  | (k, y) :: r, hn, key, x => by
    have hn' : (r.map (·.1)).Nodup := (List.nodup_cons.1 (by simpa using hn)).2
    have hk : k ∉ r.map (·.1) := (List.nodup_cons.1 (by simpa using hn)).1
    simp only [find, List.mem_cons, Prod.mk.injEq]
    by_cases h : k = key
    · subst h
      simp only [if_true, Option.some.injEq, true_and]
      constructor
      · intro e; exact Or.inl e.symm
      · rintro (e | hm)
        · exact e.symm
        · exact absurd (List.mem_map.2 ⟨(k, x), hm, rfl⟩) hk
    · simp only [h, if_false]
      rw [find_eq_some_iff r hn' key x]
      constructor
      · intro hm; exact Or.inr hm
      · rintro (⟨e, _⟩ | hm)
        · exact absurd e.symm h
        · exact hm

theorem find_perm {β : Type} {d d' : List (Modulus × β)} (hp : d.Perm d') (hn : (d.map (·.1)).Nodup)
    (key : Modulus) : find d key = find d' key := by
  have hn' : (d'.map (·.1)).Nodup := (hp.map _).nodup_iff.1 hn
  cases h : find d key with
  | some x =>
    have := (find_eq_some_iff d hn key x).1 h
    exact ((find_eq_some_iff d' hn' key x).2 (hp.mem_iff.1 this)).symm
  | none =>
    cases h' : find d' key with
    | none => rfl
    | some x =>
      have := (find_eq_some_iff d' hn' key x).1 h'
      have := (find_eq_some_iff d hn key x).2 (hp.mem_iff.2 this)
      rw [h] at this; cases this

/-- a `find?` whose predicate has at most one hit in the list does not depend on the order of the list -/
theorem find?_perm_unique {β : Type} {l l' : List β} (hp : l.Perm l') (p : β → Bool)
    (hu : ∀ a ∈ l, ∀ b ∈ l, p a = true → p b = true → a = b) : l.find? p = l'.find? p := by
  cases h : l.find? p with
  | some a =>
    have ha : a ∈ l := List.mem_of_find?_eq_some h
    have hpa : p a = true := List.find?_some h
    cases h' : l'.find? p with
    | none =>
      have := List.find?_eq_none.1 h' a (hp.mem_iff.1 ha)
      simp [hpa] at this
    | some b =>
      have hb : b ∈ l := hp.mem_iff.2 (List.mem_of_find?_eq_some h')
      rw [hu a ha b hb hpa (List.find?_some h')]
  | none =>
    cases h' : l'.find? p with
    | none => rfl
    | some b =>
      have hb : b ∈ l := hp.mem_iff.2 (List.mem_of_find?_eq_some h')
      have := List.find?_eq_none.1 h b hb
      simp [List.find?_some h'] at this

end Cij.OrderFree
