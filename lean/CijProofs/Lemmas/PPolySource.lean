/-
  The wiring of `CijModel/PPoly.lean` into `interpolate_mode_ppoly` IS what `cij/core/mode_gamma.py` says now, and the constants of the
  slope rules are the ones of the installed scipy: `tools/gens/ppoly.py` extracts them on every run
  (`Generated/PPolySpec.lean`, `Generated/ScipyCubicSpec.lean`); the theorems below compare them with the model's definitions.
-/
import CijModel.PPoly
import Generated.PPolySpec
import Generated.ScipyCubicSpec
import Mathlib.Algebra.Field.Basic
import Mathlib.Data.Nat.Cast.Basic
import Mathlib.Tactic.NormNum

set_option linter.unusedSectionVars false

namespace Cij.PPoly
open Cij.Interp

/-- the `scipy.interpolate` class behind a method of the ppoly branch: `kernelFull` runs `pchipInterpolant` (model of `PchipInterpolator`)
for `pchip`, `akimaInterpolant` (model of `Akima1DInterpolator`) for `akima`; for `hermite` the source names `CubicHermiteSpline`, whose
2-argument call is the `TypeError` of `interpolateMode` -/
def scipyClass : Method → Option String
  | .pchip => some "PchipInterpolator"
  | .akima => some "Akima1DInterpolator"
  | .hermite => some "CubicHermiteSpline"
  | _ => none

/-- the dispatch chain of the source names, for each of its three method strings, the class the model implements for that method -/
theorem dispatch_is_source :
    Generated.ppolyDispatch.map (·.1) = ["pchip", "akima", "hermite"] ∧
      ∀ e ∈ Generated.ppolyDispatch, scipyClass (Method.ofString e.1) = some e.2 := by decide

section Eval
variable {α : Type} [Add α] [Sub α] [Mul α] [Div α] [Neg α] [Zero α] [One α] [NatCast α] [LT α] [DecidableLT α] [LE α] [DecidableLE α]

/-- `interp(q, nu, extrapolate)`: with `extrapolate=False` scipy writes NaN outside `[x[0], x[-1]]` (no value: `none`) -/
def evalBySpec (extrapolate : Bool) (xs ys ds : List α) (nu : Nat) (q : α) : Option α :=
  if extrapolate then evalAt xs ys ds nu q
  else match xs.head?, xs.getLast? with
    | some a, some b => if a ≤ q ∧ q ≤ b then evalAt xs ys ds nu q else none
    | _, _ => none

/-- the evaluation calls as extracted: `(nu, extrapolate keyword)`; a call without the keyword uses the class default `dflt`
(`PchipInterpolator`: True, `Akima1DInterpolator`: False) -/
def sampleBySpec (calls : List (Nat × Option Bool)) (dflt : Bool) (xs ys ds : List α) (q : α) : Option (List α) :=
  calls.mapM fun c => evalBySpec (c.2.getD dflt) xs ys ds c.1 q

def tripleOfList : List α → Option (Triple α)
  | [a, b, c] => some (a, b, c)
  | _ => none

/-- the model's `sample` evaluates exactly the three calls the source makes now: `nu = 0, 1, 2`, each with `extrapolate=True`
(so the class default never matters) -/
theorem sample_is_source (dflt : Bool) (xs ys ds : List α) (q : α) :
    sample xs ys ds q = (sampleBySpec Generated.ppolyEvalCalls dflt xs ys ds q).bind tripleOfList := by
  simp only [sample, sampleBySpec, Generated.ppolyEvalCalls, List.mapM_cons, List.mapM_nil, evalBySpec, Option.getD_some, if_true]
  cases evalAt xs ys ds 0 q <;> cases evalAt xs ys ds 1 q <;> cases evalAt xs ys ds 2 q <;> rfl

end Eval

section Ctor
variable {α : Type} [Neg α] [Zero α] [ExpLog α]

/-- interpretation of one extracted constructor argument `(array name, logged?, flipped?)` on the (thinned) node arrays -/
def ctorArgBySpec (sp : String × Bool × Bool) (vols freqs : List α) : Option (List α) :=
  let base := if sp.1 == "mode_volumes" then some vols else if sp.1 == "mode_freqs" then some freqs else none
  base.map fun l =>
    let l := if sp.2.1 then l.map ExpLog.log else l
    if sp.2.2 then l.reverse else l

/-- the kernel call of the ppoly branch — `finishMode I` on the thinned node arrays flipped by `modeNodes` — receives exactly the two
positional arguments the source passes to the constructor now (no keyword), and is evaluated at the abscissa the source names -/
theorem ctor_is_source (I : Interpolant α) (tv tf va : List α) :
    Generated.ppolyCtorKeywords = [] ∧ Generated.ppolyEvalAbscissa = "numpy.log(v_array)" ∧
      ∃ a0 a1 x y, Generated.ppolyCtorArgs = [a0, a1] ∧ ctorArgBySpec a0 tv tf = some x ∧ ctorArgBySpec a1 tv tf = some y ∧
        finishMode I tv.reverse tf.reverse va = (do
          let r ← I x y (va.map ExpLog.log)
          pure (r.map fun (s, s1, s2) => (ExpLog.exp s, -s1, -s2))) := by
  refine ⟨by decide, by decide, _, _, _, _, rfl, rfl, rfl, ?_⟩
  simp [finishMode, List.map_reverse]

end Ctor

section Consts
variable {K : Type} [Field K]

/-- the cut-off of the Akima weights is scipy's `break_mult` literal -/
theorem breakMult_is_source : (breakMult : K) = (Generated.akimaBreakMult.1 : K) / (Generated.akimaBreakMult.2 : K) := by
  simp [breakMult, Generated.akimaBreakMult]

/-- the shape-correction factor of the PCHIP end rule is scipy's `3.` -/
theorem edgeFactor_is_source : (three : K) = (Generated.pchipEdgeFactor : K) := by
  simp [three, Generated.pchipEdgeFactor]

end Consts

end Cij.PPoly
