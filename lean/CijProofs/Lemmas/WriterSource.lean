/-
  The writer model (`CijModel/Writer.lean`) IS the source of the output path as it reads now.

  `tools/gens/writer_src.py` translates the CODE of `results_writer.py`, `qha_output.py`, the `write_table` / `write_variables` of
  both interface classes and `Calculator.write_output` into data (`Generated/WriterSpec.lean`): override order, argument wiring,
  file-name rule, dispatch table, registry key field, saver wiring, output steps.  This file gives that data a meaning — small
  evaluators that interpret the extracted statements (a dict is a partial function on keys; `none` = any Python exception) — and
  proves, for the canonical values of the data, that each evaluator is the corresponding model function, for all rules / bases /
  configs / keyword lists.  `Properties/C15.lean` instantiates these lemmas at the `Generated` values (by `rfl`, re-checked by the kernel on
  every run), so a changed statement either changes the data (the `writer_model_is_source_*` theorem named after the function no
  longer checks) or leaves the translator's grammar (TieBroken names the function).
  No property statements here.
-/
import CijModel.Writer
import Generated.WriterSpec
import CijProofs.Lemmas.Writer

namespace Cij.Writer.Source

open Generated (WriterRule WriteMethodSpec TableWiring WriteVariablesSpec)

/-! ### Python values and dicts on this path -/

/-- the values the dicts of this path hold: `str` or `list[str]` -/
inductive PyVal where
  | str (s : String)
  | strs (l : List String)
  deriving DecidableEq, Repr

def PyVal.asStr : PyVal → Option String
  | .str s => some s
  | .strs _ => none

/-- one entry of the YAML list as a Python dict (`Generated.WriterRule` is built by `gen_writer_rules` from exactly these keys) -/
def yamlGet (r : WriterRule) (k : String) : Option PyVal :=
  if k = "keywords" then some (.strs r.keywords)
  else if k = "fname_pattern" then some (.str r.fnamePattern)
  else if k = "prop" then some (.str r.prop)
  else if k = "unit" then some (.str r.unit)
  else if k = "unit_internal" then some (.str r.unitInternal)
  else if k = "var_type" then some (.str r.varType)
  else none

/-- the user's output entry as a dict, as far as `Config` keeps it (`keyword`, `fname`, `unit`, `unit_internal`) -/
def userGet (c : Config) (k : String) : Option PyVal :=
  if k = "keyword" then some (.str c.keyword)
  else if k = "fname" then c.fname.map .str
  else if k = "unit" then c.unit.map .str
  else if k = "unit_internal" then c.unitInternal.map .str
  else none

/-- the translated facts that are not specific to one method -/
structure Src where
  fields : List String                 -- NamedTuple fields = keys of `_asdict()`
  createKeys : List (String × String)  -- `create`: field ← rule[key]
  convParams : List String             -- positional parameters of `convert_unit`
  convFrom : String                    -- `Quantity(x, <this>)`
  convTo : String                      -- `.to(<this>)`
  ijFormat : String                    -- `_format_ij`: "<this>" % key.<ijAttr>
  ijAttr : String
  deriving DecidableEq, Repr

def Src.generated : Src :=
  { fields := Generated.writerRuleFields, createKeys := Generated.writerCreateKeys,
    convParams := Generated.convertUnitParams, convFrom := Generated.convertUnitFrom, convTo := Generated.convertUnitTo,
    ijFormat := Generated.formatIjFormat, ijAttr := Generated.formatIjAttr }

/-- what `CijModel/Writer.lean` was written against -/
def Src.canonical : Src :=
  { fields := ["keywords", "fname_pattern", "prop", "unit", "unit_internal", "var_type"],
    createKeys := [("keywords", "keywords"), ("fname_pattern", "fname_pattern"), ("prop", "prop"), ("unit", "unit"),
                   ("unit_internal", "unit_internal"), ("var_type", "var_type")],
    convParams := ["unit_from", "unit_to", "value"], convFrom := "unit_from", convTo := "unit_to",
    ijFormat := "%d%d", ijAttr := "v" }

/-- attribute `<field>` of the NamedTuple built by `create`: `cls(<field>=rule["<key>"], …)` -/
def tupleGet (P : Src) (r : WriterRule) (field : String) : Option PyVal :=
  (dictGet P.createKeys field).bind (yamlGet r)

/-- `self._asdict()`: the declared fields, nothing else -/
def asdictGet (P : Src) (r : WriterRule) (k : String) : Option PyVal :=
  if P.fields.contains k then tupleGet P r k else none

/-- `<dict>[key]` for the three dicts of `write_variable`: "rule" = `self._asdict()`, "user" = `config` (subscripting `None` raises),
"merged" = `_config`, i.e. the layers applied in order, the last layer holding the key wins -/
def lookup (layers : List String) (rule : String → Option PyVal) (user : Option (String → Option PyVal))
    (src key : String) : Option PyVal :=
  let layerGet := fun (l : String) =>
    if l = "rule" then rule key else if l = "user" then user.bind (fun u => u key) else none
  if src = "rule" then rule key
  else if src = "user" then user.bind (fun u => u key)
  else if src = "merged" then layers.reverse.findSome? layerGet
  else none

/-! ### `"%d%d" % key.v` -/

/-- printf with `%d` and `%%` only (anything else is outside the grammar); too few / too many arguments = TypeError -/
def printfGo : List Char → Bool → List Int → Option (List Char)
  | [], false, [] => some []
  | [], _, _ => none
  | c :: cs, false, args =>
      if c = '%' then printfGo cs true args else (printfGo cs false args).map (c :: ·)
  | c :: cs, true, args =>
      if c = 'd' then
        match args with
        | a :: rest => (printfGo cs false rest).map ((toString a).toList ++ ·)
        | [] => none
      else if c = '%' then (printfGo cs false args).map ('%' :: ·)
      else none

def printf (fmt : String) (args : List Int) : Option String :=
  (printfGo fmt.toList false args).map String.ofList

/-- `key.<attr>`: `.v` = the Voigt pair (KeyError = none), `.s` = the standard four indices -/
def keyAttr (attr : String) (key : Modulus) : Option (List Int) :=
  if attr = "v" then key.voigt.map fun p => [p.1, p.2]
  else if attr = "s" then some [key.standard.1, key.standard.2.1, key.standard.2.2.1, key.standard.2.2.2]
  else none

def evalFormatIj (P : Src) (key : Modulus) : Option String :=
  (keyAttr P.ijAttr key).bind (printf P.ijFormat)

/-! ### `write_variable` / `write_ij_variable` -/

variable {α : Type} [Mul α]

/-- `convert_unit(a₀, a₁)(x)`: positional binding to the parameters; the magnitude is given in `<convFrom>` and converted to
`<convTo>` -/
def convertCall (P : Src) (U : Units α) (args : List String) : Option α := do
  let env := P.convParams.zip args
  let a ← dictGet env P.convFrom
  let b ← dictGet env P.convTo
  U.conv a b

/-- interpreter of the statements the translator extracts from `write_variable` / `write_ij_variable` -/
def evalWrite (P : Src) (S : WriteMethodSpec) (U : Units α) (r : WriterRule) (b : Base α) (cfg : Option Config) :
    Option (List (Table α)) :=
  let user := cfg.map userGet
  let look := fun (p : String × String) => lookup S.layers (asdictGet P r) user p.1 p.2
  -- convert = convert_unit(<convertFrom>, <convertTo>)      (a lambda: pint is consulted when it is applied)
  match (look S.convertFrom).bind PyVal.asStr, (look S.convertTo).bind PyVal.asStr with
  | some u₀, some u₁ =>
    -- variable = getattr(base, self.<propField>)
    match ((tupleGet P r S.propField).bind PyVal.asStr).bind (dictGet b.props) with
    | none => none
    | some pv =>
      let fnameOf := fun (key : Option Modulus) =>
        if (look S.fnameTest).isSome then (look S.fnameRead).bind PyVal.asStr
        else
          match (tupleGet P r S.patternField).bind PyVal.asStr,
                optAll (S.formatKwargs.map fun kw =>
                  if kw.2 = "base._base_name" then some (kw.1, b.baseName)
                  else if kw.2 = "self._format_ij(key)" then (key.bind (evalFormatIj P)).map fun s => (kw.1, s)
                  else none) with
          | some pat, some env => format pat env
          | _, _ => none
      -- base.write_table(fname, convert(value))
      let call := fun (fname : String) (m : Matrix α) =>
        if S.tableArgs = ["fname", "convert(value)"] then
          (convertCall P U [u₀, u₁]).bind fun k => writeTable U b fname (scale k m)
        else none
      if S.perItem then
        match pv with
        | .items l => optAll (l.map fun kv => (fnameOf (some kv.1)).bind fun f => call f kv.2)
        | .value _ => none
      else
        match pv with
        | .value m => ((fnameOf none).bind fun f => call f m).map fun t => [t]
        | .items _ => none
  | _, _ => none

def canonValueSpec : WriteMethodSpec :=
  { layers := ["rule", "user"], convertFrom := ("merged", "unit_internal"), convertTo := ("merged", "unit"), propField := "prop",
    fnameTest := ("merged", "fname"), fnameRead := ("user", "fname"), patternField := "fname_pattern",
    formatKwargs := [("base", "base._base_name")], perItem := false, tableArgs := ["fname", "convert(value)"] }

def canonIjSpec : WriteMethodSpec :=
  { layers := ["rule", "user"], convertFrom := ("merged", "unit_internal"), convertTo := ("merged", "unit"), propField := "prop",
    fnameTest := ("merged", "fname"), fnameRead := ("user", "fname"), patternField := "fname_pattern",
    formatKwargs := [("base", "base._base_name"), ("ij", "self._format_ij(key)")], perItem := true,
    tableArgs := ["fname", "convert(value)"] }

/-! #### lemmas about the canonical data -/

theorem printf_dd (a b : Int) : printf "%d%d" [a, b] = some (toString a ++ toString b) := by
  have h : "%d%d".toList = ['%', 'd', '%', 'd'] := by decide
  simp [printf, h, printfGo, String.ofList_append]

theorem formatIj_canonical (key : Modulus) : evalFormatIj Src.canonical key = formatIj key := by
  unfold evalFormatIj formatIj keyAttr
  cases h : key.voigt with
  | none => simp [Src.canonical]
  | some p => simp [Src.canonical, printf_dd]

theorem tupleGet_canonical (r : WriterRule) :
    tupleGet Src.canonical r "prop" = some (.str r.prop) ∧
    tupleGet Src.canonical r "fname_pattern" = some (.str r.fnamePattern) ∧
    tupleGet Src.canonical r "keywords" = some (.strs r.keywords) := by
  simp [tupleGet, Src.canonical, dictGet, yamlGet]

/-- the merged `_config`: the user's entry over the rule's own field -/
theorem lookup_unit (r : WriterRule) (cfg : Option Config) :
    (lookup ["rule", "user"] (asdictGet Src.canonical r) (cfg.map userGet) "merged" "unit").bind PyVal.asStr =
      some ((cfg.bind (·.unit)).getD r.unit) := by
  cases cfg with
  | none => simp [lookup, asdictGet, tupleGet, Src.canonical, dictGet, yamlGet, PyVal.asStr]
  | some c =>
    cases hu : c.unit <;>
      simp [lookup, asdictGet, tupleGet, Src.canonical, dictGet, yamlGet, userGet, PyVal.asStr, hu]

theorem lookup_unit_internal (r : WriterRule) (cfg : Option Config) :
    (lookup ["rule", "user"] (asdictGet Src.canonical r) (cfg.map userGet) "merged" "unit_internal").bind PyVal.asStr =
      some ((cfg.bind (·.unitInternal)).getD r.unitInternal) := by
  cases cfg with
  | none => simp [lookup, asdictGet, tupleGet, Src.canonical, dictGet, yamlGet, PyVal.asStr]
  | some c =>
    cases hu : c.unitInternal <;>
      simp [lookup, asdictGet, tupleGet, Src.canonical, dictGet, yamlGet, userGet, PyVal.asStr, hu]

/-- `"fname" in _config` ⇔ the user's entry has it (no rule field is called `fname`) -/
theorem lookup_fname_test (r : WriterRule) (cfg : Option Config) :
    (lookup ["rule", "user"] (asdictGet Src.canonical r) (cfg.map userGet) "merged" "fname").isSome =
      (cfg.bind (·.fname)).isSome := by
  cases cfg with
  | none => simp [lookup, asdictGet, Src.canonical]
  | some c =>
    cases hu : c.fname <;> simp [lookup, asdictGet, Src.canonical, userGet, hu]

theorem lookup_fname_read (r : WriterRule) (cfg : Option Config) :
    (lookup ["rule", "user"] (asdictGet Src.canonical r) (cfg.map userGet) "user" "fname").bind PyVal.asStr =
      cfg.bind (·.fname) := by
  cases cfg with
  | none => simp [lookup]
  | some c =>
    cases hu : c.fname <;> simp [lookup, userGet, PyVal.asStr, hu]

omit [Mul α] in
theorem convertCall_canonical (U : Units α) (u₀ u₁ : String) :
    convertCall Src.canonical U [u₀, u₁] = U.conv u₀ u₁ := by
  simp [convertCall, Src.canonical, dictGet]

/-- `write_variable`: the interpreter of the canonical statements is the model function -/
theorem evalWrite_value_canonical (U : Units α) (r : WriterRule) (b : Base α) (cfg : Option Config) :
    evalWrite Src.canonical canonValueSpec U r b cfg = writeVariable U r b cfg := by
  unfold evalWrite writeVariable factorOf
  simp only [canonValueSpec, lookup_unit, lookup_unit_internal, lookup_fname_test, lookup_fname_read,
    (tupleGet_canonical r).1, (tupleGet_canonical r).2.1, convertCall_canonical, PyVal.asStr, Option.bind_some]
  cases hp : dictGet b.props r.prop with
  | none => cases U.conv ((cfg.bind (·.unitInternal)).getD r.unitInternal) ((cfg.bind (·.unit)).getD r.unit) <;> simp
  | some pv =>
    cases hk : U.conv ((cfg.bind (·.unitInternal)).getD r.unitInternal) ((cfg.bind (·.unit)).getD r.unit) with
    | none =>
      cases pv <;> cases cfg.bind (·.fname) <;> simp [valueFname, optAll]
    | some k =>
      cases pv with
      | items l => simp
      | value m =>
        cases hf : cfg.bind (·.fname) with
        | some f => simp; cases writeTable U b f (scale k m) <;> simp
        | none =>
          simp [valueFname, optAll]
          cases hfm : format r.fnamePattern [("base", b.baseName)] with
          | none => simp
          | some f => simp; cases writeTable U b f (scale k m) <;> simp

/-- `write_ij_variable`: the interpreter of the canonical statements is the model function -/
theorem evalWrite_ij_canonical (U : Units α) (r : WriterRule) (b : Base α) (cfg : Option Config) :
    evalWrite Src.canonical canonIjSpec U r b cfg = writeIjVariable U r b cfg := by
  unfold evalWrite writeIjVariable factorOf
  simp only [canonIjSpec, lookup_unit, lookup_unit_internal, lookup_fname_test, lookup_fname_read,
    (tupleGet_canonical r).1, (tupleGet_canonical r).2.1, convertCall_canonical, PyVal.asStr, Option.bind_some]
  cases hp : dictGet b.props r.prop with
  | none => simp
  | some pv =>
    cases pv with
    | value m => simp
    | items l =>
      simp only [if_true, Option.bind_eq_bind, Option.bind_some]
      congr 1
      apply List.map_congr_left
      intro kv _
      cases hf : cfg.bind (·.fname) with
      | some f => simp
      | none =>
        simp only [Option.isSome_none, Bool.false_eq_true, if_false, ijFname, formatIj_canonical, Option.bind_eq_bind]
        cases hij : formatIj kv.1 with
        | none => simp [optAll]
        | some ij =>
          simp [optAll]

/-! ### `ResultsWriterRule.write`: the dispatch table -/

/-- `self.<method>(base, config)` for the two methods the model mirrors; any other name is outside the model -/
def runMethod (name : String) (U : Units α) (r : WriterRule) (b : Base α) (cfg : Option Config) : Option (List (Table α)) :=
  if name = "write_variable" then writeVariable U r b cfg
  else if name = "write_ij_variable" then writeIjVariable U r b cfg
  else none

/-- the if/elif chain: the first entry whose type equals `self.var_type`; no entry = `raise NotImplementedError` -/
def evalDispatch (table : List (String × String)) (U : Units α) (r : WriterRule) (b : Base α) (cfg : Option Config) :
    Option (List (Table α)) :=
  match table.find? (fun e => e.1 == r.varType) with
  | some e => runMethod e.2 U r b cfg
  | none => none

def canonDispatch : List (String × String) := [("value", "write_variable"), ("ij_value", "write_ij_variable")]

theorem evalDispatch_canonical (U : Units α) (r : WriterRule) (b : Base α) (cfg : Option Config) :
    evalDispatch canonDispatch U r b cfg = writeRule U r b cfg := by
  unfold evalDispatch writeRule canonDispatch
  by_cases h1 : r.varType = "value"
  · simp [h1, runMethod]
  · by_cases h2 : r.varType = "ij_value"
    · simp [h2, runMethod]
    · have e1 : ¬ "value" = r.varType := fun e => h1 (Eq.symm e)
      have e2 : ¬ "ij_value" = r.varType := fun e => h2 (Eq.symm e)
      simp [h1, h2, e1, e2]

/-! ### `ResultsWriter._init_rules` and `ResultsWriter.write` -/

/-- `for keyword in rule.<field>`: a list of str is iterated; a str is iterated character by character; no such attribute raises -/
def keysOf (P : Src) (field : String) (r : WriterRule) : Option (List String) :=
  match tupleGet P r field with
  | some (.strs l) => some l
  | some (.str s) => some (s.toList.map fun c => String.singleton c)
  | none => none

/-- one registry entry per key of every rule, in file order; assignment to an existing key replaces the value -/
def evalRegistry (P : Src) (field : String) (rules : List WriterRule) : Option (List (String × WriterRule)) :=
  (optAll (rules.map fun r => (keysOf P field r).map fun ks => (r, ks))).map fun l =>
    l.foldl (fun reg e => e.2.foldl (fun reg k => dictSet reg k e.1) reg) []

theorem evalRegistry_canonical (rules : List WriterRule) :
    evalRegistry Src.canonical "keywords" rules = some (initRules rules) := by
  unfold evalRegistry initRules
  have h : (rules.map fun r => (keysOf Src.canonical "keywords" r).map fun ks => (r, ks)) =
      (rules.map fun r => (r, r.keywords)).map some := by
    simp [keysOf, (tupleGet_canonical _).2.2]
  rw [h, optAll_map_some]
  simp [List.foldl_map]

/-- an entry of the output list as Python sees it -/
inductive Request where
  | bare (s : String)
  | entry (c : Config)

/-- the `Config` the model works with (what `Ops/C15.lean` decodes) -/
def Request.config : Request → Config
  | .bare s => { keyword := s }
  | .entry c => c

/-- `if isinstance(config, str): config = {"<bareKey>": config}` -/
def requestGet (bareKey : String) (q : Request) (k : String) : Option PyVal :=
  match q with
  | .bare s => if k = bareKey then some (.str s) else none
  | .entry c => userGet c k

/-- `self.registry[config["<dispatchKey>"]].write(self.base, config)` -/
def evalWriterWrite (bareKey dispatchKey : String) (rules : List WriterRule) (U : Units α) (b : Base α) (q : Request) :
    Option (List (Table α)) :=
  match (requestGet bareKey q dispatchKey).bind PyVal.asStr with
  | none => none
  | some kw => (resolveIn rules kw).bind fun r => writeRule U r b (some q.config)

theorem evalWriterWrite_canonical (rules : List WriterRule) (U : Units α) (b : Base α) (q : Request) :
    evalWriterWrite "keyword" "keyword" rules U b q = writeKeywordIn rules U b q.config := by
  cases q <;> simp [evalWriterWrite, requestGet, userGet, PyVal.asStr, writeKeywordIn, Request.config]

/-- the wrapped dict of a bare string has none of the keys `write_variable` reads from the user's entry -/
theorem requestGet_bare (s k : String) (hk : k ≠ "keyword") :
    requestGet "keyword" (.bare s) k = none ∧ userGet { keyword := s } k = none := by
  simp [requestGet, userGet, hk]

/-! ### `write_table` of the two interface classes -/

def applyConv (U : Units α) (name : String) : Option (List α → List α) :=
  if name = "" then some id
  else if name = "_to_gpa" then some (List.map fun x => x * U.toGPa)
  else if name = "_to_ang3" then some (List.map fun x => x * U.toAng3)
  else none

/-- `self.<array>` of the base the method is bound to (`p_array` exists on the pressure base, `v_array` on the volume base) -/
def arraySrc (b : Base α) (e : String) : Option (List α) :=
  if e = "self.t_array" then some b.tArray
  else if e = "self.p_array" then (if b.pressureBase then some b.axis else none)
  else if e = "self.v_array" then (if b.pressureBase then none else some b.axis)
  else none

def evalArg (U : Units α) (b : Base α) (a : String × String) : Option (List α) :=
  match applyConv U a.1, arraySrc b a.2 with
  | some f, some x => some (f x)
  | _, _ => none

/-- qha.basic_io.out (external, contract): `save_x_tv(x, t, volume_grid, t_sample, outfile_name)` and
`save_x_tp(df, t, desired_pressures_gpa, p_sample_gpa, outfile_name)` build `DataFrame(x, index=t, columns=grid).iloc[:-4, :]`;
`save_x_tv` then keeps the rows whose label is in `t_sample[:-4]`, `save_x_tp` the columns whose label is in `p_sample_gpa`.
The filter is interpreted only where it keeps everything: the sample argument is the very expression of the filtered labels. -/
def evalWriteTable (W : TableWiring) (U : Units α) (b : Base α) (fname : String) (value : Matrix α) : Option (Table α) :=
  match W.args with
  | [x, t, grid, sample, out] =>
    if x = ("", "value") ∧ out = ("", "fname") then
      match (if W.saver = "save_x_tv" then some ("T(K)\\V(A^3)", t)
             else if W.saver = "save_x_tp" then some ("T(K)\\P(GPa)", grid) else none) with
      | none => none
      | some cf =>
        if sample = cf.2 then
          match evalArg U b t, evalArg U b grid with
          | some rows, some cols =>
            if value.length == rows.length && value.all (fun row => row.length == cols.length) then
              some { fname := fname, corner := cf.1, rows := dropLast4 rows, cols := cols, vals := dropLast4 value }
            else none
          | _, _ => none
        else none
    else none
  | _ => none

def canonVolumeTable : TableWiring :=
  { saver := "save_x_tv",
    args := [("", "value"), ("", "self.t_array"), ("_to_ang3", "self.v_array"), ("", "self.t_array"), ("", "fname")] }

def canonPressureTable : TableWiring :=
  { saver := "save_x_tp",
    args := [("", "value"), ("", "self.t_array"), ("_to_gpa", "self.p_array"), ("_to_gpa", "self.p_array"), ("", "fname")] }

theorem evalWriteTable_canonical (U : Units α) (b : Base α) (fname : String) (value : Matrix α) :
    evalWriteTable (if b.pressureBase then canonPressureTable else canonVolumeTable) U b fname value =
      writeTable U b fname value := by
  unfold evalWriteTable writeTable
  cases hb : b.pressureBase <;>
    simp [canonPressureTable, canonVolumeTable, evalArg, applyConv, arraySrc, hb]

/-! ### `write_variables` and `Calculator.write_output` -/

/-- `writer = ResultsWriter(<ctorArgs>)` bound positionally to `(base, rules=None)`: the writer serves the base the method was
called on, with the packaged rules, and is built anew on every call; then one `writer.write(c)` per entry, in order -/
def evalWriteVariables (S : WriteVariablesSpec) (ctorParams : List String) (U : Units α) (b : Base α) (cfgs : List Config) :
    Option (List (Table α)) :=
  let env := ctorParams.zip S.ctorArgs
  if dictGet env "base" = some "self" ∧ dictGet env "rules" = none ∧ S.loopOver = "variables" then
    (optAll (cfgs.map (writeKeywordIn Generated.writerRules U b))).map List.flatten
  else none

def canonWriteVariables : WriteVariablesSpec := { ctorArgs := ["self"], loopOver := "variables" }

theorem evalWriteVariables_canonical (U : Units α) (b : Base α) (cfgs : List Config) :
    evalWriteVariables canonWriteVariables ["base", "rules"] U b cfgs = writeVariables U b cfgs := by
  simp [evalWriteVariables, canonWriteVariables, dictGet, writeVariables]
  rfl

/-- `if "<key>" in output_config.keys(): self.<view>.write_variables(output_config["<listKey>"])`, step by step -/
def evalWriteOutput (steps : List (String × String × String)) (views : List (String × String)) (U : Units α)
    (pb vb : Base α) (lists : String → Option (List Config)) : Option (List (Table α)) :=
  (optAll (steps.map fun st =>
    match lists st.1 with
    | none => some []
    | some _ =>
      match dictGet views st.2.1, lists st.2.2 with
      | some cls, some l =>
        if cls = "CijPressureBaseInterface" then writeVariables U pb l
        else if cls = "CijVolumeBaseInterface" then writeVariables U vb l
        else none
      | _, _ => none)).map List.flatten

def canonSteps : List (String × String × String) :=
  [("pressure_base", "pressure_base", "pressure_base"), ("volume_base", "volume_base", "volume_base")]

def canonViews : List (String × String) :=
  [("volume_base", "CijVolumeBaseInterface"), ("pressure_base", "CijPressureBaseInterface")]

/-- the `output` section as far as `write_output` reads it -/
def outputLists (pcfg vcfg : Option (List Config)) (k : String) : Option (List Config) :=
  if k = "pressure_base" then pcfg else if k = "volume_base" then vcfg else none

theorem evalWriteOutput_canonical (U : Units α) (pb vb : Base α) (pcfg vcfg : Option (List Config)) :
    evalWriteOutput canonSteps canonViews U pb vb (outputLists pcfg vcfg) = writeOutput U pb vb pcfg vcfg := by
  unfold evalWriteOutput writeOutput canonSteps canonViews outputLists
  cases pcfg with
  | none =>
    cases vcfg with
    | none => simp [optAll]
    | some v => simp [optAll, dictGet]; cases writeVariables U vb v <;> simp
  | some p =>
    cases vcfg with
    | none => simp [optAll, dictGet]; cases writeVariables U pb p <;> simp
    | some v =>
      simp [optAll, dictGet]
      cases writeVariables U pb p <;> cases writeVariables U vb v <;> simp

end Cij.Writer.Source
