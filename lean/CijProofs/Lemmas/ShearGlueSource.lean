/-
  The glue of `cij/core/phonon_contribution/shear.py` IS what the model says (helper lemmas for C03, no property statements here).

  `tools/gens/shear_src.py` re-extracts the glue as data on every run (`Generated/ShearGlue.lean`); `CijModel/ShearGlue.lean` gives
  the data their meaning (evaluators).  Here: on the data extracted NOW the evaluators are the hand-written model functions of
  `CijModel/Shear.lean` (`fictitiousStrain`, `diagMat ∘ eigh`, `strainRotated`, `energyPairs`, `energyKeys`, `strainEnergy`,
  `modulusKeys`, `modulusKeysRotated`, `shearValue`), for every scalar type, every key of the 15, every input; plus the
  combinatorics of the pair enumeration (ALL ordered pairs of non-zero cells, each once).
-/
import CijModel.ShearGlue
import Generated.ShearGlue
import Generated.ShearExprs
import CijProofs.Lemmas.Shear
import CijProofs.Lemmas.ShearSource

set_option linter.unusedSectionVars false
set_option linter.unusedVariables false
set_option linter.unusedSimpArgs false

namespace Cij.ShearGlue
open Cij Cij.Shear
open Generated.ShearGlue (cls energyFn keysFn)

variable {α : Type} [Add α] [Sub α] [Mul α] [Div α] [NatCast α]

/-! ### what the translated pieces compute (abbreviations used by the property theorems) -/

/-- `self.fictitious_strain` as the translated statements build it -/
abbrev sourceFict (key : Modulus) : Option (Mat3 α) := cls.fict.eval key

/-- `self.get_modulus_keys()` / `self.get_modulus_keys_rotated()` as translated -/
abbrev sourceKeys (o : Obj α) (name : String) : Option (List Modulus) := cls.keysOf keysFn o name

/-- `self.fictitious_strain_energy` / `…_rotated` as translated -/
abbrev sourceEnergy (o : Obj α) (name : String) : Option α := cls.energy energyFn Generated.shearEnergyTerm o name

/-- `self.value_isothermal` / `self.value_adiabatic` as translated -/
abbrev sourceValue (o : Obj α) (name : String) : Option α :=
  cls.value energyFn Generated.shearEnergyTerm Generated.shearTarget o 3 name

/-- `self.strain_rotated` (one generic row) as translated -/
abbrev sourceStrainRotated (o : Obj α) : Option (Vec3 α) := cls.strainRotatedRow o

/-- the eigenvalues / eigenvectors the object gets for its fictitious strain -/
def Obj.lam (o : Obj α) : Vec3 α := (o.eigh (fictitiousStrain o.key)).1
def Obj.T (o : Obj α) : Mat3 α := (o.eigh (fictitiousStrain o.key)).2

/-! ### `fictitious_strain` -/

/-- the integer matrix of the model -/
def maskNat (key : Modulus) : Fin 3 → Fin 3 → Nat := fun i j => if fictitiousMask key i j then 1 else 0

theorem fict_evalNat_table : ∀ key ∈ shearKeys,
    ((cls.fict.evalNat key).map fun m =>
      (List.finRange 3).all fun i => (List.finRange 3).all fun j => m i j == maskNat key i j) = some true := by
  decide +kernel

theorem fict_evalNat (key : Modulus) (hk : key ∈ shearKeys) :
    ∃ m, cls.fict.evalNat key = some m ∧ ∀ i j, m i j = maskNat key i j := by
  have h := fict_evalNat_table key hk
  cases hm : cls.fict.evalNat key with
  | none => rw [hm] at h; simp at h
  | some m =>
    rw [hm] at h
    refine ⟨m, rfl, fun i j => ?_⟩
    simp only [Option.map_some, Option.some.injEq, List.all_eq_true, beq_iff_eq] at h
    exact h i (List.mem_finRange i) j (List.mem_finRange j)

/-- FICTITIOUS STRAIN.  The zeros array with the translated cell assignments applied in order is the model's matrix, for every
one of the 15 keys and every scalar type. -/
theorem fict_is_source (key : Modulus) (hk : key ∈ shearKeys) :
    sourceFict (α := α) key = some (fictitiousStrain key) := by
  obtain ⟨m, hm, hc⟩ := fict_evalNat key hk
  simp only [sourceFict, FictSpec.eval, hm, Option.map_some, Option.some.injEq]
  funext i j
  rw [hc]
  unfold fictitiousStrain maskNat
  cases fictitiousMask key i j <;> rfl

theorem fictitiousMask_symm (key : Modulus) (i j : Fin 3) : fictitiousMask key i j = fictitiousMask key j i := by
  unfold fictitiousMask
  generalize idx key.i.i = a
  generalize idx key.i.j = b
  generalize idx key.j.i = c
  generalize idx key.j.j = d
  revert i j a b c d
  decide

/-- the model's fictitious strain is symmetric (any key) … -/
theorem fictitiousStrain_symm (key : Modulus) (i j : Fin 3) :
    fictitiousStrain (α := α) key i j = fictitiousStrain key j i := by
  unfold fictitiousStrain
  rw [fictitiousMask_symm]

/-- … so the matrix `numpy.linalg.eigh` builds from its lower triangle is the matrix itself -/
theorem symFromLower_fict (key : Modulus) : symFromLower (fictitiousStrain (α := α) key) = fictitiousStrain key := by
  funext i j
  unfold symFromLower
  split
  · rfl
  · exact fictitiousStrain_symm key j i

/-! ### `fictitious_strain_rotated`, `transformation_matrix` -/

theorem self0_fict (o : Obj α) (hk : o.key ∈ shearKeys) :
    cls.self0 o "fictitious_strain" = some (.mat (fictitiousStrain o.key)) := by
  have h := fict_is_source (α := α) o.key hk
  simp only [sourceFict] at h
  simp [ClassSpec.self0, h]

theorem self0_strain (o : Obj α) : cls.self0 o "strain" = some (.rows o.strain) := by
  simp [ClassSpec.self0]

/-- ROTATED FICTITIOUS STRAIN = `numpy.diag` of component 0 of `eigh(fictitious_strain)`, nothing else applied -/
theorem rotated_is_source (o : Obj α) (hk : o.key ∈ shearKeys) :
    cls.self1 o "fictitious_strain_rotated" = some (.mat (diagMat o.lam)) := by
  have h := self0_fict o hk
  simp [ClassSpec.self1, Generated.ShearGlue.cls, ArrE.eval, applyFn] at h ⊢
  simp [h, symFromLower_fict, Obj.lam]

/-- TRANSFORMATION MATRIX = component 1 of `eigh(fictitious_strain)`: no re-ordering, no sign change, no rounding -/
theorem transformation_is_source (o : Obj α) (hk : o.key ∈ shearKeys) :
    cls.self1 o "transformation_matrix" = some (.mat o.T) := by
  have h := self0_fict o hk
  simp [ClassSpec.self1, Generated.ShearGlue.cls, ArrE.eval, applyFn] at h ⊢
  simp [h, symFromLower_fict, Obj.T]

theorem self1_fict (o : Obj α) (hk : o.key ∈ shearKeys) :
    cls.self1 o "fictitious_strain" = some (.mat (fictitiousStrain o.key)) := by
  simp [ClassSpec.self1, self0_fict o hk]

theorem self1_strain (o : Obj α) : cls.self1 o "strain" = some (.rows o.strain) := by
  simp [ClassSpec.self1, self0_strain]

/-! ### `strain_rotated` -/

/-- STRAIN_ROTATED, for EVERY matrix `T` the attribute `transformation_matrix` may hold and every row of `self.strain`: the
translated statements (zeros, einsum diagonal write, `T.T @ strain @ T`, `numpy.diagonal(axis1=-2, axis2=-1)`) compute the model's
`strainRotated T s` -/
theorem strainRotated_stmts_is_source (env : Env α) (T : Mat3 α) (s : Vec3 α)
    (hs : env.self "strain" = some (.rows s)) (hT : env.self "transformation_matrix" = some (.mat T)) :
    runSr env [] cls.strainRotated.2 = some (.rows (strainRotated T s)) := by
  simp [Generated.ShearGlue.cls, runSr, ArrE.eval, applyFn, lookup, hs, hT, diagView, lastTwoAxes]
  rfl

theorem strainRotated_is_source (o : Obj α) (hk : o.key ∈ shearKeys) :
    sourceStrainRotated o = some (strainRotated o.T o.strain) := by
  simp only [sourceStrainRotated, ClassSpec.strainRotatedRow]
  rw [strainRotated_stmts_is_source ⟨cls.self1 o, o.eigh⟩ o.T o.strain (self1_strain o) (transformation_is_source o hk)]

/-- the model's `strainRotated` is the diagonal of the matrix product `Tᵀ · diag(s) · T` (product order as written) -/
theorem strainRotated_eq_matrix (T : Mat3 α) (s : Vec3 α) (a : Fin 3) :
    strainRotated T s a = mmul (mmul (transpose T) (diagMat s)) T a a := rfl

/-! ### the loop of the two module functions -/

theorem keyOf_table : ∀ i j k l : Fin 3,
    energyFn.keyOf ((i, j), (k, l)) = some (key4 i j k l) ∧ keysFn.keyOf ((i, j), (k, l)) = some (key4 i j k l) := by
  decide +kernel

/-- KEY CONSTRUCTION: `c_(i+1, j+1, k+1, l+1)` is the model's `keyOfPairs`, in both functions -/
theorem keyOf_is_source (pq : Pair × Pair) :
    energyFn.keyOf pq = some (keyOfPairs pq) ∧ keysFn.keyOf pq = some (keyOfPairs pq) := by
  obtain ⟨⟨i, j⟩, ⟨k, l⟩⟩ := pq
  exact keyOf_table i j k l

theorem optMapM_eq_some {β γ : Type} (f : β → Option γ) (g : β → γ) (l : List β) (h : ∀ x ∈ l, f x = some (g x)) :
    optMapM f l = some (l.map g) := by
  induction l with
  | nil => rfl
  | cons x xs ih =>
    have hx := h x List.mem_cons_self
    have ih' := ih fun y hy => h y (List.mem_cons_of_mem _ hy)
    simp [optMapM, hx, ih']

theorem skip_simp (k : Modulus) (target : Option Modulus) :
    (target.isSome && decide (some k = target)) = decide (some k = target) := by
  cases target <;> simp

theorem filter_map_pairs (l : List (Pair × Pair)) (target : Option Modulus) :
    (((l.map fun pq => ((pq, keyOfPairs pq), target.isSome && decide (some (keyOfPairs pq) = target))).filter
        fun x => !x.2).map (·.1)) =
      (l.filter fun pq => !(decide (some (keyOfPairs pq) = target))).map fun pq => (pq, keyOfPairs pq) := by
  induction l with
  | nil => rfl
  | cons x xs ih =>
    simp only [List.map_cons, List.filter_cons, skip_simp]
    by_cases h : some (keyOfPairs x) = target <;> simp [h, skip_simp] at ih ⊢ <;> exact ih

/-- PAIR ENUMERATION + SKIP of `calculate_fictitious_strain_energy`: the iterations that reach the body are the model's
`energyPairs` (non-zero test = `numpy.logical_not(numpy.isclose(e, 0))` with default tolerances, `itertools.product(nz, nz)`,
skipped exactly when `target and key == target`) -/
theorem energy_pairs_is_source (isZero : α → Bool) (e : Mat3 α) (target : Option Modulus) :
    energyFn.pairs isZero e target = some ((energyPairs isZero e target).map fun pq => (pq, keyOfPairs pq)) := by
  have hp : energyFn.params.head? = some ("fictitious_strain", none) := rfl
  have hl : energyFn.params.getLast? = some ("target", some "None") := rfl
  have hm : energyFn.mask.eval isZero "fictitious_strain" = some (fun x => !isZero x) := by
    simp [Generated.ShearGlue.energyFn, MaskE.eval]
  have hh : energyFn.headerOk = true := by decide
  simp only [LoopSpec.pairs, hp, hl, hm, hh, ↓reduceIte]
  rw [optMapM_eq_some _ (fun pq => ((pq, keyOfPairs pq), target.isSome && decide (some (keyOfPairs pq) = target)))]
  · simp only [filter_map_pairs]
    rfl
  · intro pq _
    rw [(keyOf_is_source pq).1]
    simp [Generated.ShearGlue.energyFn, SkipE.eval]

/-- … and of `get_fictitious_strain_energy_keys`: the same iterations -/
theorem keys_pairs_is_source (isZero : α → Bool) (e : Mat3 α) (target : Option Modulus) :
    keysFn.pairs isZero e target = some ((energyPairs isZero e target).map fun pq => (pq, keyOfPairs pq)) := by
  have hp : keysFn.params.head? = some ("fictitious_strain", none) := rfl
  have hl : keysFn.params.getLast? = some ("target", some "None") := rfl
  have hm : keysFn.mask.eval isZero "fictitious_strain" = some (fun x => !isZero x) := by
    simp [Generated.ShearGlue.keysFn, MaskE.eval]
  have hh : keysFn.headerOk = true := by decide
  simp only [LoopSpec.pairs, hp, hl, hm, hh, ↓reduceIte]
  rw [optMapM_eq_some _ (fun pq => ((pq, keyOfPairs pq), target.isSome && decide (some (keyOfPairs pq) = target)))]
  · simp only [filter_map_pairs]
    rfl
  · intro pq _
    rw [(keyOf_is_source pq).2]
    simp [Generated.ShearGlue.keysFn, SkipE.eval]

/-- `get_fictitious_strain_energy_keys(e, target)` is the model's `energyKeys`, for all inputs -/
theorem keysFn_is_source (isZero : α → Bool) (e : Mat3 α) (target : Option Modulus) :
    keysFn.keys isZero e target = some (energyKeys isZero e target) := by
  unfold LoopSpec.keys
  rw [keys_pairs_is_source]
  simp [Generated.ShearGlue.keysFn, energyKeys, List.map_map, Function.comp_def]

/-- `calculate_fictitious_strain_energy(e, resolve, target)` is the model's `strainEnergy`, for all inputs: initial value 0,
the translated term added per iteration, the accumulator returned as it is -/
theorem energyFn_is_source (isZero : α → Bool) (e : Mat3 α) (resolve : Modulus → α) (target : Option Modulus) :
    energyFn.energy Generated.shearEnergyTerm isZero e resolve target = some (strainEnergy isZero e resolve target) := by
  unfold LoopSpec.energy
  rw [energy_pairs_is_source]
  simp only [Generated.ShearGlue.energyFn, and_self, ↓reduceIte, Option.map_some, List.foldl_map]
  rfl

/-! ### the class wiring -/

theorem matAttr_fict (o : Obj α) (hk : o.key ∈ shearKeys) :
    cls.matAttr o "fictitious_strain" = some (fictitiousStrain o.key) := by
  simp [ClassSpec.matAttr, self1_fict o hk]

theorem matAttr_rotated (o : Obj α) (hk : o.key ∈ shearKeys) :
    cls.matAttr o "fictitious_strain_rotated" = some (diagMat o.lam) := by
  simp [ClassSpec.matAttr, rotated_is_source o hk]

/-- ORIGINAL-FRAME ENERGY: `fictitious_strain`, resolver `get_elastic_modulus` = `self.modulus[key]`, target `self.key` -/
theorem energy_orig_is_source (o : Obj α) (hk : o.key ∈ shearKeys) :
    sourceEnergy o "fictitious_strain_energy" =
      some (strainEnergy o.isZero (fictitiousStrain o.key) o.modulus (some o.key)) := by
  have h := matAttr_fict o hk
  simp only [sourceEnergy, ClassSpec.energy]
  simp [Generated.ShearGlue.cls] at h ⊢
  simp [h, Obj.targetOf, Obj.dict]
  exact ⟨rfl, energyFn_is_source (α := α) _ _ _ _⟩

/-- ROTATED-FRAME ENERGY: `fictitious_strain_rotated`, resolver `get_elastic_modulus_rotated` = `self.modulus_rotated[key]`,
NO target -/
theorem energy_rot_is_source (o : Obj α) (hk : o.key ∈ shearKeys) :
    sourceEnergy o "fictitious_strain_energy_rotated" =
      some (strainEnergy o.isZero (diagMat o.lam) o.modulusRotated none) := by
  have h := matAttr_rotated o hk
  simp only [sourceEnergy, ClassSpec.energy]
  simp [Generated.ShearGlue.cls] at h ⊢
  simp [h, Obj.targetOf, Obj.dict]
  exact ⟨rfl, energyFn_is_source (α := α) _ _ _ _⟩

/-- `get_modulus_keys()`: original frame WITH target `self.key` -/
theorem keys_orig_is_source (o : Obj α) (hk : o.key ∈ shearKeys) :
    sourceKeys o "get_modulus_keys" = some (modulusKeys o.isZero o.key) := by
  have h := matAttr_fict o hk
  simp only [sourceKeys, ClassSpec.keysOf]
  simp [Generated.ShearGlue.cls] at h ⊢
  simp [h, Obj.targetOf]
  exact ⟨rfl, keysFn_is_source (α := α) _ _ _⟩

/-- `get_modulus_keys_rotated()`: rotated frame, NO target -/
theorem keys_rot_is_source (o : Obj α) (hk : o.key ∈ shearKeys) :
    sourceKeys o "get_modulus_keys_rotated" = some (modulusKeysRotated o.isZero o.lam) := by
  have h := matAttr_rotated o hk
  simp only [sourceKeys, ClassSpec.keysOf]
  simp [Generated.ShearGlue.cls] at h ⊢
  simp [h, Obj.targetOf]
  exact ⟨rfl, keysFn_is_source (α := α) _ _ _⟩

theorem symEnv_eq_envOf (m eij ekl eRot eOrig mult : α) : symEnv m eij ekl eRot eOrig mult = ShExpr.envOf m eij ekl eRot eOrig mult := by
  funext s; cases s <;> rfl

/-- `get_target_elastic_modulus()` on the translated pieces = the model's `shearValue` -/
theorem target_is_source (o : Obj α) (hk : o.key ∈ shearKeys) :
    cls.target energyFn Generated.shearEnergyTerm Generated.shearTarget o =
      some (shearValue o.isZero o.key o.lam o.modulus o.modulusRotated) := by
  have h1 := energy_rot_is_source o hk
  have h2 := energy_orig_is_source o hk
  simp only [sourceEnergy] at h1 h2
  simp only [ClassSpec.target, h1, h2, matAttr_fict o hk, symEnv_eq_envOf, shearValue, ShExpr.target_is_source]

/-- VALUE: `value_isothermal` = `get_target_elastic_modulus()` as it is; `value_adiabatic` = `value_isothermal` -/
theorem value_is_source (o : Obj α) (hk : o.key ∈ shearKeys) :
    sourceValue o "value_isothermal" = some (shearValue o.isZero o.key o.lam o.modulus o.modulusRotated) ∧
    sourceValue o "value_adiabatic" = some (shearValue o.isZero o.key o.lam o.modulus o.modulusRotated) := by
  have ht := target_is_source o hk
  constructor
  · simp only [sourceValue, ClassSpec.value]
    simp [Generated.ShearGlue.cls] at ht ⊢
    exact ht
  · simp only [sourceValue, ClassSpec.value]
    simp [Generated.ShearGlue.cls] at ht ⊢
    exact ht

/-! ### the pair enumeration: ALL ordered pairs of non-zero cells, each once -/

theorem allPairs9_nodup : allPairs9.Nodup := by decide

theorem mem_allPairs9 (p : Pair) : p ∈ allPairs9 := by
  obtain ⟨i, j⟩ := p
  revert i j
  decide

theorem mem_nzPairs (isZero : α → Bool) (e : Mat3 α) (p : Pair) :
    p ∈ nzPairs isZero e ↔ isZero (e p.1 p.2) = false := by
  simp [nzPairs, mem_allPairs9]

theorem nzPairs_nodup (isZero : α → Bool) (e : Mat3 α) : (nzPairs isZero e).Nodup :=
  allPairs9_nodup.filter _

theorem product_nodup {nz : List Pair} (h : nz.Nodup) : (product nz).Nodup := by
  unfold product
  rw [List.nodup_flatMap]
  constructor
  · intro p _
    exact h.map fun a b hab => (Prod.mk.inj hab).2
  · refine List.Pairwise.imp ?_ h
    intro a b hab x hx hx'
    obtain ⟨q, _, rfl⟩ := List.mem_map.mp hx
    obtain ⟨q', _, hq'⟩ := List.mem_map.mp hx'
    exact hab (Prod.mk.inj hq').1.symm

/-- every iteration happens at most once -/
theorem energyPairs_nodup (isZero : α → Bool) (e : Mat3 α) (target : Option Modulus) :
    (energyPairs isZero e target).Nodup :=
  (product_nodup (nzPairs_nodup isZero e)).filter _

/-- without a target the loop body is reached for EVERY ordered pair of non-zero cells — `((ij),(kl))` and `((kl),(ij))` are
both iterations … -/
theorem mem_energyPairs_none (isZero : α → Bool) (e : Mat3 α) (pq : Pair × Pair) :
    pq ∈ energyPairs isZero e none ↔
      isZero (e pq.1.1 pq.1.2) = false ∧ isZero (e pq.2.1 pq.2.2) = false := by
  simp [energyPairs, mem_product, mem_nzPairs]

/-- … and with a target exactly those whose key is the target are left out -/
theorem mem_energyPairs_some (isZero : α → Bool) (e : Mat3 α) (t : Modulus) (pq : Pair × Pair) :
    pq ∈ energyPairs isZero e (some t) ↔
      (isZero (e pq.1.1 pq.1.2) = false ∧ isZero (e pq.2.1 pq.2.2) = false) ∧ keyOfPairs pq ≠ t := by
  simp [energyPairs, mem_product, mem_nzPairs]

theorem nzPairs_diag' (isZero : α → Bool) (h0 : isZero ((0 : Nat) : α) = true) (lam : Vec3 α) :
    nzPairs isZero (diagMat lam) = (fin3.filter fun a => !isZero (lam a)).map fun a => (a, a) := by
  cases hz0 : isZero (lam 0) <;> cases hz1 : isZero (lam 1) <;> cases hz2 : isZero (lam 2) <;>
    simp [nzPairs, allPairs9, fin3, diagMat, hz0, hz1, hz2, h0]

/-- a diagonal rotated strain with three non-zero eigenvalues (c14, c25, c36): the rotated frame is asked for the nine
components `c'_aabb`, `a, b ∈ {1′,2′,3′}` in row-major order — every cross component (1′2′), (1′3′), (2′3′) twice -/
theorem modulusKeysRotated_three (isZero : α → Bool) (h0 : isZero ((0 : Nat) : α) = true) (lam : Vec3 α)
    (h : ∀ a, isZero (lam a) = false) :
    modulusKeysRotated isZero lam = fin3.flatMap fun a => fin3.map fun b => key4 a a b b := by
  unfold modulusKeysRotated energyKeys energyPairs
  rw [nzPairs_diag' isZero h0]
  simp [fin3, h, product, keyOfPairs]

theorem cross_counts : ∀ a b : Fin 3,
    (fin3.flatMap fun a => fin3.map fun b => key4 a a b b).count (key4 a a b b) = if a = b then 1 else 2 := by
  decide +kernel

end Cij.ShearGlue
