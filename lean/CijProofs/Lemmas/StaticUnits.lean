/-
  C18 — the unit helpers of `cij/util/units.py` as the translator reads them on this run (`Generated.staticUnitHelpers`:
  `convert_unit(src, dst, value)` on the default pint registry): dimensions agree, `_from_gpa` undoes `_to_gpa`, `_to_kms` is the
  factor 1, `_to_gcm3` is `1/(N_A·a₀³[cm³])`.  pint's own table of unit values is outside: a unit is a symbol with an SI value
  given by a parameter `base` (the harness compares pint's factors with CODATA-2018 numbers on every run).
-/
import CijModel.StaticExpr
import Generated.StaticSpec
import Mathlib.Analysis.SpecialFunctions.Pow.Real
import Mathlib.Analysis.SpecialFunctions.Sqrt
import Mathlib.Tactic.Ring
import Mathlib.Tactic.FieldSimp
import Mathlib.Tactic.NormNum

namespace Cij.StaticSrc

/-- the helper of that name -/
def unitHelper? (n : String) : Option UnitHelper := Generated.staticUnitHelpers.find? fun h => h.name = n

/-- SI value of one unit of the expression, the named units valued by `base` -/
noncomputable def UExpr.val (base : String → ℝ) : UExpr → ℝ
  | .u n => base n
  | .mul a b => a.val base * b.val base
  | .div a b => a.val base / b.val base
  | .pow a n d => (a.val base) ^ ((n : ℝ) / (d : ℝ))

/-- `convert_unit(src, dst, 1)`: one `src` unit expressed in `dst` units -/
noncomputable def UnitHelper.factor (base : String → ℝ) (h : UnitHelper) : ℝ := h.src.val base / h.dst.val base

/-- physical dimension as exponents of (length, mass, time, amount), in HALVES (so that `** (1/2)` stays integral);
    `none` for a unit name the table does not know or a non-half-integral exponent -/
def dimOf : String → Option (Int × Int × Int × Int)
  | "bohr" | "angstrom" | "cm" | "km" | "m" => some (2, 0, 0, 0)
  | "g" | "kg" => some (0, 2, 0, 0)
  | "s" => some (0, 0, 2, 0)
  | "mol" | "particle" => some (0, 0, 0, 2)
  | "rydberg" | "eV" | "J" => some (4, 2, -4, 0)
  | "GPa" | "Pa" => some (-2, 2, -4, 0)
  | _ => none

def UExpr.dim : UExpr → Option (Int × Int × Int × Int)
  | .u n => dimOf n
  | .mul a b => do
      let (l, m, t, k) ← a.dim
      let (l', m', t', k') ← b.dim
      pure (l + l', m + m', t + t', k + k')
  | .div a b => do
      let (l, m, t, k) ← a.dim
      let (l', m', t', k') ← b.dim
      pure (l - l', m - m', t - t', k - k')
  | .pow a n d => do
      let (l, m, t, k) ← a.dim
      if d = 0 ∨ (l * n) % d ≠ 0 ∨ (m * n) % d ≠ 0 ∨ (t * n) % d ≠ 0 ∨ (k * n) % d ≠ 0 then none
      else pure (l * n / d, m * n / d, t * n / d, k * n / d)

/-- the seven helpers static.py imports exist, and each converts between units of the same dimension -/
theorem unit_helpers_dimensions :
    Generated.staticUnitHelpers.map (·.name)
      = ["_to_gpa", "_from_gpa", "_to_ang3", "_from_ang3", "_to_gcm3", "_to_ev", "_to_kms"] ∧
    ∀ h ∈ Generated.staticUnitHelpers, h.src.dim.isSome ∧ h.src.dim = h.dst.dim := by
  decide

/-- `_from_gpa` is `_to_gpa` with source and target exchanged (same for the volume pair) -/
theorem unit_pairs_are_inverse_spec :
    (do let a ← unitHelper? "_to_gpa"; let b ← unitHelper? "_from_gpa"; pure (a.src = b.dst ∧ a.dst = b.src)) = some True ∧
    (do let a ← unitHelper? "_to_ang3"; let b ← unitHelper? "_from_ang3"; pure (a.src = b.dst ∧ a.dst = b.src)) = some True := by
  simp [unitHelper?, Generated.staticUnitHelpers]

/-- hence the two factors multiply to 1 whatever the values of the units (non-zero) -/
theorem gpa_factors_inverse (base : String → ℝ) (a b : UnitHelper) (ha : unitHelper? "_to_gpa" = some a)
    (hb : unitHelper? "_from_gpa" = some b) (h1 : a.src.val base ≠ 0) (h2 : a.dst.val base ≠ 0) :
    b.factor base * a.factor base = 1 := by
  have e : a.src = b.dst ∧ a.dst = b.src := by
    simp only [unitHelper?, Generated.staticUnitHelpers, List.find?, String.reduceEq, decide_true, decide_false,
      Option.some.injEq] at ha hb
    subst ha hb
    exact ⟨rfl, rfl⟩
  unfold UnitHelper.factor
  rw [← e.1, ← e.2]
  field_simp

/-- coherent SI values of the units `_to_kms` mentions (Pa, kg, m, s = 1) -/
noncomputable def siBase : String → ℝ
  | "GPa" => 10 ^ 9
  | "g" => 1 / 10 ^ 3
  | "cm" => 1 / 10 ^ 2
  | "km" => 10 ^ 3
  | "s" => 1
  | _ => 1

/-- `_to_kms` = `sqrt(GPa / (g/cm³))` in km/s is the factor 1 exactly -/
theorem kms_factor_is_one (h : UnitHelper) (hh : unitHelper? "_to_kms" = some h) : h.factor siBase = 1 := by
  simp only [unitHelper?, Generated.staticUnitHelpers, List.find?, String.reduceEq, decide_true, decide_false,
    Option.some.injEq] at hh
  subst hh
  simp only [UnitHelper.factor, UExpr.val, siBase]
  have e : ((10 : ℝ) ^ 9 / (1 / 10 ^ 3 / (1 / 10 ^ 2) ^ (((3 : ℕ) : ℝ) / ((1 : ℕ) : ℝ)))) = (10 ^ 3) ^ 2 := by
    rw [Nat.cast_one, div_one, Real.rpow_natCast]
    norm_num
  rw [e, Nat.cast_one, Nat.cast_ofNat, ← Real.sqrt_eq_rpow, Real.sqrt_sq (by positivity)]
  norm_num

/-- `_to_gcm3`: with `mol = N_A particles`, one (g/mol)/(bohr³/particle) is `1 / (N_A · (a₀/cm)³)` g/cm³ -/
theorem gcm3_factor_is_source (base : String → ℝ) (h : UnitHelper) (hh : unitHelper? "_to_gcm3" = some h) (NA : ℝ)
    (hmol : base "mol" = NA * base "particle") (hg : base "g" ≠ 0) (hp : base "particle" ≠ 0) (hN : NA ≠ 0)
    (hb : base "bohr" ≠ 0) (hc : base "cm" ≠ 0) :
    h.factor base = 1 / (NA * (base "bohr" / base "cm") ^ 3) := by
  simp only [unitHelper?, Generated.staticUnitHelpers, List.find?, String.reduceEq, decide_true, decide_false,
    Option.some.injEq] at hh
  subst hh
  simp only [UnitHelper.factor, UExpr.val, hmol, Nat.cast_one, div_one, Nat.cast_ofNat]
  rw [show ((3 : ℝ)) = ((3 : ℕ) : ℝ) by norm_num, Real.rpow_natCast, Real.rpow_natCast]
  field_simp

end Cij.StaticSrc
