/- Soundness of read-through memoisation (helper lemmas for C14). Core Lean only. -/
import CijModel.Memo
namespace Cij.Memo

variable {ν β : Type} [DecidableEq ν]

/-- every cached entry holds the pure denotation -/
def Consistent (spec : ν → β) (t : Table ν β) : Prop := ∀ n v, t.get? n = some v → v = spec n

theorem consistent_nil (spec : ν → β) : Consistent spec ([] : Table ν β) := by
  intro n v h; simp [Table.get?] at h

theorem consistent_cons {spec : ν → β} {t : Table ν β} (h : Consistent spec t) (n : ν) :
    Consistent spec ((n, spec n) :: t) := by
  intro m v hm
  unfold Table.get? at hm
  by_cases hnm : n = m
  · subst hnm; simp [List.find?] at hm; exact hm.symm
  · have : (t.find? fun e => e.1 = m).map (·.2) = some v := by
      simpa [List.find?, hnm] using hm
    exact h m v this

/-- a reader is sound if it returns denotations and preserves consistency -/
def SoundReader (spec : ν → β) (rd : ν → Table ν β → Option (β × Table ν β)) : Prop :=
  ∀ n t v t', Consistent spec t → rd n t = some (v, t') → v = spec n ∧ Consistent spec t'

theorem runWith_sound {spec : ν → β} {rd} (hrd : SoundReader spec rd) :
    ∀ (b : Body ν β) (t : Table ν β) v t', Consistent spec t → runWith rd b t = some (v, t') →
      v = denote spec b ∧ Consistent spec t' := by
  intro b
  induction b with
  | ret v0 =>
    intro t v t' ht h
    simp [runWith] at h
    obtain ⟨rfl, rfl⟩ := h
    exact ⟨rfl, ht⟩
  | read n k ih =>
    intro t v t' ht h
    unfold runWith at h
    cases hr : rd n t with
    | none => simp [hr] at h
    | some p =>
      obtain ⟨v1, t1⟩ := p
      simp [hr] at h
      obtain ⟨hv1, ht1⟩ := hrd n t v1 t1 ht hr
      have := ih v1 t1 v t' ht1 h
      subst hv1
      simpa [denote] using this

theorem readProp_sound {spec : ν → β} {defs : ν → Body ν β} (hspec : ∀ n, spec n = denote spec (defs n)) :
    ∀ fuel, SoundReader spec (readProp defs fuel) := by
  intro fuel
  induction fuel with
  | zero => intro n t v t' _ h; simp [readProp] at h
  | succ f ih =>
    intro n t v t' ht h
    unfold readProp at h
    cases hg : t.get? n with
    | some v0 =>
      simp [hg] at h
      obtain ⟨rfl, rfl⟩ := h
      exact ⟨ht n v0 hg, ht⟩
    | none =>
      simp [hg] at h
      cases hr : runWith (readProp defs f) (defs n) t with
      | none => simp [hr] at h
      | some p =>
        obtain ⟨v1, t1⟩ := p
        simp [hr] at h
        obtain ⟨rfl, rfl⟩ := h
        obtain ⟨hv, ht1⟩ := runWith_sound ih (defs n) t v1 t1 ht hr
        have hv' : v1 = spec n := by rw [hv, ← hspec n]
        subst hv'
        exact ⟨rfl, consistent_cons ht1 n⟩

theorem history_sound {spec : ν → β} {defs : ν → Body ν β} (hspec : ∀ n, spec n = denote spec (defs n)) (fuel : Nat) :
    ∀ (ns : List ν) (t : Table ν β) vs t', Consistent spec t → history defs fuel ns t = some (vs, t') →
      vs = ns.map spec ∧ Consistent spec t' := by
  intro ns
  induction ns with
  | nil => intro t vs t' ht h; simp [history] at h; obtain ⟨rfl, rfl⟩ := h; exact ⟨rfl, ht⟩
  | cons n ns ih =>
    intro t vs t' ht h
    unfold history at h
    cases hr : readProp defs fuel n t with
    | none => simp [hr] at h
    | some p =>
      obtain ⟨v1, t1⟩ := p
      simp [hr] at h
      obtain ⟨vs1, hh, rfl⟩ := h
      obtain ⟨hv, ht1⟩ := readProp_sound hspec fuel n t v1 t1 ht hr
      obtain ⟨hvs, ht2⟩ := ih t1 vs1 t' ht1 hh
      exact ⟨by simp [hv, hvs], ht2⟩

/-- bodies that only read properties of smaller rank -/
inductive ReadsBelow (rk : ν → Nat) (r : Nat) : Body ν β → Prop
  | ret (v : β) : ReadsBelow rk r (.ret v)
  | read (n : ν) (k : β → Body ν β) : rk n < r → (∀ v, ReadsBelow rk r (k v)) → ReadsBelow rk r (.read n k)

omit [DecidableEq ν] in
theorem runWith_total {rk : ν → Nat} {r : Nat} {rd : ν → Table ν β → Option (β × Table ν β)}
    (hrd : ∀ n t, rk n < r → (rd n t).isSome) :
    ∀ (b : Body ν β), ReadsBelow rk r b → ∀ t, (runWith rd b t).isSome := by
  intro b hb
  induction hb with
  | ret v => intro t; simp [runWith]
  | read n k hn _ ih =>
    intro t
    unfold runWith
    have := hrd n t hn
    cases hr : rd n t with
    | none => simp [hr] at this
    | some p => obtain ⟨v1, t1⟩ := p; simpa using ih v1 t1

theorem readProp_total {rk : ν → Nat} {defs : ν → Body ν β} (hdefs : ∀ n, ReadsBelow rk (rk n) (defs n)) :
    ∀ fuel n t, rk n < fuel → (readProp defs fuel n t).isSome := by
  intro fuel
  induction fuel with
  | zero => intro n t h; omega
  | succ f ih =>
    intro n t h
    unfold readProp
    cases hg : t.get? n with
    | some v => simp
    | none =>
      have : (runWith (readProp defs f) (defs n) t).isSome :=
        runWith_total (rk := rk) (r := rk n) (fun m t' hm => ih m t' (by omega)) (defs n) (hdefs n) t
      cases hr : runWith (readProp defs f) (defs n) t with
      | none => simp [hr] at this
      | some p => simp

end Cij.Memo
