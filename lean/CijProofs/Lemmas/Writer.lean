/- Helper lemmas for C15 / C19 (no property statements here). -/
import CijModel.Writer
import Mathlib.Algebra.Ring.Basic
import Mathlib.Data.List.Basic
import Mathlib.Data.List.Nodup
import Mathlib.Tactic.Ring

namespace Cij.Writer

open Generated (WriterRule)

/-! ### dict -/

theorem dictGet_dictSet {β} (d : List (String × β)) (k k' : String) (v : β) :
    dictGet (dictSet d k v) k' = if k' = k then some v else dictGet d k' := by
  induction d with
  | nil =>
    by_cases h : k' = k
    · subst h; simp [dictSet, dictGet]
    · have : ¬ k = k' := fun e => h e.symm
      simp [dictSet, dictGet, h, this]
  | cons e t ih =>
    obtain ⟨a, b⟩ := e
    unfold dictSet
    by_cases hak : a = k
    · subst hak
      by_cases h : k' = a
      · subst h; simp [dictGet]
      · have : ¬ a = k' := fun e => h e.symm
        simp [dictGet, h, this]
    · have hak' : (a == k) = false := by simpa using hak
      simp only [hak', Bool.false_eq_true, if_false]
      by_cases ha : a = k'
      · subst ha
        have : ¬ a = k := hak
        simp [dictGet, this]
      · have hh : dictGet ((a, b) :: dictSet t k v) k' = dictGet (dictSet t k v) k' := by
          simp [dictGet, ha]
        have hh' : dictGet ((a, b) :: t) k' = dictGet t k' := by
          simp [dictGet, ha]
        rw [hh, hh', ih]

theorem dictGet_fold_keywords {β} (ks : List String) (r : β) (reg : List (String × β)) (kw : String) :
    dictGet (ks.foldl (fun reg k => dictSet reg k r) reg) kw = if kw ∈ ks then some r else dictGet reg kw := by
  induction ks generalizing reg with
  | nil => simp
  | cons k t ih =>
    simp only [List.foldl_cons, ih, dictGet_dictSet, List.mem_cons]
    by_cases h1 : kw ∈ t
    · simp [h1]
    · by_cases h2 : kw = k <;> simp [h1, h2]

theorem dictGet_fold_rules (rules : List WriterRule) (reg : List (String × WriterRule)) (kw : String) :
    dictGet (rules.foldl (fun reg r => r.keywords.foldl (fun reg k => dictSet reg k r) reg) reg) kw =
      match rules.reverse.find? (fun r => decide (kw ∈ r.keywords)) with
      | some r => some r
      | none => dictGet reg kw := by
  induction rules generalizing reg with
  | nil => simp
  | cons r t ih =>
    simp only [List.foldl_cons, ih, List.reverse_cons, List.find?_append]
    cases h : List.find? (fun r => decide (kw ∈ r.keywords)) t.reverse with
    | some r' => simp
    | none =>
      by_cases hk : kw ∈ r.keywords
      · simp [dictGet_fold_keywords, hk]
      · simp [dictGet_fold_keywords, hk]

/-- the registry gives the LAST rule (in file order) that lists the keyword -/
theorem resolveIn_eq_last (rules : List WriterRule) (kw : String) :
    resolveIn rules kw = rules.reverse.find? (fun r => decide (kw ∈ r.keywords)) := by
  unfold resolveIn initRules
  rw [dictGet_fold_rules]
  cases List.find? (fun r => decide (kw ∈ r.keywords)) rules.reverse <;> simp [dictGet]

/-! ### optAll -/

theorem optAll_eq_some {β} (l : List (Option β)) (r : List β) : optAll l = some r ↔ l = r.map some := by
  induction l generalizing r with
  | nil => cases r <;> simp [optAll]
  | cons x xs ih =>
    cases x with
    | none => cases r <;> simp [optAll]
    | some y =>
      cases h : optAll xs with
      | none =>
        have : ∀ r' : List β, ¬ xs = r'.map some := fun r' e => by
          have := (ih r').2 e; rw [h] at this; cases this
        cases r with
        | nil => simp [optAll, h]
        | cons a r' => simp [optAll, h, this r']
      | some ys =>
        have hys := (ih ys).1 h
        cases r with
        | nil => simp [optAll, h]
        | cons a r' =>
          simp only [optAll, h, List.map_cons, List.cons.injEq, Option.some.injEq]
          constructor
          · rintro ⟨rfl, rfl⟩; exact ⟨rfl, hys⟩
          · rintro ⟨rfl, e⟩
            refine ⟨rfl, ?_⟩
            have := (ih r').2 e; rw [h] at this; exact Option.some.inj this

theorem optAll_map_some {β} (r : List β) : optAll (r.map some) = some r := (optAll_eq_some _ _).2 rfl

/-! ### grids -/

theorem dropLast4_arange {α} [Add α] [Mul α] [NatCast α] (t0 dt : α) (n : Nat) :
    dropLast4 (arange t0 (n + 4) dt) = arange t0 n dt := by
  simp [dropLast4, arange, ← List.map_take, List.take_range]

theorem length_arange {α} [Add α] [Mul α] [NatCast α] (t0 dt : α) (n : Nat) : (arange t0 n dt).length = n := by
  simp [arange]

theorem getElem?_arange {α} [Add α] [Mul α] [NatCast α] (t0 dt : α) (n k : Nat) (h : k < n) :
    (arange t0 n dt)[k]? = some (t0 + dt * (k : α)) := by
  simp [arange, h]

/-! ### write_table -/

theorem writeTable_some {α} [Mul α] (U : Units α) (b : Base α) (fname : String) (value : Matrix α) (t : Table α)
    (h : writeTable U b fname value = some t) :
    t.fname = fname ∧ t.corner = (if b.pressureBase then "T(K)\\P(GPa)" else "T(K)\\V(A^3)") ∧
    t.rows = dropLast4 b.tArray ∧
    t.cols = b.axis.map (fun x => x * (if b.pressureBase then U.toGPa else U.toAng3)) ∧
    t.vals = dropLast4 value := by
  unfold writeTable at h
  by_cases hc : (value.length == b.tArray.length && value.all fun row =>
      row.length == (b.axis.map fun x => x * (if b.pressureBase then U.toGPa else U.toAng3)).length) = true
  · simp only [hc, if_true, Option.some.injEq] at h
    subst h; exact ⟨rfl, rfl, rfl, rfl, rfl⟩
  · simp only [hc] at h; cases h

theorem writeTable_shape_ok {α} [Mul α] (U : Units α) (b : Base α) (fname : String) (value : Matrix α)
    (hrows : value.length = b.tArray.length) (hcols : ∀ row ∈ value, row.length = b.axis.length) :
    writeTable U b fname value = some
      { fname := fname
        corner := if b.pressureBase then "T(K)\\P(GPa)" else "T(K)\\V(A^3)"
        rows := dropLast4 b.tArray
        cols := b.axis.map (fun x => x * (if b.pressureBase then U.toGPa else U.toAng3))
        vals := dropLast4 value } := by
  unfold writeTable
  have : (value.length == b.tArray.length && value.all fun row =>
      row.length == (b.axis.map fun x => x * (if b.pressureBase then U.toGPa else U.toAng3)).length) = true := by
    simp only [Bool.and_eq_true, beq_iff_eq, List.all_eq_true, List.length_map]
    exact ⟨hrows, hcols⟩
  simp only [this, if_true]

theorem writeTable_rename {α} [Mul α] (U : Units α) (b : Base α) (f f' : String) (value : Matrix α) :
    writeTable U b f' value = (writeTable U b f value).map (fun t => { t with fname := f' }) := by
  unfold writeTable
  split <;> simp

theorem dropLast4_scale {α} [Mul α] (k : α) (m : Matrix α) : dropLast4 (scale k m) = scale k (dropLast4 m) := by
  simp [dropLast4, scale, List.map_take]

/-! ### the directory after a sequence of writes -/

theorem dictSet_new {β} (d : List (String × β)) (k : String) (v : β) (h : k ∉ d.map (·.1)) :
    dictSet d k v = d ++ [(k, v)] := by
  induction d with
  | nil => rfl
  | cons e t ih =>
    obtain ⟨a, b⟩ := e
    simp only [List.map_cons, List.mem_cons, not_or] at h
    have : (a == k) = false := by simpa using fun e => h.1 e.symm
    simp [dictSet, this, ih h.2]

theorem filesAfter_fold_nodup {α} (ts : List (Table α)) (d : List (String × Table α))
    (h : (d.map (·.1) ++ ts.map (·.fname)).Nodup) :
    ts.foldl (fun d t => dictSet d t.fname t) d = d ++ ts.map (fun t => (t.fname, t)) := by
  induction ts generalizing d with
  | nil => simp
  | cons t rest ih =>
    have hnew : t.fname ∉ d.map (·.1) := by
      intro hm
      have := List.nodup_append.1 h
      exact this.2.2 _ hm _ (by simp) rfl
    simp only [List.foldl_cons, dictSet_new d t.fname t hnew]
    rw [ih]
    · simp
    · simp only [List.map_append, List.map_cons, List.map_nil, List.append_assoc, List.singleton_append]
      simpa using h

theorem filesAfter_of_nodup {α} (ts : List (Table α)) (h : (ts.map (·.fname)).Nodup) :
    filesAfter ts = ts.map (fun t => (t.fname, t)) := by
  unfold filesAfter
  rw [filesAfter_fold_nodup ts [] (by simpa using h)]; simp

theorem filesAfter_fold_same {α} (ts : List (Table α)) (f : String) (t0 : Table α)
    (h : ∀ t ∈ ts, t.fname = f) :
    ts.foldl (fun d t => dictSet d t.fname t) [(f, t0)] = [(f, (ts.getLast?).getD t0)] := by
  induction ts generalizing t0 with
  | nil => simp
  | cons t rest ih =>
    have ht : t.fname = f := h t (by simp)
    simp only [List.foldl_cons, ht, dictSet, beq_self_eq_true, if_true]
    rw [ih t (fun x hx => h x (by simp [hx]))]
    cases rest with
    | nil => simp
    | cons a r => simp [List.getLast?_eq_getLast_of_ne_nil]

theorem filesAfter_same_name {α} (ts : List (Table α)) (f : String) (hne : ts ≠ [])
    (h : ∀ t ∈ ts, t.fname = f) : filesAfter ts = [(f, ts.getLast hne)] := by
  cases ts with
  | nil => exact absurd rfl hne
  | cons t rest =>
    unfold filesAfter
    have ht : t.fname = f := h t (by simp)
    simp only [List.foldl_cons, dictSet, ht]
    rw [filesAfter_fold_same rest f t (fun x hx => h x (by simp [hx]))]
    cases rest with
    | nil => simp
    | cons a r => simp [List.getLast?_eq_getLast_of_ne_nil]

end Cij.Writer
