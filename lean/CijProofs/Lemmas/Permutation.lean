/- Helper lemmas for the axis-permutation clause of C04 (no property statements here). -/
import CijProofs.Lemmas.Isotropic

set_option linter.unusedSectionVars false

namespace Cij.Tasks
open Cij Cij.Shear

/-- the six relabellings of the axes, as the images of 0, 1, 2 -/
def permTriples : List (Fin 3 × Fin 3 × Fin 3) :=
  [(0, 1, 2), (0, 2, 1), (1, 0, 2), (1, 2, 0), (2, 0, 1), (2, 1, 0)]

def permOf (v : Fin 3 × Fin 3 × Fin 3) (i : Fin 3) : Fin 3 :=
  match i with
  | 0 => v.1
  | 1 => v.2.1
  | 2 => v.2.2

/-- the inverse relabelling -/
def invOf (v : Fin 3 × Fin 3 × Fin 3) (j : Fin 3) : Fin 3 :=
  if v.1 = j then 0 else if v.2.1 = j then 1 else 2

/-- the relabelled key: `c_(π i, π j, π k, π l)` -/
def permKey (v : Fin 3 × Fin 3 × Fin 3) (k : Modulus) : Modulus :=
  key4 (permOf v (idx k.i.i)) (permOf v (idx k.i.j)) (permOf v (idx k.j.i)) (permOf v (idx k.j.j))

theorem perm_inv : ∀ v ∈ permTriples, ∀ i : Fin 3, invOf v (permOf v i) = i ∧ permOf v (invOf v i) = i := by
  decide +kernel

theorem permKey_facts : ∀ v ∈ permTriples, ∀ k ∈ allKeys,
    permKey v k ∈ allKeys ∧ rank (permKey v k) = rank k ∧ (permKey v k).isShear = k.isShear ∧
    (permKey v k).multiplicity = k.multiplicity ∧ (permKey v k).calcType = k.calcType := by
  decide +kernel

/-- the parameters of a relabelled non-shear key use the relabelled components, possibly in exchanged order -/
theorem permKey_nonshear : ∀ v ∈ permTriples, ∀ k ∈ allKeys, k.isShear = false →
    (idx (permKey v k).i.i = permOf v (idx k.i.i) ∧ idx (permKey v k).j.i = permOf v (idx k.j.i)) ∨
    (idx (permKey v k).i.i = permOf v (idx k.j.i) ∧ idx (permKey v k).j.i = permOf v (idx k.i.i)) := by
  decide +kernel

/-- the keys a relabelled shear key asks for in the original frame are the relabelled keys (in some order) -/
theorem permKey_orig : ∀ v ∈ permTriples, ∀ k ∈ shearKeys,
    ((origPairs (permKey v k)).map keyOfPairs).Perm (((origPairs k).map keyOfPairs).map (permKey v)) := by
  decide +kernel

section perm
variable {R : Type} [Field R] [CharZero R]

/-- the relabelled strain row: `r' (π i) = r i` -/
def permRow (v : Fin 3 × Fin 3 × Fin 3) (r : Vec3 R) : Vec3 R := fun j => r (invOf v j)

def permField (v : Fin 3 × Fin 3 × Fin 3) (s : SField R) : SField R := s.map (permRow v)

theorem sum3_permRow {v : Fin 3 × Fin 3 × Fin 3} (hv : v ∈ permTriples) (r : Vec3 R) :
    sum3 (permRow v r) = sum3 r := by
  simp only [permTriples, List.mem_cons, List.mem_nil_iff, or_false] at hv
  rcases hv with rfl | rfl | rfl | rfl | rfl | rfl <;> simp [sum3, permRow, invOf] <;> ring

theorem component_perm {v : Fin 3 × Fin 3 × Fin 3} (hv : v ∈ permTriples) (s : SField R) (i : Fin 3) :
    component (permField v s) (permOf v i) = component s i := by
  unfold component permField
  rw [List.map_map]
  apply List.map_congr_left
  intro r _
  simp only [Function.comp, sum3_permRow hv]
  unfold permRow
  rw [(perm_inv v hv i).1]

/-- the rotated strains of the relabelled problem, in the relabelled frame (columns up to sign), are the rotated strains -/
theorem strainRotated_perm {v : Fin 3 × Fin 3 × Fin 3} (hv : v ∈ permTriples) (T T' : Mat3 R) (σ : Vec3 R)
    (hσ : ∀ a, σ a * σ a = 1) (hT : ∀ i a, T' (permOf v i) a = T i a * σ a) (r : Vec3 R) :
    strainRotated T' (permRow v r) = strainRotated T r := by
  funext a
  rw [strainRotated_sq, strainRotated_sq]
  have h0 := hT 0 a
  have h1 := hT 1 a
  have h2 := hT 2 a
  have hs := hσ a
  simp only [permTriples, List.mem_cons, List.mem_nil_iff, or_false] at hv
  rcases hv with rfl | rfl | rfl | rfl | rfl | rfl <;> simp [permOf] at h0 h1 h2 <;>
    simp [permRow, invOf, h0, h1, h2] <;>
    linear_combination (T 0 a * T 0 a * r 0 + T 1 a * T 1 a * r 1 + T 2 a * T 2 a * r 2) * hs

theorem rotatedField_perm {v : Fin 3 × Fin 3 × Fin 3} (hv : v ∈ permTriples) (T T' : Mat3 R) (σ : Vec3 R)
    (hσ : ∀ a, σ a * σ a = 1) (hT : ∀ i a, T' (permOf v i) a = T i a * σ a) (s : SField R) :
    rotatedField T' (permField v s) = rotatedField T s := by
  unfold rotatedField permField
  rw [List.map_map]
  apply List.map_congr_left
  intro r _
  exact strainRotated_perm hv T T' σ hσ hT r

end perm

end Cij.Tasks

namespace Cij.Tasks
open Cij Cij.Shear

section permspec
variable {R : Type} [Field R] [CharZero R]

/-- the eigen-decomposition reported for the relabelled key is the relabelled one, up to the sign of each eigenvector
(same — ascending — order of the eigenvalues) -/
def EigEquivariant (eig : Eig R) (v : Fin 3 × Fin 3 × Fin 3) (k : Modulus) : Prop :=
  (eig (permKey v k)).2 = (eig k).2 ∧
  ∃ σ : Vec3 R, (∀ a, σ a * σ a = 1) ∧ ∀ i a, (eig (permKey v k)).1 (permOf v i) a = (eig k).1 i a * σ a

theorem create_perm_nonshear {v : Fin 3 × Fin 3 × Fin 3} (hv : v ∈ permTriples) (s : SField R) {k : Modulus}
    (hk : k ∈ allKeys) (hns : k.isShear = false) :
    create (permField v s) (permKey v k) =
        .nonshear k.calcType (component s (idx k.i.i)) (component s (idx k.j.i)) ∨
    create (permField v s) (permKey v k) =
        .nonshear k.calcType (component s (idx k.j.i)) (component s (idx k.i.i)) := by
  have hf := permKey_facts v hv k hk
  have hns' : (permKey v k).isShear = false := by rw [hf.2.2.1]; exact hns
  unfold create
  simp only [hns', Bool.false_eq_true, if_false, hf.2.2.2.2]
  rcases permKey_nonshear v hv k hk hns with ⟨h1, h2⟩ | ⟨h1, h2⟩
  · left; rw [h1, h2, component_perm hv, component_perm hv]
  · right; rw [h1, h2, component_perm hv, component_perm hv]

theorem shearValue_unfold (isZero : R → Bool) (hz : ZeroSpec isZero) (k : Modulus) (lam : Vec3 R) (f g : Modulus → R) :
    shearValue isZero k lam f g =
      2 * (strainEnergy isZero (diagMat lam) g none - (((origPairs k).map keyOfPairs).map f).sum / 2) / (1 * 1) /
        (k.multiplicity : R) := by
  unfold shearValue targetModulus
  rw [strainEnergy_orig isZero hz.zero hz.one, (target_entries_one k).1, (target_entries_one k).2, List.map_map]
  simp only [Nat.cast_ofNat]
  rfl

/-- relabelling the axes (strain field and key together) does not change the value of any key -/
theorem perm_spec {isZero : R → Bool} (hz : ZeroSpec isZero) (eig : Eig R) (base : Params R → R)
    (hsymm : ∀ ct a b, base (.nonshear ct a b) = base (.nonshear ct b a))
    {v : Fin 3 × Fin 3 × Fin 3} (hv : v ∈ permTriples) (s : SField R)
    (heq : ∀ k ∈ shearKeys, EigEquivariant eig v k ∨
      spec isZero eig base 2 (create (permField v s) (permKey v k)) = spec isZero eig base 2 (create s k)) :
    ∀ (n : Nat) (k : Modulus), k ∈ allKeys → rank k ≤ n →
      spec isZero eig base 2 (create (permField v s) (permKey v k)) = spec isZero eig base 2 (create s k) := by
  have nonshear_case : ∀ k : Modulus, k ∈ allKeys → k.isShear = false →
      spec isZero eig base 2 (create (permField v s) (permKey v k)) = spec isZero eig base 2 (create s k) := by
    intro k hk hns
    have hcs : create s k = .nonshear k.calcType (component s (idx k.i.i)) (component s (idx k.j.i)) := by
      unfold create; simp [hns]
    rcases create_perm_nonshear hv s hk hns with h | h
    · rw [h, hcs]
    · rw [h, hcs, spec_nonshear, spec_nonshear, hsymm]
  intro n
  induction n with
  | zero =>
    intro k hk hr
    have hns : k.isShear = false := by
      cases h : k.isShear
      · rfl
      · have := rank_pos_of_shear h; omega
    exact nonshear_case k hk hns
  | succ n ih =>
    intro k hk hr
    cases hsh : k.isShear
    · exact nonshear_case k hk hsh
    · have hks : k ∈ shearKeys := mem_shearKeys.2 ⟨hk, hsh⟩
      have hf := permKey_facts v hv k hk
      have hsh' : (permKey v k).isShear = true := by rw [hf.2.2.1]; exact hsh
      have hks' : permKey v k ∈ shearKeys := mem_shearKeys.2 ⟨hf.1, hsh'⟩
      have hc1 : create s k = .shear s k := by unfold create; simp [hsh]
      have hc2 : create (permField v s) (permKey v k) = .shear (permField v s) (permKey v k) := by
        unfold create; simp [hsh']
      rcases heq k hks with heqk | hknown
      swap
      · exact hknown
      obtain ⟨hlam, σ, hσ, hT⟩ := heqk
      rw [hc1, hc2, spec_fix hz eig base s hks, spec_fix hz eig base (permField v s) hks',
        rotatedField_perm hv (eig k).1 (eig (permKey v k)).1 σ hσ hT s, hlam,
        shearValue_unfold isZero hz, shearValue_unfold isZero hz, hf.2.2.2.1]
      -- the original-frame sums agree term by term after relabelling
      have hsum : (((origPairs (permKey v k)).map keyOfPairs).map
            fun k' => spec isZero eig base 2 (create (permField v s) k')).sum =
          (((origPairs k).map keyOfPairs).map fun k' => spec isZero eig base 2 (create s k')).sum := by
        rw [((permKey_orig v hv k hks).map _).sum_eq, List.map_map]
        apply congrArg
        apply List.map_congr_left
        intro k' hk'
        have hd : k' ∈ depKeys isZero eig k := by
          rw [depKeys_shear isZero eig hsh, modulusKeys_eq hz]; exact List.mem_append.mpr (Or.inl hk')
        have := depKeys_canon_rank hz eig hk hd
        exact ih k' this.1 (by omega)
      rw [hsum]

end permspec

end Cij.Tasks
