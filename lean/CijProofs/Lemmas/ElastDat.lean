/- Helper lemmas for C17 (static table reader, fill re-emission): no property statements here. -/
import CijModel.ElastDat

namespace Cij.ElastDat
open Cij Cij.Lex

variable {Num : Type}

/-- a printed cell: the token in the file and the number it denotes -/
abbrev Cell (Num : Type) := Token × Num

def cellsOk (F : NumFmt Num) (r : List (Cell Num)) : Prop := ∀ c ∈ r, F.parse c.1 = some c.2

theorem mapM_cells (F : NumFmt Num) (r : List (Cell Num)) (h : cellsOk F r) :
    (r.map Prod.fst).mapM F.parse = some (r.map Prod.snd) := by
  induction r with
  | nil => rfl
  | cons c r ih =>
    have hc : F.parse c.1 = some c.2 := h c (by simp)
    have := ih (fun c' h' => h c' (by simp [h']))
    simp [List.mapM_cons, hc, this]

/-! #### dictionaries -/

theorem dictInsert_new {κ ν} [DecidableEq κ] (d : List (κ × ν)) (k : κ) (v : ν) (h : ∀ e ∈ d, e.1 ≠ k) :
    dictInsert d k v = d ++ [(k, v)] := by
  unfold dictInsert
  have : d.any (fun e => decide (e.1 = k)) = false := by
    rw [List.any_eq_false]; intro e he; simpa using h e he
  simp [this]

theorem foldl_dictInsert_nodup {κ ν} [DecidableEq κ] (kvs : List (κ × ν)) (acc : List (κ × ν))
    (hnd : (kvs.map Prod.fst).Nodup) (hdis : ∀ e ∈ acc, ∀ f ∈ kvs, e.1 ≠ f.1) :
    kvs.foldl (fun d kv => dictInsert d kv.1 kv.2) acc = acc ++ kvs := by
  induction kvs generalizing acc with
  | nil => simp
  | cons kv kvs ih =>
    simp only [List.foldl_cons]
    rw [dictInsert_new acc kv.1 kv.2 (fun e he => hdis e he kv (by simp))]
    have hnd' : (kvs.map Prod.fst).Nodup := (List.nodup_cons.mp (by simpa using hnd)).2
    have hnot : kv.1 ∉ kvs.map Prod.fst := (List.nodup_cons.mp (by simpa using hnd)).1
    rw [ih _ hnd']
    · simp
    · intro e he f hf
      rcases List.mem_append.mp he with h | h
      · exact hdis e h f (by simp [hf])
      · have : e = kv := by simpa using h
        subst this
        intro heq
        exact hnot (List.mem_map.mpr ⟨f, hf, heq.symm⟩)

theorem nodup_map_fst_zip {κ ν} (ks : List κ) (vs : List ν) (h : ks.Nodup) : ((ks.zip vs).map Prod.fst).Nodup := by
  induction ks generalizing vs with
  | nil => simp
  | cons k ks ih =>
    cases vs with
    | nil => simp
    | cons v vs =>
      have hk := List.nodup_cons.mp h
      simp only [List.zip_cons_cons, List.map_cons, List.nodup_cons]
      refine ⟨?_, ih vs hk.2⟩
      intro hm
      obtain ⟨e, he, rfl⟩ := List.mem_map.mp hm
      exact hk.1 (List.of_mem_zip he).1

/-- distinct keys: the dictionary is the plain pairing of keys with values, in column order -/
theorem dictOfZip_nodup {κ ν} [DecidableEq κ] (ks : List κ) (vs : List ν) (h : ks.Nodup) :
    dictOfZip ks vs = ks.zip vs := by
  unfold dictOfZip
  have hnd : ((ks.zip vs).map Prod.fst).Nodup := nodup_map_fst_zip ks vs h
  simpa using foldl_dictInsert_nodup (ks.zip vs) [] hnd (by simp)

theorem dictInsert_map {κ ν μ} [DecidableEq κ] (g : ν → μ) (d : List (κ × ν)) (k : κ) (v : ν) :
    (dictInsert d k v).map (fun e => (e.1, g e.2)) = dictInsert (d.map fun e => (e.1, g e.2)) k (g v) := by
  unfold dictInsert
  have : (d.map fun e => (e.1, g e.2)).any (fun e => decide (e.1 = k)) = d.any (fun e => decide (e.1 = k)) := by
    simp [List.any_map, Function.comp_def]
  rw [this]
  split
  · simp only [List.map_map]
    apply List.map_congr_left
    intro e _
    by_cases h : e.1 = k <;> simp [h]
  · simp

theorem foldl_dictInsert_map {κ ν μ} [DecidableEq κ] (g : ν → μ) (kvs : List (κ × ν)) (acc : List (κ × ν)) :
    (kvs.foldl (fun d kv => dictInsert d kv.1 kv.2) acc).map (fun e => (e.1, g e.2))
      = (kvs.map fun e => (e.1, g e.2)).foldl (fun d kv => dictInsert d kv.1 kv.2) (acc.map fun e => (e.1, g e.2)) := by
  induction kvs generalizing acc with
  | nil => rfl
  | cons kv kvs ih => simp only [List.foldl_cons, List.map_cons]; rw [ih, dictInsert_map]

/-- mapping the values commutes with building the dictionary -/
theorem dictOfZip_map {κ ν μ} [DecidableEq κ] (g : ν → μ) (ks : List κ) (vs : List ν) :
    dictOfZip ks (vs.map g) = (dictOfZip ks vs).map (fun e => (e.1, g e.2)) := by
  unfold dictOfZip
  rw [foldl_dictInsert_map]
  have : ks.zip (vs.map g) = (ks.zip vs).map (fun e => (e.1, g e.2)) := by
    rw [List.zip_map_right]; apply List.map_congr_left; intro e _; rfl
  rw [this]; rfl

/-! #### rows -/

/-- a table row as printed: the volume cell and the component cells -/
abbrev Row (Num : Type) := Cell Num × List (Cell Num)

def Row.line (r : Row Num) : Line := r.1.1 :: r.2.map Prod.fst
def Row.ok (F : NumFmt Num) (r : Row Num) : Prop := F.parse r.1.1 = some r.1.2 ∧ cellsOk F r.2
/-- the record a table row denotes -/
def Row.volume (keys : List Key) (r : Row Num) : ElastVolume Num := ⟨r.1.2, dictOfZip keys.tail (r.2.map Prod.snd)⟩

theorem readRows_cells (F : NumFmt Num) (keys : List Key) (rows : List (Row Num))
    (hok : ∀ r ∈ rows, r.ok F) (rest : List Line) :
    readRows F keys rows.length (rows.map Row.line ++ rest) = some (rows.map (Row.volume keys), rest) := by
  induction rows with
  | nil => simp [readRows]
  | cons r rows ih =>
    have h := hok r (by simp)
    have ih' := ih (fun r' h' => hok r' (by simp [h']))
    simp only [List.map_cons, List.cons_append, List.length_cons, readRows, List.headD_cons, List.tail_cons]
    simp [Row.line, List.mapM_cons, h.1, mapM_cells F r.2 h.2, ih', Row.volume]

theorem readLattice_cells (F : NumFmt Num) (lat : List (List (Cell Num))) (hok : ∀ r ∈ lat, cellsOk F r)
    (rest : List Line) :
    readLattice F lat.length (lat.map (·.map Prod.fst) ++ rest) = some (lat.map (·.map Prod.snd)) := by
  induction lat with
  | nil => simp [readLattice]
  | cons r lat ih =>
    have ih' := ih (fun r' h' => hok r' (by simp [h']))
    simp only [List.map_cons, List.cons_append, List.length_cons, readLattice, List.headD_cons, List.tail_cons]
    simp [mapM_cells F r (hok r (by simp)), ih']

/-! #### column names -/

/-- decimal spelling of a Voigt pair / of a standard 4-tuple -/
def pairStr (p : Int × Int) : String := toString p.1 ++ toString p.2
def tupleStr (t : Int × Int × Int × Int) : String :=
  toString t.1 ++ toString t.2.1 ++ toString t.2.2.1 ++ toString t.2.2.2

theorem create_pairStr : ∀ p ∈ allPairs, Modulus.create [.str (pairStr p)] = Modulus.fromVoigt p.1 p.2 := by
  decide +kernel

theorem create_tupleStr : ∀ t ∈ allTuples,
    Modulus.create [.str (tupleStr t)] = Modulus.fromStandard t.1 t.2.1 t.2.2.1 t.2.2.2 := by
  decide +kernel

theorem digits_pairStr : ∀ p ∈ allPairs, (pairStr p).toList.all Char.isDigit = true ∧ (pairStr p).toList ≠ [] := by
  decide +kernel

theorem digits_tupleStr : ∀ t ∈ allTuples, (tupleStr t).toList.all Char.isDigit = true ∧ (tupleStr t).toList ≠ [] := by
  decide +kernel

theorem dropWhile_prefix (pre ds : List Char) (hpre : ∀ c ∈ pre, c.isDigit = false)
    (hds : ds.all Char.isDigit = true) (hne : ds ≠ []) :
    (pre ++ ds).dropWhile (fun c => !c.isDigit) = ds := by
  induction pre with
  | nil =>
    cases ds with
    | nil => exact absurd rfl hne
    | cons d ds => simp at hds; simp [hds.1]
  | cons c pre ih =>
    have hc : c.isDigit = false := hpre c (by simp)
    simp [hc, ih (fun c' h => hpre c' (by simp [h]))]

/-- a column name made of any digit-free prefix followed by a digit string is keyed by `c_(digits)` -/
theorem findModulusKey_prefix (pre digits : String) (hpre : ∀ c ∈ pre.toList, c.isDigit = false)
    (hds : digits.toList.all Char.isDigit = true) (hne : digits.toList ≠ []) :
    findModulusKey (pre ++ digits) = (Modulus.create [.str digits]).map Key.mod := by
  unfold findModulusKey
  simp only [String.toList_append]
  rw [dropWhile_prefix _ _ hpre hds hne]
  have : digits.toList.isEmpty = false := by
    cases h : digits.toList with
    | nil => exact absurd h hne
    | cons a l => rfl
  simp [this, hds, String.ofList_toList]

/-! #### a static table as it stands in the file (specification side) -/

structure TableFile (Num : Type) where
  title : Line
  vref : Cell Num
  nvTok : Token
  mass : Cell Num
  extra : Line
  vname : Token
  names : List Token
  rows : List (Row Num)

def TableFile.header2 (t : TableFile Num) : Line := t.vref.1 :: t.nvTok :: t.mass.1 :: t.extra

def TableFile.tableLines (t : TableFile Num) : List Line := (t.vname :: t.names) :: t.rows.map Row.line

def TableFile.lines (t : TableFile Num) : List Line := t.title :: t.header2 :: t.tableLines

/-- the table part well-formed: cells denote their numbers, the count token is the number of rows,
the names are acceptable to `c_` -/
structure TableFile.Ok (F : NumFmt Num) (t : TableFile Num) (kv : Key) (keys : List Key) : Prop where
  vref : F.parse t.vref.1 = some t.vref.2
  mass : F.parse t.mass.1 = some t.mass.2
  nv : parseInt t.nvTok = some (t.rows.length : Int)
  vkey : findModulusKey t.vname = some kv
  keys : t.names.mapM findModulusKey = some keys
  rows : ∀ r ∈ t.rows, r.ok F

/-- the frame pandas reads from the table lines -/
def TableFile.frame (t : TableFile Num) : Table Num :=
  ⟨t.vname :: t.names, t.rows.map fun r => r.1.2 :: r.2.map Prod.snd⟩

/-- the lattice part of a parse, as a function of what follows the table rows -/
def readTail (F : NumFmt Num) (n : Nat) (tail : List Line) : Option (List (List Num)) :=
  if tail.headD [] ≠ [] then readLattice F n tail.tail else some []

theorem read_elast_core (F : NumFmt Num) (t : TableFile Num) (kv : Key) (keys : List Key) (h : t.Ok F kv keys)
    (tail : List Line) :
    readElastData F (t.lines ++ tail) =
      (readTail F t.rows.length tail).map fun lat =>
        { vref := t.vref.2, nv := t.rows.length, cellmass := t.mass.2,
          volumes := t.rows.map (Row.volume (kv :: keys)), lattice := lat } := by
  have hr := readRows_cells F (kv :: keys) t.rows h.rows tail
  simp only [TableFile.lines, TableFile.header2, TableFile.tableLines, List.cons_append, readElastData]
  simp only [List.getElem?_cons_zero, List.getElem?_cons_succ, Option.bind_eq_bind, Option.bind_some, h.vref, h.mass, h.nv,
    List.mapM_cons, h.vkey, h.keys, Int.toNat_natCast, readTail]
  simp only [Option.pure_def, Option.bind_some, hr]
  split
  · cases readLattice F t.rows.length tail.tail <;> simp
  · simp

theorem filter_lines_ne (ls : List Line) (h : ∀ l ∈ ls, l ≠ []) : ls.filter (· ≠ []) = ls := by
  apply List.filter_eq_self.mpr
  intro l hl
  simpa using h l hl

theorem mapM_rowLines (F : NumFmt Num) (m : Nat) (rows : List (Row Num)) (hrows : ∀ r ∈ rows, r.ok F)
    (hw : ∀ r ∈ rows, r.2.length + 1 = m) :
    (rows.map Row.line).mapM (fun r => if r.length = m then r.mapM F.parse else none)
      = some (rows.map fun r => r.1.2 :: r.2.map Prod.snd) := by
  induction rows with
  | nil => rfl
  | cons r rows ih =>
    have h1 := hrows r (by simp)
    have hl : (Row.line r).length = m := by simpa [Row.line] using hw r (by simp)
    have hp : (Row.line r).mapM F.parse = some (r.1.2 :: r.2.map Prod.snd) := by
      simp [Row.line, List.mapM_cons, h1.1, mapM_cells F r.2 h1.2]
    simp only [List.map_cons, List.mapM_cons]
    rw [if_pos hl, hp, ih (fun r' h => hrows r' (by simp [h])) (fun r' h => hw r' (by simp [h]))]
    rfl

theorem parseTable_frame (F : NumFmt Num) (t : TableFile Num) (hrows : ∀ r ∈ t.rows, r.ok F)
    (hw : ∀ r ∈ t.rows, r.2.length = t.names.length) :
    parseTable F t.tableLines = some t.frame := by
  unfold parseTable
  rw [filter_lines_ne]
  · simp only [TableFile.tableLines, TableFile.frame]
    rw [mapM_rowLines F _ t.rows hrows (fun r hr => by simp [hw r hr])]
    rfl
  · intro l hl
    simp only [TableFile.tableLines, List.mem_cons, List.mem_map] at hl
    rcases hl with rfl | ⟨r, _, rfl⟩ <;> simp [Row.line]

theorem length_of_mapM {α β} (f : α → Option β) (l : List α) (l' : List β) (h : l.mapM f = some l') :
    l'.length = l.length := by
  induction l generalizing l' with
  | nil => simp at h; simp [h]
  | cons a l ih =>
    simp only [List.mapM_cons, Option.bind_eq_bind, Option.bind_eq_some_iff] at h
    obtain ⟨b, _, bs, hbs, hl⟩ := h
    simp at hl
    subst hl
    simp [ih bs hbs]

theorem map_fst_zip_eq {α β} (ks : List α) (vs : List β) (h : vs.length = ks.length) : (ks.zip vs).map Prod.fst = ks := by
  induction ks generalizing vs with
  | nil => simp
  | cons k ks ih =>
    cases vs with
    | nil => simp at h
    | cons v vs => simp at h; simp [ih vs h]

theorem map_snd_zip_eq {α β} (ks : List α) (vs : List β) (h : vs.length = ks.length) : (ks.zip vs).map Prod.snd = vs := by
  induction ks generalizing vs with
  | nil => cases vs <;> simp_all
  | cons k ks ih =>
    cases vs with
    | nil => simp at h
    | cons v vs => simp at h; simp [ih vs h]

theorem map_cons_zip {α β} (f : α → β) (l : List α) (R : List (List β)) :
    ((l.map f).zip R).map (fun r => r.1 :: r.2) = List.zipWith (fun a x => f a :: x) l R := by
  induction l generalizing R with
  | nil => simp
  | cons a l ih => cases R with
    | nil => simp
    | cons x R => simp [ih R]

end Cij.ElastDat
