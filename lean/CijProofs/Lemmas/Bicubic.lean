/-
  Cubic / bicubic polynomials and the 4-node Lagrange form (`CijModel/ExtractSrc.lean: lag4, bicubic44`), over any field:
  interpolation at the nodes, exact reproduction of cubics / bicubics, uniqueness of the (bi)cubic through 4 (4×4)
  distinct nodes.  Helper lemmas for C19 (no property statements here).
-/
import CijModel.ExtractSrc
import Mathlib.Algebra.Field.Basic
import Mathlib.Tactic.FieldSimp
import Mathlib.Tactic.Ring
import Mathlib.Tactic.LinearCombination

namespace Cij.ExtractSrc

variable {α : Type} [Field α]

/-- `a₀ + a₁ t + a₂ t² + a₃ t³` -/
def cubic (a : Fin 4 → α) (t : α) : α := a 0 + a 1 * t + a 2 * t ^ 2 + a 3 * t ^ 3

/-- `Σ_{i,j<4} c i j · xⁱ yʲ` (degree ≤ 3 in each variable) -/
def bicubicPoly (c : Fin 4 → Fin 4 → α) (x y : α) : α := cubic (fun i => cubic (c i) y) x

/-- the same polynomial read as a cubic in `y` whose coefficients are cubics in `x` -/
theorem bicubicPoly_swap (c : Fin 4 → Fin 4 → α) (x y : α) :
    bicubicPoly c x y = cubic (fun j => cubic (fun i => c i j) x) y := by
  simp only [bicubicPoly, cubic]; ring

/-- four pairwise different nodes -/
structure Distinct4 (x0 x1 x2 x3 : α) : Prop where
  h01 : x0 ≠ x1
  h02 : x0 ≠ x2
  h03 : x0 ≠ x3
  h12 : x1 ≠ x2
  h13 : x1 ≠ x3
  h23 : x2 ≠ x3

omit [Field α] in
theorem Distinct4.of_injective {X : Fin 4 → α} (h : Function.Injective X) : Distinct4 (X 0) (X 1) (X 2) (X 3) :=
  ⟨fun e => by have := h e; simp at this, fun e => by have := h e; simp at this,
   fun e => by have := h e; simp at this, fun e => by have := h e; simp at this,
   fun e => by have := h e; simp at this, fun e => by have := h e; simp at this⟩

section lag
variable {x0 x1 x2 x3 : α}

/-- `lag4` written with the six differences `x_i - x_j`, i < j (keeps `field_simp; ring` small) -/
theorem lag4_canon (x0 x1 x2 x3 f0 f1 f2 f3 x : α) :
    lag4 x0 x1 x2 x3 f0 f1 f2 f3 x =
      f0 * ((x - x1) * (x - x2) * (x - x3)) / ((x0 - x1) * (x0 - x2) * (x0 - x3)) -
      f1 * ((x - x0) * (x - x2) * (x - x3)) / ((x0 - x1) * (x1 - x2) * (x1 - x3)) +
      f2 * ((x - x0) * (x - x1) * (x - x3)) / ((x0 - x2) * (x1 - x2) * (x2 - x3)) -
      f3 * ((x - x0) * (x - x1) * (x - x2)) / ((x0 - x3) * (x1 - x3) * (x2 - x3)) := by
  unfold lag4
  have e10 : x1 - x0 = -(x0 - x1) := by ring
  have e20 : x2 - x0 = -(x0 - x2) := by ring
  have e21 : x2 - x1 = -(x1 - x2) := by ring
  have e30 : x3 - x0 = -(x0 - x3) := by ring
  have e31 : x3 - x1 = -(x1 - x3) := by ring
  have e32 : x3 - x2 = -(x2 - x3) := by ring
  rw [e10, e20, e21, e30, e31, e32]
  simp only [neg_mul, mul_neg, neg_neg, div_neg]
  ring

theorem lag4_node0 (h : Distinct4 x0 x1 x2 x3) (f0 f1 f2 f3 : α) : lag4 x0 x1 x2 x3 f0 f1 f2 f3 x0 = f0 := by
  have := sub_ne_zero.2 h.h01; have := sub_ne_zero.2 h.h02; have := sub_ne_zero.2 h.h03
  unfold lag4; simp only [sub_self, zero_mul, mul_zero, zero_div, add_zero]
  field_simp

theorem lag4_node1 (h : Distinct4 x0 x1 x2 x3) (f0 f1 f2 f3 : α) : lag4 x0 x1 x2 x3 f0 f1 f2 f3 x1 = f1 := by
  have := sub_ne_zero.2 h.h01.symm; have := sub_ne_zero.2 h.h12; have := sub_ne_zero.2 h.h13
  unfold lag4; simp only [sub_self, mul_zero, zero_mul, zero_div, add_zero, zero_add]
  field_simp

theorem lag4_node2 (h : Distinct4 x0 x1 x2 x3) (f0 f1 f2 f3 : α) : lag4 x0 x1 x2 x3 f0 f1 f2 f3 x2 = f2 := by
  have := sub_ne_zero.2 h.h02.symm; have := sub_ne_zero.2 h.h12.symm; have := sub_ne_zero.2 h.h23
  unfold lag4; simp only [sub_self, zero_mul, mul_zero, zero_div, add_zero, zero_add]
  field_simp

theorem lag4_node3 (h : Distinct4 x0 x1 x2 x3) (f0 f1 f2 f3 : α) : lag4 x0 x1 x2 x3 f0 f1 f2 f3 x3 = f3 := by
  have := sub_ne_zero.2 h.h03.symm; have := sub_ne_zero.2 h.h13.symm; have := sub_ne_zero.2 h.h23.symm
  unfold lag4; simp only [sub_self, mul_zero, zero_div, add_zero, zero_add]
  field_simp

/-- at node `X i` the Lagrange form returns `f i` -/
theorem lag4_nodeFin {X : Fin 4 → α} (h : Distinct4 (X 0) (X 1) (X 2) (X 3)) (f : Fin 4 → α) (i : Fin 4) :
    lag4 (X 0) (X 1) (X 2) (X 3) (f 0) (f 1) (f 2) (f 3) (X i) = f i := by
  match i with
  | 0 => exact lag4_node0 h _ _ _ _
  | 1 => exact lag4_node1 h _ _ _ _
  | 2 => exact lag4_node2 h _ _ _ _
  | 3 => exact lag4_node3 h _ _ _ _

/-- Lagrange interpolation through four nodes reproduces every cubic EVERYWHERE -/
theorem lag4_cubic (h : Distinct4 x0 x1 x2 x3) (a : Fin 4 → α) (x : α) :
    lag4 x0 x1 x2 x3 (cubic a x0) (cubic a x1) (cubic a x2) (cubic a x3) x = cubic a x := by
  have := sub_ne_zero.2 h.h01; have := sub_ne_zero.2 h.h02; have := sub_ne_zero.2 h.h03
  have := sub_ne_zero.2 h.h12; have := sub_ne_zero.2 h.h13; have := sub_ne_zero.2 h.h23
  rw [lag4_canon]
  unfold cubic
  field_simp
  ring

/-- a cubic that vanishes at four different points is the zero polynomial (divided differences) -/
theorem cubic_eq_zero (h : Distinct4 x0 x1 x2 x3) (a : Fin 4 → α)
    (e0 : cubic a x0 = 0) (e1 : cubic a x1 = 0) (e2 : cubic a x2 = 0) (e3 : cubic a x3 = 0) : ∀ k, a k = 0 := by
  unfold cubic at e0 e1 e2 e3
  -- first divided differences
  have d01 : a 1 + a 2 * (x0 + x1) + a 3 * (x0 ^ 2 + x0 * x1 + x1 ^ 2) = 0 :=
    mul_left_cancel₀ (sub_ne_zero.2 h.h01) (by linear_combination e0 - e1)
  have d12 : a 1 + a 2 * (x1 + x2) + a 3 * (x1 ^ 2 + x1 * x2 + x2 ^ 2) = 0 :=
    mul_left_cancel₀ (sub_ne_zero.2 h.h12) (by linear_combination e1 - e2)
  have d23 : a 1 + a 2 * (x2 + x3) + a 3 * (x2 ^ 2 + x2 * x3 + x3 ^ 2) = 0 :=
    mul_left_cancel₀ (sub_ne_zero.2 h.h23) (by linear_combination e2 - e3)
  -- second
  have s012 : a 2 + a 3 * (x0 + x1 + x2) = 0 :=
    mul_left_cancel₀ (sub_ne_zero.2 h.h02) (by linear_combination d01 - d12)
  have s123 : a 2 + a 3 * (x1 + x2 + x3) = 0 :=
    mul_left_cancel₀ (sub_ne_zero.2 h.h13) (by linear_combination d12 - d23)
  -- third
  have a3 : a 3 = 0 := mul_left_cancel₀ (sub_ne_zero.2 h.h03) (by linear_combination s012 - s123)
  have a2 : a 2 = 0 := by rw [a3] at s012; linear_combination s012
  have a1 : a 1 = 0 := by rw [a3, a2] at d01; linear_combination d01
  have a0 : a 0 = 0 := by rw [a3, a2, a1] at e0; linear_combination e0
  intro k
  match k with
  | 0 => exact a0
  | 1 => exact a1
  | 2 => exact a2
  | 3 => exact a3

/-- two cubics that agree at four different points have the same coefficients -/
theorem cubic_unique (h : Distinct4 x0 x1 x2 x3) (a b : Fin 4 → α)
    (e0 : cubic a x0 = cubic b x0) (e1 : cubic a x1 = cubic b x1) (e2 : cubic a x2 = cubic b x2)
    (e3 : cubic a x3 = cubic b x3) : a = b := by
  have hsub : ∀ t, cubic (fun k => a k - b k) t = cubic a t - cubic b t := fun t => by simp only [cubic]; ring
  funext k
  have := cubic_eq_zero h (fun k => a k - b k) (by rw [hsub, e0, sub_self]) (by rw [hsub, e1, sub_self])
    (by rw [hsub, e2, sub_self]) (by rw [hsub, e3, sub_self]) k
  exact sub_eq_zero.1 this

end lag

/-! ### the 4×4 table -/

/-- a 4×4 table as the model stores it -/
def tab44 (X Y : Fin 4 → α) (Z : Fin 4 → Fin 4 → α) : Cij.Extract.Tab α :=
  { rows := [X 0, X 1, X 2, X 3], cols := [Y 0, Y 1, Y 2, Y 3],
    vals := [[Z 0 0, Z 0 1, Z 0 2, Z 0 3], [Z 1 0, Z 1 1, Z 1 2, Z 1 3],
             [Z 2 0, Z 2 1, Z 2 2, Z 2 3], [Z 3 0, Z 3 1, Z 3 2, Z 3 3]] }

theorem bicubic44_tab44 (X Y : Fin 4 → α) (Z : Fin 4 → Fin 4 → α) (x y : α) :
    bicubic44 (tab44 X Y Z).rows (tab44 X Y Z).cols (tab44 X Y Z).vals x y =
      lag4 (X 0) (X 1) (X 2) (X 3)
        (lag4 (Y 0) (Y 1) (Y 2) (Y 3) (Z 0 0) (Z 0 1) (Z 0 2) (Z 0 3) y)
        (lag4 (Y 0) (Y 1) (Y 2) (Y 3) (Z 1 0) (Z 1 1) (Z 1 2) (Z 1 3) y)
        (lag4 (Y 0) (Y 1) (Y 2) (Y 3) (Z 2 0) (Z 2 1) (Z 2 2) (Z 2 3) y)
        (lag4 (Y 0) (Y 1) (Y 2) (Y 3) (Z 3 0) (Z 3 1) (Z 3 2) (Z 3 3) y) x := rfl

/-- the tensor-product Lagrange form returns the table entry at every node -/
theorem bicubic44_node (X Y : Fin 4 → α) (Z : Fin 4 → Fin 4 → α)
    (hX : Function.Injective X) (hY : Function.Injective Y) (i j : Fin 4) :
    bicubic44 (tab44 X Y Z).rows (tab44 X Y Z).cols (tab44 X Y Z).vals (X i) (Y j) = Z i j := by
  have dx := Distinct4.of_injective hX
  have dy := Distinct4.of_injective hY
  rw [bicubic44_tab44, lag4_nodeFin dy (Z 0) j, lag4_nodeFin dy (Z 1) j, lag4_nodeFin dy (Z 2) j, lag4_nodeFin dy (Z 3) j]
  exact lag4_nodeFin dx (fun r => Z r j) i

/-- … and reproduces every bicubic polynomial it was sampled from, at EVERY (x, y) -/
theorem bicubic44_reproduces (X Y : Fin 4 → α) (c : Fin 4 → Fin 4 → α)
    (hX : Function.Injective X) (hY : Function.Injective Y) (x y : α) :
    bicubic44 (tab44 X Y fun i j => bicubicPoly c (X i) (Y j)).rows (tab44 X Y fun i j => bicubicPoly c (X i) (Y j)).cols
      (tab44 X Y fun i j => bicubicPoly c (X i) (Y j)).vals x y = bicubicPoly c x y := by
  have dx := Distinct4.of_injective hX
  have dy := Distinct4.of_injective hY
  rw [bicubic44_tab44]
  -- inner: along y, each row is the cubic `y ↦ p(X i, y)`
  have inner : ∀ i : Fin 4,
      lag4 (Y 0) (Y 1) (Y 2) (Y 3) (bicubicPoly c (X i) (Y 0)) (bicubicPoly c (X i) (Y 1)) (bicubicPoly c (X i) (Y 2))
        (bicubicPoly c (X i) (Y 3)) y = bicubicPoly c (X i) y := by
    intro i
    simp only [bicubicPoly_swap]
    exact lag4_cubic dy _ y
  rw [inner 0, inner 1, inner 2, inner 3]
  -- outer: along x, `x ↦ p(x, y)` is a cubic
  exact lag4_cubic dx (fun i => cubic (c i) y) x

/-- two bicubic polynomials that agree on a 4×4 grid of distinct nodes have the same 16 coefficients -/
theorem bicubic_unique (X Y : Fin 4 → α) (c d : Fin 4 → Fin 4 → α)
    (hX : Function.Injective X) (hY : Function.Injective Y)
    (h : ∀ i j, bicubicPoly c (X i) (Y j) = bicubicPoly d (X i) (Y j)) : c = d := by
  have dx := Distinct4.of_injective hX
  have dy := Distinct4.of_injective hY
  -- for each node Y j the cubics in x agree at the four X i: their coefficients (cubics in y) agree at Y j
  have hcoef : ∀ j : Fin 4, (fun i => cubic (c i) (Y j)) = fun i => cubic (d i) (Y j) := fun j =>
    cubic_unique dx _ _ (h 0 j) (h 1 j) (h 2 j) (h 3 j)
  funext i
  exact cubic_unique dy (c i) (d i) (congrFun (hcoef 0) i) (congrFun (hcoef 1) i) (congrFun (hcoef 2) i)
    (congrFun (hcoef 3) i)

end Cij.ExtractSrc
