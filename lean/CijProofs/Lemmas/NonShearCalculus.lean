/-
  Helper lemmas for C01 / C02 (Mathlib, single modules).

  * `Scalar ℝ` — the instance at which the model of `CijModel/NonShear.lean` is the subject of the theorems;
  * list algebra: the model's `averageOverModes … * 3 * na` is the weighted sum over q-points and
    non-Γ-acoustic modes (`average_eq_wsum`), by induction over arbitrary lists;
  * per-mode calculus (`HasDerivAt`) for f_zp = hω/2 and f_th = kT·log(1 − exp(−hω/kT)) with
    ω' = −γω/V, γ' = g/V;
  * sums of derivatives, and the passage from `HasDerivAt` facts to `deriv` / `deriv (deriv ·)`.
-/
import CijModel.NonShear
import Mathlib.Analysis.SpecialFunctions.Log.Deriv
import Mathlib.Analysis.SpecialFunctions.ExpDeriv
import Mathlib.Tactic.Ring
import Mathlib.Tactic.FieldSimp
import Mathlib.Tactic.Linarith
import Mathlib.Tactic.Positivity

namespace Cij.NonShear

open Real

/-- the model's scalar operations at ℝ: numerals are casts, `exp` is `Real.exp`, `T == 0` is `T = 0` -/
noncomputable instance instScalarReal : Scalar ℝ where
  ofNat n := (n : ℝ)
  exp := Real.exp
  isZero x := decide (x = 0)

@[simp] theorem nat_real (n : Nat) : (nat n : ℝ) = (n : ℝ) := rfl
@[simp] theorem exp_real (x : ℝ) : (Scalar.exp x : ℝ) = Real.exp x := rfl
@[simp] theorem isZero_real (x : ℝ) : (Scalar.isZero x) = decide (x = 0) := rfl

/-! ### list algebra -/

@[simp] theorem sumL_nil : sumL ([] : List ℝ) = 0 := by simp [sumL]
@[simp] theorem sumL_cons (x : ℝ) (xs : List ℝ) : sumL (x :: xs) = x + sumL xs := rfl

theorem sumL_map_add {μ : Type} (l : List μ) (f g : μ → ℝ) :
    sumL (l.map fun m => f m + g m) = sumL (l.map f) + sumL (l.map g) := by
  induction l with
  | nil => simp
  | cons a l ih => simp only [List.map_cons, sumL_cons, ih]; ring

theorem sumL_map_mul_left {μ : Type} (l : List μ) (c : ℝ) (f : μ → ℝ) :
    sumL (l.map fun m => c * f m) = c * sumL (l.map f) := by
  induction l with
  | nil => simp
  | cons a l ih => simp only [List.map_cons, sumL_cons, ih]; ring

theorem zeroFirst_length (n : Nat) (l : List ℝ) : (zeroFirst n l).length = l.length := by
  induction n generalizing l with
  | zero => rfl
  | succ n ih => cases l with
    | nil => rfl
    | cons a l => simp [zeroFirst, ih]

/-- zeroing the first `n` entries of a row = leaving them out of the sum -/
theorem sumL_zeroFirst (n : Nat) (l : List ℝ) : sumL (zeroFirst n l) = sumL (l.drop n) := by
  induction n generalizing l with
  | zero => rfl
  | succ n ih => cases l with
    | nil => rfl
    | cons a l => simp [zeroFirst, ih]

/-- elementwise combination of two arrays that are images of the same spectrum -/
theorem zw2_map {μ : Type} (S : List (List μ)) (f : ℝ → ℝ → ℝ) (a b : μ → ℝ) :
    zw2 f (S.map (List.map a)) (S.map (List.map b)) = S.map (List.map fun m => f (a m) (b m)) := by
  unfold zw2
  induction S with
  | nil => rfl
  | cons r S ih =>
    simp only [List.map_cons, List.zipWith_cons_cons, ih, List.cons.injEq, and_true]
    induction r with
    | nil => rfl
    | cons x r ihr => simp only [List.map_cons, List.zipWith_cons_cons, ihr]

theorem map2_map {μ : Type} (S : List (List μ)) (f : ℝ → ℝ) (a : μ → ℝ) :
    map2 f (S.map (List.map a)) = S.map (List.map fun m => f (a m)) := by
  simp [map2, List.map_map, Function.comp_def]

/-! ### the weighted sum over q-points and modes -/

/-- `Σ_q (w_q / Σw) Σ_{m ∈ row q} φ m` over an arbitrary spectrum `S : [q][m]` of modes of any type -/
noncomputable def wsum {μ : Type} (w : List ℝ) (S : List (List μ)) (φ : μ → ℝ) : ℝ :=
  sumL (List.zipWith (fun row wq => wq / sumL w * sumL (row.map φ)) S w)

/-- leave out the Γ-point acoustic modes: the first three modes of the first q-point -/
def dropΓ {μ : Type} : List (List μ) → List (List μ)
  | [] => []
  | r :: rs => r.drop 3 :: rs

theorem wsum_add {μ : Type} (w : List ℝ) (S : List (List μ)) (f g : μ → ℝ) :
    wsum w S (fun m => f m + g m) = wsum w S f + wsum w S g := by
  unfold wsum
  generalize sumL w = s
  induction S generalizing w with
  | nil => simp
  | cons r S ih => cases w with
    | nil => simp
    | cons a w => simp only [List.zipWith_cons_cons, sumL_cons]; rw [ih, sumL_map_add]; ring

theorem wsum_mul_left {μ : Type} (w : List ℝ) (S : List (List μ)) (c : ℝ) (f : μ → ℝ) :
    wsum w S (fun m => c * f m) = c * wsum w S f := by
  unfold wsum
  generalize sumL w = s
  induction S generalizing w with
  | nil => simp
  | cons r S ih => cases w with
    | nil => simp
    | cons a w => simp only [List.zipWith_cons_cons, sumL_cons]; rw [ih, sumL_map_mul_left]; ring

theorem wsum_congr {μ : Type} (w : List ℝ) (S : List (List μ)) (f g : μ → ℝ)
    (h : ∀ row ∈ S, ∀ m ∈ row, f m = g m) : wsum w S f = wsum w S g := by
  unfold wsum
  generalize sumL w = s
  induction S generalizing w with
  | nil => simp
  | cons r S ih => cases w with
    | nil => simp
    | cons a w =>
      simp only [List.zipWith_cons_cons, sumL_cons]
      rw [ih w (fun row hr => h row (List.mem_cons_of_mem _ hr))]
      have : r.map f = r.map g := List.map_congr_left (h r (List.mem_cons_self ..))
      rw [this]

theorem wsum_zero {μ : Type} (w : List ℝ) (S : List (List μ)) : wsum w S (fun _ => (0 : ℝ)) = 0 := by
  have := wsum_mul_left w S 0 (fun _ => (0 : ℝ))
  simpa using this

private theorem avg_aux (R : List (List ℝ)) (w : List ℝ) (n : ℕ) (hn : (n : ℝ) ≠ 0)
    (hlen : ∀ row ∈ R, row.length = n) :
    sumL (List.zipWith (fun x wq => x * wq) (R.map mean) w)
      = sumL (List.zipWith (fun row wq => wq * sumL row) R w) / n := by
  induction R generalizing w with
  | nil => simp
  | cons r R ih => cases w with
    | nil => simp
    | cons a w =>
      simp only [List.map_cons, List.zipWith_cons_cons, sumL_cons]
      rw [ih w (fun row hr => hlen row (List.mem_cons_of_mem _ hr))]
      have : mean r = sumL r / n := by simp [mean, hlen r (List.mem_cons_self ..)]
      rw [this]; field_simp

private theorem wsum_aux (R : List (List ℝ)) (w : List ℝ) (s : ℝ) :
    sumL (List.zipWith (fun row wq => wq / s * sumL row) R w)
      = sumL (List.zipWith (fun row wq => wq * sumL row) R w) / s := by
  induction R generalizing w with
  | nil => simp
  | cons r R ih => cases w with
    | nil => simp
    | cons a w => simp only [List.zipWith_cons_cons, sumL_cons, ih]; ring

/-- **average_over_modes · 3 · na is the weighted mode sum.**  For an arbitrary spectrum `S` (any number of
q-points, each with `3·na` modes), arbitrary weights with `Σw ≠ 0` and any per-mode quantity `φ`, the model's
`averageOverModes` of the array `[φ m]`, times `3 · na`, is `Σ_q (w_q/Σw) Σ_{m not Γ-acoustic} φ m`. -/
theorem average_eq_wsum {μ : Type} (S : List (List μ)) (w : List ℝ) (φ : μ → ℝ) (na : ℕ) (hna : na ≠ 0)
    (hlen : ∀ row ∈ S, row.length = 3 * na) (hw : sumL w ≠ 0) :
    averageOverModes (S.map (List.map φ)) w * 3 * na = wsum w (dropΓ S) φ := by
  have hn : (((3 * na : ℕ)) : ℝ) ≠ 0 := by
    have : 0 < 3 * na := by omega
    exact_mod_cast this.ne'
  unfold averageOverModes wsum
  have hlenC : ∀ row ∈ clearGamma (S.map (List.map φ)), row.length = 3 * na := by
    cases S with
    | nil => simp [clearGamma]
    | cons r S =>
      intro row hrow
      simp only [List.map_cons, clearGamma, List.mem_cons] at hrow
      rcases hrow with h | h
      · rw [h, zeroFirst_length, List.length_map]; exact hlen r (List.mem_cons_self ..)
      · obtain ⟨r', hr', rfl⟩ := List.mem_map.1 h
        rw [List.length_map]; exact hlen r' (List.mem_cons_of_mem _ hr')
  rw [avg_aux _ w (3 * na) hn hlenC]
  have hR : sumL (List.zipWith (fun row wq => wq * sumL row) (clearGamma (S.map (List.map φ))) w)
      = sumL (List.zipWith (fun row wq => wq * sumL row) ((dropΓ S).map (List.map φ)) w) := by
    cases S with
    | nil => rfl
    | cons r S => cases w with
      | nil => simp [clearGamma, dropΓ]
      | cons a w =>
        simp only [List.map_cons, clearGamma, dropΓ, List.zipWith_cons_cons, sumL_cons, sumL_zeroFirst,
          List.map_drop]
  rw [hR]
  have hW : sumL (List.zipWith (fun row wq => wq / sumL w * sumL (List.map φ row)) (dropΓ S) w)
      = sumL (List.zipWith (fun row wq => wq / sumL w * sumL row) ((dropΓ S).map (List.map φ)) w) := by
    rw [List.zipWith_map_left]
  rw [hW, wsum_aux]
  push_cast
  push_cast at hn
  field_simp

/-! ### Bose factors over ℝ -/

theorem q1_real (q : ℝ) : q1 q = q / (Real.exp q - 1) := by simp [q1]

theorem q2_real (q : ℝ) :
    q2 q = q * q * Real.exp (-q) / ((1 - Real.exp (-q)) * (1 - Real.exp (-q))) := by simp [q2]

theorem exp_sub_one_ne {q : ℝ} (hq : q ≠ 0) : Real.exp q - 1 ≠ 0 := by
  intro h
  have : Real.exp q = 1 := by linarith
  exact hq (by simpa using this)

/-- the overflow-safe spelling used by the code equals the textbook `Q² e^Q / (e^Q − 1)²` -/
theorem q2_eq_classic (q : ℝ) (hq : q ≠ 0) : q2 q = q ^ 2 * Real.exp q / (Real.exp q - 1) ^ 2 := by
  have he := exp_sub_one_ne hq
  have hp : Real.exp q ≠ 0 := (Real.exp_pos q).ne'
  rw [q2_real, Real.exp_neg]
  have h1 : 1 - (Real.exp q)⁻¹ = (Real.exp q - 1) / Real.exp q := by field_simp
  rw [h1]
  field_simp

theorem hasDerivAt_q1 (q : ℝ) (hq : 0 < q) : HasDerivAt (q1 : ℝ → ℝ) ((q1 q - q2 q) / q) q := by
  have he : Real.exp q - 1 ≠ 0 := exp_sub_one_ne hq.ne'
  have h1 : HasDerivAt (fun x => Real.exp x - 1) (Real.exp q) q := (Real.hasDerivAt_exp q).sub_const 1
  have h2 : HasDerivAt (fun x => x / (Real.exp x - 1))
      ((1 * (Real.exp q - 1) - q * Real.exp q) / (Real.exp q - 1) ^ 2) q :=
    (hasDerivAt_id' q).div h1 he
  have hfun : (q1 : ℝ → ℝ) = fun x => x / (Real.exp x - 1) := funext q1_real
  have hq' : q ≠ 0 := hq.ne'
  have : (q1 q - q2 q) / q = (1 * (Real.exp q - 1) - q * Real.exp q) / (Real.exp q - 1) ^ 2 := by
    rw [q2_eq_classic q hq', q1_real]
    field_simp
  rw [this, hfun]
  exact h2

/-! ### one phonon mode -/

/-- a mode as a function of volume: frequency ω(V), Grüneisen parameter γ(V), and g(V) = V ∂γ/∂V -/
structure Mode where
  ω : ℝ → ℝ
  γ : ℝ → ℝ
  g : ℝ → ℝ

/-- the defining relations γ = −∂lnω/∂lnV, g = V∂γ/∂V at every positive volume, ω > 0 -/
def Mode.Good (m : Mode) : Prop :=
  ∀ v : ℝ, 0 < v → 0 < m.ω v ∧ HasDerivAt m.ω (-(m.γ v * m.ω v / v)) v ∧ HasDerivAt m.γ (m.g v / v) v

/-- zero-point free energy hω/2 -/
noncomputable def fzp (h : ℝ) (m : Mode) (v : ℝ) : ℝ := h * m.ω v / 2
/-- thermal free energy kT·ln(1 − e^{−hω/kT}) -/
noncomputable def fth (h k T : ℝ) (m : Mode) (v : ℝ) : ℝ :=
  k * T * Real.log (1 - Real.exp (-(h * m.ω v / (k * T))))

/-- closed forms: −∂f_zp/∂V and V∂²f_zp/∂V² − (−∂f_zp/∂V) -/
noncomputable def pzp (h : ℝ) (m : Mode) (v : ℝ) : ℝ := h * m.γ v * m.ω v / (2 * v)
noncomputable def azp (h : ℝ) (m : Mode) (v : ℝ) : ℝ := h * m.ω v * (m.γ v ^ 2 - m.g v) / (2 * v)
/-- the code's `Q = h_div_k * (ω / T)` -/
noncomputable def Qm (hdk T : ℝ) (m : Mode) (v : ℝ) : ℝ := hdk * (m.ω v / T)
noncomputable def pth (k hdk T : ℝ) (m : Mode) (v : ℝ) : ℝ := k * T / v * m.γ v * q1 (Qm hdk T m v)
noncomputable def ath (k hdk T : ℝ) (m : Mode) (v : ℝ) : ℝ :=
  k * T / v * (m.γ v ^ 2 * (q1 (Qm hdk T m v) - q2 (Qm hdk T m v)) - m.g v * q1 (Qm hdk T m v))
/-- ∂/∂T of the thermal pressure of one mode -/
noncomputable def dpth (k hdk T : ℝ) (m : Mode) (v : ℝ) : ℝ := k / v * m.γ v * q2 (Qm hdk T m v)

theorem hasDerivAt_fzp (h : ℝ) (m : Mode) (hm : m.Good) (v : ℝ) (hv : 0 < v) :
    HasDerivAt (fzp h m) (-pzp h m v) v := by
  obtain ⟨_, hω, _⟩ := hm v hv
  have h1 : HasDerivAt (fun u => h * m.ω u / 2) (h * -(m.γ v * m.ω v / v) / 2) v :=
    (hω.const_mul h).div_const 2
  have h' : HasDerivAt (fzp h m) (h * -(m.γ v * m.ω v / v) / 2) v := h1
  refine h'.congr_deriv ?_
  have : v ≠ 0 := hv.ne'
  unfold pzp; field_simp

/-- V ∂²f_zp/∂V² = a_zp + p_zp, stated as the derivative of the closed form of −∂f_zp/∂V -/
theorem hasDerivAt_pzp (h : ℝ) (m : Mode) (hm : m.Good) (V : ℝ) (hV : 0 < V) :
    HasDerivAt (pzp h m) (-(azp h m V + pzp h m V) / V) V := by
  obtain ⟨_, hω, hγ⟩ := hm V hV
  have hV0 : V ≠ 0 := hV.ne'
  have hnum : HasDerivAt (fun u => h * m.γ u * m.ω u)
      (h * (m.g V / V) * m.ω V + h * m.γ V * -(m.γ V * m.ω V / V)) V := (hγ.const_mul h).mul hω
  have hden : HasDerivAt (fun u : ℝ => 2 * u) (2 * 1) V := (hasDerivAt_id' V).const_mul 2
  have h2V : (2 * V) ≠ 0 := by positivity
  have hq := hnum.div hden h2V
  have h' : HasDerivAt (pzp h m) _ V := hq
  refine h'.congr_deriv ?_
  unfold azp pzp; field_simp; ring

theorem Qm_pos {hdk T : ℝ} (m : Mode) (hm : m.Good) {v : ℝ} (hv : 0 < v) (hh : 0 < hdk) (hT : 0 < T) :
    0 < Qm hdk T m v := by
  have := (hm v hv).1
  unfold Qm; positivity

/-- −∂f_th/∂V = (kT/V) γ Q₁ -/
theorem hasDerivAt_fth (h k hdk T : ℝ) (hh : 0 < h) (hk : 0 < k) (hhdk : hdk = h / k) (hT : 0 < T)
    (m : Mode) (hm : m.Good) (v : ℝ) (hv : 0 < v) :
    HasDerivAt (fth h k T m) (-pth k hdk T m v) v := by
  obtain ⟨hωpos, hω, _⟩ := hm v hv
  have hkT : k * T ≠ 0 := by positivity
  set Q := h * m.ω v / (k * T) with hQdef
  have hQpos : 0 < Q := by rw [hQdef]; positivity
  have hQm : Qm hdk T m v = Q := by unfold Qm; rw [hhdk, hQdef]; field_simp
  have hQ : HasDerivAt (fun u => -(h * m.ω u / (k * T))) (-(h * -(m.γ v * m.ω v / v) / (k * T))) v :=
    ((hω.const_mul h).div_const (k * T)).neg
  have hE : HasDerivAt (fun u => Real.exp (-(h * m.ω u / (k * T))))
      (Real.exp (-Q) * -(h * -(m.γ v * m.ω v / v) / (k * T))) v := by
    have := (Real.hasDerivAt_exp (-Q)).comp v hQ
    simpa [Function.comp_def] using this
  have hone : HasDerivAt (fun u => 1 - Real.exp (-(h * m.ω u / (k * T))))
      (-(Real.exp (-Q) * -(h * -(m.γ v * m.ω v / v) / (k * T)))) v := by
    simpa using hE.const_sub 1
  have hlt : Real.exp (-Q) < 1 := by
    rw [Real.exp_lt_one_iff]; linarith
  have hne : 1 - Real.exp (-Q) ≠ 0 := by linarith
  have hL := (hone.log hne).const_mul (k * T)
  have h' : HasDerivAt (fth h k T m) _ v := hL
  refine h'.congr_deriv ?_
  unfold pth
  rw [hQm, q1_real]
  have hexp : Real.exp (-Q) = (Real.exp Q)⁻¹ := Real.exp_neg Q
  have hp : Real.exp Q ≠ 0 := (Real.exp_pos Q).ne'
  have he : Real.exp Q - 1 ≠ 0 := exp_sub_one_ne hQpos.ne'
  have hv0 : v ≠ 0 := hv.ne'
  rw [hexp] at hne ⊢
  have h1 : 1 - (Real.exp Q)⁻¹ = (Real.exp Q - 1) / Real.exp Q := by field_simp
  rw [h1]
  rw [hQdef]
  rw [hQdef] at he hp
  field_simp

/-- V ∂²f_th/∂V² = a_th + p_th, stated as the derivative of the closed form (kT/V) γ Q₁ of −∂f_th/∂V -/
theorem hasDerivAt_pth (k hdk T : ℝ) (hh : 0 < hdk) (hT : 0 < T) (m : Mode) (hm : m.Good) (V : ℝ) (hV : 0 < V) :
    HasDerivAt (pth k hdk T m) (-(ath k hdk T m V + pth k hdk T m V) / V) V := by
  obtain ⟨hωpos, hω, hγ⟩ := hm V hV
  have hV0 : V ≠ 0 := hV.ne'
  have hT0 : T ≠ 0 := hT.ne'
  have hpos : 0 < Qm hdk T m V := Qm_pos m hm hV hh hT
  have hQ : HasDerivAt (fun v => Qm hdk T m v) (hdk * (-(m.γ V * m.ω V / V) / T)) V :=
    (hω.div_const T).const_mul hdk
  have hQ1 : HasDerivAt (fun v => q1 (Qm hdk T m v))
      ((q1 (Qm hdk T m V) - q2 (Qm hdk T m V)) / (Qm hdk T m V) * (hdk * (-(m.γ V * m.ω V / V) / T))) V := by
    have := (hasDerivAt_q1 (Qm hdk T m V) hpos).comp V hQ
    simpa [Function.comp_def] using this
  have hinv : HasDerivAt (fun v : ℝ => k * T / v) ((0 * V - k * T * 1) / V ^ 2) V :=
    (hasDerivAt_const V (k * T)).div (hasDerivAt_id' V) hV0
  have h := (hinv.mul hγ).mul hQ1
  have h' : HasDerivAt (pth k hdk T m) _ V := h
  refine h'.congr_deriv ?_
  have hq : Qm hdk T m V ≠ 0 := hpos.ne'
  have hQe : Qm hdk T m V = hdk * (m.ω V / T) := rfl
  unfold ath pth
  simp only [Pi.mul_apply]
  generalize q1 (Qm hdk T m V) = A at *
  generalize q2 (Qm hdk T m V) = B at *
  rw [hQe] at hq ⊢
  have hw : m.ω V ≠ 0 := hωpos.ne'
  have hh0 : hdk ≠ 0 := hh.ne'
  field_simp
  ring

/-- ∂/∂T [(kT/V) γ Q₁(hω/kT)] = (k/V) γ Q₂ -/
theorem hasDerivAt_pth_T (k hdk T : ℝ) (hh : 0 < hdk) (hT : 0 < T) (m : Mode) (hm : m.Good) (V : ℝ) (hV : 0 < V) :
    HasDerivAt (fun T' => pth k hdk T' m V) (dpth k hdk T m V) T := by
  obtain ⟨hωpos, _, _⟩ := hm V hV
  have hT0 : T ≠ 0 := hT.ne'
  have hpos : 0 < Qm hdk T m V := Qm_pos m hm hV hh hT
  have hdiv : HasDerivAt (fun T' : ℝ => m.ω V / T') ((0 * T - m.ω V * 1) / T ^ 2) T :=
    (hasDerivAt_const T (m.ω V)).div (hasDerivAt_id' T) hT0
  have hQ : HasDerivAt (fun T' => Qm hdk T' m V) (hdk * ((0 * T - m.ω V * 1) / T ^ 2)) T := hdiv.const_mul hdk
  have hQ1 : HasDerivAt (fun T' => q1 (Qm hdk T' m V))
      ((q1 (Qm hdk T m V) - q2 (Qm hdk T m V)) / (Qm hdk T m V) * (hdk * ((0 * T - m.ω V * 1) / T ^ 2))) T := by
    have := (hasDerivAt_q1 (Qm hdk T m V) hpos).comp T hQ
    simpa [Function.comp_def] using this
  have hlin : HasDerivAt (fun T' : ℝ => k * T' / V * m.γ V) (k * 1 / V * m.γ V) T :=
    (((hasDerivAt_id' T).const_mul k).div_const V).mul_const (m.γ V)
  have h := hlin.mul hQ1
  have h' : HasDerivAt (fun T' => pth k hdk T' m V) _ T := h
  refine h'.congr_deriv ?_
  have hq : Qm hdk T m V ≠ 0 := hpos.ne'
  have hQe : Qm hdk T m V = hdk * (m.ω V / T) := rfl
  unfold dpth
  generalize q1 (Qm hdk T m V) = A at *
  generalize q2 (Qm hdk T m V) = B at *
  rw [hQe] at hq ⊢
  have hw : m.ω V ≠ 0 := hωpos.ne'
  have hh0 : hdk ≠ 0 := hh.ne'
  have hV0 : V ≠ 0 := hV.ne'
  field_simp
  ring

/-! ### sums of derivatives -/

theorem hasDerivAt_sumL_map {μ : Type} (l : List μ) (φ : μ → ℝ → ℝ) (φ' : μ → ℝ) (x : ℝ)
    (h : ∀ m ∈ l, HasDerivAt (φ m) (φ' m) x) :
    HasDerivAt (fun u => sumL (l.map fun m => φ m u)) (sumL (l.map φ')) x := by
  induction l with
  | nil => simpa using hasDerivAt_const x (0 : ℝ)
  | cons a l ih =>
    have h1 := h a (List.mem_cons_self ..)
    have h2 := ih (fun m hm => h m (List.mem_cons_of_mem _ hm))
    simp only [List.map_cons, sumL_cons]
    exact h1.add h2

/-- termwise differentiation of the weighted mode sum (in whatever variable: V or T) -/
theorem hasDerivAt_wsum {μ : Type} (w : List ℝ) (S : List (List μ)) (φ : μ → ℝ → ℝ) (φ' : μ → ℝ) (x : ℝ)
    (h : ∀ row ∈ S, ∀ m ∈ row, HasDerivAt (φ m) (φ' m) x) :
    HasDerivAt (fun u => wsum w S (fun m => φ m u)) (wsum w S φ') x := by
  unfold wsum
  generalize sumL w = s
  induction S generalizing w with
  | nil => simpa using hasDerivAt_const x (0 : ℝ)
  | cons r S ih => cases w with
    | nil => simpa using hasDerivAt_const x (0 : ℝ)
    | cons a w =>
      have h1 := (hasDerivAt_sumL_map r φ φ' x (h r (List.mem_cons_self ..))).const_mul (a / s)
      have h2 := ih w (fun row hr => h row (List.mem_cons_of_mem _ hr))
      simp only [List.zipWith_cons_cons, sumL_cons]
      exact h1.add h2

/-! ### from `HasDerivAt` facts to P = −∂F/∂V and A = V∂²F/∂V² − P -/

/-- P = −∂F/∂V -/
noncomputable def Pof (F : ℝ → ℝ) (V : ℝ) : ℝ := -deriv F V
/-- A = V ∂²F/∂V² − P -/
noncomputable def Aof (F : ℝ → ℝ) (V : ℝ) : ℝ := V * deriv (deriv F) V - Pof F V

theorem Pof_Aof_of_hasDerivAt (F p : ℝ → ℝ) (a V : ℝ) (hV : 0 < V)
    (h1 : ∀ v, 0 < v → HasDerivAt F (-p v) v) (h2 : HasDerivAt p (-(a + p V) / V) V) :
    Pof F V = p V ∧ Aof F V = a := by
  have hP : Pof F V = p V := by unfold Pof; rw [(h1 V hV).deriv]; ring
  refine ⟨hP, ?_⟩
  have hev : deriv F =ᶠ[nhds V] fun v => -p v := by
    filter_upwards [Ioi_mem_nhds hV] with v hv
    exact (h1 v hv).deriv
  have hd2 : deriv (deriv F) V = (a + p V) / V := by
    have hn : HasDerivAt (fun v => -p v) (-(-(a + p V) / V)) V := h2.neg
    rw [hev.deriv_eq, hn.deriv]; ring
  unfold Aof
  rw [hP, hd2]
  have : V ≠ 0 := hV.ne'
  field_simp; ring

theorem wsum_neg {μ : Type} (w : List ℝ) (S : List (List μ)) (f : μ → ℝ) :
    wsum w S (fun m => -f m) = -wsum w S f := by
  have := wsum_mul_left w S (-1) f
  simpa using this

/-! ### a whole spectrum: free energy, its closed-form derivatives, and the arrays handed to the code -/

/-- every mode that is not a Γ-point acoustic mode satisfies the Grüneisen relations -/
def GoodS (S : List (List Mode)) : Prop := ∀ row ∈ dropΓ S, ∀ m ∈ row, m.Good

/-- F_zp(V) = Σ_q ŵ_q Σ_m hω/2,  F_th(T,V) = Σ_q ŵ_q Σ_m kT ln(1 − e^{−hω/kT})  (Γ acoustic modes excluded,
weights normalised), F_ph = F_zp + F_th -/
noncomputable def Fzp (h : ℝ) (w : List ℝ) (S : List (List Mode)) (v : ℝ) : ℝ :=
  wsum w (dropΓ S) (fun m => fzp h m v)
noncomputable def Fth (h k T : ℝ) (w : List ℝ) (S : List (List Mode)) (v : ℝ) : ℝ :=
  wsum w (dropΓ S) (fun m => fth h k T m v)
noncomputable def Fph (h k T : ℝ) (w : List ℝ) (S : List (List Mode)) (v : ℝ) : ℝ :=
  Fzp h w S v + Fth h k T w S v

noncomputable def Pzp (h : ℝ) (w : List ℝ) (S : List (List Mode)) (v : ℝ) : ℝ :=
  wsum w (dropΓ S) (fun m => pzp h m v)
noncomputable def Azp (h : ℝ) (w : List ℝ) (S : List (List Mode)) (v : ℝ) : ℝ :=
  wsum w (dropΓ S) (fun m => azp h m v)
noncomputable def Pth (k hdk T : ℝ) (w : List ℝ) (S : List (List Mode)) (v : ℝ) : ℝ :=
  wsum w (dropΓ S) (fun m => pth k hdk T m v)
noncomputable def Ath (k hdk T : ℝ) (w : List ℝ) (S : List (List Mode)) (v : ℝ) : ℝ :=
  wsum w (dropΓ S) (fun m => ath k hdk T m v)
noncomputable def dPth (k hdk T : ℝ) (w : List ℝ) (S : List (List Mode)) (v : ℝ) : ℝ :=
  wsum w (dropΓ S) (fun m => dpth k hdk T m v)

private theorem wsum_second {μ : Type} (w : List ℝ) (S : List (List μ)) (a p : μ → ℝ) (V : ℝ) :
    wsum w S (fun m => -(a m + p m) / V) = -(wsum w S a + wsum w S p) / V := by
  have h1 : wsum w S (fun m => -(a m + p m) / V) = wsum w S (fun m => (-1 / V) * (a m + p m)) :=
    wsum_congr _ _ _ _ (fun _ _ _ _ => by ring)
  rw [h1, wsum_mul_left, wsum_add]; ring

theorem Fzp_PA (h : ℝ) (w : List ℝ) (S : List (List Mode)) (hS : GoodS S) (V : ℝ) (hV : 0 < V) :
    Pof (Fzp h w S) V = Pzp h w S V ∧ Aof (Fzp h w S) V = Azp h w S V := by
  refine Pof_Aof_of_hasDerivAt (Fzp h w S) (Pzp h w S) (Azp h w S V) V hV ?_ ?_
  · intro v hv
    have := hasDerivAt_wsum w (dropΓ S) (fun m => fzp h m) (fun m => -pzp h m v) v
      (fun row hr m hm => hasDerivAt_fzp h m (hS row hr m hm) v hv)
    rw [wsum_neg] at this
    exact this
  · have := hasDerivAt_wsum w (dropΓ S) (fun m => pzp h m) (fun m => -(azp h m V + pzp h m V) / V) V
      (fun row hr m hm => hasDerivAt_pzp h m (hS row hr m hm) V hV)
    rw [wsum_second] at this
    exact this

theorem Fth_hasDerivAt (h k hdk T : ℝ) (hh : 0 < h) (hk : 0 < k) (hhdk : hdk = h / k) (hT : 0 < T)
    (w : List ℝ) (S : List (List Mode)) (hS : GoodS S) (v : ℝ) (hv : 0 < v) :
    HasDerivAt (Fth h k T w S) (-Pth k hdk T w S v) v := by
  have := hasDerivAt_wsum w (dropΓ S) (fun m => fth h k T m) (fun m => -pth k hdk T m v) v
    (fun row hr m hm => hasDerivAt_fth h k hdk T hh hk hhdk hT m (hS row hr m hm) v hv)
  rw [wsum_neg] at this
  exact this

theorem Pth_hasDerivAt (k hdk T : ℝ) (hhdk : 0 < hdk) (hT : 0 < T)
    (w : List ℝ) (S : List (List Mode)) (hS : GoodS S) (V : ℝ) (hV : 0 < V) :
    HasDerivAt (Pth k hdk T w S) (-(Ath k hdk T w S V + Pth k hdk T w S V) / V) V := by
  have := hasDerivAt_wsum w (dropΓ S) (fun m => pth k hdk T m) (fun m => -(ath k hdk T m V + pth k hdk T m V) / V) V
    (fun row hr m hm => hasDerivAt_pth k hdk T hhdk hT m (hS row hr m hm) V hV)
  rw [wsum_second] at this
  exact this

theorem hdk_pos {h k hdk : ℝ} (hh : 0 < h) (hk : 0 < k) (hhdk : hdk = h / k) : 0 < hdk := by
  rw [hhdk]; positivity

theorem Fth_PA (h k hdk T : ℝ) (hh : 0 < h) (hk : 0 < k) (hhdk : hdk = h / k) (hT : 0 < T)
    (w : List ℝ) (S : List (List Mode)) (hS : GoodS S) (V : ℝ) (hV : 0 < V) :
    Pof (Fth h k T w S) V = Pth k hdk T w S V ∧ Aof (Fth h k T w S) V = Ath k hdk T w S V :=
  Pof_Aof_of_hasDerivAt _ (Pth k hdk T w S) _ V hV
    (fun v hv => Fth_hasDerivAt h k hdk T hh hk hhdk hT w S hS v hv)
    (Pth_hasDerivAt k hdk T (hdk_pos hh hk hhdk) hT w S hS V hV)

theorem Fph_PA (h k hdk T : ℝ) (hh : 0 < h) (hk : 0 < k) (hhdk : hdk = h / k) (hT : 0 < T)
    (w : List ℝ) (S : List (List Mode)) (hS : GoodS S) (V : ℝ) (hV : 0 < V) :
    Pof (Fph h k T w S) V = Pzp h w S V + Pth k hdk T w S V ∧
    Aof (Fph h k T w S) V = Azp h w S V + Ath k hdk T w S V := by
  have hz1 : ∀ v, 0 < v → HasDerivAt (Fzp h w S) (-Pzp h w S v) v := by
    intro v hv
    have := hasDerivAt_wsum w (dropΓ S) (fun m => fzp h m) (fun m => -pzp h m v) v
      (fun row hr m hm => hasDerivAt_fzp h m (hS row hr m hm) v hv)
    rw [wsum_neg] at this
    exact this
  have hz2 : HasDerivAt (Pzp h w S) (-(Azp h w S V + Pzp h w S V) / V) V := by
    have := hasDerivAt_wsum w (dropΓ S) (fun m => pzp h m) (fun m => -(azp h m V + pzp h m V) / V) V
      (fun row hr m hm => hasDerivAt_pzp h m (hS row hr m hm) V hV)
    rw [wsum_second] at this
    exact this
  refine Pof_Aof_of_hasDerivAt (Fph h k T w S) (fun v => Pzp h w S v + Pth k hdk T w S v) _ V hV ?_ ?_
  · intro v hv
    have := (hz1 v hv).add (Fth_hasDerivAt h k hdk T hh hk hhdk hT w S hS v hv)
    have h' : HasDerivAt (Fph h k T w S) _ v := this
    exact h'.congr_deriv (by ring)
  · have := hz2.add (Pth_hasDerivAt k hdk T (hdk_pos hh hk hhdk) hT w S hS V hV)
    have h' : HasDerivAt (fun v => Pzp h w S v + Pth k hdk T w S v) _ V := this
    exact h'.congr_deriv (by ring)

/-- at T = 0 the thermal free energy vanishes identically -/
theorem Fth_zero (h k : ℝ) (w : List ℝ) (S : List (List Mode)) : Fth h k 0 w S = fun _ => 0 := by
  funext v
  unfold Fth
  have : (fun m : Mode => fth h k 0 m v) = fun _ => (0 : ℝ) := by funext m; simp [fth]
  rw [this, wsum_zero]

theorem Fth_zero_PA (h k : ℝ) (w : List ℝ) (S : List (List Mode)) (V : ℝ) :
    Pof (Fth h k 0 w S) V = 0 ∧ Aof (Fth h k 0 w S) V = 0 := by
  rw [Fth_zero]
  have h1 : deriv (fun _ : ℝ => (0 : ℝ)) = fun _ => 0 := by funext x; simp
  simp [Pof, Aof, h1]

theorem Fph_zero (h k : ℝ) (w : List ℝ) (S : List (List Mode)) : Fph h k 0 w S = Fzp h w S := by
  funext v
  unfold Fph
  rw [Fth_zero]; simp

/-- ∂P_ph/∂T at T > 0: only the thermal pressure depends on T -/
theorem Pph_hasDerivAt_T (h k hdk T : ℝ) (hh : 0 < h) (hk : 0 < k) (hhdk : hdk = h / k) (hT : 0 < T)
    (w : List ℝ) (S : List (List Mode)) (hS : GoodS S) (V : ℝ) (hV : 0 < V) :
    HasDerivAt (fun T' => Pof (Fph h k T' w S) V) (dPth k hdk T w S V) T := by
  have hd : HasDerivAt (fun T' => Pzp h w S V + Pth k hdk T' w S V) (dPth k hdk T w S V) T := by
    have := hasDerivAt_wsum w (dropΓ S) (fun m T' => pth k hdk T' m V) (fun m => dpth k hdk T m V) T
      (fun row hr m hm => hasDerivAt_pth_T k hdk T (hdk_pos hh hk hhdk) hT m (hS row hr m hm) V hV)
    have h2 : HasDerivAt (fun T' => Pth k hdk T' w S V) (dPth k hdk T w S V) T := this
    exact h2.const_add (Pzp h w S V)
  refine hd.congr_of_eventuallyEq ?_
  filter_upwards [Ioi_mem_nhds hT] with T' hT'
  exact (Fph_PA h k hdk T' hh hk hhdk hT' w S hS V hV).1

/-! ### the arrays the calculator hands to the contribution classes for the spectrum `S` at volume `V` -/

def freqOf (S : List (List Mode)) (V : ℝ) : List (List ℝ) := S.map (List.map fun m => m.ω V)
/-- `calculator.mode_gamma = [V∂γ/∂V, γ, γ**2]` -/
def mg0Of (S : List (List Mode)) (V : ℝ) : List (List ℝ) := S.map (List.map fun m => m.g V)
def mg1Of (S : List (List Mode)) (V : ℝ) : List (List ℝ) := S.map (List.map fun m => m.γ V)
def mg2Of (S : List (List Mode)) (V : ℝ) : List (List ℝ) := S.map (List.map fun m => m.γ V * m.γ V)

def sliceOf (S : List (List Mode)) (V e0 e1 pst : ℝ) : VolSlice ℝ :=
  { V := V, e0 := e0, e1 := e1, pstatic := pst, freq := freqOf S V, mg0 := mg0Of S V, mg1 := mg1Of S V,
    mg2 := mg2Of S V }

/-- `c · average_over_modes(X) · 3 · na = Σ_q ŵ_q Σ_{m not Γ-acoustic} c·X_qm` in the shape the model uses -/
theorem avg_scaled (S : List (List Mode)) (w : List ℝ) (ψ : Mode → ℝ) (na : ℕ) (hna : na ≠ 0)
    (hlen : ∀ row ∈ S, row.length = 3 * na) (hw : sumL w ≠ 0) (c : ℝ) :
    c * averageOverModes (S.map (List.map ψ)) w * nat 3 * nat na = wsum w (dropΓ S) (fun m => c * ψ m) := by
  have := average_eq_wsum S w ψ na hna hlen hw
  rw [wsum_mul_left, ← this]
  simp only [nat_real]; push_cast; ring

/-! ### the model's outputs as closed-form mode sums (pure algebra: no hypothesis on the spectrum) -/

section ModelSums
variable (h k hdk : ℝ) (na : ℕ) (S : List (List Mode)) (w : List ℝ) (T V e0 e1 pst : ℝ)
variable (hna : na ≠ 0) (hlen : ∀ row ∈ S, row.length = 3 * na) (hw : sumL w ≠ 0)
include hna hlen hw

omit hna hlen hw in
private theorem one_sum (a : Mode → ℝ) (c : ℝ) :
    wsum w (dropΓ S) a / c = wsum w (dropΓ S) (fun m => (1 / c) * a m) := by
  rw [wsum_mul_left]; ring

omit hna hlen hw in
private theorem two_sums (a p : Mode → ℝ) (c1 c2 : ℝ) :
    wsum w (dropΓ S) a / c1 + wsum w (dropΓ S) p / c2
      = wsum w (dropΓ S) (fun m => (1 / c1) * a m + (1 / c2) * p m) := by
  rw [wsum_add, wsum_mul_left, wsum_mul_left]; ring

theorem zeroPointLong_eq :
    zeroPointLongAt h na V (mgLong (sliceOf S V e0 e1 pst)) (freqOf S V) w
      = Azp h w S V / (5 * (e0 * e1)) + Pzp h w S V / (3 * e0) := by
  unfold zeroPointLongAt mgLong sliceOf modeGamma prefactorsLong prefactors freqOf mg0Of mg1Of mg2Of
  simp only [map2_map, zw2_map]
  rw [avg_scaled S w _ na hna hlen hw]
  unfold Azp Pzp
  rw [two_sums S w]
  refine wsum_congr _ _ _ _ (fun _ _ m _ => ?_)
  simp only [pfProd, pfAxis, Generated.prefLong, nat_real, azp, pzp]
  push_cast
  ring

theorem zeroPointOff_eq :
    zeroPointOffAt h na V (mgOff (sliceOf S V e0 e1 pst)) (freqOf S V) w
      = Azp h w S V / (15 * (e0 * e1)) := by
  unfold zeroPointOffAt mgOff sliceOf modeGamma prefactorsOff prefactors freqOf mg0Of mg1Of mg2Of
  simp only [map2_map, zw2_map]
  rw [avg_scaled S w _ na hna hlen hw]
  unfold Azp
  rw [one_sum S w]
  refine wsum_congr _ _ _ _ (fun _ _ m _ => ?_)
  simp only [pfProd, Generated.prefOff, nat_real, azp]
  push_cast
  ring

theorem thermalLong_eq (hT : T ≠ 0) :
    thermalLongAt k hdk na T V (mgLong (sliceOf S V e0 e1 pst)) (freqOf S V) w
      = Ath k hdk T w S V / (5 * (e0 * e1)) + Pth k hdk T w S V / (3 * e0) := by
  unfold thermalLongAt mgLong sliceOf modeGamma prefactorsLong prefactors Q1arr Q2arr Qarr freqOf mg0Of mg1Of mg2Of
  simp only [map2_map, zw2_map, isZero_real, hT, decide_false, Bool.false_eq_true, if_false]
  rw [avg_scaled S w _ na hna hlen hw]
  unfold Ath Pth
  rw [two_sums S w]
  refine wsum_congr _ _ _ _ (fun _ _ m _ => ?_)
  simp only [pfProd, pfAxis, Generated.prefLong, nat_real, ath, pth, Qm]
  push_cast
  ring

theorem thermalOff_eq (hT : T ≠ 0) :
    thermalOffAt k hdk na T V (mgOff (sliceOf S V e0 e1 pst)) (freqOf S V) w
      = Ath k hdk T w S V / (15 * (e0 * e1)) := by
  unfold thermalOffAt mgOff sliceOf modeGamma prefactorsOff prefactors Q1arr Q2arr Qarr freqOf mg0Of mg1Of mg2Of
  simp only [map2_map, zw2_map, isZero_real, hT, decide_false, Bool.false_eq_true, if_false]
  rw [avg_scaled S w _ na hna hlen hw]
  unfold Ath
  rw [one_sum S w]
  refine wsum_congr _ _ _ _ (fun _ _ m _ => ?_)
  simp only [pfProd, Generated.prefOff, nat_real, ath, Qm]
  push_cast
  ring

/-- the adiabatic correction of either class (their `prefactors[1]` agree): T·V·(Σ ∂p_th/∂T)²/(9 e₀e₁C_V) -/
theorem isoToAdia_eq (pf : Pref ℝ) (hp0 : pf.p10 = 1 / 3 / e0) (hp1 : pf.p11 = 1 / 3 / e1)
    (cv : ℝ) (hT : T ≠ 0) (hV : V ≠ 0) :
    isoToAdiaAt k hdk na T V cv (modeGamma pf (mg0Of S V) (mg1Of S V) (mg2Of S V)) (freqOf S V) w
      = T * V * (dPth k hdk T w S V) ^ 2 / (9 * (e0 * e1) * cv) := by
  unfold isoToAdiaAt modeGamma Q2arr Qarr freqOf mg0Of mg1Of mg2Of
  simp only [map2_map, zw2_map, isZero_real, hT, decide_false, Bool.false_eq_true, if_false]
  have a1 := avg_scaled S w (fun m => q2 (hdk * (m.ω V / T)) * (pf.p10 * m.γ V)) na hna hlen hw 1
  have a2 := avg_scaled S w (fun m => q2 (hdk * (m.ω V / T)) * (pf.p11 * m.γ V)) na hna hlen hw 1
  set A1 := averageOverModes (List.map (List.map fun m => q2 (hdk * (m.ω V / T)) * (pf.p10 * m.γ V)) S) w
  set A2 := averageOverModes (List.map (List.map fun m => q2 (hdk * (m.ω V / T)) * (pf.p11 * m.γ V)) S) w
  set G := wsum w (dropΓ S) (fun m => m.γ V * q2 (hdk * (m.ω V / T))) with hG
  have g1 : wsum w (dropΓ S) (fun m => 1 * (q2 (hdk * (m.ω V / T)) * (pf.p10 * m.γ V))) = pf.p10 * G := by
    rw [hG, ← wsum_mul_left]; exact wsum_congr _ _ _ _ (fun _ _ m _ => by ring)
  have g2 : wsum w (dropΓ S) (fun m => 1 * (q2 (hdk * (m.ω V / T)) * (pf.p11 * m.γ V))) = pf.p11 * G := by
    rw [hG, ← wsum_mul_left]; exact wsum_congr _ _ _ _ (fun _ _ m _ => by ring)
  have gd : dPth k hdk T w S V = k / V * G := by
    unfold dPth
    rw [hG, ← wsum_mul_left]; exact wsum_congr _ _ _ _ (fun _ _ m _ => by simp only [dpth, Qm]; ring)
  rw [g1] at a1
  rw [g2] at a2
  simp only [nat_real] at a1 a2 ⊢
  push_cast at a1 a2 ⊢
  have key : T / V / cv * A1 * A2 * (3 * k * (na : ℝ) * (3 * k * (na : ℝ)))
      = T / V / cv * k ^ 2 * (1 * A1 * 3 * (na : ℝ)) * (1 * A2 * 3 * (na : ℝ)) := by ring
  rw [key, a1, a2, gd, hp0, hp1]
  field_simp
  ring

end ModelSums

/-! ### a concrete spectrum satisfying the hypotheses (used for the non-vacuity examples) -/

/-- ω(V) = a/V: γ ≡ 1, V∂γ/∂V ≡ 0 -/
noncomputable def invMode (a : ℝ) : Mode := { ω := fun v => a / v, γ := fun _ => 1, g := fun _ => 0 }

theorem invMode_good (a : ℝ) (ha : 0 < a) : (invMode a).Good := by
  intro v hv
  have hv0 : v ≠ 0 := hv.ne'
  refine ⟨by simp only [invMode]; positivity, ?_, ?_⟩
  · have : HasDerivAt (fun u : ℝ => a / u) ((0 * v - a * 1) / v ^ 2) v :=
      (hasDerivAt_const v a).div (hasDerivAt_id' v) hv0
    have h' : HasDerivAt (invMode a).ω _ v := this
    refine h'.congr_deriv ?_
    simp only [invMode]; field_simp; ring
  · have : HasDerivAt (fun _ : ℝ => (1 : ℝ)) 0 v := hasDerivAt_const v 1
    have h' : HasDerivAt (invMode a).γ 0 v := this
    refine h'.congr_deriv ?_
    simp [invMode]

/-! ### the `calculate` loop: shear keys agree in the two stores -/

section TaskLoop
variable {κ β : Type} [DecidableEq κ]

/-- a task list is well-formed w.r.t. a classification of keys: shear tasks carry shear keys (a Voigt index
4–6), non-shear tasks carry non-shear keys -/
def Task.WF (isShear : κ → Bool) : Task κ β → Prop
  | .nonShear key _ _ => isShear key = false
  | .shear key _ => isShear key = true

theorem step_preserves (isShear : κ → Bool) (st : Store κ β × Store κ β) (t : Task κ β) (ht : t.WF isShear)
    (inv : ∀ key, isShear key = true → st.1 key = st.2 key) :
    ∀ key, isShear key = true → (step st t).1 key = (step st t).2 key := by
  intro key hk
  cases t with
  | nonShear key' iso adia =>
    have hne : key ≠ key' := by
      intro h; rw [h] at hk; simp only [Task.WF] at ht; rw [ht] at hk; exact Bool.noConfusion hk
    simp [step, Store.set, hne, inv key hk]
  | shear key' target =>
    by_cases h : key = key'
    · simp [step, Store.set, h, shearValueAdiabatic]
    · simp [step, Store.set, h, inv key hk]

theorem foldl_step_preserves (isShear : κ → Bool) (tasks : List (Task κ β)) (hwf : ∀ t ∈ tasks, t.WF isShear)
    (st : Store κ β × Store κ β) (inv : ∀ key, isShear key = true → st.1 key = st.2 key) :
    ∀ key, isShear key = true → (tasks.foldl step st).1 key = (tasks.foldl step st).2 key := by
  induction tasks generalizing st with
  | nil => simpa using inv
  | cons t ts ih =>
    simp only [List.foldl_cons]
    exact ih (fun t' ht' => hwf t' (List.mem_cons_of_mem _ ht')) (step st t)
      (step_preserves isShear st t (hwf t (List.mem_cons_self ..)) inv)

end TaskLoop

end Cij.NonShear
