/-
  The translated source of `cij/util/voigt.py` in the model's vocabulary: what `c_` / `e_` of `Generated.VoigtSrc.module` answer
  (under `PyLite.eval`) on the 81 tuples, 36 pairs, 9 strain pairs and 6 strain indices, and that the str / int spellings give the
  key of the positional spelling.  `decide +kernel`.
-/
import CijProofs.Lemmas.Voigt
import CijModel.VoigtSrc

namespace Cij.VoigtSrc
open PyLite

theorem src_table4 : ∀ t ∈ allTuples, srcKey4 t = Modulus.fromStandard t.1 t.2.1 t.2.2.1 t.2.2.2 := by decide +kernel

theorem src_table2 : ∀ p ∈ allPairs, srcKey2 p = Modulus.fromVoigt p.1 p.2 := by decide +kernel

theorem src_tableE : (∀ i ∈ idx3, ∀ j ∈ idx3, srcStrain2 i j = Strain.fromStandard i j) ∧
    (∀ v ∈ idx6, srcStrain1 v = Strain.fromVoigt v) := by decide +kernel

/-- str and int spellings of a tuple / a pair give the key of the positional spelling (all on the translated source) -/
theorem src_spell4 : ∀ t ∈ allTuples,
    decodeC (c_ [.str (digitsStr [t.1, t.2.1, t.2.2.1, t.2.2.2])]) = srcKey4 t ∧
    decodeC (c_ [.int (digitsInt [t.1, t.2.1, t.2.2.1, t.2.2.2])]) = srcKey4 t := by decide +kernel

theorem src_spell2 : ∀ p ∈ allPairs,
    decodeC (c_ [.str (digitsStr [p.1, p.2])]) = srcKey2 p ∧ decodeC (c_ [.int (digitsInt [p.1, p.2])]) = srcKey2 p := by
  decide +kernel

theorem src_spellE : (∀ i ∈ idx3, ∀ j ∈ idx3,
      decodeE (e_ [.str (digitsStr [i, j])]) = srcStrain2 i j ∧ decodeE (e_ [.int (digitsInt [i, j])]) = srcStrain2 i j ∧
      srcStrain2 j i = srcStrain2 i j) ∧
    (∀ v ∈ idx6, decodeE (e_ [.str (digitsStr [v])]) = srcStrain1 v) := by decide +kernel

end Cij.VoigtSrc
