/-
  The arithmetic of the shear solver model (`CijModel/Shear.lean`) IS what the translator extracts from `shear.py` on this
  run: the term accumulated per index pair and the target formula, for every scalar type.
-/
import CijModel.Shear
import CijModel.ShExpr
import Generated.ShearExprs

namespace Cij.ShExpr
open Cij Cij.Shear

variable {α : Type} [Add α] [Sub α] [Mul α] [Div α] [NatCast α]

def envOf (m eij ekl eRot eOrig mult : α) : Sym → α
  | .m => m | .eij => eij | .ekl => ekl | .eRot => eRot | .eOrig => eOrig | .mult => mult

/-- one step of the `strainEnergy` fold adds the translated term -/
theorem energy_term_is_source (isZero : α → Bool) (e : Mat3 α) (resolve : Modulus → α) (target : Option Modulus) :
    strainEnergy isZero e resolve target =
      (energyPairs isZero e target).foldl
        (fun acc pq => acc + eval (envOf (resolve (keyOfPairs pq)) (e pq.1.1 pq.1.2) (e pq.2.1 pq.2.2) acc acc acc)
          Generated.shearEnergyTerm) ((0 : Nat) : α) := rfl

theorem target_is_source (key : Modulus) (e : Mat3 α) (eRot eOrig : α) :
    targetModulus key e eRot eOrig =
      eval (envOf eRot (e (idx key.i.i) (idx key.i.j)) (e (idx key.j.i) (idx key.j.j)) eRot eOrig ((key.multiplicity : Nat) : α))
        Generated.shearTarget := rfl

end Cij.ShExpr
