/-
  `voigt_model_is_source`, 4-index block a = 2: on the complete finite domain of C10 the TRANSLATED SOURCE of
  `cij/util/voigt.py` (`Generated.VoigtSrc.module`, evaluated by `PyLite.eval`) and the hand-written model `CijModel/Voigt.lean`
  give the same value, or both reject.  Kernel evaluation (`decide +kernel`), one theorem per block `blockC4 a b`
  (70 spellings: 25 index tuples × positional / str / int) so that no declaration is slow; one file per `a` so that
  `lake` checks the five files in parallel.
-/
import CijModel.VoigtSrc
namespace Cij.VoigtSrc
theorem blockC4_2_0 : (blockC4 2 0).all agreeC = true := by decide +kernel
theorem blockC4_2_1 : (blockC4 2 1).all agreeC = true := by decide +kernel
theorem blockC4_2_2 : (blockC4 2 2).all agreeC = true := by decide +kernel
theorem blockC4_2_3 : (blockC4 2 3).all agreeC = true := by decide +kernel
theorem blockC4_2_4 : (blockC4 2 4).all agreeC = true := by decide +kernel

end Cij.VoigtSrc
