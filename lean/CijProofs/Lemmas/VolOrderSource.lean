/-
  `CijModel/VolOrder.lean` IS what `QHACalculator.read_input` says now (Generated/VolOrderSpec.lean, tools/gens/volorder_src.py), and
  what its check means on ordered scalars:

  * `readInput_is_source`     the hand-written model = the interpretation of the translated statement list, every scalar type;
  * `allDiff_le_iff` / `allDiff_lt_iff`   `numpy.all(numpy.diff(a) <= 0)` ⇔ `a` pairwise non-increasing (`< 0`: pairwise decreasing);
  * `perm_eq_of_decreasing`   a permutation of a list that is strictly decreasing under a key, itself still non-increasing under that
                              key, is the same list (core `List.Perm.eq_of_pairwise`; the key separates the elements);
  * `perm_map_eq_of_nonincreasing`   without strictness only the list of keys is the same.
-/
import CijModel.VolOrder
import Generated.VolOrderSpec
import Mathlib.Algebra.Order.Field.Basic
import Mathlib.Data.List.Nodup

namespace Cij.VolOrder
open Cij.QhaInput

/-! ### model = translated statements (every scalar type) -/

section Generic
variable {α : Type} [Sub α] [OfNat α 0] [LT α] [DecidableLT α] [LE α] [DecidableLE α]

/-- the hand-written `is_monotonic_decreasing` is the test the installed qha spells (`numpy.all(numpy.diff(array) <op> 0)`, `<op>`
read from qha/tools.py on this run) -/
theorem isMonotonicDecreasing_is_source (a : List α) :
    isMonotonicDecreasing a = allDiff Generated.VolOrder.qhaMonotonicOp a := rfl

/-- **model-is-source for `read_input`**: running the translated statements in order on an empty calculator gives, for every data
set, exactly what `readInput` gives — the same exception, or the five attributes holding the same arrays -/
theorem readInput_is_source (d : Data α) :
    evalSteps d Generated.VolOrder.readInputSteps [] = (readInput d).map QhaArrays.toStore := by
  unfold readInput isMonotonicDecreasing
  simp only [Generated.VolOrder.readInputSteps, evalSteps, evalStep, scalarField, Store.get, List.lookup, blockArray]
  have h1 : ("_volumes" == "_volumes") = true := by decide
  simp only [h1]
  cases allDiff Cmp.le (List.map (fun x => x.volume) d.volumes) <;> rfl

end Generic

/-! ### what the test means on an ordered field -/

section Ordered
variable {K : Type} [Field K] [LinearOrder K] [IsStrictOrderedRing K]

theorem allDiff_le_iff (a : List K) : allDiff .le a = true ↔ a.Pairwise fun x y => y ≤ x := by
  induction a with
  | nil => simp [allDiff, diff]
  | cons x t ih =>
    cases t with
    | nil => simp [allDiff, diff]
    | cons y t' =>
      have hstep : allDiff .le (x :: y :: t') = (decide (y - x ≤ 0) && allDiff .le (y :: t')) := by
        simp [allDiff, diff, cmp]
      rw [hstep, Bool.and_eq_true, ih, decide_eq_true_iff, sub_nonpos, List.pairwise_cons (a := x)]
      constructor
      · rintro ⟨hyx, hp⟩
        refine ⟨fun z hz => ?_, hp⟩
        rcases List.mem_cons.mp hz with rfl | hz
        · exact hyx
        · exact le_trans ((List.pairwise_cons.mp hp).1 z hz) hyx
      · rintro ⟨hall, hp⟩
        exact ⟨hall y List.mem_cons_self, hp⟩

theorem allDiff_lt_iff (a : List K) : allDiff .lt a = true ↔ a.Pairwise fun x y => y < x := by
  induction a with
  | nil => simp [allDiff, diff]
  | cons x t ih =>
    cases t with
    | nil => simp [allDiff, diff]
    | cons y t' =>
      have hstep : allDiff .lt (x :: y :: t') = (decide (y - x < 0) && allDiff .lt (y :: t')) := by
        simp [allDiff, diff, cmp]
      rw [hstep, Bool.and_eq_true, ih, decide_eq_true_iff, sub_neg, List.pairwise_cons (a := x)]
      constructor
      · rintro ⟨hyx, hp⟩
        refine ⟨fun z hz => ?_, hp⟩
        rcases List.mem_cons.mp hz with rfl | hz
        · exact hyx
        · exact lt_trans ((List.pairwise_cons.mp hp).1 z hz) hyx
      · rintro ⟨hall, hp⟩
        exact ⟨hall y List.mem_cons_self, hp⟩

/-- a strict test (`numpy.diff(a) < 0`) accepts no list with a repeated entry -/
theorem allDiff_lt_nodup (a : List K) (h : allDiff .lt a = true) : a.Nodup :=
  ((allDiff_lt_iff a).mp h).imp fun hlt => (ne_of_lt hlt).symm

omit [Field K] [IsStrictOrderedRing K] in
/-- under a strictly decreasing key the key separates the elements of the list -/
theorem key_injOn_of_decreasing {β : Type} (f : β → K) (l : List β) (h : l.Pairwise fun a b => f b < f a) :
    ∀ a ∈ l, ∀ b ∈ l, f a = f b → a = b := by
  induction l with
  | nil => intro a ha; cases ha
  | cons x t ih =>
    obtain ⟨hx, ht⟩ := List.pairwise_cons.mp h
    intro a ha b hb hab
    rcases List.mem_cons.mp ha with hax | hat <;> rcases List.mem_cons.mp hb with hbx | hbt
    · rw [hax, hbx]
    · subst hax; exact absurd hab (ne_of_gt (hx b hbt))
    · subst hbx; exact absurd hab (ne_of_lt (hx a hat))
    · exact ih ht a hat b hbt hab

omit [Field K] [IsStrictOrderedRing K] in
/-- **the list lemma.**  `l` is strictly decreasing under the key `f`; `l'` lists the same elements in some order (`List.Perm`) and is
still non-increasing under `f`: then `l' = l`. -/
theorem perm_eq_of_decreasing {β : Type} (f : β → K) (l l' : List β) (hp : l'.Perm l)
    (hl : l.Pairwise fun a b => f b < f a) (hl' : l'.Pairwise fun a b => f b ≤ f a) : l' = l :=
  List.Perm.eq_of_pairwise (le := fun a b => f b ≤ f a)
    (fun a b ha hb h1 h2 => key_injOn_of_decreasing f l hl a (hp.subset ha) b hb (le_antisymm h2 h1))
    hl' (hl.imp le_of_lt) hp

omit [Field K] [IsStrictOrderedRing K] in
/-- without strictness: two non-increasing listings of the same elements carry the same list of keys (they can differ only by the
order of elements with EQUAL keys) -/
theorem perm_map_eq_of_nonincreasing {β : Type} (f : β → K) (l l' : List β) (hp : l'.Perm l)
    (hl : l.Pairwise fun a b => f b ≤ f a) (hl' : l'.Pairwise fun a b => f b ≤ f a) : l'.map f = l.map f :=
  List.Perm.eq_of_pairwise (le := fun x y => y ≤ x) (fun _ _ _ _ h1 h2 => le_antisymm h2 h1)
    (List.pairwise_map.mpr hl') (List.pairwise_map.mpr hl) (hp.map f)

/-- `readInput` answers iff the volumes are non-increasing in file order, and then with every array in file order -/
theorem readInput_ok_iff (d : Data K) :
    (readInput d = .ok { nm := d.nm, volumes := d.volumes.map (·.volume), energies := d.volumes.map (·.energy),
                         frequencies := d.volumes.map fun v => v.qPoints.map (·.modes),
                         weights := d.weights.map (·.weight) }) ↔
      d.volumes.Pairwise fun a b => b.volume ≤ a.volume := by
  have key : isMonotonicDecreasing (d.volumes.map (·.volume)) = true ↔ d.volumes.Pairwise fun a b => b.volume ≤ a.volume := by
    rw [← List.pairwise_map (f := fun v : VolumeData K => v.volume) (R := fun x y => y ≤ x)]
    exact allDiff_le_iff _
  unfold readInput
  dsimp only
  split
  · rename_i h
    have h' : isMonotonicDecreasing (d.volumes.map (·.volume)) = false := by simpa using h
    constructor
    · intro e; cases e
    · intro hp; rw [key.mpr hp] at h'; cases h'
  · rename_i h
    have h' : isMonotonicDecreasing (d.volumes.map (·.volume)) = true := by simpa using h
    exact ⟨fun _ => key.mp h', fun _ => rfl⟩

/-- … and otherwise raises exactly the guard's exception -/
theorem readInput_error_iff (d : Data K) :
    readInput d = .error (.raised "RuntimeError") ↔ ¬ d.volumes.Pairwise fun a b => b.volume ≤ a.volume := by
  have key : isMonotonicDecreasing (d.volumes.map (·.volume)) = true ↔ d.volumes.Pairwise fun a b => b.volume ≤ a.volume := by
    rw [← List.pairwise_map (f := fun v : VolumeData K => v.volume) (R := fun x y => y ≤ x)]
    exact allDiff_le_iff _
  unfold readInput
  dsimp only
  split
  · rename_i h
    have h' : isMonotonicDecreasing (d.volumes.map (·.volume)) = false := by simpa using h
    refine ⟨fun _ hp => ?_, fun _ => rfl⟩
    rw [key.mpr hp] at h'
    cases h'
  · rename_i h
    have h' : isMonotonicDecreasing (d.volumes.map (·.volume)) = true := by simpa using h
    constructor
    · intro e; cases e
    · intro hn; exact absurd (key.mp h') hn

end Ordered

end Cij.VolOrder
