/-
  The model of `fill_cij` (`CijModel/Fill.lean`, `CijModel/FillCall.lean`) IS what `cij/util/fill.py` and `cij/cli/fill.py` say
  now: semantics for the data and expression trees the translator plug-in `tools/gens/fill_src.py` extracts into
  `Generated/FillSpec.lean` on every run, and the lemmas that identify the model's pieces with those semantics.
  (The property-level statements are the `fill_model_is_source_*` theorems of `Properties/C09.lean`.)

  * `evalBool`: boolean trees (`and`/`or`/`not`, scalar comparison, `numpy.any(array cmp scalar)`, flags, path probes) over an
    environment that gives the names their values; `evalRefusals`: the first `if … : raise Warning(msg)` whose test holds.
  * `evalArr`: array trees (`@`, `-`, `+`, `** k`, `numpy.sum(·, axis=0)`) for ONE volume column: `a` a matrix, `x`, `b` vectors
    (numpy's arrays carry one column per volume; axis 0 runs over the equations, so column-wise the sum is over the vector).
  * `parseRegex`/`search`: the fragment of Python's `re` syntax that the two literals use (literal characters, `\d` on ASCII
    digits, capture groups) with `re.search` semantics (a match anywhere).
  * `lineRows`: an equation line `lhs = r1 = r2 …` as rows, from the extracted separator positions and signs.
  * `chooseKey`/`setColumn`: the write-back key and pandas' `frame[key] = col`.
  * `allcloseGeneric`: `numpy.allclose(col, target, atol, rtol)`.
-/
import CijProofs.Lemmas.FillPerm
import CijModel.FillCall
import CijModel.ElastDat
import CijModel.Voigt
import Generated.FillSpec

set_option linter.unusedSectionVars false
namespace Cij.FillSource
open Cij Cij.Fill Generated

/-! ### symbols -/

theorem symbols_are_source : Fill.symbolNames = Generated.fillSymbols := by decide +kernel

theorem nsym_is_source : Fill.nsym = Generated.fillSymbols.length := by decide +kernel

/-- the order of the 21 symbols is the order of the canonical keys of the Voigt model (C10) -/
theorem symbols_are_keys21 :
    Generated.fillSymbols = Cij.keys21.map (fun p => s!"c{p.1}{p.2}") := by decide +kernel

/-- … and of `Generated.symbolPairs`, the order in which the Laue model (C08) and the translated relation rows list the
components -/
theorem symbols_are_symbolPairs :
    Generated.fillSymbols = Generated.symbolPairs.map (fun p => s!"c{p.1}{p.2}") := by decide +kernel

/-! ### regular expressions -/

inductive RAtom
  | lit (c : Char)
  | digit
  deriving DecidableEq, Repr

def RAtom.test : RAtom → Char → Bool
  | .lit a, c => a == c
  | .digit, c => c.isDigit

/-- characters with a meaning of their own in Python's `re` syntax that the fragment does not cover -/
def reSpecial : List Char := ['.', '^', '$', '*', '+', '?', '{', '}', '[', ']', '|']

/-- literal characters, `\d`, and parentheses (capture groups of a plain sequence do not change what matches);
    anything else is outside the fragment -/
def parseRegex : List Char → Option (List RAtom)
  | [] => some []
  | '\\' :: 'd' :: rest => (parseRegex rest).map (RAtom.digit :: ·)
  | '\\' :: _ => none
  | '(' :: rest => parseRegex rest
  | ')' :: rest => parseRegex rest
  | c :: rest => if c ∈ reSpecial then none else (parseRegex rest).map (RAtom.lit c :: ·)

/-- the atoms match a prefix of the string -/
def matchHere : List RAtom → List Char → Bool
  | [], _ => true
  | _ :: _, [] => false
  | a :: as, c :: cs => a.test c && matchHere as cs

/-- `re.search`: a match starting anywhere -/
def search (atoms : List RAtom) : List Char → Bool
  | [] => matchHere atoms []
  | c :: cs => matchHere atoms (c :: cs) || search atoms cs

theorem regex_fit_parses :
    parseRegex Generated.fillRegexFit.toList = some [RAtom.lit 'c', RAtom.digit, RAtom.digit] := by decide +kernel

theorem regex_drop_is_regex_fit : Generated.fillRegexDrop = Generated.fillRegexFit := by decide +kernel

theorem matchesCdd_is_search : ∀ s : List Char,
    matchesCdd s = search [RAtom.lit 'c', RAtom.digit, RAtom.digit] s := by
  intro s
  induction s with
  | nil => simp [matchesCdd, search, matchHere]
  | cons x rest ih =>
    by_cases hx : x = 'c'
    · subst hx
      match rest, ih with
      | [], _ => simp [matchesCdd, search, matchHere]
      | [d1], _ => simp [matchesCdd, search, matchHere, RAtom.test]
      | d1 :: d2 :: rest', ih =>
        rw [matchesCdd, ih]
        simp [search, matchHere, RAtom.test]
    · have h1 : matchesCdd (x :: rest) = matchesCdd rest := by
        rw [matchesCdd]
        · intro d1 d2 r h
          exact fun _ => hx h
      rw [h1, ih]
      simp [search, matchHere, RAtom.test, Ne.symm hx]


/-! ### boolean trees -/

section trees
variable {α : Type} [Field α] [LinearOrder α] [IsStrictOrderedRing α]

/-- what the names of a tree stand for -/
structure BEnv (α : Type) where
  scalar : FillName → Option α := fun _ => none
  vec : FillName → Option (List α) := fun _ => none
  flag : FillName → Option Bool := fun _ => none
  probe : FillProbe → FillName → Option Bool := fun _ _ => none

def evalCmp : FillCmp → α → α → Bool
  | .lt, a, b => decide (a < b)
  | .le, a, b => decide (a ≤ b)
  | .gt, a, b => decide (b < a)
  | .ge, a, b => decide (b ≤ a)
  | .eq, a, b => decide (a = b)
  | .ne, a, b => decide (a ≠ b)

def evalAtom (E : BEnv α) : FillAtom → Option α
  | .var n => E.scalar n
  | .num n d => some ((n : α) / (d : α))

/-- `none`: a name the environment does not know, or an ill-typed tree.  (Python's `and`/`or` short-circuit; every atom here
    is total and free of side effects, so evaluating both sides is the same.) -/
def evalBool (E : BEnv α) : FillBool → Option Bool
  | .cmp op l r => do
      let a ← evalAtom E l
      let b ← evalAtom E r
      pure (evalCmp op a b)
  | .anyCmp op (.var n) r => do
      let v ← E.vec n
      let b ← evalAtom E r
      pure (v.any fun e => evalCmp op e b)
  | .anyCmp _ (.num _ _) _ => none
  | .flag n => E.flag n
  | .probe m p => E.probe m p
  | .not a => (evalBool E a).map (!·)
  | .and a b => do
      let x ← evalBool E a
      let y ← evalBool E b
      pure (x && y)
  | .or a b => do
      let x ← evalBool E a
      let y ← evalBool E b
      pure (x || y)

/-! ### the two refusals -/

/-- which refusal a `Warning` is, by the constant prefix of its message — the same rule the harness applies to the real
    exception (`harness/fillcommon.py: classify`) -/
def errOfMessage (msg : String) : Option Err :=
  if "Rank of constraints".toList.isPrefixOf msg.toList then some .refuseRank
  else if "Residuals seems".toList.isPrefixOf msg.toList then some .refuseResidual
  else none

/-- the `if test: raise Warning(msg)` statements in source order: the first test that holds raises -/
def evalRefusals (E : BEnv α) : List (FillBool × String) → Option (Except Err Unit)
  | [] => some (.ok ())
  | (t, m) :: rest =>
    match evalBool E t with
    | none => none
    | some true => (errOfMessage m).map .error
    | some false => evalRefusals E rest

/-- the names of the refusal tests: `rank` (lstsq's third result; any natural number that is `< nsym` exactly when the
    stacked matrix has a kernel), `nsym`, `residuals` (the recomputed sums of squares), the three parameters -/
def refusalEnv (P : Params α) (s : Solved α) (rank : Nat) : BEnv α where
  scalar := fun
    | .rank => some (rank : α)
    | .nsym => some (nsym : α)
    | .residualAtol => some P.residualAtol
    | .dropAtol => some P.dropAtol
    | _ => none
  vec := fun
    | .residuals => some s.residuals
    | _ => none
  flag := fun
    | .ignoreRank => some P.ignoreRank
    | .ignoreResiduals => some P.ignoreResiduals
    | _ => none

theorem refusal_messages :
    Generated.fillRefusals.map (fun p => errOfMessage p.2) = [some Err.refuseRank, some Err.refuseResidual] := by
  decide +kernel

theorem refusals_bool_aux (r k a i : Bool) :
    (match some (r && !k) with
      | none => none
      | some true => some (Except.error Err.refuseRank)
      | some false =>
        match some (a && !i) with
        | none => none
        | some true => some (Except.error Err.refuseResidual)
        | some false => some (Except.ok ())) =
    some (if (r && !k) = true then Except.error Err.refuseRank
      else if (a && !i) = true then Except.error Err.refuseResidual else (Except.ok () : Except Err Unit)) := by
  cases r <;> cases k <;> cases a <;> cases i <;> rfl

/-- **the decision stage is the source's two `if`s**: evaluating the extracted tests, in the extracted order, on the model's
    quantities gives the model's verdict -/
theorem verdict_is_source (P : Params α) (s : Solved α) (rank : Nat) (hrank : rank < nsym ↔ s.rankDeficient = true) :
    evalRefusals (refusalEnv P s rank) Generated.fillRefusals = some (verdict P s) := by
  have hm := refusal_messages
  have hc : ((rank : α) < (nsym : α)) ↔ s.rankDeficient = true := by rw [Nat.cast_lt]; exact hrank
  unfold Generated.fillRefusals at hm ⊢
  simp only [List.map_cons, List.map_nil, List.cons.injEq, and_true] at hm
  obtain ⟨hm1, hm2⟩ := hm
  simp only [evalRefusals, evalBool, evalAtom, refusalEnv, evalCmp, hm1, hm2, bind, Option.bind, pure, Option.map,
    verdict, Solved.residuals]
  have hd : decide ((rank : α) < (nsym : α)) = s.rankDeficient := by
    cases h : s.rankDeficient
    · have : ¬ ((rank : α) < (nsym : α)) := fun h' => by simpa [h] using hc.1 h'
      exact decide_eq_false this
    · exact decide_eq_true (hc.2 h)
  rw [hd]
  exact refusals_bool_aux _ _ _ _

/-! ### lookup of the relations -/

/-- `Path(s).name != s`: the string has a directory part (`./cubic`, `sub/cubic`, `/abs/cubic`); a bare name (`cubic`) has
    none.  (POSIX separators; the one string without `/` for which pathlib says otherwise is `"."`, a directory, for which
    no probe of the test is true either way.) -/
def hasDirPart (s : String) : Bool := s.toList.contains '/'

def splitSlash : List Char → List (List Char)
  | [] => [[]]
  | c :: cs =>
    match splitSlash cs with
    | [] => [[]]
    | w :: ws => if c == '/' then [] :: w :: ws else (c :: w) :: ws

/-- `Path("constraints") / s` for a relative `s`: pathlib drops empty and `.` components (and keeps `..`) -/
def normRel (s : String) : String :=
  String.intercalate "/" (((splitSlash s.toList).filter fun w => w ≠ [] ∧ w ≠ ['.']).map String.ofList)

def okB {ε β : Type} : Except ε β → Bool
  | .ok _ => true
  | .error _ => false

/-- `Path(get_data_fname(str(Path("constraints") / system))).is_file()` as the file system answers it: for a bare name, the
    package ships a file of that name; for a relative path, the package ships the file the collapsed path names
    (`constraints/./cubic` IS `constraints/cubic`); for an absolute path, `Path("constraints") / system` is `system` itself. -/
def packagedProbe (env : Env) (sys : String) : Bool :=
  if hasDirPart sys then
    (if sys.toList.head? = some '/' then (env.userFile sys).isSome else okB (packaged (normRel sys)))
  else okB (packaged sys)

/-- `Path(constraints).is_file()` for the packaged path; `Path(system).is_file()`: the argument names a readable regular
    file; `Path(system).exists()`: file or directory; `Path(system).name != system` -/
def lookupEnv (env : Env) (sys : String) : BEnv α where
  probe := fun
    | .isFile, .packaged => some (packagedProbe env sys)
    | .isFile, .system => some (env.userFile sys).isSome
    | .pathExists, .system => some (env.pathExists sys)
    | .hasDirPart, .system => some (hasDirPart sys)
    | _, _ => none

theorem packaged_names_bare : ∀ p ∈ Generated.constraintSystems, hasDirPart p.1 = false := by decide +kernel

/-- a packaged system name is a bare name -/
theorem packaged_ok_bare {sys : String} {rows : Rows} (h : packaged sys = .ok rows) : hasDirPart sys = false := by
  unfold packaged at h
  cases hf : Generated.constraintSystems.find? (fun p => p.1 == sys) with
  | none => simp [hf] at h
  | some p =>
    have hm := List.mem_of_find?_eq_some hf
    have hp := List.find?_some hf
    have : p.1 = sys := by simpa using hp
    rw [← this]; exact packaged_names_bare p hm

/-- **lookup precedence is the source's test** (fix of the `./cubic` finding): when the extracted test
    `(Path(system).name != system or not Path(packaged).is_file()) and Path(system).is_file()` holds, `constraints = system`
    (the user's file is opened), otherwise the packaged path is opened.  The test before the fix
    (`not Path(packaged).is_file() and Path(system).is_file()`) does NOT satisfy this statement: for `./cubic` naming an
    existing file the packaged probe is true (`constraints/./cubic` is `constraints/cubic`) and the user's file was ignored. -/
theorem resolve_is_source (env : Env) (sys : String) :
    ∃ useUser, evalBool (lookupEnv (α := α) env sys) Generated.fillLookupTest = some useUser ∧
      resolve env sys =
        if useUser then (match env.userFile sys with | some rows => .ok rows | none => .error .fileNotFound)
        else packaged sys := by
  unfold Generated.fillLookupTest
  simp only [evalBool, lookupEnv, bind, Option.bind, pure, Option.map]
  unfold resolve
  cases hd : hasDirPart sys with
  | true =>
    have hp : ∃ e, packaged sys = .error e := by
      cases hq : packaged sys with
      | ok rows => rw [packaged_ok_bare hq] at hd; cases hd
      | error e => exact ⟨e, rfl⟩
    obtain ⟨e, hp⟩ := hp
    cases hu : env.userFile sys with
    | none => exact ⟨false, by simp, by simp [hp]⟩
    | some rows => exact ⟨true, by simp, by simp [hp]⟩
  | false =>
    cases hp : packaged sys with
    | ok rows => exact ⟨false, by simp [packagedProbe, hd, hp, okB], by simp⟩
    | error e =>
      cases hu : env.userFile sys with
      | none => exact ⟨false, by simp, by simp⟩
      | some rows => exact ⟨true, by simp [packagedProbe, hd, hp, okB], by simp⟩

/-- **a string WITH a directory part that names an existing file is that file, whatever its base name** -/
theorem dir_path_is_used (env : Env) (sys : String) (rows : Rows) (hd : hasDirPart sys = true)
    (h : env.userFile sys = some rows) : resolve env sys = .ok rows := by
  cases hq : packaged sys with
  | ok r => rw [packaged_ok_bare hq] at hd; cases hd
  | error e => exact resolve_user_file env sys rows e hq h

/-- … in particular `./cubic`, `sub/cubic`, `/abs/cubic`, although `cubic` is packaged and the collapsed packaged path exists -/
theorem dot_name_examples :
    hasDirPart "./cubic" = true ∧ hasDirPart "sub/cubic" = true ∧ hasDirPart "/abs/cubic" = true ∧
    hasDirPart "cubic" = false ∧ normRel "./cubic" = "cubic" ∧ normRel "./sub/../cubic" = "sub/../cubic" ∧
    okB (packaged (normRel "./cubic")) = true ∧ okB (packaged "./cubic") = false := by decide +kernel

/-! ### the residuals -/

inductive Val (α : Type)
  | mat (m : List (List α))
  | vec (v : List α)
  | scalar (x : α)

/-- one volume column: `matmul` matrix·vector, `-`/`+` entry-wise on vectors, `** k` entry-wise, `numpy.sum(·, axis=0)` the
    sum over the equations; anything else is ill-typed here (`none`) -/
def evalArr (E : FillName → Option (Val α)) : FillArr → Option (Val α)
  | .var n => E n
  | .matmul a b =>
    match evalArr E a, evalArr E b with
    | some (.mat A), some (.vec x) => some (.vec (A.map fun r => dot r x))
    | _, _ => none
  | .sub a b =>
    match evalArr E a, evalArr E b with
    | some (.vec u), some (.vec v) => some (.vec (List.zipWith (· - ·) u v))
    | _, _ => none
  | .add a b =>
    match evalArr E a, evalArr E b with
    | some (.vec u), some (.vec v) => some (.vec (List.zipWith (· + ·) u v))
    | _, _ => none
  | .powNat a k =>
    match evalArr E a with
    | some (.vec u) => some (.vec (u.map (· ^ k)))
    | _ => none
  | .sumAxis a ax =>
    match evalArr E a, ax with
    | some (.vec u), 0 => some (.scalar u.sum)
    | _, _ => none

def residualEnv (A : List (List α)) (b x : List α) : FillName → Option (Val α)
  | .a => some (.mat A)
  | .x => some (.vec x)
  | .b => some (.vec b)
  | _ => none

theorem sum_map_sq (r : List α) : (r.map (· ^ 2)).sum = dot r r := by
  induction r with
  | nil => simp
  | cons a r ih => rw [List.map_cons, List.sum_cons, ih, dot_cons, sq]

theorem zipWith_sub_map (A : List (List α)) (b x : List α) :
    List.zipWith (· - ·) (A.map fun r => dot r x) b = residualVec A b x := by
  unfold residualVec
  rw [List.zipWith_map_left]

/-- **`residuals` is the source's expression**: the extracted tree, evaluated for one volume column, is the model's sum of
    squared residuals `Σ (a·x − b)²` -/
theorem residual_is_source (A : List (List α)) (b x : List α) :
    evalArr (residualEnv A b x) Generated.fillResidualExpr = some (.scalar (sumSq (residualVec A b x))) := by
  unfold Generated.fillResidualExpr
  simp only [evalArr, residualEnv, zipWith_sub_map, sum_map_sq, sumSq]

/-! ### equation lines → rows -/

/-- a part of a line / a row: (integer coefficients, constant) over a common denominator -/
abbrev LinForm := List Int × Int

/-- `for part in parts[from:]: eqns.append(parts[lhs] + sign·part)`; a row `(coeffs·x + const)/den = 0` is kept as
    `coeffs`, `rhs = −const`, `den` (the shape of `Fill.Rel`) -/
def lineRows (lhsIdx fromIdx : Nat) (sign : Int) (line : List LinForm × Nat) : List Rel :=
  match line.1[lhsIdx]? with
  | none => []
  | some lhs => (line.1.drop fromIdx).map fun part =>
      ⟨List.zipWith (fun a b => a + sign * b) lhs.1 part.1, -(lhs.2 + sign * part.2), line.2⟩

/-- a relation row as `linear_eq_to_matrix` hands it to the least squares: rational coefficients and right-hand side -/
def ratRow (r : Rel) : List Rat × Rat := (castRow (α := Rat) r, (r.rhs : Rat) / ((Int.ofNat r.den : Int) : Rat))

/-- **the relation rows are the source's `parts[0] - part`**: for every packaged system, the rows the model uses
    (`Fill.packaged`, from `Generated.constraints_*`) are, as rational rows and in order, the rows the extracted rule makes
    of the file's lines, part by part -/
theorem relation_rows_are_source :
    Generated.fillLineParts.map (·.1) = Generated.constraintSystems.map (·.1) ∧
    ∀ e ∈ Generated.fillLineParts,
      (match packaged e.1 with
        | .ok rows => rows.map ratRow
        | .error _ => []) =
      (e.2.flatMap (lineRows Generated.fillEqnLhsIndex Generated.fillEqnRhsFrom Generated.fillEqnRhsSign)).map ratRow := by
  decide +kernel

/-! ### stacking order, selector rows -/

def concatBy {β : Type} (order : List FillBlock) (supplied relations : List β) : List β :=
  order.flatMap fun
    | .supplied => supplied
    | .relations => relations

/-- **stacking order is the source's**: matrices and right-hand sides are concatenated in the extracted order (supplied
    rows first, then relations); a selector row is `numpy.zeros(nsym)` with the extracted value at the symbol's index; the
    relations' constants do not depend on the volume (broadcast) -/
theorem stack_is_source (sel : List Nat) (selCols : List (List α)) (rel : Rows) (k : Nat) :
    stackA (α := α) sel rel = concatBy Generated.fillStackA (sel.map selectorRow) (rel.map castRow) ∧
    stackB selCols rel k = concatBy Generated.fillStackB (selCols.map fun c => c.getD k 0)
      (rel.map fun r => (Int.cast r.rhs : α) / (Int.cast (Int.ofNat r.den) : α)) ∧
    (∀ i, selectorRow (α := α) i = (List.range Generated.fillSymbols.length).map fun j =>
      if j = i then ((Generated.fillSelectorValue.1 : α) / (Generated.fillSelectorValue.2 : α)) else 0) := by
  refine ⟨by simp [stackA, concatBy, Generated.fillStackA], by simp [stackB, concatBy, Generated.fillStackB], ?_⟩
  intro i
  simp [selectorRow, ← nsym_is_source, Generated.fillSelectorValue]

end trees

/-! ### write-back key -/

def chooseKey (cmp : FillKeyCompare) (cols : List String) (sym : String) : String :=
  match cols.find? (fun k => match cmp with | .lower => k.toLower == sym | .exact => k == sym) with
  | some k => k
  | none => sym

/-- pandas' `frame[key] = col`: replace the column labelled `key`, or append a new last column -/
def setColumn {α : Type} (t : Table α) (key : String) (col : List α) : Table α :=
  if t.any (fun c => c.1 == key) then t.map fun c => if c.1 == key then (c.1, col) else c
  else t ++ [(key, col)]

/-- **write-back key is the source's `next(...)`**: the first existing column whose (lower-cased, as extracted) name equals
    the symbol, else the symbol itself -/
theorem writeBack_is_source {α : Type} (t : Table α) (sym : String) (col : List α) (hsym : sym.toLower = sym) :
    writeBack t sym col = setColumn t (chooseKey Generated.fillKeyCompare (t.map (·.1)) sym) col := by
  unfold writeBack chooseKey setColumn
  simp only [Generated.fillKeyCompare, List.find?_map, Function.comp_def]
  cases h : t.find? (fun c => c.1.toLower == sym) with
  | some hit =>
    have hmem := List.mem_of_find?_eq_some h
    have : t.any (fun c => c.1 == hit.1) = true := List.any_eq_true.2 ⟨hit, hmem, by simp⟩
    simp [this]
  | none =>
    have hall := List.find?_eq_none.1 h
    have : t.any (fun c => c.1 == sym) = false := by
      rw [List.any_eq_false]
      intro c hc hcs
      have : c.1 = sym := by simpa using hcs
      exact hall c hc (by simp [this, hsym])
    simp [this]

/-! ### drop rule -/

section drop
variable {α : Type} [Field α] [LinearOrder α] [IsStrictOrderedRing α]

/-- `numpy.allclose(col, target, rtol, atol)` on finite numbers: `|x − target| ≤ atol + rtol·|target|` at every row -/
def allcloseGeneric (atol rtol target : α) (col : List α) : Bool :=
  col.all fun x => decide (|x - target| ≤ atol + rtol * |target|)

def paramValue (P : Params α) : FillName → Option α
  | .dropAtol => some P.dropAtol
  | .residualAtol => some P.residualAtol
  | _ => none

def ratOf (p : Int × Nat) : α := (p.1 : α) / (p.2 : α)

/-- **drop rule is the source's `numpy.allclose(col, 0, atol=drop_atol)`**: with the extracted target, the extracted
    tolerance parameter and numpy's default `rtol` (which multiplies `|target| = 0`), the test is the model's `allClose0` -/
theorem drop_is_source (P : Params α) (col : List α) :
    (paramValue P Generated.fillDropAtolParam).map (fun atol =>
      allcloseGeneric atol (ratOf Generated.fillDropRtol) (ratOf Generated.fillDropTarget) col)
      = some (allClose0 P.dropAtol col) := by
  simp only [Generated.fillDropAtolParam, paramValue, Option.map, Generated.fillDropTarget, Generated.fillDropRtol,
    ratOf, allcloseGeneric, allClose0]
  congr 1
  apply List.all_congr rfl
  intro x
  simp [abs_le, and_comm, neg_le]

/-- … and the columns it looks at are those the source's second regex finds in the lower-cased name -/
theorem finish_is_source (P : Params α) (t : Table α) (xs : List (List α)) :
    ∃ atoms, parseRegex Generated.fillRegexDrop.toList = some atoms ∧
      finish P t xs = (writeAll t xs).filter fun c =>
        !(search atoms (if Generated.fillDropLowersFirst then c.1.toLower else c.1).toList &&
          allcloseGeneric P.dropAtol (ratOf Generated.fillDropRtol) (ratOf Generated.fillDropTarget) c.2) := by
  refine ⟨_, by rw [regex_drop_is_regex_fit]; exact regex_fit_parses, ?_⟩
  unfold finish
  congr 1
  funext c
  have h := drop_is_source P c.2
  simp only [Generated.fillDropAtolParam, paramValue, Option.map, Option.some.injEq] at h
  rw [h, matchesCdd_is_search]
  simp [Generated.fillDropLowersFirst]

end drop

/-- the fit loop recognises a column by the source's first regex on the lower-cased name, and looks the lower-cased name
    up among the symbols -/
theorem recognise_is_source (names : List String) :
    ∃ atoms, parseRegex Generated.fillRegexFit.toList = some atoms ∧
      recognise names = recogniseLower (if Generated.fillFitLowersFirst then names.map String.toLower else names) ∧
      ∀ s : String, matchesCdd s.toList = search atoms s.toList :=
  ⟨_, regex_fit_parses, by simp [recognise, Generated.fillFitLowersFirst], fun s => matchesCdd_is_search s.toList⟩

/-! ### signature, command line, call sites -/

def lookupDefault (name : String) : Option FillDefault :=
  (Generated.fillDefaults.find? (fun p => p.1 == name)).map (·.2)

def defaultNum : FillDefault → Option Rat
  | .num n d => some (mkRat n d)
  | _ => none

/-- **the defaults are the signature's**: parameter names and order, and the default of every keyword parameter, are those
    of `FillCall` (which the driver uses for absent keywords) -/
theorem defaults_are_source :
    Generated.fillParams = FillCall.paramNames ∧
    Generated.fillDefaults.map (·.1) = FillCall.paramNames.tail ∧
    (lookupDefault "system" = some .none ∧ FillCall.defaultSystem = none) ∧
    lookupDefault "ignore_residuals" = some (.bool FillCall.defaultParams.ignoreResiduals) ∧
    lookupDefault "ignore_rank" = some (.bool FillCall.defaultParams.ignoreRank) ∧
    (lookupDefault "drop_atol").bind defaultNum = some FillCall.defaultParams.dropAtol ∧
    (lookupDefault "residual_atol").bind defaultNum = some FillCall.defaultParams.residualAtol := by
  decide +kernel

/-- click's derivation of a parameter name from a long option: leading dashes removed, inner dashes → underscores -/
def canonName (decl : String) : String :=
  String.ofList ((decl.toList.dropWhile (· == '-')).map fun c => if c == '-' then '_' else c)

def isLong (decl : String) : Bool := decl.toList.take 2 == ['-', '-']

/-- **the command passes its options through**: every option reaches the callback under the name of its own long flag
    (identity on names — a flag wired to another keyword breaks this), that name is a keyword parameter of `fill_cij`, its
    default is the library's default; no two options share a keyword; the popped keyword is the positional argument, which
    is not a parameter of `fill_cij` -/
theorem cli_is_source :
    (∀ o ∈ Generated.cliOptions,
      (o.decls.filter isLong).head?.map canonName = some o.kwarg ∧
      o.kwarg ∈ Generated.fillParams.tail ∧
      lookupDefault o.kwarg = some o.default) ∧
    (Generated.cliOptions.map (·.kwarg)).Nodup ∧
    Generated.cliPopped = Generated.cliArgument ∧
    Generated.cliArgument ∉ Generated.fillParams ∧
    Generated.cliArgument ∉ Generated.cliOptions.map (·.kwarg) ∧
    Generated.cliPrintIndex = false := by
  decide +kernel

def keywordOk (k : String × String × Option FillDefault) : Bool :=
  Generated.fillParams.tail.contains k.1 && k.2.1 == k.1 &&
    (match k.2.2 with
     | some d => lookupDefault k.1 == some d
     | none => true)

/-- one table (and at most `system`) by position, at most one `**mapping`, explicit keywords read from a variable / mapping
    key of the SAME name with the library's default -/
def callSiteOk (c : FillCallSite) : Bool :=
  decide (1 ≤ c.positional) && decide (c.positional ≤ 2) && decide (c.starKwargs ≤ 1) && c.keywords.all keywordOk

/-- **callers hand their settings to `fill_cij` under the same names** -/
theorem callers_pass_through : ∀ c ∈ Generated.fillCallSites, callSiteOk c = true := by decide +kernel

/-- **`cij fill` re-emission is the source's**: the count is the extracted field of line 2, the table is the next
    `N + cliTableExtra` lines, printed without an index column -/
theorem fill_cmd_is_source {Num : Type} (F P : NumFmt Num) (k : Nat)
    (fill : ElastDat.Table Num → Option (ElastDat.Table Num)) (l1 l2 : Line) (rest : List Line) :
    ElastDat.fillCmd F P k fill (l1 :: l2 :: rest) = (do
      let n ← l2[Generated.cliCountField]? >>= Lex.parseInt
      let cnt := (n + Generated.cliTableExtra).toNat
      let t ← ElastDat.parseTable F (rest.take cnt)
      let t' ← fill t
      pure (l1 :: l2 :: (ElastDat.printTable P k t' ++ rest.drop cnt))) := rfl

end Cij.FillSource
