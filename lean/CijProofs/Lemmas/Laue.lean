/-
  Lifting lemmas for C08 (no property statements here).

  * `φ : ℤ[√3] → ℝ`, `(a, b) ↦ a + b√3`, respects `+`, `*`, numerals;
  * `comp (rotate G (tensorOf c)) a = Σ_b (Σ_{x ∈ fiber b} coef G (std a) x) · c_b` for every real matrix `G`
    (linearity of `rotate` in the tensor, regrouped by canonical key);
  * hence for the doubled generator `2R` of the model: `= Σ_b φ(actZ g a b) · c_b`, and for the rotation
    `R = (2R)/2` itself:  `comp (rotate R (tensorOf c)) a − c_a = (Σ_b φ(defectZ g a b) c_b) / 16`;
  * a tensor with the minor/major symmetries is determined by its 21 canonical components, and `rotate`
    preserves these symmetries — so invariance of the full tensor is invariance of the 21 components;
  * `combCheck … = true` (kernel-checked in LaueSysCerts.lean) transports "annihilates c" from the source rows to
    the target rows.
-/
import Mathlib.Analysis.Real.Sqrt
import Mathlib.Algebra.BigOperators.Fin
import Mathlib.Tactic.Ring
import Mathlib.Tactic.FinCases
import Mathlib.Tactic.LinearCombination
import CijProofs.Lemmas.LaueCerts

namespace Cij.Laue
open Finset

/-! ### ℤ[√3] → ℝ -/

noncomputable def φ (z : ZS) : ℝ := (z.re : ℝ) + (z.im : ℝ) * Real.sqrt 3

theorem sqrt3_mul_self : Real.sqrt 3 * Real.sqrt 3 = 3 := Real.mul_self_sqrt (by norm_num)

@[simp] theorem ZS.add_re (a b : ZS) : (a + b).re = a.re + b.re := rfl
@[simp] theorem ZS.add_im (a b : ZS) : (a + b).im = a.im + b.im := rfl
@[simp] theorem ZS.sub_re (a b : ZS) : (a - b).re = a.re - b.re := rfl
@[simp] theorem ZS.sub_im (a b : ZS) : (a - b).im = a.im - b.im := rfl
@[simp] theorem ZS.neg_re (a : ZS) : (-a).re = -a.re := rfl
@[simp] theorem ZS.neg_im (a : ZS) : (-a).im = -a.im := rfl
@[simp] theorem ZS.mul_re (a b : ZS) : (a * b).re = a.re * b.re + 3 * (a.im * b.im) := rfl
@[simp] theorem ZS.mul_im (a b : ZS) : (a * b).im = a.re * b.im + a.im * b.re := rfl
@[simp] theorem ZS.ofNat_re (n : Nat) : (OfNat.ofNat n : ZS).re = (n : Int) := rfl
@[simp] theorem ZS.ofNat_im (n : Nat) : (OfNat.ofNat n : ZS).im = 0 := rfl
@[simp] theorem ZS.ofInt_re (n : Int) : (ZS.ofInt n).re = n := rfl
@[simp] theorem ZS.ofInt_im (n : Int) : (ZS.ofInt n).im = 0 := rfl

theorem φ_add (a b : ZS) : φ (a + b) = φ a + φ b := by simp only [φ, ZS.add_re, ZS.add_im]; push_cast; ring
theorem φ_sub (a b : ZS) : φ (a - b) = φ a - φ b := by simp only [φ, ZS.sub_re, ZS.sub_im]; push_cast; ring
theorem φ_neg (a : ZS) : φ (-a) = -φ a := by simp only [φ, ZS.neg_re, ZS.neg_im]; push_cast; ring
theorem φ_mul (a b : ZS) : φ (a * b) = φ a * φ b := by
  simp only [φ, ZS.mul_re, ZS.mul_im]; push_cast
  linear_combination (-(a.im : ℝ) * (b.im : ℝ)) * sqrt3_mul_self
theorem φ_ofNat (n : Nat) : φ (OfNat.ofNat n : ZS) = (n : ℝ) := by
  show (((n : Int)) : ℝ) + ((0 : Int) : ℝ) * Real.sqrt 3 = n
  simp
theorem φ_zero : φ (0 : ZS) = 0 := by simpa using φ_ofNat 0
theorem φ_one : φ (1 : ZS) = 1 := by simpa using φ_ofNat 1
theorem φ_two : φ (2 : ZS) = 2 := by simpa using φ_ofNat 2
theorem φ_sixteen : φ (16 : ZS) = 16 := by simpa using φ_ofNat 16
theorem φ_ofInt (n : Int) : φ (ZS.ofInt n) = (n : ℝ) := by simp [φ]
theorem φ_sqrt3 : φ ZS.sqrt3 = Real.sqrt 3 := by simp [φ, ZS.sqrt3]

/-! ### `rotate` on the 21 components -/

/-- evaluate a tensor at an index tuple -/
def app {α : Type} (T : Tensor4 α) (x : Idx4) : α := T x.1 x.2.1 x.2.2.1 x.2.2.2

theorem comp_eq_app {α : Type} (T : Tensor4 α) (b : Fin 21) : comp T b = app T (stdOfKey b) := rfl

theorem tuples_lit : tuples = [(0,0,0,0),(0,0,0,1),(0,0,0,2),(0,0,1,0),(0,0,1,1),(0,0,1,2),(0,0,2,0),(0,0,2,1),(0,0,2,2),
  (0,1,0,0),(0,1,0,1),(0,1,0,2),(0,1,1,0),(0,1,1,1),(0,1,1,2),(0,1,2,0),(0,1,2,1),(0,1,2,2),
  (0,2,0,0),(0,2,0,1),(0,2,0,2),(0,2,1,0),(0,2,1,1),(0,2,1,2),(0,2,2,0),(0,2,2,1),(0,2,2,2),
  (1,0,0,0),(1,0,0,1),(1,0,0,2),(1,0,1,0),(1,0,1,1),(1,0,1,2),(1,0,2,0),(1,0,2,1),(1,0,2,2),
  (1,1,0,0),(1,1,0,1),(1,1,0,2),(1,1,1,0),(1,1,1,1),(1,1,1,2),(1,1,2,0),(1,1,2,1),(1,1,2,2),
  (1,2,0,0),(1,2,0,1),(1,2,0,2),(1,2,1,0),(1,2,1,1),(1,2,1,2),(1,2,2,0),(1,2,2,1),(1,2,2,2),
  (2,0,0,0),(2,0,0,1),(2,0,0,2),(2,0,1,0),(2,0,1,1),(2,0,1,2),(2,0,2,0),(2,0,2,1),(2,0,2,2),
  (2,1,0,0),(2,1,0,1),(2,1,0,2),(2,1,1,0),(2,1,1,1),(2,1,1,2),(2,1,2,0),(2,1,2,1),(2,1,2,2),
  (2,2,0,0),(2,2,0,1),(2,2,0,2),(2,2,1,0),(2,2,1,1),(2,2,1,2),(2,2,2,0),(2,2,2,1),(2,2,2,2)] := by
  decide +kernel

/-- the nested sums of `rotate` as one list sum over `tuples` -/
theorem sum4_eq_sumList (f : Fin 3 → Fin 3 → Fin 3 → Fin 3 → ℝ) :
    sum4 f = sumList (tuples.map fun x => f x.1 x.2.1 x.2.2.1 x.2.2.2) := by
  rw [tuples_lit]
  simp only [sum4, sum3, sumList, List.map, List.foldr]
  ring

/-- regrouping a sum over a list by the value of a key -/
theorem regroup (key : Idx4 → Fin 21) (f : Idx4 → ℝ) (c : Fin 21 → ℝ) (l : List Idx4) :
    sumList (l.map fun x => f x * c (key x)) = ∑ b : Fin 21, sumList ((l.filter fun x => key x = b).map f) * c b := by
  induction l with
  | nil => simp [sumList]
  | cons x l ih =>
    have h1 : ∀ b, sumList (((x :: l).filter fun y => key y = b).map f)
        = (if key x = b then f x else 0) + sumList ((l.filter fun y => key y = b).map f) := by
      intro b
      by_cases h : key x = b <;> simp [List.filter, h, sumList]
    simp only [h1, add_mul, Finset.sum_add_distrib, ite_mul, zero_mul, Finset.sum_ite_eq, Finset.mem_univ, if_true]
    simp only [List.map, sumList, List.foldr] at ih ⊢
    rw [← ih]


/-- linearity of `rotate` in the tensor, regrouped by canonical key -/
theorem comp_rotate (G : Mat3 ℝ) (c : Fin 21 → ℝ) (t : Idx4) :
    app (rotate G (tensorOf c)) t = ∑ b : Fin 21, sumList ((fiber b).map (coef G t)) * c b := by
  have := regroup keyOf (coef G t) c tuples
  simp only [fiber]
  rw [← this]
  simp only [app, rotate]
  rw [sum4_eq_sumList]
  rfl

/-- real doubled generator -/
noncomputable def G2 (g : Gen) : Mat3 ℝ := gen2 (Real.sqrt 3) g

theorem φ_gen2 (g : Gen) (i j : Fin 3) : φ (gen2 ZS.sqrt3 g i j) = G2 g i j := by
  cases g <;> fin_cases i <;> fin_cases j <;>
    simp [G2, gen2, matOfRows, φ_zero, φ_one, φ_two, φ_neg, φ_sqrt3]

theorem φ_coef (g : Gen) (t x : Idx4) : φ (coef (gen2 ZS.sqrt3 g) t x) = coef (G2 g) t x := by
  simp only [coef, φ_mul, φ_gen2]

theorem φ_sumList_map (l : List Idx4) (f : Idx4 → ZS) : φ (sumList (l.map f)) = sumList (l.map fun x => φ (f x)) := by
  induction l with
  | nil => simp [sumList, φ_zero]
  | cons x l ih => simp only [sumList, List.map, List.foldr] at ih ⊢; rw [φ_add, ih]

theorem φ_actZ (g : Gen) (a b : Fin 21) : φ (actZ g a b) = sumList ((fiber b).map (coef (G2 g) (stdOfKey a))) := by
  simp only [actZ, φ_sumList_map, φ_coef]

/-- the 21 components of the tensor rotated by the doubled generator -/
theorem comp_rotate_G2 (g : Gen) (c : Fin 21 → ℝ) (a : Fin 21) :
    comp (rotate (G2 g) (tensorOf c)) a = ∑ b : Fin 21, φ (actZ g a b) * c b := by
  rw [comp_eq_app, comp_rotate]
  simp only [φ_actZ]

/-- the rotation itself: `R = (2R)/2` -/
noncomputable def rot (g : Gen) : Mat3 ℝ := fun i j => G2 g i j / 2

theorem rotate_half (G : Mat3 ℝ) (T : Tensor4 ℝ) (i j k l : Fin 3) :
    rotate (fun a b => G a b / 2) T i j k l = rotate G T i j k l / 16 := by
  simp only [rotate, sum4, sum3]; ring

theorem comp_rotate_rot (g : Gen) (c : Fin 21 → ℝ) (a : Fin 21) :
    comp (rotate (rot g) (tensorOf c)) a - c a = (∑ b : Fin 21, φ (defectZ g a b) * c b) / 16 := by
  have h := comp_rotate_G2 g c a
  simp only [comp_eq_app, app] at h ⊢
  rw [show rot g = fun a b => G2 g a b / 2 from rfl, rotate_half, h]
  simp only [defectZ, φ_sub, sub_mul, Finset.sum_sub_distrib]
  have : ∑ b : Fin 21, φ (if a = b then (16 : ZS) else 0) * c b = 16 * c a := by
    simp [apply_ite φ, φ_sixteen, φ_zero, ite_mul]
  rw [this]; ring


/-! ### minor / major symmetries -/

structure Symm (T : Tensor4 ℝ) : Prop where
  m1 : ∀ i j k l, T i j k l = T j i k l
  m2 : ∀ i j k l, T i j k l = T i j l k
  mj : ∀ i j k l, T i j k l = T k l i j

theorem mem_tuples : ∀ x : Idx4, x ∈ tuples := by decide +kernel

theorem key_symm : ∀ x ∈ tuples, keyOf x = keyOf (x.2.1, x.1, x.2.2.1, x.2.2.2) ∧
    keyOf x = keyOf (x.1, x.2.1, x.2.2.2, x.2.2.1) ∧ keyOf x = keyOf (x.2.2.1, x.2.2.2, x.1, x.2.1) := by
  decide +kernel

theorem symm_tensorOf (c : Fin 21 → ℝ) : Symm (tensorOf c) where
  m1 i j k l := congrArg c (key_symm (i, j, k, l) (mem_tuples _)).1
  m2 i j k l := congrArg c (key_symm (i, j, k, l) (mem_tuples _)).2.1
  mj i j k l := congrArg c (key_symm (i, j, k, l) (mem_tuples _)).2.2

theorem sum3_eq (f : Fin 3 → ℝ) : sum3 f = ∑ i, f i := (Fin.sum_univ_three f).symm

theorem symm_rotate (G : Mat3 ℝ) {T : Tensor4 ℝ} (h : Symm T) : Symm (rotate G T) where
  m1 i j k l := by
    simp only [rotate, sum4, sum3_eq]
    rw [Finset.sum_comm]
    refine sum_congr rfl fun p _ => sum_congr rfl fun q _ => sum_congr rfl fun r _ => sum_congr rfl fun s _ => ?_
    rw [h.m1 q p r s]; ring
  m2 i j k l := by
    simp only [rotate, sum4, sum3_eq]
    refine sum_congr rfl fun p _ => sum_congr rfl fun q _ => ?_
    rw [Finset.sum_comm]
    refine sum_congr rfl fun r _ => sum_congr rfl fun s _ => ?_
    rw [h.m2 p q s r]; ring
  mj i j k l := by
    simp only [rotate, sum4, sum3_eq]
    -- Σp Σq Σr Σs F p q r s = Σr Σs Σp Σq F p q r s
    have swap : ∀ F : Fin 3 → Fin 3 → Fin 3 → Fin 3 → ℝ,
        ∑ p, ∑ q, ∑ r, ∑ s, F p q r s = ∑ r, ∑ s, ∑ p, ∑ q, F p q r s := by
      intro F
      calc ∑ p, ∑ q, ∑ r, ∑ s, F p q r s = ∑ p, ∑ r, ∑ q, ∑ s, F p q r s :=
            sum_congr rfl fun p _ => Finset.sum_comm
        _ = ∑ r, ∑ p, ∑ q, ∑ s, F p q r s := Finset.sum_comm
        _ = ∑ r, ∑ p, ∑ s, ∑ q, F p q r s := sum_congr rfl fun r _ => sum_congr rfl fun p _ => Finset.sum_comm
        _ = ∑ r, ∑ s, ∑ p, ∑ q, F p q r s := sum_congr rfl fun r _ => Finset.sum_comm
    rw [swap]
    refine sum_congr rfl fun r _ => sum_congr rfl fun s _ => sum_congr rfl fun p _ => sum_congr rfl fun q _ => ?_
    rw [h.mj p q r s]; ring

/-- the canonical representative of a tuple is one of its 8 symmetric images -/
theorem canon_rep : ∀ x ∈ tuples,
    let y := stdOfKey (keyOf x)
    y = x ∨ y = (x.2.1, x.1, x.2.2.1, x.2.2.2) ∨ y = (x.1, x.2.1, x.2.2.2, x.2.2.1) ∨ y = (x.2.1, x.1, x.2.2.2, x.2.2.1) ∨
    y = (x.2.2.1, x.2.2.2, x.1, x.2.1) ∨ y = (x.2.2.2, x.2.2.1, x.1, x.2.1) ∨ y = (x.2.2.1, x.2.2.2, x.2.1, x.1) ∨
    y = (x.2.2.2, x.2.2.1, x.2.1, x.1) := by
  decide +kernel

theorem key_std : ∀ a : Fin 21, keyOf (stdOfKey a) = a := by decide +kernel

/-- a symmetric tensor is determined by its 21 canonical components -/
theorem app_eq_comp {T : Tensor4 ℝ} (h : Symm T) (i j k l : Fin 3) : T i j k l = comp T (keyIndex i j k l) := by
  have hc := canon_rep (i, j, k, l) (mem_tuples _)
  simp only at hc
  rw [comp_eq_app]
  change T i j k l = app T (stdOfKey (keyOf (i, j, k, l)))
  rcases hc with hc | hc | hc | hc | hc | hc | hc | hc <;> rw [hc] <;> simp only [app]
  · exact h.m1 i j k l
  · exact h.m2 i j k l
  · rw [h.m1 i j k l]; exact h.m2 j i k l
  · exact h.mj i j k l
  · rw [h.mj i j k l]; exact h.m1 k l i j
  · rw [h.mj i j k l]; exact h.m2 k l i j
  · rw [h.mj i j k l, h.m1 k l i j]; exact h.m2 l k i j

theorem comp_tensorOf (c : Fin 21 → ℝ) (a : Fin 21) : comp (tensorOf c) a = c a := by
  rw [comp_eq_app]; exact congrArg c (key_std a)

/-- invariance of the full 3⁴ tensor ⇔ invariance of its 21 canonical components -/
theorem invariant_iff_comp (R : Mat3 ℝ) (c : Fin 21 → ℝ) :
    rotate R (tensorOf c) = tensorOf c ↔ ∀ a : Fin 21, comp (rotate R (tensorOf c)) a = c a := by
  constructor
  · intro h a; rw [h, comp_tensorOf]
  · intro h
    funext i j k l
    rw [app_eq_comp (symm_rotate R (symm_tensorOf c)) i j k l, h]
    rfl


/-! ### lifting a checked certificate -/

/-- the row `v` (over ℤ[√3]) annihilates the component vector `c` -/
def ann (v : Nat → ZS) (c : Fin 21 → ℝ) : Prop := ∑ j : Fin 21, φ (v j.val) * c j = 0

theorem comb_lift {d : Int} {T S : Nat → Nat → ZS} {nT : Nat} {L : List (List (Nat × Int × Int))}
    (h : combCheck d T nT S L = true) (c : Fin 21 → ℝ) (hS : ∀ s, ann (S s) c) :
    ∀ t < nT, ann (T t) c := by
  simp only [combCheck, Bool.and_eq_true, decide_eq_true_eq, List.all_eq_true, List.mem_range] at h
  obtain ⟨hd, h⟩ := h
  intro t ht
  have key : ∀ l : List (Nat × Int × Int),
      ∑ j : Fin 21, φ (l.foldr (fun e acc => zsOf e * S e.1 j.val + acc) 0) * c j = 0 := by
    intro l
    induction l with
    | nil => simp [φ_zero]
    | cons e l ih =>
      simp only [List.foldr, φ_add, φ_mul, add_mul, Finset.sum_add_distrib, ih, add_zero]
      have := hS e.1
      unfold ann at this
      simp only [mul_assoc, ← Finset.mul_sum, this, mul_zero]
  have h2 : ∑ j : Fin 21, φ (ZS.ofInt d * T t j.val) * c j = 0 := by
    rw [← key (L.getD t [])]
    exact sum_congr rfl fun j _ => by rw [h t ht j.val j.isLt]
  simp only [φ_mul, φ_ofInt, mul_assoc, ← Finset.mul_sum] at h2
  have hd' : (d : ℝ) ≠ 0 := by exact_mod_cast hd
  exact (mul_eq_zero.mp h2).resolve_left hd'

/-! ### relations and invariance in terms of `ann` -/

/-- all relation rows hold for the component vector `c` -/
def relationsHold (rows : List (List Int × Int)) (c : Fin 21 → ℝ) : Prop :=
  ∀ r ∈ rows, ∑ j : Fin 21, ((r.1.getD j.val 0 : Int) : ℝ) * c j = ((r.2 : Int) : ℝ)

/-- the full tensor is invariant under every generator of the Laue class of `name` -/
def invariant (name : String) (c : Fin 21 → ℝ) : Prop :=
  ∀ g ∈ laueGens name, rotate (rot g) (tensorOf c) = tensorOf c

theorem relationsHold_iff {rows : List (List Int × Int)} (hw : wellFormed rows = true) (c : Fin 21 → ℝ) :
    relationsHold rows c ↔ ∀ i < rows.length, ann (Kmat rows i) c := by
  simp only [wellFormed, List.all_eq_true, Bool.and_eq_true, decide_eq_true_eq] at hw
  simp only [relationsHold, ann, Kmat, φ_ofInt]
  constructor
  · intro h i hi
    have hm : rows[i] ∈ rows := List.getElem_mem hi
    have := h _ hm
    rw [(hw _ hm).2] at this
    simpa [List.getElem?_eq_getElem hi] using this
  · intro h r hr
    obtain ⟨i, hi, rfl⟩ := List.getElem_of_mem hr
    have := h i hi
    rw [(hw _ hr).2]
    simpa [List.getElem?_eq_getElem hi] using this

theorem ann_Kmat_oob {rows : List (List Int × Int)} (c : Fin 21 → ℝ) (i : Nat) (hi : rows.length ≤ i) :
    ann (Kmat rows i) c := by
  simp [ann, Kmat, List.getElem?_eq_none hi, φ_ofInt]

theorem invariant_gen_iff (g : Gen) (c : Fin 21 → ℝ) :
    rotate (rot g) (tensorOf c) = tensorOf c ↔ ∀ a : Fin 21, ann (fun j => look (Certs.defectLit g) a.val j) c := by
  rw [invariant_iff_comp]
  refine forall_congr' fun a => ?_
  have h := comp_rotate_rot g c a
  unfold ann
  simp only [← defect_table g a]
  constructor
  · intro h1
    rw [h1, sub_self] at h
    have := h.symm
    rwa [div_eq_zero_iff, or_iff_left (by norm_num)] at this
  · intro h1
    rw [h1, zero_div] at h
    linarith

theorem Nstack_some {gens : List Gen} {k : Nat} {g : Gen} (h : gens[k / 21]? = some g) :
    Nstack gens k = fun j => look (Certs.defectLit g) (k % 21) j := by
  funext j; simp [Nstack, h]

theorem invariant_iff (gens : List Gen) (c : Fin 21 → ℝ) :
    (∀ g ∈ gens, rotate (rot g) (tensorOf c) = tensorOf c) ↔ ∀ k < 21 * gens.length, ann (Nstack gens k) c := by
  constructor
  · intro h k hk
    have hq : k / 21 < gens.length := by omega
    have hg := h (gens[k / 21]) (List.getElem_mem hq)
    have := (invariant_gen_iff _ c).1 hg ⟨k % 21, Nat.mod_lt _ (by norm_num)⟩
    rw [Nstack_some (List.getElem?_eq_getElem hq)]; exact this
  · intro h g hg
    obtain ⟨gi, hgi, rfl⟩ := List.getElem_of_mem hg
    rw [invariant_gen_iff]
    intro a
    have hk : 21 * gi + a.val < 21 * gens.length := by have := a.isLt; nlinarith
    have := h (21 * gi + a.val) hk
    have e1 : (21 * gi + a.val) / 21 = gi := by have := a.isLt; omega
    have e2 : (21 * gi + a.val) % 21 = a.val := by have := a.isLt; omega
    rw [Nstack_some (g := gens[gi]) (by rw [e1]; exact List.getElem?_eq_getElem hgi), e2] at this
    exact this

theorem ann_Nstack_oob (gens : List Gen) (c : Fin 21 → ℝ) (k : Nat) (hk : 21 * gens.length ≤ k) :
    ann (Nstack gens k) c := by
  have hq : gens.length ≤ k / 21 := by omega
  simp [ann, Nstack, List.getElem?_eq_none hq, φ_zero]

/-- a kernel-checked certificate gives: relations ⇔ invariance -/
theorem iff_of_cert {name : String} {rows : List (List Int × Int)} (h : certOK name rows = true) (c : Fin 21 → ℝ) :
    relationsHold rows c ↔ invariant name c := by
  simp only [certOK, Bool.and_eq_true] at h
  obtain ⟨⟨hw, h1⟩, h2⟩ := h
  rw [relationsHold_iff hw, invariant, invariant_iff]
  constructor
  · intro hK
    refine comb_lift h2 c fun s => ?_
    by_cases hs : s < rows.length
    · exact hK s hs
    · exact ann_Kmat_oob c s (by omega)
  · intro hN
    refine comb_lift h1 c fun s => ?_
    by_cases hs : s < 21 * (laueGens name).length
    · exact hN s hs
    · exact ann_Nstack_oob _ c s (by omega)


/-! ### the generators are the rotations they are named after; products; inversion -/

def mul3 (A B : Mat3 ℝ) : Mat3 ℝ := fun i k => sum3 fun j => A i j * B j k
def one3 : Mat3 ℝ := fun i j => if i = j then 1 else 0
def transpose3 (A : Mat3 ℝ) : Mat3 ℝ := fun i j => A j i
def det3 (A : Mat3 ℝ) : ℝ :=
  A 0 0 * (A 1 1 * A 2 2 - A 1 2 * A 2 1) - A 0 1 * (A 1 0 * A 2 2 - A 1 2 * A 2 0) + A 0 2 * (A 1 0 * A 2 1 - A 1 1 * A 2 0)
def pow3 : Nat → Mat3 ℝ → Mat3 ℝ
  | 0, _ => one3
  | n + 1, A => mul3 A (pow3 n A)
def mulVec3 (A : Mat3 ℝ) (v : Fin 3 → ℝ) : Fin 3 → ℝ := fun i => sum3 fun j => A i j * v j

/-- order of the axis and its direction -/
def order : Gen → Nat
  | .twoX | .twoY | .twoZ => 2 | .fourZ => 4 | .threeZ => 3 | .sixZ => 6 | .three111 => 3
def axis : Gen → Fin 3 → ℝ
  | .twoX => ![1, 0, 0] | .twoY => ![0, 1, 0] | .three111 => ![1, 1, 1]
  | .twoZ | .fourZ | .threeZ | .sixZ => ![0, 0, 1]

theorem sqrt3_sq : Real.sqrt 3 ^ 2 = 3 := by rw [sq]; exact sqrt3_mul_self

/-- the generators written out: e.g. the three-fold axis along z is [[-1/2, -√3/2, 0], [√3/2, -1/2, 0], [0, 0, 1]] -/
theorem rot_explicit :
    rot .twoX = matOfRows (1, 0, 0) (0, -1, 0) (0, 0, -1) ∧
    rot .twoY = matOfRows (-1, 0, 0) (0, 1, 0) (0, 0, -1) ∧
    rot .twoZ = matOfRows (-1, 0, 0) (0, -1, 0) (0, 0, 1) ∧
    rot .fourZ = matOfRows (0, -1, 0) (1, 0, 0) (0, 0, 1) ∧
    rot .threeZ = matOfRows (-(1 / 2), -(Real.sqrt 3 / 2), 0) (Real.sqrt 3 / 2, -(1 / 2), 0) (0, 0, 1) ∧
    rot .sixZ = matOfRows (1 / 2, -(Real.sqrt 3 / 2), 0) (Real.sqrt 3 / 2, 1 / 2, 0) (0, 0, 1) ∧
    rot .three111 = matOfRows (0, 0, 1) (1, 0, 0) (0, 1, 0) := by
  refine ⟨?_, ?_, ?_, ?_, ?_, ?_, ?_⟩ <;> funext i j <;> fin_cases i <;> fin_cases j <;>
    simp [rot, G2, gen2, matOfRows] <;> ring

theorem rot_orthogonal (g : Gen) : mul3 (rot g) (transpose3 (rot g)) = one3 := by
  funext i k
  cases g <;> fin_cases i <;> fin_cases k <;>
    simp [mul3, transpose3, sum3, rot, G2, gen2, matOfRows, one3] <;> ring_nf <;> (try rw [sqrt3_sq]) <;> norm_num

theorem rot_det (g : Gen) : det3 (rot g) = 1 := by
  cases g <;> simp [det3, rot, G2, gen2, matOfRows] <;> ring_nf <;> (try rw [sqrt3_sq]) <;> norm_num

theorem rot_axis (g : Gen) : mulVec3 (rot g) (axis g) = axis g := by
  funext i
  cases g <;> fin_cases i <;> simp [mulVec3, sum3, rot, G2, gen2, matOfRows, axis]


/-- the orders of the axes: the two-folds square to 1; (4z)² = 2z; (3z)² = (3z)ᵀ = (3z)⁻¹ and likewise 3[111], so
    their cubes are 1; (6z)² = 3z and (6z)·(3z) = 2z -/
theorem rot_orders :
    mul3 (rot .twoX) (rot .twoX) = one3 ∧ mul3 (rot .twoY) (rot .twoY) = one3 ∧ mul3 (rot .twoZ) (rot .twoZ) = one3 ∧
    mul3 (rot .fourZ) (rot .fourZ) = rot .twoZ ∧
    mul3 (rot .threeZ) (rot .threeZ) = transpose3 (rot .threeZ) ∧
    mul3 (rot .three111) (rot .three111) = transpose3 (rot .three111) ∧
    mul3 (rot .sixZ) (rot .sixZ) = rot .threeZ ∧ mul3 (rot .sixZ) (rot .threeZ) = rot .twoZ := by
  refine ⟨?_, ?_, ?_, ?_, ?_, ?_, ?_, ?_⟩ <;> funext i k <;> fin_cases i <;> fin_cases k <;>
    simp [mul3, transpose3, sum3, rot, G2, gen2, matOfRows, one3] <;> ring_nf <;> (try rw [sqrt3_sq]) <;> norm_num

/-- none of the generators is the identity -/
theorem rot_ne_one (g : Gen) : rot g ≠ one3 := by
  intro h
  cases g
  · have := congrFun (congrFun h 1) 1; norm_num [rot, G2, gen2, matOfRows, one3] at this
  · have := congrFun (congrFun h 0) 0; norm_num [rot, G2, gen2, matOfRows, one3] at this
  · have := congrFun (congrFun h 0) 0; norm_num [rot, G2, gen2, matOfRows, one3] at this
  · have := congrFun (congrFun h 0) 0; norm_num [rot, G2, gen2, matOfRows, one3] at this
  · have := congrFun (congrFun h 0) 0; norm_num [rot, G2, gen2, matOfRows, one3] at this
  · have := congrFun (congrFun h 0) 0; norm_num [rot, G2, gen2, matOfRows, one3] at this
  · have := congrFun (congrFun h 0) 0; norm_num [rot, G2, gen2, matOfRows, one3] at this

theorem rotate_one (T : Tensor4 ℝ) : rotate one3 T = T := by
  funext i j k l
  simp [rotate, sum4, sum3_eq, one3, Finset.sum_ite_eq, ite_mul, mul_ite]

theorem rotate_neg (A : Mat3 ℝ) (T : Tensor4 ℝ) : rotate (fun i j => -A i j) T = rotate A T := by
  funext i j k l
  simp only [rotate, sum4, sum3]; ring

/-- inversion acts trivially on a rank-4 tensor: the Laue class and its rotation subgroup have the same invariants -/
theorem rotate_neg_one (T : Tensor4 ℝ) : rotate (fun i j => -one3 i j) T = T := by
  rw [rotate_neg, rotate_one]


theorem rotate_as_sum (A : Mat3 ℝ) (T : Tensor4 ℝ) (i j k l : Fin 3) :
    rotate A T i j k l = ∑ x : Idx4, coef A (i, j, k, l) x * app T x := by
  simp only [rotate, sum4, sum3_eq, Fintype.sum_prod_type, coef, app]

theorem four_sums (f g h k : Fin 3 → ℝ) :
    (∑ a, f a) * (∑ b, g b) * (∑ c, h c) * (∑ d, k d) = ∑ a, ∑ b, ∑ c, ∑ d, f a * g b * h c * k d := by
  simp only [Fin.sum_univ_three]; ring

theorem coef_mul (A B : Mat3 ℝ) (t x : Idx4) : coef (mul3 A B) t x = ∑ y : Idx4, coef A t y * coef B y x := by
  simp only [coef, mul3, sum3_eq, Fintype.sum_prod_type]
  rw [four_sums]
  refine sum_congr rfl fun a _ => sum_congr rfl fun b _ => sum_congr rfl fun c _ => sum_congr rfl fun d _ => ?_
  ring

theorem rotate_mul (A B : Mat3 ℝ) (T : Tensor4 ℝ) : rotate (mul3 A B) T = rotate A (rotate B T) := by
  funext i j k l
  rw [rotate_as_sum, rotate_as_sum]
  have : ∀ y : Idx4, app (rotate B T) y = ∑ x : Idx4, coef B y x * app T x := by
    intro y; exact rotate_as_sum B T y.1 y.2.1 y.2.2.1 y.2.2.2
  simp only [this, coef_mul, Finset.sum_mul, Finset.mul_sum]
  rw [Finset.sum_comm]
  refine sum_congr rfl fun y _ => sum_congr rfl fun x _ => ?_
  ring

/-- invariance under two rotations gives invariance under their product: the generators of `laueGens` suffice -/
theorem invariant_mul {A B : Mat3 ℝ} {T : Tensor4 ℝ} (hA : rotate A T = T) (hB : rotate B T = T) :
    rotate (mul3 A B) T = T := by rw [rotate_mul, hB, hA]

end Cij.Laue
