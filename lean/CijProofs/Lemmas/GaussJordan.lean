/- Totality and correctness of the UNPIVOTED Gauss–Jordan elimination `Cij.LeastSq.solve` (`CijModel/LeastSq.lean`) and of
`Cij.LeastSq.polyfit` on full-column-rank polynomial designs over an ordered field.  (No property statements here.)

`eliminate` does no pivot search: step `c` divides row `c` by the entry `(c, c)` of the CURRENT matrix.  The exact hypothesis
under which this never meets a zero pivot is that every LEADING PRINCIPAL block of the coefficient matrix is non-singular
(`LeadingNonsing`); a symmetric positive definite matrix — here `AᵀA` of a Vandermonde design with ≥ deg+1 distinct
abscissae, whose quadratic form is `Σ_r P(x_r)²` — satisfies it.

Proof: entries are read through `ent`, one step is `stepE` on entry functions (`eliminate_ent`), and the invariant after `c`
steps (`gj_invariant`) is
  (I1) the first `c` columns are unit vectors,
  (I2) for every `k ≥ c` the first `k` rows have the same solution set (as equations in ALL `n+1` columns, augmented
       column included) as the first `k` rows of the original matrix
       — step `j < c` only adds multiples of row `j` and rescales row `j`.
A zero pivot at step `c` would give, by (I1), a vector supported on columns `0..c` with `c`-th entry 1 in the kernel of the
first `c+1` current rows, hence by (I2) of the leading `(c+1)`-block of the original matrix. -/
import CijProofs.Lemmas.Interp
import CijProofs.Lemmas.LeastSq

namespace Cij.LeastSq
open Finset

section Entries
variable {α : Type} [Field α]

/-- entry `(i, j)` of a list-of-rows matrix (0 outside) -/
def ent (m : List (List α)) (i j : ℕ) : α := (m.getD i []).getD j 0

/-- `R` rows, each of width `W` -/
def Rect (m : List (List α)) (R W : ℕ) : Prop := m.length = R ∧ ∀ row ∈ m, row.length = W

/-- one Gauss–Jordan step on column `c`, on entry functions -/
def stepE (E : ℕ → ℕ → α) (c : ℕ) : ℕ → ℕ → α := fun i j =>
  if i = c then E c j / E c c else E i j - E i c * (E c j / E c c)

/-- `c` steps (columns `0 … c−1`) -/
def iterE (E : ℕ → ℕ → α) : ℕ → ℕ → ℕ → α
  | 0 => E
  | c + 1 => stepE (iterE E c) c

theorem ent_of_lt (m : List (List α)) (i j : ℕ) (hi : i < m.length) (hj : j < (m[i]).length) :
    ent m i j = (m[i])[j] := by
  simp [ent, List.getD_eq_getElem?_getD, List.getElem?_eq_getElem hi, List.getElem?_eq_getElem hj]

theorem eliminate_rect (m : List (List α)) (R W c : ℕ) (h : Rect m R W) (hc : c < R) : Rect (eliminate m c) R W := by
  obtain ⟨hR, hW⟩ := h
  have hcm : c < m.length := hR ▸ hc
  have hprow : (m[c]?.getD []).length = W := by
    rw [List.getElem?_eq_getElem hcm, Option.getD_some]
    exact hW _ (List.getElem_mem hcm)
  refine ⟨by simp [eliminate, hR], fun row hrow => ?_⟩
  simp only [eliminate, List.mem_mapIdx] at hrow
  obtain ⟨i, hi, rfl⟩ := hrow
  have hri : (m[i]).length = W := hW _ (List.getElem_mem hi)
  split_ifs
  · simp [hprow]
  · simp [List.length_zipWith, hprow, hri]

theorem eliminate_ent (m : List (List α)) (R W c i j : ℕ) (h : Rect m R W) (hc : c < R) (hi : i < R) (hj : j < W) :
    ent (eliminate m c) i j = stepE (ent m) c i j := by
  have hrect' := eliminate_rect m R W c h hc
  obtain ⟨hR, hW⟩ := h
  have hcm : c < m.length := hR ▸ hc
  have him : i < m.length := hR ▸ hi
  have hrc : (m[c]).length = W := hW _ (List.getElem_mem hcm)
  have hri : (m[i]).length = W := hW _ (List.getElem_mem him)
  have hie : i < (eliminate m c).length := hrect'.1 ▸ hi
  have hje : j < ((eliminate m c)[i]).length := by rw [hrect'.2 _ (List.getElem_mem hie)]; exact hj
  rw [ent_of_lt _ _ _ hie hje]
  have e1 : ∀ j' (hj' : j' < W), ent m c j' = (m[c])[j'] := fun j' hj' => ent_of_lt m c j' hcm (hrc ▸ hj')
  have e2 : ∀ j' (hj' : j' < W), ent m i j' = (m[i])[j'] := fun j' hj' => ent_of_lt m i j' him (hri ▸ hj')
  have hpc : (m.getD c []) = m[c] := by
    rw [List.getD_eq_getElem?_getD, List.getElem?_eq_getElem hcm, Option.getD_some]
  have hfc : ∀ k (hk : k < m.length), (m[k]).getD c 0 = ent m k c := fun k hk => by
    simp [ent, List.getD_eq_getElem?_getD, List.getElem?_eq_getElem hk]
  have hpv : (m[c]).getD c 0 = ent m c c := hfc c hcm
  simp only [eliminate, List.getElem_mapIdx, hpc, hpv, hfc i him, stepE]
  by_cases hic : i = c
  · subst hic
    simp only [beq_self_eq_true, if_true, List.getElem_map]
    rw [e1 j hj]
  · have : (i == c) = false := by simpa using hic
    simp only [this, Bool.false_eq_true, if_false, List.getElem_zipWith, List.getElem_map, if_neg hic]
    rw [e1 j hj, e2 j hj]

/-- after the first `c` steps: still rectangular, and the entries are `iterE` of the original entries -/
theorem foldl_eliminate (m : List (List α)) (R W c : ℕ) (h : Rect m R W) (hcR : c ≤ R) (hcW : c ≤ W) :
    Rect ((List.range c).foldl eliminate m) R W ∧
      ∀ i < R, ∀ j < W, ent ((List.range c).foldl eliminate m) i j = iterE (ent m) c i j := by
  induction c with
  | zero => exact ⟨h, fun i _ j _ => rfl⟩
  | succ c ih =>
    obtain ⟨hr, he⟩ := ih (by omega) (by omega)
    rw [List.range_succ, List.foldl_append, List.foldl_cons, List.foldl_nil]
    refine ⟨eliminate_rect _ R W c hr (by omega), fun i hi j hj => ?_⟩
    rw [eliminate_ent _ R W c i j hr (by omega) hi hj]
    simp only [iterE, stepE, he c (by omega) j hj, he c (by omega) c (by omega), he i hi j hj, he i hi c (by omega)]

end Entries

/-! ### the invariant of unpivoted Gauss–Jordan on entry functions -/
section Invariant
variable {α : Type} [Field α]

/-- row `i` of an `n × (n+1)` system against a vector of `n + 1` entries (augmented column included) -/
def rowdot (E : ℕ → ℕ → α) (n i : ℕ) (x : ℕ → α) : α := ∑ j ∈ range (n + 1), E i j * x j

/-- every leading principal block of the coefficient part is non-singular: a vector supported on columns `0 … k` (`k < n`) that
is annihilated by rows `0 … k` is zero.  (Equivalently: all leading principal minors are non-zero.)  This is the exact
condition under which elimination WITHOUT pivoting never divides by zero. -/
def LeadingNonsing (E : ℕ → ℕ → α) (n : ℕ) : Prop :=
  ∀ k < n, ∀ x : ℕ → α, (∀ j, k < j → x j = 0) → (∀ i ≤ k, rowdot E n i x = 0) → ∀ j, x j = 0

theorem rowdot_stepE (E : ℕ → ℕ → α) (n c i : ℕ) (x : ℕ → α) :
    rowdot (stepE E c) n i x
      = if i = c then rowdot E n c x / E c c else rowdot E n i x - E i c / E c c * rowdot E n c x := by
  unfold rowdot stepE
  by_cases hic : i = c
  · simp only [hic, if_true]
    rw [div_eq_inv_mul, Finset.mul_sum]
    exact Finset.sum_congr rfl fun j _ => by ring
  · simp only [if_neg hic, Finset.mul_sum, ← Finset.sum_sub_distrib]
    exact Finset.sum_congr rfl fun j _ => by ring

/-- the candidate kernel vector at a zero pivot: `e_c − Σ_{j<c} E[j][c] e_j` -/
def pivotVec (E : ℕ → ℕ → α) (c : ℕ) : ℕ → α := fun j => if j = c then 1 else if j < c then -E j c else 0

theorem rowdot_pivotVec (E : ℕ → ℕ → α) (n c i : ℕ) (hc : c < n) (hi : i ≤ c)
    (hunit : ∀ i < n, ∀ j < c, E i j = if i = j then 1 else 0) :
    rowdot E n i (pivotVec E c) = if i = c then E c c else 0 := by
  unfold rowdot
  have hterm : ∀ j ∈ range (n + 1), E i j * pivotVec E c j
      = (if j = c then E i c else 0) + (if j = i then (if i < c then -E i c else 0) else 0) := by
    intro j _
    unfold pivotVec
    by_cases hjc : j = c
    · subst hjc
      by_cases hji : j = i
      · subst hji; simp
      · simp [hji]
    · by_cases hlt : j < c
      · rw [hunit i (by omega) j hlt]
        by_cases hij : i = j
        · subst hij; simp [hjc, hlt]
        · have : ¬ j = i := fun h => hij h.symm
          simp [hjc, hlt, hij, this]
      · have hji : ¬ j = i := by omega
        simp [hjc, hlt, hji]
  rw [Finset.sum_congr rfl hterm, Finset.sum_add_distrib, Finset.sum_ite_eq' , Finset.sum_ite_eq']
  have h1 : c ∈ range (n + 1) := mem_range.mpr (by omega)
  have h2 : i ∈ range (n + 1) := mem_range.mpr (by omega)
  rw [if_pos h1, if_pos h2]
  by_cases hic : i = c
  · subst hic; simp
  · have : i < c := by omega
    simp [hic, this]

/-- **invariant of unpivoted Gauss–Jordan.**  If every leading principal block of the original system `E0` is non-singular
then, for every `c ≤ n`: no pivot among the first `c` steps was zero, the first `c` columns of the current matrix are unit
vectors, and for all `k ≥ c` the first `k` rows have the same solutions as the first `k` original rows. -/
theorem gj_invariant (E0 : ℕ → ℕ → α) (n : ℕ) (hL : LeadingNonsing E0 n) (c : ℕ) (hc : c ≤ n) :
    (∀ c' < c, iterE E0 c' c' c' ≠ 0) ∧
    (∀ i < n, ∀ j < c, iterE E0 c i j = if i = j then 1 else 0) ∧
    (∀ k, c ≤ k → k ≤ n → ∀ x : ℕ → α,
      (∀ i < k, rowdot (iterE E0 c) n i x = 0) ↔ (∀ i < k, rowdot E0 n i x = 0)) := by
  induction c with
  | zero => exact ⟨fun _ h => absurd h (Nat.not_lt_zero _), fun _ _ _ h => absurd h (Nat.not_lt_zero _), fun _ _ _ _ => Iff.rfl⟩
  | succ c ih =>
    obtain ⟨hpiv, hunit, hsol⟩ := ih (by omega)
    have hcn : c < n := by omega
    set E := iterE E0 c with hE
    -- the pivot is not zero
    have hpv : E c c ≠ 0 := by
      intro h0
      have hker : ∀ i < c + 1, rowdot E n i (pivotVec E c) = 0 := by
        intro i hi
        rw [rowdot_pivotVec E n c i hcn (by omega) hunit]
        split_ifs
        · exact h0
        · rfl
      have hker0 := (hsol (c + 1) (by omega) (by omega) (pivotVec E c)).mp hker
      have := hL c hcn (pivotVec E c)
        (fun j hj => by unfold pivotVec; rw [if_neg (by omega), if_neg (by omega)])
        (fun i hi => hker0 i (by omega)) c
      simp [pivotVec] at this
    refine ⟨?_, ?_, ?_⟩
    · intro c' hc'
      rcases Nat.lt_succ_iff_lt_or_eq.mp hc' with h | rfl
      · exact hpiv c' h
      · exact hpv
    · intro i hi j hj
      show stepE E c i j = _
      unfold stepE
      rcases Nat.lt_succ_iff_lt_or_eq.mp hj with hjc | rfl
      · have hcj : E c j = 0 := by rw [hunit c hcn j hjc, if_neg (by omega)]
        by_cases hic : i = c
        · subst hic
          rw [if_pos rfl, hcj, if_neg (by omega)]
          simp
        · rw [if_neg hic, hcj, hunit i hi j hjc]
          simp
      · by_cases hic : i = j
        · subst hic
          rw [if_pos rfl, if_pos rfl, div_self hpv]
        · rw [if_neg hic, if_neg hic, div_self hpv]
          ring
    · intro k hck hkn x
      rw [← hsol k (by omega) hkn x]
      show (∀ i < k, rowdot (stepE E c) n i x = 0) ↔ _
      simp only [rowdot_stepE]
      constructor
      · intro h
        have hc0 : rowdot E n c x = 0 := by
          have := h c (by omega)
          rw [if_pos rfl] at this
          exact (div_eq_zero_iff.mp this).resolve_right hpv
        intro i hi
        by_cases hic : i = c
        · rw [hic]; exact hc0
        · have := h i hi
          rw [if_neg hic, hc0] at this
          simpa using this
      · intro h i hi
        split_ifs
        · rw [h c (by omega)]; simp
        · rw [h c (by omega), h i hi]; simp

/-- **correctness of unpivoted Gauss–Jordan on entry functions**: after `n` steps the last column solves the original system -/
theorem gj_solution (E0 : ℕ → ℕ → α) (n : ℕ) (hL : LeadingNonsing E0 n) :
    ∀ i < n, ∑ j ∈ range n, E0 i j * iterE E0 n j n = E0 i n := by
  obtain ⟨_, hunit, hsol⟩ := gj_invariant E0 n hL n le_rfl
  set E := iterE E0 n with hE
  let x : ℕ → α := fun j => if j < n then E j n else -1
  have hx : ∀ i < n, rowdot E n i x = 0 := by
    intro i hi
    unfold rowdot
    rw [Finset.sum_range_succ]
    have : ∀ j ∈ range n, E i j * x j = if i = j then E i n else 0 := by
      intro j hj
      have hjn := mem_range.mp hj
      simp only [x, if_pos hjn, hunit i hi j hjn]
      by_cases hij : i = j
      · subst hij; simp
      · simp [hij]
    rw [Finset.sum_congr rfl this, Finset.sum_ite_eq, if_pos (mem_range.mpr hi)]
    simp [x]
  have h0 := (hsol n le_rfl le_rfl x).mp hx
  intro i hi
  have := h0 i hi
  unfold rowdot at this
  rw [Finset.sum_range_succ] at this
  have e : ∀ j ∈ range n, E0 i j * x j = E0 i j * E j n := fun j hj => by
    simp only [x, if_pos (mem_range.mp hj)]
  rw [Finset.sum_congr rfl e] at this
  simp only [x, lt_irrefl, if_false] at this
  linear_combination this

end Invariant

/-! ### `solve` and `polyfit` -/
section Polyfit
open Polynomial
variable {α : Type} [Field α]

/-- the list-level solver returns the last column of the eliminated matrix -/
theorem solve_getD (m : List (List α)) (n : ℕ) (h : Rect m n (n + 1)) :
    (solve m n).length = n ∧ ∀ i < n, (solve m n).getD i 0 = iterE (ent m) n i n := by
  obtain ⟨hr, he⟩ := foldl_eliminate m n (n + 1) n h le_rfl (by omega)
  unfold solve
  refine ⟨by simp [hr.1], fun i hi => ?_⟩
  rw [← he i hi n (by omega)]
  have hi' : i < ((List.range n).foldl eliminate m).length := by rw [hr.1]; exact hi
  simp [ent, List.getD_eq_getElem?_getD, List.getElem?_map, List.getElem?_eq_getElem hi']

/-- **totality + correctness of the unpivoted solver**: on an `n × (n+1)` augmented system whose leading principal blocks are
all non-singular, `solve` returns `n` numbers `s` with `Σ_j A[i][j] s_j = b_i` for every row. -/
theorem solve_correct (m : List (List α)) (n : ℕ) (h : Rect m n (n + 1)) (hL : LeadingNonsing (ent m) n) :
    (solve m n).length = n ∧
      ∀ i < n, ∑ j ∈ range n, ent m i j * (solve m n).getD j 0 = ent m i n := by
  obtain ⟨hlen, hs⟩ := solve_getD m n h
  refine ⟨hlen, fun i hi => ?_⟩
  rw [← gj_solution (ent m) n hL i hi]
  exact Finset.sum_congr rfl fun j hj => by rw [hs j (mem_range.mp hj)]

theorem normalAug_rect (xs ys : List α) (deg : ℕ) : Rect (normalAug xs ys deg) (deg + 1) (deg + 1 + 1) := by
  refine ⟨by simp [normalAug], fun row hrow => ?_⟩
  simp only [normalAug, List.mem_map] at hrow
  obtain ⟨j, _, rfl⟩ := hrow
  simp

theorem normalAug_ent_coeff (xs ys : List α) (deg i j : ℕ) (hi : i < deg + 1) (hj : j < deg + 1) :
    ent (normalAug xs ys deg) i j = (xs.map (· ^ (i + j))).sum := by
  simp only [ent, normalAug, List.getD_eq_getElem?_getD, List.getElem?_map, List.getElem?_range hi, Option.map_some,
    Option.getD_some]
  rw [List.getElem?_append_left (by simpa using hj)]
  simp only [List.getElem?_map, List.getElem?_range hj, Option.map_some, Option.getD_some, sumL_eq_sum, powN_eq]

theorem normalAug_ent_rhs (xs ys : List α) (deg i : ℕ) (hi : i < deg + 1) :
    ent (normalAug xs ys deg) i (deg + 1) = ((xs.zip ys).map fun q => q.1 ^ i * q.2).sum := by
  simp only [ent, normalAug, List.getD_eq_getElem?_getD, List.getElem?_map, List.getElem?_range hi, Option.map_some,
    Option.getD_some]
  rw [List.getElem?_append_right (by simp)]
  simp [sumL_eq_sum, zipWith_eq_map_zip, powN_eq]

/-- Horner on the reversed list: lowest power first -/
theorem polyval_reverse (s : List α) (t : α) : polyval s.reverse t = ∑ i ∈ range s.length, s.getD i 0 * t ^ i := by
  induction s with
  | nil => simp [polyval_nil]
  | cons c cs ih =>
    rw [List.reverse_cons, polyval_append, ih, List.length_cons, Finset.sum_range_succ', Finset.sum_mul]
    simp only [List.getD_cons_succ, List.getD_cons_zero, pow_zero, mul_one]
    congr 1
    exact Finset.sum_congr rfl fun i _ => by ring

/-- the quadratic form of `AᵀA`: `Σ_i Σ_j x_i x_j Σ_r t_r^(i+j) = Σ_r (Σ_i x_i t_r^i)²` -/
theorem gram_quadratic (xs : List α) (n : ℕ) (x : ℕ → α) :
    ∑ i ∈ range n, x i * ∑ j ∈ range n, (xs.map (· ^ (i + j))).sum * x j
      = (xs.map fun t => (∑ i ∈ range n, x i * t ^ i) * (∑ i ∈ range n, x i * t ^ i)).sum := by
  have e : (fun t : α => (∑ i ∈ range n, x i * t ^ i) * (∑ i ∈ range n, x i * t ^ i))
      = fun t => ∑ i ∈ range n, ∑ j ∈ range n, x i * (t ^ (i + j) * x j) := by
    funext t
    rw [Finset.sum_mul_sum]
    exact Finset.sum_congr rfl fun i _ => Finset.sum_congr rfl fun j _ => by rw [pow_add]; ring
  rw [e, Cij.Interp.list_sum_finset_sum]
  refine Finset.sum_congr rfl fun i _ => ?_
  rw [Cij.Interp.list_sum_finset_sum, Finset.mul_sum]
  refine Finset.sum_congr rfl fun j _ => ?_
  rw [List.sum_map_mul_left, List.sum_map_mul_right]

/-- arrays of different lengths: numpy's TypeError, `none` in the model -/
theorem polyfit_none_of_length_ne [BEq α] (xs ys : List α) (deg : ℕ) (h : xs.length ≠ ys.length) :
    polyfit xs ys deg = none := by
  unfold polyfit
  rw [if_pos (by simpa using h)]

variable [LinearOrder α] [IsStrictOrderedRing α]

/-- `AᵀA` of the polynomial design with at least `deg + 1` distinct abscissae is positive definite, so all its leading principal
blocks are non-singular: the unpivoted elimination never meets a zero pivot on it -/
theorem normalAug_leadingNonsing (xs ys : List α) (deg : ℕ) (hdist : deg + 1 ≤ xs.toFinset.card) :
    LeadingNonsing (ent (normalAug xs ys deg)) (deg + 1) := by
  intro k hk x hsupp hrows
  set n := deg + 1 with hn
  -- the quadratic form vanishes at x
  have hq : ∑ i ∈ range n, x i * ∑ j ∈ range n, (xs.map (· ^ (i + j))).sum * x j = 0 := by
    refine Finset.sum_eq_zero fun i hi => ?_
    have hin := mem_range.mp hi
    by_cases hik : i ≤ k
    · have := hrows i hik
      unfold rowdot at this
      rw [Finset.sum_range_succ, hsupp n (by omega), mul_zero, add_zero] at this
      have e : ∀ j ∈ range n, ent (normalAug xs ys deg) i j * x j = (xs.map (· ^ (i + j))).sum * x j :=
        fun j hj => by rw [normalAug_ent_coeff xs ys deg i j hin (mem_range.mp hj)]
      rw [Finset.sum_congr rfl e] at this
      rw [this, mul_zero]
    · rw [hsupp i (by omega), zero_mul]
  rw [gram_quadratic] at hq
  have hz : ∀ v ∈ xs.map (fun t => (∑ i ∈ range n, x i * t ^ i) * (∑ i ∈ range n, x i * t ^ i)), v = 0 :=
    Cij.Interp.list_sum_eq_zero_of_nonneg _ (fun v hv => by
      obtain ⟨t, _, rfl⟩ := List.mem_map.mp hv
      exact mul_self_nonneg _) hq
  -- the polynomial Σ x_i X^i of degree < n vanishes on ≥ n distinct points
  set P : α[X] := ∑ i ∈ range n, monomial i (x i) with hP
  have hPe : ∀ t, P.eval t = ∑ i ∈ range n, x i * t ^ i := fun t => by
    simp [hP, eval_finsetSum, eval_monomial]
  have hPc : ∀ m, P.coeff m = if m < n then x m else 0 := fun m => by
    simp only [hP, finsetSum_coeff, coeff_monomial, Finset.sum_ite_eq', mem_range]
  have hroot : ∀ t ∈ xs.toFinset, P.eval t = 0 := fun t ht => by
    rw [hPe]
    have := hz _ (List.mem_map_of_mem (f := fun t => (∑ i ∈ range n, x i * t ^ i) * (∑ i ∈ range n, x i * t ^ i))
      (List.mem_toFinset.mp ht))
    exact mul_self_eq_zero.mp this
  have hP0 : P = 0 := by
    by_contra hne
    have hdeg : P.natDegree < n := by
      rw [natDegree_lt_iff_degree_lt hne, degree_lt_iff_coeff_zero]
      intro m hm
      rw [hPc, if_neg (by omega)]
    exact hne (eq_zero_of_natDegree_lt_card_of_eval_eq_zero' P xs.toFinset hroot (lt_of_lt_of_le hdeg hdist))
  intro j
  by_cases hj : j < n
  · have := hPc j
    rw [hP0, if_pos hj] at this
    simpa using this.symm
  · exact hsupp j (by omega)

omit [IsStrictOrderedRing α] in
/-- an injective (affine, `a ≠ 0`) re-labelling of the abscissae keeps the number of distinct ones -/
theorem card_map_affine (xs : List α) (a b : α) (ha : a ≠ 0) :
    (xs.map fun x => a * x + b).toFinset.card = xs.toFinset.card := by
  have : (xs.map fun x => a * x + b).toFinset = xs.toFinset.image fun x => a * x + b := by ext x; simp
  rw [this]
  exact Finset.card_image_of_injective _ fun x y h => by
    simpa [ha] using h

/-- **totality of `polyfit`** (the model of `numpy.polyfit` used by the static fit): for ANY data on abscissae with at least
`deg + 1` distinct values (and as many ordinates as abscissae) the unpivoted elimination completes without a zero pivot and
its answer passes the certificate — `polyfit` answers. -/
theorem polyfit_total (xs ys : List α) (deg : ℕ) (hl : xs.length = ys.length) (hdist : deg + 1 ≤ xs.toFinset.card) :
    ∃ p, polyfit xs ys deg = some p := by
  obtain ⟨hlen, hsol⟩ := solve_correct (normalAug xs ys deg) (deg + 1) (normalAug_rect xs ys deg)
    (normalAug_leadingNonsing xs ys deg hdist)
  set s := solve (normalAug xs ys deg) (deg + 1) with hs
  have hcert : normalEqHolds xs ys deg s.reverse = true := by
    unfold normalEqHolds
    simp only [Bool.and_eq_true, beq_iff_eq, List.all_eq_true, List.mem_range, List.length_reverse]
    refine ⟨hlen, fun j hj => ?_⟩
    unfold normalResidual
    rw [sumL_eq_sum, zipWith_eq_map_zip]
    simp only [powN_eq, polyval_reverse, hlen]
    have hrow := hsol j hj
    rw [normalAug_ent_rhs xs ys deg j hj] at hrow
    have e : ∀ i ∈ range (deg + 1), ent (normalAug xs ys deg) j i * s.getD i 0
        = ((xs.zip ys).map fun q => q.1 ^ j * (s.getD i 0 * q.1 ^ i)).sum := by
      intro i hi
      rw [normalAug_ent_coeff xs ys deg j i hj (mem_range.mp hi)]
      have : (xs.zip ys).map (fun q => q.1 ^ j * (s.getD i 0 * q.1 ^ i))
          = ((xs.zip ys).map Prod.fst).map fun t => t ^ j * (s.getD i 0 * t ^ i) := by
        rw [List.map_map]; rfl
      rw [this, List.map_fst_zip (by omega), ← List.sum_map_mul_right]
      congr 1
      refine List.map_congr_left fun t _ => ?_
      rw [pow_add]; ring
    rw [Finset.sum_congr rfl e, ← Cij.Interp.list_sum_finset_sum] at hrow
    have hfin : ((xs.zip ys).map fun q => q.1 ^ j * (∑ i ∈ range (deg + 1), s.getD i 0 * q.1 ^ i - q.2)).sum
        = ((xs.zip ys).map fun q => ∑ i ∈ range (deg + 1), q.1 ^ j * (s.getD i 0 * q.1 ^ i)).sum
          - ((xs.zip ys).map fun q => q.1 ^ j * q.2).sum := by
      have e' : (fun q : α × α => q.1 ^ j * (∑ i ∈ range (deg + 1), s.getD i 0 * q.1 ^ i - q.2))
          = fun q => (∑ i ∈ range (deg + 1), q.1 ^ j * (s.getD i 0 * q.1 ^ i)) + (-1) * (q.1 ^ j * q.2) := by
        funext q
        rw [mul_sub, Finset.mul_sum]; ring
      rw [e', List.sum_map_add, List.sum_map_mul_left]
      ring
    rw [hfin, hrow, sub_self]
  refine ⟨s.reverse, ?_⟩
  unfold polyfit
  have : (xs.length != ys.length) = false := by simp [hl]
  simp only [this, Bool.false_eq_true, if_false, ← hs, hcert, if_true]

end Polyfit

end Cij.LeastSq
